From FP Require Import Lexer Parser ShowPT Digest.
From Coq Require Import String List NArith.
Import ListNotations.
Open Scope string_scope.
Set Printing Width 100000000.
Set Printing Depth 100000000.
Definition nl : string := String (Ascii.ascii_of_nat 10) EmptyString.
Definition model_lex (rs : list rune) : string := show_toks (lex rs).
Definition model_parse (rs : list rune) : string :=
  show_pt (match lex rs with Some ts => parse ts | None => None end).
(* coqc is slow at printing long strings: digests first (Digest.v), full texts on demand *)
Definition check (rs : list rune) : string :=
  digest (model_lex rs) ++ " " ++ digest (model_parse rs).
Definition full (rs : list rune) : string := model_lex rs ++ nl ++ model_parse rs.
Definition terms (ts : list tok) (t : pt) : string :=
  digest (show_toks (Some ts)) ++ " " ++ digest (show_pt (Some t)) ++ " " ++ digest (show_pt (parse ts)).
Definition terms_full (ts : list tok) (t : pt) : string :=
  show_toks (Some ts) ++ nl ++ show_pt (Some t) ++ nl ++ show_pt (parse ts).
Eval vm_compute in ("<<<M23>>>" ++ check (runes_of_ascii "root packet x_y_z
{ int32 lengthOf
    `line1
line2` , }packet
    T{ u16  i64_	, } packet
Z9_ { repeat string//
trueish // `tick` ""quote"" 'q'
`doc`,
} options
/// triple
// 50% %s
{repeatCount
    ='0' //	t
;charz  =
    i16
; tag= ""packet""}

")).
Eval vm_compute in ("<<<M55>>>" ++ check (runes_of_ascii "options {
leftPad
=""x y""
    T
    =
true ;
    } options	{ _x=u8; } options  { u8x // `tick` ""quote"" 'q'
= char[ 1 ]	;
    // trailing space 
    metadata
    =float32 charz
= false ;
int = true
} // a // b")).
Eval vm_compute in ("<<<T55>>>" ++ terms [mkTok 1 "options" 1 0 false; mkTok 2 "{" 1 8 false; mkTok 42 "leftPad" 2 0 false; mkTok 4 "=" 3 0 false; mkTok 31 """x y""" 3 1 false; mkTok 42 "T" 4 4 false; mkTok 4 "=" 5 4 false; mkTok 10 "true" 6 0 false; mkTok 41 ";" 6 5 false; mkTok 3 "}" 7 4 false; mkTok 1 "options" 7 6 false; mkTok 2 "{" 7 14 false; mkTok 42 "_x" 7 16 false; mkTok 4 "=" 7 18 false; mkTok 20 "u8" 7 19 false; mkTok 41 ";" 7 21 false; mkTok 3 "}" 7 23 false; mkTok 1 "options" 7 25 false; mkTok 2 "{" 7 34 false; mkTok 42 "u8x" 7 36 false; mkTok 44 "// `tick` ""quote"" 'q'" 7 40 true; mkTok 4 "=" 8 0 false; mkTok 12 "char[" 8 2 false; mkTok 30 "1" 8 8 false; mkTok 13 "]" 8 10 false; mkTok 41 ";" 8 12 false; mkTok 44 "// trailing space " 9 4 true; mkTok 42 "metadata" 10 4 false; mkTok 4 "=" 11 4 false; mkTok 28 "float32" 11 5 false; mkTok 42 "charz" 11 13 false; mkTok 4 "=" 12 0 false; mkTok 11 "false" 12 2 false; mkTok 41 ";" 12 8 false; mkTok 42 "int" 13 0 false; mkTok 4 "=" 13 4 false; mkTok 10 "true" 13 6 false; mkTok 3 "}" 14 0 false; mkTok 44 "// a // b" 14 2 true; mkTok 0 "<EOF>" 14 11 false] (mkPacket (mkPtok 1 "options" 1 0 0) (Some (mkPtok 3 "}" 14 0 37)) [(DOption (mkOptionDef (mkSpan (mkPtok 1 "options" 1 0 0) (mkPtok 3 "}" 7 4 9)) (mkPtok 1 "options" 1 0 0) (mkPtok 2 "{" 1 8 1) [(mkOptionDecl (mkSpan (mkPtok 42 "leftPad" 2 0 2) (mkPtok 31 """x y""" 3 1 4)) (mkPtok 42 "leftPad" 2 0 2) (mkPtok 4 "=" 3 0 3) (VString (mkSpan (mkPtok 31 """x y""" 3 1 4) (mkPtok 31 """x y""" 3 1 4)) (mkPtok 31 """x y""" 3 1 4)) None); (mkOptionDecl (mkSpan (mkPtok 42 "T" 4 4 5) (mkPtok 41 ";" 6 5 8)) (mkPtok 42 "T" 4 4 5) (mkPtok 4 "=" 5 4 6) (VTrue (mkSpan (mkPtok 10 "true" 6 0 7) (mkPtok 10 "true" 6 0 7)) (mkPtok 10 "true" 6 0 7)) (Some (mkPtok 41 ";" 6 5 8)))] (mkPtok 3 "}" 7 4 9))); (DOption (mkOptionDef (mkSpan (mkPtok 1 "options" 7 6 10) (mkPtok 3 "}" 7 23 16)) (mkPtok 1 "options" 7 6 10) (mkPtok 2 "{" 7 14 11) [(mkOptionDecl (mkSpan (mkPtok 42 "_x" 7 16 12) (mkPtok 41 ";" 7 21 15)) (mkPtok 42 "_x" 7 16 12) (mkPtok 4 "=" 7 18 13) (VType (mkSpan (mkPtok 20 "u8" 7 19 14) (mkPtok 20 "u8" 7 19 14)) (TyBasic (mkSpan (mkPtok 20 "u8" 7 19 14) (mkPtok 20 "u8" 7 19 14)) (mkBasicType (mkSpan (mkPtok 20 "u8" 7 19 14) (mkPtok 20 "u8" 7 19 14)) (mkPtok 20 "u8" 7 19 14)))) (Some (mkPtok 41 ";" 7 21 15)))] (mkPtok 3 "}" 7 23 16))); (DOption (mkOptionDef (mkSpan (mkPtok 1 "options" 7 25 17) (mkPtok 3 "}" 14 0 37)) (mkPtok 1 "options" 7 25 17) (mkPtok 2 "{" 7 34 18) [(mkOptionDecl (mkSpan (mkPtok 42 "u8x" 7 36 19) (mkPtok 41 ";" 8 12 25)) (mkPtok 42 "u8x" 7 36 19) (mkPtok 4 "=" 8 0 21) (VType (mkSpan (mkPtok 12 "char[" 8 2 22) (mkPtok 13 "]" 8 10 24)) (TyFixed (mkSpan (mkPtok 12 "char[" 8 2 22) (mkPtok 13 "]" 8 10 24)) (mkFixedString (mkSpan (mkPtok 12 "char[" 8 2 22) (mkPtok 13 "]" 8 10 24)) (mkPtok 12 "char[" 8 2 22) (mkPtok 30 "1" 8 8 23) (mkPtok 13 "]" 8 10 24)))) (Some (mkPtok 41 ";" 8 12 25))); (mkOptionDecl (mkSpan (mkPtok 42 "metadata" 10 4 27) (mkPtok 28 "float32" 11 5 29)) (mkPtok 42 "metadata" 10 4 27) (mkPtok 4 "=" 11 4 28) (VType (mkSpan (mkPtok 28 "float32" 11 5 29) (mkPtok 28 "float32" 11 5 29)) (TyBasic (mkSpan (mkPtok 28 "float32" 11 5 29) (mkPtok 28 "float32" 11 5 29)) (mkBasicType (mkSpan (mkPtok 28 "float32" 11 5 29) (mkPtok 28 "float32" 11 5 29)) (mkPtok 28 "float32" 11 5 29)))) None); (mkOptionDecl (mkSpan (mkPtok 42 "charz" 11 13 30) (mkPtok 41 ";" 12 8 33)) (mkPtok 42 "charz" 11 13 30) (mkPtok 4 "=" 12 0 31) (VFalse (mkSpan (mkPtok 11 "false" 12 2 32) (mkPtok 11 "false" 12 2 32)) (mkPtok 11 "false" 12 2 32)) (Some (mkPtok 41 ";" 12 8 33))); (mkOptionDecl (mkSpan (mkPtok 42 "int" 13 0 34) (mkPtok 10 "true" 13 6 36)) (mkPtok 42 "int" 13 0 34) (mkPtok 4 "=" 13 4 35) (VTrue (mkSpan (mkPtok 10 "true" 13 6 36) (mkPtok 10 "true" 13 6 36)) (mkPtok 10 "true" 13 6 36)) None)] (mkPtok 3 "}" 14 0 37)))])).
Eval vm_compute in ("<<<M87>>>" ++ check (runes_of_ascii "root
    // @lengthOf(
    packet falsey { // c
repeat// " ++ [128512]%N ++ runes_of_ascii " emoji
zchar[ 42	]  f32a ,
matchKey@lengthOf( // packet A { u8 x, }
x ) , // `tick` ""quote"" 'q'
@calculatedFrom(""{,}""
) @leftPad
('\x00' ) //	t
repeat	f32a , @rightPad ( '\x00'
) T @lengthOf(	o ),
    }")).
Eval vm_compute in ("<<<M119>>>" ++ check (runes_of_ascii "options
{Packet =char[ 7
/// triple
//
] ;
a1
=""it's"" ;}MetaData charz {
    As calculatedFrom , uint8 float
    `{ , }`
, charz msg_type
    , }
    MetaData i8i8
{char[]// " ++ [128512]%N ++ runes_of_ascii " emoji
x_y_z
`say ""hi""`,
}
packet i64_	{ @tag(
0123456789 )
x_y_z@calculatedFrom( ""it's""	) ,@rightPad
(  ' '	) @tag(007 ) leftPad {
    // @lengthOf(
    zchar[ 00 ] Pad, }	,int32
    _x @lengthOf(BodyLength )
,@calculatedFrom(""{,}"" )
    float32 Foo ,rootA
@lengthOf( charz) , f64 _x@calculatedFrom( ""{,}""  )	`a\`
    , }")).
Eval vm_compute in ("<<<M151>>>" ++ check (runes_of_ascii "//	t
packet asx
{ repeat i32 u8x ,
    @calculatedFrom( ""it's""
)
    match uint8x as matchKey { 1  :
// packet A { u8 x, }
// " ++ [128512]%N ++ runes_of_ascii " emoji
chars ,
    // `tick` ""quote"" 'q'
    [255 ]
:
    matchKey
, ""a	b"":	pack ,
    """" :	trueish
}, @leftPad ( '\x00')
char[]	A@calculatedFrom(""a\\""
    ),
    // trailing space 
    match //	t
MetaDataX as uint8x {
    [ ""a	b""
] : As  } , uint8x
{ matchKey {int x_y_z
    // packet A { u8 x, }
    ,}
    , //
}// @lengthOf(
, u8 Logon @lengthOf(  matchKey
    ) , float64 msg_type
@lengthOf( zchar ) ,float x_y_z , @rightPad (  '\x00')match	matchKey	as	lengthOf { [ """ ++ [233]%N ++ runes_of_ascii "t" ++ [233]%N ++ runes_of_ascii """
// packet A { u8 x, }
// 50% %s
,	""{,}""	,3	,// @lengthOf(
""\n""
    , 0
, ""1"" ,""x y"" ] : u
, 10 : // 50% %s
f32a  , 1: chars // @lengthOf(
,42
: Foo 65535: Header
    ,["""" ] : //x
body , } ,
    //x
    match
metadata as trueish { """"
:metadata ,""`tick`""
    : float,	255 : x ,
    } ,
} packet trueish { @lengthOf( stringy ) zchar[ 7 ] x `crlf
line` ,
repeat MetaDataX { i16 Z9_ `two words` , },  @lengthOf( zchar//
) match metadata as	a1 {
    [ // " ++ [128512]%N ++ runes_of_ascii " emoji
""CRC32"" ] : i8i8 ,""a	b""
    :x_y_z ,[ ""1""
,""abc"" ,007 , // `tick` ""quote"" 'q'
4294967296 , 00	,
""// no comment"" ,
    // `tick` ""quote"" 'q'
    ""a\""b""  ]	:
chars , [ ""`tick`"" , ""\" ++ [233]%N ++ runes_of_ascii """ ,	""x y""
,
""a	b"" , ""a\""b""
, ""`tick`""
    //x
    ,
00	] : leftPad, 65535 : Z9_
    // " ++ [128512]%N ++ runes_of_ascii " emoji
    , } , @lengthOf(
falsey )
repeat
    i8i8 ,@calculatedFrom( ""\n"" )// a // b
char[ 42	] // `tick` ""quote"" 'q'
charz  @calculatedFrom( """ ++ [128512]%N ++ runes_of_ascii """)
    , repeat char[] stringy `tab	here`, Packet  @lengthOf( BodyLength )  `" ++ [28040; 24687; 31867; 22411]%N ++ runes_of_ascii "` ,
string u128, i8 o
// c
// 50% %s
`
` , // 50% %s
@leftPad (
'0'
    ) repeat
string Header, } options{ crc =char[007
] packetx=7 ;	} 	 ")).
Eval vm_compute in ("<<<M183>>>" ++ check (runes_of_ascii "options {	metadata =false
// packet A { u8 x, }
// 50% %s
options1 = f64 a1	= char[]
    options1 =  zchar[	7 ]
// @lengthOf(
// trailing space 
; } options{ string_ =7
    // `tick` ""quote"" 'q'
    ;
MetaDataX =
    ""a	b""
int=
false ; }")).
Eval vm_compute in ("<<<M215>>>" ++ check (runes_of_ascii "packet i8i8  { string
    // `tick` ""quote"" 'q'
    string_ `crlf
line`
    , pack , As
// trailing space 
// trailing space 
@calculatedFrom( ""a	b""
    ) ,  f32 body
`tab	here` , repeatCount
@calculatedFrom( """ ++ [28040; 24687]%N ++ runes_of_ascii """), char[  255 ] packetx , @calculatedFrom(
    ""\" ++ [233]%N ++ runes_of_ascii """ ) @calculatedFrom(  ""abc""  ) @rightPad ( ) // @lengthOf(
x`two words` , @calculatedFrom( ""a	b"")i32 stringy
    , @rightPad // trailing space 
()
    Header
    `tab	here`	,
} packet i64_ {
@rightPad ( )
    char[
10 ]i8i8	, u {
char[]
    roots
    @calculatedFrom(
""a\\"" // trailing space 
) `it's` , } , len charz , float64 Z9_, int64 asx
@lengthOf(
    stringy ) `doc` ,uint8 repeatCount , uint16 i64_ , }
MetaData// c
Header {
    // c
    }
    packet As // a // b
{ match //	t
uint8x as tag {[
    ""CRC32"" ,
""it's""  , 1
    , ""{,}"" ,
"""" ] // c
: charz ,
""""
    //
    : asx } ,//x
}
    packet lengthOf
{ string_
@lengthOf(f32a// c
) `say ""hi""`  ,
    @leftPad// `tick` ""quote"" 'q'
(//	t
) char[] matchKey ,repeat
    float32
Packet `crlf
line`, @tag( 255
/// triple
//	t
) float { repeat
x
    {
int , int16
Packet@calculatedFrom(  """")
    , } ,trueish { match calculatedFrom	as// @lengthOf(
matchKey {  [
10 ]  :Foo, ""\n""  :MetaDataX // `tick` ""quote"" 'q'
,}
, u16 options1
// 50% %s
// 50% %s
`line1
line2`, } ,
a1
crc
    `{ , }` ,repeat zchar `` ,
}	,
// 50% %s
//	t
@tag(// `tick` ""quote"" 'q'
4294967296	)@tag( 007/// triple
)
    @calculatedFrom(
    """" )
i16 _x ``, @leftPad( '0' ) repeat	uint16 roots
    ,repeat stringy{Header{
// @lengthOf(
// " ++ [27880; 37322]%N ++ runes_of_ascii "
i16 As @calculatedFrom( ""\" ++ [233]%N ++ runes_of_ascii """
    // @lengthOf(
    ) `` , x {	repeat zchar[ 007 ]
    asx , match Packet as string_{
007: chars , [ /// triple
""\" ++ [233]%N ++ runes_of_ascii """ , 255 ,	""" ++ [28040; 24687]%N ++ runes_of_ascii """
    , 42
,00 ,""\" ++ [233]%N ++ runes_of_ascii """ ,""abc""
    , 007
    ]	:// " ++ [27880; 37322]%N ++ runes_of_ascii "
leftPad ,42 : metadata [
    """ ++ [28040; 24687]%N ++ runes_of_ascii """ , ""\n""//x
]
:
T 3 :
repeatCount ,	},
char[	4294967296] MetaDataX
,i64 f32a , } , } , repeat int32 msg_type,
    // a // b
    } , @lengthOf( charz
) // " ++ [27880; 37322]%N ++ runes_of_ascii "
trueish
    // trailing space 
    leftPad  `doc`
    , @lengthOf( f32a) T u `` //x
,	@leftPad (
'\x00' )
    u8 x_y_z@lengthOf(
T ) `two words` ,}")).
Eval vm_compute in ("<<<M247>>>" ++ check (@nil rune)).
Eval vm_compute in ("<<<M279>>>" ++ check (runes_of_ascii "  packet
stringy
    {	@tag(  0 ) @calculatedFrom(
    // 50% %s
    ""1"") @calculatedFrom(
"""")string chars
    `a\` , @calculatedFrom(
    """ ++ [28040; 24687]%N ++ runes_of_ascii """
) asx metadata
    `" ++ [233]%N ++ runes_of_ascii "`
    , }")).
Eval vm_compute in ("<<<T279>>>" ++ terms [mkTok 35 "packet" 1 2 false; mkTok 42 "stringy" 2 0 false; mkTok 2 "{" 3 4 false; mkTok 9 "@tag(" 3 6 false; mkTok 30 "0" 3 13 false; mkTok 6 ")" 3 15 false; mkTok 5 "@calculatedFrom(" 3 17 false; mkTok 44 "// 50% %s" 4 4 true; mkTok 31 """1""" 5 4 false; mkTok 6 ")" 5 7 false; mkTok 5 "@calculatedFrom(" 5 9 false; mkTok 31 """""" 6 0 false; mkTok 6 ")" 6 2 false; mkTok 15 "string" 6 3 false; mkTok 42 "chars" 6 10 false; mkTok 43 "`a\`" 7 4 false; mkTok 40 "," 7 9 false; mkTok 5 "@calculatedFrom(" 7 11 false; mkTok 31 (string_of_bytes [34; 230; 182; 136; 230; 129; 175; 34]%N) 8 4 false; mkTok 6 ")" 9 0 false; mkTok 42 "asx" 9 2 false; mkTok 42 "metadata" 9 6 false; mkTok 43 (string_of_bytes [96; 195; 169; 96]%N) 10 4 false; mkTok 40 "," 11 4 false; mkTok 3 "}" 11 6 false; mkTok 0 "<EOF>" 11 7 false] (mkPacket (mkPtok 35 "packet" 1 2 0) (Some (mkPtok 3 "}" 11 6 24)) [(DPacket (mkPacketDef (mkSpan (mkPtok 35 "packet" 1 2 0) (mkPtok 3 "}" 11 6 24)) None (mkPtok 35 "packet" 1 2 0) (mkPtok 42 "stringy" 2 0 1) (mkPtok 2 "{" 3 4 2) [(mkFieldWithAttr (mkSpan (mkPtok 9 "@tag(" 3 6 3) (mkPtok 40 "," 7 9 16)) [(FATag (mkSpan (mkPtok 9 "@tag(" 3 6 3) (mkPtok 6 ")" 3 15 5)) (mkTagAttr (mkSpan (mkPtok 9 "@tag(" 3 6 3) (mkPtok 6 ")" 3 15 5)) (mkPtok 9 "@tag(" 3 6 3) (mkPtok 30 "0" 3 13 4) (mkPtok 6 ")" 3 15 5))); (FACalculatedFrom (mkSpan (mkPtok 5 "@calculatedFrom(" 3 17 6) (mkPtok 6 ")" 5 7 9)) (mkCalculatedFrom (mkSpan (mkPtok 5 "@calculatedFrom(" 3 17 6) (mkPtok 6 ")" 5 7 9)) (mkPtok 5 "@calculatedFrom(" 3 17 6) (mkPtok 31 """1""" 5 4 8) (mkPtok 6 ")" 5 7 9))); (FACalculatedFrom (mkSpan (mkPtok 5 "@calculatedFrom(" 5 9 10) (mkPtok 6 ")" 6 2 12)) (mkCalculatedFrom (mkSpan (mkPtok 5 "@calculatedFrom(" 5 9 10) (mkPtok 6 ")" 6 2 12)) (mkPtok 5 "@calculatedFrom(" 5 9 10) (mkPtok 31 """""" 6 0 11) (mkPtok 6 ")" 6 2 12)))] (MetaField (mkSpan (mkPtok 15 "string" 6 3 13) (mkPtok 40 "," 7 9 16)) None (mkMetaDecl (mkSpan (mkPtok 15 "string" 6 3 13) (mkPtok 40 "," 7 9 16)) (TyDynamic (mkSpan (mkPtok 15 "string" 6 3 13) (mkPtok 15 "string" 6 3 13)) (mkDynamicString (mkSpan (mkPtok 15 "string" 6 3 13) (mkPtok 15 "string" 6 3 13)) (mkPtok 15 "string" 6 3 13))) (mkPtok 42 "chars" 6 10 14) (Some (mkPtok 43 "`a\`" 7 4 15)) (mkPtok 40 "," 7 9 16)))); (mkFieldWithAttr (mkSpan (mkPtok 5 "@calculatedFrom(" 7 11 17) (mkPtok 40 "," 11 4 23)) [(FACalculatedFrom (mkSpan (mkPtok 5 "@calculatedFrom(" 7 11 17) (mkPtok 6 ")" 9 0 19)) (mkCalculatedFrom (mkSpan (mkPtok 5 "@calculatedFrom(" 7 11 17) (mkPtok 6 ")" 9 0 19)) (mkPtok 5 "@calculatedFrom(" 7 11 17) (mkPtok 31 (string_of_bytes [34; 230; 182; 136; 230; 129; 175; 34]%N) 8 4 18) (mkPtok 6 ")" 9 0 19)))] (ObjectField (mkSpan (mkPtok 42 "asx" 9 2 20) (mkPtok 40 "," 11 4 23)) None (mkPtok 42 "asx" 9 2 20) (Some (mkPtok 42 "metadata" 9 6 21)) (Some (mkPtok 43 (string_of_bytes [96; 195; 169; 96]%N) 10 4 22)) (mkPtok 40 "," 11 4 23)))] (mkPtok 3 "}" 11 6 24)))])).
Eval vm_compute in ("<<<M311>>>" ++ check (runes_of_ascii "root // `tick` ""quote"" 'q'
packet crc // " ++ [27880; 37322]%N ++ runes_of_ascii "
{ }
// " ++ [27880; 37322]%N ++ runes_of_ascii "
")).
Eval vm_compute in ("<<<M343>>>" ++ check (runes_of_ascii "
options { i64_
    = 7 chars = true; stringy =
//x
/// triple
'\x00' x_y_z = false	;
}
// " ++ [27880; 37322]%N ++ runes_of_ascii "
")).
Eval vm_compute in ("<<<M375>>>" ++ check (runes_of_ascii "packet
// " ++ [128512]%N ++ runes_of_ascii " emoji
//x
leftPad {	} MetaData trueish  { i64_ roots// @lengthOf(
,} root packet i8i8 { @leftPad ('0'
) _x _x // " ++ [128512]%N ++ runes_of_ascii " emoji
`` , // packet A { u8 x, }
} // packet A { u8 x, }")).
Eval vm_compute in ("<<<M407>>>" ++ check (runes_of_ascii "packet u8x
{  }
")).
Eval vm_compute in ("<<<M439>>>" ++ check (runes_of_ascii "

")).
Eval vm_compute in ("<<<M471>>>" ++ check (runes_of_ascii "packet// trailing space 
options1
{ } // `tick` ""quote"" 'q'")).
Eval vm_compute in ("<<<M503>>>" ++ check (runes_of_ascii "packet
Logon {
string Header `line1
line2` ,@lengthOf( u )
    char[] Z9_@calculatedFrom( ""x y"" ) , int @lengthOf( Packet
    // " ++ [128512]%N ++ runes_of_ascii " emoji
    )	,	char[ 0] tag  , // a // b
match crc as
    int { ["""", 10
    ]:  pack , [ 42 ,007, 1 // c
, ""\n"" , """ ++ [28040; 24687]%N ++ runes_of_ascii """]:options1 ,0123456789
    // " ++ [128512]%N ++ runes_of_ascii " emoji
    :
// `tick` ""quote"" 'q'
// " ++ [128512]%N ++ runes_of_ascii " emoji
lengthOf
// `tick` ""quote"" 'q'
//x
,  65535
:
matchKey
    """ ++ [128512]%N ++ runes_of_ascii """ : As ,
    ""\n""  : charz ,} , int8
    i8i8
    ,x_y_z @lengthOf( options1 ), //x
}
packet int { @lengthOf( BodyLength // @lengthOf(
)
    //x
    @calculatedFrom( """"	)  @calculatedFrom(
    // trailing space 
    ""// no comment"")repeat char[]leftPad
// " ++ [128512]%N ++ runes_of_ascii " emoji
// " ++ [27880; 37322]%N ++ runes_of_ascii "
`100% of %d`
    ,
MetaDataX `
` ,
// a // b
// `tick` ""quote"" 'q'
repeat i64
// c
// `tick` ""quote"" 'q'
T
    , //
repeat float { repeat
    zchar[ 1] len `// not a comment`  ,// " ++ [128512]%N ++ runes_of_ascii " emoji
match	Logon
    //	t
    as len
    { [
    255 ]  : options1 , // trailing space 
[
""a\""b"" , ""\" ++ [233]%N ++ runes_of_ascii """ , 0123456789
,0123456789	,
// `tick` ""quote"" 'q'
// c
7
]
:options1
// " ++ [27880; 37322]%N ++ runes_of_ascii "
//
,[ 4294967296 , ""a\""b"" ] : tag
42 : T
[
4294967296,
""`tick`""] : charz , [ 0 , """ ++ [233]%N ++ runes_of_ascii "t" ++ [233]%N ++ runes_of_ascii """ ] :
len	}
, repeat f64 zchar `say ""hi""`
, repeat i64
i64_ `// not a comment` , //	t
} ,
match u128 as Header	{
""" ++ [128512]%N ++ runes_of_ascii """:
x_y_z ""// no comment"" :
A ,[
    0
] : int ,  }, @rightPad( ' ') pack ,}
")).
Eval vm_compute in ("<<<T503>>>" ++ terms [mkTok 35 "packet" 1 0 false; mkTok 42 "Logon" 2 0 false; mkTok 2 "{" 2 6 false; mkTok 15 "string" 3 0 false; mkTok 42 "Header" 3 7 false; mkTok 43 (string_of_bytes [96; 108; 105; 110; 101; 49; 10; 108; 105; 110; 101; 50; 96]%N) 3 14 false; mkTok 40 "," 4 7 false; mkTok 7 "@lengthOf(" 4 8 false; mkTok 42 "u" 4 19 false; mkTok 6 ")" 4 21 false; mkTok 16 "char[]" 5 4 false; mkTok 42 "Z9_" 5 11 false; mkTok 5 "@calculatedFrom(" 5 14 false; mkTok 31 """x y""" 5 31 false; mkTok 6 ")" 5 37 false; mkTok 40 "," 5 39 false; mkTok 42 "int" 5 41 false; mkTok 7 "@lengthOf(" 5 45 false; mkTok 42 "Packet" 5 56 false; mkTok 44 (string_of_bytes [47; 47; 32; 240; 159; 152; 128; 32; 101; 109; 111; 106; 105]%N) 6 4 true; mkTok 6 ")" 7 4 false; mkTok 40 "," 7 6 false; mkTok 12 "char[" 7 8 false; mkTok 30 "0" 7 14 false; mkTok 13 "]" 7 15 false; mkTok 42 "tag" 7 17 false; mkTok 40 "," 7 22 false; mkTok 44 "// a // b" 7 24 true; mkTok 38 "match" 8 0 false; mkTok 42 "crc" 8 6 false; mkTok 17 "as" 8 10 false; mkTok 42 "int" 9 4 false; mkTok 2 "{" 9 8 false; mkTok 18 "[" 9 10 false; mkTok 31 """""" 9 11 false; mkTok 40 "," 9 13 false; mkTok 30 "10" 9 15 false; mkTok 13 "]" 10 4 false; mkTok 39 ":" 10 5 false; mkTok 42 "pack" 10 8 false; mkTok 40 "," 10 13 false; mkTok 18 "[" 10 15 false; mkTok 30 "42" 10 17 false; mkTok 40 "," 10 20 false; mkTok 30 "007" 10 21 false; mkTok 40 "," 10 24 false; mkTok 30 "1" 10 26 false; mkTok 44 "// c" 10 28 true; mkTok 40 "," 11 0 false; mkTok 31 """\n""" 11 2 false; mkTok 40 "," 11 7 false; mkTok 31 (string_of_bytes [34; 230; 182; 136; 230; 129; 175; 34]%N) 11 9 false; mkTok 13 "]" 11 13 false; mkTok 39 ":" 11 14 false; mkTok 42 "options1" 11 15 false; mkTok 40 "," 11 24 false; mkTok 30 "0123456789" 11 25 false; mkTok 44 (string_of_bytes [47; 47; 32; 240; 159; 152; 128; 32; 101; 109; 111; 106; 105]%N) 12 4 true; mkTok 39 ":" 13 4 false; mkTok 44 "// `tick` ""quote"" 'q'" 14 0 true; mkTok 44 (string_of_bytes [47; 47; 32; 240; 159; 152; 128; 32; 101; 109; 111; 106; 105]%N) 15 0 true; mkTok 42 "lengthOf" 16 0 false; mkTok 44 "// `tick` ""quote"" 'q'" 17 0 true; mkTok 44 "//x" 18 0 true; mkTok 40 "," 19 0 false; mkTok 30 "65535" 19 3 false; mkTok 39 ":" 20 0 false; mkTok 42 "matchKey" 21 0 false; mkTok 31 (string_of_bytes [34; 240; 159; 152; 128; 34]%N) 22 4 false; mkTok 39 ":" 22 8 false; mkTok 42 "As" 22 10 false; mkTok 40 "," 22 13 false; mkTok 31 """\n""" 23 4 false; mkTok 39 ":" 23 10 false; mkTok 42 "charz" 23 12 false; mkTok 40 "," 23 18 false; mkTok 3 "}" 23 19 false; mkTok 40 "," 23 21 false; mkTok 24 "int8" 23 23 false; mkTok 42 "i8i8" 24 4 false; mkTok 40 "," 25 4 false; mkTok 42 "x_y_z" 25 5 false; mkTok 7 "@lengthOf(" 25 11 false; mkTok 42 "options1" 25 22 false; mkTok 6 ")" 25 31 false; mkTok 40 "," 25 32 false; mkTok 44 "//x" 25 34 true; mkTok 3 "}" 26 0 false; mkTok 35 "packet" 27 0 false; mkTok 42 "int" 27 7 false; mkTok 2 "{" 27 11 false; mkTok 7 "@lengthOf(" 27 13 false; mkTok 42 "BodyLength" 27 24 false; mkTok 44 "// @lengthOf(" 27 35 true; mkTok 6 ")" 28 0 false; mkTok 44 "//x" 29 4 true; mkTok 5 "@calculatedFrom(" 30 4 false; mkTok 31 """""" 30 21 false; mkTok 6 ")" 30 24 false; mkTok 5 "@calculatedFrom(" 30 27 false; mkTok 44 "// trailing space " 31 4 true; mkTok 31 """// no comment""" 32 4 false; mkTok 6 ")" 32 19 false; mkTok 36 "repeat" 32 20 false; mkTok 16 "char[]" 32 27 false; mkTok 42 "leftPad" 32 33 false; mkTok 44 (string_of_bytes [47; 47; 32; 240; 159; 152; 128; 32; 101; 109; 111; 106; 105]%N) 33 0 true; mkTok 44 (string_of_bytes [47; 47; 32; 230; 179; 168; 233; 135; 138]%N) 34 0 true; mkTok 43 "`100% of %d`" 35 0 false; mkTok 40 "," 36 4 false; mkTok 42 "MetaDataX" 37 0 false; mkTok 43 (string_of_bytes [96; 10; 96]%N) 37 10 false; mkTok 40 "," 38 2 false; mkTok 44 "// a // b" 39 0 true; mkTok 44 "// `tick` ""quote"" 'q'" 40 0 true; mkTok 36 "repeat" 41 0 false; mkTok 27 "i64" 41 7 false; mkTok 44 "// c" 42 0 true; mkTok 44 "// `tick` ""quote"" 'q'" 43 0 true; mkTok 42 "T" 44 0 false; mkTok 40 "," 45 4 false; mkTok 44 "//" 45 6 true; mkTok 36 "repeat" 46 0 false; mkTok 42 "float" 46 7 false; mkTok 2 "{" 46 13 false; mkTok 36 "repeat" 46 15 false; mkTok 14 "zchar[" 47 4 false; mkTok 30 "1" 47 11 false; mkTok 13 "]" 47 12 false; mkTok 42 "len" 47 14 false; mkTok 43 "`// not a comment`" 47 18 false; mkTok 40 "," 47 38 false; mkTok 44 (string_of_bytes [47; 47; 32; 240; 159; 152; 128; 32; 101; 109; 111; 106; 105]%N) 47 39 true; mkTok 38 "match" 48 0 false; mkTok 42 "Logon" 48 6 false; mkTok 44 (string_of_bytes [47; 47; 9; 116]%N) 49 4 true; mkTok 17 "as" 50 4 false; mkTok 42 "len" 50 7 false; mkTok 2 "{" 51 4 false; mkTok 18 "[" 51 6 false; mkTok 30 "255" 52 4 false; mkTok 13 "]" 52 8 false; mkTok 39 ":" 52 11 false; mkTok 42 "options1" 52 13 false; mkTok 40 "," 52 22 false; mkTok 44 "// trailing space " 52 24 true; mkTok 18 "[" 53 0 false; mkTok 31 """a\""b""" 54 0 false; mkTok 40 "," 54 7 false; mkTok 31 (string_of_bytes [34; 92; 195; 169; 34]%N) 54 9 false; mkTok 40 "," 54 14 false; mkTok 30 "0123456789" 54 16 false; mkTok 40 "," 55 0 false; mkTok 30 "0123456789" 55 1 false; mkTok 40 "," 55 12 false; mkTok 44 "// `tick` ""quote"" 'q'" 56 0 true; mkTok 44 "// c" 57 0 true; mkTok 30 "7" 58 0 false; mkTok 13 "]" 59 0 false; mkTok 39 ":" 60 0 false; mkTok 42 "options1" 60 1 false; mkTok 44 (string_of_bytes [47; 47; 32; 230; 179; 168; 233; 135; 138]%N) 61 0 true; mkTok 44 "//" 62 0 true; mkTok 40 "," 63 0 false; mkTok 18 "[" 63 1 false; mkTok 30 "4294967296" 63 3 false; mkTok 40 "," 63 14 false; mkTok 31 """a\""b""" 63 16 false; mkTok 13 "]" 63 23 false; mkTok 39 ":" 63 25 false; mkTok 42 "tag" 63 27 false; mkTok 30 "42" 64 0 false; mkTok 39 ":" 64 3 false; mkTok 42 "T" 64 5 false; mkTok 18 "[" 65 0 false; mkTok 30 "4294967296" 66 0 false; mkTok 40 "," 66 10 false; mkTok 31 """`tick`""" 67 0 false; mkTok 13 "]" 67 8 false; mkTok 39 ":" 67 10 false; mkTok 42 "charz" 67 12 false; mkTok 40 "," 67 18 false; mkTok 18 "[" 67 20 false; mkTok 30 "0" 67 22 false; mkTok 40 "," 67 24 false; mkTok 31 (string_of_bytes [34; 195; 169; 116; 195; 169; 34]%N) 67 26 false; mkTok 13 "]" 67 32 false; mkTok 39 ":" 67 34 false; mkTok 42 "len" 68 0 false; mkTok 3 "}" 68 4 false; mkTok 40 "," 69 0 false; mkTok 36 "repeat" 69 2 false; mkTok 29 "f64" 69 9 false; mkTok 42 "zchar" 69 13 false; mkTok 43 "`say ""hi""`" 69 19 false; mkTok 40 "," 70 0 false; mkTok 36 "repeat" 70 2 false; mkTok 27 "i64" 70 9 false; mkTok 42 "i64_" 71 0 false; mkTok 43 "`// not a comment`" 71 5 false; mkTok 40 "," 71 24 false; mkTok 44 (string_of_bytes [47; 47; 9; 116]%N) 71 26 true; mkTok 3 "}" 72 0 false; mkTok 40 "," 72 2 false; mkTok 38 "match" 73 0 false; mkTok 42 "u128" 73 6 false; mkTok 17 "as" 73 11 false; mkTok 42 "Header" 73 14 false; mkTok 2 "{" 73 21 false; mkTok 31 (string_of_bytes [34; 240; 159; 152; 128; 34]%N) 74 0 false; mkTok 39 ":" 74 3 false; mkTok 42 "x_y_z" 75 0 false; mkTok 31 """// no comment""" 75 6 false; mkTok 39 ":" 75 22 false; mkTok 42 "A" 76 0 false; mkTok 40 "," 76 2 false; mkTok 18 "[" 76 3 false; mkTok 30 "0" 77 4 false; mkTok 13 "]" 78 0 false; mkTok 39 ":" 78 2 false; mkTok 42 "int" 78 4 false; mkTok 40 "," 78 8 false; mkTok 3 "}" 78 11 false; mkTok 40 "," 78 12 false; mkTok 32 "@rightPad" 78 14 false; mkTok 8 "(" 78 23 false; mkTok 33 "' '" 78 25 false; mkTok 6 ")" 78 28 false; mkTok 42 "pack" 78 30 false; mkTok 40 "," 78 35 false; mkTok 3 "}" 78 36 false; mkTok 0 "<EOF>" 79 0 false] (mkPacket (mkPtok 35 "packet" 1 0 0) (Some (mkPtok 3 "}" 78 36 230)) [(DPacket (mkPacketDef (mkSpan (mkPtok 35 "packet" 1 0 0) (mkPtok 3 "}" 26 0 87)) None (mkPtok 35 "packet" 1 0 0) (mkPtok 42 "Logon" 2 0 1) (mkPtok 2 "{" 2 6 2) [(mkFieldWithAttr (mkSpan (mkPtok 15 "string" 3 0 3) (mkPtok 40 "," 4 7 6)) [] (MetaField (mkSpan (mkPtok 15 "string" 3 0 3) (mkPtok 40 "," 4 7 6)) None (mkMetaDecl (mkSpan (mkPtok 15 "string" 3 0 3) (mkPtok 40 "," 4 7 6)) (TyDynamic (mkSpan (mkPtok 15 "string" 3 0 3) (mkPtok 15 "string" 3 0 3)) (mkDynamicString (mkSpan (mkPtok 15 "string" 3 0 3) (mkPtok 15 "string" 3 0 3)) (mkPtok 15 "string" 3 0 3))) (mkPtok 42 "Header" 3 7 4) (Some (mkPtok 43 (string_of_bytes [96; 108; 105; 110; 101; 49; 10; 108; 105; 110; 101; 50; 96]%N) 3 14 5)) (mkPtok 40 "," 4 7 6)))); (mkFieldWithAttr (mkSpan (mkPtok 7 "@lengthOf(" 4 8 7) (mkPtok 40 "," 5 39 15)) [(FALengthOf (mkSpan (mkPtok 7 "@lengthOf(" 4 8 7) (mkPtok 6 ")" 4 21 9)) (mkLengthOf (mkSpan (mkPtok 7 "@lengthOf(" 4 8 7) (mkPtok 6 ")" 4 21 9)) (mkPtok 7 "@lengthOf(" 4 8 7) (mkPtok 42 "u" 4 19 8) (mkPtok 6 ")" 4 21 9)))] (CheckSumField (mkSpan (mkPtok 16 "char[]" 5 4 10) (mkPtok 40 "," 5 39 15)) (mkChecksumFieldDecl (mkSpan (mkPtok 16 "char[]" 5 4 10) (mkPtok 40 "," 5 39 15)) (Some (TyDynamic (mkSpan (mkPtok 16 "char[]" 5 4 10) (mkPtok 16 "char[]" 5 4 10)) (mkDynamicString (mkSpan (mkPtok 16 "char[]" 5 4 10) (mkPtok 16 "char[]" 5 4 10)) (mkPtok 16 "char[]" 5 4 10)))) (mkPtok 42 "Z9_" 5 11 11) (mkCalculatedFrom (mkSpan (mkPtok 5 "@calculatedFrom(" 5 14 12) (mkPtok 6 ")" 5 37 14)) (mkPtok 5 "@calculatedFrom(" 5 14 12) (mkPtok 31 """x y""" 5 31 13) (mkPtok 6 ")" 5 37 14)) None (mkPtok 40 "," 5 39 15)))); (mkFieldWithAttr (mkSpan (mkPtok 42 "int" 5 41 16) (mkPtok 40 "," 7 6 21)) [] (LengthField (mkSpan (mkPtok 42 "int" 5 41 16) (mkPtok 40 "," 7 6 21)) (mkLengthFieldDecl (mkSpan (mkPtok 42 "int" 5 41 16) (mkPtok 40 "," 7 6 21)) None (mkPtok 42 "int" 5 41 16) (mkLengthOf (mkSpan (mkPtok 7 "@lengthOf(" 5 45 17) (mkPtok 6 ")" 7 4 20)) (mkPtok 7 "@lengthOf(" 5 45 17) (mkPtok 42 "Packet" 5 56 18) (mkPtok 6 ")" 7 4 20)) None (mkPtok 40 "," 7 6 21)))); (mkFieldWithAttr (mkSpan (mkPtok 12 "char[" 7 8 22) (mkPtok 40 "," 7 22 26)) [] (MetaField (mkSpan (mkPtok 12 "char[" 7 8 22) (mkPtok 40 "," 7 22 26)) None (mkMetaDecl (mkSpan (mkPtok 12 "char[" 7 8 22) (mkPtok 40 "," 7 22 26)) (TyFixed (mkSpan (mkPtok 12 "char[" 7 8 22) (mkPtok 13 "]" 7 15 24)) (mkFixedString (mkSpan (mkPtok 12 "char[" 7 8 22) (mkPtok 13 "]" 7 15 24)) (mkPtok 12 "char[" 7 8 22) (mkPtok 30 "0" 7 14 23) (mkPtok 13 "]" 7 15 24))) (mkPtok 42 "tag" 7 17 25) None (mkPtok 40 "," 7 22 26)))); (mkFieldWithAttr (mkSpan (mkPtok 38 "match" 8 0 28) (mkPtok 40 "," 23 21 77)) [] (MatchField (mkSpan (mkPtok 38 "match" 8 0 28) (mkPtok 40 "," 23 21 77)) (mkMatchFieldDecl (mkSpan (mkPtok 38 "match" 8 0 28) (mkPtok 3 "}" 23 19 76)) (mkPtok 38 "match" 8 0 28) (mkPtok 42 "crc" 8 6 29) (mkPtok 17 "as" 8 10 30) (mkPtok 42 "int" 9 4 31) (mkPtok 2 "{" 9 8 32) [(mkMatchPair (mkSpan (mkPtok 18 "[" 9 10 33) (mkPtok 40 "," 10 13 40)) (MKList (mkKeyList (mkSpan (mkPtok 18 "[" 9 10 33) (mkPtok 13 "]" 10 4 37)) (mkPtok 18 "[" 9 10 33) (mkPtok 31 """""" 9 11 34) [((mkPtok 40 "," 9 13 35), (mkPtok 30 "10" 9 15 36))] (mkPtok 13 "]" 10 4 37))) (mkPtok 39 ":" 10 5 38) (mkPtok 42 "pack" 10 8 39) (Some (mkPtok 40 "," 10 13 40))); (mkMatchPair (mkSpan (mkPtok 18 "[" 10 15 41) (mkPtok 40 "," 11 24 55)) (MKList (mkKeyList (mkSpan (mkPtok 18 "[" 10 15 41) (mkPtok 13 "]" 11 13 52)) (mkPtok 18 "[" 10 15 41) (mkPtok 30 "42" 10 17 42) [((mkPtok 40 "," 10 20 43), (mkPtok 30 "007" 10 21 44)); ((mkPtok 40 "," 10 24 45), (mkPtok 30 "1" 10 26 46)); ((mkPtok 40 "," 11 0 48), (mkPtok 31 """\n""" 11 2 49)); ((mkPtok 40 "," 11 7 50), (mkPtok 31 (string_of_bytes [34; 230; 182; 136; 230; 129; 175; 34]%N) 11 9 51))] (mkPtok 13 "]" 11 13 52))) (mkPtok 39 ":" 11 14 53) (mkPtok 42 "options1" 11 15 54) (Some (mkPtok 40 "," 11 24 55))); (mkMatchPair (mkSpan (mkPtok 30 "0123456789" 11 25 56) (mkPtok 40 "," 19 0 64)) (MKDigits (mkPtok 30 "0123456789" 11 25 56)) (mkPtok 39 ":" 13 4 58) (mkPtok 42 "lengthOf" 16 0 61) (Some (mkPtok 40 "," 19 0 64))); (mkMatchPair (mkSpan (mkPtok 30 "65535" 19 3 65) (mkPtok 42 "matchKey" 21 0 67)) (MKDigits (mkPtok 30 "65535" 19 3 65)) (mkPtok 39 ":" 20 0 66) (mkPtok 42 "matchKey" 21 0 67) None); (mkMatchPair (mkSpan (mkPtok 31 (string_of_bytes [34; 240; 159; 152; 128; 34]%N) 22 4 68) (mkPtok 40 "," 22 13 71)) (MKString (mkPtok 31 (string_of_bytes [34; 240; 159; 152; 128; 34]%N) 22 4 68)) (mkPtok 39 ":" 22 8 69) (mkPtok 42 "As" 22 10 70) (Some (mkPtok 40 "," 22 13 71))); (mkMatchPair (mkSpan (mkPtok 31 """\n""" 23 4 72) (mkPtok 40 "," 23 18 75)) (MKString (mkPtok 31 """\n""" 23 4 72)) (mkPtok 39 ":" 23 10 73) (mkPtok 42 "charz" 23 12 74) (Some (mkPtok 40 "," 23 18 75)))] (mkPtok 3 "}" 23 19 76)) (mkPtok 40 "," 23 21 77))); (mkFieldWithAttr (mkSpan (mkPtok 24 "int8" 23 23 78) (mkPtok 40 "," 25 4 80)) [] (MetaField (mkSpan (mkPtok 24 "int8" 23 23 78) (mkPtok 40 "," 25 4 80)) None (mkMetaDecl (mkSpan (mkPtok 24 "int8" 23 23 78) (mkPtok 40 "," 25 4 80)) (TyBasic (mkSpan (mkPtok 24 "int8" 23 23 78) (mkPtok 24 "int8" 23 23 78)) (mkBasicType (mkSpan (mkPtok 24 "int8" 23 23 78) (mkPtok 24 "int8" 23 23 78)) (mkPtok 24 "int8" 23 23 78))) (mkPtok 42 "i8i8" 24 4 79) None (mkPtok 40 "," 25 4 80)))); (mkFieldWithAttr (mkSpan (mkPtok 42 "x_y_z" 25 5 81) (mkPtok 40 "," 25 32 85)) [] (LengthField (mkSpan (mkPtok 42 "x_y_z" 25 5 81) (mkPtok 40 "," 25 32 85)) (mkLengthFieldDecl (mkSpan (mkPtok 42 "x_y_z" 25 5 81) (mkPtok 40 "," 25 32 85)) None (mkPtok 42 "x_y_z" 25 5 81) (mkLengthOf (mkSpan (mkPtok 7 "@lengthOf(" 25 11 82) (mkPtok 6 ")" 25 31 84)) (mkPtok 7 "@lengthOf(" 25 11 82) (mkPtok 42 "options1" 25 22 83) (mkPtok 6 ")" 25 31 84)) None (mkPtok 40 "," 25 32 85))))] (mkPtok 3 "}" 26 0 87))); (DPacket (mkPacketDef (mkSpan (mkPtok 35 "packet" 27 0 88) (mkPtok 3 "}" 78 36 230)) None (mkPtok 35 "packet" 27 0 88) (mkPtok 42 "int" 27 7 89) (mkPtok 2 "{" 27 11 90) [(mkFieldWithAttr (mkSpan (mkPtok 7 "@lengthOf(" 27 13 91) (mkPtok 40 "," 36 4 109)) [(FALengthOf (mkSpan (mkPtok 7 "@lengthOf(" 27 13 91) (mkPtok 6 ")" 28 0 94)) (mkLengthOf (mkSpan (mkPtok 7 "@lengthOf(" 27 13 91) (mkPtok 6 ")" 28 0 94)) (mkPtok 7 "@lengthOf(" 27 13 91) (mkPtok 42 "BodyLength" 27 24 92) (mkPtok 6 ")" 28 0 94))); (FACalculatedFrom (mkSpan (mkPtok 5 "@calculatedFrom(" 30 4 96) (mkPtok 6 ")" 30 24 98)) (mkCalculatedFrom (mkSpan (mkPtok 5 "@calculatedFrom(" 30 4 96) (mkPtok 6 ")" 30 24 98)) (mkPtok 5 "@calculatedFrom(" 30 4 96) (mkPtok 31 """""" 30 21 97) (mkPtok 6 ")" 30 24 98))); (FACalculatedFrom (mkSpan (mkPtok 5 "@calculatedFrom(" 30 27 99) (mkPtok 6 ")" 32 19 102)) (mkCalculatedFrom (mkSpan (mkPtok 5 "@calculatedFrom(" 30 27 99) (mkPtok 6 ")" 32 19 102)) (mkPtok 5 "@calculatedFrom(" 30 27 99) (mkPtok 31 """// no comment""" 32 4 101) (mkPtok 6 ")" 32 19 102)))] (MetaField (mkSpan (mkPtok 36 "repeat" 32 20 103) (mkPtok 40 "," 36 4 109)) (Some (mkPtok 36 "repeat" 32 20 103)) (mkMetaDecl (mkSpan (mkPtok 16 "char[]" 32 27 104) (mkPtok 40 "," 36 4 109)) (TyDynamic (mkSpan (mkPtok 16 "char[]" 32 27 104) (mkPtok 16 "char[]" 32 27 104)) (mkDynamicString (mkSpan (mkPtok 16 "char[]" 32 27 104) (mkPtok 16 "char[]" 32 27 104)) (mkPtok 16 "char[]" 32 27 104))) (mkPtok 42 "leftPad" 32 33 105) (Some (mkPtok 43 "`100% of %d`" 35 0 108)) (mkPtok 40 "," 36 4 109)))); (mkFieldWithAttr (mkSpan (mkPtok 42 "MetaDataX" 37 0 110) (mkPtok 40 "," 38 2 112)) [] (ObjectField (mkSpan (mkPtok 42 "MetaDataX" 37 0 110) (mkPtok 40 "," 38 2 112)) None (mkPtok 42 "MetaDataX" 37 0 110) None (Some (mkPtok 43 (string_of_bytes [96; 10; 96]%N) 37 10 111)) (mkPtok 40 "," 38 2 112))); (mkFieldWithAttr (mkSpan (mkPtok 36 "repeat" 41 0 115) (mkPtok 40 "," 45 4 120)) [] (MetaField (mkSpan (mkPtok 36 "repeat" 41 0 115) (mkPtok 40 "," 45 4 120)) (Some (mkPtok 36 "repeat" 41 0 115)) (mkMetaDecl (mkSpan (mkPtok 27 "i64" 41 7 116) (mkPtok 40 "," 45 4 120)) (TyBasic (mkSpan (mkPtok 27 "i64" 41 7 116) (mkPtok 27 "i64" 41 7 116)) (mkBasicType (mkSpan (mkPtok 27 "i64" 41 7 116) (mkPtok 27 "i64" 41 7 116)) (mkPtok 27 "i64" 41 7 116))) (mkPtok 42 "T" 44 0 119) None (mkPtok 40 "," 45 4 120)))); (mkFieldWithAttr (mkSpan (mkPtok 36 "repeat" 46 0 122) (mkPtok 40 "," 72 2 203)) [] (InerObjectField (mkSpan (mkPtok 36 "repeat" 46 0 122) (mkPtok 40 "," 72 2 203)) (Some (mkPtok 36 "repeat" 46 0 122)) (InerObjectDecl (mkSpan (mkPtok 42 "float" 46 7 123) (mkPtok 3 "}" 72 0 202)) (mkPtok 42 "float" 46 7 123) (mkPtok 2 "{" 46 13 124) [(MetaField (mkSpan (mkPtok 36 "repeat" 46 15 125) (mkPtok 40 "," 47 38 131)) (Some (mkPtok 36 "repeat" 46 15 125)) (mkMetaDecl (mkSpan (mkPtok 14 "zchar[" 47 4 126) (mkPtok 40 "," 47 38 131)) (TyFixed (mkSpan (mkPtok 14 "zchar[" 47 4 126) (mkPtok 13 "]" 47 12 128)) (mkFixedString (mkSpan (mkPtok 14 "zchar[" 47 4 126) (mkPtok 13 "]" 47 12 128)) (mkPtok 14 "zchar[" 47 4 126) (mkPtok 30 "1" 47 11 127) (mkPtok 13 "]" 47 12 128))) (mkPtok 42 "len" 47 14 129) (Some (mkPtok 43 "`// not a comment`" 47 18 130)) (mkPtok 40 "," 47 38 131))); (MatchField (mkSpan (mkPtok 38 "match" 48 0 133) (mkPtok 40 "," 69 0 190)) (mkMatchFieldDecl (mkSpan (mkPtok 38 "match" 48 0 133) (mkPtok 3 "}" 68 4 189)) (mkPtok 38 "match" 48 0 133) (mkPtok 42 "Logon" 48 6 134) (mkPtok 17 "as" 50 4 136) (mkPtok 42 "len" 50 7 137) (mkPtok 2 "{" 51 4 138) [(mkMatchPair (mkSpan (mkPtok 18 "[" 51 6 139) (mkPtok 40 "," 52 22 144)) (MKList (mkKeyList (mkSpan (mkPtok 18 "[" 51 6 139) (mkPtok 13 "]" 52 8 141)) (mkPtok 18 "[" 51 6 139) (mkPtok 30 "255" 52 4 140) [] (mkPtok 13 "]" 52 8 141))) (mkPtok 39 ":" 52 11 142) (mkPtok 42 "options1" 52 13 143) (Some (mkPtok 40 "," 52 22 144))); (mkMatchPair (mkSpan (mkPtok 18 "[" 53 0 146) (mkPtok 40 "," 63 0 163)) (MKList (mkKeyList (mkSpan (mkPtok 18 "[" 53 0 146) (mkPtok 13 "]" 59 0 158)) (mkPtok 18 "[" 53 0 146) (mkPtok 31 """a\""b""" 54 0 147) [((mkPtok 40 "," 54 7 148), (mkPtok 31 (string_of_bytes [34; 92; 195; 169; 34]%N) 54 9 149)); ((mkPtok 40 "," 54 14 150), (mkPtok 30 "0123456789" 54 16 151)); ((mkPtok 40 "," 55 0 152), (mkPtok 30 "0123456789" 55 1 153)); ((mkPtok 40 "," 55 12 154), (mkPtok 30 "7" 58 0 157))] (mkPtok 13 "]" 59 0 158))) (mkPtok 39 ":" 60 0 159) (mkPtok 42 "options1" 60 1 160) (Some (mkPtok 40 "," 63 0 163))); (mkMatchPair (mkSpan (mkPtok 18 "[" 63 1 164) (mkPtok 42 "tag" 63 27 170)) (MKList (mkKeyList (mkSpan (mkPtok 18 "[" 63 1 164) (mkPtok 13 "]" 63 23 168)) (mkPtok 18 "[" 63 1 164) (mkPtok 30 "4294967296" 63 3 165) [((mkPtok 40 "," 63 14 166), (mkPtok 31 """a\""b""" 63 16 167))] (mkPtok 13 "]" 63 23 168))) (mkPtok 39 ":" 63 25 169) (mkPtok 42 "tag" 63 27 170) None); (mkMatchPair (mkSpan (mkPtok 30 "42" 64 0 171) (mkPtok 42 "T" 64 5 173)) (MKDigits (mkPtok 30 "42" 64 0 171)) (mkPtok 39 ":" 64 3 172) (mkPtok 42 "T" 64 5 173) None); (mkMatchPair (mkSpan (mkPtok 18 "[" 65 0 174) (mkPtok 40 "," 67 18 181)) (MKList (mkKeyList (mkSpan (mkPtok 18 "[" 65 0 174) (mkPtok 13 "]" 67 8 178)) (mkPtok 18 "[" 65 0 174) (mkPtok 30 "4294967296" 66 0 175) [((mkPtok 40 "," 66 10 176), (mkPtok 31 """`tick`""" 67 0 177))] (mkPtok 13 "]" 67 8 178))) (mkPtok 39 ":" 67 10 179) (mkPtok 42 "charz" 67 12 180) (Some (mkPtok 40 "," 67 18 181))); (mkMatchPair (mkSpan (mkPtok 18 "[" 67 20 182) (mkPtok 42 "len" 68 0 188)) (MKList (mkKeyList (mkSpan (mkPtok 18 "[" 67 20 182) (mkPtok 13 "]" 67 32 186)) (mkPtok 18 "[" 67 20 182) (mkPtok 30 "0" 67 22 183) [((mkPtok 40 "," 67 24 184), (mkPtok 31 (string_of_bytes [34; 195; 169; 116; 195; 169; 34]%N) 67 26 185))] (mkPtok 13 "]" 67 32 186))) (mkPtok 39 ":" 67 34 187) (mkPtok 42 "len" 68 0 188) None)] (mkPtok 3 "}" 68 4 189)) (mkPtok 40 "," 69 0 190)); (MetaField (mkSpan (mkPtok 36 "repeat" 69 2 191) (mkPtok 40 "," 70 0 195)) (Some (mkPtok 36 "repeat" 69 2 191)) (mkMetaDecl (mkSpan (mkPtok 29 "f64" 69 9 192) (mkPtok 40 "," 70 0 195)) (TyBasic (mkSpan (mkPtok 29 "f64" 69 9 192) (mkPtok 29 "f64" 69 9 192)) (mkBasicType (mkSpan (mkPtok 29 "f64" 69 9 192) (mkPtok 29 "f64" 69 9 192)) (mkPtok 29 "f64" 69 9 192))) (mkPtok 42 "zchar" 69 13 193) (Some (mkPtok 43 "`say ""hi""`" 69 19 194)) (mkPtok 40 "," 70 0 195))); (MetaField (mkSpan (mkPtok 36 "repeat" 70 2 196) (mkPtok 40 "," 71 24 200)) (Some (mkPtok 36 "repeat" 70 2 196)) (mkMetaDecl (mkSpan (mkPtok 27 "i64" 70 9 197) (mkPtok 40 "," 71 24 200)) (TyBasic (mkSpan (mkPtok 27 "i64" 70 9 197) (mkPtok 27 "i64" 70 9 197)) (mkBasicType (mkSpan (mkPtok 27 "i64" 70 9 197) (mkPtok 27 "i64" 70 9 197)) (mkPtok 27 "i64" 70 9 197))) (mkPtok 42 "i64_" 71 0 198) (Some (mkPtok 43 "`// not a comment`" 71 5 199)) (mkPtok 40 "," 71 24 200)))] (mkPtok 3 "}" 72 0 202)) (mkPtok 40 "," 72 2 203))); (mkFieldWithAttr (mkSpan (mkPtok 38 "match" 73 0 204) (mkPtok 40 "," 78 12 223)) [] (MatchField (mkSpan (mkPtok 38 "match" 73 0 204) (mkPtok 40 "," 78 12 223)) (mkMatchFieldDecl (mkSpan (mkPtok 38 "match" 73 0 204) (mkPtok 3 "}" 78 11 222)) (mkPtok 38 "match" 73 0 204) (mkPtok 42 "u128" 73 6 205) (mkPtok 17 "as" 73 11 206) (mkPtok 42 "Header" 73 14 207) (mkPtok 2 "{" 73 21 208) [(mkMatchPair (mkSpan (mkPtok 31 (string_of_bytes [34; 240; 159; 152; 128; 34]%N) 74 0 209) (mkPtok 42 "x_y_z" 75 0 211)) (MKString (mkPtok 31 (string_of_bytes [34; 240; 159; 152; 128; 34]%N) 74 0 209)) (mkPtok 39 ":" 74 3 210) (mkPtok 42 "x_y_z" 75 0 211) None); (mkMatchPair (mkSpan (mkPtok 31 """// no comment""" 75 6 212) (mkPtok 40 "," 76 2 215)) (MKString (mkPtok 31 """// no comment""" 75 6 212)) (mkPtok 39 ":" 75 22 213) (mkPtok 42 "A" 76 0 214) (Some (mkPtok 40 "," 76 2 215))); (mkMatchPair (mkSpan (mkPtok 18 "[" 76 3 216) (mkPtok 40 "," 78 8 221)) (MKList (mkKeyList (mkSpan (mkPtok 18 "[" 76 3 216) (mkPtok 13 "]" 78 0 218)) (mkPtok 18 "[" 76 3 216) (mkPtok 30 "0" 77 4 217) [] (mkPtok 13 "]" 78 0 218))) (mkPtok 39 ":" 78 2 219) (mkPtok 42 "int" 78 4 220) (Some (mkPtok 40 "," 78 8 221)))] (mkPtok 3 "}" 78 11 222)) (mkPtok 40 "," 78 12 223))); (mkFieldWithAttr (mkSpan (mkPtok 32 "@rightPad" 78 14 224) (mkPtok 40 "," 78 35 229)) [(FAPadding (mkSpan (mkPtok 32 "@rightPad" 78 14 224) (mkPtok 6 ")" 78 28 227)) (mkPaddingAttr (mkSpan (mkPtok 32 "@rightPad" 78 14 224) (mkPtok 6 ")" 78 28 227)) (mkPtok 32 "@rightPad" 78 14 224) (mkPtok 8 "(" 78 23 225) (Some (mkPtok 33 "' '" 78 25 226)) (mkPtok 6 ")" 78 28 227)))] (ObjectField (mkSpan (mkPtok 42 "pack" 78 30 228) (mkPtok 40 "," 78 35 229)) None (mkPtok 42 "pack" 78 30 228) None None (mkPtok 40 "," 78 35 229)))] (mkPtok 3 "}" 78 36 230)))])).
Eval vm_compute in ("<<<M535>>>" ++ check (runes_of_ascii "root
    packet
    string_ {
@lengthOf(
    falsey )@tag( // @lengthOf(
42 ) match repeatCount	as Z9_ {
""{,}"" :
    roots // 50% %s
, 255
: As ,[65535
, 0
    ]
:
    // a // b
    T
} ,
    /// triple
    repeat i8 repeatCount`" ++ [28040; 24687; 31867; 22411]%N ++ runes_of_ascii "` , }
options{ As =
zchar[
    255	]
;}
    // trailing space 
    packet // trailing space 
leftPad { @lengthOf( lengthOf ) Foo  { x msg_type ,
msg_type/// triple
`it's`,u16  crc @lengthOf( f32a) `
` ,
} // trailing space 
,
    u stringy
    ,packetx`u8 x,` , @leftPad
() @calculatedFrom(""abc"" ) @tag(
65535 ) BodyLength { zchar[1 ] Logon,} , match As as matchKey{42 : // `tick` ""quote"" 'q'
Z9_
    , //	t
[ ""it's"" ]
    // trailing space 
    :
    calculatedFrom 255: roots,""abc"": u8x
, """" : i8i8 4294967296
    : packetx
,},} root packet  A{ char[10 ] x_y_z
, }")).
Eval vm_compute in ("<<<M567>>>" ++ check (runes_of_ascii "MetaData repeatCount
{ char[
    // packet A { u8 x, }
    4294967296 ] chars `// not a comment` , }
")).
Eval vm_compute in ("<<<M599>>>" ++ check (runes_of_ascii "options { }packet u128// trailing space 
{ }
")).
Eval vm_compute in ("<<<M631>>>" ++ check (runes_of_ascii "MetaData body { char[ 10
    ]
// packet A { u8 x, }
// " ++ [128512]%N ++ runes_of_ascii " emoji
Packet
    , Foo	lengthOf
, x_y_z a1	`// not a comment`
    , }options
{ repeatCount =
' ' ; }
")).
Eval vm_compute in ("<<<M663>>>" ++ check (runes_of_ascii "packet MetaDataX { }
    MetaData crc {
    tag MetaDataX,
    // `tick` ""quote"" 'q'
    char[
65535 ] trueish , string	crc , // a // b
zchar[7 ] MetaDataX,
/// triple
// " ++ [27880; 37322]%N ++ runes_of_ascii "
}
")).
Eval vm_compute in ("<<<M695>>>" ++ check (runes_of_ascii "root	packet  string_  {
    }
MetaData tag {
BodyLength
    // 50% %s
    _x , zchar[0 ]
    //x
    A// a // b
`tab	here` ,//
Packet lengthOf `u8 x,` , string
//
// `tick` ""quote"" 'q'
charz
`u8 x,` ,
string A
, char[
    255 ] uint8x `// not a comment`
, }
")).
Eval vm_compute in ("<<<M727>>>" ++ check (runes_of_ascii "options {x // c
= ""1"" }
// c
")).
Eval vm_compute in ("<<<T727>>>" ++ terms [mkTok 1 "options" 1 0 false; mkTok 2 "{" 1 8 false; mkTok 42 "x" 1 9 false; mkTok 44 "// c" 1 11 true; mkTok 4 "=" 2 0 false; mkTok 31 """1""" 2 2 false; mkTok 3 "}" 2 6 false; mkTok 44 "// c" 3 0 true; mkTok 0 "<EOF>" 4 0 false] (mkPacket (mkPtok 1 "options" 1 0 0) (Some (mkPtok 3 "}" 2 6 6)) [(DOption (mkOptionDef (mkSpan (mkPtok 1 "options" 1 0 0) (mkPtok 3 "}" 2 6 6)) (mkPtok 1 "options" 1 0 0) (mkPtok 2 "{" 1 8 1) [(mkOptionDecl (mkSpan (mkPtok 42 "x" 1 9 2) (mkPtok 31 """1""" 2 2 5)) (mkPtok 42 "x" 1 9 2) (mkPtok 4 "=" 2 0 4) (VString (mkSpan (mkPtok 31 """1""" 2 2 5) (mkPtok 31 """1""" 2 2 5)) (mkPtok 31 """1""" 2 2 5)) None)] (mkPtok 3 "}" 2 6 6)))])).
Eval vm_compute in ("<<<M759>>>" ++ check (runes_of_ascii "MetaData float { u64 Logon ,
    float32 Z9_ `` ,
i16
    Pad	`" ++ [28040; 24687; 31867; 22411]%N ++ runes_of_ascii "` ,
Z9_ body // trailing space 
, uint64 calculatedFrom
,	}
MetaData
falsey
    { char[]
    trueish , }	root packet	rootA  {}
")).
Eval vm_compute in ("<<<M791>>>" ++ check (runes_of_ascii "
packet  tag
{ @tag(
10) string T , @calculatedFrom( ""it's"" ) u8 body, repeat
rootA ,Z9_ , }packet As {}
")).
Eval vm_compute in ("<<<M823>>>" ++ check (runes_of_ascii "MetaData
    x{	int32 int // a // b
`line1
line2` , } packet o
{  u32 charz, char[
1] x_y_z	`
`
    ,//	t
len lengthOf,
@lengthOf( charz )
    i16 body`crlf
line` ,}")).
Eval vm_compute in ("<<<M855>>>" ++ check (runes_of_ascii "packet	leftPad
    { @tag( //	t
10
)
    uint64 calculatedFrom
``
, body  , uint8 zchar ,i8i8 ,// trailing space 
}
")).
Eval vm_compute in ("<<<M887>>>" ++ check (runes_of_ascii "
//x
")).
Eval vm_compute in ("<<<M919>>>" ++ check (@nil rune)).
Eval vm_compute in ("<<<M951>>>" ++ check (runes_of_ascii "// " ++ [128512]%N ++ runes_of_ascii " emoji
options { u128=  ' ';
    Header =
string
    }
options { zchar
=
//
// @lengthOf(
char
    u128 =
    int8
;
    int =
    false ;}
")).
Eval vm_compute in ("<<<T951>>>" ++ terms [mkTok 44 (string_of_bytes [47; 47; 32; 240; 159; 152; 128; 32; 101; 109; 111; 106; 105]%N) 1 0 true; mkTok 1 "options" 2 0 false; mkTok 2 "{" 2 8 false; mkTok 42 "u128" 2 10 false; mkTok 4 "=" 2 14 false; mkTok 33 "' '" 2 17 false; mkTok 41 ";" 2 20 false; mkTok 42 "Header" 3 4 false; mkTok 4 "=" 3 11 false; mkTok 15 "string" 4 0 false; mkTok 3 "}" 5 4 false; mkTok 1 "options" 6 0 false; mkTok 2 "{" 6 8 false; mkTok 42 "zchar" 6 10 false; mkTok 4 "=" 7 0 false; mkTok 44 "//" 8 0 true; mkTok 44 "// @lengthOf(" 9 0 true; mkTok 19 "char" 10 0 false; mkTok 42 "u128" 11 4 false; mkTok 4 "=" 11 9 false; mkTok 24 "int8" 12 4 false; mkTok 41 ";" 13 0 false; mkTok 42 "int" 14 4 false; mkTok 4 "=" 14 8 false; mkTok 11 "false" 15 4 false; mkTok 41 ";" 15 10 false; mkTok 3 "}" 15 11 false; mkTok 0 "<EOF>" 16 0 false] (mkPacket (mkPtok 1 "options" 2 0 1) (Some (mkPtok 3 "}" 15 11 26)) [(DOption (mkOptionDef (mkSpan (mkPtok 1 "options" 2 0 1) (mkPtok 3 "}" 5 4 10)) (mkPtok 1 "options" 2 0 1) (mkPtok 2 "{" 2 8 2) [(mkOptionDecl (mkSpan (mkPtok 42 "u128" 2 10 3) (mkPtok 41 ";" 2 20 6)) (mkPtok 42 "u128" 2 10 3) (mkPtok 4 "=" 2 14 4) (VPaddingChar (mkSpan (mkPtok 33 "' '" 2 17 5) (mkPtok 33 "' '" 2 17 5)) (mkPtok 33 "' '" 2 17 5)) (Some (mkPtok 41 ";" 2 20 6))); (mkOptionDecl (mkSpan (mkPtok 42 "Header" 3 4 7) (mkPtok 15 "string" 4 0 9)) (mkPtok 42 "Header" 3 4 7) (mkPtok 4 "=" 3 11 8) (VType (mkSpan (mkPtok 15 "string" 4 0 9) (mkPtok 15 "string" 4 0 9)) (TyDynamic (mkSpan (mkPtok 15 "string" 4 0 9) (mkPtok 15 "string" 4 0 9)) (mkDynamicString (mkSpan (mkPtok 15 "string" 4 0 9) (mkPtok 15 "string" 4 0 9)) (mkPtok 15 "string" 4 0 9)))) None)] (mkPtok 3 "}" 5 4 10))); (DOption (mkOptionDef (mkSpan (mkPtok 1 "options" 6 0 11) (mkPtok 3 "}" 15 11 26)) (mkPtok 1 "options" 6 0 11) (mkPtok 2 "{" 6 8 12) [(mkOptionDecl (mkSpan (mkPtok 42 "zchar" 6 10 13) (mkPtok 19 "char" 10 0 17)) (mkPtok 42 "zchar" 6 10 13) (mkPtok 4 "=" 7 0 14) (VType (mkSpan (mkPtok 19 "char" 10 0 17) (mkPtok 19 "char" 10 0 17)) (TyBasic (mkSpan (mkPtok 19 "char" 10 0 17) (mkPtok 19 "char" 10 0 17)) (mkBasicType (mkSpan (mkPtok 19 "char" 10 0 17) (mkPtok 19 "char" 10 0 17)) (mkPtok 19 "char" 10 0 17)))) None); (mkOptionDecl (mkSpan (mkPtok 42 "u128" 11 4 18) (mkPtok 41 ";" 13 0 21)) (mkPtok 42 "u128" 11 4 18) (mkPtok 4 "=" 11 9 19) (VType (mkSpan (mkPtok 24 "int8" 12 4 20) (mkPtok 24 "int8" 12 4 20)) (TyBasic (mkSpan (mkPtok 24 "int8" 12 4 20) (mkPtok 24 "int8" 12 4 20)) (mkBasicType (mkSpan (mkPtok 24 "int8" 12 4 20) (mkPtok 24 "int8" 12 4 20)) (mkPtok 24 "int8" 12 4 20)))) (Some (mkPtok 41 ";" 13 0 21))); (mkOptionDecl (mkSpan (mkPtok 42 "int" 14 4 22) (mkPtok 41 ";" 15 10 25)) (mkPtok 42 "int" 14 4 22) (mkPtok 4 "=" 14 8 23) (VFalse (mkSpan (mkPtok 11 "false" 15 4 24) (mkPtok 11 "false" 15 4 24)) (mkPtok 11 "false" 15 4 24)) (Some (mkPtok 41 ";" 15 10 25)))] (mkPtok 3 "}" 15 11 26)))])).
Eval vm_compute in ("<<<M983>>>" ++ check (runes_of_ascii "root packet  uint8x { match
roots
    as a1 {
    ""a\\"" : int } , stringy pack
    , string_ @lengthOf(
msg_type ) `100% of %d`, repeat f32 x_y_z // `tick` ""quote"" 'q'
`it's`
, zchar[
7
    ] lengthOf
    @lengthOf(int ) , }  options {} packet Logon {
char[] _x `" ++ [28040; 24687; 31867; 22411]%N ++ runes_of_ascii "` ,
char[7 ] matchKey ,
@rightPad (
    '0' ) char[
3 ]
len , Foo
    //	t
    @calculatedFrom( ""a	b""),// packet A { u8 x, }
} // `tick` ""quote"" 'q'
options { } root packet a1 { uint64 stringy  ,@tag(
10
    )
    match a1 as // 50% %s
BodyLength{[ 10,	4294967296
,1 ]	:zchar , }, @rightPad(
)string string_ @lengthOf(
    // 50% %s
    x_y_z ) /// triple
`two words` , char[] T , @leftPad
( '0' ) string_{
/// triple
//x
match matchKey as crc { [
    // " ++ [128512]%N ++ runes_of_ascii " emoji
    ""\" ++ [233]%N ++ runes_of_ascii """,
3 , // packet A { u8 x, }
""x y""  ] :
calculatedFrom , }
    ,
u128 Packet `{ , }` // " ++ [128512]%N ++ runes_of_ascii " emoji
,float o , Packet@calculatedFrom(
""{,}""
//	t
// a // b
) ,
/// triple
//	t
}
, }")).
Eval vm_compute in ("<<<M1015>>>" ++ check (runes_of_ascii "options { packetx =
    //	t
    '\x00' ; }	packet A{ }
    root packet a1 {
// packet A { u8 x, }
//x
} root  packet float
{
//	t
// @lengthOf(
string
    len @calculatedFrom( ""{,}"" ) `crlf
line` ,
    body
    @lengthOf( msg_type	) //x
`a\` ,
    @leftPad
()  f64  uint8x , packetx	,
@calculatedFrom( ""\n"")
    /// triple
    repeat char[] leftPad ,
    f64 trueish `{ , }`
    ,
int32 zchar//x
, repeat
    zchar[3]
Packet`say ""hi""` //	t
,u32 charz @lengthOf(	x
    ) ,Z9_
    // `tick` ""quote"" 'q'
    , }
//x
")).
Eval vm_compute in ("<<<M1047>>>" ++ check (runes_of_ascii "MetaData u128 {
int64
a1`// not a comment` ,
}root	packet
string_{	@tag( 42 ) match zchar as
msg_type { 10 : int
} , @calculatedFrom( """ ++ [233]%N ++ runes_of_ascii "t" ++ [233]%N ++ runes_of_ascii """)
char[]  string_  , repeat char[7] string_/// triple
, @lengthOf( float) //
repeat
int x_y_z , }
packet
//	t
// @lengthOf(
As {
    //	t
    lengthOf @calculatedFrom(  ""CRC32"" )`two words`  , }
")).
Eval vm_compute in ("<<<M1079>>>" ++ check (runes_of_ascii "packet len
{
T@lengthOf( lengthOf )
    ,
} packet
T {// `tick` ""quote"" 'q'
repeat zchar[
7 ] body ,	}")).
Eval vm_compute in ("<<<M1111>>>" ++ check (runes_of_ascii "MetaData rootA {
    // `tick` ""quote"" 'q'
    }
")).
Eval vm_compute in ("<<<M1143>>>" ++ check (runes_of_ascii "packet packetx { @leftPad (
    ) u32 x_y_z `u8 x,` // @lengthOf(
,
}packet
zchar { repeat char[
0123456789
] u8x	, T // packet A { u8 x, }
@lengthOf( stringy
)`
`
, repeat u128{ match MetaDataX as
_x  {	[ 1 ] : Logon,0123456789 : Foo
//
// @lengthOf(
, [
""`tick`"" , ""CRC32""]
    : uint8x [ ""{,}"" ,
    ""a\""b"" , 42 , 42
    , ""`tick`""
,	42]
    : // 50% %s
leftPad ,
}, }
,
rootA // @lengthOf(
uint8x`a\`
, } MetaData lengthOf {
    uint32 // 50% %s
msg_type `" ++ [28040; 24687; 31867; 22411]%N ++ runes_of_ascii "` , u16 Pad //	t
`it's` , zchar[ 007 ]
    // packet A { u8 x, }
    charz `crlf
line`,
    u128 /// triple
len , BodyLength asx
    `tab	here`,
Packet Header ,}

")).
Eval vm_compute in ("<<<M1175>>>" ++ check (runes_of_ascii "packet uint8x { @calculatedFrom( ""a	b"" ) zchar[
42 ]Header
@calculatedFrom( ""1"" )
    ,
    zchar[
10 ] f32a
    ,@calculatedFrom(
""it's"" )f64 // trailing space 
i8i8 , @tag(
    /// triple
    0123456789 )
repeat int8 u128
    ,
    string
crc ,
    //	t
    @tag(
    // a // b
    1 ) @calculatedFrom(	""a	b""
    ) @lengthOf(
    // trailing space 
    Packet	)
    o `" ++ [233]%N ++ runes_of_ascii "`
,
    i64  i64_
, zchar[ // c
4294967296// 50% %s
]len , string_ , // " ++ [27880; 37322]%N ++ runes_of_ascii "
repeat int16 matchKey , }	options {
crc	= '\x00'// c
} options  { packetx
    = ""it's"";
    // @lengthOf(
    charz =
    true	options1
    =
""a\\""
;
leftPad =true uint8x
=string	;
// a // b
// c
} options
    {
Packet
    =
//
// " ++ [27880; 37322]%N ++ runes_of_ascii "
""1"" // packet A { u8 x, }
}
    /// triple
    packet /// triple
u128{// " ++ [27880; 37322]%N ++ runes_of_ascii "
@tag( 3 )@tag( 42 ) BodyLength
    @lengthOf(
Foo ) `tab	here`
,
char[ 007 ] a1 `two words`,repeat
x_y_z	falsey `u8 x,` ,u16 options1 ,zchar[ 10 ] _x ,
match i8i8 as options1 {
3 : msg_type 65535:
Pad , }
    // a // b
    , }
")).
Eval vm_compute in ("<<<T1175>>>" ++ terms [mkTok 35 "packet" 1 0 false; mkTok 42 "uint8x" 1 7 false; mkTok 2 "{" 1 14 false; mkTok 5 "@calculatedFrom(" 1 16 false; mkTok 31 (string_of_bytes [34; 97; 9; 98; 34]%N) 1 33 false; mkTok 6 ")" 1 39 false; mkTok 14 "zchar[" 1 41 false; mkTok 30 "42" 2 0 false; mkTok 13 "]" 2 3 false; mkTok 42 "Header" 2 4 false; mkTok 5 "@calculatedFrom(" 3 0 false; mkTok 31 """1""" 3 17 false; mkTok 6 ")" 3 21 false; mkTok 40 "," 4 4 false; mkTok 14 "zchar[" 5 4 false; mkTok 30 "10" 6 0 false; mkTok 13 "]" 6 3 false; mkTok 42 "f32a" 6 5 false; mkTok 40 "," 7 4 false; mkTok 5 "@calculatedFrom(" 7 5 false; mkTok 31 """it's""" 8 0 false; mkTok 6 ")" 8 7 false; mkTok 29 "f64" 8 8 false; mkTok 44 "// trailing space " 8 12 true; mkTok 42 "i8i8" 9 0 false; mkTok 40 "," 9 5 false; mkTok 9 "@tag(" 9 7 false; mkTok 44 "/// triple" 10 4 true; mkTok 30 "0123456789" 11 4 false; mkTok 6 ")" 11 15 false; mkTok 36 "repeat" 12 0 false; mkTok 24 "int8" 12 7 false; mkTok 42 "u128" 12 12 false; mkTok 40 "," 13 4 false; mkTok 15 "string" 14 4 false; mkTok 42 "crc" 15 0 false; mkTok 40 "," 15 4 false; mkTok 44 (string_of_bytes [47; 47; 9; 116]%N) 16 4 true; mkTok 9 "@tag(" 17 4 false; mkTok 44 "// a // b" 18 4 true; mkTok 30 "1" 19 4 false; mkTok 6 ")" 19 6 false; mkTok 5 "@calculatedFrom(" 19 8 false; mkTok 31 (string_of_bytes [34; 97; 9; 98; 34]%N) 19 25 false; mkTok 6 ")" 20 4 false; mkTok 7 "@lengthOf(" 20 6 false; mkTok 44 "// trailing space " 21 4 true; mkTok 42 "Packet" 22 4 false; mkTok 6 ")" 22 11 false; mkTok 42 "o" 23 4 false; mkTok 43 (string_of_bytes [96; 195; 169; 96]%N) 23 6 false; mkTok 40 "," 24 0 false; mkTok 27 "i64" 25 4 false; mkTok 42 "i64_" 25 9 false; mkTok 40 "," 26 0 false; mkTok 14 "zchar[" 26 2 false; mkTok 44 "// c" 26 9 true; mkTok 30 "4294967296" 27 0 false; mkTok 44 "// 50% %s" 27 10 true; mkTok 13 "]" 28 0 false; mkTok 42 "len" 28 1 false; mkTok 40 "," 28 5 false; mkTok 42 "string_" 28 7 false; mkTok 40 "," 28 15 false; mkTok 44 (string_of_bytes [47; 47; 32; 230; 179; 168; 233; 135; 138]%N) 28 17 true; mkTok 36 "repeat" 29 0 false; mkTok 25 "int16" 29 7 false; mkTok 42 "matchKey" 29 13 false; mkTok 40 "," 29 22 false; mkTok 3 "}" 29 24 false; mkTok 1 "options" 29 26 false; mkTok 2 "{" 29 34 false; mkTok 42 "crc" 30 0 false; mkTok 4 "=" 30 4 false; mkTok 33 "'\x00'" 30 6 false; mkTok 44 "// c" 30 12 true; mkTok 3 "}" 31 0 false; mkTok 1 "options" 31 2 false; mkTok 2 "{" 31 11 false; mkTok 42 "packetx" 31 13 false; mkTok 4 "=" 32 4 false; mkTok 31 """it's""" 32 6 false; mkTok 41 ";" 32 12 false; mkTok 44 "// @lengthOf(" 33 4 true; mkTok 42 "charz" 34 4 false; mkTok 4 "=" 34 10 false; mkTok 10 "true" 35 4 false; mkTok 42 "options1" 35 9 false; mkTok 4 "=" 36 4 false; mkTok 31 """a\\""" 37 0 false; mkTok 41 ";" 38 0 false; mkTok 42 "leftPad" 39 0 false; mkTok 4 "=" 39 8 false; mkTok 10 "true" 39 9 false; mkTok 42 "uint8x" 39 14 false; mkTok 4 "=" 40 0 false; mkTok 15 "string" 40 1 false; mkTok 41 ";" 40 8 false; mkTok 44 "// a // b" 41 0 true; mkTok 44 "// c" 42 0 true; mkTok 3 "}" 43 0 false; mkTok 1 "options" 43 2 false; mkTok 2 "{" 44 4 false; mkTok 42 "Packet" 45 0 false; mkTok 4 "=" 46 4 false; mkTok 44 "//" 47 0 true; mkTok 44 (string_of_bytes [47; 47; 32; 230; 179; 168; 233; 135; 138]%N) 48 0 true; mkTok 31 """1""" 49 0 false; mkTok 44 "// packet A { u8 x, }" 49 4 true; mkTok 3 "}" 50 0 false; mkTok 44 "/// triple" 51 4 true; mkTok 35 "packet" 52 4 false; mkTok 44 "/// triple" 52 11 true; mkTok 42 "u128" 53 0 false; mkTok 2 "{" 53 4 false; mkTok 44 (string_of_bytes [47; 47; 32; 230; 179; 168; 233; 135; 138]%N) 53 5 true; mkTok 9 "@tag(" 54 0 false; mkTok 30 "3" 54 6 false; mkTok 6 ")" 54 8 false; mkTok 9 "@tag(" 54 9 false; mkTok 30 "42" 54 15 false; mkTok 6 ")" 54 18 false; mkTok 42 "BodyLength" 54 20 false; mkTok 7 "@lengthOf(" 55 4 false; mkTok 42 "Foo" 56 0 false; mkTok 6 ")" 56 4 false; mkTok 43 (string_of_bytes [96; 116; 97; 98; 9; 104; 101; 114; 101; 96]%N) 56 6 false; mkTok 40 "," 57 0 false; mkTok 12 "char[" 58 0 false; mkTok 30 "007" 58 6 false; mkTok 13 "]" 58 10 false; mkTok 42 "a1" 58 12 false; mkTok 43 "`two words`" 58 15 false; mkTok 40 "," 58 26 false; mkTok 36 "repeat" 58 27 false; mkTok 42 "x_y_z" 59 0 false; mkTok 42 "falsey" 59 6 false; mkTok 43 "`u8 x,`" 59 13 false; mkTok 40 "," 59 21 false; mkTok 21 "u16" 59 22 false; mkTok 42 "options1" 59 26 false; mkTok 40 "," 59 35 false; mkTok 14 "zchar[" 59 36 false; mkTok 30 "10" 59 43 false; mkTok 13 "]" 59 46 false; mkTok 42 "_x" 59 48 false; mkTok 40 "," 59 51 false; mkTok 38 "match" 60 0 false; mkTok 42 "i8i8" 60 6 false; mkTok 17 "as" 60 11 false; mkTok 42 "options1" 60 14 false; mkTok 2 "{" 60 23 false; mkTok 30 "3" 61 0 false; mkTok 39 ":" 61 2 false; mkTok 42 "msg_type" 61 4 false; mkTok 30 "65535" 61 13 false; mkTok 39 ":" 61 18 false; mkTok 42 "Pad" 62 0 false; mkTok 40 "," 62 4 false; mkTok 3 "}" 62 6 false; mkTok 44 "// a // b" 63 4 true; mkTok 40 "," 64 4 false; mkTok 3 "}" 64 6 false; mkTok 0 "<EOF>" 65 0 false] (mkPacket (mkPtok 35 "packet" 1 0 0) (Some (mkPtok 3 "}" 64 6 162)) [(DPacket (mkPacketDef (mkSpan (mkPtok 35 "packet" 1 0 0) (mkPtok 3 "}" 29 24 69)) None (mkPtok 35 "packet" 1 0 0) (mkPtok 42 "uint8x" 1 7 1) (mkPtok 2 "{" 1 14 2) [(mkFieldWithAttr (mkSpan (mkPtok 5 "@calculatedFrom(" 1 16 3) (mkPtok 40 "," 4 4 13)) [(FACalculatedFrom (mkSpan (mkPtok 5 "@calculatedFrom(" 1 16 3) (mkPtok 6 ")" 1 39 5)) (mkCalculatedFrom (mkSpan (mkPtok 5 "@calculatedFrom(" 1 16 3) (mkPtok 6 ")" 1 39 5)) (mkPtok 5 "@calculatedFrom(" 1 16 3) (mkPtok 31 (string_of_bytes [34; 97; 9; 98; 34]%N) 1 33 4) (mkPtok 6 ")" 1 39 5)))] (CheckSumField (mkSpan (mkPtok 14 "zchar[" 1 41 6) (mkPtok 40 "," 4 4 13)) (mkChecksumFieldDecl (mkSpan (mkPtok 14 "zchar[" 1 41 6) (mkPtok 40 "," 4 4 13)) (Some (TyFixed (mkSpan (mkPtok 14 "zchar[" 1 41 6) (mkPtok 13 "]" 2 3 8)) (mkFixedString (mkSpan (mkPtok 14 "zchar[" 1 41 6) (mkPtok 13 "]" 2 3 8)) (mkPtok 14 "zchar[" 1 41 6) (mkPtok 30 "42" 2 0 7) (mkPtok 13 "]" 2 3 8)))) (mkPtok 42 "Header" 2 4 9) (mkCalculatedFrom (mkSpan (mkPtok 5 "@calculatedFrom(" 3 0 10) (mkPtok 6 ")" 3 21 12)) (mkPtok 5 "@calculatedFrom(" 3 0 10) (mkPtok 31 """1""" 3 17 11) (mkPtok 6 ")" 3 21 12)) None (mkPtok 40 "," 4 4 13)))); (mkFieldWithAttr (mkSpan (mkPtok 14 "zchar[" 5 4 14) (mkPtok 40 "," 7 4 18)) [] (MetaField (mkSpan (mkPtok 14 "zchar[" 5 4 14) (mkPtok 40 "," 7 4 18)) None (mkMetaDecl (mkSpan (mkPtok 14 "zchar[" 5 4 14) (mkPtok 40 "," 7 4 18)) (TyFixed (mkSpan (mkPtok 14 "zchar[" 5 4 14) (mkPtok 13 "]" 6 3 16)) (mkFixedString (mkSpan (mkPtok 14 "zchar[" 5 4 14) (mkPtok 13 "]" 6 3 16)) (mkPtok 14 "zchar[" 5 4 14) (mkPtok 30 "10" 6 0 15) (mkPtok 13 "]" 6 3 16))) (mkPtok 42 "f32a" 6 5 17) None (mkPtok 40 "," 7 4 18)))); (mkFieldWithAttr (mkSpan (mkPtok 5 "@calculatedFrom(" 7 5 19) (mkPtok 40 "," 9 5 25)) [(FACalculatedFrom (mkSpan (mkPtok 5 "@calculatedFrom(" 7 5 19) (mkPtok 6 ")" 8 7 21)) (mkCalculatedFrom (mkSpan (mkPtok 5 "@calculatedFrom(" 7 5 19) (mkPtok 6 ")" 8 7 21)) (mkPtok 5 "@calculatedFrom(" 7 5 19) (mkPtok 31 """it's""" 8 0 20) (mkPtok 6 ")" 8 7 21)))] (MetaField (mkSpan (mkPtok 29 "f64" 8 8 22) (mkPtok 40 "," 9 5 25)) None (mkMetaDecl (mkSpan (mkPtok 29 "f64" 8 8 22) (mkPtok 40 "," 9 5 25)) (TyBasic (mkSpan (mkPtok 29 "f64" 8 8 22) (mkPtok 29 "f64" 8 8 22)) (mkBasicType (mkSpan (mkPtok 29 "f64" 8 8 22) (mkPtok 29 "f64" 8 8 22)) (mkPtok 29 "f64" 8 8 22))) (mkPtok 42 "i8i8" 9 0 24) None (mkPtok 40 "," 9 5 25)))); (mkFieldWithAttr (mkSpan (mkPtok 9 "@tag(" 9 7 26) (mkPtok 40 "," 13 4 33)) [(FATag (mkSpan (mkPtok 9 "@tag(" 9 7 26) (mkPtok 6 ")" 11 15 29)) (mkTagAttr (mkSpan (mkPtok 9 "@tag(" 9 7 26) (mkPtok 6 ")" 11 15 29)) (mkPtok 9 "@tag(" 9 7 26) (mkPtok 30 "0123456789" 11 4 28) (mkPtok 6 ")" 11 15 29)))] (MetaField (mkSpan (mkPtok 36 "repeat" 12 0 30) (mkPtok 40 "," 13 4 33)) (Some (mkPtok 36 "repeat" 12 0 30)) (mkMetaDecl (mkSpan (mkPtok 24 "int8" 12 7 31) (mkPtok 40 "," 13 4 33)) (TyBasic (mkSpan (mkPtok 24 "int8" 12 7 31) (mkPtok 24 "int8" 12 7 31)) (mkBasicType (mkSpan (mkPtok 24 "int8" 12 7 31) (mkPtok 24 "int8" 12 7 31)) (mkPtok 24 "int8" 12 7 31))) (mkPtok 42 "u128" 12 12 32) None (mkPtok 40 "," 13 4 33)))); (mkFieldWithAttr (mkSpan (mkPtok 15 "string" 14 4 34) (mkPtok 40 "," 15 4 36)) [] (MetaField (mkSpan (mkPtok 15 "string" 14 4 34) (mkPtok 40 "," 15 4 36)) None (mkMetaDecl (mkSpan (mkPtok 15 "string" 14 4 34) (mkPtok 40 "," 15 4 36)) (TyDynamic (mkSpan (mkPtok 15 "string" 14 4 34) (mkPtok 15 "string" 14 4 34)) (mkDynamicString (mkSpan (mkPtok 15 "string" 14 4 34) (mkPtok 15 "string" 14 4 34)) (mkPtok 15 "string" 14 4 34))) (mkPtok 42 "crc" 15 0 35) None (mkPtok 40 "," 15 4 36)))); (mkFieldWithAttr (mkSpan (mkPtok 9 "@tag(" 17 4 38) (mkPtok 40 "," 24 0 51)) [(FATag (mkSpan (mkPtok 9 "@tag(" 17 4 38) (mkPtok 6 ")" 19 6 41)) (mkTagAttr (mkSpan (mkPtok 9 "@tag(" 17 4 38) (mkPtok 6 ")" 19 6 41)) (mkPtok 9 "@tag(" 17 4 38) (mkPtok 30 "1" 19 4 40) (mkPtok 6 ")" 19 6 41))); (FACalculatedFrom (mkSpan (mkPtok 5 "@calculatedFrom(" 19 8 42) (mkPtok 6 ")" 20 4 44)) (mkCalculatedFrom (mkSpan (mkPtok 5 "@calculatedFrom(" 19 8 42) (mkPtok 6 ")" 20 4 44)) (mkPtok 5 "@calculatedFrom(" 19 8 42) (mkPtok 31 (string_of_bytes [34; 97; 9; 98; 34]%N) 19 25 43) (mkPtok 6 ")" 20 4 44))); (FALengthOf (mkSpan (mkPtok 7 "@lengthOf(" 20 6 45) (mkPtok 6 ")" 22 11 48)) (mkLengthOf (mkSpan (mkPtok 7 "@lengthOf(" 20 6 45) (mkPtok 6 ")" 22 11 48)) (mkPtok 7 "@lengthOf(" 20 6 45) (mkPtok 42 "Packet" 22 4 47) (mkPtok 6 ")" 22 11 48)))] (ObjectField (mkSpan (mkPtok 42 "o" 23 4 49) (mkPtok 40 "," 24 0 51)) None (mkPtok 42 "o" 23 4 49) None (Some (mkPtok 43 (string_of_bytes [96; 195; 169; 96]%N) 23 6 50)) (mkPtok 40 "," 24 0 51))); (mkFieldWithAttr (mkSpan (mkPtok 27 "i64" 25 4 52) (mkPtok 40 "," 26 0 54)) [] (MetaField (mkSpan (mkPtok 27 "i64" 25 4 52) (mkPtok 40 "," 26 0 54)) None (mkMetaDecl (mkSpan (mkPtok 27 "i64" 25 4 52) (mkPtok 40 "," 26 0 54)) (TyBasic (mkSpan (mkPtok 27 "i64" 25 4 52) (mkPtok 27 "i64" 25 4 52)) (mkBasicType (mkSpan (mkPtok 27 "i64" 25 4 52) (mkPtok 27 "i64" 25 4 52)) (mkPtok 27 "i64" 25 4 52))) (mkPtok 42 "i64_" 25 9 53) None (mkPtok 40 "," 26 0 54)))); (mkFieldWithAttr (mkSpan (mkPtok 14 "zchar[" 26 2 55) (mkPtok 40 "," 28 5 61)) [] (MetaField (mkSpan (mkPtok 14 "zchar[" 26 2 55) (mkPtok 40 "," 28 5 61)) None (mkMetaDecl (mkSpan (mkPtok 14 "zchar[" 26 2 55) (mkPtok 40 "," 28 5 61)) (TyFixed (mkSpan (mkPtok 14 "zchar[" 26 2 55) (mkPtok 13 "]" 28 0 59)) (mkFixedString (mkSpan (mkPtok 14 "zchar[" 26 2 55) (mkPtok 13 "]" 28 0 59)) (mkPtok 14 "zchar[" 26 2 55) (mkPtok 30 "4294967296" 27 0 57) (mkPtok 13 "]" 28 0 59))) (mkPtok 42 "len" 28 1 60) None (mkPtok 40 "," 28 5 61)))); (mkFieldWithAttr (mkSpan (mkPtok 42 "string_" 28 7 62) (mkPtok 40 "," 28 15 63)) [] (ObjectField (mkSpan (mkPtok 42 "string_" 28 7 62) (mkPtok 40 "," 28 15 63)) None (mkPtok 42 "string_" 28 7 62) None None (mkPtok 40 "," 28 15 63))); (mkFieldWithAttr (mkSpan (mkPtok 36 "repeat" 29 0 65) (mkPtok 40 "," 29 22 68)) [] (MetaField (mkSpan (mkPtok 36 "repeat" 29 0 65) (mkPtok 40 "," 29 22 68)) (Some (mkPtok 36 "repeat" 29 0 65)) (mkMetaDecl (mkSpan (mkPtok 25 "int16" 29 7 66) (mkPtok 40 "," 29 22 68)) (TyBasic (mkSpan (mkPtok 25 "int16" 29 7 66) (mkPtok 25 "int16" 29 7 66)) (mkBasicType (mkSpan (mkPtok 25 "int16" 29 7 66) (mkPtok 25 "int16" 29 7 66)) (mkPtok 25 "int16" 29 7 66))) (mkPtok 42 "matchKey" 29 13 67) None (mkPtok 40 "," 29 22 68))))] (mkPtok 3 "}" 29 24 69))); (DOption (mkOptionDef (mkSpan (mkPtok 1 "options" 29 26 70) (mkPtok 3 "}" 31 0 76)) (mkPtok 1 "options" 29 26 70) (mkPtok 2 "{" 29 34 71) [(mkOptionDecl (mkSpan (mkPtok 42 "crc" 30 0 72) (mkPtok 33 "'\x00'" 30 6 74)) (mkPtok 42 "crc" 30 0 72) (mkPtok 4 "=" 30 4 73) (VPaddingChar (mkSpan (mkPtok 33 "'\x00'" 30 6 74) (mkPtok 33 "'\x00'" 30 6 74)) (mkPtok 33 "'\x00'" 30 6 74)) None)] (mkPtok 3 "}" 31 0 76))); (DOption (mkOptionDef (mkSpan (mkPtok 1 "options" 31 2 77) (mkPtok 3 "}" 43 0 100)) (mkPtok 1 "options" 31 2 77) (mkPtok 2 "{" 31 11 78) [(mkOptionDecl (mkSpan (mkPtok 42 "packetx" 31 13 79) (mkPtok 41 ";" 32 12 82)) (mkPtok 42 "packetx" 31 13 79) (mkPtok 4 "=" 32 4 80) (VString (mkSpan (mkPtok 31 """it's""" 32 6 81) (mkPtok 31 """it's""" 32 6 81)) (mkPtok 31 """it's""" 32 6 81)) (Some (mkPtok 41 ";" 32 12 82))); (mkOptionDecl (mkSpan (mkPtok 42 "charz" 34 4 84) (mkPtok 10 "true" 35 4 86)) (mkPtok 42 "charz" 34 4 84) (mkPtok 4 "=" 34 10 85) (VTrue (mkSpan (mkPtok 10 "true" 35 4 86) (mkPtok 10 "true" 35 4 86)) (mkPtok 10 "true" 35 4 86)) None); (mkOptionDecl (mkSpan (mkPtok 42 "options1" 35 9 87) (mkPtok 41 ";" 38 0 90)) (mkPtok 42 "options1" 35 9 87) (mkPtok 4 "=" 36 4 88) (VString (mkSpan (mkPtok 31 """a\\""" 37 0 89) (mkPtok 31 """a\\""" 37 0 89)) (mkPtok 31 """a\\""" 37 0 89)) (Some (mkPtok 41 ";" 38 0 90))); (mkOptionDecl (mkSpan (mkPtok 42 "leftPad" 39 0 91) (mkPtok 10 "true" 39 9 93)) (mkPtok 42 "leftPad" 39 0 91) (mkPtok 4 "=" 39 8 92) (VTrue (mkSpan (mkPtok 10 "true" 39 9 93) (mkPtok 10 "true" 39 9 93)) (mkPtok 10 "true" 39 9 93)) None); (mkOptionDecl (mkSpan (mkPtok 42 "uint8x" 39 14 94) (mkPtok 41 ";" 40 8 97)) (mkPtok 42 "uint8x" 39 14 94) (mkPtok 4 "=" 40 0 95) (VType (mkSpan (mkPtok 15 "string" 40 1 96) (mkPtok 15 "string" 40 1 96)) (TyDynamic (mkSpan (mkPtok 15 "string" 40 1 96) (mkPtok 15 "string" 40 1 96)) (mkDynamicString (mkSpan (mkPtok 15 "string" 40 1 96) (mkPtok 15 "string" 40 1 96)) (mkPtok 15 "string" 40 1 96)))) (Some (mkPtok 41 ";" 40 8 97)))] (mkPtok 3 "}" 43 0 100))); (DOption (mkOptionDef (mkSpan (mkPtok 1 "options" 43 2 101) (mkPtok 3 "}" 50 0 109)) (mkPtok 1 "options" 43 2 101) (mkPtok 2 "{" 44 4 102) [(mkOptionDecl (mkSpan (mkPtok 42 "Packet" 45 0 103) (mkPtok 31 """1""" 49 0 107)) (mkPtok 42 "Packet" 45 0 103) (mkPtok 4 "=" 46 4 104) (VString (mkSpan (mkPtok 31 """1""" 49 0 107) (mkPtok 31 """1""" 49 0 107)) (mkPtok 31 """1""" 49 0 107)) None)] (mkPtok 3 "}" 50 0 109))); (DPacket (mkPacketDef (mkSpan (mkPtok 35 "packet" 52 4 111) (mkPtok 3 "}" 64 6 162)) None (mkPtok 35 "packet" 52 4 111) (mkPtok 42 "u128" 53 0 113) (mkPtok 2 "{" 53 4 114) [(mkFieldWithAttr (mkSpan (mkPtok 9 "@tag(" 54 0 116) (mkPtok 40 "," 57 0 127)) [(FATag (mkSpan (mkPtok 9 "@tag(" 54 0 116) (mkPtok 6 ")" 54 8 118)) (mkTagAttr (mkSpan (mkPtok 9 "@tag(" 54 0 116) (mkPtok 6 ")" 54 8 118)) (mkPtok 9 "@tag(" 54 0 116) (mkPtok 30 "3" 54 6 117) (mkPtok 6 ")" 54 8 118))); (FATag (mkSpan (mkPtok 9 "@tag(" 54 9 119) (mkPtok 6 ")" 54 18 121)) (mkTagAttr (mkSpan (mkPtok 9 "@tag(" 54 9 119) (mkPtok 6 ")" 54 18 121)) (mkPtok 9 "@tag(" 54 9 119) (mkPtok 30 "42" 54 15 120) (mkPtok 6 ")" 54 18 121)))] (LengthField (mkSpan (mkPtok 42 "BodyLength" 54 20 122) (mkPtok 40 "," 57 0 127)) (mkLengthFieldDecl (mkSpan (mkPtok 42 "BodyLength" 54 20 122) (mkPtok 40 "," 57 0 127)) None (mkPtok 42 "BodyLength" 54 20 122) (mkLengthOf (mkSpan (mkPtok 7 "@lengthOf(" 55 4 123) (mkPtok 6 ")" 56 4 125)) (mkPtok 7 "@lengthOf(" 55 4 123) (mkPtok 42 "Foo" 56 0 124) (mkPtok 6 ")" 56 4 125)) (Some (mkPtok 43 (string_of_bytes [96; 116; 97; 98; 9; 104; 101; 114; 101; 96]%N) 56 6 126)) (mkPtok 40 "," 57 0 127)))); (mkFieldWithAttr (mkSpan (mkPtok 12 "char[" 58 0 128) (mkPtok 40 "," 58 26 133)) [] (MetaField (mkSpan (mkPtok 12 "char[" 58 0 128) (mkPtok 40 "," 58 26 133)) None (mkMetaDecl (mkSpan (mkPtok 12 "char[" 58 0 128) (mkPtok 40 "," 58 26 133)) (TyFixed (mkSpan (mkPtok 12 "char[" 58 0 128) (mkPtok 13 "]" 58 10 130)) (mkFixedString (mkSpan (mkPtok 12 "char[" 58 0 128) (mkPtok 13 "]" 58 10 130)) (mkPtok 12 "char[" 58 0 128) (mkPtok 30 "007" 58 6 129) (mkPtok 13 "]" 58 10 130))) (mkPtok 42 "a1" 58 12 131) (Some (mkPtok 43 "`two words`" 58 15 132)) (mkPtok 40 "," 58 26 133)))); (mkFieldWithAttr (mkSpan (mkPtok 36 "repeat" 58 27 134) (mkPtok 40 "," 59 21 138)) [] (ObjectField (mkSpan (mkPtok 36 "repeat" 58 27 134) (mkPtok 40 "," 59 21 138)) (Some (mkPtok 36 "repeat" 58 27 134)) (mkPtok 42 "x_y_z" 59 0 135) (Some (mkPtok 42 "falsey" 59 6 136)) (Some (mkPtok 43 "`u8 x,`" 59 13 137)) (mkPtok 40 "," 59 21 138))); (mkFieldWithAttr (mkSpan (mkPtok 21 "u16" 59 22 139) (mkPtok 40 "," 59 35 141)) [] (MetaField (mkSpan (mkPtok 21 "u16" 59 22 139) (mkPtok 40 "," 59 35 141)) None (mkMetaDecl (mkSpan (mkPtok 21 "u16" 59 22 139) (mkPtok 40 "," 59 35 141)) (TyBasic (mkSpan (mkPtok 21 "u16" 59 22 139) (mkPtok 21 "u16" 59 22 139)) (mkBasicType (mkSpan (mkPtok 21 "u16" 59 22 139) (mkPtok 21 "u16" 59 22 139)) (mkPtok 21 "u16" 59 22 139))) (mkPtok 42 "options1" 59 26 140) None (mkPtok 40 "," 59 35 141)))); (mkFieldWithAttr (mkSpan (mkPtok 14 "zchar[" 59 36 142) (mkPtok 40 "," 59 51 146)) [] (MetaField (mkSpan (mkPtok 14 "zchar[" 59 36 142) (mkPtok 40 "," 59 51 146)) None (mkMetaDecl (mkSpan (mkPtok 14 "zchar[" 59 36 142) (mkPtok 40 "," 59 51 146)) (TyFixed (mkSpan (mkPtok 14 "zchar[" 59 36 142) (mkPtok 13 "]" 59 46 144)) (mkFixedString (mkSpan (mkPtok 14 "zchar[" 59 36 142) (mkPtok 13 "]" 59 46 144)) (mkPtok 14 "zchar[" 59 36 142) (mkPtok 30 "10" 59 43 143) (mkPtok 13 "]" 59 46 144))) (mkPtok 42 "_x" 59 48 145) None (mkPtok 40 "," 59 51 146)))); (mkFieldWithAttr (mkSpan (mkPtok 38 "match" 60 0 147) (mkPtok 40 "," 64 4 161)) [] (MatchField (mkSpan (mkPtok 38 "match" 60 0 147) (mkPtok 40 "," 64 4 161)) (mkMatchFieldDecl (mkSpan (mkPtok 38 "match" 60 0 147) (mkPtok 3 "}" 62 6 159)) (mkPtok 38 "match" 60 0 147) (mkPtok 42 "i8i8" 60 6 148) (mkPtok 17 "as" 60 11 149) (mkPtok 42 "options1" 60 14 150) (mkPtok 2 "{" 60 23 151) [(mkMatchPair (mkSpan (mkPtok 30 "3" 61 0 152) (mkPtok 42 "msg_type" 61 4 154)) (MKDigits (mkPtok 30 "3" 61 0 152)) (mkPtok 39 ":" 61 2 153) (mkPtok 42 "msg_type" 61 4 154) None); (mkMatchPair (mkSpan (mkPtok 30 "65535" 61 13 155) (mkPtok 40 "," 62 4 158)) (MKDigits (mkPtok 30 "65535" 61 13 155)) (mkPtok 39 ":" 61 18 156) (mkPtok 42 "Pad" 62 0 157) (Some (mkPtok 40 "," 62 4 158)))] (mkPtok 3 "}" 62 6 159)) (mkPtok 40 "," 64 4 161)))] (mkPtok 3 "}" 64 6 162)))])).
Eval vm_compute in ("<<<M1207>>>" ++ check (runes_of_ascii "MetaData	_x// " ++ [27880; 37322]%N ++ runes_of_ascii "
{// @lengthOf(
} options
{i64_ = ' ' ;calculatedFrom	= 00 uint8x
=	i16;
leftPad = '0'
    }  packet
// " ++ [128512]%N ++ runes_of_ascii " emoji
// " ++ [128512]%N ++ runes_of_ascii " emoji
As {
@lengthOf(_x)@tag(
007 ) @calculatedFrom( """ ++ [233]%N ++ runes_of_ascii "t" ++ [233]%N ++ runes_of_ascii """
    ) zchar[
0]f32a // trailing space 
@calculatedFrom( ""1"")
    `a\` ,
} // " ++ [128512]%N ++ runes_of_ascii " emoji")).
Eval vm_compute in ("<<<M1239>>>" ++ check (runes_of_ascii "  MetaData len {
    u32
    Pad`two words`// packet A { u8 x, }
, } // c")).
Eval vm_compute in ("<<<M1271>>>" ++ check (runes_of_ascii "root packet MetaDataX {
/// triple
//
repeat f64 chars
`// not a comment` , @tag( 4294967296 ) Pad
,
    u8  body,// `tick` ""quote"" 'q'
u // c
@lengthOf( i8i8	) `line1
line2` , /// triple
@lengthOf(
int)
@lengthOf(
    pack )u ,	@tag(00)	repeat// a // b
f32 crc `tab	here`
    ,match body as
    i64_ { // c
0
    : A ,
    7 :a1 ,
} , @calculatedFrom( ""`tick`"" )	@calculatedFrom( //x
""a	b"" )	char[
65535 ] asx
@calculatedFrom(""" ++ [233]%N ++ runes_of_ascii "t" ++ [233]%N ++ runes_of_ascii """)`two words` // " ++ [128512]%N ++ runes_of_ascii " emoji
, }
")).
Eval vm_compute in ("<<<M1303>>>" ++ check (runes_of_ascii "// trailing space 
packet i8i8 //x
{ @leftPad (
'\x00'
) @tag( 007)i32 _x
`tab	here` ,
    @tag( 00
    )
    repeat a1`" ++ [28040; 24687; 31867; 22411]%N ++ runes_of_ascii "` , _x /// triple
`it's` // " ++ [27880; 37322]%N ++ runes_of_ascii "
,// " ++ [128512]%N ++ runes_of_ascii " emoji
@leftPad ( ' '
    ) @calculatedFrom(
    ""\n""
) @leftPad ( '0'	) repeat f64 a1 , match _x as repeatCount { 3 :
stringy, [	""abc""
] :	u8x , 42 : packetx
    ,""{,}"":charz
    00:matchKey //	t
,
    } //
,match crc as
options1{ 65535
    // packet A { u8 x, }
    : x
, 10 // " ++ [27880; 37322]%N ++ runes_of_ascii "
:	_x
//
//
, [ """ ++ [233]%N ++ runes_of_ascii "t" ++ [233]%N ++ runes_of_ascii """ , // @lengthOf(
""{,}""	] :chars ,  } , // trailing space 
x_y_z { i16	Packet , repeat chars `doc` , repeat u32	trueish,
float // a // b
o , }
, repeat
    int8 Packet, @lengthOf( // a // b
leftPad // packet A { u8 x, }
) repeat // packet A { u8 x, }
rootA
, int64
    float // packet A { u8 x, }
, }
    root packet rootA{ char[ 00 ]len @calculatedFrom(""packet"" )
, u32 float
@calculatedFrom( """ ++ [233]%N ++ runes_of_ascii "t" ++ [233]%N ++ runes_of_ascii """ // c
), } packet falsey{
    x_y_z	@calculatedFrom( ""{,}"" ) `100% of %d` ,} packet Pad { @tag( 4294967296) u8
int
, }
")).
Eval vm_compute in ("<<<M1335>>>" ++ check (runes_of_ascii "root// @lengthOf(
packet tag{ }
packet //
MetaDataX  { lengthOf T ,@lengthOf(
roots )
@lengthOf( MetaDataX
) int32 Packet , @rightPad
    ( ' ' ) i8i8 {	char Packet @lengthOf( crc )`{ , }` , }
// trailing space 
// @lengthOf(
,
    //	t
    @calculatedFrom(	"""" ) repeat zchar[ 255
]i64_
,}
")).
Eval vm_compute in ("<<<M1367>>>" ++ check (runes_of_ascii "
options
    {
    Logon
= char[] ;
    falsey
// " ++ [27880; 37322]%N ++ runes_of_ascii "
// 50% %s
= false ; leftPad
=	f32
    }
")).
Eval vm_compute in ("<<<M1399>>>" ++ check (runes_of_ascii "

")).
Eval vm_compute in ("<<<T1399>>>" ++ terms [mkTok 0 "<EOF>" 3 0 false] (mkPacket (mkPtok 0 "<EOF>" 3 0 0) None [])).
Eval vm_compute in ("<<<M1431>>>" ++ check (runes_of_ascii "root packet
tag
    //
    {@calculatedFrom( """" ) string
    i64_ @lengthOf( a1  ) , } MetaData u8x
    {BodyLength
    packetx
`" ++ [28040; 24687; 31867; 22411]%N ++ runes_of_ascii "`,repeatCount//x
tag, zchar[
007 ] Foo, }options{ falsey=
' ' x
    = ""1""
    roots //
= u64 ;
packetx
=' ' ;
// " ++ [27880; 37322]%N ++ runes_of_ascii "
//	t
}")).
Eval vm_compute in ("<<<M1463>>>" ++ check (runes_of_ascii "packet crc {int8  msg_type  @lengthOf( BodyLength ) `" ++ [28040; 24687; 31867; 22411]%N ++ runes_of_ascii "` ,
// " ++ [128512]%N ++ runes_of_ascii " emoji
//x
} options { T
=i8 matchKey=
""" ++ [128512]%N ++ runes_of_ascii """ roots=
    ' ' ;
} packet
Header { @calculatedFrom( ""x y"" // trailing space 
)@tag(
    0123456789 //	t
)// 50% %s
float32 matchKey`crlf
line`	,  string
    body , repeat o
crc , match matchKey as x { [ 42
    ]:charz, [""a	b"", """ ++ [233]%N ++ runes_of_ascii "t" ++ [233]%N ++ runes_of_ascii """ ,0 , 7 , 00 ,65535, ""packet"" ]: x_y_z  ,
    4294967296 :
// @lengthOf(
// 50% %s
_x ,7  : msg_type//x
, 007 :
Pad , }
, } packet x { repeat
string Logon`
`
, @tag( 007) f64 repeatCount@lengthOf(
uint8x ), Z9_{ repeat leftPad A,} , @leftPad( )
_x Pad ,
@tag( 00// @lengthOf(
)
    match asx
    as len { ""a\""b"" : lengthOf //	t
, } , uint8x `crlf
line`
,
    zchar[ 7
    ] Pad // `tick` ""quote"" 'q'
, @rightPad
('0' ) string packetx
// " ++ [128512]%N ++ runes_of_ascii " emoji
// " ++ [128512]%N ++ runes_of_ascii " emoji
@calculatedFrom(
    ""it's"" )
`tab	here`, repeat stringy { zchar[
1	]	crc
    `" ++ [28040; 24687; 31867; 22411]%N ++ runes_of_ascii "` ,
o _x
    `line1
line2`, } ,}")).
Eval vm_compute in ("<<<M1495>>>" ++ check (runes_of_ascii "
")).
Eval vm_compute in ("<<<M1527>>>" ++ check (runes_of_ascii "options
    { BodyLength = //	t
u16	Header =
    // " ++ [27880; 37322]%N ++ runes_of_ascii "
    f64 ;
    u128= true ;  } // 50% %s
options {
// a // b
//	t
body =int32// " ++ [128512]%N ++ runes_of_ascii " emoji
} root packet Logon
{
/// triple
// 50% %s
@calculatedFrom(	""a	b""
    // " ++ [27880; 37322]%N ++ runes_of_ascii "
    )
@lengthOf( // @lengthOf(
_x)  @tag(1 ) leftPad
`it's`,
// packet A { u8 x, }
// " ++ [27880; 37322]%N ++ runes_of_ascii "
uint16 // 50% %s
int ,
}")).
Eval vm_compute in ("<<<M1559>>>" ++ check (runes_of_ascii "
packet BodyLength {	@leftPad (
' '
) repeat
    a1 `line1
line2`, repeat string // c
zchar // 50% %s
,} MetaData options1 { // c
} // a // b")).
Eval vm_compute in ("<<<M1591>>>" ++ check (@nil rune)).
Eval vm_compute in ("<<<M1623>>>" ++ check (runes_of_ascii "

")).
Eval vm_compute in ("<<<T1623>>>" ++ terms [mkTok 0 "<EOF>" 3 0 false] (mkPacket (mkPtok 0 "<EOF>" 3 0 0) None [])).
Eval vm_compute in ("<<<M1655>>>" ++ check (runes_of_ascii "
packet
// a // b
/// triple
Foo {
    repeat	char[] string_
    //
    ,}")).
Eval vm_compute in ("<<<M1687>>>" ++ check (runes_of_ascii "packet _x { @leftPad// c
( '0' ) crc ,  chars
    , }
packet chars { match
    // @lengthOf(
    stringy	as	BodyLength // packet A { u8 x, }
{  65535 :// 50% %s
f32a	,}	,
// " ++ [27880; 37322]%N ++ runes_of_ascii "
// @lengthOf(
@lengthOf( asx) i32 lengthOf
@lengthOf( rootA)
    , // a // b
_x @lengthOf( charz
    ) ,// `tick` ""quote"" 'q'
charz o ,} MetaData Pad
{u16 calculatedFrom , Packet// `tick` ""quote"" 'q'
crc
,
    }
packet f32a{
@lengthOf(f32a ) char u ,
repeatCount/// triple
trueish `// not a comment` , match zchar as metadata {[ 0123456789
, ""abc""
] :
    // " ++ [27880; 37322]%N ++ runes_of_ascii "
    body
    ["""" ,
""\n"" , 00 ,"""" , 00
,42
, """ ++ [233]%N ++ runes_of_ascii "t" ++ [233]%N ++ runes_of_ascii """
, 0123456789 ] :Foo
,	[  007
    // trailing space 
    , 007 , 4294967296 ,  7 ] :
    body,
    007
:asx , } // packet A { u8 x, }
, }
")).
Eval vm_compute in ("<<<M1719>>>" ++ check (runes_of_ascii "
packet falsey {
packetx
i64_`tab	here` , @calculatedFrom( ""packet""
) @lengthOf(// 50% %s
Packet
)	string
_x @calculatedFrom( ""packet""// a // b
) , } MetaData  u8x {
}")).
Eval vm_compute in ("<<<M1751>>>" ++ check (runes_of_ascii "packet roots
{x @lengthOf( tag )
`line1
line2`  , match i8i8
as leftPad{
[ """ ++ [128512]%N ++ runes_of_ascii """
,""\" ++ [233]%N ++ runes_of_ascii """ ]
    // trailing space 
    :BodyLength ,
[ 4294967296,
    //	t
    ""\" ++ [233]%N ++ runes_of_ascii """ ]	:
x_y_z ""{,}""
:
u8x , ""`tick`"" : x
// trailing space 
//x
, } ,@calculatedFrom( ""abc"")matchKey {  match string_
    as leftPad { ""{,}"" :	a1 0123456789
:charz [ ""a\\""
, ""it's""
,
""1"" , // @lengthOf(
0123456789
, """" ] //x
: uint8x,	[  ""{,}""
,
    """ ++ [128512]%N ++ runes_of_ascii """
    , 1
    , 7 ]	:
    // trailing space 
    As ,
    [ """ ++ [28040; 24687]%N ++ runes_of_ascii """] : // 50% %s
tag ""// no comment"" :msg_type
    // @lengthOf(
    , }
    , } ,
    //x
    @lengthOf( a1 ) uint32 tag
, repeat char
    // `tick` ""quote"" 'q'
    trueish
`two words` ,	i8 rootA	,@rightPad (
'0' ) @calculatedFrom(""x y"" )
zchar[ 1
    // @lengthOf(
    ] metadata @calculatedFrom(""" ++ [28040; 24687]%N ++ runes_of_ascii """
) `// not a comment` ,
    @calculatedFrom( ""abc"" ) float32  x_y_z , @lengthOf( falsey )char[]  f32a
    , } options {
i8i8=""" ++ [128512]%N ++ runes_of_ascii """ ; a1 =
true ; len =
""" ++ [128512]%N ++ runes_of_ascii """ pack// `tick` ""quote"" 'q'
= ' '
repeatCount
= ' '; }
")).
Eval vm_compute in ("<<<M1783>>>" ++ check (runes_of_ascii "packet	Packet  {
    @calculatedFrom(""{,}""
    ) trueish @calculatedFrom( ""1"" )
`// not a comment`
    // a // b
    , // trailing space 
@leftPad ( ) metadata
    // c
    Foo `
`,
    repeatCount
    x
,  uint16
    o , @calculatedFrom( ""`tick`"" ) repeat
charz  msg_type `say ""hi""` // packet A { u8 x, }
, matchKey uint8x
,
repeat u64
calculatedFrom	,	}root packet lengthOf{
char[]  stringy `100% of %d`// 50% %s
,@rightPad( '0'
    // a // b
    )
    // @lengthOf(
    repeat
    o
{ match	body as A	{ ""abc"" :/// triple
Header
//x
// `tick` ""quote"" 'q'
, } ,
}
,string x, @lengthOf( x)	A @calculatedFrom(""a\""b"" )
`// not a comment` // a // b
,
uint16 //x
repeatCount
    // " ++ [27880; 37322]%N ++ runes_of_ascii "
    , zchar[ 65535 ]
    _x	`two words` ,
    match
    charz as // trailing space 
calculatedFrom
{
    """ ++ [28040; 24687]%N ++ runes_of_ascii """ : u, 42
: roots , 42 : //	t
crc
    , [ ""it's""
, """ ++ [28040; 24687]%N ++ runes_of_ascii """,
""a	b""
, 1
    ,
// `tick` ""quote"" 'q'
// " ++ [128512]%N ++ runes_of_ascii " emoji
""packet""
, ""\n"" //x
,1	] :
    trueish
,
00 : packetx ,""CRC32"": uint8x
    /// triple
    ,	}
,
// packet A { u8 x, }
// trailing space 
repeat x_y_z { float32 BodyLength // packet A { u8 x, }
,
    // `tick` ""quote"" 'q'
    } , } root packet A { // " ++ [27880; 37322]%N ++ runes_of_ascii "
} options {}  MetaData falsey{ }")).
Eval vm_compute in ("<<<M1815>>>" ++ check (runes_of_ascii "root
packet lengthOf { @leftPad
(  )
@calculatedFrom(""\n""	) match // 50% %s
rootA as u {// " ++ [27880; 37322]%N ++ runes_of_ascii "
[
    """ ++ [233]%N ++ runes_of_ascii "t" ++ [233]%N ++ runes_of_ascii """ , 4294967296, """ ++ [128512]%N ++ runes_of_ascii """	,""abc"",
    // trailing space 
    ""{,}""	] : int
// " ++ [128512]%N ++ runes_of_ascii " emoji
// `tick` ""quote"" 'q'
, } ,
i32
    x
    `" ++ [233]%N ++ runes_of_ascii "` ,uint16
//	t
// a // b
repeatCount@lengthOf( string_ )
    , repeat
    crc {
Packet
BodyLength ,
    }, }
")).
Eval vm_compute in ("<<<M1847>>>" ++ check (runes_of_ascii "root
packet options1{@calculatedFrom( """ ++ [28040; 24687]%N ++ runes_of_ascii """)
    string options1 , } root //x
packet
    body
{}")).
Eval vm_compute in ("<<<T1847>>>" ++ terms [mkTok 34 "root" 1 0 false; mkTok 35 "packet" 2 0 false; mkTok 42 "options1" 2 7 false; mkTok 2 "{" 2 15 false; mkTok 5 "@calculatedFrom(" 2 16 false; mkTok 31 (string_of_bytes [34; 230; 182; 136; 230; 129; 175; 34]%N) 2 33 false; mkTok 6 ")" 2 37 false; mkTok 15 "string" 3 4 false; mkTok 42 "options1" 3 11 false; mkTok 40 "," 3 20 false; mkTok 3 "}" 3 22 false; mkTok 34 "root" 3 24 false; mkTok 44 "//x" 3 29 true; mkTok 35 "packet" 4 0 false; mkTok 42 "body" 5 4 false; mkTok 2 "{" 6 0 false; mkTok 3 "}" 6 1 false; mkTok 0 "<EOF>" 6 2 false] (mkPacket (mkPtok 34 "root" 1 0 0) (Some (mkPtok 3 "}" 6 1 16)) [(DPacket (mkPacketDef (mkSpan (mkPtok 34 "root" 1 0 0) (mkPtok 3 "}" 3 22 10)) (Some (mkPtok 34 "root" 1 0 0)) (mkPtok 35 "packet" 2 0 1) (mkPtok 42 "options1" 2 7 2) (mkPtok 2 "{" 2 15 3) [(mkFieldWithAttr (mkSpan (mkPtok 5 "@calculatedFrom(" 2 16 4) (mkPtok 40 "," 3 20 9)) [(FACalculatedFrom (mkSpan (mkPtok 5 "@calculatedFrom(" 2 16 4) (mkPtok 6 ")" 2 37 6)) (mkCalculatedFrom (mkSpan (mkPtok 5 "@calculatedFrom(" 2 16 4) (mkPtok 6 ")" 2 37 6)) (mkPtok 5 "@calculatedFrom(" 2 16 4) (mkPtok 31 (string_of_bytes [34; 230; 182; 136; 230; 129; 175; 34]%N) 2 33 5) (mkPtok 6 ")" 2 37 6)))] (MetaField (mkSpan (mkPtok 15 "string" 3 4 7) (mkPtok 40 "," 3 20 9)) None (mkMetaDecl (mkSpan (mkPtok 15 "string" 3 4 7) (mkPtok 40 "," 3 20 9)) (TyDynamic (mkSpan (mkPtok 15 "string" 3 4 7) (mkPtok 15 "string" 3 4 7)) (mkDynamicString (mkSpan (mkPtok 15 "string" 3 4 7) (mkPtok 15 "string" 3 4 7)) (mkPtok 15 "string" 3 4 7))) (mkPtok 42 "options1" 3 11 8) None (mkPtok 40 "," 3 20 9))))] (mkPtok 3 "}" 3 22 10))); (DPacket (mkPacketDef (mkSpan (mkPtok 34 "root" 3 24 11) (mkPtok 3 "}" 6 1 16)) (Some (mkPtok 34 "root" 3 24 11)) (mkPtok 35 "packet" 4 0 13) (mkPtok 42 "body" 5 4 14) (mkPtok 2 "{" 6 0 15) [] (mkPtok 3 "}" 6 1 16)))])).
Eval vm_compute in ("<<<M1879>>>" ++ check (runes_of_ascii "packet// trailing space 
MetaDataX	{}
")).
Eval vm_compute in ("<<<M1911>>>" ++ check (runes_of_ascii "options {
Z9_ = true }

")).
Eval vm_compute in ("<<<M1943>>>" ++ check (runes_of_ascii "//x
packet int { char[ 3 ] len , }
options {
    u128
    =
false
    // " ++ [27880; 37322]%N ++ runes_of_ascii "
    ; stringy=
    0 A=  10 roots
=
true }options
{ A= // " ++ [128512]%N ++ runes_of_ascii " emoji
zchar[
7
//
/// triple
] ;
// a // b
// @lengthOf(
}
root	packet
leftPad//
{ @lengthOf(	roots ) char[]
Foo@calculatedFrom(  ""`tick`"")
    , @tag(255 ) i64_	{Foo,repeat
    // packet A { u8 x, }
    MetaDataX `it's`
    , char[] Foo ,
    },float64 u	, match body as o { ""a	b"" : pack , 0123456789: string_ ,  """ ++ [28040; 24687]%N ++ runes_of_ascii """ :
// `tick` ""quote"" 'q'
// `tick` ""quote"" 'q'
charz 10:  falsey, }
, i8 MetaDataX
    `tab	here` , i8 charz
    ,
    /// triple
    }")).
Eval vm_compute in ("<<<M1975>>>" ++ check (runes_of_ascii "root  packet
    asx{
    @leftPad //	t
( '\x00'
    // trailing space 
    ) repeat//x
stringy { i8i8 string_ `u8 x,` , } , u8 // " ++ [27880; 37322]%N ++ runes_of_ascii "
metadata ,
@tag( 0
) string
    o // packet A { u8 x, }
@lengthOf(
As) `
`, i32 falsey
    ,}
")).
Eval vm_compute in ("<<<M2007>>>" ++ check (runes_of_ascii "root packet SimpleMessage {
    uint16 MsgType `" ++ [28040; 24687; 31867; 22411]%N ++ runes_of_ascii "`,
    string JsonBody `Json" ++ [23383; 31526; 20018; 28040; 24687; 20307]%N ++ runes_of_ascii "`,
}")).
Eval vm_compute in ("<<<M2039>>>" ++ check (runes_of_ascii "MetaData repeatCount { float64 packetx,
 root packet  metadata {
char _x @lengthOf( trueish ), @leftPad
( ' '// " ++ [27880; 37322]%N ++ runes_of_ascii "
)/// triple
char[] len`doc` , // packet A { u8 x, }
repeatCount , }
")).
Eval vm_compute in ("<<<M2071>>>" ++ check (runes_of_ascii "MetaData repeatCount { float64 packetx,
} root packet  metadata {
char @lengthOf( _x trueish ), @leftPad
( ' '// " ++ [27880; 37322]%N ++ runes_of_ascii "
)/// triple
char[] len`doc` , // packet A { u8 x, }
repeatCount , }
")).
Eval vm_compute in ("<<<M2103>>>" ++ check (runes_of_ascii "MetaData repeatCount { float64 packetx,
} root packet  metadata {
char _x @lengthOf( trueish ), @leftPad")).
Eval vm_compute in ("<<<M2135>>>" ++ check (runes_of_ascii "MetaData repeatCount { float64 packetx,
} root packet  metadata {
char _x @lengthOf( trueish ), @leftPad
( ' '// " ++ [27880; 37322]%N ++ runes_of_ascii "
)/// triple
char[] len`doc` , // packet A { u8 x, }
repeatCount repeatCount , }
")).
Eval vm_compute in ("<<<M2167>>>" ++ check (runes_of_ascii "MetaData repeatCount { float64 packetx,
} root packet  metadata {
char _x @lengthOf( caf" ++ [233]%N ++ runes_of_ascii "_1 ), @leftPad
( ' '// " ++ [27880; 37322]%N ++ runes_of_ascii "
)/// triple
char[] len`doc` , // packet A { u8 x, }
repeatCount , }
")).
Eval vm_compute in ("<<<M2199>>>" ++ check (runes_of_ascii "options{
leftPad
    =65535")).
Eval vm_compute in ("<<<M2231>>>" ++ check (runes_of_ascii "options{
leftPad
    =65535
;
a1 = true ; packetx=  '\x00' '\x00' ; packetx
=  """ ++ [28040; 24687]%N ++ runes_of_ascii """MetaDataX= // " ++ [27880; 37322]%N ++ runes_of_ascii "
false }root // c
packet // packet A { u8 x, }
Pad { repeat
u8 Header
// packet A { u8 x, }
//	t
`{ , }`
// a // b
//x
, }
")).
Eval vm_compute in ("<<<M2263>>>" ++ check (runes_of_ascii "options{
leftPad
    =65535
;
a1 = true ; packetx=  '\x00' ; packetx
=  """ ++ [28040; 24687]%N ++ runes_of_ascii """MetaDataX u8 // " ++ [27880; 37322]%N ++ runes_of_ascii "
false }root // c
packet // packet A { u8 x, }
Pad { repeat
u8 Header
// packet A { u8 x, }
//	t
`{ , }`
// a // b
//x
, }
")).
Eval vm_compute in ("<<<M2295>>>" ++ check (runes_of_ascii "options{
leftPad
    =65535
;
a1 = true ; packetx=  '\x00' ; packetx
=  """ ++ [28040; 24687]%N ++ runes_of_ascii """MetaDataX= // " ++ [27880; 37322]%N ++ runes_of_ascii "
false }root // c
packet // packet A { u8 x, }
Pad { 
u8 Header
// packet A { u8 x, }
//	t
`{ , }`
// a // b
//x
, }
")).
Eval vm_compute in ("<<<M2327>>>" ++ check (runes_of_ascii "options{
leftPad
    =65535
;
a1")).
Eval vm_compute in ("<<<M2359>>>" ++ check (runes_of_ascii "
packet float
as	@calculatedFrom( """ ++ [233]%N ++ runes_of_ascii "t" ++ [233]%N ++ runes_of_ascii """ )
@rightPad ( '\x00' )
    @calculatedFrom( ""x y"" ) string chars  ,
    // a // b
    char[0 ]
    u	@lengthOf( i8i8 ) `{ , }` ,repeat char[] o //x
`// not a comment`, } // c")).
Eval vm_compute in ("<<<M2391>>>" ++ check (runes_of_ascii "
packet float
{	@calculatedFrom( """ ++ [233]%N ++ runes_of_ascii "t" ++ [233]%N ++ runes_of_ascii """ )
@rightPad ( '\x00' 
    @calculatedFrom( ""x y"" ) string chars  ,
    // a // b
    char[0 ]
    u	@lengthOf( i8i8 ) `{ , }` ,repeat char[] o //x
`// not a comment`, } // c")).
Eval vm_compute in ("<<<M2423>>>" ++ check (runes_of_ascii "
packet float
{	@calculatedFrom( """ ++ [233]%N ++ runes_of_ascii "t" ++ [233]%N ++ runes_of_ascii """ )
@rightPad ( '\x00' )
    @calculatedFrom( ""x y"" ) string chars  char[
    // a // b
    ,0 ]
    u	@lengthOf( i8i8 ) `{ , }` ,repeat char[] o //x
`// not a comment`, } // c")).
Eval vm_compute in ("<<<M2455>>>" ++ check (runes_of_ascii "
packet float
{	@calculatedFrom( """ ++ [233]%N ++ runes_of_ascii "t" ++ [233]%N ++ runes_of_ascii """ )
@rightPad ( '\x00' )
    @calculatedFrom( ""x y"" ) string chars  ,
    // a // b
    char[0 ]
    u	@lengthOf(")).
Eval vm_compute in ("<<<M2487>>>" ++ check (runes_of_ascii "
packet float
{	@calculatedFrom( """ ++ [233]%N ++ runes_of_ascii "t" ++ [233]%N ++ runes_of_ascii """ )
@rightPad ( '\x00' )
    @calculatedFrom( ""x y"" ) string chars  ,
    // a // b
    char[0 ]
    u	@lengthOf( i8i8 ) `{ , }` ,repeat char[] o //x
`// not a comment` `// not a comment`, } // c")).
Eval vm_compute in ("<<<M2519>>>" ++ check (runes_of_ascii "
packet float
{	@calculatedFrom( """ ++ [233]%N ++ runes_of_ascii "t" ++ [233]%N ++ runes_of_ascii """ )
@rightPad ( '\x00' )
    @calculatedFrom( ""x y"" ) string caf" ++ [233]%N ++ runes_of_ascii "_1  ,
    // a // b
    char[0 ]
    u	@lengthOf( i8i8 ) `{ , }` ,repeat char[] o //x
`// not a comment`, } // c")).
Eval vm_compute in ("<<<M2551>>>" ++ check (runes_of_ascii "root packet u128{
    repeat")).
Eval vm_compute in ("<<<M2583>>>" ++ check (runes_of_ascii "root packet u128{
    repeat
    zchar[ 65535 ] u `" ++ [28040; 24687; 31867; 22411]%N ++ runes_of_ascii "` ,// `tick` ""quote"" 'q'
} packet packet i64_ {repeatCount
    `
` ,	} // " ++ [128512]%N ++ runes_of_ascii " emoji")).
Eval vm_compute in ("<<<M2615>>>" ++ check (runes_of_ascii "root packet u128{
    repeat
    zchar[ 65535 ] u `" ++ [28040; 24687; 31867; 22411]%N ++ runes_of_ascii "` ,// `tick` ""quote"" 'q'
} packet i64_ {repeatCount
    `
` ,")).
Eval vm_compute in ("<<<M2647>>>" ++ check (runes_of_ascii "
MetaData")).
Eval vm_compute in ("<<<M2679>>>" ++ check (runes_of_ascii "
MetaData
roots { int8
    BodyLength ,//	t
" ++ [127]%N ++ runes_of_ascii "}
")).
Eval vm_compute in ("<<<M2711>>>" ++ check (runes_of_ascii "options {Packet ""CRC32"" =i8i8 = false; leftPad =
    '\x00'
    // `tick` ""quote"" 'q'
    ; o=255  ;
    // packet A { u8 x, }
    }")).
Eval vm_compute in ("<<<M2743>>>" ++ check (runes_of_ascii "options {Packet = ""CRC32""i8i8 = false;")).
Eval vm_compute in ("<<<M2775>>>" ++ check (runes_of_ascii "options {Packet = ""CRC32""i8i8 = false; leftPad =
    '\x00'
    // `tick` ""quote"" 'q'
    ; o=255  ; ;
    // packet A { u8 x, }
    }")).
Eval vm_compute in ("<<<M2807>>>" ++ check (runes_of_ascii "
metadata packet { @rightPad (
    // packet A { u8 x, }
    ' ' ) repeat u32	A
,matchKey ,
    @lengthOf( string_ ) @lengthOf( body )
    // a // b
    @lengthOf(float  )	repeat
int32 u8x
    // c
    `tab	here`
, } // a // b")).
Eval vm_compute in ("<<<M2839>>>" ++ check (runes_of_ascii "
packet metadata { @rightPad (
    // packet A { u8 x, }
    ' '")).
Eval vm_compute in ("<<<M2871>>>" ++ check (runes_of_ascii "
packet metadata { @rightPad (
    // packet A { u8 x, }
    ' ' ) repeat u32	A
,matchKey ,
    @lengthOf( @lengthOf( string_ ) @lengthOf( body )
    // a // b
    @lengthOf(float  )	repeat
int32 u8x
    // c
    `tab	here`
, } // a // b")).
Eval vm_compute in ("<<<M2903>>>" ++ check (runes_of_ascii "
packet metadata { @rightPad (
    // packet A { u8 x, }
    ' ' ) repeat u32	A
,matchKey ,
    @lengthOf( string_ ) @lengthOf( body )
    // a // b
    float32 float  )	repeat
int32 u8x
    // c
    `tab	here`
, } // a // b")).
Eval vm_compute in ("<<<M2935>>>" ++ check (runes_of_ascii "
packet metadata { @rightPad (
    // packet A { u8 x, }
    ' ' ) repeat u32	A
,matchKey ,
    @lengthOf( string_ ) @lengthOf( body )
    // a // b
    @lengthOf(float  )	repeat
int32 u8x
    // c
    `tab	here`
 } // a // b")).
Eval vm_compute in ("<<<M2967>>>" ++ check (runes_of_ascii "packet packet x{
string
zchar , //	t
}
")).
Eval vm_compute in ("<<<M2999>>>" ++ check (runes_of_ascii "packet x{
string
zchar ,")).
Eval vm_compute in ("<<<M3031>>>" ++ check (runes_of_ascii "
MetaData")).
Eval vm_compute in ("<<<M3063>>>" ++ check (runes_of_ascii "
MetaData Logon
{ // c
}root packet
    Pad {
    } } options
{
u
    =
    ""CRC32""
    // " ++ [128512]%N ++ runes_of_ascii " emoji
    i64_ = u16;
T =65535 x = ' '
    ; u128
= true ; }")).
Eval vm_compute in ("<<<M3095>>>" ++ check (runes_of_ascii "
MetaData Logon
{ // c
}root packet
    Pad {
    } options
{
u
    =
    ""CRC32""
    // " ++ [128512]%N ++ runes_of_ascii " emoji
    string = u16;
T =65535 x = ' '
    ; u128
= true ; }")).
Eval vm_compute in ("<<<M3127>>>" ++ check (runes_of_ascii "
MetaData Logon
{ // c
}root packet
    Pad {
    } options
{
u
    =
    ""CRC32""
    // " ++ [128512]%N ++ runes_of_ascii " emoji
    i64_ = u16;
T =65535  = ' '
    ; u128
= true ; }")).
Eval vm_compute in ("<<<M3159>>>" ++ check (runes_of_ascii "
MetaData Logon
{ // c
}root packet
    Pad {
    } options
{
u
    =
    ""CRC32""
    // " ++ [128512]%N ++ runes_of_ascii " emoji
    i64_ = u16;
T =65535 x = ' '
    ; u128
= ; true }")).
Eval vm_compute in ("<<<M3191>>>" ++ check (runes_of_ascii "
MetaData Logon
{ // c
}root packet
    Pad {
    } options
{
u
    =
    ""CRC32""
    // " ++ [128512]%N ++ runes_of_ascii " emoji
    i64_ = u16;
T =65535 caf" ++ [233]%N ++ runes_of_ascii "_1 = ' '
    ; u128
= true ; }")).
Eval vm_compute in ("<<<M3223>>>" ++ check (runes_of_ascii "MetaData body{}
packet	Packet  x_y_z @calculatedFrom(  ""a\\"")// `tick` ""quote"" 'q'
, }
")).
Eval vm_compute in ("<<<M3255>>>" ++ check (runes_of_ascii "MetaData body{}
packet	Packet { x_y_z @calculatedFrom(  ""a\\"")// `tick` ""quote"" 'q'
, @calculatedFrom(
")).
Eval vm_compute in ("<<<M3287>>>" ++ check (runes_of_ascii "packet zchar[ {} root packet len {repeat u // " ++ [128512]%N ++ runes_of_ascii " emoji
`{ , }` , }
")).
Eval vm_compute in ("<<<M3319>>>" ++ check (runes_of_ascii "packet f32a {} root packet len { u // " ++ [128512]%N ++ runes_of_ascii " emoji
`{ , }` , }
")).
Eval vm_compute in ("<<<M3351>>>" ++ check (runes_of_ascii "packet f3|2a {} root packet len {repeat u // " ++ [128512]%N ++ runes_of_ascii " emoji
`{ , }` , }
")).
Eval vm_compute in ("<<<M3383>>>" ++ check (runes_of_ascii "options{ _x=""\" ++ [233]%N ++ runes_of_ascii """;
    Logon = 10	; Foo= 7;
i64_= char[] options {
matchKey = ""// no comment"" // a // b
falsey = string
; trueish =
    4294967296
options1=
    ""it's"" string_	= true } options {
    /// triple
    }")).
Eval vm_compute in ("<<<M3415>>>" ++ check (runes_of_ascii "options{ _x=""\" ++ [233]%N ++ runes_of_ascii """;
    Logon = 10	; Foo")).
Eval vm_compute in ("<<<M3447>>>" ++ check (runes_of_ascii "options{ _x=""\" ++ [233]%N ++ runes_of_ascii """;
    Logon = 10	; Foo= 7;
i64_= char[]} options {
matchKey = ""// no comment"" // a // b
falsey = string
; trueish =
    
options1=
    ""it's"" string_	= true } options {
    /// triple
    }")).
Eval vm_compute in ("<<<M3479>>>" ++ check (runes_of_ascii "options{ _x=""\" ++ [233]%N ++ runes_of_ascii """;
    Logon  10	; Foo= 7;
i64_= char[]} options {
matchKey = ""// no comment"" // a // b
falsey = string
; trueish =
    4294967296
options1=
    ""it's"" string_	= true } options {
    /// triple
    }")).
Eval vm_compute in ("<<<M3511>>>" ++ check (runes_of_ascii "true")).
Eval vm_compute in ("<<<M3543>>>" ++ check (runes_of_ascii "'")).
Eval vm_compute in ("<<<M3575>>>" ++ check (runes_of_ascii """a\")).
Eval vm_compute in ("<<<M3607>>>" ++ check (runes_of_ascii ":,;=()[]{}")).
Eval vm_compute in ("<<<M3639>>>" ++ check (runes_of_ascii "packet A { x y z, }")).
Eval vm_compute in ("<<<M3671>>>" ++ check (runes_of_ascii "packet A { match k as n { 1 : B }, }")).
Eval vm_compute in ("<<<T3671>>>" ++ terms [mkTok 35 "packet" 1 0 false; mkTok 42 "A" 1 7 false; mkTok 2 "{" 1 9 false; mkTok 38 "match" 1 11 false; mkTok 42 "k" 1 17 false; mkTok 17 "as" 1 19 false; mkTok 42 "n" 1 22 false; mkTok 2 "{" 1 24 false; mkTok 30 "1" 1 26 false; mkTok 39 ":" 1 28 false; mkTok 42 "B" 1 30 false; mkTok 3 "}" 1 32 false; mkTok 40 "," 1 33 false; mkTok 3 "}" 1 35 false; mkTok 0 "<EOF>" 1 36 false] (mkPacket (mkPtok 35 "packet" 1 0 0) (Some (mkPtok 3 "}" 1 35 13)) [(DPacket (mkPacketDef (mkSpan (mkPtok 35 "packet" 1 0 0) (mkPtok 3 "}" 1 35 13)) None (mkPtok 35 "packet" 1 0 0) (mkPtok 42 "A" 1 7 1) (mkPtok 2 "{" 1 9 2) [(mkFieldWithAttr (mkSpan (mkPtok 38 "match" 1 11 3) (mkPtok 40 "," 1 33 12)) [] (MatchField (mkSpan (mkPtok 38 "match" 1 11 3) (mkPtok 40 "," 1 33 12)) (mkMatchFieldDecl (mkSpan (mkPtok 38 "match" 1 11 3) (mkPtok 3 "}" 1 32 11)) (mkPtok 38 "match" 1 11 3) (mkPtok 42 "k" 1 17 4) (mkPtok 17 "as" 1 19 5) (mkPtok 42 "n" 1 22 6) (mkPtok 2 "{" 1 24 7) [(mkMatchPair (mkSpan (mkPtok 30 "1" 1 26 8) (mkPtok 42 "B" 1 30 10)) (MKDigits (mkPtok 30 "1" 1 26 8)) (mkPtok 39 ":" 1 28 9) (mkPtok 42 "B" 1 30 10) None)] (mkPtok 3 "}" 1 32 11)) (mkPtok 40 "," 1 33 12)))] (mkPtok 3 "}" 1 35 13)))])).
Eval vm_compute in ("<<<M3703>>>" ++ check (runes_of_ascii "packet A }")).
Eval vm_compute in ("<<<M3735>>>" ++ check (runes_of_ascii "options { a = `d`; }")).
Eval vm_compute in ("<<<M3767>>>" ++ check (runes_of_ascii ")")).
Eval vm_compute in ("<<<M3799>>>" ++ check (runes_of_ascii "int8")).
Eval vm_compute in ("<<<M3831>>>" ++ check (runes_of_ascii "BodyLength true zchar[ options char[ int32 lengthOf false")).
Eval vm_compute in ("<<<M3863>>>" ++ check (runes_of_ascii "char u32 , uint64 { string 4294967296 options @leftPad @tag( char[")).
Eval vm_compute in ("<<<M3895>>>" ++ check (runes_of_ascii "char options @lengthOf( : '\x00' } ;")).
Eval vm_compute in ("<<<M3927>>>" ++ check (runes_of_ascii "as f64 root i64")).
Eval vm_compute in ("<<<M3959>>>" ++ check (runes_of_ascii "as i8 repeat , repeat f64 as u16")).
Eval vm_compute in ("<<<M3991>>>" ++ check (runes_of_ascii "( repeat")).
