From FP Require Import Lexer Parser ShowPT Digest.
From Coq Require Import String List NArith.
Import ListNotations.
Open Scope string_scope.
Set Printing Width 100000000.
Set Printing Depth 100000000.
Definition nl : string := String (Ascii.ascii_of_nat 10) EmptyString.
Definition model_lex (rs : list rune) : string := show_toks (lex rs).
Definition model_parse (rs : list rune) : string :=
  show_pt (match lex rs with Some ts => parse ts | None => None end).
(* coqc is slow at printing long strings: digests first (Digest.v), full texts on demand *)
Definition check (rs : list rune) : string :=
  digest (model_lex rs) ++ " " ++ digest (model_parse rs).
Definition full (rs : list rune) : string := model_lex rs ++ nl ++ model_parse rs.
Definition terms (ts : list tok) (t : pt) : string :=
  digest (show_toks (Some ts)) ++ " " ++ digest (show_pt (Some t)) ++ " " ++ digest (show_pt (parse ts)).
Definition terms_full (ts : list tok) (t : pt) : string :=
  show_toks (Some ts) ++ nl ++ show_pt (Some t) ++ nl ++ show_pt (parse ts).
Eval vm_compute in ("<<<M23>>>" ++ check (runes_of_ascii "options
    // a // b
    {
float	= char[ 4294967296 ] ; }
")).
Eval vm_compute in ("<<<M55>>>" ++ check (runes_of_ascii "MetaData
trueish {int
falsey , char[
10
    ] u  , zchar[ 007 ] leftPad , string
x `two words`
    ,  }
")).
Eval vm_compute in ("<<<T55>>>" ++ terms [mkTok 37 "MetaData" 1 0 false; mkTok 42 "trueish" 2 0 false; mkTok 2 "{" 2 8 false; mkTok 42 "int" 2 9 false; mkTok 42 "falsey" 3 0 false; mkTok 40 "," 3 7 false; mkTok 12 "char[" 3 9 false; mkTok 30 "10" 4 0 false; mkTok 13 "]" 5 4 false; mkTok 42 "u" 5 6 false; mkTok 40 "," 5 9 false; mkTok 14 "zchar[" 5 11 false; mkTok 30 "007" 5 18 false; mkTok 13 "]" 5 22 false; mkTok 42 "leftPad" 5 24 false; mkTok 40 "," 5 32 false; mkTok 15 "string" 5 34 false; mkTok 42 "x" 6 0 false; mkTok 43 "`two words`" 6 2 false; mkTok 40 "," 7 4 false; mkTok 3 "}" 7 7 false; mkTok 0 "<EOF>" 8 0 false] (mkPacket (mkPtok 37 "MetaData" 1 0 0) (Some (mkPtok 3 "}" 7 7 20)) [(DMeta (mkMetaDef (mkSpan (mkPtok 37 "MetaData" 1 0 0) (mkPtok 3 "}" 7 7 20)) (mkPtok 37 "MetaData" 1 0 0) (mkPtok 42 "trueish" 2 0 1) (mkPtok 2 "{" 2 8 2) [(MIRef (mkRefMetaDecl (mkSpan (mkPtok 42 "int" 2 9 3) (mkPtok 40 "," 3 7 5)) (mkPtok 42 "int" 2 9 3) (mkPtok 42 "falsey" 3 0 4) None (mkPtok 40 "," 3 7 5))); (MIDecl (mkMetaDecl (mkSpan (mkPtok 12 "char[" 3 9 6) (mkPtok 40 "," 5 9 10)) (TyFixed (mkSpan (mkPtok 12 "char[" 3 9 6) (mkPtok 13 "]" 5 4 8)) (mkFixedString (mkSpan (mkPtok 12 "char[" 3 9 6) (mkPtok 13 "]" 5 4 8)) (mkPtok 12 "char[" 3 9 6) (mkPtok 30 "10" 4 0 7) (mkPtok 13 "]" 5 4 8))) (mkPtok 42 "u" 5 6 9) None (mkPtok 40 "," 5 9 10))); (MIDecl (mkMetaDecl (mkSpan (mkPtok 14 "zchar[" 5 11 11) (mkPtok 40 "," 5 32 15)) (TyFixed (mkSpan (mkPtok 14 "zchar[" 5 11 11) (mkPtok 13 "]" 5 22 13)) (mkFixedString (mkSpan (mkPtok 14 "zchar[" 5 11 11) (mkPtok 13 "]" 5 22 13)) (mkPtok 14 "zchar[" 5 11 11) (mkPtok 30 "007" 5 18 12) (mkPtok 13 "]" 5 22 13))) (mkPtok 42 "leftPad" 5 24 14) None (mkPtok 40 "," 5 32 15))); (MIDecl (mkMetaDecl (mkSpan (mkPtok 15 "string" 5 34 16) (mkPtok 40 "," 7 4 19)) (TyDynamic (mkSpan (mkPtok 15 "string" 5 34 16) (mkPtok 15 "string" 5 34 16)) (mkDynamicString (mkSpan (mkPtok 15 "string" 5 34 16) (mkPtok 15 "string" 5 34 16)) (mkPtok 15 "string" 5 34 16))) (mkPtok 42 "x" 6 0 17) (Some (mkPtok 43 "`two words`" 6 2 18)) (mkPtok 40 "," 7 4 19)))] (mkPtok 3 "}" 7 7 20)))])).
Eval vm_compute in ("<<<M87>>>" ++ check (runes_of_ascii "MetaData
Packet
{
    }options { Z9_ =
char[] ; _x=
'0';
body
=
false }
")).
Eval vm_compute in ("<<<M119>>>" ++ check (runes_of_ascii "packet BodyLength {  @tag(
0 )
    char[
4294967296 ]
    options1 , }
    root packet asx{ repeat string //x
zchar //	t
,
    repeat char string_ `" ++ [28040; 24687; 31867; 22411]%N ++ runes_of_ascii "` ,
    } options{ rootA = zchar[ 00
] ;len = ""a\""b"" ; float =7;uint8x= f64 ;// `tick` ""quote"" 'q'
}root packet
    stringy{trueish Foo , } packet
pack{ u64
// @lengthOf(
// c
repeatCount @lengthOf( Header
    ) ,
}

")).
Eval vm_compute in ("<<<M151>>>" ++ check (runes_of_ascii "root //	t
packet
BodyLength { zchar[ 10
]
u128
    ,
uint8 zchar ``
    , repeat falsey ,float64 chars@calculatedFrom( """ ++ [128512]%N ++ runes_of_ascii """
) , char[]matchKey, repeat //x
uint16 matchKey ,
@calculatedFrom( ""CRC32"" ) char[ 3 ] u `" ++ [28040; 24687; 31867; 22411]%N ++ runes_of_ascii "` , @leftPad ( '0'
    //	t
    ) u64  charz @calculatedFrom(""" ++ [128512]%N ++ runes_of_ascii """), }
root packet chars //
{} MetaData Z9_{ zchar[ 255 ] _x,int32 f32a , int8
asx `` ,
o
packetx // `tick` ""quote"" 'q'
, }
    options
// trailing space 
// c
{	A
=
4294967296
//
// packet A { u8 x, }
;
Foo = ""x y"" ;Foo =  ' ' } //	t")).
Eval vm_compute in ("<<<M183>>>" ++ check (runes_of_ascii "
packet Foo {	} packet MetaDataX
    {char[]	Logon
// trailing space 
//
,  }root packet MetaDataX { match Z9_ as zchar{
7 : zchar , } , }")).
Eval vm_compute in ("<<<M215>>>" ++ check (runes_of_ascii "MetaData
T { Foo  lengthOf , string
    //x
    packetx
    `// not a comment` , zchar[
    //	t
    0] metadata
//x
// `tick` ""quote"" 'q'
`crlf
line` ,
x string_
`line1
line2` , } packet repeatCount {	char[ // `tick` ""quote"" 'q'
255 ]
A @calculatedFrom(""a\\"" )
,float32
    BodyLength @lengthOf(	_x )
// c
//
`doc` , char[] trueish
    // " ++ [128512]%N ++ runes_of_ascii " emoji
    @calculatedFrom( ""packet"")
    ,}
")).
Eval vm_compute in ("<<<M247>>>" ++ check (runes_of_ascii "MetaData
    a1 { // a // b
}options { o
= 255
; } packet f32a //
{ uint8 _x	@calculatedFrom( ""x y""
)	,}MetaData
    options1
{  f64 lengthOf `it's`
,lengthOf metadata,	int8 crc
`
` /// triple
,
    char[0123456789//	t
]o ,
// " ++ [128512]%N ++ runes_of_ascii " emoji
// packet A { u8 x, }
char[] //	t
a1,}
")).
Eval vm_compute in ("<<<M279>>>" ++ check (runes_of_ascii "root packet
i8i8
    { _x@lengthOf(chars
),
    char[	7]
packetx
    /// triple
    `say ""hi""`
,
    // c
    }root packet string_ {
    //
    repeat// `tick` ""quote"" 'q'
options1// c
`u8 x,`	,
    }
options {	}")).
Eval vm_compute in ("<<<T279>>>" ++ terms [mkTok 34 "root" 1 0 false; mkTok 35 "packet" 1 5 false; mkTok 42 "i8i8" 2 0 false; mkTok 2 "{" 3 4 false; mkTok 42 "_x" 3 6 false; mkTok 7 "@lengthOf(" 3 8 false; mkTok 42 "chars" 3 18 false; mkTok 6 ")" 4 0 false; mkTok 40 "," 4 1 false; mkTok 12 "char[" 5 4 false; mkTok 30 "7" 5 10 false; mkTok 13 "]" 5 11 false; mkTok 42 "packetx" 6 0 false; mkTok 44 "/// triple" 7 4 true; mkTok 43 "`say ""hi""`" 8 4 false; mkTok 40 "," 9 0 false; mkTok 44 "// c" 10 4 true; mkTok 3 "}" 11 4 false; mkTok 34 "root" 11 5 false; mkTok 35 "packet" 11 10 false; mkTok 42 "string_" 11 17 false; mkTok 2 "{" 11 25 false; mkTok 44 "//" 12 4 true; mkTok 36 "repeat" 13 4 false; mkTok 44 "// `tick` ""quote"" 'q'" 13 10 true; mkTok 42 "options1" 14 0 false; mkTok 44 "// c" 14 8 true; mkTok 43 "`u8 x,`" 15 0 false; mkTok 40 "," 15 8 false; mkTok 3 "}" 16 4 false; mkTok 1 "options" 17 0 false; mkTok 2 "{" 17 8 false; mkTok 3 "}" 17 10 false; mkTok 0 "<EOF>" 17 11 false] (mkPacket (mkPtok 34 "root" 1 0 0) (Some (mkPtok 3 "}" 17 10 32)) [(DPacket (mkPacketDef (mkSpan (mkPtok 34 "root" 1 0 0) (mkPtok 3 "}" 11 4 17)) (Some (mkPtok 34 "root" 1 0 0)) (mkPtok 35 "packet" 1 5 1) (mkPtok 42 "i8i8" 2 0 2) (mkPtok 2 "{" 3 4 3) [(mkFieldWithAttr (mkSpan (mkPtok 42 "_x" 3 6 4) (mkPtok 40 "," 4 1 8)) [] (LengthField (mkSpan (mkPtok 42 "_x" 3 6 4) (mkPtok 40 "," 4 1 8)) (mkLengthFieldDecl (mkSpan (mkPtok 42 "_x" 3 6 4) (mkPtok 40 "," 4 1 8)) None (mkPtok 42 "_x" 3 6 4) (mkLengthOf (mkSpan (mkPtok 7 "@lengthOf(" 3 8 5) (mkPtok 6 ")" 4 0 7)) (mkPtok 7 "@lengthOf(" 3 8 5) (mkPtok 42 "chars" 3 18 6) (mkPtok 6 ")" 4 0 7)) None (mkPtok 40 "," 4 1 8)))); (mkFieldWithAttr (mkSpan (mkPtok 12 "char[" 5 4 9) (mkPtok 40 "," 9 0 15)) [] (MetaField (mkSpan (mkPtok 12 "char[" 5 4 9) (mkPtok 40 "," 9 0 15)) None (mkMetaDecl (mkSpan (mkPtok 12 "char[" 5 4 9) (mkPtok 40 "," 9 0 15)) (TyFixed (mkSpan (mkPtok 12 "char[" 5 4 9) (mkPtok 13 "]" 5 11 11)) (mkFixedString (mkSpan (mkPtok 12 "char[" 5 4 9) (mkPtok 13 "]" 5 11 11)) (mkPtok 12 "char[" 5 4 9) (mkPtok 30 "7" 5 10 10) (mkPtok 13 "]" 5 11 11))) (mkPtok 42 "packetx" 6 0 12) (Some (mkPtok 43 "`say ""hi""`" 8 4 14)) (mkPtok 40 "," 9 0 15))))] (mkPtok 3 "}" 11 4 17))); (DPacket (mkPacketDef (mkSpan (mkPtok 34 "root" 11 5 18) (mkPtok 3 "}" 16 4 29)) (Some (mkPtok 34 "root" 11 5 18)) (mkPtok 35 "packet" 11 10 19) (mkPtok 42 "string_" 11 17 20) (mkPtok 2 "{" 11 25 21) [(mkFieldWithAttr (mkSpan (mkPtok 36 "repeat" 13 4 23) (mkPtok 40 "," 15 8 28)) [] (ObjectField (mkSpan (mkPtok 36 "repeat" 13 4 23) (mkPtok 40 "," 15 8 28)) (Some (mkPtok 36 "repeat" 13 4 23)) (mkPtok 42 "options1" 14 0 25) None (Some (mkPtok 43 "`u8 x,`" 15 0 27)) (mkPtok 40 "," 15 8 28)))] (mkPtok 3 "}" 16 4 29))); (DOption (mkOptionDef (mkSpan (mkPtok 1 "options" 17 0 30) (mkPtok 3 "}" 17 10 32)) (mkPtok 1 "options" 17 0 30) (mkPtok 2 "{" 17 8 31) [] (mkPtok 3 "}" 17 10 32)))])).
Eval vm_compute in ("<<<M311>>>" ++ check (runes_of_ascii "packet
    // " ++ [27880; 37322]%N ++ runes_of_ascii "
    Foo
{ //x
uint8x
// " ++ [27880; 37322]%N ++ runes_of_ascii "
// " ++ [128512]%N ++ runes_of_ascii " emoji
,match
len as options1
// a // b
// trailing space 
{ 3 /// triple
:i64_ , }
, }
")).
Eval vm_compute in ("<<<M343>>>" ++ check (runes_of_ascii "packet string_ { @lengthOf( int) BodyLength u8x,i64_ `tab	here`
// " ++ [128512]%N ++ runes_of_ascii " emoji
// @lengthOf(
,char[  3 ] /// triple
string_  ,repeat leftPad `" ++ [28040; 24687; 31867; 22411]%N ++ runes_of_ascii "`  ,
repeat int32
/// triple
// `tick` ""quote"" 'q'
BodyLength`u8 x,`, // `tick` ""quote"" 'q'
@tag( 4294967296
) BodyLength	`crlf
line`
    ,  msg_type Packet `" ++ [233]%N ++ runes_of_ascii "`
    , float32 string_ // trailing space 
@calculatedFrom(""""  )
, asx int
    `it's` , }
")).
Eval vm_compute in ("<<<M375>>>" ++ check (@nil rune)).
Eval vm_compute in ("<<<M407>>>" ++ check (runes_of_ascii "packet repeatCount{
    @tag(1
) @leftPad
(' ')	@leftPad
    (
    // c
    '\x00'
    ) int16
trueish
@lengthOf( len) `// not a comment` ,@calculatedFrom(	""it's"")
f64 trueish
@lengthOf( pack ), i64
/// triple
//x
int
    `u8 x,`,  int16 Packet, repeat trueish{ char[ 65535 ] int @lengthOf( Foo ) `crlf
line`
    , },	match chars
as u128 { 0123456789 :
uint8x ,	""1""
    : A
    // `tick` ""quote"" 'q'
    , ""packet""	:
    matchKey
,0
: crc ,""abc"" :
T ,} ,
@rightPad (// " ++ [27880; 37322]%N ++ runes_of_ascii "
) match
//	t
//x
a1 as
    u128 {3
//
// @lengthOf(
:	lengthOf	, ""a\\"": trueish
007 :
rootA }
    ,@leftPad ( ' '
) string_ `tab	here`
    , packetx
    @lengthOf( Header ) , @tag(255	) @tag( 42 ) char[]packetx, // `tick` ""quote"" 'q'
}
    options { rootA // a // b
=
// c
//	t
' ' x_y_z = int8
}")).
Eval vm_compute in ("<<<M439>>>" ++ check (runes_of_ascii "packet Packet
{ Logon @lengthOf(chars ) , @lengthOf(  stringy
    // c
    ) int { // a // b
char[ 1 ]
    rootA,
    repeat repeatCount `it's`
    , i8 calculatedFrom
    ,	} ,
    _x
u128,
    //	t
    i16 uint8x @lengthOf( a1 )	, a1@calculatedFrom( """ ++ [233]%N ++ runes_of_ascii "t" ++ [233]%N ++ runes_of_ascii """ ) , @lengthOf(
x
// `tick` ""quote"" 'q'
// packet A { u8 x, }
)	repeat
    x_y_z{
int32 crc @calculatedFrom( ""packet"" ), repeat string Z9_
    , float64 len ,} , repeat
options1`" ++ [28040; 24687; 31867; 22411]%N ++ runes_of_ascii "`
,
// a // b
// " ++ [128512]%N ++ runes_of_ascii " emoji
@leftPad  (' ' ) string // @lengthOf(
msg_type @calculatedFrom(
    ""a	b"" ) , // trailing space 
repeat uint8
trueish`line1
line2` , } options // `tick` ""quote"" 'q'
{
    body	= ""\" ++ [233]%N ++ runes_of_ascii """ } packet pack// @lengthOf(
{ /// triple
@lengthOf(	matchKey )char[3 ] a1
    ,
@leftPad
( ) @calculatedFrom( ""it's""
) repeat f32a { zchar[ 00 ]
lengthOf ,
    stringy u8x ,
As// trailing space 
{  A//x
@calculatedFrom(	""abc"" ), match
u8x as	crc	{
65535:
trueish ,
""a	b"" :
    matchKey
    // " ++ [128512]%N ++ runes_of_ascii " emoji
    } , }
, trueish // a // b
@calculatedFrom( /// triple
""\n"" // trailing space 
) `say ""hi""`
    , } , }
packet stringy {char[ 4294967296 ]
u8x
, }
")).
Eval vm_compute in ("<<<M471>>>" ++ check (runes_of_ascii "packet  T {
@lengthOf(// trailing space 
matchKey // packet A { u8 x, }
)
match
u as crc { [ ""it's"",""CRC32"" ,
3 ]:Z9_, } , }

")).
Eval vm_compute in ("<<<M503>>>" ++ check (runes_of_ascii "

")).
Eval vm_compute in ("<<<T503>>>" ++ terms [mkTok 0 "<EOF>" 3 0 false] (mkPacket (mkPtok 0 "<EOF>" 3 0 0) None [])).
Eval vm_compute in ("<<<M535>>>" ++ check (runes_of_ascii "
root  packet BodyLength {
    match
matchKey as
    As  { 255: Foo
//
//x
,  10 :
len , // packet A { u8 x, }
""" ++ [233]%N ++ runes_of_ascii "t" ++ [233]%N ++ runes_of_ascii """
    :tag , }
    //	t
    , packetx A , @calculatedFrom(
""" ++ [233]%N ++ runes_of_ascii "t" ++ [233]%N ++ runes_of_ascii """) Logon `crlf
line` // c
, char[]
charz
    `a\` , zchar[
    //x
    42 ] chars , }
    MetaData charz
{ }
packet zchar {}")).
Eval vm_compute in ("<<<M567>>>" ++ check (runes_of_ascii "MetaData Z9_ { }")).
Eval vm_compute in ("<<<M599>>>" ++ check (runes_of_ascii "MetaData body {
string asx
,
asx// a // b
int , u128 a1
    ,
int32 len
    ,
    }
")).
Eval vm_compute in ("<<<M631>>>" ++ check (runes_of_ascii "
options
    {
} MetaData u8x{	i32 int // a // b
, i64 A ,
    o Z9_ `tab	here`
    ,
    // @lengthOf(
    }
")).
Eval vm_compute in ("<<<M663>>>" ++ check (runes_of_ascii "packet u {
    uint16 // a // b
chars  `" ++ [28040; 24687; 31867; 22411]%N ++ runes_of_ascii "`	,// `tick` ""quote"" 'q'
} root	packet T
{	leftPad
Foo `" ++ [28040; 24687; 31867; 22411]%N ++ runes_of_ascii "`
    ,
}
// @lengthOf(
")).
Eval vm_compute in ("<<<M695>>>" ++ check (runes_of_ascii "packet
    u128 {
repeat string
As`say ""hi""`, } 	 ")).
Eval vm_compute in ("<<<M727>>>" ++ check (runes_of_ascii "options {	leftPad = false
    ;
Packet  =//	t
int16 ;
    // c
    len = ' ' calculatedFrom =65535
; } MetaData Header{  int32 Z9_ , f32
zchar `u8 x,` , char[  10 // a // b
]x , asx
_x
`two words`
    /// triple
    , zchar[ 1 ]calculatedFrom `it's` ,}
// a // b
//	t
packet
    o{
    u msg_type
// " ++ [27880; 37322]%N ++ runes_of_ascii "
//
,@leftPad( '0' ) repeat BodyLength u
    `" ++ [233]%N ++ runes_of_ascii "` , @leftPad
('0'// " ++ [27880; 37322]%N ++ runes_of_ascii "
)@tag( 1 )zchar[ 1 ]i64_ @calculatedFrom( """ ++ [233]%N ++ runes_of_ascii "t" ++ [233]%N ++ runes_of_ascii """	)	`it's` , @lengthOf( x
    )
    @tag( 255  ) @tag(  7 )
repeat zchar[ 10
] chars
`two words` ,	@lengthOf(	Foo )rootA `" ++ [233]%N ++ runes_of_ascii "`
, } packet o {pack // " ++ [27880; 37322]%N ++ runes_of_ascii "
{repeat i8	lengthOf
    ,char int //	t
`u8 x,` ,
//	t
// a // b
i64 matchKey@lengthOf( x_y_z // @lengthOf(
), }
, zchar[ 007 ]
//x
// packet A { u8 x, }
metadata`say ""hi""`  , @rightPad ( ' ' )
    match //x
MetaDataX
    as
x_y_z { 0 : roots , """" : chars
    ,
    """ ++ [28040; 24687]%N ++ runes_of_ascii """ : T , 0 :
//x
// a // b
Foo
//	t
/// triple
,
    [ 0123456789, """ ++ [28040; 24687]%N ++ runes_of_ascii """ , 0 , """ ++ [233]%N ++ runes_of_ascii "t" ++ [233]%N ++ runes_of_ascii """ ,
    10 , ""a	b""
, """ ++ [233]%N ++ runes_of_ascii "t" ++ [233]%N ++ runes_of_ascii """ //	t
,""" ++ [128512]%N ++ runes_of_ascii """
]  :
options1 0123456789  :u ,// " ++ [128512]%N ++ runes_of_ascii " emoji
} , len @calculatedFrom(
""a\""b""
) // " ++ [27880; 37322]%N ++ runes_of_ascii "
, @tag(42 )
@lengthOf( x_y_z	)
// a // b
/// triple
leftPad chars , //	t
i8 options1
@lengthOf(i64_
    )	,
repeat
matchKey `
` , o	@calculatedFrom( ""`tick`"" ) ,
    @lengthOf( len ) len
{match float as
    rootA {
[ ""x y""  , ""a\""b"" ,7 , """"
, """ ++ [233]%N ++ runes_of_ascii "t" ++ [233]%N ++ runes_of_ascii """ , 4294967296
    ,
    ""abc"" , 65535
]: float
    , } ,	f32
    Packet ,
u16 a1	,	zchar[ 65535 ]
stringy, } ,	} root packet
    metadata // a // b
{
    @tag( 4294967296
    ) // " ++ [27880; 37322]%N ++ runes_of_ascii "
string	u8x
    `a\` , }
")).
Eval vm_compute in ("<<<T727>>>" ++ terms [mkTok 1 "options" 1 0 false; mkTok 2 "{" 1 8 false; mkTok 42 "leftPad" 1 10 false; mkTok 4 "=" 1 18 false; mkTok 11 "false" 1 20 false; mkTok 41 ";" 2 4 false; mkTok 42 "Packet" 3 0 false; mkTok 4 "=" 3 8 false; mkTok 44 (string_of_bytes [47; 47; 9; 116]%N) 3 9 true; mkTok 25 "int16" 4 0 false; mkTok 41 ";" 4 6 false; mkTok 44 "// c" 5 4 true; mkTok 42 "len" 6 4 false; mkTok 4 "=" 6 8 false; mkTok 33 "' '" 6 10 false; mkTok 42 "calculatedFrom" 6 14 false; mkTok 4 "=" 6 29 false; mkTok 30 "65535" 6 30 false; mkTok 41 ";" 7 0 false; mkTok 3 "}" 7 2 false; mkTok 37 "MetaData" 7 4 false; mkTok 42 "Header" 7 13 false; mkTok 2 "{" 7 19 false; mkTok 26 "int32" 7 22 false; mkTok 42 "Z9_" 7 28 false; mkTok 40 "," 7 32 false; mkTok 28 "f32" 7 34 false; mkTok 42 "zchar" 8 0 false; mkTok 43 "`u8 x,`" 8 6 false; mkTok 40 "," 8 14 false; mkTok 12 "char[" 8 16 false; mkTok 30 "10" 8 23 false; mkTok 44 "// a // b" 8 26 true; mkTok 13 "]" 9 0 false; mkTok 42 "x" 9 1 false; mkTok 40 "," 9 3 false; mkTok 42 "asx" 9 5 false; mkTok 42 "_x" 10 0 false; mkTok 43 "`two words`" 11 0 false; mkTok 44 "/// triple" 12 4 true; mkTok 40 "," 13 4 false; mkTok 14 "zchar[" 13 6 false; mkTok 30 "1" 13 13 false; mkTok 13 "]" 13 15 false; mkTok 42 "calculatedFrom" 13 16 false; mkTok 43 "`it's`" 13 31 false; mkTok 40 "," 13 38 false; mkTok 3 "}" 13 39 false; mkTok 44 "// a // b" 14 0 true; mkTok 44 (string_of_bytes [47; 47; 9; 116]%N) 15 0 true; mkTok 35 "packet" 16 0 false; mkTok 42 "o" 17 4 false; mkTok 2 "{" 17 5 false; mkTok 42 "u" 18 4 false; mkTok 42 "msg_type" 18 6 false; mkTok 44 (string_of_bytes [47; 47; 32; 230; 179; 168; 233; 135; 138]%N) 19 0 true; mkTok 44 "//" 20 0 true; mkTok 40 "," 21 0 false; mkTok 32 "@leftPad" 21 1 false; mkTok 8 "(" 21 9 false; mkTok 33 "'0'" 21 11 false; mkTok 6 ")" 21 15 false; mkTok 36 "repeat" 21 17 false; mkTok 42 "BodyLength" 21 24 false; mkTok 42 "u" 21 35 false; mkTok 43 (string_of_bytes [96; 195; 169; 96]%N) 22 4 false; mkTok 40 "," 22 8 false; mkTok 32 "@leftPad" 22 10 false; mkTok 8 "(" 23 0 false; mkTok 33 "'0'" 23 1 false; mkTok 44 (string_of_bytes [47; 47; 32; 230; 179; 168; 233; 135; 138]%N) 23 4 true; mkTok 6 ")" 24 0 false; mkTok 9 "@tag(" 24 1 false; mkTok 30 "1" 24 7 false; mkTok 6 ")" 24 9 false; mkTok 14 "zchar[" 24 10 false; mkTok 30 "1" 24 17 false; mkTok 13 "]" 24 19 false; mkTok 42 "i64_" 24 20 false; mkTok 5 "@calculatedFrom(" 24 25 false; mkTok 31 (string_of_bytes [34; 195; 169; 116; 195; 169; 34]%N) 24 42 false; mkTok 6 ")" 24 48 false; mkTok 43 "`it's`" 24 50 false; mkTok 40 "," 24 57 false; mkTok 7 "@lengthOf(" 24 59 false; mkTok 42 "x" 24 70 false; mkTok 6 ")" 25 4 false; mkTok 9 "@tag(" 26 4 false; mkTok 30 "255" 26 10 false; mkTok 6 ")" 26 15 false; mkTok 9 "@tag(" 26 17 false; mkTok 30 "7" 26 24 false; mkTok 6 ")" 26 26 false; mkTok 36 "repeat" 27 0 false; mkTok 14 "zchar[" 27 7 false; mkTok 30 "10" 27 14 false; mkTok 13 "]" 28 0 false; mkTok 42 "chars" 28 2 false; mkTok 43 "`two words`" 29 0 false; mkTok 40 "," 29 12 false; mkTok 7 "@lengthOf(" 29 14 false; mkTok 42 "Foo" 29 25 false; mkTok 6 ")" 29 29 false; mkTok 42 "rootA" 29 30 false; mkTok 43 (string_of_bytes [96; 195; 169; 96]%N) 29 36 false; mkTok 40 "," 30 0 false; mkTok 3 "}" 30 2 false; mkTok 35 "packet" 30 4 false; mkTok 42 "o" 30 11 false; mkTok 2 "{" 30 13 false; mkTok 42 "pack" 30 14 false; mkTok 44 (string_of_bytes [47; 47; 32; 230; 179; 168; 233; 135; 138]%N) 30 19 true; mkTok 2 "{" 31 0 false; mkTok 36 "repeat" 31 1 false; mkTok 24 "i8" 31 8 false; mkTok 42 "lengthOf" 31 11 false; mkTok 40 "," 32 4 false; mkTok 19 "char" 32 5 false; mkTok 42 "int" 32 10 false; mkTok 44 (string_of_bytes [47; 47; 9; 116]%N) 32 14 true; mkTok 43 "`u8 x,`" 33 0 false; mkTok 40 "," 33 8 false; mkTok 44 (string_of_bytes [47; 47; 9; 116]%N) 34 0 true; mkTok 44 "// a // b" 35 0 true; mkTok 27 "i64" 36 0 false; mkTok 42 "matchKey" 36 4 false; mkTok 7 "@lengthOf(" 36 12 false; mkTok 42 "x_y_z" 36 23 false; mkTok 44 "// @lengthOf(" 36 29 true; mkTok 6 ")" 37 0 false; mkTok 40 "," 37 1 false; mkTok 3 "}" 37 3 false; mkTok 40 "," 38 0 false; mkTok 14 "zchar[" 38 2 false; mkTok 30 "007" 38 9 false; mkTok 13 "]" 38 13 false; mkTok 44 "//x" 39 0 true; mkTok 44 "// packet A { u8 x, }" 40 0 true; mkTok 42 "metadata" 41 0 false; mkTok 43 "`say ""hi""`" 41 8 false; mkTok 40 "," 41 20 false; mkTok 32 "@rightPad" 41 22 false; mkTok 8 "(" 41 32 false; mkTok 33 "' '" 41 34 false; mkTok 6 ")" 41 38 false; mkTok 38 "match" 42 4 false; mkTok 44 "//x" 42 10 true; mkTok 42 "MetaDataX" 43 0 false; mkTok 17 "as" 44 4 false; mkTok 42 "x_y_z" 45 0 false; mkTok 2 "{" 45 6 false; mkTok 30 "0" 45 8 false; mkTok 39 ":" 45 10 false; mkTok 42 "roots" 45 12 false; mkTok 40 "," 45 18 false; mkTok 31 """""" 45 20 false; mkTok 39 ":" 45 23 false; mkTok 42 "chars" 45 25 false; mkTok 40 "," 46 4 false; mkTok 31 (string_of_bytes [34; 230; 182; 136; 230; 129; 175; 34]%N) 47 4 false; mkTok 39 ":" 47 9 false; mkTok 42 "T" 47 11 false; mkTok 40 "," 47 13 false; mkTok 30 "0" 47 15 false; mkTok 39 ":" 47 17 false; mkTok 44 "//x" 48 0 true; mkTok 44 "// a // b" 49 0 true; mkTok 42 "Foo" 50 0 false; mkTok 44 (string_of_bytes [47; 47; 9; 116]%N) 51 0 true; mkTok 44 "/// triple" 52 0 true; mkTok 40 "," 53 0 false; mkTok 18 "[" 54 4 false; mkTok 30 "0123456789" 54 6 false; mkTok 40 "," 54 16 false; mkTok 31 (string_of_bytes [34; 230; 182; 136; 230; 129; 175; 34]%N) 54 18 false; mkTok 40 "," 54 23 false; mkTok 30 "0" 54 25 false; mkTok 40 "," 54 27 false; mkTok 31 (string_of_bytes [34; 195; 169; 116; 195; 169; 34]%N) 54 29 false; mkTok 40 "," 54 35 false; mkTok 30 "10" 55 4 false; mkTok 40 "," 55 7 false; mkTok 31 (string_of_bytes [34; 97; 9; 98; 34]%N) 55 9 false; mkTok 40 "," 56 0 false; mkTok 31 (string_of_bytes [34; 195; 169; 116; 195; 169; 34]%N) 56 2 false; mkTok 44 (string_of_bytes [47; 47; 9; 116]%N) 56 8 true; mkTok 40 "," 57 0 false; mkTok 31 (string_of_bytes [34; 240; 159; 152; 128; 34]%N) 57 1 false; mkTok 13 "]" 58 0 false; mkTok 39 ":" 58 3 false; mkTok 42 "options1" 59 0 false; mkTok 30 "0123456789" 59 9 false; mkTok 39 ":" 59 21 false; mkTok 42 "u" 59 22 false; mkTok 40 "," 59 24 false; mkTok 44 (string_of_bytes [47; 47; 32; 240; 159; 152; 128; 32; 101; 109; 111; 106; 105]%N) 59 25 true; mkTok 3 "}" 60 0 false; mkTok 40 "," 60 2 false; mkTok 42 "len" 60 4 false; mkTok 5 "@calculatedFrom(" 60 8 false; mkTok 31 """a\""b""" 61 0 false; mkTok 6 ")" 62 0 false; mkTok 44 (string_of_bytes [47; 47; 32; 230; 179; 168; 233; 135; 138]%N) 62 2 true; mkTok 40 "," 63 0 false; mkTok 9 "@tag(" 63 2 false; mkTok 30 "42" 63 7 false; mkTok 6 ")" 63 10 false; mkTok 7 "@lengthOf(" 64 0 false; mkTok 42 "x_y_z" 64 11 false; mkTok 6 ")" 64 17 false; mkTok 44 "// a // b" 65 0 true; mkTok 44 "/// triple" 66 0 true; mkTok 42 "leftPad" 67 0 false; mkTok 42 "chars" 67 8 false; mkTok 40 "," 67 14 false; mkTok 44 (string_of_bytes [47; 47; 9; 116]%N) 67 16 true; mkTok 24 "i8" 68 0 false; mkTok 42 "options1" 68 3 false; mkTok 7 "@lengthOf(" 69 0 false; mkTok 42 "i64_" 69 10 false; mkTok 6 ")" 70 4 false; mkTok 40 "," 70 6 false; mkTok 36 "repeat" 71 0 false; mkTok 42 "matchKey" 72 0 false; mkTok 43 (string_of_bytes [96; 10; 96]%N) 72 9 false; mkTok 40 "," 73 2 false; mkTok 42 "o" 73 4 false; mkTok 5 "@calculatedFrom(" 73 6 false; mkTok 31 """`tick`""" 73 23 false; mkTok 6 ")" 73 32 false; mkTok 40 "," 73 34 false; mkTok 7 "@lengthOf(" 74 4 false; mkTok 42 "len" 74 15 false; mkTok 6 ")" 74 19 false; mkTok 42 "len" 74 21 false; mkTok 2 "{" 75 0 false; mkTok 38 "match" 75 1 false; mkTok 42 "float" 75 7 false; mkTok 17 "as" 75 13 false; mkTok 42 "rootA" 76 4 false; mkTok 2 "{" 76 10 false; mkTok 18 "[" 77 0 false; mkTok 31 """x y""" 77 2 false; mkTok 40 "," 77 9 false; mkTok 31 """a\""b""" 77 11 false; mkTok 40 "," 77 18 false; mkTok 30 "7" 77 19 false; mkTok 40 "," 77 21 false; mkTok 31 """""" 77 23 false; mkTok 40 "," 78 0 false; mkTok 31 (string_of_bytes [34; 195; 169; 116; 195; 169; 34]%N) 78 2 false; mkTok 40 "," 78 8 false; mkTok 30 "4294967296" 78 10 false; mkTok 40 "," 79 4 false; mkTok 31 """abc""" 80 4 false; mkTok 40 "," 80 10 false; mkTok 30 "65535" 80 12 false; mkTok 13 "]" 81 0 false; mkTok 39 ":" 81 1 false; mkTok 42 "float" 81 3 false; mkTok 40 "," 82 4 false; mkTok 3 "}" 82 6 false; mkTok 40 "," 82 8 false; mkTok 28 "f32" 82 10 false; mkTok 42 "Packet" 83 4 false; mkTok 40 "," 83 11 false; mkTok 21 "u16" 84 0 false; mkTok 42 "a1" 84 4 false; mkTok 40 "," 84 7 false; mkTok 14 "zchar[" 84 9 false; mkTok 30 "65535" 84 16 false; mkTok 13 "]" 84 22 false; mkTok 42 "stringy" 85 0 false; mkTok 40 "," 85 7 false; mkTok 3 "}" 85 9 false; mkTok 40 "," 85 11 false; mkTok 3 "}" 85 13 false; mkTok 34 "root" 85 15 false; mkTok 35 "packet" 85 20 false; mkTok 42 "metadata" 86 4 false; mkTok 44 "// a // b" 86 13 true; mkTok 2 "{" 87 0 false; mkTok 9 "@tag(" 88 4 false; mkTok 30 "4294967296" 88 10 false; mkTok 6 ")" 89 4 false; mkTok 44 (string_of_bytes [47; 47; 32; 230; 179; 168; 233; 135; 138]%N) 89 6 true; mkTok 15 "string" 90 0 false; mkTok 42 "u8x" 90 7 false; mkTok 43 "`a\`" 91 4 false; mkTok 40 "," 91 9 false; mkTok 3 "}" 91 11 false; mkTok 0 "<EOF>" 92 0 false] (mkPacket (mkPtok 1 "options" 1 0 0) (Some (mkPtok 3 "}" 91 11 290)) [(DOption (mkOptionDef (mkSpan (mkPtok 1 "options" 1 0 0) (mkPtok 3 "}" 7 2 19)) (mkPtok 1 "options" 1 0 0) (mkPtok 2 "{" 1 8 1) [(mkOptionDecl (mkSpan (mkPtok 42 "leftPad" 1 10 2) (mkPtok 41 ";" 2 4 5)) (mkPtok 42 "leftPad" 1 10 2) (mkPtok 4 "=" 1 18 3) (VFalse (mkSpan (mkPtok 11 "false" 1 20 4) (mkPtok 11 "false" 1 20 4)) (mkPtok 11 "false" 1 20 4)) (Some (mkPtok 41 ";" 2 4 5))); (mkOptionDecl (mkSpan (mkPtok 42 "Packet" 3 0 6) (mkPtok 41 ";" 4 6 10)) (mkPtok 42 "Packet" 3 0 6) (mkPtok 4 "=" 3 8 7) (VType (mkSpan (mkPtok 25 "int16" 4 0 9) (mkPtok 25 "int16" 4 0 9)) (TyBasic (mkSpan (mkPtok 25 "int16" 4 0 9) (mkPtok 25 "int16" 4 0 9)) (mkBasicType (mkSpan (mkPtok 25 "int16" 4 0 9) (mkPtok 25 "int16" 4 0 9)) (mkPtok 25 "int16" 4 0 9)))) (Some (mkPtok 41 ";" 4 6 10))); (mkOptionDecl (mkSpan (mkPtok 42 "len" 6 4 12) (mkPtok 33 "' '" 6 10 14)) (mkPtok 42 "len" 6 4 12) (mkPtok 4 "=" 6 8 13) (VPaddingChar (mkSpan (mkPtok 33 "' '" 6 10 14) (mkPtok 33 "' '" 6 10 14)) (mkPtok 33 "' '" 6 10 14)) None); (mkOptionDecl (mkSpan (mkPtok 42 "calculatedFrom" 6 14 15) (mkPtok 41 ";" 7 0 18)) (mkPtok 42 "calculatedFrom" 6 14 15) (mkPtok 4 "=" 6 29 16) (VDigits (mkSpan (mkPtok 30 "65535" 6 30 17) (mkPtok 30 "65535" 6 30 17)) (mkPtok 30 "65535" 6 30 17)) (Some (mkPtok 41 ";" 7 0 18)))] (mkPtok 3 "}" 7 2 19))); (DMeta (mkMetaDef (mkSpan (mkPtok 37 "MetaData" 7 4 20) (mkPtok 3 "}" 13 39 47)) (mkPtok 37 "MetaData" 7 4 20) (mkPtok 42 "Header" 7 13 21) (mkPtok 2 "{" 7 19 22) [(MIDecl (mkMetaDecl (mkSpan (mkPtok 26 "int32" 7 22 23) (mkPtok 40 "," 7 32 25)) (TyBasic (mkSpan (mkPtok 26 "int32" 7 22 23) (mkPtok 26 "int32" 7 22 23)) (mkBasicType (mkSpan (mkPtok 26 "int32" 7 22 23) (mkPtok 26 "int32" 7 22 23)) (mkPtok 26 "int32" 7 22 23))) (mkPtok 42 "Z9_" 7 28 24) None (mkPtok 40 "," 7 32 25))); (MIDecl (mkMetaDecl (mkSpan (mkPtok 28 "f32" 7 34 26) (mkPtok 40 "," 8 14 29)) (TyBasic (mkSpan (mkPtok 28 "f32" 7 34 26) (mkPtok 28 "f32" 7 34 26)) (mkBasicType (mkSpan (mkPtok 28 "f32" 7 34 26) (mkPtok 28 "f32" 7 34 26)) (mkPtok 28 "f32" 7 34 26))) (mkPtok 42 "zchar" 8 0 27) (Some (mkPtok 43 "`u8 x,`" 8 6 28)) (mkPtok 40 "," 8 14 29))); (MIDecl (mkMetaDecl (mkSpan (mkPtok 12 "char[" 8 16 30) (mkPtok 40 "," 9 3 35)) (TyFixed (mkSpan (mkPtok 12 "char[" 8 16 30) (mkPtok 13 "]" 9 0 33)) (mkFixedString (mkSpan (mkPtok 12 "char[" 8 16 30) (mkPtok 13 "]" 9 0 33)) (mkPtok 12 "char[" 8 16 30) (mkPtok 30 "10" 8 23 31) (mkPtok 13 "]" 9 0 33))) (mkPtok 42 "x" 9 1 34) None (mkPtok 40 "," 9 3 35))); (MIRef (mkRefMetaDecl (mkSpan (mkPtok 42 "asx" 9 5 36) (mkPtok 40 "," 13 4 40)) (mkPtok 42 "asx" 9 5 36) (mkPtok 42 "_x" 10 0 37) (Some (mkPtok 43 "`two words`" 11 0 38)) (mkPtok 40 "," 13 4 40))); (MIDecl (mkMetaDecl (mkSpan (mkPtok 14 "zchar[" 13 6 41) (mkPtok 40 "," 13 38 46)) (TyFixed (mkSpan (mkPtok 14 "zchar[" 13 6 41) (mkPtok 13 "]" 13 15 43)) (mkFixedString (mkSpan (mkPtok 14 "zchar[" 13 6 41) (mkPtok 13 "]" 13 15 43)) (mkPtok 14 "zchar[" 13 6 41) (mkPtok 30 "1" 13 13 42) (mkPtok 13 "]" 13 15 43))) (mkPtok 42 "calculatedFrom" 13 16 44) (Some (mkPtok 43 "`it's`" 13 31 45)) (mkPtok 40 "," 13 38 46)))] (mkPtok 3 "}" 13 39 47))); (DPacket (mkPacketDef (mkSpan (mkPtok 35 "packet" 16 0 50) (mkPtok 3 "}" 30 2 106)) None (mkPtok 35 "packet" 16 0 50) (mkPtok 42 "o" 17 4 51) (mkPtok 2 "{" 17 5 52) [(mkFieldWithAttr (mkSpan (mkPtok 42 "u" 18 4 53) (mkPtok 40 "," 21 0 57)) [] (ObjectField (mkSpan (mkPtok 42 "u" 18 4 53) (mkPtok 40 "," 21 0 57)) None (mkPtok 42 "u" 18 4 53) (Some (mkPtok 42 "msg_type" 18 6 54)) None (mkPtok 40 "," 21 0 57))); (mkFieldWithAttr (mkSpan (mkPtok 32 "@leftPad" 21 1 58) (mkPtok 40 "," 22 8 66)) [(FAPadding (mkSpan (mkPtok 32 "@leftPad" 21 1 58) (mkPtok 6 ")" 21 15 61)) (mkPaddingAttr (mkSpan (mkPtok 32 "@leftPad" 21 1 58) (mkPtok 6 ")" 21 15 61)) (mkPtok 32 "@leftPad" 21 1 58) (mkPtok 8 "(" 21 9 59) (Some (mkPtok 33 "'0'" 21 11 60)) (mkPtok 6 ")" 21 15 61)))] (ObjectField (mkSpan (mkPtok 36 "repeat" 21 17 62) (mkPtok 40 "," 22 8 66)) (Some (mkPtok 36 "repeat" 21 17 62)) (mkPtok 42 "BodyLength" 21 24 63) (Some (mkPtok 42 "u" 21 35 64)) (Some (mkPtok 43 (string_of_bytes [96; 195; 169; 96]%N) 22 4 65)) (mkPtok 40 "," 22 8 66))); (mkFieldWithAttr (mkSpan (mkPtok 32 "@leftPad" 22 10 67) (mkPtok 40 "," 24 57 83)) [(FAPadding (mkSpan (mkPtok 32 "@leftPad" 22 10 67) (mkPtok 6 ")" 24 0 71)) (mkPaddingAttr (mkSpan (mkPtok 32 "@leftPad" 22 10 67) (mkPtok 6 ")" 24 0 71)) (mkPtok 32 "@leftPad" 22 10 67) (mkPtok 8 "(" 23 0 68) (Some (mkPtok 33 "'0'" 23 1 69)) (mkPtok 6 ")" 24 0 71))); (FATag (mkSpan (mkPtok 9 "@tag(" 24 1 72) (mkPtok 6 ")" 24 9 74)) (mkTagAttr (mkSpan (mkPtok 9 "@tag(" 24 1 72) (mkPtok 6 ")" 24 9 74)) (mkPtok 9 "@tag(" 24 1 72) (mkPtok 30 "1" 24 7 73) (mkPtok 6 ")" 24 9 74)))] (CheckSumField (mkSpan (mkPtok 14 "zchar[" 24 10 75) (mkPtok 40 "," 24 57 83)) (mkChecksumFieldDecl (mkSpan (mkPtok 14 "zchar[" 24 10 75) (mkPtok 40 "," 24 57 83)) (Some (TyFixed (mkSpan (mkPtok 14 "zchar[" 24 10 75) (mkPtok 13 "]" 24 19 77)) (mkFixedString (mkSpan (mkPtok 14 "zchar[" 24 10 75) (mkPtok 13 "]" 24 19 77)) (mkPtok 14 "zchar[" 24 10 75) (mkPtok 30 "1" 24 17 76) (mkPtok 13 "]" 24 19 77)))) (mkPtok 42 "i64_" 24 20 78) (mkCalculatedFrom (mkSpan (mkPtok 5 "@calculatedFrom(" 24 25 79) (mkPtok 6 ")" 24 48 81)) (mkPtok 5 "@calculatedFrom(" 24 25 79) (mkPtok 31 (string_of_bytes [34; 195; 169; 116; 195; 169; 34]%N) 24 42 80) (mkPtok 6 ")" 24 48 81)) (Some (mkPtok 43 "`it's`" 24 50 82)) (mkPtok 40 "," 24 57 83)))); (mkFieldWithAttr (mkSpan (mkPtok 7 "@lengthOf(" 24 59 84) (mkPtok 40 "," 29 12 99)) [(FALengthOf (mkSpan (mkPtok 7 "@lengthOf(" 24 59 84) (mkPtok 6 ")" 25 4 86)) (mkLengthOf (mkSpan (mkPtok 7 "@lengthOf(" 24 59 84) (mkPtok 6 ")" 25 4 86)) (mkPtok 7 "@lengthOf(" 24 59 84) (mkPtok 42 "x" 24 70 85) (mkPtok 6 ")" 25 4 86))); (FATag (mkSpan (mkPtok 9 "@tag(" 26 4 87) (mkPtok 6 ")" 26 15 89)) (mkTagAttr (mkSpan (mkPtok 9 "@tag(" 26 4 87) (mkPtok 6 ")" 26 15 89)) (mkPtok 9 "@tag(" 26 4 87) (mkPtok 30 "255" 26 10 88) (mkPtok 6 ")" 26 15 89))); (FATag (mkSpan (mkPtok 9 "@tag(" 26 17 90) (mkPtok 6 ")" 26 26 92)) (mkTagAttr (mkSpan (mkPtok 9 "@tag(" 26 17 90) (mkPtok 6 ")" 26 26 92)) (mkPtok 9 "@tag(" 26 17 90) (mkPtok 30 "7" 26 24 91) (mkPtok 6 ")" 26 26 92)))] (MetaField (mkSpan (mkPtok 36 "repeat" 27 0 93) (mkPtok 40 "," 29 12 99)) (Some (mkPtok 36 "repeat" 27 0 93)) (mkMetaDecl (mkSpan (mkPtok 14 "zchar[" 27 7 94) (mkPtok 40 "," 29 12 99)) (TyFixed (mkSpan (mkPtok 14 "zchar[" 27 7 94) (mkPtok 13 "]" 28 0 96)) (mkFixedString (mkSpan (mkPtok 14 "zchar[" 27 7 94) (mkPtok 13 "]" 28 0 96)) (mkPtok 14 "zchar[" 27 7 94) (mkPtok 30 "10" 27 14 95) (mkPtok 13 "]" 28 0 96))) (mkPtok 42 "chars" 28 2 97) (Some (mkPtok 43 "`two words`" 29 0 98)) (mkPtok 40 "," 29 12 99)))); (mkFieldWithAttr (mkSpan (mkPtok 7 "@lengthOf(" 29 14 100) (mkPtok 40 "," 30 0 105)) [(FALengthOf (mkSpan (mkPtok 7 "@lengthOf(" 29 14 100) (mkPtok 6 ")" 29 29 102)) (mkLengthOf (mkSpan (mkPtok 7 "@lengthOf(" 29 14 100) (mkPtok 6 ")" 29 29 102)) (mkPtok 7 "@lengthOf(" 29 14 100) (mkPtok 42 "Foo" 29 25 101) (mkPtok 6 ")" 29 29 102)))] (ObjectField (mkSpan (mkPtok 42 "rootA" 29 30 103) (mkPtok 40 "," 30 0 105)) None (mkPtok 42 "rootA" 29 30 103) None (Some (mkPtok 43 (string_of_bytes [96; 195; 169; 96]%N) 29 36 104)) (mkPtok 40 "," 30 0 105)))] (mkPtok 3 "}" 30 2 106))); (DPacket (mkPacketDef (mkSpan (mkPtok 35 "packet" 30 4 107) (mkPtok 3 "}" 85 13 276)) None (mkPtok 35 "packet" 30 4 107) (mkPtok 42 "o" 30 11 108) (mkPtok 2 "{" 30 13 109) [(mkFieldWithAttr (mkSpan (mkPtok 42 "pack" 30 14 110) (mkPtok 40 "," 38 0 132)) [] (InerObjectField (mkSpan (mkPtok 42 "pack" 30 14 110) (mkPtok 40 "," 38 0 132)) None (InerObjectDecl (mkSpan (mkPtok 42 "pack" 30 14 110) (mkPtok 3 "}" 37 3 131)) (mkPtok 42 "pack" 30 14 110) (mkPtok 2 "{" 31 0 112) [(MetaField (mkSpan (mkPtok 36 "repeat" 31 1 113) (mkPtok 40 "," 32 4 116)) (Some (mkPtok 36 "repeat" 31 1 113)) (mkMetaDecl (mkSpan (mkPtok 24 "i8" 31 8 114) (mkPtok 40 "," 32 4 116)) (TyBasic (mkSpan (mkPtok 24 "i8" 31 8 114) (mkPtok 24 "i8" 31 8 114)) (mkBasicType (mkSpan (mkPtok 24 "i8" 31 8 114) (mkPtok 24 "i8" 31 8 114)) (mkPtok 24 "i8" 31 8 114))) (mkPtok 42 "lengthOf" 31 11 115) None (mkPtok 40 "," 32 4 116))); (MetaField (mkSpan (mkPtok 19 "char" 32 5 117) (mkPtok 40 "," 33 8 121)) None (mkMetaDecl (mkSpan (mkPtok 19 "char" 32 5 117) (mkPtok 40 "," 33 8 121)) (TyBasic (mkSpan (mkPtok 19 "char" 32 5 117) (mkPtok 19 "char" 32 5 117)) (mkBasicType (mkSpan (mkPtok 19 "char" 32 5 117) (mkPtok 19 "char" 32 5 117)) (mkPtok 19 "char" 32 5 117))) (mkPtok 42 "int" 32 10 118) (Some (mkPtok 43 "`u8 x,`" 33 0 120)) (mkPtok 40 "," 33 8 121))); (LengthField (mkSpan (mkPtok 27 "i64" 36 0 124) (mkPtok 40 "," 37 1 130)) (mkLengthFieldDecl (mkSpan (mkPtok 27 "i64" 36 0 124) (mkPtok 40 "," 37 1 130)) (Some (TyBasic (mkSpan (mkPtok 27 "i64" 36 0 124) (mkPtok 27 "i64" 36 0 124)) (mkBasicType (mkSpan (mkPtok 27 "i64" 36 0 124) (mkPtok 27 "i64" 36 0 124)) (mkPtok 27 "i64" 36 0 124)))) (mkPtok 42 "matchKey" 36 4 125) (mkLengthOf (mkSpan (mkPtok 7 "@lengthOf(" 36 12 126) (mkPtok 6 ")" 37 0 129)) (mkPtok 7 "@lengthOf(" 36 12 126) (mkPtok 42 "x_y_z" 36 23 127) (mkPtok 6 ")" 37 0 129)) None (mkPtok 40 "," 37 1 130)))] (mkPtok 3 "}" 37 3 131)) (mkPtok 40 "," 38 0 132))); (mkFieldWithAttr (mkSpan (mkPtok 14 "zchar[" 38 2 133) (mkPtok 40 "," 41 20 140)) [] (MetaField (mkSpan (mkPtok 14 "zchar[" 38 2 133) (mkPtok 40 "," 41 20 140)) None (mkMetaDecl (mkSpan (mkPtok 14 "zchar[" 38 2 133) (mkPtok 40 "," 41 20 140)) (TyFixed (mkSpan (mkPtok 14 "zchar[" 38 2 133) (mkPtok 13 "]" 38 13 135)) (mkFixedString (mkSpan (mkPtok 14 "zchar[" 38 2 133) (mkPtok 13 "]" 38 13 135)) (mkPtok 14 "zchar[" 38 2 133) (mkPtok 30 "007" 38 9 134) (mkPtok 13 "]" 38 13 135))) (mkPtok 42 "metadata" 41 0 138) (Some (mkPtok 43 "`say ""hi""`" 41 8 139)) (mkPtok 40 "," 41 20 140)))); (mkFieldWithAttr (mkSpan (mkPtok 32 "@rightPad" 41 22 141) (mkPtok 40 "," 60 2 197)) [(FAPadding (mkSpan (mkPtok 32 "@rightPad" 41 22 141) (mkPtok 6 ")" 41 38 144)) (mkPaddingAttr (mkSpan (mkPtok 32 "@rightPad" 41 22 141) (mkPtok 6 ")" 41 38 144)) (mkPtok 32 "@rightPad" 41 22 141) (mkPtok 8 "(" 41 32 142) (Some (mkPtok 33 "' '" 41 34 143)) (mkPtok 6 ")" 41 38 144)))] (MatchField (mkSpan (mkPtok 38 "match" 42 4 145) (mkPtok 40 "," 60 2 197)) (mkMatchFieldDecl (mkSpan (mkPtok 38 "match" 42 4 145) (mkPtok 3 "}" 60 0 196)) (mkPtok 38 "match" 42 4 145) (mkPtok 42 "MetaDataX" 43 0 147) (mkPtok 17 "as" 44 4 148) (mkPtok 42 "x_y_z" 45 0 149) (mkPtok 2 "{" 45 6 150) [(mkMatchPair (mkSpan (mkPtok 30 "0" 45 8 151) (mkPtok 40 "," 45 18 154)) (MKDigits (mkPtok 30 "0" 45 8 151)) (mkPtok 39 ":" 45 10 152) (mkPtok 42 "roots" 45 12 153) (Some (mkPtok 40 "," 45 18 154))); (mkMatchPair (mkSpan (mkPtok 31 """""" 45 20 155) (mkPtok 40 "," 46 4 158)) (MKString (mkPtok 31 """""" 45 20 155)) (mkPtok 39 ":" 45 23 156) (mkPtok 42 "chars" 45 25 157) (Some (mkPtok 40 "," 46 4 158))); (mkMatchPair (mkSpan (mkPtok 31 (string_of_bytes [34; 230; 182; 136; 230; 129; 175; 34]%N) 47 4 159) (mkPtok 40 "," 47 13 162)) (MKString (mkPtok 31 (string_of_bytes [34; 230; 182; 136; 230; 129; 175; 34]%N) 47 4 159)) (mkPtok 39 ":" 47 9 160) (mkPtok 42 "T" 47 11 161) (Some (mkPtok 40 "," 47 13 162))); (mkMatchPair (mkSpan (mkPtok 30 "0" 47 15 163) (mkPtok 40 "," 53 0 170)) (MKDigits (mkPtok 30 "0" 47 15 163)) (mkPtok 39 ":" 47 17 164) (mkPtok 42 "Foo" 50 0 167) (Some (mkPtok 40 "," 53 0 170))); (mkMatchPair (mkSpan (mkPtok 18 "[" 54 4 171) (mkPtok 42 "options1" 59 0 190)) (MKList (mkKeyList (mkSpan (mkPtok 18 "[" 54 4 171) (mkPtok 13 "]" 58 0 188)) (mkPtok 18 "[" 54 4 171) (mkPtok 30 "0123456789" 54 6 172) [((mkPtok 40 "," 54 16 173), (mkPtok 31 (string_of_bytes [34; 230; 182; 136; 230; 129; 175; 34]%N) 54 18 174)); ((mkPtok 40 "," 54 23 175), (mkPtok 30 "0" 54 25 176)); ((mkPtok 40 "," 54 27 177), (mkPtok 31 (string_of_bytes [34; 195; 169; 116; 195; 169; 34]%N) 54 29 178)); ((mkPtok 40 "," 54 35 179), (mkPtok 30 "10" 55 4 180)); ((mkPtok 40 "," 55 7 181), (mkPtok 31 (string_of_bytes [34; 97; 9; 98; 34]%N) 55 9 182)); ((mkPtok 40 "," 56 0 183), (mkPtok 31 (string_of_bytes [34; 195; 169; 116; 195; 169; 34]%N) 56 2 184)); ((mkPtok 40 "," 57 0 186), (mkPtok 31 (string_of_bytes [34; 240; 159; 152; 128; 34]%N) 57 1 187))] (mkPtok 13 "]" 58 0 188))) (mkPtok 39 ":" 58 3 189) (mkPtok 42 "options1" 59 0 190) None); (mkMatchPair (mkSpan (mkPtok 30 "0123456789" 59 9 191) (mkPtok 40 "," 59 24 194)) (MKDigits (mkPtok 30 "0123456789" 59 9 191)) (mkPtok 39 ":" 59 21 192) (mkPtok 42 "u" 59 22 193) (Some (mkPtok 40 "," 59 24 194)))] (mkPtok 3 "}" 60 0 196)) (mkPtok 40 "," 60 2 197))); (mkFieldWithAttr (mkSpan (mkPtok 42 "len" 60 4 198) (mkPtok 40 "," 63 0 203)) [] (CheckSumField (mkSpan (mkPtok 42 "len" 60 4 198) (mkPtok 40 "," 63 0 203)) (mkChecksumFieldDecl (mkSpan (mkPtok 42 "len" 60 4 198) (mkPtok 40 "," 63 0 203)) None (mkPtok 42 "len" 60 4 198) (mkCalculatedFrom (mkSpan (mkPtok 5 "@calculatedFrom(" 60 8 199) (mkPtok 6 ")" 62 0 201)) (mkPtok 5 "@calculatedFrom(" 60 8 199) (mkPtok 31 """a\""b""" 61 0 200) (mkPtok 6 ")" 62 0 201)) None (mkPtok 40 "," 63 0 203)))); (mkFieldWithAttr (mkSpan (mkPtok 9 "@tag(" 63 2 204) (mkPtok 40 "," 67 14 214)) [(FATag (mkSpan (mkPtok 9 "@tag(" 63 2 204) (mkPtok 6 ")" 63 10 206)) (mkTagAttr (mkSpan (mkPtok 9 "@tag(" 63 2 204) (mkPtok 6 ")" 63 10 206)) (mkPtok 9 "@tag(" 63 2 204) (mkPtok 30 "42" 63 7 205) (mkPtok 6 ")" 63 10 206))); (FALengthOf (mkSpan (mkPtok 7 "@lengthOf(" 64 0 207) (mkPtok 6 ")" 64 17 209)) (mkLengthOf (mkSpan (mkPtok 7 "@lengthOf(" 64 0 207) (mkPtok 6 ")" 64 17 209)) (mkPtok 7 "@lengthOf(" 64 0 207) (mkPtok 42 "x_y_z" 64 11 208) (mkPtok 6 ")" 64 17 209)))] (ObjectField (mkSpan (mkPtok 42 "leftPad" 67 0 212) (mkPtok 40 "," 67 14 214)) None (mkPtok 42 "leftPad" 67 0 212) (Some (mkPtok 42 "chars" 67 8 213)) None (mkPtok 40 "," 67 14 214))); (mkFieldWithAttr (mkSpan (mkPtok 24 "i8" 68 0 216) (mkPtok 40 "," 70 6 221)) [] (LengthField (mkSpan (mkPtok 24 "i8" 68 0 216) (mkPtok 40 "," 70 6 221)) (mkLengthFieldDecl (mkSpan (mkPtok 24 "i8" 68 0 216) (mkPtok 40 "," 70 6 221)) (Some (TyBasic (mkSpan (mkPtok 24 "i8" 68 0 216) (mkPtok 24 "i8" 68 0 216)) (mkBasicType (mkSpan (mkPtok 24 "i8" 68 0 216) (mkPtok 24 "i8" 68 0 216)) (mkPtok 24 "i8" 68 0 216)))) (mkPtok 42 "options1" 68 3 217) (mkLengthOf (mkSpan (mkPtok 7 "@lengthOf(" 69 0 218) (mkPtok 6 ")" 70 4 220)) (mkPtok 7 "@lengthOf(" 69 0 218) (mkPtok 42 "i64_" 69 10 219) (mkPtok 6 ")" 70 4 220)) None (mkPtok 40 "," 70 6 221)))); (mkFieldWithAttr (mkSpan (mkPtok 36 "repeat" 71 0 222) (mkPtok 40 "," 73 2 225)) [] (ObjectField (mkSpan (mkPtok 36 "repeat" 71 0 222) (mkPtok 40 "," 73 2 225)) (Some (mkPtok 36 "repeat" 71 0 222)) (mkPtok 42 "matchKey" 72 0 223) None (Some (mkPtok 43 (string_of_bytes [96; 10; 96]%N) 72 9 224)) (mkPtok 40 "," 73 2 225))); (mkFieldWithAttr (mkSpan (mkPtok 42 "o" 73 4 226) (mkPtok 40 "," 73 34 230)) [] (CheckSumField (mkSpan (mkPtok 42 "o" 73 4 226) (mkPtok 40 "," 73 34 230)) (mkChecksumFieldDecl (mkSpan (mkPtok 42 "o" 73 4 226) (mkPtok 40 "," 73 34 230)) None (mkPtok 42 "o" 73 4 226) (mkCalculatedFrom (mkSpan (mkPtok 5 "@calculatedFrom(" 73 6 227) (mkPtok 6 ")" 73 32 229)) (mkPtok 5 "@calculatedFrom(" 73 6 227) (mkPtok 31 """`tick`""" 73 23 228) (mkPtok 6 ")" 73 32 229)) None (mkPtok 40 "," 73 34 230)))); (mkFieldWithAttr (mkSpan (mkPtok 7 "@lengthOf(" 74 4 231) (mkPtok 40 "," 85 11 275)) [(FALengthOf (mkSpan (mkPtok 7 "@lengthOf(" 74 4 231) (mkPtok 6 ")" 74 19 233)) (mkLengthOf (mkSpan (mkPtok 7 "@lengthOf(" 74 4 231) (mkPtok 6 ")" 74 19 233)) (mkPtok 7 "@lengthOf(" 74 4 231) (mkPtok 42 "len" 74 15 232) (mkPtok 6 ")" 74 19 233)))] (InerObjectField (mkSpan (mkPtok 42 "len" 74 21 234) (mkPtok 40 "," 85 11 275)) None (InerObjectDecl (mkSpan (mkPtok 42 "len" 74 21 234) (mkPtok 3 "}" 85 9 274)) (mkPtok 42 "len" 74 21 234) (mkPtok 2 "{" 75 0 235) [(MatchField (mkSpan (mkPtok 38 "match" 75 1 236) (mkPtok 40 "," 82 8 262)) (mkMatchFieldDecl (mkSpan (mkPtok 38 "match" 75 1 236) (mkPtok 3 "}" 82 6 261)) (mkPtok 38 "match" 75 1 236) (mkPtok 42 "float" 75 7 237) (mkPtok 17 "as" 75 13 238) (mkPtok 42 "rootA" 76 4 239) (mkPtok 2 "{" 76 10 240) [(mkMatchPair (mkSpan (mkPtok 18 "[" 77 0 241) (mkPtok 40 "," 82 4 260)) (MKList (mkKeyList (mkSpan (mkPtok 18 "[" 77 0 241) (mkPtok 13 "]" 81 0 257)) (mkPtok 18 "[" 77 0 241) (mkPtok 31 """x y""" 77 2 242) [((mkPtok 40 "," 77 9 243), (mkPtok 31 """a\""b""" 77 11 244)); ((mkPtok 40 "," 77 18 245), (mkPtok 30 "7" 77 19 246)); ((mkPtok 40 "," 77 21 247), (mkPtok 31 """""" 77 23 248)); ((mkPtok 40 "," 78 0 249), (mkPtok 31 (string_of_bytes [34; 195; 169; 116; 195; 169; 34]%N) 78 2 250)); ((mkPtok 40 "," 78 8 251), (mkPtok 30 "4294967296" 78 10 252)); ((mkPtok 40 "," 79 4 253), (mkPtok 31 """abc""" 80 4 254)); ((mkPtok 40 "," 80 10 255), (mkPtok 30 "65535" 80 12 256))] (mkPtok 13 "]" 81 0 257))) (mkPtok 39 ":" 81 1 258) (mkPtok 42 "float" 81 3 259) (Some (mkPtok 40 "," 82 4 260)))] (mkPtok 3 "}" 82 6 261)) (mkPtok 40 "," 82 8 262)); (MetaField (mkSpan (mkPtok 28 "f32" 82 10 263) (mkPtok 40 "," 83 11 265)) None (mkMetaDecl (mkSpan (mkPtok 28 "f32" 82 10 263) (mkPtok 40 "," 83 11 265)) (TyBasic (mkSpan (mkPtok 28 "f32" 82 10 263) (mkPtok 28 "f32" 82 10 263)) (mkBasicType (mkSpan (mkPtok 28 "f32" 82 10 263) (mkPtok 28 "f32" 82 10 263)) (mkPtok 28 "f32" 82 10 263))) (mkPtok 42 "Packet" 83 4 264) None (mkPtok 40 "," 83 11 265))); (MetaField (mkSpan (mkPtok 21 "u16" 84 0 266) (mkPtok 40 "," 84 7 268)) None (mkMetaDecl (mkSpan (mkPtok 21 "u16" 84 0 266) (mkPtok 40 "," 84 7 268)) (TyBasic (mkSpan (mkPtok 21 "u16" 84 0 266) (mkPtok 21 "u16" 84 0 266)) (mkBasicType (mkSpan (mkPtok 21 "u16" 84 0 266) (mkPtok 21 "u16" 84 0 266)) (mkPtok 21 "u16" 84 0 266))) (mkPtok 42 "a1" 84 4 267) None (mkPtok 40 "," 84 7 268))); (MetaField (mkSpan (mkPtok 14 "zchar[" 84 9 269) (mkPtok 40 "," 85 7 273)) None (mkMetaDecl (mkSpan (mkPtok 14 "zchar[" 84 9 269) (mkPtok 40 "," 85 7 273)) (TyFixed (mkSpan (mkPtok 14 "zchar[" 84 9 269) (mkPtok 13 "]" 84 22 271)) (mkFixedString (mkSpan (mkPtok 14 "zchar[" 84 9 269) (mkPtok 13 "]" 84 22 271)) (mkPtok 14 "zchar[" 84 9 269) (mkPtok 30 "65535" 84 16 270) (mkPtok 13 "]" 84 22 271))) (mkPtok 42 "stringy" 85 0 272) None (mkPtok 40 "," 85 7 273)))] (mkPtok 3 "}" 85 9 274)) (mkPtok 40 "," 85 11 275)))] (mkPtok 3 "}" 85 13 276))); (DPacket (mkPacketDef (mkSpan (mkPtok 34 "root" 85 15 277) (mkPtok 3 "}" 91 11 290)) (Some (mkPtok 34 "root" 85 15 277)) (mkPtok 35 "packet" 85 20 278) (mkPtok 42 "metadata" 86 4 279) (mkPtok 2 "{" 87 0 281) [(mkFieldWithAttr (mkSpan (mkPtok 9 "@tag(" 88 4 282) (mkPtok 40 "," 91 9 289)) [(FATag (mkSpan (mkPtok 9 "@tag(" 88 4 282) (mkPtok 6 ")" 89 4 284)) (mkTagAttr (mkSpan (mkPtok 9 "@tag(" 88 4 282) (mkPtok 6 ")" 89 4 284)) (mkPtok 9 "@tag(" 88 4 282) (mkPtok 30 "4294967296" 88 10 283) (mkPtok 6 ")" 89 4 284)))] (MetaField (mkSpan (mkPtok 15 "string" 90 0 286) (mkPtok 40 "," 91 9 289)) None (mkMetaDecl (mkSpan (mkPtok 15 "string" 90 0 286) (mkPtok 40 "," 91 9 289)) (TyDynamic (mkSpan (mkPtok 15 "string" 90 0 286) (mkPtok 15 "string" 90 0 286)) (mkDynamicString (mkSpan (mkPtok 15 "string" 90 0 286) (mkPtok 15 "string" 90 0 286)) (mkPtok 15 "string" 90 0 286))) (mkPtok 42 "u8x" 90 7 287) (Some (mkPtok 43 "`a\`" 91 4 288)) (mkPtok 40 "," 91 9 289))))] (mkPtok 3 "}" 91 11 290)))])).
Eval vm_compute in ("<<<M759>>>" ++ check (runes_of_ascii "root packet options1 {
    }	options { u
    =  4294967296
    As=
""abc""  f32a = ' ' ; len // packet A { u8 x, }
=char[] ; uint8x
= true}
")).
Eval vm_compute in ("<<<M791>>>" ++ check (runes_of_ascii "packet float { @calculatedFrom(
// @lengthOf(
// a // b
""abc"" ) u64 roots
, repeat u {repeat A `a\` , As @lengthOf( len ) , uint16 falsey ,
    leftPad @lengthOf(
//x
// c
crc)
    ,
    } , zchar[007 ]
    int
`a\`
    ,
@calculatedFrom( ""x y"")
char[] Logon `
`// `tick` ""quote"" 'q'
, @rightPad ( ' ' // a // b
)@lengthOf(
tag) @tag( 0123456789 ) match
    rootA as Z9_{ 65535 :
    chars ""1"" : Pad // packet A { u8 x, }
, }, @tag(	65535 ) tag
    // " ++ [27880; 37322]%N ++ runes_of_ascii "
    { char[
//
// " ++ [27880; 37322]%N ++ runes_of_ascii "
255]// @lengthOf(
charz@lengthOf( len
)`a\` ,uint16 i64_
@lengthOf(string_
//x
//
) , }
    ,
// c
/// triple
o o `// not a comment` , @calculatedFrom(
""1"" ) repeat T `" ++ [28040; 24687; 31867; 22411]%N ++ runes_of_ascii "`	, } root packet crc
{ repeat
zchar[ 4294967296
    ] u8x, match MetaDataX as
string_
{
[""`tick`"" ,	""packet""	, 10
, ""packet"",	""// no comment"" , """ ++ [233]%N ++ runes_of_ascii "t" ++ [233]%N ++ runes_of_ascii """ ,
65535] : stringy
// packet A { u8 x, }
//
,
[
    3 ] :	stringy, [""" ++ [28040; 24687]%N ++ runes_of_ascii """ , 3 ] : asx	, // " ++ [128512]%N ++ runes_of_ascii " emoji
[ 7, // @lengthOf(
00, // @lengthOf(
""" ++ [28040; 24687]%N ++ runes_of_ascii """ , ""a	b"" , 0, 4294967296// @lengthOf(
,255
,  007 ] :As//
,
""1"" : x_y_z
// `tick` ""quote"" 'q'
// @lengthOf(
, } , } MetaData
    falsey { } packet o // c
{ @lengthOf(	Packet/// triple
)
@lengthOf( Z9_ ) @leftPad (
'\x00' ) repeat
Pad// packet A { u8 x, }
matchKey
,}
MetaData
stringy {}
")).
Eval vm_compute in ("<<<M823>>>" ++ check (runes_of_ascii "
MetaData string_ //	t
{ stringy metadata
    , // packet A { u8 x, }
lengthOf int
``,
    f32a u8x	,
u32//
tag ,	falsey repeatCount ,
    }
")).
Eval vm_compute in ("<<<M855>>>" ++ check (runes_of_ascii "packet Logon // `tick` ""quote"" 'q'
{
    @rightPad
()
repeat
Z9_ , match i64_
//x
// @lengthOf(
as len { 65535
// " ++ [27880; 37322]%N ++ runes_of_ascii "
// @lengthOf(
:
    MetaDataX
, """ ++ [128512]%N ++ runes_of_ascii """: u128 , """ ++ [28040; 24687]%N ++ runes_of_ascii """ :lengthOf
""a	b"" : o , [
    255 // c
]  : As , [""\n""] :
// @lengthOf(
// trailing space 
o, } ,	@tag(
//	t
// trailing space 
42)
@tag( 1 ) //	t
string_ @calculatedFrom( ""1"" ) ,
    } root packet
matchKey
{ repeat u32
MetaDataX ,
    float32
As	@lengthOf(
charz	),
a1 repeatCount `
`	, } packet
    msg_type
    // trailing space 
    {
    }")).
Eval vm_compute in ("<<<M887>>>" ++ check (runes_of_ascii "
MetaData u8x {
    i64_ u128`tab	here` ,char[]
asx ,
    u // packet A { u8 x, }
BodyLength ,u64  uint8x ,
    _x
rootA //x
,}
    MetaData trueish { float64 asx// c
, /// triple
}")).
Eval vm_compute in ("<<<M919>>>" ++ check (runes_of_ascii "MetaData _x{
    body
float
, float64
    x_y_z `tab	here` ,  char[00
]
o`a\`
, Z9_	crc
    `doc`
,} packet options1 { @lengthOf( T )@lengthOf( chars  ) @rightPad
(
    ' '  ) string_ falsey ,
    // packet A { u8 x, }
    } MetaData Pad
{ //x
Foo Z9_
    `crlf
line` , x_y_z packetx	,
    uint32 calculatedFrom , i64 falsey ,packetx As ``,  }")).
Eval vm_compute in ("<<<M951>>>" ++ check (runes_of_ascii "
packet packetx //	t
{
lengthOf
    @lengthOf( T )
    // trailing space 
    `// not a comment`
, char[ 42] Header `two words` ,} packet
    Logon { repeat
string i64_ `u8 x,`
, @rightPad ( )match calculatedFrom //
as
stringy /// triple
{ [ 0123456789 , // trailing space 
7  ,
""1""
, 1
, ""`tick`""	]
:
    zchar
, 3 //	t
:
packetx
    [
    10,""CRC32"" ]:	x
[7 ]  :
    // `tick` ""quote"" 'q'
    Foo
,[ ""CRC32""
,
10 ,
// " ++ [27880; 37322]%N ++ runes_of_ascii "
// packet A { u8 x, }
65535 ,
// " ++ [27880; 37322]%N ++ runes_of_ascii "
// a // b
7 ,""{,}"" ] : A // @lengthOf(
, 00 :rootA
    , }
, } options{
}
")).
Eval vm_compute in ("<<<T951>>>" ++ terms [mkTok 35 "packet" 2 0 false; mkTok 42 "packetx" 2 7 false; mkTok 44 (string_of_bytes [47; 47; 9; 116]%N) 2 15 true; mkTok 2 "{" 3 0 false; mkTok 42 "lengthOf" 4 0 false; mkTok 7 "@lengthOf(" 5 4 false; mkTok 42 "T" 5 15 false; mkTok 6 ")" 5 17 false; mkTok 44 "// trailing space " 6 4 true; mkTok 43 "`// not a comment`" 7 4 false; mkTok 40 "," 8 0 false; mkTok 12 "char[" 8 2 false; mkTok 30 "42" 8 8 false; mkTok 13 "]" 8 10 false; mkTok 42 "Header" 8 12 false; mkTok 43 "`two words`" 8 19 false; mkTok 40 "," 8 31 false; mkTok 3 "}" 8 32 false; mkTok 35 "packet" 8 34 false; mkTok 42 "Logon" 9 4 false; mkTok 2 "{" 9 10 false; mkTok 36 "repeat" 9 12 false; mkTok 15 "string" 10 0 false; mkTok 42 "i64_" 10 7 false; mkTok 43 "`u8 x,`" 10 12 false; mkTok 40 "," 11 0 false; mkTok 32 "@rightPad" 11 2 false; mkTok 8 "(" 11 12 false; mkTok 6 ")" 11 14 false; mkTok 38 "match" 11 15 false; mkTok 42 "calculatedFrom" 11 21 false; mkTok 44 "//" 11 36 true; mkTok 17 "as" 12 0 false; mkTok 42 "stringy" 13 0 false; mkTok 44 "/// triple" 13 8 true; mkTok 2 "{" 14 0 false; mkTok 18 "[" 14 2 false; mkTok 30 "0123456789" 14 4 false; mkTok 40 "," 14 15 false; mkTok 44 "// trailing space " 14 17 true; mkTok 30 "7" 15 0 false; mkTok 40 "," 15 3 false; mkTok 31 """1""" 16 0 false; mkTok 40 "," 17 0 false; mkTok 30 "1" 17 2 false; mkTok 40 "," 18 0 false; mkTok 31 """`tick`""" 18 2 false; mkTok 13 "]" 18 11 false; mkTok 39 ":" 19 0 false; mkTok 42 "zchar" 20 4 false; mkTok 40 "," 21 0 false; mkTok 30 "3" 21 2 false; mkTok 44 (string_of_bytes [47; 47; 9; 116]%N) 21 4 true; mkTok 39 ":" 22 0 false; mkTok 42 "packetx" 23 0 false; mkTok 18 "[" 24 4 false; mkTok 30 "10" 25 4 false; mkTok 40 "," 25 6 false; mkTok 31 """CRC32""" 25 7 false; mkTok 13 "]" 25 15 false; mkTok 39 ":" 25 16 false; mkTok 42 "x" 25 18 false; mkTok 18 "[" 26 0 false; mkTok 30 "7" 26 1 false; mkTok 13 "]" 26 3 false; mkTok 39 ":" 26 6 false; mkTok 44 "// `tick` ""quote"" 'q'" 27 4 true; mkTok 42 "Foo" 28 4 false; mkTok 40 "," 29 0 false; mkTok 18 "[" 29 1 false; mkTok 31 """CRC32""" 29 3 false; mkTok 40 "," 30 0 false; mkTok 30 "10" 31 0 false; mkTok 40 "," 31 3 false; mkTok 44 (string_of_bytes [47; 47; 32; 230; 179; 168; 233; 135; 138]%N) 32 0 true; mkTok 44 "// packet A { u8 x, }" 33 0 true; mkTok 30 "65535" 34 0 false; mkTok 40 "," 34 6 false; mkTok 44 (string_of_bytes [47; 47; 32; 230; 179; 168; 233; 135; 138]%N) 35 0 true; mkTok 44 "// a // b" 36 0 true; mkTok 30 "7" 37 0 false; mkTok 40 "," 37 2 false; mkTok 31 """{,}""" 37 3 false; mkTok 13 "]" 37 9 false; mkTok 39 ":" 37 11 false; mkTok 42 "A" 37 13 false; mkTok 44 "// @lengthOf(" 37 15 true; mkTok 40 "," 38 0 false; mkTok 30 "00" 38 2 false; mkTok 39 ":" 38 5 false; mkTok 42 "rootA" 38 6 false; mkTok 40 "," 39 4 false; mkTok 3 "}" 39 6 false; mkTok 40 "," 40 0 false; mkTok 3 "}" 40 2 false; mkTok 1 "options" 40 4 false; mkTok 2 "{" 40 11 false; mkTok 3 "}" 41 0 false; mkTok 0 "<EOF>" 42 0 false] (mkPacket (mkPtok 35 "packet" 2 0 0) (Some (mkPtok 3 "}" 41 0 97)) [(DPacket (mkPacketDef (mkSpan (mkPtok 35 "packet" 2 0 0) (mkPtok 3 "}" 8 32 17)) None (mkPtok 35 "packet" 2 0 0) (mkPtok 42 "packetx" 2 7 1) (mkPtok 2 "{" 3 0 3) [(mkFieldWithAttr (mkSpan (mkPtok 42 "lengthOf" 4 0 4) (mkPtok 40 "," 8 0 10)) [] (LengthField (mkSpan (mkPtok 42 "lengthOf" 4 0 4) (mkPtok 40 "," 8 0 10)) (mkLengthFieldDecl (mkSpan (mkPtok 42 "lengthOf" 4 0 4) (mkPtok 40 "," 8 0 10)) None (mkPtok 42 "lengthOf" 4 0 4) (mkLengthOf (mkSpan (mkPtok 7 "@lengthOf(" 5 4 5) (mkPtok 6 ")" 5 17 7)) (mkPtok 7 "@lengthOf(" 5 4 5) (mkPtok 42 "T" 5 15 6) (mkPtok 6 ")" 5 17 7)) (Some (mkPtok 43 "`// not a comment`" 7 4 9)) (mkPtok 40 "," 8 0 10)))); (mkFieldWithAttr (mkSpan (mkPtok 12 "char[" 8 2 11) (mkPtok 40 "," 8 31 16)) [] (MetaField (mkSpan (mkPtok 12 "char[" 8 2 11) (mkPtok 40 "," 8 31 16)) None (mkMetaDecl (mkSpan (mkPtok 12 "char[" 8 2 11) (mkPtok 40 "," 8 31 16)) (TyFixed (mkSpan (mkPtok 12 "char[" 8 2 11) (mkPtok 13 "]" 8 10 13)) (mkFixedString (mkSpan (mkPtok 12 "char[" 8 2 11) (mkPtok 13 "]" 8 10 13)) (mkPtok 12 "char[" 8 2 11) (mkPtok 30 "42" 8 8 12) (mkPtok 13 "]" 8 10 13))) (mkPtok 42 "Header" 8 12 14) (Some (mkPtok 43 "`two words`" 8 19 15)) (mkPtok 40 "," 8 31 16))))] (mkPtok 3 "}" 8 32 17))); (DPacket (mkPacketDef (mkSpan (mkPtok 35 "packet" 8 34 18) (mkPtok 3 "}" 40 2 94)) None (mkPtok 35 "packet" 8 34 18) (mkPtok 42 "Logon" 9 4 19) (mkPtok 2 "{" 9 10 20) [(mkFieldWithAttr (mkSpan (mkPtok 36 "repeat" 9 12 21) (mkPtok 40 "," 11 0 25)) [] (MetaField (mkSpan (mkPtok 36 "repeat" 9 12 21) (mkPtok 40 "," 11 0 25)) (Some (mkPtok 36 "repeat" 9 12 21)) (mkMetaDecl (mkSpan (mkPtok 15 "string" 10 0 22) (mkPtok 40 "," 11 0 25)) (TyDynamic (mkSpan (mkPtok 15 "string" 10 0 22) (mkPtok 15 "string" 10 0 22)) (mkDynamicString (mkSpan (mkPtok 15 "string" 10 0 22) (mkPtok 15 "string" 10 0 22)) (mkPtok 15 "string" 10 0 22))) (mkPtok 42 "i64_" 10 7 23) (Some (mkPtok 43 "`u8 x,`" 10 12 24)) (mkPtok 40 "," 11 0 25)))); (mkFieldWithAttr (mkSpan (mkPtok 32 "@rightPad" 11 2 26) (mkPtok 40 "," 40 0 93)) [(FAPadding (mkSpan (mkPtok 32 "@rightPad" 11 2 26) (mkPtok 6 ")" 11 14 28)) (mkPaddingAttr (mkSpan (mkPtok 32 "@rightPad" 11 2 26) (mkPtok 6 ")" 11 14 28)) (mkPtok 32 "@rightPad" 11 2 26) (mkPtok 8 "(" 11 12 27) None (mkPtok 6 ")" 11 14 28)))] (MatchField (mkSpan (mkPtok 38 "match" 11 15 29) (mkPtok 40 "," 40 0 93)) (mkMatchFieldDecl (mkSpan (mkPtok 38 "match" 11 15 29) (mkPtok 3 "}" 39 6 92)) (mkPtok 38 "match" 11 15 29) (mkPtok 42 "calculatedFrom" 11 21 30) (mkPtok 17 "as" 12 0 32) (mkPtok 42 "stringy" 13 0 33) (mkPtok 2 "{" 14 0 35) [(mkMatchPair (mkSpan (mkPtok 18 "[" 14 2 36) (mkPtok 40 "," 21 0 50)) (MKList (mkKeyList (mkSpan (mkPtok 18 "[" 14 2 36) (mkPtok 13 "]" 18 11 47)) (mkPtok 18 "[" 14 2 36) (mkPtok 30 "0123456789" 14 4 37) [((mkPtok 40 "," 14 15 38), (mkPtok 30 "7" 15 0 40)); ((mkPtok 40 "," 15 3 41), (mkPtok 31 """1""" 16 0 42)); ((mkPtok 40 "," 17 0 43), (mkPtok 30 "1" 17 2 44)); ((mkPtok 40 "," 18 0 45), (mkPtok 31 """`tick`""" 18 2 46))] (mkPtok 13 "]" 18 11 47))) (mkPtok 39 ":" 19 0 48) (mkPtok 42 "zchar" 20 4 49) (Some (mkPtok 40 "," 21 0 50))); (mkMatchPair (mkSpan (mkPtok 30 "3" 21 2 51) (mkPtok 42 "packetx" 23 0 54)) (MKDigits (mkPtok 30 "3" 21 2 51)) (mkPtok 39 ":" 22 0 53) (mkPtok 42 "packetx" 23 0 54) None); (mkMatchPair (mkSpan (mkPtok 18 "[" 24 4 55) (mkPtok 42 "x" 25 18 61)) (MKList (mkKeyList (mkSpan (mkPtok 18 "[" 24 4 55) (mkPtok 13 "]" 25 15 59)) (mkPtok 18 "[" 24 4 55) (mkPtok 30 "10" 25 4 56) [((mkPtok 40 "," 25 6 57), (mkPtok 31 """CRC32""" 25 7 58))] (mkPtok 13 "]" 25 15 59))) (mkPtok 39 ":" 25 16 60) (mkPtok 42 "x" 25 18 61) None); (mkMatchPair (mkSpan (mkPtok 18 "[" 26 0 62) (mkPtok 40 "," 29 0 68)) (MKList (mkKeyList (mkSpan (mkPtok 18 "[" 26 0 62) (mkPtok 13 "]" 26 3 64)) (mkPtok 18 "[" 26 0 62) (mkPtok 30 "7" 26 1 63) [] (mkPtok 13 "]" 26 3 64))) (mkPtok 39 ":" 26 6 65) (mkPtok 42 "Foo" 28 4 67) (Some (mkPtok 40 "," 29 0 68))); (mkMatchPair (mkSpan (mkPtok 18 "[" 29 1 69) (mkPtok 40 "," 38 0 87)) (MKList (mkKeyList (mkSpan (mkPtok 18 "[" 29 1 69) (mkPtok 13 "]" 37 9 83)) (mkPtok 18 "[" 29 1 69) (mkPtok 31 """CRC32""" 29 3 70) [((mkPtok 40 "," 30 0 71), (mkPtok 30 "10" 31 0 72)); ((mkPtok 40 "," 31 3 73), (mkPtok 30 "65535" 34 0 76)); ((mkPtok 40 "," 34 6 77), (mkPtok 30 "7" 37 0 80)); ((mkPtok 40 "," 37 2 81), (mkPtok 31 """{,}""" 37 3 82))] (mkPtok 13 "]" 37 9 83))) (mkPtok 39 ":" 37 11 84) (mkPtok 42 "A" 37 13 85) (Some (mkPtok 40 "," 38 0 87))); (mkMatchPair (mkSpan (mkPtok 30 "00" 38 2 88) (mkPtok 40 "," 39 4 91)) (MKDigits (mkPtok 30 "00" 38 2 88)) (mkPtok 39 ":" 38 5 89) (mkPtok 42 "rootA" 38 6 90) (Some (mkPtok 40 "," 39 4 91)))] (mkPtok 3 "}" 39 6 92)) (mkPtok 40 "," 40 0 93)))] (mkPtok 3 "}" 40 2 94))); (DOption (mkOptionDef (mkSpan (mkPtok 1 "options" 40 4 95) (mkPtok 3 "}" 41 0 97)) (mkPtok 1 "options" 40 4 95) (mkPtok 2 "{" 40 11 96) [] (mkPtok 3 "}" 41 0 97)))])).
Eval vm_compute in ("<<<M983>>>" ++ check (runes_of_ascii "
options {	i8i8 = ""a\\"" }")).
Eval vm_compute in ("<<<M1015>>>" ++ check (runes_of_ascii "packet
i8i8 {	@tag( 65535 ) i8i8 ,  repeat
u8 uint8x , zchar[7] u
    // " ++ [27880; 37322]%N ++ runes_of_ascii "
    ,
    repeat
    char[] Packet , @leftPad ( '\x00' )i64_
    { x `line1
line2` ,//x
} , // a // b
repeat Foo{	len{match // a // b
u  as
    _x { 42
    :  tag , [
""" ++ [233]%N ++ runes_of_ascii "t" ++ [233]%N ++ runes_of_ascii """	] : _x[ 7 , 4294967296] : Packet , } ,float64 o
`it's`,int64
    options1 ,//	t
} ,
} , @leftPad
(
    '\x00' )match x //
as zchar{	255:
    //
    o, 255 : Logon /// triple
,	0	: Header ,007
    : msg_type ,[
    // packet A { u8 x, }
    ""\n"" ,// packet A { u8 x, }
007
// " ++ [27880; 37322]%N ++ runes_of_ascii "
// a // b
, ""1"" ,  255// a // b
,4294967296 , 0 ,007
    ] :
    int , } , }// trailing space 
packet
As
{ }

")).
Eval vm_compute in ("<<<M1047>>>" ++ check (runes_of_ascii "
options
{ BodyLength
= zchar[ 0123456789 ] } options
{
asx = ""a\""b"" ;rootA =	char[] roots
=""{,}"" ; int= ""it's"" // `tick` ""quote"" 'q'
; }
")).
Eval vm_compute in ("<<<M1079>>>" ++ check (runes_of_ascii "  ")).
Eval vm_compute in ("<<<M1111>>>" ++ check (runes_of_ascii "// packet A { u8 x, }
MetaData MetaDataX {
    u8 roots , }")).
Eval vm_compute in ("<<<M1143>>>" ++ check (runes_of_ascii "options {
    } packet As {f32 int @calculatedFrom(""{,}"")
, u8 packetx ,u128 len, } packet options1 {}")).
Eval vm_compute in ("<<<M1175>>>" ++ check (runes_of_ascii "packet	u8x /// triple
{ @calculatedFrom( ""\" ++ [233]%N ++ runes_of_ascii """ ) zchar[
255 ]
A /// triple
@calculatedFrom( ""a	b"" )
    ,string MetaDataX @lengthOf( Pad  ) , f32a @calculatedFrom(
""a\""b""
    ) ,  zchar[
4294967296 ] tag @calculatedFrom( """ ++ [28040; 24687]%N ++ runes_of_ascii """ // `tick` ""quote"" 'q'
)
,@tag( 0123456789 )
    @lengthOf(  Header)int64 A `` ,
char[]
/// triple
// packet A { u8 x, }
x_y_z ,} packet	Logon {	}
")).
Eval vm_compute in ("<<<T1175>>>" ++ terms [mkTok 35 "packet" 1 0 false; mkTok 42 "u8x" 1 7 false; mkTok 44 "/// triple" 1 11 true; mkTok 2 "{" 2 0 false; mkTok 5 "@calculatedFrom(" 2 2 false; mkTok 31 (string_of_bytes [34; 92; 195; 169; 34]%N) 2 19 false; mkTok 6 ")" 2 24 false; mkTok 14 "zchar[" 2 26 false; mkTok 30 "255" 3 0 false; mkTok 13 "]" 3 4 false; mkTok 42 "A" 4 0 false; mkTok 44 "/// triple" 4 2 true; mkTok 5 "@calculatedFrom(" 5 0 false; mkTok 31 (string_of_bytes [34; 97; 9; 98; 34]%N) 5 17 false; mkTok 6 ")" 5 23 false; mkTok 40 "," 6 4 false; mkTok 15 "string" 6 5 false; mkTok 42 "MetaDataX" 6 12 false; mkTok 7 "@lengthOf(" 6 22 false; mkTok 42 "Pad" 6 33 false; mkTok 6 ")" 6 38 false; mkTok 40 "," 6 40 false; mkTok 42 "f32a" 6 42 false; mkTok 5 "@calculatedFrom(" 6 47 false; mkTok 31 """a\""b""" 7 0 false; mkTok 6 ")" 8 4 false; mkTok 40 "," 8 6 false; mkTok 14 "zchar[" 8 9 false; mkTok 30 "4294967296" 9 0 false; mkTok 13 "]" 9 11 false; mkTok 42 "tag" 9 13 false; mkTok 5 "@calculatedFrom(" 9 17 false; mkTok 31 (string_of_bytes [34; 230; 182; 136; 230; 129; 175; 34]%N) 9 34 false; mkTok 44 "// `tick` ""quote"" 'q'" 9 39 true; mkTok 6 ")" 10 0 false; mkTok 40 "," 11 0 false; mkTok 9 "@tag(" 11 1 false; mkTok 30 "0123456789" 11 7 false; mkTok 6 ")" 11 18 false; mkTok 7 "@lengthOf(" 12 4 false; mkTok 42 "Header" 12 16 false; mkTok 6 ")" 12 22 false; mkTok 27 "int64" 12 23 false; mkTok 42 "A" 12 29 false; mkTok 43 "``" 12 31 false; mkTok 40 "," 12 34 false; mkTok 16 "char[]" 13 0 false; mkTok 44 "/// triple" 14 0 true; mkTok 44 "// packet A { u8 x, }" 15 0 true; mkTok 42 "x_y_z" 16 0 false; mkTok 40 "," 16 6 false; mkTok 3 "}" 16 7 false; mkTok 35 "packet" 16 9 false; mkTok 42 "Logon" 16 16 false; mkTok 2 "{" 16 22 false; mkTok 3 "}" 16 24 false; mkTok 0 "<EOF>" 17 0 false] (mkPacket (mkPtok 35 "packet" 1 0 0) (Some (mkPtok 3 "}" 16 24 55)) [(DPacket (mkPacketDef (mkSpan (mkPtok 35 "packet" 1 0 0) (mkPtok 3 "}" 16 7 51)) None (mkPtok 35 "packet" 1 0 0) (mkPtok 42 "u8x" 1 7 1) (mkPtok 2 "{" 2 0 3) [(mkFieldWithAttr (mkSpan (mkPtok 5 "@calculatedFrom(" 2 2 4) (mkPtok 40 "," 6 4 15)) [(FACalculatedFrom (mkSpan (mkPtok 5 "@calculatedFrom(" 2 2 4) (mkPtok 6 ")" 2 24 6)) (mkCalculatedFrom (mkSpan (mkPtok 5 "@calculatedFrom(" 2 2 4) (mkPtok 6 ")" 2 24 6)) (mkPtok 5 "@calculatedFrom(" 2 2 4) (mkPtok 31 (string_of_bytes [34; 92; 195; 169; 34]%N) 2 19 5) (mkPtok 6 ")" 2 24 6)))] (CheckSumField (mkSpan (mkPtok 14 "zchar[" 2 26 7) (mkPtok 40 "," 6 4 15)) (mkChecksumFieldDecl (mkSpan (mkPtok 14 "zchar[" 2 26 7) (mkPtok 40 "," 6 4 15)) (Some (TyFixed (mkSpan (mkPtok 14 "zchar[" 2 26 7) (mkPtok 13 "]" 3 4 9)) (mkFixedString (mkSpan (mkPtok 14 "zchar[" 2 26 7) (mkPtok 13 "]" 3 4 9)) (mkPtok 14 "zchar[" 2 26 7) (mkPtok 30 "255" 3 0 8) (mkPtok 13 "]" 3 4 9)))) (mkPtok 42 "A" 4 0 10) (mkCalculatedFrom (mkSpan (mkPtok 5 "@calculatedFrom(" 5 0 12) (mkPtok 6 ")" 5 23 14)) (mkPtok 5 "@calculatedFrom(" 5 0 12) (mkPtok 31 (string_of_bytes [34; 97; 9; 98; 34]%N) 5 17 13) (mkPtok 6 ")" 5 23 14)) None (mkPtok 40 "," 6 4 15)))); (mkFieldWithAttr (mkSpan (mkPtok 15 "string" 6 5 16) (mkPtok 40 "," 6 40 21)) [] (LengthField (mkSpan (mkPtok 15 "string" 6 5 16) (mkPtok 40 "," 6 40 21)) (mkLengthFieldDecl (mkSpan (mkPtok 15 "string" 6 5 16) (mkPtok 40 "," 6 40 21)) (Some (TyDynamic (mkSpan (mkPtok 15 "string" 6 5 16) (mkPtok 15 "string" 6 5 16)) (mkDynamicString (mkSpan (mkPtok 15 "string" 6 5 16) (mkPtok 15 "string" 6 5 16)) (mkPtok 15 "string" 6 5 16)))) (mkPtok 42 "MetaDataX" 6 12 17) (mkLengthOf (mkSpan (mkPtok 7 "@lengthOf(" 6 22 18) (mkPtok 6 ")" 6 38 20)) (mkPtok 7 "@lengthOf(" 6 22 18) (mkPtok 42 "Pad" 6 33 19) (mkPtok 6 ")" 6 38 20)) None (mkPtok 40 "," 6 40 21)))); (mkFieldWithAttr (mkSpan (mkPtok 42 "f32a" 6 42 22) (mkPtok 40 "," 8 6 26)) [] (CheckSumField (mkSpan (mkPtok 42 "f32a" 6 42 22) (mkPtok 40 "," 8 6 26)) (mkChecksumFieldDecl (mkSpan (mkPtok 42 "f32a" 6 42 22) (mkPtok 40 "," 8 6 26)) None (mkPtok 42 "f32a" 6 42 22) (mkCalculatedFrom (mkSpan (mkPtok 5 "@calculatedFrom(" 6 47 23) (mkPtok 6 ")" 8 4 25)) (mkPtok 5 "@calculatedFrom(" 6 47 23) (mkPtok 31 """a\""b""" 7 0 24) (mkPtok 6 ")" 8 4 25)) None (mkPtok 40 "," 8 6 26)))); (mkFieldWithAttr (mkSpan (mkPtok 14 "zchar[" 8 9 27) (mkPtok 40 "," 11 0 35)) [] (CheckSumField (mkSpan (mkPtok 14 "zchar[" 8 9 27) (mkPtok 40 "," 11 0 35)) (mkChecksumFieldDecl (mkSpan (mkPtok 14 "zchar[" 8 9 27) (mkPtok 40 "," 11 0 35)) (Some (TyFixed (mkSpan (mkPtok 14 "zchar[" 8 9 27) (mkPtok 13 "]" 9 11 29)) (mkFixedString (mkSpan (mkPtok 14 "zchar[" 8 9 27) (mkPtok 13 "]" 9 11 29)) (mkPtok 14 "zchar[" 8 9 27) (mkPtok 30 "4294967296" 9 0 28) (mkPtok 13 "]" 9 11 29)))) (mkPtok 42 "tag" 9 13 30) (mkCalculatedFrom (mkSpan (mkPtok 5 "@calculatedFrom(" 9 17 31) (mkPtok 6 ")" 10 0 34)) (mkPtok 5 "@calculatedFrom(" 9 17 31) (mkPtok 31 (string_of_bytes [34; 230; 182; 136; 230; 129; 175; 34]%N) 9 34 32) (mkPtok 6 ")" 10 0 34)) None (mkPtok 40 "," 11 0 35)))); (mkFieldWithAttr (mkSpan (mkPtok 9 "@tag(" 11 1 36) (mkPtok 40 "," 12 34 45)) [(FATag (mkSpan (mkPtok 9 "@tag(" 11 1 36) (mkPtok 6 ")" 11 18 38)) (mkTagAttr (mkSpan (mkPtok 9 "@tag(" 11 1 36) (mkPtok 6 ")" 11 18 38)) (mkPtok 9 "@tag(" 11 1 36) (mkPtok 30 "0123456789" 11 7 37) (mkPtok 6 ")" 11 18 38))); (FALengthOf (mkSpan (mkPtok 7 "@lengthOf(" 12 4 39) (mkPtok 6 ")" 12 22 41)) (mkLengthOf (mkSpan (mkPtok 7 "@lengthOf(" 12 4 39) (mkPtok 6 ")" 12 22 41)) (mkPtok 7 "@lengthOf(" 12 4 39) (mkPtok 42 "Header" 12 16 40) (mkPtok 6 ")" 12 22 41)))] (MetaField (mkSpan (mkPtok 27 "int64" 12 23 42) (mkPtok 40 "," 12 34 45)) None (mkMetaDecl (mkSpan (mkPtok 27 "int64" 12 23 42) (mkPtok 40 "," 12 34 45)) (TyBasic (mkSpan (mkPtok 27 "int64" 12 23 42) (mkPtok 27 "int64" 12 23 42)) (mkBasicType (mkSpan (mkPtok 27 "int64" 12 23 42) (mkPtok 27 "int64" 12 23 42)) (mkPtok 27 "int64" 12 23 42))) (mkPtok 42 "A" 12 29 43) (Some (mkPtok 43 "``" 12 31 44)) (mkPtok 40 "," 12 34 45)))); (mkFieldWithAttr (mkSpan (mkPtok 16 "char[]" 13 0 46) (mkPtok 40 "," 16 6 50)) [] (MetaField (mkSpan (mkPtok 16 "char[]" 13 0 46) (mkPtok 40 "," 16 6 50)) None (mkMetaDecl (mkSpan (mkPtok 16 "char[]" 13 0 46) (mkPtok 40 "," 16 6 50)) (TyDynamic (mkSpan (mkPtok 16 "char[]" 13 0 46) (mkPtok 16 "char[]" 13 0 46)) (mkDynamicString (mkSpan (mkPtok 16 "char[]" 13 0 46) (mkPtok 16 "char[]" 13 0 46)) (mkPtok 16 "char[]" 13 0 46))) (mkPtok 42 "x_y_z" 16 0 49) None (mkPtok 40 "," 16 6 50))))] (mkPtok 3 "}" 16 7 51))); (DPacket (mkPacketDef (mkSpan (mkPtok 35 "packet" 16 9 52) (mkPtok 3 "}" 16 24 55)) None (mkPtok 35 "packet" 16 9 52) (mkPtok 42 "Logon" 16 16 53) (mkPtok 2 "{" 16 22 54) [] (mkPtok 3 "}" 16 24 55)))])).
Eval vm_compute in ("<<<M1207>>>" ++ check (runes_of_ascii "MetaData
tag
    // `tick` ""quote"" 'q'
    { u16
    BodyLength , packetx
f32a
//
// packet A { u8 x, }
, } root packet	Packet {
    char[ 42 ]
    // c
    A //x
, } packet calculatedFrom { repeat rootA { char[ 0123456789
    ] u128,}
, }
")).
Eval vm_compute in ("<<<M1239>>>" ++ check (runes_of_ascii "// packet A { u8 x, }
packet
    Foo { }
    packet i64_ {asx @lengthOf( a1 )`two words` , repeat
i64_ {char[]u `crlf
line`,char[
    10
    // @lengthOf(
    ] metadata,
    //
    a1  {
    repeat zchar[
    1
    ] len , char[ 00 // packet A { u8 x, }
]Z9_@calculatedFrom( ""a\\"" ) // " ++ [27880; 37322]%N ++ runes_of_ascii "
,	zchar[ 7 ] Header
    @lengthOf(	x ) , repeat//
pack,// @lengthOf(
}  , // trailing space 
}
    //x
    ,  match tag as u8x { ""{,}""
    : zchar ,  1
: metadata , """ ++ [233]%N ++ runes_of_ascii "t" ++ [233]%N ++ runes_of_ascii """
    :
a1 """ ++ [233]%N ++ runes_of_ascii "t" ++ [233]%N ++ runes_of_ascii """ : chars //
,[ ""a\\""]  :crc	} ,
    tag@calculatedFrom( """ ++ [128512]%N ++ runes_of_ascii """) , }
//
")).
Eval vm_compute in ("<<<M1271>>>" ++ check (runes_of_ascii "
options {leftPad
    =
""{,}""f32a = true
trueish
    = zchar[ 007]
    ;	crc
// " ++ [27880; 37322]%N ++ runes_of_ascii "
// @lengthOf(
= ""`tick`"" ;// c
} //x
root	packet
    body { asx @lengthOf(	f32a // `tick` ""quote"" 'q'
) `` , f64 body @lengthOf(
int) , zchar[ 255] BodyLength , zchar[ 7	]
    leftPad
/// triple
// packet A { u8 x, }
`line1
line2`, @lengthOf(  asx )u128
    @lengthOf(
BodyLength )	`// not a comment`
,
    @lengthOf( As )
char[ 42	] _x
@lengthOf(  i8i8)`line1
line2` , char[ 1 //	t
]
    // a // b
    options1 @calculatedFrom(""packet"" )`say ""hi""`
, }
options
{ leftPad= 007
;
charz =false repeatCount =
    ""// no comment"" u// a // b
= 0123456789 }
")).
Eval vm_compute in ("<<<M1303>>>" ++ check (runes_of_ascii "MetaData stringy{ zchar[ 007 ] body /// triple
`tab	here` , }
")).
Eval vm_compute in ("<<<M1335>>>" ++ check (runes_of_ascii "options	{ falsey // " ++ [27880; 37322]%N ++ runes_of_ascii "
=
""\" ++ [233]%N ++ runes_of_ascii """	; lengthOf
=
0	;
    // c
    }
")).
Eval vm_compute in ("<<<M1367>>>" ++ check (runes_of_ascii "packet float{	x // " ++ [128512]%N ++ runes_of_ascii " emoji
{ u128 @calculatedFrom( ""it's"" ) `line1
line2` , } ,  match
    packetx as roots
{ """"
    :
body ,
    007 : // " ++ [128512]%N ++ runes_of_ascii " emoji
MetaDataX 7 //
:
stringy , 00: u8x,
1
    : lengthOf
    ,  } , }packet asx
{ match x
as  repeatCount
// " ++ [27880; 37322]%N ++ runes_of_ascii "
//	t
{
// packet A { u8 x, }
// a // b
0
:  float ,
    // " ++ [27880; 37322]%N ++ runes_of_ascii "
    },
    charz
    ,@tag( 0 ) @calculatedFrom( ""\" ++ [233]%N ++ runes_of_ascii """ )
    // @lengthOf(
    @lengthOf( asx ) falsey
    //
    roots
,
repeat u32	BodyLength // packet A { u8 x, }
`line1
line2`, //	t
@rightPad(
'\x00'
) repeat
zchar
{u64 x_y_z
`line1
line2` , }  , // c
@lengthOf(
i64_ )@lengthOf(Header
)
@tag(1 )u8
o	@calculatedFrom( // @lengthOf(
""\n"") `doc`, } // trailing space ")).
Eval vm_compute in ("<<<M1399>>>" ++ check (runes_of_ascii "

")).
Eval vm_compute in ("<<<T1399>>>" ++ terms [mkTok 0 "<EOF>" 3 0 false] (mkPacket (mkPtok 0 "<EOF>" 3 0 0) None [])).
Eval vm_compute in ("<<<M1431>>>" ++ check (runes_of_ascii "packet
    options1 { repeat
zchar[ 7
]
i8i8 ,_x { zchar[ 65535 ]i8i8 @lengthOf( uint8x ) ,match x_y_z as lengthOf
    { //x
[ 00// " ++ [27880; 37322]%N ++ runes_of_ascii "
, 1// " ++ [27880; 37322]%N ++ runes_of_ascii "
, 10 ,  ""\" ++ [233]%N ++ runes_of_ascii """ , 42 , 00
] : Pad, [4294967296 ] : asx
    0123456789:
x_y_z ,
}// trailing space 
, zchar[
0]float
    ,}
    , int16
    T @lengthOf( charz ) `` , }MetaData pack {int64 //	t
chars
,  }")).
Eval vm_compute in ("<<<M1463>>>" ++ check (runes_of_ascii "MetaData As { char[]calculatedFrom
,x a1 , int16 //	t
matchKey `two words` ,
    }
")).
Eval vm_compute in ("<<<M1495>>>" ++ check (runes_of_ascii "options {Foo// trailing space 
= // c
""abc"" ; }
")).
Eval vm_compute in ("<<<M1527>>>" ++ check (runes_of_ascii "packet
// " ++ [27880; 37322]%N ++ runes_of_ascii "
// packet A { u8 x, }
f32a {  zchar[ 255]A	@lengthOf(// " ++ [128512]%N ++ runes_of_ascii " emoji
calculatedFrom ) `{ , }`  , @calculatedFrom(
""it's"" )
string_ trueish `u8 x,` , } packet i64_ {
@rightPad (
' ' ) @rightPad
()	f32// " ++ [128512]%N ++ runes_of_ascii " emoji
T ,	int16
u `a\` ,
// trailing space 
//	t
string leftPad	,}
")).
Eval vm_compute in ("<<<M1559>>>" ++ check (runes_of_ascii "packet u8x{ u64 metadata`u8 x,`
,@tag( 65535
)
asx MetaDataX
    // a // b
    ,
zchar[
42 ] o
`// not a comment`	, repeat x len,
@tag( 00
) leftPad Packet `two words`,
    // `tick` ""quote"" 'q'
    } // @lengthOf(")).
Eval vm_compute in ("<<<M1591>>>" ++ check (runes_of_ascii "MetaData rootA
{//
}
")).
Eval vm_compute in ("<<<M1623>>>" ++ check (runes_of_ascii "packet
stringy
{  i8
    Foo@calculatedFrom( ""x y""
    ) ,@rightPad('0'
) @calculatedFrom( ""a\\"" )	@calculatedFrom( """")repeat a1
{// packet A { u8 x, }
uint64
    body /// triple
@calculatedFrom(""{,}""// @lengthOf(
)// a // b
, zchar[65535 ]tag `line1
line2`,
} , }root packet
    Header
    { zchar[ 4294967296 ]Foo,char[10] zchar
@lengthOf(
u128 )`it's` , @tag(3 )
    zchar[ 65535 ] // " ++ [128512]%N ++ runes_of_ascii " emoji
u@lengthOf(u )
, }
")).
Eval vm_compute in ("<<<T1623>>>" ++ terms [mkTok 35 "packet" 1 0 false; mkTok 42 "stringy" 2 0 false; mkTok 2 "{" 3 0 false; mkTok 24 "i8" 3 3 false; mkTok 42 "Foo" 4 4 false; mkTok 5 "@calculatedFrom(" 4 7 false; mkTok 31 """x y""" 4 24 false; mkTok 6 ")" 5 4 false; mkTok 40 "," 5 6 false; mkTok 32 "@rightPad" 5 7 false; mkTok 8 "(" 5 16 false; mkTok 33 "'0'" 5 17 false; mkTok 6 ")" 6 0 false; mkTok 5 "@calculatedFrom(" 6 2 false; mkTok 31 """a\\""" 6 19 false; mkTok 6 ")" 6 25 false; mkTok 5 "@calculatedFrom(" 6 27 false; mkTok 31 """""" 6 44 false; mkTok 6 ")" 6 46 false; mkTok 36 "repeat" 6 47 false; mkTok 42 "a1" 6 54 false; mkTok 2 "{" 7 0 false; mkTok 44 "// packet A { u8 x, }" 7 1 true; mkTok 23 "uint64" 8 0 false; mkTok 42 "body" 9 4 false; mkTok 44 "/// triple" 9 9 true; mkTok 5 "@calculatedFrom(" 10 0 false; mkTok 31 """{,}""" 10 16 false; mkTok 44 "// @lengthOf(" 10 21 true; mkTok 6 ")" 11 0 false; mkTok 44 "// a // b" 11 1 true; mkTok 40 "," 12 0 false; mkTok 14 "zchar[" 12 2 false; mkTok 30 "65535" 12 8 false; mkTok 13 "]" 12 14 false; mkTok 42 "tag" 12 15 false; mkTok 43 (string_of_bytes [96; 108; 105; 110; 101; 49; 10; 108; 105; 110; 101; 50; 96]%N) 12 19 false; mkTok 40 "," 13 6 false; mkTok 3 "}" 14 0 false; mkTok 40 "," 14 2 false; mkTok 3 "}" 14 4 false; mkTok 34 "root" 14 5 false; mkTok 35 "packet" 14 10 false; mkTok 42 "Header" 15 4 false; mkTok 2 "{" 16 4 false; mkTok 14 "zchar[" 16 6 false; mkTok 30 "4294967296" 16 13 false; mkTok 13 "]" 16 24 false; mkTok 42 "Foo" 16 25 false; mkTok 40 "," 16 28 false; mkTok 12 "char[" 16 29 false; mkTok 30 "10" 16 34 false; mkTok 13 "]" 16 36 false; mkTok 42 "zchar" 16 38 false; mkTok 7 "@lengthOf(" 17 0 false; mkTok 42 "u128" 18 0 false; mkTok 6 ")" 18 5 false; mkTok 43 "`it's`" 18 6 false; mkTok 40 "," 18 13 false; mkTok 9 "@tag(" 18 15 false; mkTok 30 "3" 18 20 false; mkTok 6 ")" 18 22 false; mkTok 14 "zchar[" 19 4 false; mkTok 30 "65535" 19 11 false; mkTok 13 "]" 19 17 false; mkTok 44 (string_of_bytes [47; 47; 32; 240; 159; 152; 128; 32; 101; 109; 111; 106; 105]%N) 19 19 true; mkTok 42 "u" 20 0 false; mkTok 7 "@lengthOf(" 20 1 false; mkTok 42 "u" 20 11 false; mkTok 6 ")" 20 13 false; mkTok 40 "," 21 0 false; mkTok 3 "}" 21 2 false; mkTok 0 "<EOF>" 22 0 false] (mkPacket (mkPtok 35 "packet" 1 0 0) (Some (mkPtok 3 "}" 21 2 71)) [(DPacket (mkPacketDef (mkSpan (mkPtok 35 "packet" 1 0 0) (mkPtok 3 "}" 14 4 40)) None (mkPtok 35 "packet" 1 0 0) (mkPtok 42 "stringy" 2 0 1) (mkPtok 2 "{" 3 0 2) [(mkFieldWithAttr (mkSpan (mkPtok 24 "i8" 3 3 3) (mkPtok 40 "," 5 6 8)) [] (CheckSumField (mkSpan (mkPtok 24 "i8" 3 3 3) (mkPtok 40 "," 5 6 8)) (mkChecksumFieldDecl (mkSpan (mkPtok 24 "i8" 3 3 3) (mkPtok 40 "," 5 6 8)) (Some (TyBasic (mkSpan (mkPtok 24 "i8" 3 3 3) (mkPtok 24 "i8" 3 3 3)) (mkBasicType (mkSpan (mkPtok 24 "i8" 3 3 3) (mkPtok 24 "i8" 3 3 3)) (mkPtok 24 "i8" 3 3 3)))) (mkPtok 42 "Foo" 4 4 4) (mkCalculatedFrom (mkSpan (mkPtok 5 "@calculatedFrom(" 4 7 5) (mkPtok 6 ")" 5 4 7)) (mkPtok 5 "@calculatedFrom(" 4 7 5) (mkPtok 31 """x y""" 4 24 6) (mkPtok 6 ")" 5 4 7)) None (mkPtok 40 "," 5 6 8)))); (mkFieldWithAttr (mkSpan (mkPtok 32 "@rightPad" 5 7 9) (mkPtok 40 "," 14 2 39)) [(FAPadding (mkSpan (mkPtok 32 "@rightPad" 5 7 9) (mkPtok 6 ")" 6 0 12)) (mkPaddingAttr (mkSpan (mkPtok 32 "@rightPad" 5 7 9) (mkPtok 6 ")" 6 0 12)) (mkPtok 32 "@rightPad" 5 7 9) (mkPtok 8 "(" 5 16 10) (Some (mkPtok 33 "'0'" 5 17 11)) (mkPtok 6 ")" 6 0 12))); (FACalculatedFrom (mkSpan (mkPtok 5 "@calculatedFrom(" 6 2 13) (mkPtok 6 ")" 6 25 15)) (mkCalculatedFrom (mkSpan (mkPtok 5 "@calculatedFrom(" 6 2 13) (mkPtok 6 ")" 6 25 15)) (mkPtok 5 "@calculatedFrom(" 6 2 13) (mkPtok 31 """a\\""" 6 19 14) (mkPtok 6 ")" 6 25 15))); (FACalculatedFrom (mkSpan (mkPtok 5 "@calculatedFrom(" 6 27 16) (mkPtok 6 ")" 6 46 18)) (mkCalculatedFrom (mkSpan (mkPtok 5 "@calculatedFrom(" 6 27 16) (mkPtok 6 ")" 6 46 18)) (mkPtok 5 "@calculatedFrom(" 6 27 16) (mkPtok 31 """""" 6 44 17) (mkPtok 6 ")" 6 46 18)))] (InerObjectField (mkSpan (mkPtok 36 "repeat" 6 47 19) (mkPtok 40 "," 14 2 39)) (Some (mkPtok 36 "repeat" 6 47 19)) (InerObjectDecl (mkSpan (mkPtok 42 "a1" 6 54 20) (mkPtok 3 "}" 14 0 38)) (mkPtok 42 "a1" 6 54 20) (mkPtok 2 "{" 7 0 21) [(CheckSumField (mkSpan (mkPtok 23 "uint64" 8 0 23) (mkPtok 40 "," 12 0 31)) (mkChecksumFieldDecl (mkSpan (mkPtok 23 "uint64" 8 0 23) (mkPtok 40 "," 12 0 31)) (Some (TyBasic (mkSpan (mkPtok 23 "uint64" 8 0 23) (mkPtok 23 "uint64" 8 0 23)) (mkBasicType (mkSpan (mkPtok 23 "uint64" 8 0 23) (mkPtok 23 "uint64" 8 0 23)) (mkPtok 23 "uint64" 8 0 23)))) (mkPtok 42 "body" 9 4 24) (mkCalculatedFrom (mkSpan (mkPtok 5 "@calculatedFrom(" 10 0 26) (mkPtok 6 ")" 11 0 29)) (mkPtok 5 "@calculatedFrom(" 10 0 26) (mkPtok 31 """{,}""" 10 16 27) (mkPtok 6 ")" 11 0 29)) None (mkPtok 40 "," 12 0 31))); (MetaField (mkSpan (mkPtok 14 "zchar[" 12 2 32) (mkPtok 40 "," 13 6 37)) None (mkMetaDecl (mkSpan (mkPtok 14 "zchar[" 12 2 32) (mkPtok 40 "," 13 6 37)) (TyFixed (mkSpan (mkPtok 14 "zchar[" 12 2 32) (mkPtok 13 "]" 12 14 34)) (mkFixedString (mkSpan (mkPtok 14 "zchar[" 12 2 32) (mkPtok 13 "]" 12 14 34)) (mkPtok 14 "zchar[" 12 2 32) (mkPtok 30 "65535" 12 8 33) (mkPtok 13 "]" 12 14 34))) (mkPtok 42 "tag" 12 15 35) (Some (mkPtok 43 (string_of_bytes [96; 108; 105; 110; 101; 49; 10; 108; 105; 110; 101; 50; 96]%N) 12 19 36)) (mkPtok 40 "," 13 6 37)))] (mkPtok 3 "}" 14 0 38)) (mkPtok 40 "," 14 2 39)))] (mkPtok 3 "}" 14 4 40))); (DPacket (mkPacketDef (mkSpan (mkPtok 34 "root" 14 5 41) (mkPtok 3 "}" 21 2 71)) (Some (mkPtok 34 "root" 14 5 41)) (mkPtok 35 "packet" 14 10 42) (mkPtok 42 "Header" 15 4 43) (mkPtok 2 "{" 16 4 44) [(mkFieldWithAttr (mkSpan (mkPtok 14 "zchar[" 16 6 45) (mkPtok 40 "," 16 28 49)) [] (MetaField (mkSpan (mkPtok 14 "zchar[" 16 6 45) (mkPtok 40 "," 16 28 49)) None (mkMetaDecl (mkSpan (mkPtok 14 "zchar[" 16 6 45) (mkPtok 40 "," 16 28 49)) (TyFixed (mkSpan (mkPtok 14 "zchar[" 16 6 45) (mkPtok 13 "]" 16 24 47)) (mkFixedString (mkSpan (mkPtok 14 "zchar[" 16 6 45) (mkPtok 13 "]" 16 24 47)) (mkPtok 14 "zchar[" 16 6 45) (mkPtok 30 "4294967296" 16 13 46) (mkPtok 13 "]" 16 24 47))) (mkPtok 42 "Foo" 16 25 48) None (mkPtok 40 "," 16 28 49)))); (mkFieldWithAttr (mkSpan (mkPtok 12 "char[" 16 29 50) (mkPtok 40 "," 18 13 58)) [] (LengthField (mkSpan (mkPtok 12 "char[" 16 29 50) (mkPtok 40 "," 18 13 58)) (mkLengthFieldDecl (mkSpan (mkPtok 12 "char[" 16 29 50) (mkPtok 40 "," 18 13 58)) (Some (TyFixed (mkSpan (mkPtok 12 "char[" 16 29 50) (mkPtok 13 "]" 16 36 52)) (mkFixedString (mkSpan (mkPtok 12 "char[" 16 29 50) (mkPtok 13 "]" 16 36 52)) (mkPtok 12 "char[" 16 29 50) (mkPtok 30 "10" 16 34 51) (mkPtok 13 "]" 16 36 52)))) (mkPtok 42 "zchar" 16 38 53) (mkLengthOf (mkSpan (mkPtok 7 "@lengthOf(" 17 0 54) (mkPtok 6 ")" 18 5 56)) (mkPtok 7 "@lengthOf(" 17 0 54) (mkPtok 42 "u128" 18 0 55) (mkPtok 6 ")" 18 5 56)) (Some (mkPtok 43 "`it's`" 18 6 57)) (mkPtok 40 "," 18 13 58)))); (mkFieldWithAttr (mkSpan (mkPtok 9 "@tag(" 18 15 59) (mkPtok 40 "," 21 0 70)) [(FATag (mkSpan (mkPtok 9 "@tag(" 18 15 59) (mkPtok 6 ")" 18 22 61)) (mkTagAttr (mkSpan (mkPtok 9 "@tag(" 18 15 59) (mkPtok 6 ")" 18 22 61)) (mkPtok 9 "@tag(" 18 15 59) (mkPtok 30 "3" 18 20 60) (mkPtok 6 ")" 18 22 61)))] (LengthField (mkSpan (mkPtok 14 "zchar[" 19 4 62) (mkPtok 40 "," 21 0 70)) (mkLengthFieldDecl (mkSpan (mkPtok 14 "zchar[" 19 4 62) (mkPtok 40 "," 21 0 70)) (Some (TyFixed (mkSpan (mkPtok 14 "zchar[" 19 4 62) (mkPtok 13 "]" 19 17 64)) (mkFixedString (mkSpan (mkPtok 14 "zchar[" 19 4 62) (mkPtok 13 "]" 19 17 64)) (mkPtok 14 "zchar[" 19 4 62) (mkPtok 30 "65535" 19 11 63) (mkPtok 13 "]" 19 17 64)))) (mkPtok 42 "u" 20 0 66) (mkLengthOf (mkSpan (mkPtok 7 "@lengthOf(" 20 1 67) (mkPtok 6 ")" 20 13 69)) (mkPtok 7 "@lengthOf(" 20 1 67) (mkPtok 42 "u" 20 11 68) (mkPtok 6 ")" 20 13 69)) None (mkPtok 40 "," 21 0 70))))] (mkPtok 3 "}" 21 2 71)))])).
Eval vm_compute in ("<<<M1655>>>" ++ check (runes_of_ascii "
packet A
    {
// packet A { u8 x, }
//x
} options{ } // @lengthOf(
packet u  {
@calculatedFrom(// " ++ [27880; 37322]%N ++ runes_of_ascii "
""it's"") match
/// triple
//x
packetx/// triple
as chars{	255 : Packet
[	""x y"",
""1"" ]: Z9_,
} // `tick` ""quote"" 'q'
, @rightPad (
' ' ) i8 chars , i32 calculatedFrom@lengthOf( x ) `it's`
, //
@tag( 0
)
    a1 { repeat string_  u`it's`, matchKey
    @calculatedFrom( ""1"" ), },  rootA {
    // `tick` ""quote"" 'q'
    packetx@calculatedFrom(
""a\""b""
    )
`crlf
line`
,
string// " ++ [128512]%N ++ runes_of_ascii " emoji
float ,  u128
    _x
,// trailing space 
u64 zchar ,  } , @leftPad ( '\x00') @lengthOf( leftPad )
// a // b
// `tick` ""quote"" 'q'
a1
@calculatedFrom(
    ""a\""b"" )`doc` ,}packet lengthOf{ @calculatedFrom(	""packet""
) char[] tag , char[ 42] tag
    @calculatedFrom( ""a\\""  ) , repeat options1{ As {uint32 u @calculatedFrom(
    """ ++ [233]%N ++ runes_of_ascii "t" ++ [233]%N ++ runes_of_ascii """ ) , },  trueish stringy ,	repeat	asx
{ i64_ Foo
`" ++ [28040; 24687; 31867; 22411]%N ++ runes_of_ascii "` ,
}
    , } ,// trailing space 
float64 a1 @lengthOf( msg_type )//
, //
MetaDataX string_ , }
MetaData Header //	t
{pack x_y_z, } // c")).
Eval vm_compute in ("<<<M1687>>>" ++ check (runes_of_ascii "
")).
Eval vm_compute in ("<<<M1719>>>" ++ check (runes_of_ascii "
MetaData u128
    { }
    // a // b
    packet
options1 { @rightPad
    (// trailing space 
)
@leftPad ( ) match As as tag
    {	""{,}""
    // c
    :a1  , }
, string
body @calculatedFrom( ""it's"" ) `tab	here`, @calculatedFrom( ""\" ++ [233]%N ++ runes_of_ascii """ ) //x
@lengthOf( body )@lengthOf(	options1
) f64  u8x , }
//	t
// trailing space 
root
    packet roots{@lengthOf( packetx )u16 As @calculatedFrom(
    """ ++ [128512]%N ++ runes_of_ascii """ ), char[
    007 ]
    tag /// triple
, float , }
")).
Eval vm_compute in ("<<<M1751>>>" ++ check (runes_of_ascii "// a // b
packet
float
    { }")).
Eval vm_compute in ("<<<M1783>>>" ++ check (runes_of_ascii "

")).
Eval vm_compute in ("<<<M1815>>>" ++ check (runes_of_ascii "root packet metadata
    // a // b
    { repeat
char[]	crc `" ++ [233]%N ++ runes_of_ascii "` ,i8 crc , // c
@calculatedFrom(/// triple
""a\""b"" ) _x
{
    //	t
    crc
uint8x, Logon repeatCount
    , }  ,
@tag( 3 )
    repeat
    float64 len`tab	here`	,} packet crc {
f32a Z9_
    `it's`,@calculatedFrom(
""a	b"" )
    i64
x_y_z @calculatedFrom( ""\" ++ [233]%N ++ runes_of_ascii """ ) ,
i16 x_y_z `say ""hi""` ,
} packet Header
    {// " ++ [27880; 37322]%N ++ runes_of_ascii "
u _x //	t
`it's`
,
@rightPad
    // " ++ [27880; 37322]%N ++ runes_of_ascii "
    ('0' ) uint64 packetx	`doc` , }")).
Eval vm_compute in ("<<<M1847>>>" ++ check (runes_of_ascii "// trailing space 
MetaData msg_type // `tick` ""quote"" 'q'
{ body	crc`two words` , }
    packet  stringy {match x_y_z as rootA// trailing space 
{0 : string_ [ """ ++ [233]%N ++ runes_of_ascii "t" ++ [233]%N ++ runes_of_ascii """ , ""x y""
    // c
    ,
""\" ++ [233]%N ++ runes_of_ascii """	, ""// no comment"" ] // trailing space 
:
    x_y_z ,// packet A { u8 x, }
[ 1  ,
    255 // trailing space 
,
    /// triple
    """ ++ [128512]%N ++ runes_of_ascii """,
""x y"" ] :a1
    ""// no comment""
:
    MetaDataX 42 :calculatedFrom ,
0123456789: BodyLength } , }
options  { body	=char[]} MetaData len
    //
    { Pad BodyLength  , // @lengthOf(
Foo trueish`` , i64_	T `a\` ,  zchar[ 007 ]// a // b
T
    `line1
line2` ,	zchar[
007 ]i64_
`// not a comment` ,
} // packet A { u8 x, }")).
Eval vm_compute in ("<<<T1847>>>" ++ terms [mkTok 44 "// trailing space " 1 0 true; mkTok 37 "MetaData" 2 0 false; mkTok 42 "msg_type" 2 9 false; mkTok 44 "// `tick` ""quote"" 'q'" 2 18 true; mkTok 2 "{" 3 0 false; mkTok 42 "body" 3 2 false; mkTok 42 "crc" 3 7 false; mkTok 43 "`two words`" 3 10 false; mkTok 40 "," 3 22 false; mkTok 3 "}" 3 24 false; mkTok 35 "packet" 4 4 false; mkTok 42 "stringy" 4 12 false; mkTok 2 "{" 4 20 false; mkTok 38 "match" 4 21 false; mkTok 42 "x_y_z" 4 27 false; mkTok 17 "as" 4 33 false; mkTok 42 "rootA" 4 36 false; mkTok 44 "// trailing space " 4 41 true; mkTok 2 "{" 5 0 false; mkTok 30 "0" 5 1 false; mkTok 39 ":" 5 3 false; mkTok 42 "string_" 5 5 false; mkTok 18 "[" 5 13 false; mkTok 31 (string_of_bytes [34; 195; 169; 116; 195; 169; 34]%N) 5 15 false; mkTok 40 "," 5 21 false; mkTok 31 """x y""" 5 23 false; mkTok 44 "// c" 6 4 true; mkTok 40 "," 7 4 false; mkTok 31 (string_of_bytes [34; 92; 195; 169; 34]%N) 8 0 false; mkTok 40 "," 8 5 false; mkTok 31 """// no comment""" 8 7 false; mkTok 13 "]" 8 23 false; mkTok 44 "// trailing space " 8 25 true; mkTok 39 ":" 9 0 false; mkTok 42 "x_y_z" 10 4 false; mkTok 40 "," 10 10 false; mkTok 44 "// packet A { u8 x, }" 10 11 true; mkTok 18 "[" 11 0 false; mkTok 30 "1" 11 2 false; mkTok 40 "," 11 5 false; mkTok 30 "255" 12 4 false; mkTok 44 "// trailing space " 12 8 true; mkTok 40 "," 13 0 false; mkTok 44 "/// triple" 14 4 true; mkTok 31 (string_of_bytes [34; 240; 159; 152; 128; 34]%N) 15 4 false; mkTok 40 "," 15 7 false; mkTok 31 """x y""" 16 0 false; mkTok 13 "]" 16 6 false; mkTok 39 ":" 16 8 false; mkTok 42 "a1" 16 9 false; mkTok 31 """// no comment""" 17 4 false; mkTok 39 ":" 18 0 false; mkTok 42 "MetaDataX" 19 4 false; mkTok 30 "42" 19 14 false; mkTok 39 ":" 19 17 false; mkTok 42 "calculatedFrom" 19 18 false; mkTok 40 "," 19 33 false; mkTok 30 "0123456789" 20 0 false; mkTok 39 ":" 20 10 false; mkTok 42 "BodyLength" 20 12 false; mkTok 3 "}" 20 23 false; mkTok 40 "," 20 25 false; mkTok 3 "}" 20 27 false; mkTok 1 "options" 21 0 false; mkTok 2 "{" 21 9 false; mkTok 42 "body" 21 11 false; mkTok 4 "=" 21 16 false; mkTok 16 "char[]" 21 17 false; mkTok 3 "}" 21 23 false; mkTok 37 "MetaData" 21 25 false; mkTok 42 "len" 21 34 false; mkTok 44 "//" 22 4 true; mkTok 2 "{" 23 4 false; mkTok 42 "Pad" 23 6 false; mkTok 42 "BodyLength" 23 10 false; mkTok 40 "," 23 22 false; mkTok 44 "// @lengthOf(" 23 24 true; mkTok 42 "Foo" 24 0 false; mkTok 42 "trueish" 24 4 false; mkTok 43 "``" 24 11 false; mkTok 40 "," 24 14 false; mkTok 42 "i64_" 24 16 false; mkTok 42 "T" 24 21 false; mkTok 43 "`a\`" 24 23 false; mkTok 40 "," 24 28 false; mkTok 14 "zchar[" 24 31 false; mkTok 30 "007" 24 38 false; mkTok 13 "]" 24 42 false; mkTok 44 "// a // b" 24 43 true; mkTok 42 "T" 25 0 false; mkTok 43 (string_of_bytes [96; 108; 105; 110; 101; 49; 10; 108; 105; 110; 101; 50; 96]%N) 26 4 false; mkTok 40 "," 27 7 false; mkTok 14 "zchar[" 27 9 false; mkTok 30 "007" 28 0 false; mkTok 13 "]" 28 4 false; mkTok 42 "i64_" 28 5 false; mkTok 43 "`// not a comment`" 29 0 false; mkTok 40 "," 29 19 false; mkTok 3 "}" 30 0 false; mkTok 44 "// packet A { u8 x, }" 30 2 true; mkTok 0 "<EOF>" 30 23 false] (mkPacket (mkPtok 37 "MetaData" 2 0 1) (Some (mkPtok 3 "}" 30 0 98)) [(DMeta (mkMetaDef (mkSpan (mkPtok 37 "MetaData" 2 0 1) (mkPtok 3 "}" 3 24 9)) (mkPtok 37 "MetaData" 2 0 1) (mkPtok 42 "msg_type" 2 9 2) (mkPtok 2 "{" 3 0 4) [(MIRef (mkRefMetaDecl (mkSpan (mkPtok 42 "body" 3 2 5) (mkPtok 40 "," 3 22 8)) (mkPtok 42 "body" 3 2 5) (mkPtok 42 "crc" 3 7 6) (Some (mkPtok 43 "`two words`" 3 10 7)) (mkPtok 40 "," 3 22 8)))] (mkPtok 3 "}" 3 24 9))); (DPacket (mkPacketDef (mkSpan (mkPtok 35 "packet" 4 4 10) (mkPtok 3 "}" 20 27 62)) None (mkPtok 35 "packet" 4 4 10) (mkPtok 42 "stringy" 4 12 11) (mkPtok 2 "{" 4 20 12) [(mkFieldWithAttr (mkSpan (mkPtok 38 "match" 4 21 13) (mkPtok 40 "," 20 25 61)) [] (MatchField (mkSpan (mkPtok 38 "match" 4 21 13) (mkPtok 40 "," 20 25 61)) (mkMatchFieldDecl (mkSpan (mkPtok 38 "match" 4 21 13) (mkPtok 3 "}" 20 23 60)) (mkPtok 38 "match" 4 21 13) (mkPtok 42 "x_y_z" 4 27 14) (mkPtok 17 "as" 4 33 15) (mkPtok 42 "rootA" 4 36 16) (mkPtok 2 "{" 5 0 18) [(mkMatchPair (mkSpan (mkPtok 30 "0" 5 1 19) (mkPtok 42 "string_" 5 5 21)) (MKDigits (mkPtok 30 "0" 5 1 19)) (mkPtok 39 ":" 5 3 20) (mkPtok 42 "string_" 5 5 21) None); (mkMatchPair (mkSpan (mkPtok 18 "[" 5 13 22) (mkPtok 40 "," 10 10 35)) (MKList (mkKeyList (mkSpan (mkPtok 18 "[" 5 13 22) (mkPtok 13 "]" 8 23 31)) (mkPtok 18 "[" 5 13 22) (mkPtok 31 (string_of_bytes [34; 195; 169; 116; 195; 169; 34]%N) 5 15 23) [((mkPtok 40 "," 5 21 24), (mkPtok 31 """x y""" 5 23 25)); ((mkPtok 40 "," 7 4 27), (mkPtok 31 (string_of_bytes [34; 92; 195; 169; 34]%N) 8 0 28)); ((mkPtok 40 "," 8 5 29), (mkPtok 31 """// no comment""" 8 7 30))] (mkPtok 13 "]" 8 23 31))) (mkPtok 39 ":" 9 0 33) (mkPtok 42 "x_y_z" 10 4 34) (Some (mkPtok 40 "," 10 10 35))); (mkMatchPair (mkSpan (mkPtok 18 "[" 11 0 37) (mkPtok 42 "a1" 16 9 49)) (MKList (mkKeyList (mkSpan (mkPtok 18 "[" 11 0 37) (mkPtok 13 "]" 16 6 47)) (mkPtok 18 "[" 11 0 37) (mkPtok 30 "1" 11 2 38) [((mkPtok 40 "," 11 5 39), (mkPtok 30 "255" 12 4 40)); ((mkPtok 40 "," 13 0 42), (mkPtok 31 (string_of_bytes [34; 240; 159; 152; 128; 34]%N) 15 4 44)); ((mkPtok 40 "," 15 7 45), (mkPtok 31 """x y""" 16 0 46))] (mkPtok 13 "]" 16 6 47))) (mkPtok 39 ":" 16 8 48) (mkPtok 42 "a1" 16 9 49) None); (mkMatchPair (mkSpan (mkPtok 31 """// no comment""" 17 4 50) (mkPtok 42 "MetaDataX" 19 4 52)) (MKString (mkPtok 31 """// no comment""" 17 4 50)) (mkPtok 39 ":" 18 0 51) (mkPtok 42 "MetaDataX" 19 4 52) None); (mkMatchPair (mkSpan (mkPtok 30 "42" 19 14 53) (mkPtok 40 "," 19 33 56)) (MKDigits (mkPtok 30 "42" 19 14 53)) (mkPtok 39 ":" 19 17 54) (mkPtok 42 "calculatedFrom" 19 18 55) (Some (mkPtok 40 "," 19 33 56))); (mkMatchPair (mkSpan (mkPtok 30 "0123456789" 20 0 57) (mkPtok 42 "BodyLength" 20 12 59)) (MKDigits (mkPtok 30 "0123456789" 20 0 57)) (mkPtok 39 ":" 20 10 58) (mkPtok 42 "BodyLength" 20 12 59) None)] (mkPtok 3 "}" 20 23 60)) (mkPtok 40 "," 20 25 61)))] (mkPtok 3 "}" 20 27 62))); (DOption (mkOptionDef (mkSpan (mkPtok 1 "options" 21 0 63) (mkPtok 3 "}" 21 23 68)) (mkPtok 1 "options" 21 0 63) (mkPtok 2 "{" 21 9 64) [(mkOptionDecl (mkSpan (mkPtok 42 "body" 21 11 65) (mkPtok 16 "char[]" 21 17 67)) (mkPtok 42 "body" 21 11 65) (mkPtok 4 "=" 21 16 66) (VType (mkSpan (mkPtok 16 "char[]" 21 17 67) (mkPtok 16 "char[]" 21 17 67)) (TyDynamic (mkSpan (mkPtok 16 "char[]" 21 17 67) (mkPtok 16 "char[]" 21 17 67)) (mkDynamicString (mkSpan (mkPtok 16 "char[]" 21 17 67) (mkPtok 16 "char[]" 21 17 67)) (mkPtok 16 "char[]" 21 17 67)))) None)] (mkPtok 3 "}" 21 23 68))); (DMeta (mkMetaDef (mkSpan (mkPtok 37 "MetaData" 21 25 69) (mkPtok 3 "}" 30 0 98)) (mkPtok 37 "MetaData" 21 25 69) (mkPtok 42 "len" 21 34 70) (mkPtok 2 "{" 23 4 72) [(MIRef (mkRefMetaDecl (mkSpan (mkPtok 42 "Pad" 23 6 73) (mkPtok 40 "," 23 22 75)) (mkPtok 42 "Pad" 23 6 73) (mkPtok 42 "BodyLength" 23 10 74) None (mkPtok 40 "," 23 22 75))); (MIRef (mkRefMetaDecl (mkSpan (mkPtok 42 "Foo" 24 0 77) (mkPtok 40 "," 24 14 80)) (mkPtok 42 "Foo" 24 0 77) (mkPtok 42 "trueish" 24 4 78) (Some (mkPtok 43 "``" 24 11 79)) (mkPtok 40 "," 24 14 80))); (MIRef (mkRefMetaDecl (mkSpan (mkPtok 42 "i64_" 24 16 81) (mkPtok 40 "," 24 28 84)) (mkPtok 42 "i64_" 24 16 81) (mkPtok 42 "T" 24 21 82) (Some (mkPtok 43 "`a\`" 24 23 83)) (mkPtok 40 "," 24 28 84))); (MIDecl (mkMetaDecl (mkSpan (mkPtok 14 "zchar[" 24 31 85) (mkPtok 40 "," 27 7 91)) (TyFixed (mkSpan (mkPtok 14 "zchar[" 24 31 85) (mkPtok 13 "]" 24 42 87)) (mkFixedString (mkSpan (mkPtok 14 "zchar[" 24 31 85) (mkPtok 13 "]" 24 42 87)) (mkPtok 14 "zchar[" 24 31 85) (mkPtok 30 "007" 24 38 86) (mkPtok 13 "]" 24 42 87))) (mkPtok 42 "T" 25 0 89) (Some (mkPtok 43 (string_of_bytes [96; 108; 105; 110; 101; 49; 10; 108; 105; 110; 101; 50; 96]%N) 26 4 90)) (mkPtok 40 "," 27 7 91))); (MIDecl (mkMetaDecl (mkSpan (mkPtok 14 "zchar[" 27 9 92) (mkPtok 40 "," 29 19 97)) (TyFixed (mkSpan (mkPtok 14 "zchar[" 27 9 92) (mkPtok 13 "]" 28 4 94)) (mkFixedString (mkSpan (mkPtok 14 "zchar[" 27 9 92) (mkPtok 13 "]" 28 4 94)) (mkPtok 14 "zchar[" 27 9 92) (mkPtok 30 "007" 28 0 93) (mkPtok 13 "]" 28 4 94))) (mkPtok 42 "i64_" 28 5 95) (Some (mkPtok 43 "`// not a comment`" 29 0 96)) (mkPtok 40 "," 29 19 97)))] (mkPtok 3 "}" 30 0 98)))])).
Eval vm_compute in ("<<<M1879>>>" ++ check (runes_of_ascii "MetaData options1 {
uint8x Logon
`u8 x,`
//x
//
, } packet pack
// @lengthOf(
// " ++ [27880; 37322]%N ++ runes_of_ascii "
{	Header
`{ , }` ,
@lengthOf( a1 ) int32 u8x @calculatedFrom( ""CRC32"" ) , falsey {len i64_,} //	t
,
@calculatedFrom( ""\n""
    )leftPad
{
    // `tick` ""quote"" 'q'
    repeat
    u`` ,} //	t
, @tag( 007 )
char[]  roots @calculatedFrom( ""{,}""  ) ,
char[]  u
    @calculatedFrom(""a\\"" ) `" ++ [28040; 24687; 31867; 22411]%N ++ runes_of_ascii "` ,
    }
")).
Eval vm_compute in ("<<<M1911>>>" ++ check (runes_of_ascii "root  packet repeatCount { @leftPad
    ( '0' ) crc i8i8 //	t
`say ""hi""` ,
    }root packet x_y_z { @leftPad
(
' ' ) //x
float
`` ,
    @rightPad (
    '0' )  len
    @calculatedFrom( """ ++ [233]%N ++ runes_of_ascii "t" ++ [233]%N ++ runes_of_ascii """ )
    , } packet
    rootA
{ repeat x_y_z metadata `
` , string_ , } 	 ")).
Eval vm_compute in ("<<<M1943>>>" ++ check (runes_of_ascii "packet  len { i16 u8x ,	} MetaData Header { // @lengthOf(
zchar[  4294967296
    ]  string_ ,
int16 zchar,
float32 Header ,
    x
metadata
`it's` , tag x_y_z ,} root
    // `tick` ""quote"" 'q'
    packet As{asx  @calculatedFrom(
    // packet A { u8 x, }
    ""`tick`""  )
    `" ++ [233]%N ++ runes_of_ascii "`
, }root
packet A {repeat u8x ,
    @leftPad ( ) uint64 uint8x , uint8 falsey @calculatedFrom(  ""\" ++ [233]%N ++ runes_of_ascii """ ) `two words` , // a // b
@lengthOf(
//	t
// c
u8x
    ) i64 As	@lengthOf(
    // packet A { u8 x, }
    a1 ), }MetaData// a // b
tag {string lengthOf `
` , }")).
Eval vm_compute in ("<<<M1975>>>" ++ check (runes_of_ascii "packet zchar {
@calculatedFrom( ""packet""
) uint8 body `a\`
    // `tick` ""quote"" 'q'
    , @tag( 0123456789
)
    @lengthOf( a1 //x
) repeat uint8 float , repeat zchar[ 4294967296
] BodyLength`" ++ [233]%N ++ runes_of_ascii "` // " ++ [27880; 37322]%N ++ runes_of_ascii "
, repeat// " ++ [128512]%N ++ runes_of_ascii " emoji
i8 chars ,
    @lengthOf(
packetx // a // b
) repeat string T , }")).
Eval vm_compute in ("<<<M2007>>>" ++ check (runes_of_ascii "root packet SimpleMessage {
    uint16 MsgType `" ++ [28040; 24687; 31867; 22411]%N ++ runes_of_ascii "`,
    string JsonBody `Json" ++ [23383; 31526; 20018; 28040; 24687; 20307]%N ++ runes_of_ascii "`,
}")).
Eval vm_compute in ("<<<M2039>>>" ++ check (runes_of_ascii "options{ i64_ = string ;  =
    '\x00'
    leftPad = ""a\\"" /// triple
; crc
    = 255; uint8x
=
""abc""
    ;}")).
Eval vm_compute in ("<<<M2071>>>" ++ check (runes_of_ascii "options{ i64_ = string ; trueish =
    '\x00'
    leftPad = ""a\\"" /// triple
crc ;
    = 255; uint8x
=
""abc""
    ;}")).
Eval vm_compute in ("<<<M2103>>>" ++ check (runes_of_ascii "options{ i64_ = string ; trueish =
    '\x00'
    leftPad = ""a\\"" /// triple
; crc
    = 255; uint8x")).
Eval vm_compute in ("<<<M2135>>>" ++ check (runes_of_ascii "options{ i64_ = string ; trueish =
    '\x00'
    leftPad = ""a\\"" /// triple
; crc
    = 255$; uint8x
=
""abc""
    ;}")).
Eval vm_compute in ("<<<M2167>>>" ++ check (runes_of_ascii "  packet
asx
{
/// triple
// @lengthOf(
u32 stringy
, `" ++ [28040; 24687; 31867; 22411]%N ++ runes_of_ascii "`} MetaData
    A {string  _x, zchar Header `a\`
// @lengthOf(
// packet A { u8 x, }
, char[] MetaDataX
,zchar[ 1 ]
    matchKey
    , char[] //
u,	char[0123456789 ]
    matchKey
    `{ , }`, }
")).
Eval vm_compute in ("<<<M2199>>>" ++ check (runes_of_ascii "  packet
asx
{
/// triple
// @lengthOf(
u32 stringy
`" ++ [28040; 24687; 31867; 22411]%N ++ runes_of_ascii "` ,} MetaData
    A {")).
Eval vm_compute in ("<<<M2231>>>" ++ check (runes_of_ascii "  packet
asx
{
/// triple
// @lengthOf(
u32 stringy
`" ++ [28040; 24687; 31867; 22411]%N ++ runes_of_ascii "` ,} MetaData
    A {string  _x, zchar Header `a\`
// @lengthOf(
// packet A { u8 x, }
, char[] char[] MetaDataX
,zchar[ 1 ]
    matchKey
    , char[] //
u,	char[0123456789 ]
    matchKey
    `{ , }`, }
")).
Eval vm_compute in ("<<<M2263>>>" ++ check (runes_of_ascii "  packet
asx
{
/// triple
// @lengthOf(
u32 stringy
`" ++ [28040; 24687; 31867; 22411]%N ++ runes_of_ascii "` ,} MetaData
    A {string  _x, zchar Header `a\`
// @lengthOf(
// packet A { u8 x, }
, char[] MetaDataX
,zchar[ 1 ]
    true
    , char[] //
u,	char[0123456789 ]
    matchKey
    `{ , }`, }
")).
Eval vm_compute in ("<<<M2295>>>" ++ check (runes_of_ascii "  packet
asx
{
/// triple
// @lengthOf(
u32 stringy
`" ++ [28040; 24687; 31867; 22411]%N ++ runes_of_ascii "` ,} MetaData
    A {string  _x, zchar Header `a\`
// @lengthOf(
// packet A { u8 x, }
, char[] MetaDataX
,zchar[ 1 ]
    matchKey
    , char[] //
u,	char[0123456789 
    matchKey
    `{ , }`, }
")).
Eval vm_compute in ("<<<M2327>>>" ++ check (runes_of_ascii "  packet
asx
{
/// triple
// @lengthOf(
u32 stringy
`" ++ [28040; 24687; 31867; 22411]%N ++ runes_of_ascii "` ,} MetaData
    A {string  _x, zchar Header `a\`
// @lengthOf(
// packet A { u8 x, ''}
, char[] MetaDataX
,zchar[ 1 ]
    matchKey
    , char[] //
u,	char[0123456789 ]
    matchKey
    `{ , }`, }
")).
Eval vm_compute in ("<<<M2359>>>" ++ check (runes_of_ascii "root
    packet
Packet
[ // trailing space 
matchKey `tab	here` ,}")).
Eval vm_compute in ("<<<M2391>>>" ++ check (runes_of_ascii "root
    packet
Packet
{ // trailing space 
matchKey `tab	here` ,#}")).
Eval vm_compute in ("<<<M2423>>>" ++ check (runes_of_ascii "options{ falsey // a // b
=
    '0' '0' } options { repeatCount =
true ; string_// a // b
=
// c
// " ++ [27880; 37322]%N ++ runes_of_ascii "
int64
// trailing space 
/// triple
; } // @lengthOf(")).
Eval vm_compute in ("<<<M2455>>>" ++ check (runes_of_ascii "options{ falsey // a // b
=
    '0' } options { repeatCount =
""packet"" ; string_// a // b
=
// c
// " ++ [27880; 37322]%N ++ runes_of_ascii "
int64
// trailing space 
/// triple
; } // @lengthOf(")).
Eval vm_compute in ("<<<M2487>>>" ++ check (runes_of_ascii "options{ falsey // a // b
=
    '0' } options { repeatCount =
true ; string_// a // b
=
// c
// " ++ [27880; 37322]%N ++ runes_of_ascii "
int64
// trailing space 
/// tripl")).
Eval vm_compute in ("<<<M2519>>>" ++ check (runes_of_ascii "options{} }root packet
metadata {
@lengthOf(x ) float32
body ``, }
    MetaData
Z9_
    {
    string string_ , Logon x
,
uint32
    // packet A { u8 x, }
    Z9_,asx
_x
    `tab	here` , }
")).
Eval vm_compute in ("<<<M2551>>>" ++ check (runes_of_ascii "options{}root packet
metadata {
@lengthOf(char[] ) float32
body ``, }
    MetaData
Z9_
    {
    string string_ , Logon x
,
uint32
    // packet A { u8 x, }
    Z9_,asx
_x
    `tab	here` , }
")).
Eval vm_compute in ("<<<M2583>>>" ++ check (runes_of_ascii "options{}root packet
metadata {
@lengthOf(x ) float32
body ``, }
    
Z9_
    {
    string string_ , Logon x
,
uint32
    // packet A { u8 x, }
    Z9_,asx
_x
    `tab	here` , }
")).
Eval vm_compute in ("<<<M2615>>>" ++ check (runes_of_ascii "options{}root packet
metadata {
@lengthOf(x ) float32
body ``, }
    MetaData
Z9_
    {
    string string_ , x Logon
,
uint32
    // packet A { u8 x, }
    Z9_,asx
_x
    `tab	here` , }
")).
Eval vm_compute in ("<<<M2647>>>" ++ check (runes_of_ascii "options{}root packet
metadata {
@lengthOf(x ) float32
body ``, }
    MetaData
Z9_
    {
    string string_ , Logon x
,
uint32
    // packet A { u8 x, }
    Z9_,")).
Eval vm_compute in ("<<<M2679>>>" ++ check (runes_of_ascii "options{}root packet
metad`ata {
@lengthOf(x ) float32
body ``, }
    MetaData
Z9_
    {
    string string_ , Logon x
,
uint32
    // packet A { u8 x, }
    Z9_,asx
_x
    `tab	here` , }
")).
Eval vm_compute in ("<<<M2711>>>" ++ check (runes_of_ascii "options {
    falsey=
; ""a\\"" }")).
Eval vm_compute in ("<<<M2743>>>" ++ check (runes_of_ascii "options {
    x" ++ [178]%N ++ runes_of_ascii "=
""a\\"" ; }")).
Eval vm_compute in ("<<<M2775>>>" ++ check (runes_of_ascii "MetaData f32a
{
    //	t
    }root
    packet   {
}
")).
Eval vm_compute in ("<<<M2807>>>" ++ check (runes_of_ascii "MetaDa'1'ta f32a
{
    //	t
    }root
    packet tag  {
}
")).
Eval vm_compute in ("<<<M2839>>>" ++ check (runes_of_ascii "
options
    {msg_type =
    float32  char[]root
packet Z9_{ char /// triple
crc @lengthOf(
options1 ) //
,} MetaData a1{}
")).
Eval vm_compute in ("<<<M2871>>>" ++ check (runes_of_ascii "
options
    {msg_type =
    float32  }root
packet Z9_{ char /// triple
crc 
options1 ) //
,} MetaData a1{}
")).
Eval vm_compute in ("<<<M2903>>>" ++ check (runes_of_ascii "
options
    {msg_type =
    float32  }root
packet Z9_{ char /// triple
crc @lengthOf(
options1 ) //
,} MetaData {a1}
")).
Eval vm_compute in ("<<<M2935>>>" ++ check (runes_of_ascii "
options
    {msg_type =
    float32  }root
packet Z9_{ char /// triple
crc @lengthOf(
a" ++ [769]%N ++ runes_of_ascii "b ) //
,} MetaData a1{}
")).
Eval vm_compute in ("<<<M2967>>>" ++ check (runes_of_ascii "packet crc{ // " ++ [128512]%N ++ runes_of_ascii " emoji
repeat string i8i8
, }
")).
Eval vm_compute in ("<<<M2999>>>" ++ check (runes_of_ascii "packet crc{ // " ++ [128512]%N ++ runes_of_ascii " emoji
repeat string i8i8|
`a\`, }
")).
Eval vm_compute in ("<<<M3031>>>" ++ check (runes_of_ascii "packet BodyLength {} MetaData u16{ zchar[// @lengthOf(
42 ]
    pack , string_
A , char[]crc , _x trueish ,
// " ++ [27880; 37322]%N ++ runes_of_ascii "
// " ++ [128512]%N ++ runes_of_ascii " emoji
zchar[
    3 ]	T // trailing space 
, } packet body
{
    }
")).
Eval vm_compute in ("<<<M3063>>>" ++ check (runes_of_ascii "packet BodyLength {} MetaData zchar{ zchar[// @lengthOf(
42 ]
    pack , 
A , char[]crc , _x trueish ,
// " ++ [27880; 37322]%N ++ runes_of_ascii "
// " ++ [128512]%N ++ runes_of_ascii " emoji
zchar[
    3 ]	T // trailing space 
, } packet body
{
    }
")).
Eval vm_compute in ("<<<M3095>>>" ++ check (runes_of_ascii "packet BodyLength {} MetaData zchar{ zchar[// @lengthOf(
42 ]
    pack , string_
A , char[]crc , trueish _x ,
// " ++ [27880; 37322]%N ++ runes_of_ascii "
// " ++ [128512]%N ++ runes_of_ascii " emoji
zchar[
    3 ]	T // trailing space 
, } packet body
{
    }
")).
Eval vm_compute in ("<<<M3127>>>" ++ check (runes_of_ascii "packet BodyLength {} MetaData zchar{ zchar[// @lengthOf(
42 ]
    pack , string_
A , char[]crc , _x trueish ,
// " ++ [27880; 37322]%N ++ runes_of_ascii "
// " ++ [128512]%N ++ runes_of_ascii " emoji
zchar[
    3 ]")).
Eval vm_compute in ("<<<M3159>>>" ++ check (runes_of_ascii "packet BodyLength {} MetaData zchar{ zchar[// @lengthOf(
42 ]
 ")).
Eval vm_compute in ("<<<M3191>>>" ++ check (runes_of_ascii "packet
string_ @lengthOf({ int ) match packetx as f32a {
    1 :	calculatedFrom , }  ,
    } packet len
    //	t
    { @calculatedFrom( """ ++ [233]%N ++ runes_of_ascii "t" ++ [233]%N ++ runes_of_ascii """ ) body Header , char[] lengthOf  `two words` ,chars{repeat string_ matchKey ,
    } ,
    }
")).
Eval vm_compute in ("<<<M3223>>>" ++ check (runes_of_ascii "packet
string_ {@lengthOf( int ) match packetx")).
Eval vm_compute in ("<<<M3255>>>" ++ check (runes_of_ascii "packet
string_ {@lengthOf( int ) match packetx as f32a {
    1 :	calculatedFrom , } }  ,
    } packet len
    //	t
    { @calculatedFrom( """ ++ [233]%N ++ runes_of_ascii "t" ++ [233]%N ++ runes_of_ascii """ ) body Header , char[] lengthOf  `two words` ,chars{repeat string_ matchKey ,
    } ,
    }
")).
Eval vm_compute in ("<<<M3287>>>" ++ check (runes_of_ascii "packet
string_ {@lengthOf( int ) match packetx as f32a {
    1 :	calculatedFrom , }  ,
    } packet len
    //	t
    { { """ ++ [233]%N ++ runes_of_ascii "t" ++ [233]%N ++ runes_of_ascii """ ) body Header , char[] lengthOf  `two words` ,chars{repeat string_ matchKey ,
    } ,
    }
")).
Eval vm_compute in ("<<<M3319>>>" ++ check (runes_of_ascii "packet
string_ {@lengthOf( int ) match packetx as f32a {
    1 :	calculatedFrom , }  ,
    } packet len
    //	t
    { @calculatedFrom( """ ++ [233]%N ++ runes_of_ascii "t" ++ [233]%N ++ runes_of_ascii """ ) body Header , char[]   `two words` ,chars{repeat string_ matchKey ,
    } ,
    }
")).
Eval vm_compute in ("<<<M3351>>>" ++ check (runes_of_ascii "packet
string_ {@lengthOf( int ) match packetx as f32a {
    1 :	calculatedFrom , }  ,
    } packet len
    //	t
    { @calculatedFrom( """ ++ [233]%N ++ runes_of_ascii "t" ++ [233]%N ++ runes_of_ascii """ ) body Header , char[] lengthOf  `two words` ,chars{repeat matchKey string_ ,
    } ,
    }
")).
Eval vm_compute in ("<<<M3383>>>" ++ check (runes_of_ascii "packet
string_ {@lengthOf( int ) match packetx as f32a {
    1 :	calculatedFrom , }  ,
    ''} packet len
    //	t
    { @calculatedFrom( """ ++ [233]%N ++ runes_of_ascii "t" ++ [233]%N ++ runes_of_ascii """ ) body Header , char[] lengthOf  `two words` ,chars{repeat string_ matchKey ,
    } ,
    }
")).
Eval vm_compute in ("<<<M3415>>>" ++ check (runes_of_ascii "/// triple
root
packet packet // packet A { u8 x, }
chars { @lengthOf(charz )
stringy,  @tag(  0 ) // a // b
asx
    As
,
// trailing space 
// trailing space 
x_y_z {
repeat i16 charz , } ,	int16  crc ,}
")).
Eval vm_compute in ("<<<M3447>>>" ++ check (runes_of_ascii "/// triple
root
packet // packet A { u8 x, }
chars { @lengthOf(charz")).
Eval vm_compute in ("<<<M3479>>>" ++ check (runes_of_ascii "/// triple
root
packet // packet A { u8 x, }
chars { @lengthOf(charz )
stringy,  @tag(  0 ) // a // b
asx
    As
,
// trailing space 
// trailing space 
x_y_z {
repeat i16 charz , } ,	int16")).
Eval vm_compute in ("<<<M3511>>>" ++ check (runes_of_ascii "true")).
Eval vm_compute in ("<<<M3543>>>" ++ check (runes_of_ascii "'")).
Eval vm_compute in ("<<<M3575>>>" ++ check (runes_of_ascii """a\")).
Eval vm_compute in ("<<<M3607>>>" ++ check (runes_of_ascii ":,;=()[]{}")).
Eval vm_compute in ("<<<M3639>>>" ++ check (runes_of_ascii "packet A { x y z, }")).
Eval vm_compute in ("<<<M3671>>>" ++ check (runes_of_ascii "packet A { match k as n { 1 : B }, }")).
Eval vm_compute in ("<<<M3703>>>" ++ check (runes_of_ascii "packet A }")).
Eval vm_compute in ("<<<M3735>>>" ++ check (runes_of_ascii "options { a = `d`; }")).
Eval vm_compute in ("<<<M3767>>>" ++ check (runes_of_ascii "false ] true as [ MetaData int8")).
Eval vm_compute in ("<<<M3799>>>" ++ check (runes_of_ascii ", i8 ] char[] true 0123456789 uint32 repeat packet f32 false")).
Eval vm_compute in ("<<<M3831>>>" ++ check (runes_of_ascii "@rightPad char[] ) options")).
Eval vm_compute in ("<<<M3863>>>" ++ check (runes_of_ascii ":")).
Eval vm_compute in ("<<<M3895>>>" ++ check (runes_of_ascii "@tag( @lengthOf( ; """ ++ [128512]%N ++ runes_of_ascii """")).
Eval vm_compute in ("<<<M3927>>>" ++ check (runes_of_ascii "i8 uint8 char[ u32 rootA char[] @tag( root uint64")).
Eval vm_compute in ("<<<M3959>>>" ++ check (runes_of_ascii "u16 options } `` ; 10 root char[] root { int8 3 , root")).
Eval vm_compute in ("<<<M3991>>>" ++ check (runes_of_ascii "match int16 char[ uint32 float32 as options")).
