From FP Require Import Lexer Parser ShowPT Digest Formatter.
From Coq Require Import String List NArith.
Import ListNotations.
Open Scope string_scope.
Set Printing Width 100000000.
Set Printing Depth 100000000.
Definition show_fres (r : fres) : string :=
  match r with
  | FOk s => "OK:" ++ sh_escaped s ""
  | FErr s => "ERR:" ++ sh_escaped s ""
  | FPanic p => "PANIC:" ++ p
  end.
Definition check (rs : list rune) : string := digest (show_fres (format_res rs)).
Definition full (rs : list rune) : string := show_fres (format_res rs).
Eval vm_compute in ("<<<M1555>>>" ++ check (runes_of_ascii "

  options {
    StringPrefixLenType
= u16	;  ArrayPrefixLenType
=u16
	;	} packet
	SampleBinary { 
uint16	MsgType`" ++ [28040; 24687; 31867; 22411]%N ++ runes_of_ascii "`

    ,u16

    BodyLenght	@lengthOf(
Body

) `" ++ [28040; 24687; 20307; 38271; 24230]%N ++ runes_of_ascii "`, match
	MsgType  as 
Body	{
    1:
Logon  ,  2
: Logout 
,

    3 
:

    Heartbeat
    , 
4
:
RiskControlRequest , 
5  :	RiskControlResponse

    , },
@calculatedFrom(	""CRC32""

    )u32 Ckecksum

    `" ++ [26657; 39564; 21644]%N ++ runes_of_ascii "`  ,	}
packet

    Logon  {  @leftPad 
( '0' )
char[ 10 
]
UserName
`" ++ [29992; 25143; 21517]%N ++ runes_of_ascii "`

    , 
string Password`" ++ [23494; 30721]%N ++ runes_of_ascii "`, 
uint64
ClientId `" ++ [23458; 25143; 31471]%N ++ runes_of_ascii "ID`
	,	u16	HeartbeatInterval `" ++ [24515; 36339; 38388; 38548]%N ++ runes_of_ascii "`	,

    }
packet Logout
	{
@rightPad(
'0'
) char[
    10]
    UserName
`" ++ [29992; 25143; 21517]%N ++ runes_of_ascii "`	,
    uint64  ClientId`" ++ [23458; 25143; 31471]%N ++ runes_of_ascii "ID`, 
}
packet
	Heartbeat

    {}
packet

    RiskControlRequest
    {
string UniqueOrderId

    `" ++ [21807; 19968; 35746; 21333; 21495]%N ++ runes_of_ascii "`
    ,
char[
	16  ]
ClOrdID

    `" ++ [23458; 25143; 35746; 21333; 21495]%N ++ runes_of_ascii "`,
    char[

    3]
	MarketID
`" ++ [24066; 22330]%N ++ runes_of_ascii "id` 
, 
char[

    12
] SecurityID `" ++ [35777; 21048; 20195; 30721]%N ++ runes_of_ascii "`, 
char
Side
    `" ++ [20080; 21334; 26041; 21521]%N ++ runes_of_ascii "`

,
    char OrderType
`" ++ [35746; 21333; 31867; 22411]%N ++ runes_of_ascii "` 
, 
u64

Price	`" ++ [20215; 26684]%N ++ runes_of_ascii "` , 
u32 Qty	`" ++ [25968; 37327]%N ++ runes_of_ascii "` ,  repeat
string 
ExtraInfo
`" ++ [38468; 21152; 20449; 24687]%N ++ runes_of_ascii "`	,repeat SubOrder { char[	16

]

ClOrdID `" ++ [23376; 35746; 21333; 21495]%N ++ runes_of_ascii "` ,u64  Price `" ++ [23376; 35746; 21333; 20215; 26684]%N ++ runes_of_ascii "`
,
    u32  Qty
`" ++ [23376; 35746; 21333; 25968; 37327]%N ++ runes_of_ascii "`
	,

    } ,}packet 
RiskControlResponse
	{
	string
	UniqueOrderId 
`" ++ [21807; 19968; 35746; 21333; 21495]%N ++ runes_of_ascii "`	,

    i32
    Status

`" ++ [29366; 24577]%N ++ runes_of_ascii "`
	,
string
Msg`" ++ [32467; 26524; 20449; 24687]%N ++ runes_of_ascii "`,

    repeat
    Detail, }
    packet
    Detail {

string
RuleName
	`" ++ [35268; 21017; 21517; 31216]%N ++ runes_of_ascii "`  ,  u16

    Code 
`" ++ [21407; 22240; 20195; 30721]%N ++ runes_of_ascii "`

    ,}")).
Eval vm_compute in ("<<<M96>>>" ++ check (runes_of_ascii "packet  int//x
{
// " ++ [128512]%N ++ runes_of_ascii " emoji
//	t
} packet Z9_ {
    @tag(  1
) @tag(00 ) zchar[ 0 ] trueish `// not a comment`
, Header @lengthOf(
repeatCount ) // `tick` ""quote"" 'q'
,charz float`crlf
line` , match
lengthOf as	u
    // c
    { // `tick` ""quote"" 'q'
65535  :
    msg_type
,""1""
:
    // " ++ [27880; 37322]%N ++ runes_of_ascii "
    x
    ,
""a\""b"" : packetx , 10:
msg_type """ ++ [128512]%N ++ runes_of_ascii """ :
calculatedFrom [
7 ,0	]
    // c
    : // " ++ [128512]%N ++ runes_of_ascii " emoji
u128 , }, string i8i8`{ , }` , } packet// @lengthOf(
a1{ } root packet roots {
    @lengthOf(
    // " ++ [128512]%N ++ runes_of_ascii " emoji
    u )
f64 Logon,@lengthOf(
_x	) As
    @calculatedFrom(""\n"" ) , @leftPad
// packet A { u8 x, }
// " ++ [27880; 37322]%N ++ runes_of_ascii "
(  )repeatCount
@calculatedFrom( ""{,}""
)
`tab	here`
    // trailing space 
    , @tag(
    //x
    42)char[
1
    ]T
    `a\`
,int64
_x// packet A { u8 x, }
, zchar[	4294967296
    ]
i64_ @lengthOf(  tag
    //	t
    )
    `
`
    , @calculatedFrom(""a\""b""
    //x
    ) u8 len`it's` , @leftPad
(
) metadata@lengthOf(tag
    ) `{ , }` ,@leftPad// packet A { u8 x, }
( ' '
) MetaDataX  {
    repeat char[]	rootA
    ,
    // c
    } ,i8 body ,}
")).
Eval vm_compute in ("<<<M1550>>>" ++ check (runes_of_ascii "  options 
{FixedStringPadFromLeft= true  ;
FixedStringPadChar =

'0' ;
	}packet

Leg{ InPrice0

{ repeat string
	clOrdID
, 
int16  msgKind , 
zchar[

    5
    ] Px,
    }
,

i16 f1,	repeat f64

    Side2	,  string
Acct ,  }
packet Cancel
    { zchar[
    4
    ] clOrdID ,	string  seqNo 
,
    Leg,

@leftPad
(
'0'
    )char[ 
11
]OrderId  ,	}packet 
Quote 
{  repeat char[4 ]sym
,

    f64 
OrderId ,
	repeat
	Leg,
	repeat i64 f1	, int16

Note

    ,zchar[	3 
]count 
,	}
root

    packet	Ack	{ @leftPad (
	' '
	) char[ 10

    ]

sym ,InPx60{ Cancel
,
	repeat char[
    1 ]

    f1
, string

Tail
	, repeat 
InNote55
	{

int8

count

    ,f64

    f1,	repeat
Cancel
, }
,	char[]
tag7  ,
	repeat

string msgKind
	,}
,u8

lastPx	, match

lastPx
as

Body { 
152  :
	Quote

    ,173
:	Cancel  ,
4	:  Leg
	,

    }  , u16 Ref @calculatedFrom(
""CR\
C32"")

    ,}
")).
Eval vm_compute in ("<<<M135>>>" ++ check (runes_of_ascii "
packet crc
    {@tag(	0)  @calculatedFrom(
    ""{,}""	) @rightPad ( ' ')	repeat uint8 lengthOf // a // b
,
    char[	42 ] float ,
    repeat a1 // packet A { u8 x, }
{ match
x_y_z as charz
    { [
00
, 4294967296,
//x
// a // b
""it's"",""" ++ [28040; 24687]%N ++ runes_of_ascii """ ] ://x
zchar,	[
    ""packet"" ,// c
""x y"",
""it's"" ,""abc"" ,
""it's""
    ] :string_ , 0 : Z9_
}
    // `tick` ""quote"" 'q'
    , // `tick` ""quote"" 'q'
} ,match u8x
as//x
pack {[ 0123456789
, ""x y""
] : // c
trueish /// triple
, }	,
    @calculatedFrom( ""a\""b""
    // c
    ) repeat string_ `a\`,
packetx@calculatedFrom(
""`tick`"" ) , int64 chars `say ""hi""` , @calculatedFrom(
""a	b"" )@leftPad (  '\x00'
) @lengthOf(
    repeatCount)u64
    falsey@calculatedFrom( ""\" ++ [233]%N ++ runes_of_ascii """
    )
,
repeat Header { repeat
    metadata , char[] chars`" ++ [28040; 24687; 31867; 22411]%N ++ runes_of_ascii "` , zchar[ 10] x_y_z `a\` ,	},
// trailing space 
// c
}
")).
Eval vm_compute in ("<<<M1117>>>" ++ check (runes_of_ascii "// top
MetaData
    // c0
Packet
    // c1
{
    // c2
}
    // c3
packet
    // c4
charz
    // c5
{
    // c6
Foo
    // c7
asx
    // c8
`it's`
    // c9
,
    // c10
@lengthOf(
    // c11
T
    // c12
)
    // c13
@calculatedFrom(
    // c14
""""
    // c15
)
    // c16
@calculatedFrom(
    // c17
""x y""
    // c18
)
    // c19
zchar[
    // c20
007
    // c21
]
    // c22
repeatCount
    // c23
@lengthOf(
    // c24
int
    // c25
)
    // c26
`a\`
    // c27
,
    // c28
i8
    // c29
string_
    // c30
,
    // c31
repeat
    // c32
options1
    // c33
Pad
    // c34
,
    // c35
}
    // c36
root
    // c37
packet
    // c38
Packet
    // c39
{
    // c40
int8
    // c41
float
    // c42
`doc`
    // c43
,
    // c44
}
    // c45
")).
Eval vm_compute in ("<<<M1120>>>" ++ check (runes_of_ascii "// top
root
    // c0
packet
    // c1
_x
    // c2
{
    // c3
match
    // c4
Foo
    // c5
as
    // c6
Z9_
    // c7
{
    // c8
""a	b""
    // c9
:
    // c10
Pad
    // c11
,
    // c12
}
    // c13
,
    // c14
repeat
    // c15
x
    // c16
`line1
line2`
    // c17
,
    // c18
@rightPad
    // c19
(
    // c20
' '
    // c21
)
    // c22
@calculatedFrom(
    // c23
""a\\""
    // c24
)
    // c25
metadata
    // c26
MetaDataX
    // c27
,
    // c28
@tag(
    // c29
0
    // c30
)
    // c31
Logon
    // c32
int
    // c33
``
    // c34
,
    // c35
}
    // c36
options
    // c37
{
    // c38
T
    // c39
=
    // c40
'\x00'
    // c41
}
    // c42
")).
Eval vm_compute in ("<<<M131>>>" ++ check (runes_of_ascii "
root
packet
u8x{ char
// trailing space 
// @lengthOf(
i64_ ,repeat char[1
] Z9_ , @tag(
//x
// " ++ [128512]%N ++ runes_of_ascii " emoji
42
) repeat Logon MetaDataX , @leftPad
    //
    ( )
    Foo
@lengthOf( As
    ) // " ++ [128512]%N ++ runes_of_ascii " emoji
, match u128	as //	t
calculatedFrom {// " ++ [128512]%N ++ runes_of_ascii " emoji
4294967296:
BodyLength,
    3:  A , //
[ 4294967296//
, ""packet""] : o	, 65535 : roots } ,
repeat Pad { uint64 x @calculatedFrom( """ ++ [128512]%N ++ runes_of_ascii """
    ) , a1 @lengthOf( As)
    `line1
line2` ,	repeat string_{repeat uint32 _x	, f32
MetaDataX `it's`
    //	t
    , u64 As  @lengthOf( crc ) , } ,
    roots , }, zchar[  00] // @lengthOf(
u128, }
//	t
")).
Eval vm_compute in ("<<<M1300>>>" ++ check (runes_of_ascii "// top
packet // c0
A { u8
    // c3
a , // c5a
  // c5b
} // c6
packet
    // c7
B { // c9a
  // c9b
u16 // c10a
  // c10b
b // c11
, // c12
}
    // c13
root packet // c15a
  // c15b
P { // c17
u8 // c18
K // c19
, // c20
match // c21
K // c22
as // c23
M // c24a
  // c24b
{
    // c25
[ // c26
1
    // c27
,
    // c28
2 // c29a
  // c29b
] // c30a
  // c30b
: // c31a
  // c31b
A // c32a
  // c32b
, 3
    // c34
: // c35
B // c36a
  // c36b
, 7 // c38
: // c39a
  // c39b
A // c40
, // c41
} ,
    // c43
}
    // c44
")).
Eval vm_compute in ("<<<M1397>>>" ++ check (runes_of_ascii "
root

packet
    string_ { 
      //	t
	//x

  i16 
o 	 /// triple
      ,
@tag( 4294967296	) 
repeat	char

o,
	Foo
	{
match MetaDataX 	 // trailing space 
    as

leftPad 
{

    0123456789

:
    calculatedFrom ,	[
    0 ]:	u128
    } ,
	repeat u 
    // `tick` ""quote"" 'q'
	  // @lengthOf(

{
	zchar[

65535
    ]body
@lengthOf( float
) 
,
    o

,
    asx@calculatedFrom(

""{,}"")

    `it's` 	 // `tick` ""quote"" 'q'
	, } // `tick` ""quote"" 'q'
,

}	,
}")).
Eval vm_compute in ("<<<M1568>>>" ++ check (runes_of_ascii "packet metadata {
    @rightPad()
    zchar[0123456789] i64_ @calculatedFrom(""\n""),
    @leftPad(' ')
    zchar[255] MetaDataX `{ , }`,
    @rightPad(' ')
    @calculatedFrom(""abc"")
    @lengthOf(matchKey)
    repeat char[42] packetx `" ++ [233]%N ++ runes_of_ascii "`,
    trueish @calculatedFrom(""packet"") `a\`,
    matchKey int `" ++ [28040; 24687; 31867; 22411]%N ++ runes_of_ascii "`,
    @tag(0)
    len {
        char[65535] Header,
    },
    @lengthOf(f32a)
    zchar[10] trueish `crlf
    line`,
}")).
Eval vm_compute in ("<<<M220>>>" ++ check (runes_of_ascii "root
    packet string_{
//	t
//x
i16 o /// triple
,
    @tag( 4294967296
)
repeat char o ,Foo {match MetaDataX // trailing space 
as leftPad
    { 0123456789 : calculatedFrom ,
[ 0 ]
: u128}
, repeat
u
// `tick` ""quote"" 'q'
// @lengthOf(
{
    zchar[65535]body@lengthOf( float  )
,o , asx @calculatedFrom( ""{,}"" ) `it's` // `tick` ""quote"" 'q'
,}// `tick` ""quote"" 'q'
,
} ,  }
")).
Eval vm_compute in ("<<<M1826>>>" ++ check (runes_of_ascii "MetaData Packet {
}

packet charz {
    // c6a
    // c6b
    Foo asx `it's`,
    @lengthOf(T)
    @calculatedFrom("""")
    @calculatedFrom(""x y"")
    // c19a
    // c19b
    zchar[007] repeatCount @lengthOf(int) `a\`,// c28a
    // c28b
    i8 string_,// c31
    repeat options1 Pad,
}// c36a

// c36b
root packet Packet {
    int8 float `doc`,// c44
}")).
Eval vm_compute in ("<<<M240>>>" ++ check (runes_of_ascii "
packet BodyLength { repeatCount // packet A { u8 x, }
`// not a comment`
,
@lengthOf( lengthOf	)  @tag( 65535
    )@rightPad (
// @lengthOf(
//	t
'0' )/// triple
u8 Logon , } packet chars { o msg_type , @tag( 10)zchar[ 65535
] f32a
,repeat char[]
i64_
`
` ,} root packet f32a { @tag( 255 )repeat u8 stringy, }
")).
Eval vm_compute in ("<<<M35>>>" ++ check (runes_of_ascii "  packet Header
{ @calculatedFrom( // a // b
""a	b"" )
char[
    255] falsey `tab	here`,int8
    // " ++ [27880; 37322]%N ++ runes_of_ascii "
    u
`doc` , float32 lengthOf
    @calculatedFrom(
""a	b""  )
    // a // b
    , @rightPad (
' '  ) @tag( 3
) float64 asx
    ,
int8 metadata @lengthOf(zchar )// a // b
,Pad f32a , }")).
Eval vm_compute in ("<<<M1274>>>" ++ check (runes_of_ascii "// top
options
    // c0
{ // c1a
  // c1b
FixedStringPadFromLeft
    // c2
= // c3
true
    // c4
; // c5a
  // c5b
}
    // c6
root // c7
packet P {
    // c10
char[ // c11a
  // c11b
4 // c12a
  // c12b
] z // c14
,
    // c15
} // c16a
  // c16b
")).
Eval vm_compute in ("<<<M1373>>>" ++ check (runes_of_ascii "packet Sub {
    u8 a,
    @calculatedFrom(""CRC16"") i32 SubSum,
}
root packet Frame {
    u16 MsgType,
    u16 BodyLen @lengthOf(Body),
    Sub Body,
    string note,
    @calculatedFrom(""CRC16"") i32 Checksum,
    u8 tail,
}
")).
Eval vm_compute in ("<<<M1423>>>" ++ check (runes_of_ascii "packet A {
    Inner {
        match k as n {
            [
                1, 22, 007, 4, 5,
                66, 7, 8, 9, 10,
                11, 12
            ] : B,
        },
    },
}")).
Eval vm_compute in ("<<<M1800>>>" ++ check (runes_of_ascii "  MetaData
    leftPad 
{
    chars MetaDataX  ,}
packet

    repeatCount
{char[ 
255
	]
	uint8x
`" ++ [233]%N ++ runes_of_ascii "`

    ,  } // c
MetaData
    pack
    {
As

    Foo , }")).
Eval vm_compute in ("<<<M501>>>" ++ check (runes_of_ascii "packet uint8x
{ match pack
    as msg_type	{
    0123456789 :	float
}
,
} packet //	t
a1
    { } options {packetx
    = '\x00' '\x00'	; u128= ""a	b""  ; }
")).
Eval vm_compute in ("<<<M552>>>" ++ check (runes_of_ascii "packet uint8x
{ match pack
    as msg_type	{
    0123456789 :	float
}
,
} packet //	t
na" ++ [239]%N ++ runes_of_ascii "ve
    { } options {packetx
    = '\x00'	; u128= ""a	b""  ; }
")).
Eval vm_compute in ("<<<M1561>>>" ++ check (runes_of_ascii "// top
MetaData uint8x {
    char[] f32a `// not a comment`,
    float32 roots,
    char[7] u8x,
    zchar[10] f32a,
    u64 pack,
    u16 pack,
}// c26")).
Eval vm_compute in ("<<<M457>>>" ++ check (runes_of_ascii "packet uint8x
{ match pack
    as msg_type	{
    0123456789 :	float
}
,
packet } //	t
a1
    { } options {packetx
    = '\x00'	; u128= ""a	b""  ; }
")).
Eval vm_compute in ("<<<M505>>>" ++ check (runes_of_ascii "packet uint8x
{ match pack
    as msg_type	{
    0123456789 :	float
}
,
} packet //	t
a1
    { } options {packetx
    = '\x00'	 u128= ""a	b""  ; }
")).
Eval vm_compute in ("<<<M703>>>" ++ check (runes_of_ascii "// @lengthOf(
packet i8i8 { u128 o , }
options '1'{ MetaDataX = true;
    BodyLength =""packet"" x_y_z= 007
crc //x
= ""abc"" ;
    msg_type =
i16 }")).
Eval vm_compute in ("<<<M718>>>" ++ check (runes_of_ascii "// @lengthOf(
packet i8i8 { u128 o , }
options { MetaDataX = true;
    BodyLength =""packet"" x_y_z= 007
crc //x
= ""abc"" ;
    msg_type as
i16 }")).
Eval vm_compute in ("<<<M704>>>" ++ check (runes_of_ascii "// @lengthOf(
packet i8i8 { u128 o , }
options { MetaDataX = true;
    BodyLength =""packet"" x_y_z 007
crc //x
= ""abc"" ;
    msg_type =
i16 }")).
Eval vm_compute in ("<<<M686>>>" ++ check (runes_of_ascii "// @lengthOf(
packet i8i8 { u128 o , }
options { f64 = true;
    BodyLength =""packet"" x_y_z= 007
crc //x
= ""abc"" ;
    msg_type =
i16 }")).
Eval vm_compute in ("<<<M509>>>" ++ check (runes_of_ascii "packet uint8x
{ match pack
    as msg_type	{
    0123456789 :	float
}
,
} packet //	t
a1
    { } options {packetx
    = '\x00'")).
Eval vm_compute in ("<<<M1466>>>" ++ check (runes_of_ascii "options
{ 

    /// triple
  	asx// " ++ [27880; 37322]%N ++ runes_of_ascii "
    = 3 }  MetaData
T {	f32 	 /// triple
Pad `u8 x,`
, }	// `tick` ""quote"" 'q'
")).
Eval vm_compute in ("<<<M1161>>>" ++ check (runes_of_ascii "MetaData leftPad { chars MetaDataX , } packet repeatCount { // c
char[ 255 ] uint8x `" ++ [233]%N ++ runes_of_ascii "` , } MetaData pack { As Foo , }")).
Eval vm_compute in ("<<<M938>>>" ++ check (runes_of_ascii "packet A {
    Inner {
        u8 x `a
    b
  c`,
        Deep {
            u8 y `a
    b
  c`,
        },
    },
}")).
Eval vm_compute in ("<<<M973>>>" ++ check (runes_of_ascii "packet A {
    match k as n {
        ""\
"" : B,
        [""\
"", 1] : C,
        [1,2,3,4,5,""\
""] : D,
    },
}")).
Eval vm_compute in ("<<<M352>>>" ++ check (runes_of_ascii "packet _x {
} // trailing space 
options
    { repeatCount
    =42 //x
;Pad = true;
x_y_z =
65535 ;}
")).
Eval vm_compute in ("<<<M620>>>" ++ check (runes_of_ascii "
packet
    asx {match u128 as lengthOf
{
//	t
// `tick` ""quote"" 'q'
255 : x ,
    } @lengthOf(	}")).
Eval vm_compute in ("<<<M600>>>" ++ check (runes_of_ascii "
packet
    asx {match u128 as lengthOf
{
//	t
// `tick` ""quote"" 'q'
255 packet x ,
    } ,	}")).
Eval vm_compute in ("<<<M588>>>" ++ check (runes_of_ascii "
packet
    asx {match u128 as lengthOf
{ {
//	t
// `tick` ""quote"" 'q'
255 : x ,
    } ,	}")).
Eval vm_compute in ("<<<M555>>>" ++ check (runes_of_ascii "
asx
    packet {match u128 as lengthOf
{
//	t
// `tick` ""quote"" 'q'
255 : x ,
    } ,	}")).
Eval vm_compute in ("<<<M577>>>" ++ check (runes_of_ascii "
packet
    asx {match u128  lengthOf
{
//	t
// `tick` ""quote"" 'q'
255 : x ,
    } ,	}")).
Eval vm_compute in ("<<<M1880>>>" ++ check (runes_of_ascii "root

    packet
    P{	u8 
s_u8
    ,	repeat u8 
r_u8,

    u16
b_len
    ,  }

")).
Eval vm_compute in ("<<<M1292>>>" ++ check (runes_of_ascii "

  root
    packet

P

    {
	u8
	s_u8,  repeat  u8 r_u8  , u16
    b_len, }

")).
Eval vm_compute in ("<<<M1630>>>" ++ check (runes_of_ascii "packet
body

    {	i32 
f32a

    `{ , }` 
        // c
,} 
options
{  } ")).
Eval vm_compute in ("<<<M806>>>" ++ check (runes_of_ascii "packet A {
  match k as n {
    [""a"", 22, ""c c"", 4] : B,
    2 : C
  },
}")).
Eval vm_compute in ("<<<M449>>>" ++ check (runes_of_ascii "packet uint8x
{ match pack
    as msg_type	{
    0123456789 :	float")).
Eval vm_compute in ("<<<M781>>>" ++ check (runes_of_ascii "packet A {
  match k as n {
    [""a"", ""bb""] : B
    2 : C
  },
}")).
Eval vm_compute in ("<<<M261>>>" ++ check (runes_of_ascii "options{ asx= ""1"" //	t
Pad =  0 stringy =
    '\x00'
    ; }")).
Eval vm_compute in ("<<<M767>>>" ++ check (runes_of_ascii "@rightPad char[] string u16 @tag( @lengthOf( as packet ,")).
Eval vm_compute in ("<<<M1203>>>" ++ check (runes_of_ascii "packet body { // c
i32 f32a `{ , }` , } options { }")).
Eval vm_compute in ("<<<M1100>>>" ++ check (runes_of_ascii "// top
MetaData // c0
tag // c1
{ // c2
} // c3
")).
Eval vm_compute in ("<<<M1524>>>" ++ check (runes_of_ascii "MetaData o {
}

MetaData T {
}

options {
}")).
Eval vm_compute in ("<<<M1075>>>" ++ check (runes_of_ascii "MetaData M {
}// c
MetaData N {
}// d")).
Eval vm_compute in ("<<<M958>>>" ++ check (runes_of_ascii "root packet A {
    u8 x `
x`,
}")).
Eval vm_compute in ("<<<M1023>>>" ++ check (runes_of_ascii "packet A {
 u8 x `d" ++ [8239]%N ++ runes_of_ascii "`, // c" ++ [8239]%N ++ runes_of_ascii "
}")).
Eval vm_compute in ("<<<M1065>>>" ++ check (runes_of_ascii "packet A {
}// a// b// c
")).
Eval vm_compute in ("<<<M770>>>" ++ check (runes_of_ascii "EJYa-@ZpfaJe_ojrLyZC9M")).
Eval vm_compute in ("<<<M1136>>>" ++ check (runes_of_ascii "MetaData u { } // c
")).
Eval vm_compute in ("<<<M992>>>" ++ check (runes_of_ascii "// c" ++ [133]%N ++ runes_of_ascii "
packet A {
}")).
Eval vm_compute in ("<<<M1521>>>" ++ check (runes_of_ascii "MetaData roots {
}")).
Eval vm_compute in ("<<<M1806>>>" ++ check (runes_of_ascii "// c
packet x {
}")).
Eval vm_compute in ("<<<M1693>>>" ++ check (runes_of_ascii "options {
}")).
Eval vm_compute in ("<<<M765>>>" ++ check (runes_of_ascii "/" ++ [65533; 65533; 65533]%N)).
