From FP Require Import Lexer Parser ShowPT Digest Formatter.
From Coq Require Import String List NArith.
Import ListNotations.
Open Scope string_scope.
Set Printing Width 100000000.
Set Printing Depth 100000000.
Definition show_fres (r : fres) : string :=
  match r with
  | FOk s => "OK:" ++ sh_escaped s ""
  | FErr s => "ERR:" ++ sh_escaped s ""
  | FPanic p => "PANIC:" ++ p
  end.
Definition check (rs : list rune) : string := digest (show_fres (format_res rs)).
Definition full (rs : list rune) : string := show_fres (format_res rs).
Eval vm_compute in ("<<<M1944>>>" ++ check (runes_of_ascii "// packet A { u8 x, }
packet string_ {
    @tag(4294967296)
    @calculatedFrom(""" ++ [128512]%N ++ runes_of_ascii """)
    @calculatedFrom(""1"")
    leftPad @lengthOf(int) ``,
    repeat Packet {
        zchar[0] options1 `line1
                line2`,
    },
    @calculatedFrom("""")
    float32 u8x,
    float,
    i64_ {
        packetx {
            i16 falsey,
            f32 repeatCount `{ , }`,
        },
        repeat char[0] i8i8,
        string o @lengthOf(options1),
    },
    i64_ @calculatedFrom(""a\""b"") `a\`,
    @rightPad()
    @lengthOf(packetx)
    match matchKey as stringy {
        ""a	b"" : body,
    },
    // " ++ [27880; 37322]%N ++ runes_of_ascii "
    @lengthOf(u128)
    @calculatedFrom(""`tick`"")
    @rightPad()
    // @lengthOf(
    repeat falsey string_ `" ++ [28040; 24687; 31867; 22411]%N ++ runes_of_ascii "`,
    string As `it's`,
    @calculatedFrom(""" ++ [28040; 24687]%N ++ runes_of_ascii """)
    repeat rootA {
        float64 body,
    },
}

options {
    zchar = true;
    i8i8 = 3;
}

packet leftPad {
    @calculatedFrom("""")
    //x
    @leftPad(' ')
    @calculatedFrom(""abc"")
    repeat MetaDataX {
        char[] Pad,
        body @lengthOf(Foo),
        uint64 i8i8,
        char[42] options1 @calculatedFrom(""x y""),
    },
}

packet stringy {
    @calculatedFrom(""" ++ [28040; 24687]%N ++ runes_of_ascii """)
    BodyLength len,
    @lengthOf(u)
    i8i8 metadata,
    @calculatedFrom(""a\\"")
    //x
    packetx,
    f64 i8i8 @lengthOf(Header),
    metadata `
        `,
    @lengthOf(int)
    repeat falsey,
    repeat char[] trueish,
}")).
Eval vm_compute in ("<<<M1858>>>" ++ check (runes_of_ascii "packet _x {
    leftPad `it's`,
    match Logon as matchKey {
        ""packet"" : stringy,
        3 : u,
        //
        ""1"" : Pad,
    },
    float32 Z9_ @lengthOf(i8i8) `" ++ [233]%N ++ runes_of_ascii "`,
    @tag(3)
    match As as Pad {
        """" : chars,
        ""x y"" : i64_,
    },
    @calculatedFrom(""it's"")
    @leftPad(' ')
    zchar[0123456789] falsey,
    match A as packetx {
        [42] : matchKey,
    },
    @leftPad(' ')
    match x as a1 {
        ""packet"" : a1,
        10 : pack,
        ""{,}"" : u8x,
        [007, 00] : trueish,
        ""x y"" : pack,
        """ ++ [233]%N ++ runes_of_ascii "t" ++ [233]%N ++ runes_of_ascii """ : matchKey,
    },
    @leftPad('0')
    uint8x u,
    zchar[3] u ``,
    @rightPad(' ')
    repeat _x ``,
}

MetaData Foo {
    a1 Z9_,
    options1 T,
    u32 u8x `crlf
        line`,
    metadata falsey,
    lengthOf x_y_z,
}

packet calculatedFrom {
    @tag(3)
    string A,
    match leftPad as a1 {
        //	t
        0123456789 : calculatedFrom,
    },
    match crc as body {
        00 : _x,
    },
    o @calculatedFrom(""x y""),
}

packet T {
}

packet Logon {
    @leftPad('\x00')
    As @calculatedFrom(""a	b"") `line1
        line2`,
    pack lengthOf,
}// `tick` ""quote"" 'q'")).
Eval vm_compute in ("<<<M1691>>>" ++ check (runes_of_ascii "  options

{FixedStringPadFromLeft
=	true ;
FixedStringPadChar 
=
'0' ; }packet Leg
{	InPrice0{
    repeat	string clOrdID

    ,  int16 msgKind
, zchar[
5 ]
	Px 
, }, i16  f1
, repeat
    f64

    Side2 ,

    string Acct,	}	packet Cancel

{

    zchar[4 ] 
clOrdID
,
	string seqNo ,

    Leg ,

@leftPad 
(
    '0'
	)char[11

    ] OrderId

    , }  packet
    Quote
{ repeat	char[ 4]

    sym
	,
	f64
OrderId
,
repeat Leg

    ,repeat

i64  f1
	,  int16

Note, zchar[ 3
    ] count 
,  }
root 
packet
Ack	{

    @leftPad

(

    ' '
)
char[ 10
    ] sym

    , InPx60 {	Cancel	,
	repeat char[
1

]

f1

,
string
Tail,
    repeat

InNote55	{
int8 
count	,f64 f1

,repeat

    Cancel  ,
	}
,
char[]	tag7	,
    repeat string

msgKind
    ,}
,u8 lastPx ,
    match
	lastPx
    as 
Body
{
    152 
:  Quote  ,

    173
:
    Cancel  ,4
	: 
Leg ,
} ,
	u16

    Ref @calculatedFrom( ""CR\
C32"")  ,  }
")).
Eval vm_compute in ("<<<M28>>>" ++ check (runes_of_ascii "options
    { string_
= false
    ; falsey  = char[// " ++ [128512]%N ++ runes_of_ascii " emoji
4294967296 ] ; } packet
    zchar{match float as len { [ """ ++ [233]%N ++ runes_of_ascii "t" ++ [233]%N ++ runes_of_ascii """ ]:
matchKey
    , 3 : // " ++ [27880; 37322]%N ++ runes_of_ascii "
u [ 4294967296
, ""1"" ] :
// `tick` ""quote"" 'q'
// c
zchar , } // c
,} MetaData
    // @lengthOf(
    T {
// c
// a // b
}	packet packetx  { uint16 uint8x @calculatedFrom( ""it's"" ) ,
stringy { i16 crc
`{ , }`	, }
, zchar[ 00
] x
,
    zchar{ uint64 tag , zchar
f32a	`say ""hi""` , uint32 A `{ , }` , match _x as
falsey
{ [ 007// " ++ [128512]%N ++ runes_of_ascii " emoji
,
    """ ++ [128512]%N ++ runes_of_ascii """] :
    matchKey// " ++ [128512]%N ++ runes_of_ascii " emoji
[ 0123456789,3 ] : T
// " ++ [128512]%N ++ runes_of_ascii " emoji
// `tick` ""quote"" 'q'
1: Foo ,
}
    ,// trailing space 
} ,A ,
    zchar[
    // packet A { u8 x, }
    4294967296 ] string_ @lengthOf( float ) ,match rootA as As
    { [ ""it's"",
255 , 0123456789 ,
// packet A { u8 x, }
//	t
""" ++ [233]%N ++ runes_of_ascii "t" ++ [233]%N ++ runes_of_ascii """	, ""{,}"" ,	""abc""
    , """ ++ [233]%N ++ runes_of_ascii "t" ++ [233]%N ++ runes_of_ascii """]:int, 4294967296 : tag , } , }
")).
Eval vm_compute in ("<<<M1943>>>" ++ check (runes_of_ascii "// top
options {
    // c1
    StringPrefixLenType = u8;// c5a
    // c5b
    ArrayPrefixLenType = u8;// c9
    FixedStringPadFromLeft = false;// c13
    FixedStringPadChar = ' ';// c17a
    // c17b
}

// c18
packet Ack {
    // c21
    char[] tag7,
}

// c25
packet Reject {
    InSym61 {
        // c30
        repeat Ack,
        zchar[4] f1,
    },
}// c41

packet Logout {
    // c44
    char[4] clOrdID,// c49
}

// c50
root packet Cancel {
    @leftPad(' ')
    char[10] price,
    // c63
    u8 x,
    u32 venue @lengthOf(Body),// c72
    match x as Body {
        // c77
        [
            92,
            175
        ] : Logout,
        26 : Reject,
        // c89a
        // c89b
        144 : Ack,
    },// c95
    u16 count @calculatedFrom(""CRC32""),
}")).
Eval vm_compute in ("<<<M192>>>" ++ check (runes_of_ascii "// trailing space 
options { f32a=
false;	stringy=	true
;
u=  ""\" ++ [233]%N ++ runes_of_ascii """  ;
    stringy = false;
} packet options1 // " ++ [27880; 37322]%N ++ runes_of_ascii "
{
} MetaData
packetx { f32 uint8x  ,  } root packet zchar {
@tag( 4294967296
) @lengthOf(a1
)
i8
_x
`it's` ,//x
char[]	o , body
    ,
zchar[ 65535] msg_type
`crlf
line` , repeat
    BodyLength{ repeat char[ 65535
    ] stringy,
},
@calculatedFrom( """ ++ [128512]%N ++ runes_of_ascii """
) @tag( 10
    // a // b
    ) repeat f32
lengthOf`line1
line2` , repeat  u {
    uint32 Z9_, //
repeat body
`
` , }  , @tag( 4294967296
) i64_ @lengthOf( tag
    // packet A { u8 x, }
    ), @lengthOf(//	t
float) @lengthOf(
    // " ++ [128512]%N ++ runes_of_ascii " emoji
    packetx	) @calculatedFrom( """ ++ [128512]%N ++ runes_of_ascii """
)	repeat x_y_z u  ,@tag( 65535 )u8
A	,} //")).
Eval vm_compute in ("<<<M1872>>>" ++ check (runes_of_ascii "root packet matchKey {
    match Foo as Z9_ {
        // c
        [""x y"", ""1"", 007, 7] : pack,
        ""`tick`"" : u128,
        ""a	b"" : msg_type,
        [00, 65535] : a1,
        ""it's"" : Foo,
        // " ++ [128512]%N ++ runes_of_ascii " emoji
        [""""] : u,
    },
}

packet calculatedFrom {
    msg_type {
        T @calculatedFrom(""\n""),
        float64 i8i8,
        As `
        `,
        u32 rootA @lengthOf(float),
    },
}

packet x_y_z {
    @tag(0)
    i64_ @lengthOf(MetaDataX),
}

packet A {
    @calculatedFrom(""a\\"")
    @calculatedFrom(""abc"")
    _x u `say ""hi""`,
}

options {
    // trailing space 
    metadata = ""a\\"";// a // b
}")).
Eval vm_compute in ("<<<M1345>>>" ++ check (runes_of_ascii "options {
    LittleEndian = false;
    ArrayPrefixLenType = u8;
    FixedStringPadFromLeft = true;
    FixedStringPadChar = '0';
}
packet Heartbeat {
    string lastPx,
    uint8 Qty,
    i64 Acct,
    char[4] Ref,
}
packet Fill {
    uint8 Ref,
    Heartbeat,
    f32 OrderId,
    repeat f32 x,
}
root packet Order {
    zchar[2] OrderId,
    zchar[2] Acct,
    zchar[1] Note,
    zchar[9] Qty,
    string price,
    string tag7,
    u32 x,
    match x as Body {
        123 : Fill,
        112 : Heartbeat,
    },
    u32 seqNo @calculatedFrom(""CR\
C32""),
}
")).
Eval vm_compute in ("<<<M1846>>>" ++ check (runes_of_ascii "//x
root packet float {
    options1 A,
    @tag(42)
    u8x {
        tag @calculatedFrom(""\" ++ [233]%N ++ runes_of_ascii """) `tab	here`,
    },
    int16 asx,
    @lengthOf(o)
    @rightPad()
    repeat int Logon,
    @calculatedFrom(""// no comment"")
    @leftPad('\x00')
    @rightPad('0')
    zchar[65535] o `
    `,
    repeat As {
        //x
        repeat uint16 o,
        repeat char[1] o,
        u128 metadata,
        repeat char[7] Header,
    },
    @tag(0123456789)
    a1 tag,
    float32 asx,
    repeat len ``,
}")).
Eval vm_compute in ("<<<M48>>>" ++ check (runes_of_ascii "root	packet Logon { @calculatedFrom( """" ) @lengthOf( int ) @tag( 3
) match _x
as // a // b
i64_ { 10:asx
// `tick` ""quote"" 'q'
/// triple
""" ++ [128512]%N ++ runes_of_ascii """ : crc ,[ 0
,
007
] : float  ,// trailing space 
}
    , repeat //	t
uint16
leftPad  ,
    }
    // " ++ [27880; 37322]%N ++ runes_of_ascii "
    packet charz
{  } MetaData
int {
//
// trailing space 
zchar[ 4294967296 ]matchKey
,
asx rootA
    `doc`
, Foo string_ `// not a comment`
,
    char[]u8x , // `tick` ""quote"" 'q'
roots
float , }
")).
Eval vm_compute in ("<<<M1411>>>" ++ check (runes_of_ascii "// top
MetaData Packet {
    // c2
}

// c3
packet charz {
    // c6
    Foo asx `it's`,
    // c10
    @lengthOf(T)
    // c13
    @calculatedFrom("""")
    // c16
    @calculatedFrom(""x y"")
    // c19
    zchar[007] repeatCount @lengthOf(int) `a\`,
    // c28
    i8 string_,
    // c31
    repeat options1 Pad,
    // c35
}

// c36
root packet Packet {
    // c40
    int8 float `doc`,
    // c44
}
// c45")).
Eval vm_compute in ("<<<M372>>>" ++ check (runes_of_ascii "// @lengthOf(
MetaData leftPad { string	options1`say ""hi""` ,
    //x
    int16 metadata`" ++ [233]%N ++ runes_of_ascii "`,f32 i64_
//	t
// c
, }  packet
trueish { // c
MetaDataX roots ,_x
    a1 , match
packetx as charz { 0
: // c
f32a ,
} //
, repeat body Logon , }	options { repeatCount=
    int8
charz // `tick` ""quote"" 'q'
=	char[];  msg_type =""it's""	u
=
    007 Z9_
    = uint32
    //
    }")).
Eval vm_compute in ("<<<M100>>>" ++ check (runes_of_ascii "
root packet
a1
    {
tag Pad``
, } options {
}
    root packet int	{
    uint64 f32a , } packet
MetaDataX {// c
@leftPad( ' ' ) /// triple
repeat uint16 Header	`{ , }`
,
// `tick` ""quote"" 'q'
/// triple
}
options {
Z9_= false
    falsey //	t
= ""x y"" ; rootA = false
    // a // b
    Foo	=true
lengthOf
    = float64 }")).
Eval vm_compute in ("<<<M32>>>" ++ check (runes_of_ascii "packet int { T/// triple
{ repeat _x ,	} ,
    i64_ _x
    `
`, @calculatedFrom( ""x y"" )u32 A
,  match a1 as
    i8i8 { [ ""1""
,
4294967296
]:
    a1 ,"""":	a1
    , 007: a1 , [ ""CRC32"" ] :Header} , int64 As, int8 a1 , //
char[] float
`tab	here`/// triple
,
repeat zchar[ 1	]u8x,
} /// triple")).
Eval vm_compute in ("<<<M1833>>>" ++ check (runes_of_ascii "packet Sub	{u8
a  ,

    @calculatedFrom(""CRC16""

)
	i32 SubSum , 
}
root
	packet
Frame 
{ u16	MsgType

    , u16 
BodyLen @lengthOf( Body

    )
    ,Sub

Body  ,string
note ,
@calculatedFrom( ""CRC16"" )

    i32  Checksum

    , u8
tail ,
}

")).
Eval vm_compute in ("<<<M1930>>>" ++ check (runes_of_ascii "packet
roots {

    @calculatedFrom(

    ""a\\"" 
)
@lengthOf( packetx
) match repeatCount
	as  body  {	007
:lengthOf 
, 00:  // `tick` ""quote"" 'q'
zchar
    ,
} ,
	char[]
    chars `say ""hi""` ,
} MetaData
packetx
{  }

")).
Eval vm_compute in ("<<<M1548>>>" ++ check (runes_of_ascii "
MetaData	// a // b

	o
{  string  Foo 
,
}
MetaData
    msg_type

    { Header len
    `" ++ [28040; 24687; 31867; 22411]%N ++ runes_of_ascii "`

, }	options

{	tag
	='0'
;

    o
=

    ""CRC32""

;
Logon
	=
""`tick`""
;  // a // b
    }
")).
Eval vm_compute in ("<<<M44>>>" ++ check (runes_of_ascii "
packet repeatCount
    {
trueish , } packet uint8x
{/// triple
match u8x as calculatedFrom
    { [ 4294967296 ]: len ,
[ """ ++ [128512]%N ++ runes_of_ascii """ ,	""" ++ [233]%N ++ runes_of_ascii "t" ++ [233]%N ++ runes_of_ascii """ , 255 , //
1
] : falsey , } , }
")).
Eval vm_compute in ("<<<M453>>>" ++ check (runes_of_ascii "packet uint8x
{ match pack
    as msg_type	{
    0123456789 :	float
}
@lengthOf(
} packet //	t
a1
    { } options {packetx
    = '\x00'	; u128= ""a	b""  ; }
")).
Eval vm_compute in ("<<<M518>>>" ++ check (runes_of_ascii "packet uint8x
{ match pack
    as msg_type	{
    0123456789 :	float
}
,
} packet //	t
a1
    { } options {packetx
    = '\x00'	; u128 true ""a	b""  ; }
")).
Eval vm_compute in ("<<<M531>>>" ++ check (runes_of_ascii "packet uint8x
{ match pack
    as msg_type	{
    0123456789 :	float
}
,
} packet //	t
a1
    { } options {packetx
    = '\x00'	; u128= ""a	b""  ; } }
")).
Eval vm_compute in ("<<<M432>>>" ++ check (runes_of_ascii "packet uint8x
{ match pack
    as msg_type	{
    : 0123456789	float
}
,
} packet //	t
a1
    { } options {packetx
    = '\x00'	; u128= ""a	b""  ; }
")).
Eval vm_compute in ("<<<M450>>>" ++ check (runes_of_ascii "packet uint8x
{ match pack
    as msg_type	{
    0123456789 :	float
}

} packet //	t
a1
    { } options {packetx
    = '\x00'	; u128= ""a	b""  ; }
")).
Eval vm_compute in ("<<<M510>>>" ++ check (runes_of_ascii "packet uint8x
{ match pack
    as msg_type	{
    0123456789 :	float
}
,
} packet //	t
a1
    { } options {packetx
    = '\x00'	; = ""a	b""  ; }
")).
Eval vm_compute in ("<<<M718>>>" ++ check (runes_of_ascii "// @lengthOf(
packet i8i8 { u128 o , }
options { MetaDataX = true;
    BodyLength =""packet"" x_y_z= 007
crc //x
= ""abc"" ;
    msg_type as
i16 }")).
Eval vm_compute in ("<<<M710>>>" ++ check (runes_of_ascii "// @lengthOf(
packet i8i8 { u128 o , }
options { MetaDataX = true;
    BodyLength =""packet"" x_y_z= 007
crc //x
= ""abc"" ;
    msg_type 
i16 }")).
Eval vm_compute in ("<<<M1620>>>" ++ check (runes_of_ascii "packet

A
    {
match 
k as
	n{
[1 ,	22  ,""c c""

    ,	4 
,

5, ""f"",

    7  ,  8	,""i""
, 
10 ,  11]
    :B

    2 : 
C }
	,
}

")).
Eval vm_compute in ("<<<M1848>>>" ++ check (runes_of_ascii "MetaData leftPad {
    chars MetaDataX,
}

packet repeatCount {
    char[255] uint8x `" ++ [233]%N ++ runes_of_ascii "`,
}

MetaData pack {
    As Foo,
    // c
}")).
Eval vm_compute in ("<<<M1677>>>" ++ check (runes_of_ascii "options{

_x =
""`tick`"" 
; matchKey	=

    ""it's""

;

options1

    =

    u16	;
	stringy=
    true
	    // c

	}

")).
Eval vm_compute in ("<<<M1159>>>" ++ check (runes_of_ascii "MetaData leftPad { chars MetaDataX , } packet repeatCount // c
{ char[ 255 ] uint8x `" ++ [233]%N ++ runes_of_ascii "` , } MetaData pack { As Foo , }")).
Eval vm_compute in ("<<<M1671>>>" ++ check (runes_of_ascii "
MetaData
    zchar 
{ roots A ,  char[]
falsey  `line1
line2`
	,
// " ++ [128512]%N ++ runes_of_ascii " emoji
  // @lengthOf(
	int 
crc  ,
}//	t
 
")).
Eval vm_compute in ("<<<M1801>>>" ++ check (runes_of_ascii "  packet A  {

    match k
as
n {
[ 1 
,

""bb""	,007
	,

""d"" ,
    5,""f"",

    7
]: B  2:
C
}

    ,

} ")).
Eval vm_compute in ("<<<M142>>>" ++ check (runes_of_ascii "packet
len
    // " ++ [128512]%N ++ runes_of_ascii " emoji
    { int64 a1	@lengthOf(x_y_z )	, }
// c
// trailing space 
packet x_y_z { }

")).
Eval vm_compute in ("<<<M896>>>" ++ check (runes_of_ascii "packet A {
  match k as n {
    [1, ""bb"", 007, ""d"", 5, ""f"", 7, ""h"", 9, ""j"", 11] : B
    2 : C
  },
}")).
Eval vm_compute in ("<<<M876>>>" ++ check (runes_of_ascii "packet A {
  match k as n {
    [""a"", ""bb"", 007, ""d"", ""e"", 66, ""g"", ""h"", 9] : B
    2 : C
  },
}")).
Eval vm_compute in ("<<<M635>>>" ++ check (runes_of_ascii "
packet
    asx {'1'match u128 as lengthOf
{
//	t
// `tick` ""quote"" 'q'
255 : x ,
    } ,	}")).
Eval vm_compute in ("<<<M637>>>" ++ check (runes_of_ascii "
~packet
    asx {match u128 as lengthOf
{
//	t
// `tick` ""quote"" 'q'
255 : x ,
    } ,	}")).
Eval vm_compute in ("<<<M587>>>" ++ check (runes_of_ascii "
packet
    asx {match u128 as lengthOf

//	t
// `tick` ""quote"" 'q'
255 : x ,
    } ,	}")).
Eval vm_compute in ("<<<M621>>>" ++ check (runes_of_ascii "
packet
    asx {match u128 as lengthOf
{
//	t
// `tick` ""quote"" 'q'
255 : x ,
    }")).
Eval vm_compute in ("<<<M582>>>" ++ check (runes_of_ascii "
packet
    asx {match u128 as 
{
//	t
// `tick` ""quote"" 'q'
255 : x ,
    } ,	}")).
Eval vm_compute in ("<<<M1952>>>" ++ check (runes_of_ascii "  packet  A
	{match
	k  as n 
{
[ 1
    ,
22  ] :  B
    2

: C

    }

,}
")).
Eval vm_compute in ("<<<M459>>>" ++ check (runes_of_ascii "packet uint8x
{ match pack
    as msg_type	{
    0123456789 :	float
}
,")).
Eval vm_compute in ("<<<M1283>>>" ++ check (runes_of_ascii "root packet P {
    u16 a,
    u32 Sum @calculatedFrom(""CR\
C32""),
}
")).
Eval vm_compute in ("<<<M1628>>>" ++ check (runes_of_ascii "packet o {
}

packet Pad {
    BodyLength,
}

packet metadata {
}")).
Eval vm_compute in ("<<<M1102>>>" ++ check (runes_of_ascii "// top
MetaData
    // c0
tag
    // c1
{ // c2
}
    // c3
")).
Eval vm_compute in ("<<<M27>>>" ++ check (runes_of_ascii "options{Logon = """ ++ [28040; 24687]%N ++ runes_of_ascii """
    ; BodyLength =
    false
; }
")).
Eval vm_compute in ("<<<M1206>>>" ++ check (runes_of_ascii "packet body { i32
// c
f32a `{ , }` , } options { }")).
Eval vm_compute in ("<<<M1243>>>" ++ check (runes_of_ascii "root packet P {
    repeat char cs,
    u8 x,
}
")).
Eval vm_compute in ("<<<M951>>>" ++ check (runes_of_ascii "MetaData M {
    u8 x `x
`,
    T t `x
`,
}")).
Eval vm_compute in ("<<<M1067>>>" ++ check (runes_of_ascii "packet A {    u8 x, // c    u8 y,}")).
Eval vm_compute in ("<<<M922>>>" ++ check (runes_of_ascii "root packet A {
    u8 x `a
b`,
}")).
Eval vm_compute in ("<<<M36>>>" ++ check (runes_of_ascii "// c
packet asx  {} /// triple")).
Eval vm_compute in ("<<<M381>>>" ++ check (runes_of_ascii "options{
int
=char[] ; }
//
")).
Eval vm_compute in ("<<<M326>>>" ++ check (runes_of_ascii "  options{// a // b
}

")).
Eval vm_compute in ("<<<M1519>>>" ++ check (runes_of_ascii "packet

    A
{ } ")).
Eval vm_compute in ("<<<M1837>>>" ++ check (runes_of_ascii "
packet falsey {}
")).
Eval vm_compute in ("<<<M1036>>>" ++ check (runes_of_ascii "packet A {
}
// c" ++ [12]%N)).
Eval vm_compute in ("<<<M1034>>>" ++ check (runes_of_ascii "packet A {
}// c" ++ [12]%N)).
Eval vm_compute in ("<<<M712>>>" ++ check (runes_of_ascii "// @lengthOf(
")).
Eval vm_compute in ("<<<M975>>>" ++ check (runes_of_ascii "// c ")).
Eval vm_compute in ("<<<M737>>>" ++ check ([1875; 65533]%N)).
