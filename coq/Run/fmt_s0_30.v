From FP Require Import Lexer Parser ShowPT Digest Formatter.
From Coq Require Import String List NArith.
Import ListNotations.
Open Scope string_scope.
Set Printing Width 100000000.
Set Printing Depth 100000000.
Definition show_fres (r : fres) : string :=
  match r with
  | FOk s => "OK:" ++ sh_escaped s ""
  | FErr s => "ERR:" ++ sh_escaped s ""
  | FPanic p => "PANIC:" ++ p
  end.
Definition check (rs : list rune) : string := digest (show_fres (format_res rs)).
Definition full (rs : list rune) : string := show_fres (format_res rs).
Eval vm_compute in ("<<<M1477>>>" ++ check (runes_of_ascii "
options
{

    StringPrefixLenType  =  u16 
; ArrayPrefixLenType =
u16 ; 
}
packet
SampleBinary

    { 
uint16 MsgType`" ++ [28040; 24687; 31867; 22411]%N ++ runes_of_ascii "`, 
u16
BodyLenght @lengthOf(
	Body	)	`" ++ [28040; 24687; 20307; 38271; 24230]%N ++ runes_of_ascii "` ,	match

    MsgType
as Body
	{
1:
Logon
, 2
    :Logout
    ,
3	:
    Heartbeat  ,4: 
RiskControlRequest
,
	5

    :RiskControlResponse
,

    }
    ,
@calculatedFrom( ""CRC32""

    )
    u32
Ckecksum
	`" ++ [26657; 39564; 21644]%N ++ runes_of_ascii "`  ,
}

    packet
	Logon
    {

    @leftPad(
	'0'
) 
char[ 
10

    ]
UserName `" ++ [29992; 25143; 21517]%N ++ runes_of_ascii "` ,string 
Password
`" ++ [23494; 30721]%N ++ runes_of_ascii "`
    ,

uint64
    ClientId`" ++ [23458; 25143; 31471]%N ++ runes_of_ascii "ID`
, 
u16 
HeartbeatInterval

`" ++ [24515; 36339; 38388; 38548]%N ++ runes_of_ascii "`	, } 
packet Logout	{ @rightPad  (
'0' 
)
char[	10] UserName `" ++ [29992; 25143; 21517]%N ++ runes_of_ascii "` ,	uint64

ClientId

`" ++ [23458; 25143; 31471]%N ++ runes_of_ascii "ID` , }packet  Heartbeat {
}
    packet  RiskControlRequest
{
	string

    UniqueOrderId `" ++ [21807; 19968; 35746; 21333; 21495]%N ++ runes_of_ascii "`,char[ 
16
	]
	ClOrdID
	`" ++ [23458; 25143; 35746; 21333; 21495]%N ++ runes_of_ascii "` 
,	char[

    3
    ]

MarketID
	`" ++ [24066; 22330]%N ++ runes_of_ascii "id`
,
char[12]

    SecurityID
    `" ++ [35777; 21048; 20195; 30721]%N ++ runes_of_ascii "`, char
    Side
    `" ++ [20080; 21334; 26041; 21521]%N ++ runes_of_ascii "` ,

char
OrderType
	`" ++ [35746; 21333; 31867; 22411]%N ++ runes_of_ascii "`  ,  u64

    Price 
`" ++ [20215; 26684]%N ++ runes_of_ascii "`

    ,u32 Qty
	`" ++ [25968; 37327]%N ++ runes_of_ascii "`,
repeat 
string
ExtraInfo 
`" ++ [38468; 21152; 20449; 24687]%N ++ runes_of_ascii "`  ,  repeat
    SubOrder  {	char[ 16

    ] 
ClOrdID	`" ++ [23376; 35746; 21333; 21495]%N ++ runes_of_ascii "` 
, 
u64
Price
`" ++ [23376; 35746; 21333; 20215; 26684]%N ++ runes_of_ascii "`, u32
Qty 
`" ++ [23376; 35746; 21333; 25968; 37327]%N ++ runes_of_ascii "`
	, }

    ,

}
packet

    RiskControlResponse
{

    string

    UniqueOrderId `" ++ [21807; 19968; 35746; 21333; 21495]%N ++ runes_of_ascii "`  , 
i32 Status `" ++ [29366; 24577]%N ++ runes_of_ascii "`, string Msg
`" ++ [32467; 26524; 20449; 24687]%N ++ runes_of_ascii "`
,

repeat Detail
    , }

packet
	Detail {

string

RuleName

`" ++ [35268; 21017; 21517; 31216]%N ++ runes_of_ascii "`
    ,  u16 Code `" ++ [21407; 22240; 20195; 30721]%N ++ runes_of_ascii "`

,} ")).
Eval vm_compute in ("<<<M1602>>>" ++ check (runes_of_ascii "packet

    i8i8

    {

@tag(
0  )

int32 
leftPad

`it's`,	repeat
char[] Header

`crlf
line` ,@calculatedFrom(
""\" ++ [233]%N ++ runes_of_ascii """
	)  /// triple
  repeat
    uint8 float  , 
@rightPad

    ('\x00' )char[]
    zchar  @lengthOf(
    // a // b
      //x
leftPad  ) `
`
,

Z9_

, @lengthOf( x

) match  As

    as tag {

""a	b"" 
: string_ 
[

    10
,  7 , 
""1"" 
, 
255	,
    3
    ,	42
,
        //
	0123456789
,	""" ++ [128512]%N ++ runes_of_ascii """
] :  x_y_z ,

    ""CRC32""
    :  Z9_
    ,
00 
    // c
: Logon

,	},

@tag(007

)

    o	{
    char
Packet
    @lengthOf(
//	t
  repeatCount
    )
,

    } 
, @lengthOf(  
      // " ++ [27880; 37322]%N ++ runes_of_ascii "
    /// triple
  pack
	) 
float64
rootA`two words`

,

repeat

    char[] BodyLength 
,}  packet
	Z9_{
    match 
    // packet A { u8 x, }
  As 
as a1  {	//

  0:  trueish// `tick` ""quote"" 'q'

,}

    ,
    /// triple
      // " ++ [27880; 37322]%N ++ runes_of_ascii "
    }
root

packet u8x  {
        /// triple
	  // " ++ [128512]%N ++ runes_of_ascii " emoji
	repeat
	string	Logon 
`tab	here`  ,// " ++ [128512]%N ++ runes_of_ascii " emoji
	} options {
_x
    = 
""packet""

;  f32a=
    007 
}packet

i8i8 
{
@calculatedFrom( ""CRC32""

    )A
	@lengthOf(
a1)
	, } ")).
Eval vm_compute in ("<<<M1329>>>" ++ check (runes_of_ascii "options {
    FixedStringPadFromLeft = true;
    FixedStringPadChar = '0';
}
packet Leg {
    InPrice0 {
        repeat string clOrdID,
        int16 msgKind,
        zchar[5] Px,
    },
    i16 f1,
    repeat f64 Side2,
    string Acct,
}
packet Cancel {
    zchar[4] clOrdID,
    string seqNo,
    Leg,
    @leftPad('0') char[11] OrderId,
}
packet Quote {
    repeat char[4] sym,
    f64 OrderId,
    repeat Leg,
    repeat i64 f1,
    int16 Note,
    zchar[3] count,
}
root packet Ack {
    @leftPad(' ') char[10] sym,
    InPx60 {
        Cancel,
        repeat char[1] f1,
        string Tail,
        repeat InNote55 {
            int8 count,
            f64 f1,
            repeat Cancel,
        },
        char[] tag7,
        repeat string msgKind,
    },
    u8 lastPx,
    match lastPx as Body {
        152 : Quote,
        173 : Cancel,
        4 : Leg,
    },
    u16 Ref @calculatedFrom(""CRC32""),
}
")).
Eval vm_compute in ("<<<M237>>>" ++ check (runes_of_ascii "root
    packet
    asx { // `tick` ""quote"" 'q'
f32a	,
@calculatedFrom(
""abc"") zchar[ 65535 ]	metadata `
` , @calculatedFrom(// " ++ [128512]%N ++ runes_of_ascii " emoji
""CRC32"" // `tick` ""quote"" 'q'
) Header `doc`
    // @lengthOf(
    , match
f32a as
msg_type
// @lengthOf(
//x
{ [ ""\n"" ] /// triple
:
charz// @lengthOf(
0123456789 :
pack
    // `tick` ""quote"" 'q'
    ,//x
[ ""packet"" , """",
    // @lengthOf(
    ""`tick`"" ,
    ""CRC32"" , ""\n"" ,
// `tick` ""quote"" 'q'
// trailing space 
""it's""//	t
,
""it's"", //
4294967296 ]
:
charz
42
    : leftPad , [
255 ,	7 , ""packet"" , // trailing space 
""{,}""
    , ""\" ++ [233]%N ++ runes_of_ascii """ ,""1""
    ,	""1""  ] : msg_type
,
    [ """ ++ [128512]%N ++ runes_of_ascii """
    ]:  i64_ } ,  }packet body { } root packet i64_
    { uint16  Header @calculatedFrom(
""" ++ [233]%N ++ runes_of_ascii "t" ++ [233]%N ++ runes_of_ascii """ )
    ``
    ,float64 string_@calculatedFrom( // a // b
""`tick`"") , repeat zchar[ // @lengthOf(
1] packetx`it's` ,
} //	t")).
Eval vm_compute in ("<<<M1490>>>" ++ check (runes_of_ascii "//x
  	packet

x {

    @lengthOf(	string_
	)

    // `tick` ""quote"" 'q'
    // trailing space 
msg_type{ int  // a // b
  @lengthOf( chars )
        //x
  // " ++ [27880; 37322]%N ++ runes_of_ascii "
    `" ++ [28040; 24687; 31867; 22411]%N ++ runes_of_ascii "`
    ,int
	`a\` 
, }
, uint32
	chars
@calculatedFrom( ""`tick`"" )

    `
` ,
@lengthOf( packetx 	 // trailing space 
)
	match

    metadata
as
x_y_z
    {
65535	:	x ,
007
    // `tick` ""quote"" 'q'
		// " ++ [128512]%N ++ runes_of_ascii " emoji
    : u
[ 7 ,
""// no comment"",""" ++ [28040; 24687]%N ++ runes_of_ascii """	] 
:
x ""a\\""
	:
MetaDataX 
, 0123456789
    :lengthOf
10
    :  
  //
    // `tick` ""quote"" 'q'
float  } ,  u16

    Logon

    @calculatedFrom(
	""x y""
	)
`tab	here` 
    //	t
    //
      ,@lengthOf( 
Foo
) zchar	/// triple
  , }	packet  tag{  }
root	packet
    x_y_z
    { } MetaData

    int

{ string

A 
`" ++ [233]%N ++ runes_of_ascii "` ,
}
")).
Eval vm_compute in ("<<<M1354>>>" ++ check (runes_of_ascii "options {
    StringPrefixLenType = u8;
    ArrayPrefixLenType = u32;
    FixedStringPadFromLeft = true;
    FixedStringPadChar = ' ';
}
packet Leg {
}
packet Heartbeat {
    zchar[6] msgKind,
    @rightPad('0') char[3] Qty,
    zchar[9] Side2,
    i8 Acct,
}
packet Logout {
    int8 x,
}
packet Order {
    char[] Acct,
    zchar[8] count,
    u32 OrderId,
    uint8 lastPx,
    u16 clOrdID,
    zchar[7] Note,
}
root packet Reject {
    @leftPad(' ') char[8] Side2,
    i8 clOrdID,
    repeat f32 x,
    u32 lastPx,
    match lastPx as Body {
        [30, 147] : Heartbeat,
        134 : Leg,
        183 : Logout,
        40 : Order,
    },
    u16 Ref @calculatedFrom(""CR\
C32""),
}
")).
Eval vm_compute in ("<<<M1853>>>" ++ check (runes_of_ascii "  // top
  packet  // c0
	A { u8 
    // c3

  a
,	// c5a
// c5b
  } // c6
  packet 
// c7
		B

{// c9a
// c9b
    	u16// c10a
	// c10b
b	// c11
    	, // c12
  }
	    // c13
	  root
packet // c15a
    // c15b

	P 
{ 	 // c17

  u8	// c18
    K	// c19

	,// c20
	match	// c21
    K	// c22
		as// c23
  	M 	 // c24a
// c24b
{ 
	// c25

  [  // c26
  1
	    // c27
    , 

// c28
  2	// c29a
    // c29b
]	// c30a
	  // c30b
: 	 // c31a
    	// c31b

A // c32a
	// c32b

,
	3
    // c34
:	// c35
B 	 // c36a
  // c36b
    	, 7	// c38
    : // c39a
// c39b
  A// c40
    , 	 // c41
} , 
// c43
} 
  // c44
 
")).
Eval vm_compute in ("<<<M1336>>>" ++ check (runes_of_ascii "options {
    LittleEndian = false;
    ArrayPrefixLenType = u8;
    FixedStringPadFromLeft = true;
    FixedStringPadChar = '0';
}
packet Heartbeat {
    string lastPx,
    uint8 Qty,
    i64 Acct,
    char[4] Ref,
}
packet Fill {
    uint8 Ref,
    Heartbeat,
    f32 OrderId,
    repeat f32 x,
}
root packet Order {
    zchar[2] OrderId,
    zchar[2] Acct,
    zchar[1] Note,
    zchar[9] Qty,
    string price,
    string tag7,
    u32 x,
    match x as Body {
        123 : Fill,
        112 : Heartbeat,
    },
    u32 seqNo @calculatedFrom(""CR\
C32""),
}
")).
Eval vm_compute in ("<<<M1119>>>" ++ check (runes_of_ascii "// top
root // c0
packet // c1
_x // c2
{ // c3
match // c4
Foo // c5
as // c6
Z9_ // c7
{ // c8
""a	b"" // c9
: // c10
Pad // c11
, // c12
} // c13
, // c14
repeat // c15
x // c16
`line1
line2` // c17
, // c18
@rightPad // c19
( // c20
' ' // c21
) // c22
@calculatedFrom( // c23
""a\\"" // c24
) // c25
metadata // c26
MetaDataX // c27
, // c28
@tag( // c29
0 // c30
) // c31
Logon // c32
int // c33
`` // c34
, // c35
} // c36
options // c37
{ // c38
T // c39
= // c40
'\x00' // c41
} // c42
")).
Eval vm_compute in ("<<<M140>>>" ++ check (runes_of_ascii "
root packet int{	repeat
    float tag , char[] roots
, @lengthOf( repeatCount ) @lengthOf( // packet A { u8 x, }
rootA)
uint16 o
    `tab	here` ,
    //	t
    i16 Pad `line1
line2` , Pad{match Pad as
    _x
{ [00]
:
    Z9_
, } ,} , repeat zchar calculatedFrom`a\` ,	f64 // @lengthOf(
charz
    //x
    ,Pad
    Foo,@calculatedFrom(
    """ ++ [28040; 24687]%N ++ runes_of_ascii """ )
    charz
    @lengthOf( charz ), @lengthOf(
    rootA ) match o
as body {00 :
x_y_z// " ++ [128512]%N ++ runes_of_ascii " emoji
} ,}
")).
Eval vm_compute in ("<<<M1236>>>" ++ check (runes_of_ascii "// top
options // c0a
  // c0b
{ f32a
    // c2
= // c3
0 } // c5
packet trueish // c7a
  // c7b
{ // c8
}
    // c9
MetaData _x // c11
{ char[ // c13a
  // c13b
0123456789 // c14
] // c15a
  // c15b
zchar
    // c16
, // c17a
  // c17b
string // c18
crc ,
    // c20
char[
    // c21
1 ] // c23a
  // c23b
options1
    // c24
, uint8 // c26a
  // c26b
repeatCount
    // c27
, // c28
} // c29
")).
Eval vm_compute in ("<<<M15>>>" ++ check (runes_of_ascii "MetaData // c
u128{
    }MetaData
    a1 {
}
    root packet	o {	char[
10 ]  stringy @lengthOf( Z9_) ,
match
x_y_z as stringy
{	3
: float ,
    } , @leftPad //	t
( ' '
    ) u128 {	repeat i32 msg_type `crlf
line` , x	, repeat char[	65535
] T, match
    A as
i8i8 { """ ++ [128512]%N ++ runes_of_ascii """ : Logon
, } //
, } ,
@rightPad (  '\x00') repeat x_y_z options1 `two words` , }
")).
Eval vm_compute in ("<<<M1810>>>" ++ check (runes_of_ascii "// top
options {
    // c1a
    // c1b
    zchar = true;
    Pad = char[00]
    // c10
    a1 = uint32// c13a
    // c13b
    BodyLength = true;
}

root packet T {
    @lengthOf(repeatCount)
    @tag(1)
    @calculatedFrom(""a	b"")
    // c31a
    // c31b
    string stringy @calculatedFrom(""\n"") `u8 x,`,// c38
}// c39")).
Eval vm_compute in ("<<<M1481>>>" ++ check (runes_of_ascii "MetaData BodyLength{

    uint16
leftPad`" ++ [233]%N ++ runes_of_ascii "`	// a // b

  ,
    uint8x
    asx
    , len

    lengthOf	`// not a comment`
, string
uint8x 
`doc` ,
}  options
	{

i8i8
	=
0 lengthOf=
0123456789

; }packet
	uint8x {
    @lengthOf( pack)	float64
	u8x @lengthOf( 
asx 	 //x
	) ,
} ")).
Eval vm_compute in ("<<<M1370>>>" ++ check (runes_of_ascii "options {
    LittleEndian = true;
}
packet Logon {
    u8 x,
    string user,
}
packet Logout {
    u16 reason,
}
packet Empty {
}
root packet Frame {
    u16 MsgType,
    u8 BodyLen @lengthOf(Body),
    u8 flags,
    Logon Body,
    u32 trailer,
}
")).
Eval vm_compute in ("<<<M364>>>" ++ check (runes_of_ascii "packet  _x
{ repeat char[] matchKey// " ++ [128512]%N ++ runes_of_ascii " emoji
, @leftPad( ) x_y_z/// triple
T , Pad
{ zchar[ 1] rootA `tab	here`
,},Foo
    @calculatedFrom(
    """"
    // trailing space 
    ),
}	packet MetaDataX {
float64 body, }
")).
Eval vm_compute in ("<<<M38>>>" ++ check (runes_of_ascii "options
{ falsey
    /// triple
    = false ; falsey=
    //
    int16// `tick` ""quote"" 'q'
;
    // `tick` ""quote"" 'q'
    A =
    // trailing space 
    u32  ;
    trueish	= 1  ;
    }
")).
Eval vm_compute in ("<<<M1695>>>" ++ check (runes_of_ascii "packet A {
    match k as n {
        [
            007, 66, 9, ""a"", ""bb"",
            ""d"", ""e"", ""g"", ""h"", ""j"",
            ""k""
        ] : B,
        2 : C,
    },
}")).
Eval vm_compute in ("<<<M461>>>" ++ check (runes_of_ascii "packet uint8x
{ match pack
    as msg_type	{
    0123456789 :	float
}
,
} packet packet //	t
a1
    { } options {packetx
    = '\x00'	; u128= ""a	b""  ; }
")).
Eval vm_compute in ("<<<M543>>>" ++ check (runes_of_ascii "packet uint8x
{ mat'1'ch pack
    as msg_type	{
    0123456789 :	float
}
,
} packet //	t
a1
    { } options {packetx
    = '\x00'	; u128= ""a	b""  ; }
")).
Eval vm_compute in ("<<<M536>>>" ++ check (runes_of_ascii "packet uint8x
{ match pack
    as msg_type	{
    0123456789 :	float
}
,
} packet //	t
a1
    { } options {packetx
    = '\x00'	/; u128= ""a	b""  ; }
")).
Eval vm_compute in ("<<<M473>>>" ++ check (runes_of_ascii "packet uint8x
{ match pack
    as msg_type	{
    0123456789 :	float
}
,
} packet //	t
a1
    ] } options {packetx
    = '\x00'	; u128= ""a	b""  ; }
")).
Eval vm_compute in ("<<<M530>>>" ++ check (runes_of_ascii "packet uint8x
{ match pack
    as msg_type	{
    0123456789 :	float
}
,
} packet //	t
a1
    { } options {packetx
    = '\x00'	; u128= ""a	b""  ; 
")).
Eval vm_compute in ("<<<M440>>>" ++ check (runes_of_ascii "packet uint8x
{ match pack
    as msg_type	{
    0123456789 :	
}
,
} packet //	t
a1
    { } options {packetx
    = '\x00'	; u128= ""a	b""  ; }
")).
Eval vm_compute in ("<<<M480>>>" ++ check (runes_of_ascii "packet uint8x
{ match pack
    as msg_type	{
    0123456789 :	float
}
,
} packet //	t
a1
    { }  {packetx
    = '\x00'	; u128= ""a	b""  ; }
")).
Eval vm_compute in ("<<<M646>>>" ++ check (runes_of_ascii "// @lengthOf(
packet i8i8 { u128 o , }
options { MetaDataX = true;
    BodyLength =""packet"" x_y_z= 
crc //x
= ""abc"" ;
    msg_type =
i16 }")).
Eval vm_compute in ("<<<M649>>>" ++ check (runes_of_ascii "// @lengthOf(
packet i8i8 { u128 o , }
options {  = true;
    BodyLength =""packet"" x_y_z= 007
crc //x
= ""abc"" ;
    msg_type =
i16 }")).
Eval vm_compute in ("<<<M1755>>>" ++ check (runes_of_ascii "packet A {
    u16 len @lengthOf(body) `a
    
    b`,
    u32 crc @calculatedFrom(""CRC32"") `a
    
    b`,
    string body,
}")).
Eval vm_compute in ("<<<M1145>>>" ++ check (runes_of_ascii "MetaData leftPad // c
{ chars MetaDataX , } packet repeatCount { char[ 255 ] uint8x `" ++ [233]%N ++ runes_of_ascii "` , } MetaData pack { As Foo , }")).
Eval vm_compute in ("<<<M1177>>>" ++ check (runes_of_ascii "MetaData leftPad { chars MetaDataX , } packet repeatCount { char[ 255 ] uint8x `" ++ [233]%N ++ runes_of_ascii "` , } MetaData // c
pack { As Foo , }")).
Eval vm_compute in ("<<<M1761>>>" ++ check (runes_of_ascii "packet A {
    u16 len @lengthOf(body) `x
    `,
    u32 crc @calculatedFrom(""CRC32"") `x
    `,
    string body,
}")).
Eval vm_compute in ("<<<M1885>>>" ++ check (runes_of_ascii "options {
    falsey = false;
    falsey = int16;
    // `tick` ""quote"" 'q'
    A = u32;
    trueish = 1;
}")).
Eval vm_compute in ("<<<M353>>>" ++ check (runes_of_ascii "options { _x
    =
    ""`tick`""	;matchKey=
""it's""
;	options1
    = u16 ; stringy= true
    // c
    }
")).
Eval vm_compute in ("<<<M885>>>" ++ check (runes_of_ascii "packet A {
  match k as n {
    [""a"", 22, ""c c"", 4, ""e"", 66, ""g"", 8, ""i"", 10] : B
    2 : C
  },
}")).
Eval vm_compute in ("<<<M886>>>" ++ check (runes_of_ascii "packet A {
  match k as n {
    [1, 22, ""c c"", 4, 5, ""f"", 7, 8, ""i"", 10] : B,
    2 : C
  },
}")).
Eval vm_compute in ("<<<M608>>>" ++ check (runes_of_ascii "
packet
    asx {match u128 as lengthOf
{
//	t
// `tick` ""quote"" 'q'
255 : x , ,
    } ,	}")).
Eval vm_compute in ("<<<M589>>>" ++ check (runes_of_ascii "
packet
    asx {match u128 as lengthOf
255
//	t
// `tick` ""quote"" 'q'
{ : x ,
    } ,	}")).
Eval vm_compute in ("<<<M643>>>" ++ check (runes_of_ascii "
packet
    asx {match x" ++ [178]%N ++ runes_of_ascii " as lengthOf
{
//	t
// `tick` ""quote"" 'q'
255 : x ,
    } ,	}")).
Eval vm_compute in ("<<<M861>>>" ++ check (runes_of_ascii "packet A {
  match k as n {
    [1, 22, ""c c"", 4, 5, ""f"", 7, 8] : B
    2 : C
  },
}")).
Eval vm_compute in ("<<<M1790>>>" ++ check (runes_of_ascii "packet A {
    match k as n {
        [1, 22, ""c c""] : B,
        2 : C,
    },
}")).
Eval vm_compute in ("<<<M817>>>" ++ check (runes_of_ascii "packet A {
  match k as n {
    [1, ""bb"", 007, ""d"", 5] : B,
    2 : C
  },
}")).
Eval vm_compute in ("<<<M1623>>>" ++ check (runes_of_ascii "packet body 
{ 
    // c
      i32
f32a  `{ , }` 
,
	}

options
    {}

")).
Eval vm_compute in ("<<<M1630>>>" ++ check (runes_of_ascii "packet A
{

match

    k as n 
{
[

    1 
]	:	B
    2:

C}
, }")).
Eval vm_compute in ("<<<M838>>>" ++ check (runes_of_ascii "packet A { Inner { match k as n { [1,22,007,4,5,66] : B, }, }, }")).
Eval vm_compute in ("<<<M948>>>" ++ check (runes_of_ascii "packet A {
    B b `x
`,
    B `x
`,
    repeat B bs `x
`,
}")).
Eval vm_compute in ("<<<M148>>>" ++ check (runes_of_ascii "options
{
    a1	=""packet""// a // b
; } // @lengthOf(")).
Eval vm_compute in ("<<<M1211>>>" ++ check (runes_of_ascii "packet body { i32 f32a `{ , }` , // c
} options { }")).
Eval vm_compute in ("<<<M1125>>>" ++ check (runes_of_ascii "// top
MetaData // c0
u // c1
{ // c2
} // c3
")).
Eval vm_compute in ("<<<M933>>>" ++ check (runes_of_ascii "MetaData M {
    u8 x `
`,
    T t `
`,
}")).
Eval vm_compute in ("<<<M964>>>" ++ check (runes_of_ascii "root packet A {
    u8 x `tab
	x`,
}")).
Eval vm_compute in ("<<<M1439>>>" ++ check (runes_of_ascii "packet A {
    repeat B b `d`,
}")).
Eval vm_compute in ("<<<M1053>>>" ++ check (runes_of_ascii "packet A {
 u8 x `d" ++ [65279]%N ++ runes_of_ascii "`, // c" ++ [65279]%N ++ runes_of_ascii "
}")).
Eval vm_compute in ("<<<M1406>>>" ++ check (runes_of_ascii "// c

MetaData
tag
{
}
")).
Eval vm_compute in ("<<<M1930>>>" ++ check (runes_of_ascii "
packet  A{ 
}	// c 	
")).
Eval vm_compute in ("<<<M1041>>>" ++ check (runes_of_ascii "packet A {
}
// c 	")).
Eval vm_compute in ("<<<M1011>>>" ++ check (runes_of_ascii "packet A {
}
// c" ++ [8232]%N)).
Eval vm_compute in ("<<<M974>>>" ++ check (runes_of_ascii "packet A {
}// c ")).
Eval vm_compute in ("<<<M46>>>" ++ check (runes_of_ascii "//x

// a // b
")).
Eval vm_compute in ("<<<M29>>>" ++ check (runes_of_ascii "// " ++ [27880; 37322]%N ++ runes_of_ascii "

")).
Eval vm_compute in ("<<<M754>>>" ++ check (runes_of_ascii "Y )'")).
