From FP Require Import Lexer Parser ShowPT Digest Formatter.
From Coq Require Import String List NArith.
Import ListNotations.
Open Scope string_scope.
Set Printing Width 100000000.
Set Printing Depth 100000000.
Definition show_fres (r : fres) : string :=
  match r with
  | FOk s => "OK:" ++ sh_escaped s ""
  | FErr s => "ERR:" ++ sh_escaped s ""
  | FPanic p => "PANIC:" ++ p
  end.
Definition check (rs : list rune) : string := digest (show_fres (format_res rs)).
Definition full (rs : list rune) : string := show_fres (format_res rs).
Eval vm_compute in ("<<<M1365>>>" ++ check (runes_of_ascii "// top
options // c0a
  // c0b
{ // c1
StringPrefixLenType // c2a
  // c2b
= // c3
u8
    // c4
; // c5a
  // c5b
ArrayPrefixLenType // c6
= // c7a
  // c7b
u8 // c8
; // c9
FixedStringPadFromLeft
    // c10
= // c11
false ; // c13
FixedStringPadChar
    // c14
= ' ' ; // c17a
  // c17b
}
    // c18
packet // c19
Ack
    // c20
{
    // c21
char[]
    // c22
tag7
    // c23
, }
    // c25
packet Reject // c27a
  // c27b
{ InSym61 // c29a
  // c29b
{ // c30
repeat // c31
Ack , zchar[ // c34
4 ] // c36a
  // c36b
f1 // c37a
  // c37b
, } // c39a
  // c39b
, } // c41
packet // c42a
  // c42b
Logout {
    // c44
char[ // c45a
  // c45b
4 // c46a
  // c46b
] // c47a
  // c47b
clOrdID
    // c48
, // c49
}
    // c50
root // c51
packet // c52a
  // c52b
Cancel // c53a
  // c53b
{ @leftPad
    // c55
( // c56a
  // c56b
' ' // c57a
  // c57b
) char[ 10 // c60a
  // c60b
] price
    // c62
,
    // c63
u8 // c64
x
    // c65
, u32 // c67a
  // c67b
venue // c68a
  // c68b
@lengthOf( // c69
Body
    // c70
) , // c72
match // c73a
  // c73b
x // c74a
  // c74b
as
    // c75
Body
    // c76
{
    // c77
[ // c78a
  // c78b
92 // c79
, 175 // c81
] : Logout , 26 :
    // c87
Reject // c88
, // c89a
  // c89b
144
    // c90
: // c91
Ack // c92a
  // c92b
, } // c94
, // c95
u16
    // c96
count // c97
@calculatedFrom(
    // c98
""CRC32""
    // c99
) // c100
, } ")).
Eval vm_compute in ("<<<M1857>>>" ++ check (runes_of_ascii "packet _x {
    leftPad `it's`,
    match Logon as matchKey {
        ""packet"" : stringy,
        3 : u,
        //
        ""1"" : Pad,
    },
    float32 Z9_ @lengthOf(i8i8) `" ++ [233]%N ++ runes_of_ascii "`,
    @tag(3)
    match As as Pad {
        """" : chars,
        ""x y"" : i64_,
    },
    @calculatedFrom(""it's"")
    @leftPad(' ')
    zchar[0123456789] falsey,
    match A as packetx {
        [42] : matchKey,
    },
    @leftPad(' ')
    match x as a1 {
        ""packet"" : a1,
        10 : pack,
        ""{,}"" : u8x,
        [007, 00] : trueish,
        ""x y"" : pack,
        """ ++ [233]%N ++ runes_of_ascii "t" ++ [233]%N ++ runes_of_ascii """ : matchKey,
    },
    @leftPad('0')
    uint8x u,
    zchar[3] u ``,
    @rightPad(' ')
    repeat _x ``,
}

MetaData Foo {
    a1 Z9_,
    options1 T,
    u32 u8x `crlf
        line`,
    metadata falsey,
    lengthOf x_y_z,
}

packet calculatedFrom {
    @tag(3)
    string A,
    match leftPad as a1 {
        //	t
        0123456789 : calculatedFrom,
    },
    match crc as body {
        00 : _x,
    },
    o @calculatedFrom(""x y""),
}

packet T {
}

packet Logon {
    @leftPad('\x00')
    As @calculatedFrom(""a	b"") `line1
        line2`,
    pack lengthOf,
}// `tick` ""quote"" 'q'")).
Eval vm_compute in ("<<<M1696>>>" ++ check (runes_of_ascii "  options

{FixedStringPadFromLeft
=	true ;
FixedStringPadChar 
=
'0' ; }packet Leg
{	InPrice0{
    repeat	string clOrdID

    ,  int16 msgKind
, zchar[
5 ]
	Px 
, }, i16  f1
, repeat
    f64

    Side2 ,

    string Acct,	}	packet Cancel

{

    zchar[4 ] 
clOrdID
,
	string seqNo ,

    Leg ,

@leftPad 
(
    '0'
	)char[11

    ] OrderId

    , }  packet
    Quote
{ repeat	char[ 4]

    sym
	,
	f64
OrderId
,
repeat Leg

    ,repeat

i64  f1
	,  int16

Note, zchar[ 3
    ] count 
,  }
root 
packet
Ack	{

    @leftPad

(

    ' '
)
char[ 10
    ] sym

    , InPx60 {	Cancel	,
	repeat char[
1

]

f1

,
string
Tail,
    repeat

InNote55	{
int8 
count	,f64 f1

,repeat

    Cancel  ,
	}
,
char[]	tag7	,
    repeat string

msgKind
    ,}
,u8 lastPx ,
    match
	lastPx
    as 
Body
{
    152 
:  Quote  ,

    173
:
    Cancel  ,4
	: 
Leg ,
} ,
	u16

    Ref @calculatedFrom( ""CR\
C32"")  ,  }
")).
Eval vm_compute in ("<<<M28>>>" ++ check (runes_of_ascii "options
    { string_
= false
    ; falsey  = char[// " ++ [128512]%N ++ runes_of_ascii " emoji
4294967296 ] ; } packet
    zchar{match float as len { [ """ ++ [233]%N ++ runes_of_ascii "t" ++ [233]%N ++ runes_of_ascii """ ]:
matchKey
    , 3 : // " ++ [27880; 37322]%N ++ runes_of_ascii "
u [ 4294967296
, ""1"" ] :
// `tick` ""quote"" 'q'
// c
zchar , } // c
,} MetaData
    // @lengthOf(
    T {
// c
// a // b
}	packet packetx  { uint16 uint8x @calculatedFrom( ""it's"" ) ,
stringy { i16 crc
`{ , }`	, }
, zchar[ 00
] x
,
    zchar{ uint64 tag , zchar
f32a	`say ""hi""` , uint32 A `{ , }` , match _x as
falsey
{ [ 007// " ++ [128512]%N ++ runes_of_ascii " emoji
,
    """ ++ [128512]%N ++ runes_of_ascii """] :
    matchKey// " ++ [128512]%N ++ runes_of_ascii " emoji
[ 0123456789,3 ] : T
// " ++ [128512]%N ++ runes_of_ascii " emoji
// `tick` ""quote"" 'q'
1: Foo ,
}
    ,// trailing space 
} ,A ,
    zchar[
    // packet A { u8 x, }
    4294967296 ] string_ @lengthOf( float ) ,match rootA as As
    { [ ""it's"",
255 , 0123456789 ,
// packet A { u8 x, }
//	t
""" ++ [233]%N ++ runes_of_ascii "t" ++ [233]%N ++ runes_of_ascii """	, ""{,}"" ,	""abc""
    , """ ++ [233]%N ++ runes_of_ascii "t" ++ [233]%N ++ runes_of_ascii """]:int, 4294967296 : tag , } , }
")).
Eval vm_compute in ("<<<M1380>>>" ++ check (runes_of_ascii "// top
options // c0
{ // c1
LittleEndian = true
    // c4
;
    // c5
}
    // c6
packet // c7
Logon
    // c8
{ // c9a
  // c9b
u8 // c10
x // c11
,
    // c12
string
    // c13
user
    // c14
,
    // c15
} // c16
packet // c17
Logout {
    // c19
u16 // c20a
  // c20b
reason // c21a
  // c21b
, // c22
}
    // c23
packet
    // c24
Empty { // c26a
  // c26b
}
    // c27
root // c28
packet
    // c29
Frame // c30
{ // c31
u16 // c32a
  // c32b
MsgType , // c34a
  // c34b
u8 BodyLen // c36a
  // c36b
@lengthOf(
    // c37
Body
    // c38
) , // c40a
  // c40b
u8 // c41a
  // c41b
flags // c42a
  // c42b
, Logon // c44a
  // c44b
Body
    // c45
, // c46a
  // c46b
u32 // c47a
  // c47b
trailer // c48a
  // c48b
, // c49a
  // c49b
} // c50a
  // c50b
")).
Eval vm_compute in ("<<<M1780>>>" ++ check (runes_of_ascii "packet tag {
    @calculatedFrom(""x y"")
    lengthOf {
        options1 `
        `,
    },
    @tag(7)
    int {
        //x
        // " ++ [27880; 37322]%N ++ runes_of_ascii "
        char[007] calculatedFrom @lengthOf(metadata),
        tag @lengthOf(falsey),
        f32 calculatedFrom `{ , }`,
        i8i8 {
            string i64_ @lengthOf(asx) `it's`,
            u @calculatedFrom(""\n""),
        },
    },
    @calculatedFrom(""abc"")
    @leftPad(' ')
    uint64 calculatedFrom,// " ++ [27880; 37322]%N ++ runes_of_ascii "
}

packet o {
    Header,
    @lengthOf(i8i8)
    float32 Pad,
    char[42] leftPad @calculatedFrom(""""),
    @tag(255)
    body u,
}

packet lengthOf {
    // packet A { u8 x, }
    // c
    @tag(255)
    char[0123456789] o `
    `,
}")).
Eval vm_compute in ("<<<M247>>>" ++ check (runes_of_ascii "
options { leftPad // packet A { u8 x, }
= 0
;
    //
    Logon
    =
char // `tick` ""quote"" 'q'
i64_ = '\x00'
; }
options { crc =
i32	; matchKey =
255
    leftPad = ' ' ; metadata= 42// trailing space 
; packetx =10
    }
root packet//
A { @calculatedFrom( ""x y"" // c
)/// triple
zchar[ 00]
f32a, @tag(
255 )
    zchar[
0123456789 ]	a1
@lengthOf(As )`" ++ [28040; 24687; 31867; 22411]%N ++ runes_of_ascii "`
    /// triple
    , int16 body, // `tick` ""quote"" 'q'
uint64
x
@calculatedFrom(""1""
//	t
// " ++ [128512]%N ++ runes_of_ascii " emoji
) // packet A { u8 x, }
`line1
line2` ,@lengthOf( Logon )char[
    0// packet A { u8 x, }
]float@calculatedFrom(
""abc"" ) ,
} MetaData u128 { }
")).
Eval vm_compute in ("<<<M1366>>>" ++ check (runes_of_ascii "
options {

    StringPrefixLenType	= u8
	;
ArrayPrefixLenType	= u8  ; FixedStringPadFromLeft
    =
    false ;
FixedStringPadChar
=
    ' '
;
    }

packet Ack
	{ char[] 
tag7 ,}

    packet
Reject
	{
	InSym61 { 
repeat
Ack ,zchar[
4
	]
f1
	,	}	,	}

packet 
Logout 
{
    char[

4 ]clOrdID

,}

root  packet
	Cancel  { @leftPad
( ' '	)

char[  10	]
price,u8 x

    ,
	u32 venue

    @lengthOf(
    Body
)

,
match
	x as Body 
{
    [
	92,

175

]:
	Logout

,26

: Reject 
, 144 :Ack

, }
,u16

    count
	@calculatedFrom( ""CRC32""

),
} ")).
Eval vm_compute in ("<<<M1420>>>" ++ check (runes_of_ascii "// top

MetaData
    // c0

  uint8x 
    // c1
{ 
// c2
    char[] 
        // c3
	f32a 
	// c4
		`// not a comment`

    // c5

,  
      // c6
  float32
        // c7
  roots 
    // c8
    ,

// c9
	  char[ 
	// c10
  7 
	    // c11
] 
        // c12
    u8x 
    // c13
, 
    // c14
		zchar[ 
// c15
		10

// c16

	]
    // c17
	f32a  
      // c18
    , 
  // c19
  u64 

// c20
  pack 

// c21
, 

// c22
u16 
  // c23
  pack

    // c24
, 
    // c25
}
        // c26")).
Eval vm_compute in ("<<<M1594>>>" ++ check (runes_of_ascii "

  MetaData  T { a1

Packet,	// " ++ [128512]%N ++ runes_of_ascii " emoji
uint8x

    // @lengthOf(
    	//x

Pad`" ++ [233]%N ++ runes_of_ascii "`,

a1 
    // " ++ [27880; 37322]%N ++ runes_of_ascii "
  	MetaDataX  ,
zchar[
    00	]

    metadata
    `u8 x,` 
,
	Pad// trailing space 
  x

`
`  ,i8 
u8x
,
}  options	{  As 
=

    false  ; }	root

packet options1
    {
	@calculatedFrom(""// no comment"" )
@lengthOf( _x
	)
    @tag(
	007
)repeat
// trailing space 

// @lengthOf(
  f32
i8i8`" ++ [233]%N ++ runes_of_ascii "` , @rightPad  ( ' ' // " ++ [27880; 37322]%N ++ runes_of_ascii "

)  repeat Pad
,

    }")).
Eval vm_compute in ("<<<M1459>>>" ++ check (runes_of_ascii "options {
}

packet charz {
    @rightPad(' ')
    @calculatedFrom(""a\\"")
    repeat int crc `two words`,
    string stringy @calculatedFrom(""a	b"") `// not a comment`,//
    char i8i8,
}

MetaData crc {
    // `tick` ""quote"" 'q'
    crc i64_ `{ , }`,
    // `tick` ""quote"" 'q'
    i32 u128,// packet A { u8 x, }
    BodyLength Header,
    char[0123456789] Packet `u8 x,`,
    uint8 repeatCount,//	t
}")).
Eval vm_compute in ("<<<M1929>>>" ++ check (runes_of_ascii "options
{ LittleEndian	=true  ;
	}

packet 
Logon {  u8 x  ,
    }
    packet
	Logout
    {

u16 reason
,
	}

    root
	packet

    Frame  {

u64

    Kind

    ,
	u64
	Kind2

    ,
	match Kind
as

    Body {

1	:Logon
,[
    2
	, 3 
, 
4 ]
:Logout ,

    100:
	Logon
,
},  match
    Kind2 as

    Trailer  {
    0

    : Logout
,
} 
,}")).
Eval vm_compute in ("<<<M1896>>>" ++ check (runes_of_ascii "packet a1 {
    @leftPad()
    float @lengthOf(uint8x),
}

packet Logon {
    char Logon @calculatedFrom(""a\\""),
    T stringy,
    //
    // c
    repeat uint8 stringy `two words`,
}

MetaData charz {
    u tag `
    `,
    a1 falsey,//x
    Z9_ matchKey,
    f64 lengthOf `a\`,
    f32a roots ``,
    float64 x_y_z,
}")).
Eval vm_compute in ("<<<M89>>>" ++ check (runes_of_ascii "packet Foo // " ++ [128512]%N ++ runes_of_ascii " emoji
{@lengthOf( f32a )
char[
0123456789 //	t
] float `u8 x,` ,}
    packet // a // b
i64_ {@lengthOf(stringy // packet A { u8 x, }
)
    char[] int @calculatedFrom(""{,}"" ) ,@tag(
007 ) //
int64
stringy`" ++ [233]%N ++ runes_of_ascii "` ,  char[]A @calculatedFrom(
""\" ++ [233]%N ++ runes_of_ascii """
    )	`doc` ,// " ++ [27880; 37322]%N ++ runes_of_ascii "
}
")).
Eval vm_compute in ("<<<M202>>>" ++ check (runes_of_ascii "packet Z9_
    { @calculatedFrom( ""packet"") char //
BodyLength , match chars as falsey {[65535,
    // c
    """ ++ [128512]%N ++ runes_of_ascii """ ,""" ++ [28040; 24687]%N ++ runes_of_ascii """ , ""`tick`""  , 10,
    ""a\\"" ,""a\""b"" // @lengthOf(
]: repeatCount , ""x y"" :chars , // " ++ [128512]%N ++ runes_of_ascii " emoji
65535
://x
calculatedFrom , } , }
")).
Eval vm_compute in ("<<<M364>>>" ++ check (runes_of_ascii "packet  _x
{ repeat char[] matchKey// " ++ [128512]%N ++ runes_of_ascii " emoji
, @leftPad( ) x_y_z/// triple
T , Pad
{ zchar[ 1] rootA `tab	here`
,},Foo
    @calculatedFrom(
    """"
    // trailing space 
    ),
}	packet MetaDataX {
float64 body, }
")).
Eval vm_compute in ("<<<M1509>>>" ++ check (runes_of_ascii "packet A {
    Inner {
        match k as n {
            [
                1, 22, 007, 4, 5,
                66, 7, 8, 9, 10,
                11, 12
            ] : B,
        },
    },
}")).
Eval vm_compute in ("<<<M191>>>" ++ check (runes_of_ascii "options
{ Logon
=char[	00
]
;
zchar
    = false Logon =	i8
    ;}options { asx = '0' int = ""\" ++ [233]%N ++ runes_of_ascii """  calculatedFrom= '\x00'// packet A { u8 x, }
; // `tick` ""quote"" 'q'
}
")).
Eval vm_compute in ("<<<M418>>>" ++ check (runes_of_ascii "packet uint8x
{ match pack
    @rightPad msg_type	{
    0123456789 :	float
}
,
} packet //	t
a1
    { } options {packetx
    = '\x00'	; u128= ""a	b""  ; }
")).
Eval vm_compute in ("<<<M552>>>" ++ check (runes_of_ascii "packet uint8x
{ match pack
    as msg_type	{
    0123456789 :	float
}
,
} packet //	t
na" ++ [239]%N ++ runes_of_ascii "ve
    { } options {packetx
    = '\x00'	; u128= ""a	b""  ; }
")).
Eval vm_compute in ("<<<M536>>>" ++ check (runes_of_ascii "packet uint8x
{ match pack
    as msg_type	{
    0123456789 :	float
}
,
} packet //	t
a1
    { } options {packetx
    = '\x00'	/; u128= ""a	b""  ; }
")).
Eval vm_compute in ("<<<M477>>>" ++ check (runes_of_ascii "packet uint8x
{ match pack
    as msg_type	{
    0123456789 :	float
}
,
} packet //	t
a1
    { options } {packetx
    = '\x00'	; u128= ""a	b""  ; }
")).
Eval vm_compute in ("<<<M676>>>" ++ check (runes_of_ascii "// @lengthOf(
packet i8i8 { u128 o , }
options { MetaDataX = true;
    BodyLength =""packet"" x_y_z x_y_z= 007
crc //x
= ""abc"" ;
    msg_type =
i16 }")).
Eval vm_compute in ("<<<M520>>>" ++ check (runes_of_ascii "packet uint8x
{ match pack
    as msg_type	{
    0123456789 :	float
}
,
} packet //	t
a1
    { } options {packetx
    = '\x00'	; u128=   ; }
")).
Eval vm_compute in ("<<<M529>>>" ++ check (runes_of_ascii "packet uint8x
{ match pack
    as msg_type	{
    0123456789 :	float
}
,
} packet //	t
a1
    { } options {packetx
    = '\x00'	; u128= ""a	b""")).
Eval vm_compute in ("<<<M646>>>" ++ check (runes_of_ascii "// @lengthOf(
packet i8i8 { u128 o , }
options { MetaDataX = true;
    BodyLength =""packet"" x_y_z= 
crc //x
= ""abc"" ;
    msg_type =
i16 }")).
Eval vm_compute in ("<<<M1458>>>" ++ check (runes_of_ascii "
packet	A
{

match 
k as n  {[
""a"" ,

""bb""
    ,""c c"" ,""d"" 
,
""e"" ,""f""

,
""g""
    ,

    ""h"" ,  ""i""

    ] :

B 
2:
C
} ,
}

")).
Eval vm_compute in ("<<<M1721>>>" ++ check (runes_of_ascii "// c
MetaData leftPad {
    chars MetaDataX,
}

packet repeatCount {
    char[255] uint8x `" ++ [233]%N ++ runes_of_ascii "`,
}

MetaData pack {
    As Foo,
}")).
Eval vm_compute in ("<<<M34>>>" ++ check (runes_of_ascii "options {
Logon = 0 } options { msg_type = 3
    MetaDataX =
    // " ++ [128512]%N ++ runes_of_ascii " emoji
    int8
    uint8x=""""
    ;
    As = '0' }")).
Eval vm_compute in ("<<<M1165>>>" ++ check (runes_of_ascii "MetaData leftPad { chars MetaDataX , } packet repeatCount { char[ 255 // c
] uint8x `" ++ [233]%N ++ runes_of_ascii "` , } MetaData pack { As Foo , }")).
Eval vm_compute in ("<<<M938>>>" ++ check (runes_of_ascii "packet A {
    Inner {
        u8 x `a
    b
  c`,
        Deep {
            u8 y `a
    b
  c`,
        },
    },
}")).
Eval vm_compute in ("<<<M973>>>" ++ check (runes_of_ascii "packet A {
    match k as n {
        ""\
"" : B,
        [""\
"", 1] : C,
        [1,2,3,4,5,""\
""] : D,
    },
}")).
Eval vm_compute in ("<<<M1726>>>" ++ check (runes_of_ascii "
packet

A
	{
	match
k
	as	n 
{	[1  ,

    ""bb"",  007	,""d""

    , 5 ]:

    B
    2

:C
}

, }

")).
Eval vm_compute in ("<<<M583>>>" ++ check (runes_of_ascii "
packet
    asx {match u128 as lengthOf lengthOf
{
//	t
// `tick` ""quote"" 'q'
255 : x ,
    } ,	}")).
Eval vm_compute in ("<<<M1254>>>" ++ check (runes_of_ascii "
packet
    Inner {
    u8 a

,
} root
	packet P

    {  repeat
    Inner items,	u8 
x	, } ")).
Eval vm_compute in ("<<<M474>>>" ++ check (runes_of_ascii "packet uint8x
{ match pack
    as msg_type	{
    0123456789 :	float
}
,
} packet //	t
a1")).
Eval vm_compute in ("<<<M1704>>>" ++ check (runes_of_ascii "options

    {}  // " ++ [128512]%N ++ runes_of_ascii " emoji
      options { float// `tick` ""quote"" 'q'
  = 65535
    }
")).
Eval vm_compute in ("<<<M857>>>" ++ check (runes_of_ascii "packet A {
  match k as n {
    [1, ""bb"", 007, ""d"", 5, ""f"", 7, ""h""] : B
    2 : C
  },
}")).
Eval vm_compute in ("<<<M390>>>" ++ check (runes_of_ascii "root packet SimpleMessage {
	uint16 MsgType `" ++ [28040; 24687; 31867; 22411]%N ++ runes_of_ascii "`,
	string JsonBody `Json" ++ [23383; 31526; 20018; 28040; 24687; 20307]%N ++ runes_of_ascii "`,
}")).
Eval vm_compute in ("<<<M853>>>" ++ check (runes_of_ascii "packet A {
  match k as n {
    [1, 22, 007, 4, 5, 66, 7, 8] : B
    2 : C
  },
}")).
Eval vm_compute in ("<<<M743>>>" ++ check (runes_of_ascii "int16 zchar[ } `doc` char u16 uint16 true false u8 msg_type """ ++ [233]%N ++ runes_of_ascii "t" ++ [233]%N ++ runes_of_ascii """ ""a\\"" pack")).
Eval vm_compute in ("<<<M805>>>" ++ check (runes_of_ascii "packet A {
  match k as n {
    [1, ""bb"", 007, ""d""] : B
    2 : C
  },
}")).
Eval vm_compute in ("<<<M1920>>>" ++ check (runes_of_ascii "
packet A

{ u8
    x
, }// a
		// b
		packet
B { }  // c
  // d")).
Eval vm_compute in ("<<<M155>>>" ++ check (runes_of_ascii "options
{calculatedFrom
= ""abc""
;float=i16
} // trailing space ")).
Eval vm_compute in ("<<<M1091>>>" ++ check (runes_of_ascii "packet A { @leftPad() char[4] x, @rightPad( ) zchar[2] y, }")).
Eval vm_compute in ("<<<M1810>>>" ++ check (runes_of_ascii "packet body {
    i32 f32a `{ , }`,
}

options {
}
// c")).
Eval vm_compute in ("<<<M1210>>>" ++ check (runes_of_ascii "packet body { i32 f32a `{ , }`
// c
, } options { }")).
Eval vm_compute in ("<<<M1455>>>" ++ check (runes_of_ascii "MetaData _x {
    i64 u128,
    Packet Header,
}")).
Eval vm_compute in ("<<<M957>>>" ++ check (runes_of_ascii "MetaData M {
    u8 x `
x`,
    T t `
x`,
}")).
Eval vm_compute in ("<<<M1396>>>" ++ check (runes_of_ascii "packet 
A

    { 
u8
    x`a
b` ,	}")).
Eval vm_compute in ("<<<M1394>>>" ++ check (runes_of_ascii "options {
    metadata = ""a\\"";
}")).
Eval vm_compute in ("<<<M978>>>" ++ check (runes_of_ascii "packet A {
 u8 x `d `, // c 
}")).
Eval vm_compute in ("<<<M757>>>" ++ check (runes_of_ascii "z>" ++ [65533]%N ++ runes_of_ascii "*" ++ [65533]%N ++ runes_of_ascii "7" ++ [65533; 65533; 65533; 65533]%N ++ runes_of_ascii "+" ++ [65533]%N ++ runes_of_ascii "~" ++ [65533; 0; 65533; 65533]%N ++ runes_of_ascii "c" ++ [1171]%N ++ runes_of_ascii "n" ++ [65533; 65533; 65533; 12; 65533]%N ++ runes_of_ascii "E>K")).
Eval vm_compute in ("<<<M380>>>" ++ check (runes_of_ascii "root packet	Packet { }
")).
Eval vm_compute in ("<<<M1626>>>" ++ check (runes_of_ascii "// `tick` ""quote"" 'q'")).
Eval vm_compute in ("<<<M112>>>" ++ check (runes_of_ascii "packet falsey { }
")).
Eval vm_compute in ("<<<M1051>>>" ++ check (runes_of_ascii "packet A {
}
// c" ++ [65279]%N)).
Eval vm_compute in ("<<<M1082>>>" ++ check (runes_of_ascii "options { // a
 }")).
Eval vm_compute in ("<<<M1709>>>" ++ check (runes_of_ascii "MetaData u {
}")).
Eval vm_compute in ("<<<M758>>>" ++ check (runes_of_ascii "LE]u'")).
Eval vm_compute in ("<<<M730>>>" ++ check (runes_of_ascii "//")).
