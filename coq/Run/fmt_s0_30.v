From FP Require Import Lexer Parser ShowPT Digest Formatter.
From Coq Require Import String List NArith.
Import ListNotations.
Open Scope string_scope.
Set Printing Width 100000000.
Set Printing Depth 100000000.
Definition show_fres (r : fres) : string :=
  match r with
  | FOk s => "OK:" ++ sh_escaped s ""
  | FErr s => "ERR:" ++ sh_escaped s ""
  | FPanic p => "PANIC:" ++ p
  end.
Definition check (rs : list rune) : string := digest (show_fres (format_res rs)).
Definition full (rs : list rune) : string := show_fres (format_res rs).
Eval vm_compute in ("<<<M106>>>" ++ check (runes_of_ascii "packet //	t
packetx { } root packet repeatCount
// trailing space 
// 50% %s
{
    int16
    rootA @lengthOf(// " ++ [27880; 37322]%N ++ runes_of_ascii "
len) ``
// " ++ [128512]%N ++ runes_of_ascii " emoji
// trailing space 
, i32 A
@calculatedFrom( ""a\\"" ), i16 asx @calculatedFrom( ""x y""
) ,repeat char[]
    x,}
root
    packet
lengthOf//x
{ @leftPad ( '0')@calculatedFrom(
""\" ++ [233]%N ++ runes_of_ascii """ ) @lengthOf( // @lengthOf(
Z9_
    ) repeat char[]  As
, @rightPad ( ' ' // @lengthOf(
)
    repeat	zchar
, match a1
as pack
{ [  3  ]
    : lengthOf ,[ 007
, ""x y"" ] :
A, } ,
    repeat chars { char[ 4294967296
] //
body , body @lengthOf( pack), string Z9_
    , } , @leftPad( ' ' )
zchar[ // packet A { u8 x, }
255]Header , @tag(0
//	t
// 50% %s
)repeat char[ 00 ]
    // " ++ [27880; 37322]%N ++ runes_of_ascii "
    roots	,match crc as body { ""`tick`"" ://	t
a1 } , @tag( 1 ) char[] rootA @calculatedFrom( """ ++ [233]%N ++ runes_of_ascii "t" ++ [233]%N ++ runes_of_ascii """
// `tick` ""quote"" 'q'
//
) // a // b
,	} packet pack  {
match Packet
as /// triple
repeatCount
{
    //x
    ""a	b"" : pack, } , packetx packetx
,//	t
match
    // c
    o  as Packet { // a // b
0123456789 :
lengthOf,// `tick` ""quote"" 'q'
""CRC32""
    :
i64_ , 1
    :asx ,	""\" ++ [233]%N ++ runes_of_ascii """
:
    // packet A { u8 x, }
    o
    ,
    ""a	b"" :u128, ""// no comment"" :Packet
,
    // `tick` ""quote"" 'q'
    } ,
    @leftPad ( '0')@calculatedFrom(
    """ ++ [128512]%N ++ runes_of_ascii """ ) A @calculatedFrom( ""{,}""  ) `u8 x,`,	@tag( 255 ) float32 MetaDataX
, char[]u128@lengthOf( zchar ),
    match
x	as _x
{00 :
A ,} ,
    //	t
    }")).
Eval vm_compute in ("<<<M311>>>" ++ check (runes_of_ascii "packet falsey  {
    /// triple
    string i8i8 @calculatedFrom(
""a\\""
    )	, // " ++ [128512]%N ++ runes_of_ascii " emoji
@calculatedFrom(
    """ ++ [233]%N ++ runes_of_ascii "t" ++ [233]%N ++ runes_of_ascii """ ) repeat a1
,
    } options { falsey =0
// packet A { u8 x, }
// c
Foo
    = //x
""\" ++ [233]%N ++ runes_of_ascii """ ; } root packet
packetx { metadata @lengthOf(
asx ),
// @lengthOf(
//	t
char[] BodyLength @calculatedFrom(
    """ ++ [233]%N ++ runes_of_ascii "t" ++ [233]%N ++ runes_of_ascii """
)`" ++ [233]%N ++ runes_of_ascii "`	, metadata{
    repeat rootA i64_
    `a\`
    // " ++ [128512]%N ++ runes_of_ascii " emoji
    , u8x
// a // b
// `tick` ""quote"" 'q'
chars
    ,
repeat int64 string_ // " ++ [27880; 37322]%N ++ runes_of_ascii "
`{ , }` // trailing space 
,} , @tag( 4294967296
    // " ++ [27880; 37322]%N ++ runes_of_ascii "
    )
u64
tag  @lengthOf( pack ) , // `tick` ""quote"" 'q'
u128 Z9_ ``
    , repeat
// @lengthOf(
// `tick` ""quote"" 'q'
i16 lengthOf , @calculatedFrom( ""`tick`"" )
// `tick` ""quote"" 'q'
// @lengthOf(
repeat// a // b
char[ //
00 ]
    //	t
    Packet `it's` , uint16 Pad, @calculatedFrom( ""a\\"" )match int
//
// " ++ [27880; 37322]%N ++ runes_of_ascii "
as
    pack
{ 00 : u , [ ""x y"" ]:asx  , """ ++ [28040; 24687]%N ++ runes_of_ascii """
    :
string_
    // trailing space 
    1 : Pad , },	@calculatedFrom( // " ++ [27880; 37322]%N ++ runes_of_ascii "
""" ++ [233]%N ++ runes_of_ascii "t" ++ [233]%N ++ runes_of_ascii """ ) roots @calculatedFrom( ""// no comment"" // @lengthOf(
) ,	}
    packet zchar  { // 50% %s
@leftPad	( '0' ) T `line1
line2`
    ,
    }
")).
Eval vm_compute in ("<<<M1612>>>" ++ check (runes_of_ascii "options {
    LittleEndian = true;
    StringPrefixLenType = u8;
    ArrayPrefixLenType = u8;
    FixedStringPadFromLeft = true;
    FixedStringPadChar = '0';
}

packet Logon {
    repeat i8 Ref,
    @rightPad('0')
    char[8] msgKind,
    repeat InOrderid72 {
        u8 Side2,
        uint32 Qty,
        repeat InPrice27 {
            repeat char[4] Acct,
            u64 sym,
        },
        zchar[4] clOrdID,
        int16 lastPx,
        InAcct22 {
            repeat char[3] OrderId,
        },
    },
    int64 Px,
}

packet Fill {
    uint16 Qty,
    repeat char[1] Flags,
    i8 Ref,
}

packet Logout {
    @leftPad('0')
    char[3] x,
    int8 f1,
    Logon,
    uint16 venue,
    zchar[2] Px,
}

packet Reject {
}

root packet Leg {
    Fill,
    u16 msgKind,
    match msgKind as Body {
        [182, 83] : Fill,
        199 : Reject,
        137 : Logout,
        35 : Logon,
    },
    u32 lastPx @calculatedFrom(""CRC32""),
}")).
Eval vm_compute in ("<<<M1539>>>" ++ check (runes_of_ascii "packet i8i8 {
    // trailing space 
    // " ++ [27880; 37322]%N ++ runes_of_ascii "
    MetaDataX @lengthOf(chars) `" ++ [233]%N ++ runes_of_ascii "`,// 50% %s
    char[] u128 @lengthOf(u8x),
    @lengthOf(T)
    float64 repeatCount,
    @tag(00)
    MetaDataX,
    // a // b
    // trailing space 
    uint64 chars `tab	here`,
    string_ @lengthOf(As) ``,
    zchar[00] asx @lengthOf(metadata) `line1
        line2`,
    @lengthOf(charz)
    charz f32a `" ++ [28040; 24687; 31867; 22411]%N ++ runes_of_ascii "`,
    @rightPad(	'\x00'
        )
    repeat BodyLength tag,
}

packet repeatCount {
    crc stringy,
}

options {
    zchar = char[];
    options1 = false
    repeatCount = ""a	b""
    body = ""`tick`""
}

// a // b
//x
MetaData MetaDataX {
    Pad repeatCount `u8 x,`,
    char[42] f32a ``,
    _x Z9_,
}

packet Logon {
    @tag(007)
    o {
        char Packet @lengthOf(repeatCount),
    },
}// a // b")).
Eval vm_compute in ("<<<M14>>>" ++ check (runes_of_ascii "
packet Pad { @calculatedFrom( ""x y"") repeat f64 x
`tab	here`, @rightPad
    ( ) char[]
float@calculatedFrom(
""" ++ [233]%N ++ runes_of_ascii "t" ++ [233]%N ++ runes_of_ascii """ ) ,match uint8x as
falsey//x
{ ""CRC32""
:
    leftPad } ,@tag(
    //	t
    10 )
    repeat Pad {
    // " ++ [128512]%N ++ runes_of_ascii " emoji
    zchar[42 ] uint8x@lengthOf( o)
,
// `tick` ""quote"" 'q'
//x
i16 x_y_z , stringy
    @calculatedFrom(
""`tick`""
) `a\` ,}, Header// c
repeatCount ,
i64_	, @lengthOf( //x
uint8x
    ) match options1 as BodyLength
{ 0
    :
    chars //x
, 255: BodyLength 0123456789
    :Foo
    , [ 65535
    , 42 , 42 ,
    65535 ,
255// " ++ [27880; 37322]%N ++ runes_of_ascii "
, 1
    // @lengthOf(
    , ""1"",
""\n""] : pack
} , repeat
    i8i8 msg_type , @lengthOf(f32a	) // @lengthOf(
T BodyLength
, }
")).
Eval vm_compute in ("<<<M1871>>>" ++ check (runes_of_ascii "  packet

A 	 // c1
	  {// c2

	u8

    a // c4a
// c4b
	,

    // c5
	} 
// c6
packet 
    // c7
		B 	 // c8
	{  
      // c9
u16 	 // c10
b
	,	// c12
}
    // c13
  root 	 // c14a
// c14b
    	packet	P  { 

// c17
u8 K 
,
// c20
    match	// c21
    K // c22
as 
      // c23
M // c24a
	// c24b
  {

    [
// c26
	  1// c27a
  // c27b
  , 	 // c28
	  2 	 // c29a
// c29b
  ] 
// c30
	: 

// c31
  A 	 // c32
    ,	// c33
    	3 	 // c34

:

    // c35
B 	 // c36a
    // c36b
		,	// c37

7  // c38
	:// c39a
  	// c39b
	A // c40

	,  
  // c41
    	}// c42
  ,// c43

  }")).
Eval vm_compute in ("<<<M316>>>" ++ check (runes_of_ascii "options
{ metadata= 10 ;  x= u16// `tick` ""quote"" 'q'
; matchKey
    =0
;	}
packet MetaDataX	{ i8 u8x `a\`//x
, u64// 50% %s
matchKey
@lengthOf( T ) ,
    // " ++ [128512]%N ++ runes_of_ascii " emoji
    char[ 1 // a // b
]
Z9_ ,
    zchar[
    7	] MetaDataX @lengthOf(calculatedFrom)	,
    // @lengthOf(
    @tag( 10 )
    repeatCount,string MetaDataX
    // trailing space 
    @calculatedFrom(/// triple
""CRC32""
) `tab	here`
// " ++ [27880; 37322]%N ++ runes_of_ascii "
/// triple
, u8
A @lengthOf( charz
) , }
packet
    // packet A { u8 x, }
    Pad{@leftPad (  ) repeat
    body
charz , }
//x
")).
Eval vm_compute in ("<<<M1682>>>" ++ check (runes_of_ascii "MetaData o {
    charz calculatedFrom `
        `,
    float64 rootA,
}

packet A {
    asx @lengthOf(packetx) `u8 x,`,
    @lengthOf(packetx)
    a1 {
        int32 matchKey @lengthOf(asx) `" ++ [28040; 24687; 31867; 22411]%N ++ runes_of_ascii "`,
        Header `{ , }`,
        repeat f64 falsey `100% of %d`,
    },
    repeat u32 lengthOf,
    u64 Z9_,
    /// triple
    @lengthOf(_x)
    packetx {
        _x,/// triple
    },
    zchar[1] a1 @lengthOf(chars),
    u64 crc `100% of %d`,
    char[65535] chars,
}

root packet int {
}")).
Eval vm_compute in ("<<<M287>>>" ++ check (runes_of_ascii "packet BodyLength { } packet tag
{ repeat Logon //
{ u @calculatedFrom(
    ""// no comment"" ) `crlf
line`  ,  char u8x , uint32
    uint8x ,},} packet T
{  float32  Z9_ , @lengthOf(
    pack
)@calculatedFrom( ""`tick`"" )@lengthOf(u8x )
u {
    // `tick` ""quote"" 'q'
    match
    repeatCount as u
//x
/// triple
{  ""// no comment"" : packetx , //	t
1 :falsey
, } , Z9_ @calculatedFrom(
    """" ) `doc` , }// @lengthOf(
,
    } /// triple")).
Eval vm_compute in ("<<<M63>>>" ++ check (runes_of_ascii "packet	body { @leftPad// " ++ [27880; 37322]%N ++ runes_of_ascii "
( '0' ) stringy  roots	,
@rightPad
('0' )	asx @lengthOf(
_x ) ,
    //	t
    } packet chars {
@tag(
255	) i32 msg_type
    , o	{
pack @calculatedFrom(
""abc"" ), match rootA as tag{ [ 0123456789
    // @lengthOf(
    , 7 ] : len , } ,
    u32 BodyLength	@calculatedFrom(
""packet"" )`say ""hi""` , lengthOf u ,	}
,@rightPad ( ' ' ) repeat
    f32a ,
    } MetaData
    msg_type	{}")).
Eval vm_compute in ("<<<M1707>>>" ++ check (runes_of_ascii "options {
    T = """ ++ [28040; 24687]%N ++ runes_of_ascii """;
    string_ = false;
    f32a = 0123456789;
    Z9_ = 255
}

MetaData chars {
    float32 charz `{ , }`,// @lengthOf(
    zchar[1] u8x `100% of %d`,
    uint16 asx `two words`,
    char[4294967296] Header,
    i32 Logon,
    char[0123456789] crc,
}

packet options1 {
    falsey `crlf
        line`,
    // `tick` ""quote"" 'q'
    /// triple
}")).
Eval vm_compute in ("<<<M1839>>>" ++ check (runes_of_ascii "packet stringy {
    string lengthOf @calculatedFrom(""" ++ [128512]%N ++ runes_of_ascii """),
    @lengthOf(MetaDataX)
    Logon {
        string Pad `u8 x,`,
    },// " ++ [128512]%N ++ runes_of_ascii " emoji
    @tag(00)
    @calculatedFrom(""" ++ [28040; 24687]%N ++ runes_of_ascii """)
    repeat uint8 asx,
    @leftPad( '0'  )
    @tag(00)
    zchar[0] trueish `u8 x,`,
    Header @lengthOf(repeatCount),
}

packet u128 {
}

MetaData charz {
}")).
Eval vm_compute in ("<<<M1393>>>" ++ check (runes_of_ascii "options { LittleEndian

    =

true

;
}  packet

    Sub

{ u8 
a

    ,
@calculatedFrom( ""CRC16""
)  u64
    SubSum 
,
} root	packet
	Frame
{

u16	MsgType ,
u16
    BodyLen @lengthOf( Body
	)
,
    Sub	Body  ,string note, 
@calculatedFrom( ""CRC16""  )	u64
	Checksum ,
	u8 
tail, 
}
")).
Eval vm_compute in ("<<<M1279>>>" ++ check (runes_of_ascii "packet B // c1a
  // c1b
{
    // c2
u8 // c3
a // c4
, string // c6a
  // c6b
s , } root // c10a
  // c10b
packet
    // c11
P // c12a
  // c12b
{ // c13
u16 // c14
L @lengthOf( // c16
B // c17a
  // c17b
)
    // c18
, // c19
B , // c21
u8 t , } // c25a
  // c25b
")).
Eval vm_compute in ("<<<M542>>>" ++ check (runes_of_ascii "packet
    asx { @calculatedFrom(
""""  ) @tag( 255 )repeat
// packet A { u8 x, }
// trailing space 
int16 u8x
,
@tag(
    //
    007 )
    @tag( 0
    /// triple
    ) @tag( 1) u
    @lengthOf( T @lengthOf ),
// `tick` ""quote"" 'q'
//x
} // " ++ [128512]%N ++ runes_of_ascii " emoji")).
Eval vm_compute in ("<<<M546>>>" ++ check (runes_of_ascii "packet
    caf" ++ [233]%N ++ runes_of_ascii "_1 { @calculatedFrom(
""""  ) @tag( 255 )repeat
// packet A { u8 x, }
// trailing space 
int16 u8x
,
@tag(
    //
    007 )
    @tag( 0
    /// triple
    ) @tag( 1) u
    @lengthOf( T ),
// `tick` ""quote"" 'q'
//x
} // " ++ [128512]%N ++ runes_of_ascii " emoji")).
Eval vm_compute in ("<<<M540>>>" ++ check (runes_of_ascii "packet
    asx { @calculatedFrom(
""""  ) @tag( 255 )repeat
// packet A { u8 x, }
// trailing space 
int16 u8x
,
@tag(
    //
    007 )
    @tag( 0
    /// triple
    ) @tag( 1) u
    @lengthOf( T )/,
// `tick` ""quote"" 'q'
//x
} // " ++ [128512]%N ++ runes_of_ascii " emoji")).
Eval vm_compute in ("<<<M503>>>" ++ check (runes_of_ascii "packet
    asx { @calculatedFrom(
""""  ) @tag( 255 )repeat
// packet A { u8 x, }
// trailing space 
int16 u8x
,
@tag(
    //
    007 )
    @tag( 0
    /// triple
    ) @tag( 1) u
    T @lengthOf( ),
// `tick` ""quote"" 'q'
//x
} // " ++ [128512]%N ++ runes_of_ascii " emoji")).
Eval vm_compute in ("<<<M456>>>" ++ check (runes_of_ascii "packet
    asx { @calculatedFrom(
""""  ) @tag( 255 )repeat
// packet A { u8 x, }
// trailing space 
int16 u8x
,
@tag(
    //
     )
    @tag( 0
    /// triple
    ) @tag( 1) u
    @lengthOf( T ),
// `tick` ""quote"" 'q'
//x
} // " ++ [128512]%N ++ runes_of_ascii " emoji")).
Eval vm_compute in ("<<<M1771>>>" ++ check (runes_of_ascii "// top
options {
    // c1
}

// c2
options {
    // c4
    MetaDataX = char;
    // c8
}

// c9
MetaData Pad {
    // c12
    i8 metadata,
    // c15
    string stringy,
    // c18
    int8 As `{ , }`,
    // c22
}
// c23")).
Eval vm_compute in ("<<<M1747>>>" ++ check (runes_of_ascii "packet A {
    match k as n {
        ""\
                "" : B,
        [""\
                "", 1] : C,
        [
            1, 2, 3, 4, 5,
            ""\
                        ""
        ] : D,
    },
}")).
Eval vm_compute in ("<<<M1717>>>" ++ check (runes_of_ascii "MetaData x_y_z {
    f32a tag,
    crc chars `doc`,
    calculatedFrom Packet `crlf
        line`,
    repeatCount int,
    string matchKey,
    charz trueish `" ++ [28040; 24687; 31867; 22411]%N ++ runes_of_ascii "`,
}

packet Pad {
}")).
Eval vm_compute in ("<<<M672>>>" ++ check (runes_of_ascii "MetaData u
    { } MetaData o
{ float uint8x
`100% of %d` ,repeatCount u8x, string_ leftPad
, i32
    Foo , int64 x `two words` , calculatedFrom
stringy stringy `a\` ,
}
")).
Eval vm_compute in ("<<<M552>>>" ++ check (runes_of_ascii "MetaData u u
    { } MetaData o
{ float uint8x
`100% of %d` ,repeatCount u8x, string_ leftPad
, i32
    Foo , int64 x `two words` , calculatedFrom
stringy `a\` ,
}
")).
Eval vm_compute in ("<<<M1292>>>" ++ check (runes_of_ascii "// top
root // c0
packet // c1
P { // c3
u16 a , u32
    // c7
Sum // c8a
  // c8b
@calculatedFrom( ""CRC32""
    // c10
)
    // c11
, // c12a
  // c12b
}
    // c13
")).
Eval vm_compute in ("<<<M663>>>" ++ check (runes_of_ascii "MetaData u
    { } MetaData o
{ float uint8x
`100% of %d` ,repeatCount u8x, string_ leftPad
, i32
    Foo , int64 x `two words` calculatedFrom ,
stringy `a\` ,
}
")).
Eval vm_compute in ("<<<M636>>>" ++ check (runes_of_ascii "MetaData u
    { } MetaData o
{ float uint8x
`100% of %d` ,repeatCount u8x, string_ leftPad
, i32
     , int64 x `two words` , calculatedFrom
stringy `a\` ,
}
")).
Eval vm_compute in ("<<<M1709>>>" ++ check (runes_of_ascii "packet A {
    u16 len @lengthOf(body) `a
            b
          c`,
    u32 crc @calculatedFrom(""CRC32"") `a
            b
          c`,
    string body,
}")).
Eval vm_compute in ("<<<M1825>>>" ++ check (runes_of_ascii "packet A {
    match k as n {
        [
            ""a"", ""bb"", 007, ""d"", ""e"",
            66, ""g"", ""h"", 9, ""j""
        ] : B,
        2 : C,
    },
}")).
Eval vm_compute in ("<<<M1859>>>" ++ check (runes_of_ascii "packet A {
    Inner {
        u8 x `
                `,
        Deep {
            u8 y `
                        `,
        },
    },
}")).
Eval vm_compute in ("<<<M1457>>>" ++ check (runes_of_ascii "

  packet
	A
{match	k

as
	n { [ ""a""

,
""bb""

    ,""c c"",
    ""d""
	,
""e""
    ,	""f""
,
""g"" ]

    :	B
    2 :
C } ,
    }
")).
Eval vm_compute in ("<<<M1269>>>" ++ check (runes_of_ascii "packet B {
    u8 a,
}
root packet P {
    u8 K,
    u8 L @lengthOf(Body),
    match K as Body {
        1 : B,
    },
}
")).
Eval vm_compute in ("<<<M1250>>>" ++ check (runes_of_ascii "options { } options { MetaDataX = char ; } MetaData Pad { i8 metadata , string stringy , int8 As `{ , }` , }
// c
")).
Eval vm_compute in ("<<<M1228>>>" ++ check (runes_of_ascii "options { } options { MetaDataX = char ; } MetaData Pad {
// c
i8 metadata , string stringy , int8 As `{ , }` , }")).
Eval vm_compute in ("<<<M923>>>" ++ check (runes_of_ascii "packet A {
    u16 len @lengthOf(body) `a
b`,
    u32 crc @calculatedFrom(""CRC32"") `a
b`,
    string body,
}")).
Eval vm_compute in ("<<<M1930>>>" ++ check (runes_of_ascii "root packet u {
    float32 BodyLength,
}

packet u {
    char[1] a1 @calculatedFrom(""a\""b""),
}/// triple")).
Eval vm_compute in ("<<<M1950>>>" ++ check (runes_of_ascii "  // a // b
  root

packet

falsey
	{} 
options

{Pad //
	  =// " ++ [27880; 37322]%N ++ runes_of_ascii "
  	f32}
	root
packet
    T
{
}
")).
Eval vm_compute in ("<<<M903>>>" ++ check (runes_of_ascii "packet A {
  match k as n {
    [1, 22, 007, 4, 5, 66, 7, 8, 9, 10, 11, 12] : B
    2 : C
  },
}")).
Eval vm_compute in ("<<<M890>>>" ++ check (runes_of_ascii "packet A {
  match k as n {
    [1, 22, 007, 4, 5, 66, 7, 8, 9, 10, 11] : B
    2 : C
  },
}")).
Eval vm_compute in ("<<<M934>>>" ++ check (runes_of_ascii "packet A {
    B b `a
    b
  c`,
    B `a
    b
  c`,
    repeat B bs `a
    b
  c`,
}")).
Eval vm_compute in ("<<<M1403>>>" ++ check (runes_of_ascii "MetaData charz {
    pack MetaDataX,
    falsey crc,
    u32 u `// not a comment`,
}")).
Eval vm_compute in ("<<<M1284>>>" ++ check (runes_of_ascii "options {
    FixedStringPadFromLeft = true;
}
root packet P {
    char[4] z,
}
")).
Eval vm_compute in ("<<<M1178>>>" ++ check (runes_of_ascii "// top
options // c0
{ // c1
A // c2
= // c3
""// no comment"" // c4
} // c5
")).
Eval vm_compute in ("<<<M10>>>" ++ check (runes_of_ascii "
options {
string_ =
char[
    7 ] ; trueish	= false ; crc=
char[] ;}")).
Eval vm_compute in ("<<<M799>>>" ++ check (runes_of_ascii "packet A {
  match k as n {
    [1, 22, 007, 4] : B
    2 : C
  },
}")).
Eval vm_compute in ("<<<M780>>>" ++ check (runes_of_ascii "packet A {
  match k as n {
    [1, ""bb""] : B,
    2 : C
  },
}")).
Eval vm_compute in ("<<<M1647>>>" ++ check (runes_of_ascii "options {
    // `tick` ""quote"" 'q'
    x_y_z = zchar[10]
}")).
Eval vm_compute in ("<<<M1421>>>" ++ check (runes_of_ascii "MetaData M {
    u8 x `a
    b`,
    T t `a
    b`,
}")).
Eval vm_compute in ("<<<M372>>>" ++ check (runes_of_ascii "MetaData
float { packetx
f32a `crlf
line` ,}
")).
Eval vm_compute in ("<<<M1726>>>" ++ check (runes_of_ascii "
root// a
  packet  // b
	A // c
	{
	}
")).
Eval vm_compute in ("<<<M190>>>" ++ check (runes_of_ascii "MetaData i8i8 {// a // b
int8 As , }
")).
Eval vm_compute in ("<<<M1734>>>" ++ check (runes_of_ascii "root packet A {
    u8 x `
    x`,
}")).
Eval vm_compute in ("<<<M1520>>>" ++ check (runes_of_ascii "
// c" ++ [8203]%N ++ runes_of_ascii "
      packet
	A
    {

}")).
Eval vm_compute in ("<<<M1095>>>" ++ check (runes_of_ascii "MetaData M {
}// c
packet A {}")).
Eval vm_compute in ("<<<M175>>>" ++ check (runes_of_ascii "MetaData Foo
    {
    }
")).
Eval vm_compute in ("<<<M1417>>>" ++ check (runes_of_ascii "packet
A{
} 	 // c" ++ [8192]%N ++ runes_of_ascii "
")).
Eval vm_compute in ("<<<M1767>>>" ++ check (runes_of_ascii "
packet

A{
}  // c" ++ [6158]%N)).
Eval vm_compute in ("<<<M1055>>>" ++ check (runes_of_ascii "packet A {
}
// c" ++ [12]%N)).
Eval vm_compute in ("<<<M1068>>>" ++ check (runes_of_ascii "packet A {
}// c" ++ [65279]%N)).
Eval vm_compute in ("<<<M1766>>>" ++ check (runes_of_ascii "/// triple
 
")).
Eval vm_compute in ("<<<M1049>>>" ++ check (runes_of_ascii "// c" ++ [11]%N)).
