From FP Require Import Lexer Parser ShowPT Digest Formatter.
From Coq Require Import String List NArith.
Import ListNotations.
Open Scope string_scope.
Set Printing Width 100000000.
Set Printing Depth 100000000.
Definition show_fres (r : fres) : string :=
  match r with
  | FOk s => "OK:" ++ sh_escaped s ""
  | FErr s => "ERR:" ++ sh_escaped s ""
  | FPanic p => "PANIC:" ++ p
  end.
Definition check (rs : list rune) : string := digest (show_fres (format_res rs)).
Definition full (rs : list rune) : string := show_fres (format_res rs).
Eval vm_compute in ("<<<M313>>>" ++ check (runes_of_ascii "options { BodyLength = char[ 7] ;	}
// c
// @lengthOf(
packet asx// " ++ [128512]%N ++ runes_of_ascii " emoji
{ int16
    x_y_z , @calculatedFrom(
    """" ) @lengthOf(
    /// triple
    chars) //
repeat repeatCount
charz
/// triple
// " ++ [27880; 37322]%N ++ runes_of_ascii "
, @leftPad ( ) i64_@calculatedFrom(
""\" ++ [233]%N ++ runes_of_ascii """	) `// not a comment` , tag Z9_
`two words` ,
@lengthOf( asx
)@calculatedFrom(
""`tick`""
    )match uint8x as
matchKey
    {0123456789
// packet A { u8 x, }
// a // b
: u8x ,1 : zchar , } ,u128 @lengthOf( u128 // packet A { u8 x, }
)// " ++ [128512]%N ++ runes_of_ascii " emoji
, } MetaData	msg_type  {
string
BodyLength  `two words` , options1// " ++ [128512]%N ++ runes_of_ascii " emoji
i64_ ,
    }// " ++ [128512]%N ++ runes_of_ascii " emoji
packet roots { u `` , @calculatedFrom( ""a	b"")match len as	msg_type{
    // c
    """ ++ [28040; 24687]%N ++ runes_of_ascii """
:
charz}, crc @calculatedFrom(
// packet A { u8 x, }
// packet A { u8 x, }
""it's"" ) `a\`
,@leftPad
( '0' )@tag( 007	) zchar[// trailing space 
3
    // trailing space 
    ] falsey ,  @calculatedFrom(// `tick` ""quote"" 'q'
""\n""
    )@calculatedFrom(""CRC32""// c
)
    // trailing space 
    match
    //x
    Packet as // @lengthOf(
stringy	{ 1:
Pad
, ""it's"" :f32a ,
} , @leftPad (
' '
)
    match // " ++ [27880; 37322]%N ++ runes_of_ascii "
int as	a1 { [ 0123456789 ,255]
    :
    options1
//x
//x
}
    ,BodyLength
    //
    @calculatedFrom( """ ++ [28040; 24687]%N ++ runes_of_ascii """ ),
float32
    zchar
@calculatedFrom( ""// no comment""
)
,	@tag( 10 ) zchar[
    // packet A { u8 x, }
    1  ] rootA , }
")).
Eval vm_compute in ("<<<M1805>>>" ++ check (runes_of_ascii "// trailing space 
packet charz {
    @calculatedFrom(""1"")
    match x as tag {
        [
            7, 0, 65535, ""it's"", 0,
            ""x y"", 255
        ] : tag,
        [""1"", 3, 007, 255, ""x y""] : pack,
        [
            """ ++ [233]%N ++ runes_of_ascii "t" ++ [233]%N ++ runes_of_ascii """, 7, 10, 3, 0,
            ""a\""b""
        ] : leftPad,
        [65535, ""x y""] : chars,
        [""\n"", 65535, ""a\\""] : A,
        ""\n"" : lengthOf,
    },
    match string_ as i8i8 {
        7 : msg_type,
        // c
        ""abc"" : tag,
        ""a\""b"" : metadata,
        255 : matchKey,
        [
            ""CRC32"", ""1"", 007, ""packet"", ""a\\"",
            ""a\""b"", 007, 4294967296
        ] : lengthOf,
    },
    uint16 pack,
    string Pad @lengthOf(o) `say ""hi""`,
    repeat i8 body,
    @lengthOf(crc)
    float64 body `// not a comment`,
    repeat rootA {
        int16 x_y_z `tab	here`,
        falsey @calculatedFrom(""{,}""),
        trueish @lengthOf(crc) `{ , }`,
    },
    match Pad as Header {
        4294967296 : Header,
        ""\n"" : msg_type,
        ""a	b"" : x_y_z,
    },
    //	t
    Logon,
}")).
Eval vm_compute in ("<<<M1309>>>" ++ check (runes_of_ascii "// top
packet // c0a
  // c0b
A { // c2
u8 // c3a
  // c3b
a , // c5
} // c6a
  // c6b
packet // c7a
  // c7b
B {
    // c9
u16 b // c11
, } // c13a
  // c13b
packet // c14
C
    // c15
{
    // c16
u32
    // c17
c // c18
, // c19a
  // c19b
}
    // c20
root packet // c22a
  // c22b
M // c23
{ u16 Kc
    // c26
,
    // c27
u16 // c28a
  // c28b
Kb , // c30
u16 Ka
    // c32
, match // c34a
  // c34b
Kc // c35
as X
    // c37
{
    // c38
9 // c39
:
    // c40
A
    // c41
, 10 :
    // c44
B
    // c45
,
    // c46
} , match
    // c49
Kb // c50
as // c51a
  // c51b
Y // c52
{ 2 // c54a
  // c54b
:
    // c55
C , // c57
1 // c58
: A , // c61a
  // c61b
} // c62
, // c63a
  // c63b
match
    // c64
Ka as // c66
Z // c67
{
    // c68
1 // c69a
  // c69b
: B // c71a
  // c71b
, // c72
} // c73a
  // c73b
, // c74
A // c75a
  // c75b
, // c76
B
    // c77
,
    // c78
C , // c80
} ")).
Eval vm_compute in ("<<<M1770>>>" ++ check (runes_of_ascii "

  packet
charz  {	//	t
      repeat

    i64_,

    trueish	{ repeat _x ,
repeatCount

,  repeat
	u16
    matchKey`
`
	,
    // " ++ [128512]%N ++ runes_of_ascii " emoji
	// a // b

	matchKey

    @calculatedFrom(
    ""a\""b""
)	`it's`
,
	}

    ,  @tag(	007
)@calculatedFrom( ""a\\""	) 
@tag(  3// @lengthOf(
  )
	f32 
f32a@lengthOf(
    asx  ) `crlf
line`// packet A { u8 x, }
  ,	repeat i8
string_	, @lengthOf(
	// @lengthOf(
Logon	)  @lengthOf( x_y_z ) 
@lengthOf( zchar
    )
	repeat  char[ 65535
	]
    Foo `" ++ [233]%N ++ runes_of_ascii "`
	,@calculatedFrom(	//
	""abc""
	)

trueish	@lengthOf(A
    ) 
    // " ++ [27880; 37322]%N ++ runes_of_ascii "
// a // b
  ,
    char[ 0
    ]

    float
    ,Packet

    @calculatedFrom(	""a	b"" ),
	}
	MetaData 
Pad {

    char[ 00
	]leftPad
,	u8

rootA`
` 
, 
    //
  	// " ++ [128512]%N ++ runes_of_ascii " emoji

	int32
a1 `say ""hi""`
, Z9_ float,  //x
i32
Pad

,
    }

")).
Eval vm_compute in ("<<<M1576>>>" ++ check (runes_of_ascii "MetaData lengthOf {
}

MetaData falsey {
    // " ++ [27880; 37322]%N ++ runes_of_ascii "
    falsey i64_ `
    `,
    zchar[255] u `two words`,
    BodyLength int,
    matchKey i8i8 `crlf
    line`,
    uint8x asx,
    char[] options1,
}

packet asx {
    @lengthOf(o)
    @calculatedFrom(""\n"")
    char[] lengthOf `two words`,
    BodyLength `" ++ [233]%N ++ runes_of_ascii "`,
    repeat u8x len `doc`,
    int @calculatedFrom(""a\\"") `line1
    line2`,
    @lengthOf(MetaDataX)
    Packet packetx,
    a1 {
        match Logon as len {
            4294967296 : matchKey,
            [
                1, 10, 10, ""{,}"", """ ++ [233]%N ++ runes_of_ascii "t" ++ [233]%N ++ runes_of_ascii """,
                0123456789
            ] : leftPad,
            3 : msg_type,
            //	t
            //x
            1 : As,
        },
        chars,
    },
}")).
Eval vm_compute in ("<<<M1508>>>" ++ check (runes_of_ascii "// top
		root // c0
    packet  // c1
    _x 
	    // c2
  { match 
// c4
    Foo // c5
  as  // c6a
	// c6b
    	Z9_	{ 
  // c8

	""a	b"" 	 // c9a
	// c9b
: 	 // c10

Pad 	 // c11

, 
    // c12

	}
	, // c14

	repeat // c15a
// c15b

x  `line1
line2`  
      // c17
    ,	// c18
    @rightPad// c19a
	// c19b
	(

    // c20
    ' ' 	 // c21
) // c22
	@calculatedFrom(""a\\"" 
// c24

	)  // c25a
  // c25b
	metadata MetaDataX 
	    // c27
      ,
@tag(
// c29
  0

    )// c31
Logon
    int
    // c33
    `` 

// c34
  , 
	// c35
    }// c36
  options // c37
{ 

    // c38
  T // c39

=  // c40a
		// c40b
  '\x00'  }  // c42a

// c42b
")).
Eval vm_compute in ("<<<M305>>>" ++ check (runes_of_ascii "packet
pack{ u8 x ,
char[
    255 ]trueish
@calculatedFrom(
""// no comment"" ) `tab	here`,	@lengthOf( asx) repeat //
zchar[
0
] stringy `
`, @leftPad( '0' ) @calculatedFrom( // trailing space 
""abc"" )
    @calculatedFrom( ""it's""
) char[] packetx@calculatedFrom( ""a	b"" ) `doc` , repeat string len
    `two words`
, uint16 matchKey
    @lengthOf(
    asx ) ,zchar[ 0 ]
x `it's` // trailing space 
, }
    packet packetx {body  , string trueish `" ++ [233]%N ++ runes_of_ascii "` , @tag(255 )
@tag(
3
// packet A { u8 x, }
//	t
) @calculatedFrom(
    ""\n"" ) repeat f64 roots// trailing space 
`" ++ [233]%N ++ runes_of_ascii "`	, /// triple
} 	 ")).
Eval vm_compute in ("<<<M1300>>>" ++ check (runes_of_ascii "// top
packet // c0
A { u8
    // c3
a , // c5a
  // c5b
} // c6
packet
    // c7
B { // c9a
  // c9b
u16 // c10a
  // c10b
b // c11
, // c12
}
    // c13
root packet // c15a
  // c15b
P { // c17
u8 // c18
K // c19
, // c20
match // c21
K // c22
as // c23
M // c24a
  // c24b
{
    // c25
[ // c26
1
    // c27
,
    // c28
2 // c29a
  // c29b
] // c30a
  // c30b
: // c31a
  // c31b
A // c32a
  // c32b
, 3
    // c34
: // c35
B // c36a
  // c36b
, 7 // c38
: // c39a
  // c39b
A // c40
, // c41
} ,
    // c43
}
    // c44
")).
Eval vm_compute in ("<<<M1902>>>" ++ check (runes_of_ascii "options
    {	// c1a

  // c1b
	LittleEndian  
  // c2
  = 	 // c3
	true  // c4

  ; }	// c6a
		// c6b
  packet

    B
	{  u8	// c10a
// c10b
a 
      // c11
  , // c12a
// c12b
	string	// c13
s  // c14

,
	}	// c16
  root // c17a
    // c17b
      packet

// c18
    P  // c19
    {

u16 // c21
	L @lengthOf(
    B
)// c25a
	// c25b

,  // c26a

// c26b
B  // c27a
	// c27b
, 
  // c28
		u8 
  // c29
    t 	 // c30
		, // c31

  }	// c32a
  // c32b")).
Eval vm_compute in ("<<<M1192>>>" ++ check (runes_of_ascii "// top
MetaData
    // c0
uint8x
    // c1
{
    // c2
char[]
    // c3
f32a
    // c4
`// not a comment`
    // c5
,
    // c6
float32
    // c7
roots
    // c8
,
    // c9
char[
    // c10
7
    // c11
]
    // c12
u8x
    // c13
,
    // c14
zchar[
    // c15
10
    // c16
]
    // c17
f32a
    // c18
,
    // c19
u64
    // c20
pack
    // c21
,
    // c22
u16
    // c23
pack
    // c24
,
    // c25
}
    // c26
")).
Eval vm_compute in ("<<<M76>>>" ++ check (runes_of_ascii "packet rootA { repeat uint16 stringy `" ++ [233]%N ++ runes_of_ascii "`
,body
@lengthOf( stringy ) , int32 matchKey // " ++ [27880; 37322]%N ++ runes_of_ascii "
,
    @lengthOf(roots)@calculatedFrom( ""a\""b""
) @leftPad(' ') i64
    leftPad
@lengthOf( repeatCount )
`u8 x,` , //	t
f64 len
    @lengthOf( BodyLength// trailing space 
) `// not a comment` , @rightPad
(
)
    @leftPad ( '0')repeat
string len
, // c
char[] chars `two words`	, } //	t")).
Eval vm_compute in ("<<<M1744>>>" ++ check (runes_of_ascii "  packet

crc	{match 
trueish as 
len { 42 
: 
uint8x
, // " ++ [128512]%N ++ runes_of_ascii " emoji
    ""1"" 
: asx

, 3
:

body	[ ""1""  ,
	0123456789]

    :	u ""packet"" :
o
,
}	, 
} MetaData
tag{string
	o `line1
line2`
    ,  char[]	//
Header  `{ , }` 	 // c
	,
uint8x Z9_,
}MetaData tag {
    i8
len,
	}options  //x
  {  
  // `tick` ""quote"" 'q'
    	/// triple
	x
=
10

; }")).
Eval vm_compute in ("<<<M1773>>>" ++ check (runes_of_ascii "packet float {
    // c2
    @rightPad()
    // c5a
    // c5b
    rootA @lengthOf(trueish),
    // c10
    stringy @lengthOf(matchKey),// c15a
    // c15b
    char[4294967296] pack @lengthOf(uint8x),
    // c23
}// c24

root packet trueish {
    // c28
    repeat uint64 u128 `line1
        line2`,
    // c33
}
// c34")).
Eval vm_compute in ("<<<M35>>>" ++ check (runes_of_ascii "  packet Header
{ @calculatedFrom( // a // b
""a	b"" )
char[
    255] falsey `tab	here`,int8
    // " ++ [27880; 37322]%N ++ runes_of_ascii "
    u
`doc` , float32 lengthOf
    @calculatedFrom(
""a	b""  )
    // a // b
    , @rightPad (
' '  ) @tag( 3
) float64 asx
    ,
int8 metadata @lengthOf(zchar )// a // b
,Pad f32a , }")).
Eval vm_compute in ("<<<M1291>>>" ++ check (runes_of_ascii "// top
root
    // c0
packet
    // c1
P // c2a
  // c2b
{ // c3
u8 // c4
s_u8 // c5a
  // c5b
, // c6
repeat u8 // c8a
  // c8b
r_u8 // c9a
  // c9b
,
    // c10
u16 // c11a
  // c11b
b_len // c12a
  // c12b
, // c13a
  // c13b
} // c14a
  // c14b
")).
Eval vm_compute in ("<<<M82>>>" ++ check (runes_of_ascii "packet metadata
{int32 calculatedFrom , } options {} options { u128 = '\x00'	;
    string_ =	""abc""
    ; }root
packet i8i8
    {  @rightPad
( '\x00' ) repeat	metadata { string_,
    tag@lengthOf( falsey ) ,
} ,//x
}")).
Eval vm_compute in ("<<<M311>>>" ++ check (runes_of_ascii "MetaData
falsey { Header falsey
`
` , string Foo `" ++ [28040; 24687; 31867; 22411]%N ++ runes_of_ascii "`
    // `tick` ""quote"" 'q'
    ,falsey repeatCount , i8
u , }
packet A	{ match _x as T { 007: lengthOf// `tick` ""quote"" 'q'
}, } 	 ")).
Eval vm_compute in ("<<<M191>>>" ++ check (runes_of_ascii "options
{ Logon
=char[	00
]
;
zchar
    = false Logon =	i8
    ;}options { asx = '0' int = ""\" ++ [233]%N ++ runes_of_ascii """  calculatedFrom= '\x00'// packet A { u8 x, }
; // `tick` ""quote"" 'q'
}
")).
Eval vm_compute in ("<<<M481>>>" ++ check (runes_of_ascii "packet uint8x
{ match pack
    as msg_type	{
    0123456789 :	float
}
,
} packet //	t
a1
    { } options options {packetx
    = '\x00'	; u128= ""a	b""  ; }
")).
Eval vm_compute in ("<<<M413>>>" ++ check (runes_of_ascii "packet uint8x
{ match float32
    as msg_type	{
    0123456789 :	float
}
,
} packet //	t
a1
    { } options {packetx
    = '\x00'	; u128= ""a	b""  ; }
")).
Eval vm_compute in ("<<<M701>>>" ++ check (runes_of_ascii "// @lengthOf(
packet i8i8 { u128 o , }
options { MetaDataX = true;
    BodyLength =""packet"" ""packet"" x_y_z= 007
crc //x
= ""abc"" ;
    msg_type =
i16 }")).
Eval vm_compute in ("<<<M462>>>" ++ check (runes_of_ascii "packet uint8x
{ match pack
    as msg_type	{
    0123456789 :	float
}
,
} a1 //	t
packet
    { } options {packetx
    = '\x00'	; u128= ""a	b""  ; }
")).
Eval vm_compute in ("<<<M525>>>" ++ check (runes_of_ascii "packet uint8x
{ match pack
    as msg_type	{
    0123456789 :	float
}
,
} packet //	t
a1
    { } options {packetx
    = '\x00'	; u128= ""a	b""   }
")).
Eval vm_compute in ("<<<M398>>>" ++ check (runes_of_ascii "packet [
{ match pack
    as msg_type	{
    0123456789 :	float
}
,
} packet //	t
a1
    { } options {packetx
    = '\x00'	; u128= ""a	b""  ; }
")).
Eval vm_compute in ("<<<M480>>>" ++ check (runes_of_ascii "packet uint8x
{ match pack
    as msg_type	{
    0123456789 :	float
}
,
} packet //	t
a1
    { }  {packetx
    = '\x00'	; u128= ""a	b""  ; }
")).
Eval vm_compute in ("<<<M430>>>" ++ check (runes_of_ascii "packet uint8x
{ match pack
    as msg_type	{
     :	float
}
,
} packet //	t
a1
    { } options {packetx
    = '\x00'	; u128= ""a	b""  ; }
")).
Eval vm_compute in ("<<<M1789>>>" ++ check (runes_of_ascii "  //
  packet metadata
{

    }MetaData

    chars
	    //x
  //	t
  { char[
42

    ] leftPad`crlf
line`

    ,

    }

")).
Eval vm_compute in ("<<<M1477>>>" ++ check (runes_of_ascii "
MetaData
    uint8x {char[

007 ]leftPad,

    Pad 
T	, u64 BodyLength
,char[]
int , float
	Z9_,

float32 metadata

    ,}
")).
Eval vm_compute in ("<<<M1589>>>" ++ check (runes_of_ascii "packet B {
    u8 a,
}

root packet P {
    u8 K,
    u8 L @lengthOf(Body),
    match K as Body {
        1 : B,
    },
}")).
Eval vm_compute in ("<<<M1160>>>" ++ check (runes_of_ascii "MetaData leftPad { chars MetaDataX , } packet repeatCount
// c
{ char[ 255 ] uint8x `" ++ [233]%N ++ runes_of_ascii "` , } MetaData pack { As Foo , }")).
Eval vm_compute in ("<<<M218>>>" ++ check (runes_of_ascii "
MetaData
uint8x { char[ 007
    ]leftPad ,Pad
T ,u64 BodyLength , char[] int  ,float
Z9_ , float32 metadata
    , }
")).
Eval vm_compute in ("<<<M1803>>>" ++ check (runes_of_ascii "

  packet

u

{ 
@tag(	10 // a // b
)tag  @lengthOf(A

    // " ++ [128512]%N ++ runes_of_ascii " emoji
    // a // b

),repeat  options1 , }

")).
Eval vm_compute in ("<<<M1276>>>" ++ check (runes_of_ascii "options {
    LittleEndian = true;
}
root packet P {
    u16 a,
    u32 Sum @calculatedFrom(""CRC32""),
}
")).
Eval vm_compute in ("<<<M950>>>" ++ check (runes_of_ascii "packet A {
    Inner {
        u8 x `x
`,
        Deep {
            u8 y `x
`,
        },
    },
}")).
Eval vm_compute in ("<<<M1>>>" ++ check (runes_of_ascii "MetaData  crc {  Pad T
, zchar[
    0123456789
    ] a1 ,int8 trueish// c
, } packet float{ }
")).
Eval vm_compute in ("<<<M869>>>" ++ check (runes_of_ascii "packet A {
  match k as n {
    [1, ""bb"", 007, ""d"", 5, ""f"", 7, ""h"", 9] : B,
    2 : C
  },
}")).
Eval vm_compute in ("<<<M633>>>" ++ check (runes_of_ascii "
packet
    asx {match u128 as `lengthOf
{
//	t
// `tick` ""quote"" 'q'
255 : x ,
    } ,	}")).
Eval vm_compute in ("<<<M1821>>>" ++ check (runes_of_ascii "MetaData crc {
    Pad T,
    zchar[0123456789] a1,
    int8 trueish,
}

packet float {
}")).
Eval vm_compute in ("<<<M1534>>>" ++ check (runes_of_ascii "
packet A {

    Inner { match
k as
n
    {	[

1

    , 22
]

: B ,	}
, 
} 
, }
")).
Eval vm_compute in ("<<<M847>>>" ++ check (runes_of_ascii "packet A {
  match k as n {
    [1, 22, ""c c"", 4, 5, ""f"", 7] : B,
    2 : C
  },
}")).
Eval vm_compute in ("<<<M1766>>>" ++ check (runes_of_ascii "

  options
    {  // " ++ [128512]%N ++ runes_of_ascii " emoji
    Packet 
=// `tick` ""quote"" 'q'

  char[ 3
]} ")).
Eval vm_compute in ("<<<M811>>>" ++ check (runes_of_ascii "packet A {
  match k as n {
    [""a"", ""bb"", 007, ""d""] : B
    2 : C
  },
}")).
Eval vm_compute in ("<<<M797>>>" ++ check (runes_of_ascii "packet A {
  match k as n {
    [""a"", ""bb"", 007] : B,
    2 : C
  },
}")).
Eval vm_compute in ("<<<M780>>>" ++ check (runes_of_ascii "packet A {
  match k as n {
    [""a"", ""bb""] : B,
    2 : C
  },
}")).
Eval vm_compute in ("<<<M939>>>" ++ check (runes_of_ascii "MetaData M {
    u8 x `a
    b
  c`,
    T t `a
    b
  c`,
}")).
Eval vm_compute in ("<<<M1933>>>" ++ check (runes_of_ascii "MetaData M {
    u8 x `
        `,
    T t `
        `,
}")).
Eval vm_compute in ("<<<M1200>>>" ++ check (runes_of_ascii "packet
// c
body { i32 f32a `{ , }` , } options { }")).
Eval vm_compute in ("<<<M251>>>" ++ check (runes_of_ascii "
root packet
chars
{
    i16 leftPad
    , }
")).
Eval vm_compute in ("<<<M1850>>>" ++ check (runes_of_ascii "options {
    a1 = ""packet"";
}// @lengthOf(")).
Eval vm_compute in ("<<<M1759>>>" ++ check (runes_of_ascii "root packet chars {
    i16 leftPad,
}")).
Eval vm_compute in ("<<<M928>>>" ++ check (runes_of_ascii "root packet A {
    u8 x `a
b`,
}")).
Eval vm_compute in ("<<<M1405>>>" ++ check (runes_of_ascii "options {
    u8x = ""packet"";
}")).
Eval vm_compute in ("<<<M1077>>>" ++ check (runes_of_ascii "MetaData M {
}// c
options {}")).
Eval vm_compute in ("<<<M1450>>>" ++ check (runes_of_ascii "
// packet A { u8 x, }
 
")).
Eval vm_compute in ("<<<M153>>>" ++ check (runes_of_ascii "// trailing space 

")).
Eval vm_compute in ("<<<M1131>>>" ++ check (runes_of_ascii "MetaData
// c
u { }")).
Eval vm_compute in ("<<<M1022>>>" ++ check (runes_of_ascii "// c" ++ [8239]%N ++ runes_of_ascii "
packet A {
}")).
Eval vm_compute in ("<<<M1004>>>" ++ check (runes_of_ascii "packet A {
}// c" ++ [8202]%N)).
Eval vm_compute in ("<<<M1071>>>" ++ check (runes_of_ascii "packet A {
}


")).
Eval vm_compute in ("<<<M399>>>" ++ check (runes_of_ascii "packet")).
Eval vm_compute in ("<<<M746>>>" ++ check (runes_of_ascii "UXk")).
