From FP Require Import Lexer Parser ShowPT Digest Formatter.
From Coq Require Import String List NArith.
Import ListNotations.
Open Scope string_scope.
Set Printing Width 100000000.
Set Printing Depth 100000000.
Definition show_fres (r : fres) : string :=
  match r with
  | FOk s => "OK:" ++ sh_escaped s ""
  | FErr s => "ERR:" ++ sh_escaped s ""
  | FPanic p => "PANIC:" ++ p
  end.
Definition check (rs : list rune) : string := digest (show_fres (format_res rs)).
Definition full (rs : list rune) : string := show_fres (format_res rs).
Eval vm_compute in ("<<<M207>>>" ++ check (runes_of_ascii "root packet A {
    } packet int //
{
    @calculatedFrom( ""a\""b""	) u32 x_y_z @lengthOf( u
    ) , repeat
    _x charz`tab	here`
, stringy stringy ,
@calculatedFrom(
""" ++ [28040; 24687]%N ++ runes_of_ascii """ ) repeat
// `tick` ""quote"" 'q'
// a // b
falsey {
zchar[ 255
    ]
As @lengthOf(BodyLength ) , match Z9_
    as As	{ [
0123456789, 007, ""a\\"", ""\" ++ [233]%N ++ runes_of_ascii """// 50% %s
, ""x y"" ,3 ] : i8i8
    ,} ,	} , f32a
    {match leftPad as crc{	[ ""\" ++ [233]%N ++ runes_of_ascii """ , // " ++ [128512]%N ++ runes_of_ascii " emoji
""packet""
,
65535 ,""`tick`"",
""`tick`"" ,
""a\\"" , """" ,
    //x
    ""// no comment""
// @lengthOf(
//	t
]// 50% %s
: calculatedFrom""packet""
    :
// c
//
Packet // c
, [ //x
4294967296 ,
    // c
    4294967296
    ,//x
""{,}""
// " ++ [128512]%N ++ runes_of_ascii " emoji
// `tick` ""quote"" 'q'
]  :T [0 ,0  , """ ++ [233]%N ++ runes_of_ascii "t" ++ [233]%N ++ runes_of_ascii """ , 42 ,
""a	b"", 7
]: tag 3: As  , }
, char[]
matchKey
    `crlf
line`
, // packet A { u8 x, }
}
,repeat zchar[
    //	t
    4294967296 ] As , rootA	T
,
// @lengthOf(
// " ++ [128512]%N ++ runes_of_ascii " emoji
@tag( 65535
)
    @calculatedFrom(
""{,}"" // a // b
)
    /// triple
    repeat// @lengthOf(
i16 Z9_ `{ , }` , @calculatedFrom( ""{,}"") len {
match// trailing space 
u128 //
as
zchar {[	00 , 4294967296
    ] // 50% %s
:  charz
,""a\\""
    :	i8i8  ,""" ++ [233]%N ++ runes_of_ascii "t" ++ [233]%N ++ runes_of_ascii """ :
    x_y_z,65535 :uint8x
,
}, repeat leftPad { f32 u128	@lengthOf(
As ) ,
    body `" ++ [28040; 24687; 31867; 22411]%N ++ runes_of_ascii "` , rootA// @lengthOf(
Pad
,} ,
char[ 00 ] msg_type `say ""hi""`// `tick` ""quote"" 'q'
,
    /// triple
    zchar[ // @lengthOf(
0123456789	] falsey,
    // " ++ [27880; 37322]%N ++ runes_of_ascii "
    } ,
    repeat int
`a\`
, } root
packet f32a { int8
    Header ``,
    }

")).
Eval vm_compute in ("<<<M1579>>>" ++ check (runes_of_ascii "packet x {
}

options {
    Packet = string
    Packet = ' '
    zchar = false;
    matchKey = false
}

packet f32a {
    int64 options1 @calculatedFrom(""packet"") `// not a comment`,
    Z9_ {
        charz {
            match BodyLength as trueish {
                ""\" ++ [233]%N ++ runes_of_ascii """ : charz,
                65535 : roots,
                [4294967296, ""a\""b"", ""abc""] : f32a,
                ""\" ++ [233]%N ++ runes_of_ascii """ : int,
                // packet A { u8 x, }
                ""x y"" : u8x,
            },
            repeat int8 u,
            repeat _x {
                msg_type `100% of %d`,
                metadata `crlf
                                line`,
                f32 roots,
                char[] f32a @lengthOf(Pad),// c
            },
        },
    },
    match T as calculatedFrom {
        [0, """ ++ [128512]%N ++ runes_of_ascii """] : Pad,
        // packet A { u8 x, }
        [
            """", ""x y"", """ ++ [233]%N ++ runes_of_ascii "t" ++ [233]%N ++ runes_of_ascii """, ""a\""b"", 4294967296,
            """ ++ [28040; 24687]%N ++ runes_of_ascii """
        ] : o,
        [42] : float,
    },
    match zchar as _x {
        ""`tick`"" : packetx,
    },
    // 50% %s
    repeat As {
        int @lengthOf(msg_type),
        i64 roots `line1
                line2`,// c
        repeat u16 Packet `" ++ [233]%N ++ runes_of_ascii "`,
        f64 charz,
    },
    int32 i8i8 `say ""hi""`,
}")).
Eval vm_compute in ("<<<M1320>>>" ++ check (runes_of_ascii "// top
packet // c0a
  // c0b
A { // c2a
  // c2b
u8 // c3
a // c4a
  // c4b
, // c5
} // c6a
  // c6b
packet // c7
B
    // c8
{
    // c9
u16 b // c11
, } // c13a
  // c13b
packet // c14a
  // c14b
C // c15
{ // c16a
  // c16b
u32 c // c18
, }
    // c20
root // c21a
  // c21b
packet M
    // c23
{ // c24
u16 // c25
Kc , // c27a
  // c27b
u16 // c28
Kb // c29
, // c30a
  // c30b
u16 Ka // c32a
  // c32b
,
    // c33
match Kc
    // c35
as
    // c36
X // c37
{ 9
    // c39
: A // c41
, 10 // c43
: // c44
B // c45
,
    // c46
} , // c48a
  // c48b
match // c49
Kb // c50a
  // c50b
as // c51
Y // c52a
  // c52b
{ 2 // c54
: C , // c57a
  // c57b
1 // c58a
  // c58b
: // c59a
  // c59b
A ,
    // c61
}
    // c62
, // c63a
  // c63b
match
    // c64
Ka // c65
as Z // c67a
  // c67b
{
    // c68
1 // c69
: // c70
B // c71a
  // c71b
, // c72a
  // c72b
} // c73
, // c74a
  // c74b
A // c75a
  // c75b
, // c76
B // c77
, // c78a
  // c78b
C , // c80a
  // c80b
} // c81
")).
Eval vm_compute in ("<<<M1731>>>" ++ check (runes_of_ascii "MetaData len {
    float roots `u8 x,`,
    u32 int `" ++ [233]%N ++ runes_of_ascii "`,
}

root packet x {
    @tag(1)
    repeat charz,
    Pad @calculatedFrom(""" ++ [233]%N ++ runes_of_ascii "t" ++ [233]%N ++ runes_of_ascii """),
    match int as u8x {
        //x
        0 : leftPad,
        [1, 0123456789, 10] : uint8x,
    },
    @leftPad()
    /// triple
    repeat u128 {
        f64 _x `two words`,
        T @calculatedFrom(""\n"") `u8 x,`,
        match A as crc {
            3 : leftPad,
            """ ++ [128512]%N ++ runes_of_ascii """ : falsey,
            [
                """ ++ [233]%N ++ runes_of_ascii "t" ++ [233]%N ++ runes_of_ascii """, 4294967296, """ ++ [28040; 24687]%N ++ runes_of_ascii """, ""a	b"", 00,
                """ ++ [233]%N ++ runes_of_ascii "t" ++ [233]%N ++ runes_of_ascii """
            ] : rootA,
            ""1"" : MetaDataX,
        },
        f32 o @calculatedFrom(""// no comment"") `// not a comment`,// a // b
    },
    chars @calculatedFrom(""{,}""),
    @rightPad(' ')
    @tag(0)
    repeat BodyLength ``,
    body,
}

MetaData T {
    len i8i8,
}

options {
    f32a = true
}

packet falsey {
}")).
Eval vm_compute in ("<<<M1920>>>" ++ check (runes_of_ascii "MetaData BodyLength {
}

packet x_y_z {
    @lengthOf(roots)
    A {
        // " ++ [128512]%N ++ runes_of_ascii " emoji
        repeat zchar[0123456789] Z9_ `a\`,
    },
}

options {
    Pad = ""x y"";// trailing space 
    trueish = true
    body = 3;
    matchKey = true;
    i64_ = char[];
}

packet Packet {
    char[] float @calculatedFrom(""`tick`""),
    char[] charz @calculatedFrom(""abc""),
    match As as asx {
        [
            """ ++ [28040; 24687]%N ++ runes_of_ascii """, ""`tick`"", ""{,}"", ""{,}"", ""a	b"",
            1, ""\" ++ [233]%N ++ runes_of_ascii """
        ] : rootA,
        255 : asx,
        42 : a1,
        42 : x_y_z,
        """" : msg_type,
        7 : f32a,
    },
    @leftPad('0')
    repeatCount crc `// not a comment`,
    @lengthOf(MetaDataX)
    float64 falsey @calculatedFrom(""\" ++ [233]%N ++ runes_of_ascii """) `" ++ [233]%N ++ runes_of_ascii "`,
}")).
Eval vm_compute in ("<<<M161>>>" ++ check (runes_of_ascii "root/// triple
packet options1
    {// " ++ [27880; 37322]%N ++ runes_of_ascii "
@tag(
// c
// 50% %s
0
    // `tick` ""quote"" 'q'
    )
    len leftPad	, @calculatedFrom(
    """ ++ [233]%N ++ runes_of_ascii "t" ++ [233]%N ++ runes_of_ascii """ )
    stringy a1 `` ,	@rightPad ( )a1	`" ++ [28040; 24687; 31867; 22411]%N ++ runes_of_ascii "`
// " ++ [27880; 37322]%N ++ runes_of_ascii "
// a // b
, char Header @lengthOf( x
) `a\` ,uint8x
Z9_ `it's` ,
match
roots as
    o { [ ""{,}"" , ""CRC32"" // `tick` ""quote"" 'q'
] : o ,
    ""CRC32"": Pad ,
} , // 50% %s
@tag(
    00) zchar[ 4294967296
]	x , @lengthOf( repeatCount
) uint16 // `tick` ""quote"" 'q'
T ,  @lengthOf( u128 ) repeat
i64_ { repeat	u8 MetaDataX // `tick` ""quote"" 'q'
`" ++ [233]%N ++ runes_of_ascii "` ,
    repeat
    // a // b
    u8x
    // c
    `two words`
    ,
}  ,
} // packet A { u8 x, }")).
Eval vm_compute in ("<<<M1789>>>" ++ check (runes_of_ascii "  packet
x_y_z
    {repeat
asx{

    falsey@lengthOf(	u ) `100% of %d`
, repeat

matchKey { 
x_y_z
	@calculatedFrom( ""a\\"" 
        // trailing space 
  	// trailing space 
)

, i64 
// 50% %s
  //
		calculatedFrom  @calculatedFrom(
""// no comment"" )`{ , }`  ,
} 	 // 50% %s
	,
// c
  //	t

  char[  // 50% %s
    007]Foo	@calculatedFrom(

    ""abc""

    )  ,

}
,repeat
uint32  Pad
    ,

repeat Logon

{
Logon

{
	char[] packetx  @calculatedFrom( 

// " ++ [128512]%N ++ runes_of_ascii " emoji
	  // `tick` ""quote"" 'q'

  ""it's"" )	`
`	,	} ,
    i8

len
    ,	asx	, 
} ,

    }
")).
Eval vm_compute in ("<<<M1568>>>" ++ check (runes_of_ascii "MetaData i8i8 {
    char[00] msg_type `say ""hi""`,
}// " ++ [128512]%N ++ runes_of_ascii " emoji

MetaData charz {
    zchar[0] options1,
}

packet MetaDataX {
    // packet A { u8 x, }
    Header u8x `// not a comment`,
    x rootA,
    @lengthOf(falsey)
    @lengthOf(i8i8)
    match MetaDataX as stringy {
        [""" ++ [128512]%N ++ runes_of_ascii """, ""a\""b""] : i64_,
    },
}

MetaData msg_type {
    string zchar `doc`,
    //
}

MetaData leftPad {
    uint8 x `crlf
        line`,
    i32 msg_type `// not a comment`,
    char[255] leftPad,// a // b
    char[] u,//	t
}")).
Eval vm_compute in ("<<<M1730>>>" ++ check (runes_of_ascii "options {
    LittleEndian = true;
    ArrayPrefixLenType = u32;
    FixedStringPadChar = ' ';
}

packet Order {
    char[5] seqNo,
    uint8 Px,
}

packet Logon {
    @rightPad('\x00')
    char[8] Flags,
    zchar[3] count,
    repeat Order,
}

root packet Party {
    repeat Logon,
    repeat char[1] x,
    u32 price,
    u32 Side2 @lengthOf(Body),
    match price as Body {
        49 : Order,
        196 : Logon,
    },
    u32 f1 @calculatedFrom(""CR\
    C32""),
}")).
Eval vm_compute in ("<<<M1623>>>" ++ check (runes_of_ascii "options {
    ArrayPrefixLenType = u64;
    FixedStringPadFromLeft = true;
    FixedStringPadChar = '0';
}

packet Order {
}

root packet Leg {
    char[] Ref,
    repeat Order,
    f32 Acct,
    @leftPad('0')
    char[10] venue,
    @rightPad('0')
    char[3] seqNo,
    repeat u64 Px,
    u8 Flags,
    u32 lastPx @lengthOf(Body),
    match Flags as Body {
        185 : Order,
    },
    u16 sym @calculatedFrom(""CR\
    C32""),
}")).
Eval vm_compute in ("<<<M1340>>>" ++ check (runes_of_ascii "packet Frame {
    u8 HK,
    u8 BK,
    u8 TK,
    match HK as Hdr {
        1 : HdrA,
        2 : HdrB,
    },
    match BK as Body {
        1 : BodyA,
        2 : BodyB,
    },
    match TK as Trl {
        1 : TrlA,
    },
}
packet HdrA {
    u8 a,
}
packet HdrB {
    u16 b,
}
packet BodyA {
    u32 c,
}
packet BodyB {
    u64 d,
}
packet TrlA {
    u8 e,
}
root packet Msg {
    Frame,
    u8 x,
}
")).
Eval vm_compute in ("<<<M1276>>>" ++ check (runes_of_ascii "// top
packet // c0
B // c1a
  // c1b
{ u8
    // c3
a ,
    // c5
} // c6
root packet P // c9
{ u8 // c11a
  // c11b
K // c12a
  // c12b
, // c13a
  // c13b
match
    // c14
K
    // c15
as
    // c16
Body // c17
{
    // c18
1 // c19
: B // c21
,
    // c22
} , u16 // c25
L
    // c26
@lengthOf( // c27a
  // c27b
Body
    // c28
)
    // c29
, // c30a
  // c30b
} ")).
Eval vm_compute in ("<<<M1835>>>" ++ check (runes_of_ascii "packet Header {
    @lengthOf(MetaDataX)
    char[] Z9_ @calculatedFrom(""CRC32"") `u8 x,`,
}

packet a1 {
    @lengthOf(As)
    // c
    // trailing space 
    repeat rootA Header,
    @tag(255)
    //
    // " ++ [128512]%N ++ runes_of_ascii " emoji
    zchar[255] A @calculatedFrom(""{,}"") `{ , }`,
    @lengthOf(Header)
    uint8 leftPad @calculatedFrom(""" ++ [233]%N ++ runes_of_ascii "t" ++ [233]%N ++ runes_of_ascii """),// " ++ [128512]%N ++ runes_of_ascii " emoji
}")).
Eval vm_compute in ("<<<M1709>>>" ++ check (runes_of_ascii "// top
packet A {
    // c2
    u8 a,// c5
}// c6

packet B {
    // c9
    u16 b,
}

root packet P {
    u8 K1,// c20
    u8 K2,
    // c23
    match K1 as M1 {
        // c28a
        // c28b
        1 : A,
    },
    // c34
    match K2 as M2 {
        1 : B,
        // c43
    },// c45
}
// c46")).
Eval vm_compute in ("<<<M1454>>>" ++ check (runes_of_ascii "// c
packet BodyLength {
    @tag(42)
    Header tag `u8 x,`,
}

options {
}

packet string_ {
    float32 rootA,
    uint8 MetaDataX `crlf
        line`,
    charz,
    @tag(4294967296)
    @rightPad('\x00')
    @tag(7)
    // c
    u32 u128 @calculatedFrom(""\" ++ [233]%N ++ runes_of_ascii """),
}")).
Eval vm_compute in ("<<<M1823>>>" ++ check (runes_of_ascii "// top
MetaData msg_type {
    // c2
    int32 As `crlf
    line`,// c6
    MetaDataX x `a\`,// c10
    int8 _x,// c13
    char[] As `u8 x,`,// c17
    zchar[3] uint8x,// c22
    As Foo,// c25
}// c26

root packet repeatCount {
    // c30
}// c31")).
Eval vm_compute in ("<<<M427>>>" ++ check (runes_of_ascii "packet
    asx { @calculatedFrom(
""""  ) @tag( 255 ) )repeat
// packet A { u8 x, }
// trailing space 
int16 u8x
,
@tag(
    //
    007 )
    @tag( 0
    /// triple
    ) @tag( 1) u
    @lengthOf( T ),
// `tick` ""quote"" 'q'
//x
} // " ++ [128512]%N ++ runes_of_ascii " emoji")).
Eval vm_compute in ("<<<M403>>>" ++ check (runes_of_ascii "packet
    asx { """"
@calculatedFrom(  ) @tag( 255 )repeat
// packet A { u8 x, }
// trailing space 
int16 u8x
,
@tag(
    //
    007 )
    @tag( 0
    /// triple
    ) @tag( 1) u
    @lengthOf( T ),
// `tick` ""quote"" 'q'
//x
} // " ++ [128512]%N ++ runes_of_ascii " emoji")).
Eval vm_compute in ("<<<M1285>>>" ++ check (runes_of_ascii "// top
options // c0a
  // c0b
{
    // c1
FixedStringPadFromLeft // c2a
  // c2b
= // c3a
  // c3b
true ; // c5
}
    // c6
root // c7
packet
    // c8
P // c9a
  // c9b
{ char[ // c11
4 // c12
]
    // c13
z , // c15
} // c16a
  // c16b
")).
Eval vm_compute in ("<<<M164>>>" ++ check (runes_of_ascii "options {falsey = 42 }  options { A
= 0123456789 ; options1 =	""// no comment""o = ""// no comment"" ; u8x =
// 50% %s
// 50% %s
true ;
} root packet Z9_ // " ++ [128512]%N ++ runes_of_ascii " emoji
{	} root packet
o
    {
@tag(65535 )repeat f32 Logon `100% of %d` ,}
")).
Eval vm_compute in ("<<<M1261>>>" ++ check (runes_of_ascii "// top
packet // c0
Inner {
    // c2
u8
    // c3
a // c4a
  // c4b
,
    // c5
}
    // c6
root
    // c7
packet
    // c8
P { // c10a
  // c10b
Inner
    // c11
ref_obj , u8 // c14a
  // c14b
x // c15
, } // c17
")).
Eval vm_compute in ("<<<M229>>>" ++ check (runes_of_ascii "options {
    }packet u128 // 50% %s
{@tag(
// `tick` ""quote"" 'q'
// " ++ [27880; 37322]%N ++ runes_of_ascii "
255 ) @tag( // `tick` ""quote"" 'q'
0
    )  Packet , } packet u8x { o, }
packet  As { repeat
    msg_type Header , }
")).
Eval vm_compute in ("<<<M592>>>" ++ check (runes_of_ascii "MetaData u
    { } MetaData o
{ float uint8x
`100% of %d` `100% of %d` ,repeatCount u8x, string_ leftPad
, i32
    Foo , int64 x `two words` , calculatedFrom
stringy `a\` ,
}
")).
Eval vm_compute in ("<<<M677>>>" ++ check (runes_of_ascii "MetaData u
    { } MetaData o
{ float uint8x
`100% of %d` ,repeatCount u8x, string_ leftPad
, i32
    Foo , int64 x `two words` , calculatedFrom
stringy `a\` `a\` ,
}
")).
Eval vm_compute in ("<<<M682>>>" ++ check (runes_of_ascii "MetaData u
    { } MetaData o
{ float uint8x
`100% of %d` ,repeatCount u8x, string_ leftPad
, i32
    Foo , int64 x `two words` , calculatedFrom
stringy `a\` , ,
}
")).
Eval vm_compute in ("<<<M588>>>" ++ check (runes_of_ascii "MetaData u
    { } MetaData o
{ float `100% of %d`
uint8x ,repeatCount u8x, string_ leftPad
, i32
    Foo , int64 x `two words` , calculatedFrom
stringy `a\` ,
}
")).
Eval vm_compute in ("<<<M611>>>" ++ check (runes_of_ascii "MetaData u
    { } MetaData o
{ float uint8x
`100% of %d` ,repeatCount u8x string_ leftPad
, i32
    Foo , int64 x `two words` , calculatedFrom
stringy `a\` ,
}
")).
Eval vm_compute in ("<<<M646>>>" ++ check (runes_of_ascii "MetaData u
    { } MetaData o
{ float uint8x
`100% of %d` ,repeatCount u8x, string_ leftPad
, i32
    Foo ,  x `two words` , calculatedFrom
stringy `a\` ,
}
")).
Eval vm_compute in ("<<<M1833>>>" ++ check (runes_of_ascii "

  options  { 
LittleEndian
	=	true 
;
    }

packet 
B {
u8

a,
string
s  ,
	}root

    packet
    P
	{
u16
L@lengthOf(	B)
,

    B,u8
	t 
,
	}

")).
Eval vm_compute in ("<<<M1542>>>" ++ check (runes_of_ascii "  options {	} options
	{
    MetaDataX
	=char
;

    }
// c
  	MetaData
Pad	{
i8  metadata,
string
stringy ,int8

    As
`{ , }` , }
")).
Eval vm_compute in ("<<<M1840>>>" ++ check (runes_of_ascii "options {
    LittleEndian = true;
}

packet B {
    u8 a,
    string s,
}

root packet P {
    u16 L @lengthOf(B),
    B,
    u8 t,
}")).
Eval vm_compute in ("<<<M1854>>>" ++ check (runes_of_ascii "options {
}// c

options {
    MetaDataX = char;
}

MetaData Pad {
    i8 metadata,
    string stringy,
    int8 As `{ , }`,
}")).
Eval vm_compute in ("<<<M1629>>>" ++ check (runes_of_ascii "MetaData
rootA
{
uint8
	msg_type ,zchar[ 
    //
    42
    ]
    As

    ,

    T
	int
	,

    }// a // b
")).
Eval vm_compute in ("<<<M1219>>>" ++ check (runes_of_ascii "options { } options { MetaDataX = char ; // c
} MetaData Pad { i8 metadata , string stringy , int8 As `{ , }` , }")).
Eval vm_compute in ("<<<M109>>>" ++ check (runes_of_ascii "
options
{
charz  = ""a\\""
    // trailing space 
    rootA
=""packet"" ; x= ""a	b"" ;
    // " ++ [27880; 37322]%N ++ runes_of_ascii "
    rootA =
string}")).
Eval vm_compute in ("<<<M953>>>" ++ check (runes_of_ascii "packet A {
    u16 len @lengthOf(body) `
x`,
    u32 crc @calculatedFrom(""CRC32"") `
x`,
    string body,
}")).
Eval vm_compute in ("<<<M918>>>" ++ check (runes_of_ascii "packet A {
    Inner {
        u8 x `a
b`,
        Deep {
            u8 y `a
b`,
        },
    },
}")).
Eval vm_compute in ("<<<M972>>>" ++ check (runes_of_ascii "packet A {
    Inner {
        u8 x `%`,
        Deep {
            u8 y `%`,
        },
    },
}")).
Eval vm_compute in ("<<<M93>>>" ++ check (runes_of_ascii "packet
    Foo
{float64
    a1,
string Z9_ @lengthOf(Logon)`line1
line2`
    ,
}
// " ++ [128512]%N ++ runes_of_ascii " emoji
")).
Eval vm_compute in ("<<<M877>>>" ++ check (runes_of_ascii "packet A {
  match k as n {
    [1, 22, 007, 4, 5, 66, 7, 8, 9, 10] : B
    2 : C
  },
}")).
Eval vm_compute in ("<<<M864>>>" ++ check (runes_of_ascii "packet A {
  match k as n {
    [1, 22, 007, 4, 5, 66, 7, 8, 9] : B
    2 : C
  },
}")).
Eval vm_compute in ("<<<M821>>>" ++ check (runes_of_ascii "packet A {
  match k as n {
    [""a"", ""bb"", 007, ""d"", ""e""] : B,
    2 : C
  },
}")).
Eval vm_compute in ("<<<M1528>>>" ++ check (runes_of_ascii "packet

    A 
{ 
B	b

`x
`

,

B`x
` 
,
repeat  B
bs
    `x
`

    , }")).
Eval vm_compute in ("<<<M1118>>>" ++ check (runes_of_ascii "packet A {
    match k as n {
        1 : B // c
        , // d
    },
}")).
Eval vm_compute in ("<<<M793>>>" ++ check (runes_of_ascii "packet A {
  match k as n {
    [1, 22, ""c c""] : B,
    2 : C
  },
}")).
Eval vm_compute in ("<<<M916>>>" ++ check (runes_of_ascii "packet A {
    B b `a
b`,
    B `a
b`,
    repeat B bs `a
b`,
}")).
Eval vm_compute in ("<<<M1893>>>" ++ check (runes_of_ascii "options
    { BodyLength

    =  true ;string_
=	false ;}")).
Eval vm_compute in ("<<<M784>>>" ++ check (runes_of_ascii "packet A { Inner { match k as n { [1,22] : B, }, }, }")).
Eval vm_compute in ("<<<M1525>>>" ++ check (runes_of_ascii "
options

{
A
= 
	// c
  ""// no comment""

}

")).
Eval vm_compute in ("<<<M1497>>>" ++ check (runes_of_ascii "
packet

    A
	{
    } 
    // c" ++ [133]%N ++ runes_of_ascii "
 
")).
Eval vm_compute in ("<<<M1194>>>" ++ check (runes_of_ascii "options { A = ""// no comment"" }
// c
")).
Eval vm_compute in ("<<<M980>>>" ++ check (runes_of_ascii "root packet A {
    u8 x `%%d%!`,
}")).
Eval vm_compute in ("<<<M1295>>>" ++ check (runes_of_ascii "root packet P {
    string s,
}
")).
Eval vm_compute in ("<<<M1047>>>" ++ check (runes_of_ascii "packet A {
 u8 x `d" ++ [8287]%N ++ runes_of_ascii "`, // c" ++ [8287]%N ++ runes_of_ascii "
}")).
Eval vm_compute in ("<<<M1535>>>" ++ check (runes_of_ascii "  MetaData

    u{
    }
")).
Eval vm_compute in ("<<<M1146>>>" ++ check (runes_of_ascii "root packet
// c
a1 { }")).
Eval vm_compute in ("<<<M306>>>" ++ check (runes_of_ascii "//
packet int{ }
//
")).
Eval vm_compute in ("<<<M1051>>>" ++ check (runes_of_ascii "// c" ++ [11]%N ++ runes_of_ascii "
packet A {
}")).
Eval vm_compute in ("<<<M1053>>>" ++ check (runes_of_ascii "packet A {
}// c" ++ [12]%N)).
Eval vm_compute in ("<<<M1511>>>" ++ check (runes_of_ascii "packet _x {
}")).
Eval vm_compute in ("<<<M1029>>>" ++ check (runes_of_ascii "// c" ++ [8232]%N)).
