From FP Require Import Lexer Parser ShowPT Digest Formatter.
From Coq Require Import String List NArith.
Import ListNotations.
Open Scope string_scope.
Set Printing Width 100000000.
Set Printing Depth 100000000.
Definition show_fres (r : fres) : string :=
  match r with
  | FOk s => "OK:" ++ sh_escaped s ""
  | FErr s => "ERR:" ++ sh_escaped s ""
  | FPanic p => "PANIC:" ++ p
  end.
Definition check (rs : list rune) : string := digest (show_fres (format_res rs)).
Definition full (rs : list rune) : string := show_fres (format_res rs).
Eval vm_compute in ("<<<M121>>>" ++ check (runes_of_ascii "packet body{ Z9_ {
    string leftPad `crlf
line` , msg_type { // c
uint64 tag  `{ , }` ,repeat f64 BodyLength
,} , i8i8 BodyLength , }
    // " ++ [128512]%N ++ runes_of_ascii " emoji
    , falsey //
,@leftPad ( // c
'0') @lengthOf(
    falsey	)
    f32 Z9_
@lengthOf(  o )
    , @calculatedFrom(
""" ++ [233]%N ++ runes_of_ascii "t" ++ [233]%N ++ runes_of_ascii """ )
repeat string //x
As
,@lengthOf(falsey) @calculatedFrom( ""a	b"")
    @tag( 3
) repeat Header{
Packet@lengthOf(
    crc )
    , repeat int16
As
, repeat uint16 // packet A { u8 x, }
f32a , } , @lengthOf(float )@tag(
    3 )
    // a // b
    @tag(// " ++ [128512]%N ++ runes_of_ascii " emoji
10 )	roots
BodyLength , string tag //	t
,
} MetaData int {  char[ 1 ] As
, Packet u128 , // c
pack
    x_y_z
`{ , }` ,
    string_
len ,
zchar[
0
] Header , string
    zchar `
`, } root packet uint8x { char[] u128
, }root packet crc { repeat trueish { f32 lengthOf `say ""hi""` , i8 crc	@calculatedFrom( """ ++ [233]%N ++ runes_of_ascii "t" ++ [233]%N ++ runes_of_ascii """) , match Z9_ as repeatCount
    {
    [ 3 ] :  string_
, ""it's""  : A 0 :	u8x 65535 : u128  } , // trailing space 
i32 x , },char[]
    pack `// not a comment` , char[]leftPad @calculatedFrom("""" ) `
` ,
string o `doc` ,}
    packet// " ++ [27880; 37322]%N ++ runes_of_ascii "
rootA  { // " ++ [128512]%N ++ runes_of_ascii " emoji
repeat x_y_z{
    zchar[
//	t
//	t
3 ]
    stringy
`crlf
line`,  BodyLength
    BodyLength
    `` , lengthOf
@calculatedFrom(
""x y""
) , // c
float64
    // " ++ [27880; 37322]%N ++ runes_of_ascii "
    Logon	@calculatedFrom(
""a\\"" ) ,
} , @lengthOf( Pad
)// `tick` ""quote"" 'q'
@calculatedFrom( ""abc"") @tag(4294967296 )uint8x @lengthOf( // packet A { u8 x, }
crc )  ,
@calculatedFrom( //	t
""" ++ [233]%N ++ runes_of_ascii "t" ++ [233]%N ++ runes_of_ascii """  )
string u
@lengthOf(
uint8x)
    `// not a comment` ,u
    metadata`u8 x,`
,
    }
")).
Eval vm_compute in ("<<<M1745>>>" ++ check (runes_of_ascii "  packet
chars{
int32	trueish	,match Pad 
as
repeatCount
	{[

0 ] : // " ++ [27880; 37322]%N ++ runes_of_ascii "
	Pad

,/// triple
	3  :Foo

    ,""abc""

:
    i64_	//	t

  ,
[ 255

    ,
    3
] : 
Packet	,	[

0123456789// @lengthOf(
	, 
""// no comment""
	] :
Packet
,}
	,  // c
    match
a1
as

u{  [// `tick` ""quote"" 'q'
	  ""abc"" , """ ++ [233]%N ++ runes_of_ascii "t" ++ [233]%N ++ runes_of_ascii """ 
, """" ,

    0  ,  
  //	t
	255  ]
: u 
	    //	t
	,
    }
    ,
@tag(  10
)
match a1
as 
a1
{
    [
42 ]	//
	:
packetx ,
}
    ,

    @lengthOf( As)
    repeat char[  0123456789 ]  repeatCount`tab	here`

,
    string
    o

    `crlf
line` , 
//x

// a // b

As
	@lengthOf(	//x
      i8i8
)
	,
string
    repeatCount @lengthOf( u128 
)

    ,

//
  @tag(

00	)	repeat pack
	Logon

    ,}root  packet Foo
    {

@tag( 1 )  char[// packet A { u8 x, }
		3

] i64_
,

f32

    // packet A { u8 x, }
	// " ++ [27880; 37322]%N ++ runes_of_ascii "
    charz
,// `tick` ""quote"" 'q'

i8
    zchar
	@lengthOf( // `tick` ""quote"" 'q'

MetaDataX	) /// triple
  	,  @tag(  007
)  u8 _x, 
@tag( 
255
) msg_type@calculatedFrom( ""`tick`""
)  `doc`,
    @calculatedFrom(  """ ++ [233]%N ++ runes_of_ascii "t" ++ [233]%N ++ runes_of_ascii """

    )match  len
    as 	 /// triple
		As

    {""// no comment""

    :falsey 
,

    }  ,
    }	MetaData leftPad { x

i8i8 ,  }  //
")).
Eval vm_compute in ("<<<M139>>>" ++ check (runes_of_ascii "
packet len{ repeat i8i8 `u8 x,`
    ,
// @lengthOf(
// a // b
repeat char[ // c
0123456789
//x
//
]	a1 ,
@rightPad ( )
// trailing space 
// " ++ [27880; 37322]%N ++ runes_of_ascii "
match options1 as
    string_
{ 007 :uint8x  [
""it's"", // c
""\n"" ] : body } , zchar[ 1
] float @lengthOf( Header) , @lengthOf( rootA )  @tag(
    // packet A { u8 x, }
    00 ) @lengthOf( metadata ) repeat
    //x
    metadata { int16
    // " ++ [27880; 37322]%N ++ runes_of_ascii "
    i64_
    ,} ,
i64_ , zchar[ 0123456789 ] lengthOf @calculatedFrom(""it's"" ) ,  } root
    packet
f32a { @leftPad
    ( '0' ) @leftPad // " ++ [128512]%N ++ runes_of_ascii " emoji
( '\x00' ) i64_`tab	here`
,repeat x Packet ,char[ 42 ] Foo @calculatedFrom( ""abc"" ) , int16  uint8x @lengthOf( MetaDataX ) // @lengthOf(
`a\`
, // " ++ [27880; 37322]%N ++ runes_of_ascii "
i8 Header `
` /// triple
, repeat//
Pad
    A , char[3  ] _x , @calculatedFrom(// trailing space 
""x y"")
match MetaDataX	as As {
//	t
//x
[	""a	b"", """ ++ [28040; 24687]%N ++ runes_of_ascii """
]
:	options1, [""" ++ [28040; 24687]%N ++ runes_of_ascii """ ,
""it's""
    , 3
    , 7
,
42 ,""abc""	] :	_x , """"
    //	t
    :
charz ,
""a\\"" :// trailing space 
a1
, //
} , @tag( 7 ) u8 float ,
    }
")).
Eval vm_compute in ("<<<M1776>>>" ++ check (runes_of_ascii "  packet
chars{} // c
	  packet
    len{ repeat
char[]  Foo
    ,	@rightPad (
'0' ) zchar[ 007
] 	 /// triple
  a1`say ""hi""` ,

repeat BodyLength

    leftPad 
, 
}

    root
    packet 
u8x 
{
f64 lengthOf	@calculatedFrom(
""CRC32""	)
,string

    zchar
@lengthOf(
int

) `crlf
line`
    ,
int  calculatedFrom ,@lengthOf(

    As )
    match	falsey as  asx { 65535
:
_x[ 1 
]
: u
	007  :

uint8x 00
: f32a
    ,  """ ++ [233]%N ++ runes_of_ascii "t" ++ [233]%N ++ runes_of_ascii """
    :
Packet,
    [ 42
	, ""a\""b""
]	: len 
    //x
	, }
,
@lengthOf(
stringy
	    // " ++ [128512]%N ++ runes_of_ascii " emoji
		)	@calculatedFrom( 
""1"" )

repeat A
{ char[]

lengthOf	`it's`
	, }
	,_x	`" ++ [28040; 24687; 31867; 22411]%N ++ runes_of_ascii "`
,

    @leftPad ('0' )match Foo
	as
	crc	{ 
10

    : trueish 
    // " ++ [27880; 37322]%N ++ runes_of_ascii "
  //
	,	42 : 	 // " ++ [128512]%N ++ runes_of_ascii " emoji

	Pad

    ,[ 4294967296
    , ""// no comment""
	, ""{,}""
	] :  float , }
    ,
    @lengthOf(  u8x
	)

a1 
    // c
  // trailing space 
		@calculatedFrom(
	""\" ++ [233]%N ++ runes_of_ascii """
	) // c
,}
")).
Eval vm_compute in ("<<<M1442>>>" ++ check (runes_of_ascii "options {
    LittleEndian = true;
    StringPrefixLenType = u64;
    ArrayPrefixLenType = u8;
    FixedStringPadChar = '0';
}
packet Reject {
    i32 Ref,
    repeat f64 OrderId,
    repeat InNote12 {
        u8 pad0,
    },
    @leftPad(' ') char[6] count,
}
packet Logout {
    zchar[6] Tail,
    repeat string venue,
}
packet Cancel {
    u64 count,
    repeat char[5] lastPx,
    i64 Tail,
    repeat InF140 {
        repeat Logout,
        repeat Reject,
    },
}
root packet Trade {
    repeat InMsgkind39 {
        repeat Reject,
        char[4] Px,
    },
    string Acct,
    uint16 price,
    f32 OrderId,
    u16 x,
    u16 clOrdID @lengthOf(Body),
    match x as Body {
        178 : Logout,
        13 : Cancel,
        174 : Reject,
    },
    u16 Flags @calculatedFrom(""CRC32""),
}
")).
Eval vm_compute in ("<<<M1455>>>" ++ check (runes_of_ascii "  options

{ 
StringPrefixLenType

= u16

    ; 
ArrayPrefixLenType

    =
u32

;	FixedStringPadFromLeft

=
	false ;
    FixedStringPadChar =

'0'
    ; 
} packet 
Logout

{
f64
    f1
, i16  Note  , @rightPad	(
	'\x00'
    )char[ 11

]
Flags
    ,

    } 
packet
Cancel  {	float64	msgKind
	,
} packet

    Reject{InQty43{float32 
sym
,

    char[
	10 ]
Tail
    , uint8
    venue, uint16
	f1  ,char[
9

]	Acct

,  }  ,}
packet

Trade {
char[]
x
,
	zchar[

    6 ]
	Note, repeat  Reject, }
	root
	packet
Order
{ Cancel

    ,Logout, u64
Acct

,	u32 
OrderId,  match
	OrderId
as 
Body {[
127 
,	70
	] : 
Reject
,
177	:

Trade

, 58 
:
	Logout , 75:Cancel

,
}  ,
u32	Tail@calculatedFrom( ""CRC32""

)
	,
}
")).
Eval vm_compute in ("<<<M91>>>" ++ check (runes_of_ascii "options{
T
    =
""x y"" ; } packet Z9_ { @leftPad
    ('0' )
int16
Header @calculatedFrom(
""1""
    ) , options1 @lengthOf(
    u8x )
`// not a comment`
,
    @calculatedFrom(""// no comment"" ) @lengthOf(pack //	t
) Header {
i32 // trailing space 
u
`{ , }`
, _x	, char[
    7 ] crc @lengthOf(i64_)  ,
    }
// a // b
// c
, // `tick` ""quote"" 'q'
float
@lengthOf(
roots ) `it's`  , } packet stringy { @rightPad( '\x00' //
) @rightPad ( //
'0' )
// " ++ [27880; 37322]%N ++ runes_of_ascii "
// packet A { u8 x, }
@calculatedFrom( """ ++ [28040; 24687]%N ++ runes_of_ascii """ ) string a1 ,
    f32
uint8x // packet A { u8 x, }
@lengthOf( charz
// c
// " ++ [128512]%N ++ runes_of_ascii " emoji
) `two words`
,
int32
x_y_z	@lengthOf( string_  ) //	t
,
}
")).
Eval vm_compute in ("<<<M1741>>>" ++ check (runes_of_ascii "// top
root packet msg_type {
    // c3
    i64 options1,
    // c6
    @lengthOf(f32a)
    // c9
    repeat uint16 Foo,// c13a
    // c13b
    @calculatedFrom(""x y"")
    // c16a
    // c16b
    repeat int64 pack,// c20a
    // c20b
    @leftPad(' ')
    // c24a
    // c24b
    uint8 Foo,
}

// c28
packet rootA {
    // c31
    f32a x `two words`,
    char asx @lengthOf(falsey) `u8 x,`,// c42
    @lengthOf(i64_)
    // c45
    uint16 chars,// c48
    @tag(0)
    string _x @calculatedFrom(""abc"") `// not a comment`,// c58
}// c59a
// c59b")).
Eval vm_compute in ("<<<M1199>>>" ++ check (runes_of_ascii "// top
packet // c0
trueish
    // c1
{ repeat // c3
u32
    // c4
MetaDataX // c5a
  // c5b
`doc` // c6a
  // c6b
, Header
    // c8
{
    // c9
packetx // c10a
  // c10b
o `u8 x,` // c12a
  // c12b
, // c13a
  // c13b
}
    // c14
,
    // c15
@leftPad // c16
( // c17a
  // c17b
'\x00' // c18a
  // c18b
) repeat char[
    // c21
0123456789
    // c22
] // c23
repeatCount // c24
,
    // c25
} // c26a
  // c26b
packet // c27
Packet // c28
{ // c29a
  // c29b
} ")).
Eval vm_compute in ("<<<M1464>>>" ++ check (runes_of_ascii "options {
    LittleEndian = false;
    StringPrefixLenType = u8;
    ArrayPrefixLenType = u16;
    FixedStringPadFromLeft = false;
}
packet Heartbeat {
    u8 seqNo,
    @rightPad('\x00') char[8] x,
}
root packet Trade {
    repeat Heartbeat,
    float32 OrderId,
    i64 Acct,
    u16 Qty,
    u16 clOrdID,
    match clOrdID as Body {
        131 : Heartbeat,
    },
    u16 sym @calculatedFrom(""CR\
C32""),
}
")).
Eval vm_compute in ("<<<M364>>>" ++ check (runes_of_ascii "packet string_{ repeat
crc {
As
@calculatedFrom( ""// no comment"" ) `" ++ [28040; 24687; 31867; 22411]%N ++ runes_of_ascii "` // trailing space 
,char x_y_z @lengthOf( Header )
    `u8 x,`
, } ,} root packet u128{ stringy// a // b
@lengthOf( options1 ) , } packet i64_
// " ++ [128512]%N ++ runes_of_ascii " emoji
// `tick` ""quote"" 'q'
{ @lengthOf( u128 )
@lengthOf(pack
) char[ 4294967296
] falsey@calculatedFrom( """ ++ [233]%N ++ runes_of_ascii "t" ++ [233]%N ++ runes_of_ascii """
// " ++ [27880; 37322]%N ++ runes_of_ascii "
// trailing space 
),
}
")).
Eval vm_compute in ("<<<M123>>>" ++ check (runes_of_ascii "MetaData len /// triple
{ //
f64 T
`u8 x,` , rootA	stringy ,  zchar repeatCount`say ""hi""` ,
    MetaDataX As ,i8i8 string_, x_y_z f32a , } options // c
{ Logon
    //
    =
    string float =  string
    A =
""abc""/// triple
;
    //
    A =
""\" ++ [233]%N ++ runes_of_ascii """Logon =7	}
    options{ }  options {
    packetx = ""abc""// c
; x =
    true
}
")).
Eval vm_compute in ("<<<M318>>>" ++ check (runes_of_ascii "
packet As { @leftPad
( )
    @leftPad ( ' '  )char[] zchar, A string_
`" ++ [233]%N ++ runes_of_ascii "`
,
a1
    {	Z9_ @lengthOf(
    repeatCount )
    , u128
{ zchar[4294967296 ] crc
//x
//
@calculatedFrom(  ""packet"" ) ,repeat char x_y_z, }
,	u8
    Logon	@calculatedFrom(
    """ ++ [233]%N ++ runes_of_ascii "t" ++ [233]%N ++ runes_of_ascii """ ) , }, }
packet
u { } // " ++ [128512]%N ++ runes_of_ascii " emoji")).
Eval vm_compute in ("<<<M302>>>" ++ check (runes_of_ascii "packet calculatedFrom {
    @lengthOf( zchar )	char[]// `tick` ""quote"" 'q'
chars
    `line1
line2` ,string
    Logon @calculatedFrom( ""it's""  ), matchKey `say ""hi""`, @lengthOf( T
    // c
    )
x_y_z @calculatedFrom(
    ""it's"" ) `// not a comment`	,
    }")).
Eval vm_compute in ("<<<M359>>>" ++ check (runes_of_ascii "
MetaData falsey
{uint64
matchKey
`// not a comment` ,	char Pad
    ,
    int16 Pad
// packet A { u8 x, }
// @lengthOf(
`" ++ [28040; 24687; 31867; 22411]%N ++ runes_of_ascii "`// @lengthOf(
,
    zchar[ 00 ]x_y_z, char[] // packet A { u8 x, }
i64_ , Logon repeatCount `tab	here` ,}")).
Eval vm_compute in ("<<<M419>>>" ++ check (runes_of_ascii "options
{
matchKey = 42/// triple
x char['0' ;
// packet A { u8 x, }
//
charz
=
// packet A { u8 x, }
// trailing space 
true  ; } MetaData BodyLength
{
uint8
pack,zchar[ 1]float ,  float32 x_y_z `` ,u32
_x,i16 body  , }
")).
Eval vm_compute in ("<<<M452>>>" ++ check (runes_of_ascii "options
{
matchKey = 42/// triple
x='0' ;
// packet A { u8 x, }
//
charz
=
// packet A { u8 x, }
// trailing space 
true  ; } } MetaData BodyLength
{
uint8
pack,zchar[ 1]float ,  float32 x_y_z `` ,u32
_x,i16 body  , }
")).
Eval vm_compute in ("<<<M579>>>" ++ check (runes_of_ascii "options
{
matchKey = 42/// triple
x='0' ;
// packet A { u8 x, }
//
charz
=
// packet A { u8 x, }
// trailing space 
true  ; } MetaData BodyLength
{
uint8
pack,zchar[ 1]float ,  float32 x_y_z `` ,u32
_x,i16 body  , }
" ++ [127]%N)).
Eval vm_compute in ("<<<M523>>>" ++ check (runes_of_ascii "options
{
matchKey = 42/// triple
x='0' ;
// packet A { u8 x, }
//
charz
=
// packet A { u8 x, }
// trailing space 
true  ; } MetaData BodyLength
{
uint8
pack,zchar[ 1]float ,  float32 x_y_z , ``u32
_x,i16 body  , }
")).
Eval vm_compute in ("<<<M489>>>" ++ check (runes_of_ascii "options
{
matchKey = 42/// triple
x='0' ;
// packet A { u8 x, }
//
charz
=
// packet A { u8 x, }
// trailing space 
true  ; } MetaData BodyLength
{
uint8
pack,f32 1]float ,  float32 x_y_z `` ,u32
_x,i16 body  , }
")).
Eval vm_compute in ("<<<M1853>>>" ++ check (runes_of_ascii "options {
    matchKey = 42/// triple
    x = '0';
    // packet A { u8 x, }
    //
    charz = true;
}

MetaData BodyLength {
    uint8 pack,
    zchar[1] float,
    float32 x_y_z,
    u32 _x,
    i16 body,
}")).
Eval vm_compute in ("<<<M2038>>>" ++ check (runes_of_ascii "packet 
x_y_z
{ }

packet Logon {
repeat i8 int ,

}

root  packet stringy
	{char
    chars  , char[]
a1  @calculatedFrom(
    ""// no comment""
	) `// not a comment`

    , 
string	Logon,	}

")).
Eval vm_compute in ("<<<M666>>>" ++ check (runes_of_ascii "// c
packet i64_ {	char[] calculatedFrom , , } packet
trueish  {@calculatedFrom(
""a\\"" ) o { i32 falsey@lengthOf( uint8x ),
} , } // `tick` ""quote"" 'q'
options {// c
Z9_ = ' '//
}
")).
Eval vm_compute in ("<<<M709>>>" ++ check (runes_of_ascii "// c
packet i64_ {	char[] calculatedFrom , } packet
trueish  {@calculatedFrom(
""a\\"" ) o { i32 falsey@lengthOf( uint8x ),
} , } // `tick` ""quote"" 'q'
options {// c
Z9_  ' '//
}
")).
Eval vm_compute in ("<<<M565>>>" ++ check (runes_of_ascii "options
{
matchKey = 42/// triple
x='0' ;
// packet A { u8 x, }
//
charz
=
// packet A { u8 x, }
// trailing space 
true  ; } MetaData BodyLength
{
uint8
pack,zchar[ ")).
Eval vm_compute in ("<<<M1910>>>" ++ check (runes_of_ascii "packet A {
    match k as n {
        [
            1, 22, ""c c"", 4, 5,
            ""f"", 7, 8, ""i"", 10,
            11
        ] : B,
        2 : C,
    },
}")).
Eval vm_compute in ("<<<M1571>>>" ++ check (runes_of_ascii "root packet f32a {
    char[] x_y_z `doc`,
    @calculatedFrom(""CRC32"")
    A tag `u8 x,`,
    int,
}

options {
    Packet = ""1"";
}

options {
}")).
Eval vm_compute in ("<<<M1367>>>" ++ check (runes_of_ascii "options{	LittleEndian	= true	;	}

    root
packet
	P
	{

    u16

    a ,
u32
    Sum
@calculatedFrom( ""CRC32""
	) 
,

    }
")).
Eval vm_compute in ("<<<M1656>>>" ++ check (runes_of_ascii "
packet
	calculatedFrom

{
    @tag( 
4294967296)u msg_type 
, 
char[ 
3 ]
    // c
  	crc@lengthOf(
    len
	)`u8 x,`

,  }

")).
Eval vm_compute in ("<<<M644>>>" ++ check (runes_of_ascii "MetaData
    // trailing space 
    matchKey
{ u64 chars // a // b
'1' ,char[] lengthOf `// not a comment`
    , //	t
}")).
Eval vm_compute in ("<<<M634>>>" ++ check (runes_of_ascii "MetaData
    // trailing space 
    matchKey
{ u64 chars // a // b
,char[] lengthOf `// not a comment`
    as //	t
}")).
Eval vm_compute in ("<<<M1763>>>" ++ check (runes_of_ascii "MetaData
float

{ } options
{ msg_type=

""a	b""
i8i8 =true stringy
	= 
""CRC32"" 
}
options
{ 
len

    =

""\" ++ [233]%N ++ runes_of_ascii """  } ")).
Eval vm_compute in ("<<<M659>>>" ++ check (runes_of_ascii "MetaData
    // trailing space 
    matchKey
{ u64 x" ++ [178]%N ++ runes_of_ascii " // a // b
,char[] lengthOf `// not a comment`
    , //	t
}")).
Eval vm_compute in ("<<<M621>>>" ++ check (runes_of_ascii "MetaData
    // trailing space 
    matchKey
{ u64 chars // a // b
,char[]  `// not a comment`
    , //	t
}")).
Eval vm_compute in ("<<<M1358>>>" ++ check (runes_of_ascii "
packet	B  { u8
    a	,	string s	, }
root packet

    P {	u16

L
	@lengthOf( B)	,
B,
u8
t
	,

    } ")).
Eval vm_compute in ("<<<M1269>>>" ++ check (runes_of_ascii "packet calculatedFrom { @tag( 4294967296 ) u msg_type , // c
char[ 3 ] crc @lengthOf( len ) `u8 x,` , }")).
Eval vm_compute in ("<<<M888>>>" ++ check (runes_of_ascii "packet A {
  match k as n {
    [""a"", ""bb"", 007, ""d"", ""e"", 66, ""g"", ""h"", 9, ""j""] : B
    2 : C
  },
}")).
Eval vm_compute in ("<<<M2030>>>" ++ check (runes_of_ascii "

  packet

A

{
	Inner{
    u8 x	`a
    b
  c`
,

    Deep {u8	y`a
    b
  c`, 
}
,
}	, }
")).
Eval vm_compute in ("<<<M1147>>>" ++ check (runes_of_ascii "packet Logon { @tag( 42 ) @rightPad ( ' '
// c
) @leftPad ( ) repeat trueish { string T , } , }")).
Eval vm_compute in ("<<<M871>>>" ++ check (runes_of_ascii "packet A {
  match k as n {
    [""a"", 22, ""c c"", 4, ""e"", 66, ""g"", 8, ""i""] : B
    2 : C
  },
}")).
Eval vm_compute in ("<<<M848>>>" ++ check (runes_of_ascii "packet A {
  match k as n {
    [""a"", ""bb"", 007, ""d"", ""e"", 66, ""g""] : B,
    2 : C
  },
}")).
Eval vm_compute in ("<<<M1797>>>" ++ check (runes_of_ascii "packet A {
    match k as n {
        [1, ""bb"", 007, ""d""] : B,
        2 : C,
    },
}")).
Eval vm_compute in ("<<<M1247>>>" ++ check (runes_of_ascii "packet o { @tag( 42 ) repeat x { char[ 0123456789 ] i64_ , } , } options { }
// c
")).
Eval vm_compute in ("<<<M1230>>>" ++ check (runes_of_ascii "packet o { @tag( 42 ) repeat x { char[ 0123456789 ] // c
i64_ , } , } options { }")).
Eval vm_compute in ("<<<M1996>>>" ++ check (runes_of_ascii "MetaData zchar {
    // c2a
    // c2b
    zchar[3] Pad,// c7a
    // c7b
}// c8")).
Eval vm_compute in ("<<<M445>>>" ++ check (runes_of_ascii "options
{
matchKey = 42/// triple
x='0' ;
// packet A { u8 x, }
//
charz
=")).
Eval vm_compute in ("<<<M806>>>" ++ check (runes_of_ascii "packet A {
  match k as n {
    [""a"", 22, ""c c"", 4] : B
    2 : C
  },
}")).
Eval vm_compute in ("<<<M1312>>>" ++ check (runes_of_ascii "MetaData _x
// c
{ zchar[ 4294967296 ] lengthOf `// not a comment` , }")).
Eval vm_compute in ("<<<M795>>>" ++ check (runes_of_ascii "packet A {
  match k as n {
    [1, 22, ""c c""] : B
    2 : C
  },
}")).
Eval vm_compute in ("<<<M782>>>" ++ check (runes_of_ascii "packet A {
  match k as n {
    [1, ""bb""] : B
    2 : C
  },
}")).
Eval vm_compute in ("<<<M1730>>>" ++ check (runes_of_ascii "packet A {
    //	t
    /// triple
    repeat char[] _x,
}")).
Eval vm_compute in ("<<<M776>>>" ++ check (runes_of_ascii "packet A { Inner { match k as n { [1] : B, }, }, }")).
Eval vm_compute in ("<<<M60>>>" ++ check (runes_of_ascii "root packet u
    /// triple
    {
    }
")).
Eval vm_compute in ("<<<M1641>>>" ++ check (runes_of_ascii "options {
    a = 1;// a
    b = 2// b
}")).
Eval vm_compute in ("<<<M1506>>>" ++ check (runes_of_ascii "
// c

options
{
    u8x
    = 3	} ")).
Eval vm_compute in ("<<<M737>>>" ++ check (runes_of_ascii "S`buy#HcxP6RJwc!T3?Vo9C!:o*Kywe")).
Eval vm_compute in ("<<<M940>>>" ++ check (runes_of_ascii "packet A {
    u8 x `a

b`,
}")).
Eval vm_compute in ("<<<M1302>>>" ++ check (runes_of_ascii "packet lengthOf { } // c
")).
Eval vm_compute in ("<<<M319>>>" ++ check (runes_of_ascii "MetaData
    i64_ { }
")).
Eval vm_compute in ("<<<M975>>>" ++ check (runes_of_ascii "packet A {
}
// c ")).
Eval vm_compute in ("<<<M1056>>>" ++ check (runes_of_ascii "// c" ++ [6158]%N ++ runes_of_ascii "
packet A {
}")).
Eval vm_compute in ("<<<M126>>>" ++ check (runes_of_ascii "packet	float{ }")).
Eval vm_compute in ("<<<M1039>>>" ++ check (runes_of_ascii "// c 	")).
Eval vm_compute in ("<<<M726>>>" ++ check (runes_of_ascii "")).
