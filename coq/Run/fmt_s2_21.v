From FP Require Import Lexer Parser ShowPT Digest Formatter.
From Coq Require Import String List NArith.
Import ListNotations.
Open Scope string_scope.
Set Printing Width 100000000.
Set Printing Depth 100000000.
Definition show_fres (r : fres) : string :=
  match r with
  | FOk s => "OK:" ++ sh_escaped s ""
  | FErr s => "ERR:" ++ sh_escaped s ""
  | FPanic p => "PANIC:" ++ p
  end.
Definition check (rs : list rune) : string := digest (show_fres (format_res rs)).
Definition full (rs : list rune) : string := show_fres (format_res rs).
Eval vm_compute in ("<<<M487>>>" ++ check (runes_of_ascii "packet// " ++ [27880; 37322]%N ++ runes_of_ascii "
len{ // a // b
match // trailing space 
Pad as x_y_z {""abc"" :	float, [ ""CRC32""
    ,""CRC32""
,0 , """ ++ [233]%N ++ runes_of_ascii "t" ++ [233]%N ++ runes_of_ascii """
    , 255
// packet A { u8 x, }
//x
,
255 , //x
""`tick`"" , """ ++ [233]%N ++ runes_of_ascii "t" ++ [233]%N ++ runes_of_ascii """ ] : A	, 0123456789 : // trailing space 
rootA ,	""a\""b""  :
trueish
    ,
    }
, repeat  int `{ , }` ,@lengthOf( trueish
)	roots @lengthOf( body)	, float32 lengthOf// a // b
,
@rightPad  ( ' ')	repeatCount @lengthOf( calculatedFrom)
`line1
line2` , uint64 string_  @calculatedFrom(""x y"" ) , // @lengthOf(
Header _x`two words` ,
i64 roots  `
`
    , } // a // b
options {repeatCount = // " ++ [27880; 37322]%N ++ runes_of_ascii "
false
// @lengthOf(
//	t
; MetaDataX = int16 }root packet As// packet A { u8 x, }
{
    @rightPad // trailing space 
(
'0' ) uint32 BodyLength `u8 x,` ,stringy
//	t
//
`crlf
line` ,
int64 body `a\`
, uint32 u128
,
@tag(	255
// packet A { u8 x, }
// @lengthOf(
) zchar[ 7 ]	pack `line1
line2` ,
@rightPad( '\x00' )
    repeat MetaDataX { x_y_z
    { repeat _x { zchar //
rootA  `
` ,
    // " ++ [128512]%N ++ runes_of_ascii " emoji
    }
    /// triple
    , repeat string_ {
// a // b
// packet A { u8 x, }
zchar[0123456789
] lengthOf	,
    }
    , u128
    asx `
` , match chars as i64_
{ ""`tick`"" ://	t
int ,
[  ""a\\"" ,1 ]  :x 7 : x_y_z //x
,""" ++ [233]%N ++ runes_of_ascii "t" ++ [233]%N ++ runes_of_ascii """ : string_, [ 42	,""1""
    ,	""x y"" ,""`tick`""
    ] : options1 ,}  ,} ,
msg_type  @calculatedFrom( ""a\""b""  )// " ++ [128512]%N ++ runes_of_ascii " emoji
,char[ 4294967296
] asx `" ++ [28040; 24687; 31867; 22411]%N ++ runes_of_ascii "`//
, match _x
as i8i8 { [	""x y"" // @lengthOf(
]
    : charz , 4294967296
    : x_y_z,} ,  }// " ++ [128512]%N ++ runes_of_ascii " emoji
,@calculatedFrom( ""CRC32"" ) As
_x , @rightPad ('\x00' ) //	t
@tag(0123456789 ) @calculatedFrom( ""it's"")
    zchar[3 ]
f32a`doc` , } // @lengthOf(
MetaData	u {rootA //
len `
`
,
}	packet Packet // trailing space 
{ @lengthOf(	len
)repeat
    u64 body  ,
    repeat
    leftPad i64_ , // c
@lengthOf( zchar ) i16 x
,
    // trailing space 
    BodyLength // packet A { u8 x, }
{ repeat packetx tag, }
    //
    ,
    char[
    3 ]Logon
    @calculatedFrom( ""{,}"" // @lengthOf(
) , @tag(  0
)match tag as int { 0123456789 :	float , }
    , match trueish as// c
Logon
{ //	t
""`tick`"" :As
    ,}	, char[ 00]Header, }
")).
Eval vm_compute in ("<<<M1153>>>" ++ check (runes_of_ascii "
root packet
a1 { repeat zchar int ,
string u ,
string u8x @lengthOf( msg_type ) , rootA `it's`
, @tag(
    255 ) //x
uint16 packetx
    @lengthOf( Z9_ ) `it's` ,
@leftPad( '\x00')  uint8
zchar , @tag( 007 ) @tag(// trailing space 
4294967296 )
trueish	@lengthOf( i64_ )
,  uint8 repeatCount`crlf
line` , string
metadata ,
    match  len as
    metadata {0	: Packet,
    } , } packet As { repeat i8
T ,
    pack , @lengthOf( stringy
) char[0	]
Pad , repeat char[ 0 ]
tag ,
    @lengthOf(roots)uint16
    // a // b
    string_// " ++ [128512]%N ++ runes_of_ascii " emoji
@lengthOf(
    // a // b
    zchar ) `{ , }` ,
@lengthOf(a1 // " ++ [128512]%N ++ runes_of_ascii " emoji
) repeat x_y_z
    { int8
f32a, packetx{match Header	as Packet
{  [
// @lengthOf(
// trailing space 
""it's""] :
uint8x
    1 : u128
    ,
""\" ++ [233]%N ++ runes_of_ascii """
:MetaDataX
, [""a\\"" ,	1, ""x y""] : f32a ,
    65535 : BodyLength
, }
    ,
msg_type @calculatedFrom( ""abc""
    )
    //
    `// not a comment` , match chars as
Header {
7:x_y_z, 10
    : matchKey /// triple
,
""x y""
: // " ++ [128512]%N ++ runes_of_ascii " emoji
x_y_z ,007	: float , }
, // a // b
uint8x u , },	repeat Foo { //	t
repeat float64 chars , //x
match
    len
//
//x
as Pad { [ ""\" ++ [233]%N ++ runes_of_ascii """ , 1 ] :
    u8x  ,
10:i64_	[  ""CRC32""  ] : Logon
    ,[""CRC32"" ,  255
    ]  :
u8x , }
,
} ,
    } ,
@lengthOf( Packet ) @leftPad (	'0'
) @rightPad
    // c
    (
) zchar[3
]uint8x//
,	match int as pack {
    // " ++ [128512]%N ++ runes_of_ascii " emoji
    [ 3 ] :
string_  ""a\""b"" : repeatCount ,
    007 :	zchar} ,repeat uint8 lengthOf`// not a comment` , } options { Logon = ""packet""
// @lengthOf(
// `tick` ""quote"" 'q'
rootA=//	t
true
    packetx = false f32a =  ""a\\"" }
    root packet
u {  repeat char[] body , //
@calculatedFrom( ""a\""b"" )
    @lengthOf( Foo ) A
@calculatedFrom( ""{,}"" ) , } options
{ trueish = 0 charz= ""abc"" }")).
Eval vm_compute in ("<<<M156>>>" ++ check (runes_of_ascii "packet  zchar
    { char[]  string_ ,
    // @lengthOf(
    msg_type , match
    roots // " ++ [27880; 37322]%N ++ runes_of_ascii "
as metadata { 3: Logon
, [""a\\"",""1"" , 3 ,
00
    , ""a\\"" ,7, 65535 , 3 ]
    :x_y_z
    , 0123456789 : o , ""\" ++ [233]%N ++ runes_of_ascii """ : x ""CRC32"" :
Foo,
    }, char Header`u8 x,` ,
    } //	t
options	{
    } packet
    //	t
    As{zchar[
    // @lengthOf(
    10	] roots ,
    char[7 ]
calculatedFrom //
@lengthOf( body ), char stringy	@lengthOf(metadata /// triple
) ,
Pad // trailing space 
u128 , @calculatedFrom( ""it's"") Z9_ ,  match
falsey	as /// triple
MetaDataX
    { 4294967296 : float,//x
3 :
    Pad 1
:T,} /// triple
,
    @tag(
3 ) char[]
A @calculatedFrom( ""it's""
) ,  o tag ,
@lengthOf( x // packet A { u8 x, }
) zchar[ 4294967296
    ]
    rootA // @lengthOf(
`
` , } root packet Logon {	repeat _x {leftPad  `crlf
line` ,
}
    , repeat i8 Packet  , MetaDataX`// not a comment`// " ++ [27880; 37322]%N ++ runes_of_ascii "
, asx`two words` ,
repeat lengthOf tag , @calculatedFrom( // `tick` ""quote"" 'q'
""CRC32"" ) // @lengthOf(
match repeatCount// packet A { u8 x, }
as
BodyLength { """ ++ [128512]%N ++ runes_of_ascii """ : len
[
    255
, ""a\\"", 0123456789 , ""CRC32"", // " ++ [128512]%N ++ runes_of_ascii " emoji
7, 42
    // a // b
    ]
: repeatCount
,
},
i64_ msg_type `crlf
line` , }
packet repeatCount{
    @calculatedFrom(
""a\""b"" )
    match
a1 as
    matchKey// packet A { u8 x, }
{00 : options1,
    4294967296
    : x_y_z , [3 ,
""a	b"" ,0123456789
] : i64_ ,
0 : leftPad ,""`tick`"" :int [""" ++ [28040; 24687]%N ++ runes_of_ascii """ // @lengthOf(
]
// trailing space 
/// triple
: Z9_, }
    , }
")).
Eval vm_compute in ("<<<M1213>>>" ++ check (runes_of_ascii "packet
u8x { int8 T,	string
    msg_type
@lengthOf(
    o )
    , uint64
pack `tab	here` , chars len  , @lengthOf( u8x )  repeat Packet _x `crlf
line` // `tick` ""quote"" 'q'
,@tag(255 ) @tag( 4294967296 ) @rightPad( )	match// c
metadata
as pack { // a // b
""a\""b"" : a1
// `tick` ""quote"" 'q'
// " ++ [27880; 37322]%N ++ runes_of_ascii "
,
    } ,
    a1 {match  Foo as trueish { [""a\""b"", ""a\""b""
] : x
"""" :
    tag ,// c
""1"" :
Foo ,
[
4294967296
,""`tick`"",65535 , 65535 , 10 ]	:
_x // " ++ [27880; 37322]%N ++ runes_of_ascii "
}
,} ,
    match	options1 as T{ [
    3 ] : Z9_//x
,	[ ""abc""]// trailing space 
:lengthOf, } ,// c
leftPad
`a\`// " ++ [27880; 37322]%N ++ runes_of_ascii "
,	} packet Packet {
repeat float64
    u8x `doc` , match metadata as int{ [ //
4294967296
    , // `tick` ""quote"" 'q'
0123456789 , 007,
""" ++ [128512]%N ++ runes_of_ascii """ ,
""1""] : x_y_z
    ,
    7
    :
int
    ,  007 :len""" ++ [28040; 24687]%N ++ runes_of_ascii """: string_ ,
} ,repeat	zchar[ 3 ]  pack `u8 x,`,@leftPad ('0'
)	char[ 007 ] x_y_z , zchar[ 10 ]u @lengthOf(
x
), repeat metadata//
`" ++ [28040; 24687; 31867; 22411]%N ++ runes_of_ascii "`  , options1
    { body
    @calculatedFrom(
// c
//	t
""abc""  )
    `
` , string crc  , char[	007	] A , }	,
@calculatedFrom( ""{,}"" ) @calculatedFrom(
    ""CRC32"") char[] Foo
`line1
line2`, @calculatedFrom( ""`tick`"" ) @rightPad
( '\x00' ) @tag(
// `tick` ""quote"" 'q'
// packet A { u8 x, }
10
) zchar[ 007  ] float, // a // b
repeat
    zchar[ 10
]Z9_
,
    // " ++ [128512]%N ++ runes_of_ascii " emoji
    }

")).
Eval vm_compute in ("<<<M255>>>" ++ check (runes_of_ascii "/// triple
MetaData Logon
    {i16 body
, } /// triple
root packet
Z9_ {	_x
// packet A { u8 x, }
// " ++ [128512]%N ++ runes_of_ascii " emoji
{
Foo {
    matchKey { repeat
    leftPad body ,
    u128 MetaDataX ,
    match uint8x as BodyLength{ ""abc"": int , [42
    ,
    10
    ]: Z9_ , 1 :// a // b
i64_ 0123456789 :
u ,  ""a\""b""
: chars , }
    ,
repeat //	t
int32
//x
//	t
packetx
    , } ,  match zchar as u128
    // @lengthOf(
    { 007 //x
: msg_type	""a\\"" : asx, """":T
, 007 : charz, ""abc"":
    /// triple
    matchKey , ""x y"":  string_ ,
}
, repeat  zchar[
0123456789 ]// trailing space 
msg_type `doc` ,}, match Z9_ as MetaDataX
{	[ 0 , ""1""
    ]:
    // packet A { u8 x, }
    uint8x [ 65535 ,
//
//	t
""""] :
    x_y_z
,""x y"": falsey ,
65535
:
packetx, ""// no comment"": falsey [ 4294967296 , ""a\""b"" ,
    ""\n"" , ""a\""b""	,
    255 ]: charz	, } // @lengthOf(
,
}
,
    chars
    int `u8 x,`
    , @tag(65535)
char[] Header `{ , }` , @tag(
    255
) match	repeatCount as
    A { [4294967296 ,""\" ++ [233]%N ++ runes_of_ascii """ , ""packet"" , // packet A { u8 x, }
42 ,
007 , """ ++ [128512]%N ++ runes_of_ascii """, ""a\""b"" ]// c
:
    lengthOf , ""// no comment""
:
a1 ,""\n"" : MetaDataX//x
3 // a // b
:
// @lengthOf(
// packet A { u8 x, }
body	, } , }
")).
Eval vm_compute in ("<<<M3779>>>" ++ check (runes_of_ascii "packet As {
}

MetaData BodyLength {
    uint32 Z9_ `// not a comment`,
}

packet f32a {
    f64 T @lengthOf(As) `u8 x,`,
    repeat i16 i64_ `" ++ [28040; 24687; 31867; 22411]%N ++ runes_of_ascii "`,
    char[007] falsey @lengthOf(Pad),
    repeat leftPad {
        u64 u8x,
        char[] tag,
    },
    match As as len {
        ""1"" : x_y_z,
        255 : len,
        007 : charz,
        [
            42, 10, 3, ""abc"", """ ++ [28040; 24687]%N ++ runes_of_ascii """,
            ""it's""
        ] : matchKey,
    },// @lengthOf(
}

packet BodyLength {
    @calculatedFrom(""// no comment"")
    @lengthOf(Logon)
    @tag(42)
    //
    // " ++ [128512]%N ++ runes_of_ascii " emoji
    repeat rootA metadata,
    @tag(4294967296)
    repeat matchKey {
        int8 pack,
    },
    @tag(65535)
    @rightPad()
    @lengthOf(Pad)
    uint8x `{ , }`,
    match Foo as As {
        10 : uint8x,
        0 : rootA,
        007 : matchKey,
        [""x y""] : u8x,
    },
    float64 i64_ @calculatedFrom(""// no comment""),
    match trueish as matchKey {
        // trailing space 
        // trailing space 
        """ ++ [233]%N ++ runes_of_ascii "t" ++ [233]%N ++ runes_of_ascii """ : _x,
    },
    chars @lengthOf(Packet) `crlf
        line`,
    char[] x,
}

MetaData falsey {
    Z9_ options1 ``,
}")).
Eval vm_compute in ("<<<M607>>>" ++ check (runes_of_ascii "packet
Header
// " ++ [27880; 37322]%N ++ runes_of_ascii "
// a // b
{
    msg_type@lengthOf( leftPad// @lengthOf(
) , @calculatedFrom( ""x y""
) int16 A @calculatedFrom( """ ++ [233]%N ++ runes_of_ascii "t" ++ [233]%N ++ runes_of_ascii """ ) , @calculatedFrom( ""packet"") metadata@lengthOf( leftPad
    )
,
match len  as pack {	7/// triple
:a1
    , 10: uint8x
    ,""`tick`""// `tick` ""quote"" 'q'
: // c
options1 00
: repeatCount , } ,
@rightPad ( '\x00')//	t
@tag(	10 ) @tag(
7 // @lengthOf(
)repeat char[ 42 ]	As`two words` , @tag( 65535 )
    zchar
// a // b
// " ++ [27880; 37322]%N ++ runes_of_ascii "
@lengthOf(
    // packet A { u8 x, }
    body
)
    `" ++ [28040; 24687; 31867; 22411]%N ++ runes_of_ascii "` , @tag(255 ) // packet A { u8 x, }
repeat// " ++ [128512]%N ++ runes_of_ascii " emoji
Packet
    { repeat
    char
    falsey
`two words`
, repeat T {
char[]chars ,repeat f32a {
    // packet A { u8 x, }
    repeat char[] falsey `tab	here` , } ,
    } , match u8x as pack { [ ""{,}""
,
""\" ++ [233]%N ++ runes_of_ascii """
    ,
// trailing space 
// c
""a	b"" ,
    ""\n""
,1] // " ++ [128512]%N ++ runes_of_ascii " emoji
:
int
    ""x y"" :
    A
,
""CRC32"" : leftPad
, }
    , //x
f32a x //
,} ,  }
packet charz {  repeat lengthOf
lengthOf , }
options{ body =
true;
metadata = 4294967296 ; len= uint32 ;	} // @lengthOf(")).
Eval vm_compute in ("<<<M3609>>>" ++ check (runes_of_ascii "  // " ++ [128512]%N ++ runes_of_ascii " emoji
    options	{
    }	// a // b
    	packet 	 /// triple
    a1 { 
char[ 10] 
    //	t
	// " ++ [128512]%N ++ runes_of_ascii " emoji
  msg_type@calculatedFrom(

    ""packet""  )
`u8 x,`

, crc
{
    float x	,

    repeat 
i32
MetaDataX ,	} ,
	@calculatedFrom(
    ""// no comment""	)  //x
repeat 
float matchKey
	`" ++ [233]%N ++ runes_of_ascii "`

,  // `tick` ""quote"" 'q'
match

lengthOf
	as

asx {[ 
//x
  1,

    1  ]	:

x_y_z,  }
    ,@lengthOf(
tag
    )
    repeat

f32 	 //x
  A
`tab	here`
,
@calculatedFrom(
	""x y""

    )match

u128
    as

rootA
{
	3 :

pack  ,

    [ ""CRC32""
, ""1""	,
""CRC32"" ,
	7
	, ""`tick`"",
""a\\"" ,
	""{,}""	, 
65535 ]
    : repeatCount ,3: f32a ,  007

    :falsey ""// no comment"" 
:Header	00

    : Foo 
,
}
    ,

    repeat	string
falsey

,
	@lengthOf(
    string_

) 	 // a // b
	stringy  , @rightPad
(
) 
@rightPad
	(	// c
  ' '	)	@leftPad 
	// `tick` ""quote"" 'q'
	  // " ++ [128512]%N ++ runes_of_ascii " emoji
  (

    )
repeatCount,  @rightPad 
(
    )// " ++ [27880; 37322]%N ++ runes_of_ascii "

repeat
trueish

    ,
    }
	    // c
 
")).
Eval vm_compute in ("<<<M832>>>" ++ check (runes_of_ascii "MetaData  rootA
    //	t
    {
} // " ++ [27880; 37322]%N ++ runes_of_ascii "
packet	tag {repeat
    lengthOf i8i8
    `a\` // @lengthOf(
,	@leftPad ('0') @rightPad
    ( '\x00' )  match
    chars as trueish
    { ""it's""
    : As
, ""x y"": u //	t
,
//x
/// triple
42
    // trailing space 
    :chars
,7: float ,
255 : Foo ,
    } , @calculatedFrom(""packet""
/// triple
// @lengthOf(
) match u128 as tag {	00 :  packetx
    ,255 : uint8x , [ ""{,}"" , """ ++ [128512]%N ++ runes_of_ascii """ ,// @lengthOf(
65535
, 10, // " ++ [27880; 37322]%N ++ runes_of_ascii "
7,
""packet"", // c
255 ,
    ""a\""b"" ] : o ,  0 : //
x_y_z
,
    } // `tick` ""quote"" 'q'
,
@tag( // " ++ [128512]%N ++ runes_of_ascii " emoji
0123456789 ) u { match pack as _x{
[  007 ,0123456789
] : charz , } ,
    char[
    42 ] u
    // " ++ [128512]%N ++ runes_of_ascii " emoji
    , } ,
    int8 trueish ,@lengthOf( a1) x // trailing space 
@calculatedFrom( ""\" ++ [233]%N ++ runes_of_ascii """ ) , @rightPad ( '0' )
    Packet Z9_,  @leftPad ('\x00' ) falsey
    { char[] msg_type	,
} ,}
root packet len {  options1 {
    uint16 As @lengthOf( //x
zchar ) `it's`
    , },
    }")).
Eval vm_compute in ("<<<M3573>>>" ++ check (runes_of_ascii "options {
    LittleEndian = true;
    StringPrefixLenType = u32;
    FixedStringPadChar = '0';
}

packet Logout {
    repeat InMsgkind49 {
        u8 pad0,
    },
    repeat char[5] seqNo,
    repeat u8 price,
}

packet Party {
    zchar[7] Qty,
}

packet Logon {
    repeat InRef10 {
        string price,
        char[] sym,
        repeat Logout,
    },
    repeat char[3] count,
    repeat Party,
    char[] tag7,
    @rightPad('0')
    char[2] clOrdID,
}

packet Order {
    InTail13 {
        Party,
    },
    repeat char[4] count,
}

root packet Cancel {
    Logout,
    @leftPad('0')
    char[9] msgKind,
    string lastPx,
    string tag7,
    zchar[1] OrderId,
    repeat Party,
    u16 sym,
    u16 Acct @lengthOf(Body),
    match sym as Body {
        [24, 44] : Logout,
        160 : Order,
        91 : Logon,
        43 : Party,
    },
    u16 Tail @calculatedFrom(""CRC32""),
}")).
Eval vm_compute in ("<<<M1107>>>" ++ check (runes_of_ascii "packet falsey
{
    // trailing space 
    @lengthOf(
_x
    // @lengthOf(
    ) @calculatedFrom(
// packet A { u8 x, }
//
""`tick`"" )
    repeat body
    //
    ,
    i64 packetx , repeat u64 chars
    // " ++ [128512]%N ++ runes_of_ascii " emoji
    ,@leftPad
(// packet A { u8 x, }
) @calculatedFrom( ""a\""b"")	BodyLength {
rootA
    pack
//
/// triple
,//x
char[1 ]
uint8x`u8 x,`
, match Packet
as
roots {  ""a	b"" : crc
    ,}	,  } , int32 MetaDataX , @calculatedFrom(
    ""// no comment""
)
    x
Z9_ `
` , }packet
falsey  {}
    options
{ options1 = '\x00'
;Foo
//
// `tick` ""quote"" 'q'
=false
; lengthOf
= """ ++ [28040; 24687]%N ++ runes_of_ascii """A  =
//	t
// " ++ [128512]%N ++ runes_of_ascii " emoji
255
    ; repeatCount  =
    """ ++ [233]%N ++ runes_of_ascii "t" ++ [233]%N ++ runes_of_ascii """
} packet body {
// `tick` ""quote"" 'q'
// " ++ [27880; 37322]%N ++ runes_of_ascii "
@rightPad ( ) repeat u `it's` , char[ 255 //	t
] charz @lengthOf(
    x )
,
    //
    zchar[ 3
]
chars , zchar@calculatedFrom(
""`tick`""// `tick` ""quote"" 'q'
) , }
")).
Eval vm_compute in ("<<<M61>>>" ++ check (runes_of_ascii "  root packet pack {zchar[	255
    ] T`a\`
    , char[] Z9_ @lengthOf(
// c
//x
u8x  )
    `two words` , A
{ repeat  char[]
    x  ``,
// @lengthOf(
/// triple
repeat zchar[ //
007  ] i64_
    ,  } , uint8x @lengthOf(
    i64_
    )	``,
}
packet	calculatedFrom{ @leftPad ( )
u32	calculatedFrom``
,
@tag(0123456789 // " ++ [27880; 37322]%N ++ runes_of_ascii "
)@leftPad ( ) int8 _x
``
,
match rootA as  u { // c
10
: Z9_ , 0123456789: float
//
// c
0: float ,
[ ""it's""/// triple
]
:
packetx , } ,// `tick` ""quote"" 'q'
@lengthOf( string_ ) zchar[ 0123456789
    ] body @lengthOf(
repeatCount	) ,
    @calculatedFrom( ""\n"" ) match // `tick` ""quote"" 'q'
body as u8x{ ""a\""b""
    :T , [ ""\n"" ,// " ++ [27880; 37322]%N ++ runes_of_ascii "
""" ++ [233]%N ++ runes_of_ascii "t" ++ [233]%N ++ runes_of_ascii """, ""CRC32"", 255 ,7
, ""// no comment""
,
    """ ++ [28040; 24687]%N ++ runes_of_ascii """] : x , 255	: packetx } , @tag(65535 ) repeat
    // a // b
    Header
zchar , } MetaData Logon { }
")).
Eval vm_compute in ("<<<M63>>>" ++ check (runes_of_ascii "// trailing space 
options{
    asx = """ ++ [233]%N ++ runes_of_ascii "t" ++ [233]%N ++ runes_of_ascii """ zchar = 7 i8i8=65535 ;	Pad =i8
; } // a // b
MetaData
    string_  { //	t
char[ 0 // packet A { u8 x, }
]zchar ,// `tick` ""quote"" 'q'
char[ 4294967296] msg_type ,
u16
MetaDataX `" ++ [233]%N ++ runes_of_ascii "`,} root packet Foo{	f64
BodyLength
@lengthOf(
repeatCount ) ,
repeat asx {
char[ 00] stringy // `tick` ""quote"" 'q'
@lengthOf( Foo)
    ,  i8 string_,}
    ,
float64 i8i8 `say ""hi""` ,  @tag( 0 ) MetaDataX
    {// " ++ [27880; 37322]%N ++ runes_of_ascii "
repeat uint16 stringy
,	repeat x_y_z , asx, } ,
    @rightPad( '\x00' ) repeat
    char[7
] metadata
// a // b
// " ++ [27880; 37322]%N ++ runes_of_ascii "
, i16 x
, match falsey
    as
asx	{""a\""b""
:
    u ,} // @lengthOf(
,// trailing space 
@calculatedFrom(  """"//
)
match f32a
as
u8x {
//x
//
""a\""b"":matchKey , } //
,
x `" ++ [233]%N ++ runes_of_ascii "`  ,char[
65535 ]
string_ `u8 x,` , }
// c
")).
Eval vm_compute in ("<<<M3512>>>" ++ check (runes_of_ascii "options {
    LittleEndian = false;
    StringPrefixLenType = u16;
    ArrayPrefixLenType = u32;
}
packet Order {
    uint8 x,
    repeat string venue,
}
packet Heartbeat {
    i64 count,
    zchar[1] Qty,
    repeat InX29 {
        InSeqno26 {
            int64 f1,
            char[5] Acct,
            Order,
        },
        repeat InSide285 {
            repeat Order,
            char[10] Px,
            zchar[9] OrderId,
        },
        char[] venue,
        Order,
    },
    @rightPad('\x00') char[4] clOrdID,
}
root packet Party {
    zchar[3] f1,
    u32 clOrdID,
    u32 Px @lengthOf(Body),
    match clOrdID as Body {
        [180, 64] : Heartbeat,
        11 : Order,
    },
    u32 Side2 @calculatedFrom(""CRC32""),
}
")).
Eval vm_compute in ("<<<M663>>>" ++ check (runes_of_ascii "packet lengthOf {	@lengthOf( As ) Foo { repeat string
f32a ,crc
    @calculatedFrom( ""CRC32"")
, } ,
uint8x @calculatedFrom(
""CRC32""
) ,string charz	@calculatedFrom(""\" ++ [233]%N ++ runes_of_ascii """ ), @rightPad ( '\x00'
// trailing space 
//
)	u16 int @lengthOf(
    x )
, tag string_ // @lengthOf(
`" ++ [233]%N ++ runes_of_ascii "`  , MetaDataX @calculatedFrom( ""1"")//	t
, @tag(
    7  ) @calculatedFrom( """"
)// " ++ [27880; 37322]%N ++ runes_of_ascii "
@lengthOf(As)trueish	@lengthOf(// @lengthOf(
Logon  )
`two words`  ,}options {
    Foo /// triple
= char[
    // trailing space 
    10]}packet
    // @lengthOf(
    calculatedFrom { match charz as u128{ [
/// triple
// packet A { u8 x, }
0123456789 ,
""packet"" ,
    /// triple
    ""\n""
    , 00 , 1 ,  ""1""
,"""" ] :
    //x
    Foo} , }")).
Eval vm_compute in ("<<<M4049>>>" ++ check (runes_of_ascii "root packet i64_ // " ++ [27880; 37322]%N ++ runes_of_ascii "
	{match 	 // " ++ [128512]%N ++ runes_of_ascii " emoji
	rootA
as stringy {
10 
:

    int

,  7 :chars
,
7: int 4294967296
	:  // @lengthOf(
    Foo  ,	[// trailing space 
7
    , """ ++ [28040; 24687]%N ++ runes_of_ascii """	]

:  // c
    BodyLength [

0 ,""1""

    ,

00, 7
,
	""it's""]
: As
    , } ,
	repeat
    char[]  a1
`u8 x,` ,
	@leftPad
    // packet A { u8 x, }
		// " ++ [27880; 37322]%N ++ runes_of_ascii "
    (

// trailing space 

' '
	)
    packetx,
	@calculatedFrom(
""\n"" 
)	repeat
matchKey {  char[
	7 
        // `tick` ""quote"" 'q'
	  ]
falsey`crlf
line`
,
	} ,

    // c
    	/// triple
    @lengthOf(
f32a)
    uint8
Z9_
,
    // a // b
	//	t
    falsey
,
repeat
leftPad

, @tag(1 
) 
u8x
	@lengthOf(i64_ )
	,}

")).
Eval vm_compute in ("<<<M349>>>" ++ check (runes_of_ascii "root
packet packetx{ match x
as repeatCount // " ++ [128512]%N ++ runes_of_ascii " emoji
{ 65535 //x
: i8i8 10 :
x_y_z 42// @lengthOf(
: packetx 0123456789
:metadata[ ""\" ++ [233]%N ++ runes_of_ascii """]
    :
    x_y_z
,
""a\\""
:i8i8
, } , stringy { // c
stringy
    i64_ , repeat Header As
    `two words` ,
    } , repeat char[ 007// `tick` ""quote"" 'q'
] u8x
    `line1
line2` , @lengthOf( charz )
    // packet A { u8 x, }
    @leftPad (
'0' ) int16 BodyLength ,  repeat
float32 repeatCount	, match trueish as MetaDataX
    { ""a	b""
    // a // b
    :
    x	,	}
,char[ 0 ] matchKey @lengthOf( float ) , @lengthOf( i64_)@lengthOf( repeatCount
) // " ++ [27880; 37322]%N ++ runes_of_ascii "
@lengthOf(
float )f32 Z9_ , }")).
Eval vm_compute in ("<<<M4017>>>" ++ check (runes_of_ascii "

  options{LittleEndian
=true
;

FixedStringPadFromLeft

    = true ;

FixedStringPadChar =
    '0';
}

packet Trade  { string
	clOrdID

    ,

char[]

    Px,  u32	x
,
	} 
packet Reject
	{ int32 Side2
    ,	repeat	char[  3

    ] 
clOrdID, i32 tag7	,
} packet

Leg
{ 
}
root
    packet Quote 
{  string	Side2 
,
string  lastPx,  InSym58 {
	int16 OrderId
	,
    Reject ,	i8 Qty  , 
i64 
venue 
,  f32	Note
,}	,char[]
count
    ,
zchar[
    9  ]

    price

,u16
Qty
,match  Qty
    as

Body
{69 :
Leg 
, 48
: Trade

,
	51

:
	Reject  ,}

, u16 Acct@calculatedFrom(
""CRC32""
) , } ")).
Eval vm_compute in ("<<<M4087>>>" ++ check (runes_of_ascii "packet MetaDataX {
    T @lengthOf(trueish) ``,
    @rightPad(' ')
    repeat options1 A `" ++ [233]%N ++ runes_of_ascii "`,
    options1 @lengthOf(lengthOf) `u8 x,`,
}

root packet As {
    repeat Logon `
        `,
    @calculatedFrom(""" ++ [28040; 24687]%N ++ runes_of_ascii """)
    // packet A { u8 x, }
    zchar[3] T,
    match Foo as u {
        [""`tick`""] : As,
    },
}

packet charz {
    @lengthOf(u)
    match charz as zchar {
        [""" ++ [128512]%N ++ runes_of_ascii """, ""packet""] : crc,
        [
            7, 10, 7, 3, 4294967296,
            ""a\\""
        ] : string_,
        [3] : As,
        10 : uint8x,
        65535 : matchKey,
    },
}")).
Eval vm_compute in ("<<<M472>>>" ++ check (runes_of_ascii "packet
    chars{@lengthOf(
//
// packet A { u8 x, }
Foo
    ) @tag(
65535 )@calculatedFrom(  ""a	b""
) match stringy as
    float { 10
:trueish ,[ 4294967296 ,""a\\""
/// triple
// trailing space 
,255 , ""a\""b"" ,0,""" ++ [128512]%N ++ runes_of_ascii """, ""`tick`""] :Header }
    ,
}packet u8x { int
    //
    @calculatedFrom(
    """ ++ [233]%N ++ runes_of_ascii "t" ++ [233]%N ++ runes_of_ascii """
) // packet A { u8 x, }
`" ++ [28040; 24687; 31867; 22411]%N ++ runes_of_ascii "` //	t
,@leftPad
( )A int
    , @tag( 10
    )
match roots // `tick` ""quote"" 'q'
as a1{ ""x y"" : u // `tick` ""quote"" 'q'
,
    }
,} MetaData falsey {	i8 metadata
    `{ , }`
, } // trailing space ")).
Eval vm_compute in ("<<<M3963>>>" ++ check (runes_of_ascii "
packet Packet	{ int16

    f32a

, match //	t
    string_
	as	u8x
    {
	""" ++ [128512]%N ++ runes_of_ascii """ : 
msg_type , [
""{,}""
	, 4294967296

]
	    // " ++ [27880; 37322]%N ++ runes_of_ascii "
    :  metadata 0123456789	:matchKey	, 3 
:

    zchar ,
}  // `tick` ""quote"" 'q'
,uint16
	As @calculatedFrom( ""a	b""	)
,
@rightPad( ) repeat zchar[  3]
u128

    , }

root

packet
u8x	{	// `tick` ""quote"" 'q'
  	o
,
@calculatedFrom(
	""{,}"") f32  x_y_z  @lengthOf(

A

    )//
    ,
	@lengthOf( uint8x
)  // `tick` ""quote"" 'q'
	  repeat zchar[
7]
	uint8x 
,
}
")).
Eval vm_compute in ("<<<M11>>>" ++ check (runes_of_ascii "packet u128 {
@rightPad ( )
@tag( 7) stringy
body , }// packet A { u8 x, }
root
    packet // " ++ [27880; 37322]%N ++ runes_of_ascii "
i64_
    { }
    packet falsey	{
float@lengthOf(_x //	t
)`" ++ [233]%N ++ runes_of_ascii "`
, i32 a1 ,
u {//	t
string	crc
,  } ,@leftPad
    // a // b
    (
)repeat
    options1 { calculatedFrom @calculatedFrom(
    ""it's"" ) `{ , }`	, zchar falsey `u8 x,` ,repeat falsey  , }
// packet A { u8 x, }
//x
, }root // " ++ [128512]%N ++ runes_of_ascii " emoji
packet pack
    { @tag( 0123456789 ) // @lengthOf(
repeat
//
// " ++ [27880; 37322]%N ++ runes_of_ascii "
uint32
roots, }")).
Eval vm_compute in ("<<<M1359>>>" ++ check (runes_of_ascii "MetaData calculatedFrom { float // " ++ [27880; 37322]%N ++ runes_of_ascii "
len , u8
uint8x , falsey	string_
// packet A { u8 x, }
// a // b
,
} MetaData
falsey { } packet // @lengthOf(
T
{
//x
//x
zchar[ 007 ] Packet @calculatedFrom(
    ""// no comment"" )`{ , }` , repeat
    u64 metadata //	t
,
u { char[255] T `u8 x,` , body,zchar[
255]	repeatCount
,},// a // b
@calculatedFrom( ""// no comment""
    )@leftPad( '\x00' )
@lengthOf(
    i64_) zchar[ 65535 ]float @lengthOf(trueish ) , }
")).
Eval vm_compute in ("<<<M3748>>>" ++ check (runes_of_ascii "options {
    x = ""it's""
}

MetaData falsey {
    char[0123456789] lengthOf,
    zchar[0123456789] stringy,
    falsey metadata,
    zchar[007] rootA ``,
}

MetaData trueish {
    int8 x,
    f32 len,
    pack BodyLength `a\`,
}

packet Pad {
    @leftPad('0')
    u8x @calculatedFrom(""CRC32""),
}

root packet _x {
    msg_type {
        lengthOf,
        uint32 packetx ``,
    },
    repeat int64 zchar `line1
    line2`,
    body Header,
}")).
Eval vm_compute in ("<<<M456>>>" ++ check (runes_of_ascii "MetaData  rootA {
char[ 42 ] body `tab	here` , string pack, zchar[ 65535 ]A // trailing space 
`it's` ,i64_
    Pad , } MetaData
leftPad { int16 u, } packet trueish
{ @tag(00
    ) char[ 42 ]
    MetaDataX `crlf
line` , @lengthOf(asx  ) chars
charz
    ,@rightPad
//
// c
(
'0')
@lengthOf( a1 ) char[] Packet @calculatedFrom( ""x y"" )  `crlf
line` , len i8i8 , @rightPad (
    '\x00')options1 {	x
@lengthOf( Z9_ ) , } ,}")).
Eval vm_compute in ("<<<M3287>>>" ++ check (runes_of_ascii "// top
packet
    // c0
u128
    // c1
{
    // c2
@lengthOf(
    // c3
body
    // c4
)
    // c5
match
    // c6
x_y_z
    // c7
as
    // c8
u
    // c9
{
    // c10
""x y""
    // c11
:
    // c12
i8i8
    // c13
,
    // c14
}
    // c15
,
    // c16
@tag(
    // c17
255
    // c18
)
    // c19
char[]
    // c20
roots
    // c21
@lengthOf(
    // c22
int
    // c23
)
    // c24
,
    // c25
}
    // c26
")).
Eval vm_compute in ("<<<M4248>>>" ++ check (runes_of_ascii "packet As {
    repeatCount @lengthOf(tag),
    trueish {
        i64 a1,
        Z9_ @calculatedFrom(""CRC32""),
        char[42] rootA,
        repeat u128 _x,
    },
    @lengthOf(string_)
    i8 falsey,
    @leftPad(' ')
    @rightPad(' ')
    match calculatedFrom as leftPad {
        65535 : leftPad,
        [00, 1, 1, 3, ""\n""] : repeatCount,
        [42, """ ++ [128512]%N ++ runes_of_ascii """] : i8i8,
    },
}// " ++ [128512]%N ++ runes_of_ascii " emoji")).
Eval vm_compute in ("<<<M964>>>" ++ check (runes_of_ascii "
root packet
asx { @calculatedFrom( ""CRC32""
// " ++ [27880; 37322]%N ++ runes_of_ascii "
// packet A { u8 x, }
)match  chars as
trueish {
""""	: T	, 42
    : f32a , ""{,}"" :	calculatedFrom 255  :// c
A ,	} ,
    }root packet  matchKey { u16 len@lengthOf( metadata )	`// not a comment` , }  options {
Z9_ =
    ""it's"" packetx= """ ++ [28040; 24687]%N ++ runes_of_ascii """	; falsey
// a // b
// c
= //
char[ 0 ] ;MetaDataX = ""a\\""
    A = true ;
    }
")).
Eval vm_compute in ("<<<M587>>>" ++ check (runes_of_ascii "options{}
    packet chars {@tag(255 )
    // `tick` ""quote"" 'q'
    i8 crc @calculatedFrom( ""\n"" )
`crlf
line`, @rightPad(' ' ) repeatCount @lengthOf( zchar
    // c
    ) , leftPad {
    char[]
    a1
, match trueish
as
Z9_ { ""a\\""
    : Foo , ""a\""b"": chars , } , zchar[
42
] asx	`a\`
//
// trailing space 
, } ,
@lengthOf( T ) calculatedFrom int,} 	 ")).
Eval vm_compute in ("<<<M1191>>>" ++ check (runes_of_ascii "
options
    { body // " ++ [27880; 37322]%N ++ runes_of_ascii "
=
0123456789} packet	tag{ o @lengthOf( packetx ) `" ++ [28040; 24687; 31867; 22411]%N ++ runes_of_ascii "` , repeat options1
{ float64
o `doc`, } , } root packet float {
    // trailing space 
    @calculatedFrom(
    ""a	b"") //	t
float32 BodyLength // " ++ [128512]%N ++ runes_of_ascii " emoji
`crlf
line`
    ,  repeat // " ++ [128512]%N ++ runes_of_ascii " emoji
f32a
Header
`say ""hi""` ,int8 falsey// `tick` ""quote"" 'q'
`{ , }`, }
")).
Eval vm_compute in ("<<<M142>>>" ++ check (runes_of_ascii "options { i8i8  =
    int64 ; charz = ""// no comment""; repeatCount ="""" ; f32a = 0 stringy ='\x00' }
    // packet A { u8 x, }
    options
    {
Logon = 255
}
    packet Header // c
{} MetaData
lengthOf{
    // `tick` ""quote"" 'q'
    }
options {stringy  =false ; options1
= true ; asx=3
/// triple
/// triple
roots =
'\x00' }
")).
Eval vm_compute in ("<<<M527>>>" ++ check (runes_of_ascii "packet
    trueish { pack
    @lengthOf( uint8x // " ++ [27880; 37322]%N ++ runes_of_ascii "
) ,A @calculatedFrom(""CRC32"" ) //
`say ""hi""`//
,
    repeat A{ /// triple
body `" ++ [28040; 24687; 31867; 22411]%N ++ runes_of_ascii "` , a1
// " ++ [27880; 37322]%N ++ runes_of_ascii "
// `tick` ""quote"" 'q'
body , o @calculatedFrom( ""a	b"" ), repeat MetaDataX ,
}//
,
    @rightPad( ) match o
as metadata
{ 65535
    : _x
, ""\" ++ [233]%N ++ runes_of_ascii """  :
pack
}
    , }
")).
Eval vm_compute in ("<<<M3548>>>" ++ check (runes_of_ascii "options {
    LittleEndian = true;
}
packet Logon {
    u8 x,
}
packet Logout {
    u16 reason,
}
root packet Frame {
    i64 Kind,
    i64 Kind2,
    match Kind as Body {
        1 : Logon,
        [2, 3, 4] : Logout,
        100 : Logon,
    },
    match Kind2 as Trailer {
        0 : Logout,
    },
}
")).
Eval vm_compute in ("<<<M1585>>>" ++ check (runes_of_ascii "root packet Foo // " ++ [128512]%N ++ runes_of_ascii " emoji
{ } options {
    // a // b
    tag // `tick` ""quote"" 'q'
= //	t
""""
    ; u8x = zchar[0  ] }
MetaData
    int {zchar[ 10]
lengthOf	`` , i64 u8x`// not a comment` ,MetaDataX pack// `tick` ""quote"" 'q'
`crlf
line`
, Logon charz charz `crlf
line`
    ,
    // a // b
    }
")).
Eval vm_compute in ("<<<M1621>>>" ++ check (runes_of_ascii "root packet Foo // " ++ [128512]%N ++ runes_of_ascii " emoji
{ } options {
    // a // b
    tag // `tick` ""quote"" 'q'
= //	t
""""
    ; u8x = zchar[0  ] }
MetaData
    int {zchar[ 10]
lengthOf	`` , i64 u8x`// not a comment` ,MetaDataX pack// `tick` ""quote"" 'q'
`crlf
line`
, Logon charz `crlf
line`
    ,
    //'1' a // b
    }
")).
Eval vm_compute in ("<<<M1511>>>" ++ check (runes_of_ascii "root packet Foo // " ++ [128512]%N ++ runes_of_ascii " emoji
{ } options {
    // a // b
    tag // `tick` ""quote"" 'q'
= //	t
""""
    ; u8x = zchar[0  ] }
MetaData
    int {10 zchar[ ]
lengthOf	`` , i64 u8x`// not a comment` ,MetaDataX pack// `tick` ""quote"" 'q'
`crlf
line`
, Logon charz `crlf
line`
    ,
    // a // b
    }
")).
Eval vm_compute in ("<<<M1516>>>" ++ check (runes_of_ascii "root packet Foo // " ++ [128512]%N ++ runes_of_ascii " emoji
{ } options {
    // a // b
    tag // `tick` ""quote"" 'q'
= //	t
""""
    ; u8x = zchar[0  ] }
MetaData
    int {zchar[ ]10
lengthOf	`` , i64 u8x`// not a comment` ,MetaDataX pack// `tick` ""quote"" 'q'
`crlf
line`
, Logon charz `crlf
line`
    ,
    // a // b
    }
")).
Eval vm_compute in ("<<<M1519>>>" ++ check (runes_of_ascii "root packet Foo // " ++ [128512]%N ++ runes_of_ascii " emoji
{ } options {
    // a // b
    tag // `tick` ""quote"" 'q'
= //	t
""""
    ; u8x = zchar[0  ] }
MetaData
    int {zchar[ 10
lengthOf	`` , i64 u8x`// not a comment` ,MetaDataX pack// `tick` ""quote"" 'q'
`crlf
line`
, Logon charz `crlf
line`
    ,
    // a // b
    }
")).
Eval vm_compute in ("<<<M1562>>>" ++ check (runes_of_ascii "root packet Foo // " ++ [128512]%N ++ runes_of_ascii " emoji
{ } options {
    // a // b
    tag // `tick` ""quote"" 'q'
= //	t
""""
    ; u8x = zchar[0  ] }
MetaData
    int {zchar[ 10]
lengthOf	`` , i64 u8x`// not a comment` ,@tag( pack// `tick` ""quote"" 'q'
`crlf
line`
, Logon charz `crlf
line`
    ,
    // a // b
    }
")).
Eval vm_compute in ("<<<M1075>>>" ++ check (runes_of_ascii "
root packet u  {@rightPad('\x00')
Logon @calculatedFrom( ""{,}"" ) `" ++ [233]%N ++ runes_of_ascii "` , @tag(3	) string repeatCount ,match packetx // " ++ [128512]%N ++ runes_of_ascii " emoji
as u8x  {
65535 :i8i8
    //x
    , 007 // trailing space 
:roots // " ++ [27880; 37322]%N ++ runes_of_ascii "
,""a	b"" : BodyLength //	t
,
} ,
@tag( 00 ) uint32
repeatCount @lengthOf( u128) , }")).
Eval vm_compute in ("<<<M264>>>" ++ check (runes_of_ascii "
packet tag { char[]i64_
    `crlf
line`, @tag(4294967296	)
repeat // c
f32a { char[]
u8x @lengthOf( Foo)
    `{ , }` ,
match
Foo // " ++ [128512]%N ++ runes_of_ascii " emoji
as
packetx {255 : uint8x [	""\" ++ [233]%N ++ runes_of_ascii """ ]
: matchKey ,} ,	},
As @calculatedFrom( ""a	b"" )
`doc`, char[] BodyLength `two words`	, }
")).
Eval vm_compute in ("<<<M765>>>" ++ check (runes_of_ascii "
packet
    msg_type // trailing space 
{ match leftPad as float { 3 // packet A { u8 x, }
: repeatCount// trailing space 
,
[ 0123456789 ,
    // a // b
    3
    ,10	,65535 , // c
1 ] : Header	, ""{,}"" : packetx	,
    0 // @lengthOf(
: _x//	t
,  } , }
")).
Eval vm_compute in ("<<<M537>>>" ++ check (runes_of_ascii "MetaData charz {}// " ++ [27880; 37322]%N ++ runes_of_ascii "
root packet matchKey{o  @calculatedFrom( ""a\""b"") ,zchar[ 10
]i8i8 @calculatedFrom( ""1"" )
`tab	here` ,
match crc as rootA { 255 : Z9_ , 42 : // c
lengthOf
,
[ 0 ,007
    ] : Logon  ""\n"" : T 0123456789 :  float  ,
    } , }
")).
Eval vm_compute in ("<<<M3478>>>" ++ check (runes_of_ascii "packet order_item // c1a
  // c1b
{ u8 // c3
a
    // c4
, } // c6a
  // c6b
root // c7a
  // c7b
packet // c8a
  // c8b
new_order {
    // c10
order_item // c11
, // c12a
  // c12b
u8
    // c13
x
    // c14
, // c15
} // c16a
  // c16b
")).
Eval vm_compute in ("<<<M458>>>" ++ check (runes_of_ascii "// packet A { u8 x, }
options { matchKey
    =  char[] x = char[] // " ++ [27880; 37322]%N ++ runes_of_ascii "
} packet i64_{ repeat pack
    `say ""hi""`, i16 calculatedFrom `u8 x,`,} MetaData calculatedFrom
{ // trailing space 
Logon Packet , } // `tick` ""quote"" 'q'")).
Eval vm_compute in ("<<<M1380>>>" ++ check (runes_of_ascii "
packet // `tick` ""quote"" 'q'
Logon {
@lengthOf( a1
)match
    x_y_z as asx {	[
/// triple
//x
""packet"" //
, """ ++ [128512]%N ++ runes_of_ascii """ // packet A { u8 x, }
,// `tick` ""quote"" 'q'
""packet"" , 4294967296 ,""" ++ [28040; 24687]%N ++ runes_of_ascii """ ] : A ,
3 : Packet ,
//
//	t
},}")).
Eval vm_compute in ("<<<M3886>>>" ++ check (runes_of_ascii "root packet len {
    @rightPad('0')
    T {
        /// triple
        // c
        match charz as crc {
            3 : BodyLength,
            42 : stringy,
            ""a\\"" : options1,
        },
    },
}// a // b")).
Eval vm_compute in ("<<<M2302>>>" ++ check (runes_of_ascii "MetaData Packet { }packet	asx  { @lengthOf( asx) falsey`crlf
line`
,
    }
    packet x	{uint32// @lengthOf(
,	rootA u32 options1 `say ""hi""` , @tag( 7
    )// packet A { u8 x, }
msg_type @lengthOf(
stringy	)	, }

")).
Eval vm_compute in ("<<<M2307>>>" ++ check (runes_of_ascii "MetaData Packet { }packet	asx  { @lengthOf( asx) falsey`crlf
line`
,
    }
    packet x	{uint32// @lengthOf(
rootA	u32, options1 `say ""hi""` , @tag( 7
    )// packet A { u8 x, }
msg_type @lengthOf(
stringy	)	, }

")).
Eval vm_compute in ("<<<M2360>>>" ++ check (runes_of_ascii "MetaData Packet { }packet	asx  { @lengthOf( asx) falsey`crlf
line`
,
    }
    packet x	{uint32// @lengthOf(
rootA	,u32 options1 `say ""hi""` , @tag( 7
    )// packet A { u8 x, }
msg_type @lengthOf(
stringy		, }

")).
Eval vm_compute in ("<<<M2230>>>" ++ check (runes_of_ascii "MetaData Packet { }	asx  { @lengthOf( asx) falsey`crlf
line`
,
    }
    packet x	{uint32// @lengthOf(
rootA	,u32 options1 `say ""hi""` , @tag( 7
    )// packet A { u8 x, }
msg_type @lengthOf(
stringy	)	, }

")).
Eval vm_compute in ("<<<M2245>>>" ++ check (runes_of_ascii "MetaData Packet { }packet	asx  {  asx) falsey`crlf
line`
,
    }
    packet x	{uint32// @lengthOf(
rootA	,u32 options1 `say ""hi""` , @tag( 7
    )// packet A { u8 x, }
msg_type @lengthOf(
stringy	)	, }

")).
Eval vm_compute in ("<<<M1367>>>" ++ check (runes_of_ascii "packet leftPad {
    //
    i8 string_@calculatedFrom( ""\" ++ [233]%N ++ runes_of_ascii """ ) `` ,
repeat MetaDataX {match u128
    as
    asx  {""a\\"": T
, ""CRC32"" :
    stringy ,
0 : options1 ,
    } , }/// triple
,// " ++ [128512]%N ++ runes_of_ascii " emoji
}")).
Eval vm_compute in ("<<<M674>>>" ++ check (runes_of_ascii "
MetaData
// packet A { u8 x, }
//x
Pad
    {int32 MetaDataX, trueish
//x
// " ++ [128512]%N ++ runes_of_ascii " emoji
o `crlf
line` , string
Foo , uint32
    int
    `two words` ,
string
Foo,  string MetaDataX `` //
, }
")).
Eval vm_compute in ("<<<M4197>>>" ++ check (runes_of_ascii "packet A {
    match k as n {
        ""x\
        y"" : B,
        [1, ""x\
        y""] : C,
        [
            1, 2, 3, 4, 5,
            ""x\
            y""
        ] : D,
    },
}")).
Eval vm_compute in ("<<<M1007>>>" ++ check (runes_of_ascii "MetaData options1 //	t
{ u32 uint8x
, int16 options1 ,
    } options { trueish = 65535	; Header = i64 ;	x_y_z = false Logon =
    char[]
// `tick` ""quote"" 'q'
// a // b
; }")).
Eval vm_compute in ("<<<M206>>>" ++ check (runes_of_ascii "options
    {As
=false	;
}root packet calculatedFrom // a // b
{ zchar[
255 ] Z9_
,  }  MetaData metadata{ int8 chars
, char[]
charz `two words` , char[ 0]
rootA, }")).
Eval vm_compute in ("<<<M4077>>>" ++ check (runes_of_ascii "packet BodyLength {
    repeat u128 charz,
    i64 i64_ @lengthOf(asx),
    repeat i64_ {
        repeat int `u8 x,`,//	t
    },
    repeat float32 pack `" ++ [233]%N ++ runes_of_ascii "`,
}")).
Eval vm_compute in ("<<<M1178>>>" ++ check (runes_of_ascii "//x
options {Header= ' 'string_ = '\x00' ;
    pack=""a\""b"" ;
    trueish = 255 }
options
// " ++ [27880; 37322]%N ++ runes_of_ascii "
// @lengthOf(
{ asx// `tick` ""quote"" 'q'
= ""`tick`"" ; }
")).
Eval vm_compute in ("<<<M3946>>>" ++ check (runes_of_ascii "packet A {
    match k as n {
        [
            22, 4, 66, 8, 10,
            ""a"", ""c c"", ""e"", ""g"", ""i""
        ] : B,
        2 : C,
    },
}")).
Eval vm_compute in ("<<<M877>>>" ++ check (runes_of_ascii "MetaData float {i64_ Z9_`tab	here` ,
    pack// " ++ [27880; 37322]%N ++ runes_of_ascii "
falsey, uint8x float ,// c
zchar[ 4294967296
] x_y_z , int16 chars`" ++ [233]%N ++ runes_of_ascii "`,
x_y_z stringy , }")).
Eval vm_compute in ("<<<M3641>>>" ++ check (runes_of_ascii "packet
	A
	{	match k
as 
n {[ 
""a""
    , ""bb""
,
""c c""
    ,  ""d""

,""e""  ,
""f""
    ,
    ""g"", ""h"",""i"",

""j""	]
    :B 2 :
C
    }
	, }

")).
Eval vm_compute in ("<<<M1675>>>" ++ check (runes_of_ascii "root packet /// triple
rootA {	i32
MetaDataX@calculatedFrom( ""CRC32"" ) `line1
line2` repeat } MetaData BodyLength {
u8
rootA, } // c")).
Eval vm_compute in ("<<<M1638>>>" ++ check (runes_of_ascii "root packet /// triple
rootA { {	i32
MetaDataX@calculatedFrom( ""CRC32"" ) `line1
line2` , } MetaData BodyLength {
u8
rootA, } // c")).
Eval vm_compute in ("<<<M1654>>>" ++ check (runes_of_ascii "root packet /// triple
rootA {	i32
MetaDataX""CRC32"" @calculatedFrom( ) `line1
line2` , } MetaData BodyLength {
u8
rootA, } // c")).
Eval vm_compute in ("<<<M152>>>" ++ check (runes_of_ascii "options
    {
matchKey
= ' '
tag  = '\x00' ;
    metadata
// `tick` ""quote"" 'q'
// @lengthOf(
=  string ; charz
= 65535
; }
")).
Eval vm_compute in ("<<<M865>>>" ++ check (runes_of_ascii "
packet//x
trueish
{ u128 zchar`{ , }` ,repeat BodyLength crc`{ , }`, match len as As { ""CRC32"" : // " ++ [128512]%N ++ runes_of_ascii " emoji
rootA ,
} ,}")).
Eval vm_compute in ("<<<M3798>>>" ++ check (runes_of_ascii "packet A {
    u16 len @lengthOf(body) `x
        `,
    u32 crc @calculatedFrom(""CRC32"") `x
        `,
    string body,
}")).
Eval vm_compute in ("<<<M1498>>>" ++ check (runes_of_ascii "root packet Foo // " ++ [128512]%N ++ runes_of_ascii " emoji
{ } options {
    // a // b
    tag // `tick` ""quote"" 'q'
= //	t
""""
    ; u8x = zchar[0  ] }")).
Eval vm_compute in ("<<<M1888>>>" ++ check (runes_of_ascii "packet
    Pad // a // b
{ i8i8 @calcul" ++ [8232]%N ++ runes_of_ascii "atedFrom( ""a	b"") `u8 x,` ,
} options{ float// " ++ [128512]%N ++ runes_of_ascii " emoji
= f64 i64_
=//	t
00 }
")).
Eval vm_compute in ("<<<M1867>>>" ++ check (runes_of_ascii "packet
    Pad // a // b
{ i8i8 @calculatedFrom( ""a	b"") `u8 x,` ,
} options{ float// " ++ [128512]%N ++ runes_of_ascii " emoji
= f64 i64_
=//	t
} 00
")).
Eval vm_compute in ("<<<M3660>>>" ++ check (runes_of_ascii "options {
    pack = 0
}

MetaData int {
    char[00] T `crlf
        line`,
    i8 string_,
    int16 matchKey,
}")).
Eval vm_compute in ("<<<M446>>>" ++ check (runes_of_ascii "MetaData
body { int64 pack ,	i16 len,	o x ,	uint8
u128 , string calculatedFrom `two words`
, u64 len
    , } //")).
Eval vm_compute in ("<<<M4435>>>" ++ check (runes_of_ascii "options {
    charz = """ ++ [28040; 24687]%N ++ runes_of_ascii """
    rootA = '0'//	t
    trueish = ""// no comment"";
}

options {
    body = char[]
}")).
Eval vm_compute in ("<<<M4255>>>" ++ check (runes_of_ascii "
root packet
	trueish
{ @tag(
255)
    // `tick` ""quote"" 'q'
  repeat 
f32a	leftPad	/// triple
`doc`, }

")).
Eval vm_compute in ("<<<M1100>>>" ++ check (runes_of_ascii "MetaData //
trueish {_x asx ,
trueish roots,	falsey
    asx `" ++ [233]%N ++ runes_of_ascii "`
    //
    , rootA	options1
    ,} 	 ")).
Eval vm_compute in ("<<<M3363>>>" ++ check (runes_of_ascii "packet calculatedFrom { @tag( 4294967296 ) u msg_type , char[ 3 ] crc // c
@lengthOf( len ) `u8 x,` , }")).
Eval vm_compute in ("<<<M3914>>>" ++ check (runes_of_ascii "options {
    Foo = ""`tick`""
    pack = """ ++ [233]%N ++ runes_of_ascii "t" ++ [233]%N ++ runes_of_ascii """;
    leftPad = false;
    int = char[];
    a1 = i16;
}")).
Eval vm_compute in ("<<<M2304>>>" ++ check (runes_of_ascii "MetaData Packet { }packet	asx  { @lengthOf( asx) falsey`crlf
line`
,
    }
    packet x	{uint32")).
Eval vm_compute in ("<<<M2624>>>" ++ check (runes_of_ascii "packet A { @rightPad(' ') @lengthOf(b) @calculatedFrom(""c"") @tag(007) match k as n { 1 : B }, }")).
Eval vm_compute in ("<<<M3245>>>" ++ check (runes_of_ascii "packet Logon { @tag( 42 ) @rightPad ( ' ' ) @leftPad ( ) repeat trueish
// c
{ string T , } , }")).
Eval vm_compute in ("<<<M2032>>>" ++ check (runes_of_ascii "root
packet crc
    { f32a @calculatedFrom( """ ++ [233]%N ++ runes_of_ascii "t" ++ [233]%N ++ runes_of_ascii """ )
    `say ""hi""`, lengthOf `` ,  }@leftpad")).
Eval vm_compute in ("<<<M966>>>" ++ check (runes_of_ascii "
MetaData
    Logon{
u16 i64_,float calculatedFrom , u16 Header, zchar[  255]  x_y_z, }
")).
Eval vm_compute in ("<<<M653>>>" ++ check (runes_of_ascii "packet lengthOf {} root packet
    i64_ { char[] BodyLength @lengthOf(Header )`doc` , }")).
Eval vm_compute in ("<<<M2041>>>" ++ check (runes_of_ascii "root
packet crc
    { f32a @calculatedFrom( """ ++ [233]%N ++ runes_of_ascii "t" ++ [233]%N ++ runes_of_ascii """ )
    `say ""hi""`, lengthOf `` ,  @}")).
Eval vm_compute in ("<<<M3901>>>" ++ check (runes_of_ascii "options {
    LittleEndian = true;
}

root packet P {
    repeat char cs,
    u8 x,
}")).
Eval vm_compute in ("<<<M2900>>>" ++ check (runes_of_ascii "packet A {
  match k as n {
    [""a"", ""bb"", ""c c"", ""d"", ""e""] : B,
    2 : C
  },
}")).
Eval vm_compute in ("<<<M3304>>>" ++ check (runes_of_ascii "packet o { @tag( 42 ) // c
repeat x { char[ 0123456789 ] i64_ , } , } options { }")).
Eval vm_compute in ("<<<M4487>>>" ++ check (runes_of_ascii "options {
    charz = true;
    roots = int64
    trueish = ""\n""
    charz = u8
}")).
Eval vm_compute in ("<<<M4380>>>" ++ check (runes_of_ascii "root packet P {
    // c3
    repeat string ss,// c7
    repeat u16 ns,
}// c12")).
Eval vm_compute in ("<<<M3962>>>" ++ check (runes_of_ascii "packet
	A {

    B 
b	`a

b`, B

    `a

b`
	,
repeat B
	bs `a

b`	, } ")).
Eval vm_compute in ("<<<M916>>>" ++ check (runes_of_ascii "MetaData crc	{ roots _x, u128 rootA `
`, zchar[ 0 ] Foo `line1
line2` , }")).
Eval vm_compute in ("<<<M3414>>>" ++ check (runes_of_ascii "MetaData _x { zchar[ 4294967296 ] lengthOf `// not a comment` , }
// c
")).
Eval vm_compute in ("<<<M3408>>>" ++ check (runes_of_ascii "MetaData _x { zchar[ 4294967296 ] lengthOf
// c
`// not a comment` , }")).
Eval vm_compute in ("<<<M2182>>>" ++ check (runes_of_ascii "root
    // `tick` ""quote"" 'q'
    packet As { trueish Packet , , }
")).
Eval vm_compute in ("<<<M3455>>>" ++ check (runes_of_ascii "root packet P {
    u16 a,
    u32 Sum @calculatedFrom(""CRC32""),
}
")).
Eval vm_compute in ("<<<M763>>>" ++ check (runes_of_ascii "root
    packet pack { }packet //
u8x {
    }
MetaData o
{ } // c")).
Eval vm_compute in ("<<<M2189>>>" ++ check (runes_of_ascii "root
    // `tick` ""quote"" 'q'
    packet As { trueish Packet ,")).
Eval vm_compute in ("<<<M2910>>>" ++ check (runes_of_ascii "packet A { Inner { match k as n { [1,22,007,4,5] : B, }, }, }")).
Eval vm_compute in ("<<<M2860>>>" ++ check (runes_of_ascii "packet A {
  match k as n {
    [""a""] : B,
    2 : C
  },
}")).
Eval vm_compute in ("<<<M1945>>>" ++ check (runes_of_ascii "
packet	As { @calculatedFrom(//x
" ++ [8232]%N ++ runes_of_ascii " ""{,}""	)lengthOf , } 	 ")).
Eval vm_compute in ("<<<M1814>>>" ++ check (runes_of_ascii "packet
    Pad // a // b
{ i8i8 @calculatedFrom( ""a	b""")).
Eval vm_compute in ("<<<M1928>>>" ++ check (runes_of_ascii "
packet	As { @calculatedFrom(//x
""{,}""	)char[] , } 	 ")).
Eval vm_compute in ("<<<M985>>>" ++ check (runes_of_ascii "//
options {
    options1	= ""a\""b""}
// @lengthOf(
")).
Eval vm_compute in ("<<<M2408>>>" ++ check (runes_of_ascii "MetaData A
{
i64
chars	, " ++ [233]%N ++ runes_of_ascii "} // `tick` ""quote"" 'q'")).
Eval vm_compute in ("<<<M1177>>>" ++ check (runes_of_ascii "options {leftPad =
""it's""  u8x =1  tag=
true }
")).
Eval vm_compute in ("<<<M1779>>>" ++ check (runes_of_ascii "options ""{ }options {  } // `tick` ""quote"" 'q'")).
Eval vm_compute in ("<<<M1742>>>" ++ check (runes_of_ascii "options  }options {  } // `tick` ""quote"" 'q'")).
Eval vm_compute in ("<<<M3637>>>" ++ check (runes_of_ascii "
packet	A{  u8

    x
`x
`
,

    }
")).
Eval vm_compute in ("<<<M2848>>>" ++ check (runes_of_ascii "char[] : root uint64 packet i64 float32 3")).
Eval vm_compute in ("<<<M2687>>>" ++ check ([65533; 65533]%N ++ runes_of_ascii "Z;" ++ [65533; 65533; 7; 65533; 65533]%N ++ runes_of_ascii "e" ++ [65533; 65533; 4]%N ++ runes_of_ascii ";c$" ++ [65533; 65533; 65533; 65533]%N ++ runes_of_ascii "[B" ++ [23; 8; 7]%N ++ runes_of_ascii "}" ++ [2]%N ++ runes_of_ascii "4" ++ [65533; 6; 65533; 65533]%N ++ runes_of_ascii "tm" ++ [3; 65533]%N ++ runes_of_ascii "4" ++ [65533; 22]%N ++ runes_of_ascii "Q")).
Eval vm_compute in ("<<<M1910>>>" ++ check (runes_of_ascii "
packet	As { //x
""{,}""	)lengthOf , } 	 ")).
Eval vm_compute in ("<<<M2126>>>" ++ check (runes_of_ascii "MetaData x
{// " ++ [128512]%N ++ runes_of_ascii " emoji
i16 stringy } ,")).
Eval vm_compute in ("<<<M2760>>>" ++ check (runes_of_ascii "3#otkgH:+^FT^?x|t5RQ/GU$o[_gS~s3=JWej")).
Eval vm_compute in ("<<<M2114>>>" ++ check (runes_of_ascii "MetaData x
{// " ++ [128512]%N ++ runes_of_ascii " emoji
 stringy , }")).
Eval vm_compute in ("<<<M4035>>>" ++ check (runes_of_ascii "options {
    MetaDataX = char[]
}")).
Eval vm_compute in ("<<<M3559>>>" ++ check (runes_of_ascii "options {
}

options {
}// `tick")).
Eval vm_compute in ("<<<M2135>>>" ++ check (runes_of_ascii "MetaData x
{// " ++ [128512]%N ++ runes_of_ascii " emoji
i16 str")).
Eval vm_compute in ("<<<M1765>>>" ++ check (runes_of_ascii "options { }options {  } // `t")).
Eval vm_compute in ("<<<M4398>>>" ++ check (runes_of_ascii "options {
    Z9_ = '\x00'
}")).
Eval vm_compute in ("<<<M904>>>" ++ check (runes_of_ascii "options { tag = 007
    }
")).
Eval vm_compute in ("<<<M2093>>>" ++ check (runes_of_ascii "MetaData $A { u64 pack, }")).
Eval vm_compute in ("<<<M2058>>>" ++ check (runes_of_ascii "MetaData A u64 { pack, }")).
Eval vm_compute in ("<<<M225>>>" ++ check (runes_of_ascii "packet
    matchKey{ }
")).
Eval vm_compute in ("<<<M1980>>>" ++ check (runes_of_ascii "root
packet crc
    {")).
Eval vm_compute in ("<<<M2780>>>" ++ check (runes_of_ascii "u8 ( MetaData : = f64")).
Eval vm_compute in ("<<<M513>>>" ++ check (runes_of_ascii "packet
uint8x { }
")).
Eval vm_compute in ("<<<M997>>>" ++ check (runes_of_ascii "options {a1	=1 ;}
")).
Eval vm_compute in ("<<<M3106>>>" ++ check (runes_of_ascii "packet A {
}
// c" ++ [8239]%N)).
Eval vm_compute in ("<<<M2655>>>" ++ check (runes_of_ascii "options { a = ; }")).
Eval vm_compute in ("<<<M2070>>>" ++ check (runes_of_ascii "MetaData A { u64")).
Eval vm_compute in ("<<<M3555>>>" ++ check (runes_of_ascii "MetaData a1 {
}")).
Eval vm_compute in ("<<<M2065>>>" ++ check (runes_of_ascii "MetaData A {")).
Eval vm_compute in ("<<<M2691>>>" ++ check ([65533; 65533]%N ++ runes_of_ascii "m" ++ [65533; 65533]%N ++ runes_of_ascii "``" ++ [65533; 65533; 65533]%N)).
Eval vm_compute in ("<<<M2427>>>" ++ check (runes_of_ascii "char[]x")).
Eval vm_compute in ("<<<M2723>>>" ++ check (runes_of_ascii "y)5" ++ [65533; 65533; 65533]%N)).
Eval vm_compute in ("<<<M2786>>>" ++ check ([65533; 17; 65533; 31; 65533]%N)).
Eval vm_compute in ("<<<M2500>>>" ++ check (runes_of_ascii "//x")).
Eval vm_compute in ("<<<M2522>>>" ++ check (runes_of_ascii "`""`")).
Eval vm_compute in ("<<<M2528>>>" ++ check (runes_of_ascii "-1")).
Eval vm_compute in ("<<<M2763>>>" ++ check ([65533]%N)).
