From FP Require Import Lexer Parser ShowPT Digest Formatter.
From Coq Require Import String List NArith.
Import ListNotations.
Open Scope string_scope.
Set Printing Width 100000000.
Set Printing Depth 100000000.
Definition show_fres (r : fres) : string :=
  match r with
  | FOk s => "OK:" ++ sh_escaped s ""
  | FErr s => "ERR:" ++ sh_escaped s ""
  | FPanic p => "PANIC:" ++ p
  end.
Definition check (rs : list rune) : string := digest (show_fres (format_res rs)).
Definition full (rs : list rune) : string := show_fres (format_res rs).
Eval vm_compute in ("<<<M902>>>" ++ check (runes_of_ascii "root packet charz {repeat o
// a // b
// trailing space 
Packet
,} packet	float
{ match
crc
as
    /// triple
    body{""\" ++ [233]%N ++ runes_of_ascii """ :f32a 4294967296 :len
    [ ""// no comment""
    //x
    ]
: lengthOf, 65535 : // c
i64_ ,
//x
//
4294967296 : Pad,} , Logon // trailing space 
, float64 body	@lengthOf( leftPad )
`say ""hi""`
    , match u8x as repeatCount{
    // @lengthOf(
    """ ++ [128512]%N ++ runes_of_ascii """ :
i8i8
    ,
    ""\n"":tag , 7:pack , """ ++ [28040; 24687]%N ++ runes_of_ascii """
//	t
// " ++ [27880; 37322]%N ++ runes_of_ascii "
: calculatedFrom, /// triple
[
    0 ,""it's""	]
:
    int } // c
,char[0] stringy
, repeat float32 trueish  `u8 x,`,char[]	T , } packet  calculatedFrom //	t
{ matchKey	matchKey,@leftPad
/// triple
// `tick` ""quote"" 'q'
(
)msg_type, int16 // packet A { u8 x, }
BodyLength `" ++ [233]%N ++ runes_of_ascii "` , char[
    /// triple
    255] /// triple
packetx , @calculatedFrom( ""x y"" ) match
    Packet as
    uint8x // c
{ ""\n"": repeatCount ,
    [
// packet A { u8 x, }
// packet A { u8 x, }
65535 ] : leftPad ,
    ""\n"" :
trueish,[""" ++ [233]%N ++ runes_of_ascii "t" ++ [233]%N ++ runes_of_ascii """
,
    1 // " ++ [27880; 37322]%N ++ runes_of_ascii "
, ""abc""	,
10]:f32a // " ++ [27880; 37322]%N ++ runes_of_ascii "
[ ""// no comment"" ] : u// @lengthOf(
65535
: matchKey , } , match _x as float{ ""x y"": len  , } ,
    char a1// c
@lengthOf( i64_
)	,_x @calculatedFrom(""\n"")
`// not a comment`  , repeat calculatedFrom{ zchar[ 1] // " ++ [128512]%N ++ runes_of_ascii " emoji
Foo , char[	7] options1 `tab	here`
, //
match
    chars as A
    { 4294967296 : string_
    , } , u8x	@calculatedFrom(""`tick`""
)
, }
    ,
} packet calculatedFrom  {
    @lengthOf(tag ) @leftPad(
    //x
    '\x00'
    // " ++ [27880; 37322]%N ++ runes_of_ascii "
    ) @rightPad
    (
'0')char[ 0123456789
] u128 , rootA
{zchar[ // a // b
4294967296  ]
//	t
// a // b
_x// a // b
@lengthOf(
    metadata // trailing space 
) ,
    } ,	Header u , @calculatedFrom(""it's"" )
// @lengthOf(
// trailing space 
Pad @calculatedFrom( ""abc"" ) , @lengthOf(
u
) @lengthOf( len)
    @rightPad	( ) // trailing space 
int64 uint8x `// not a comment` , } root packet roots { u@lengthOf( i8i8 ) , @calculatedFrom(""\" ++ [233]%N ++ runes_of_ascii """)
    BodyLength
Logon, uint16 body @lengthOf(
f32a )	`a\`, int16 // a // b
zchar , @calculatedFrom(""a	b"" ) u32 u128 // @lengthOf(
`
` ,
    Pad T //	t
`
`,
    }")).
Eval vm_compute in ("<<<M3541>>>" ++ check (runes_of_ascii "// top
options // c0a
  // c0b
{ LittleEndian // c2a
  // c2b
= // c3a
  // c3b
true // c4a
  // c4b
; // c5a
  // c5b
FixedStringPadFromLeft // c6
= // c7
true // c8
; // c9
FixedStringPadChar // c10a
  // c10b
= // c11
'0' // c12a
  // c12b
; // c13
} // c14
packet // c15
Trade // c16a
  // c16b
{ string
    // c18
clOrdID
    // c19
, // c20
char[]
    // c21
Px // c22a
  // c22b
, // c23
u32 // c24a
  // c24b
x // c25a
  // c25b
, } // c27
packet // c28
Reject // c29
{
    // c30
int32 // c31
Side2
    // c32
,
    // c33
repeat char[ // c35a
  // c35b
3 ]
    // c37
clOrdID // c38a
  // c38b
,
    // c39
i32
    // c40
tag7
    // c41
, // c42a
  // c42b
}
    // c43
packet // c44a
  // c44b
Leg // c45a
  // c45b
{
    // c46
} // c47
root // c48
packet // c49
Quote // c50a
  // c50b
{ // c51a
  // c51b
string // c52
Side2 , string // c55
lastPx
    // c56
, InSym58 // c58a
  // c58b
{ // c59a
  // c59b
int16
    // c60
OrderId // c61a
  // c61b
, Reject ,
    // c64
i8 Qty
    // c66
,
    // c67
i64 // c68a
  // c68b
venue
    // c69
, // c70
f32
    // c71
Note
    // c72
, // c73
} // c74a
  // c74b
,
    // c75
char[] // c76a
  // c76b
count
    // c77
, // c78
zchar[ // c79a
  // c79b
9
    // c80
] // c81a
  // c81b
price
    // c82
, // c83
u16 Qty // c85
, // c86a
  // c86b
match // c87
Qty
    // c88
as Body
    // c90
{
    // c91
69 // c92a
  // c92b
: Leg
    // c94
, // c95
48 // c96a
  // c96b
: // c97
Trade // c98
, // c99a
  // c99b
51 // c100a
  // c100b
: Reject // c102
, } , // c105
u16 // c106
Acct
    // c107
@calculatedFrom(
    // c108
""CRC32"" // c109a
  // c109b
)
    // c110
, } ")).
Eval vm_compute in ("<<<M3715>>>" ++ check (runes_of_ascii "options {
    uint8x = u64;
    crc = '0'
    // @lengthOf(
    // " ++ [128512]%N ++ runes_of_ascii " emoji
    MetaDataX = '0';
    len = '0'
}

MetaData matchKey {
    /// triple
}

packet i64_ {
    BodyLength `tab	here`,
    @tag(00)
    repeat string_,
    @calculatedFrom(""" ++ [28040; 24687]%N ++ runes_of_ascii """)
    @leftPad('0')
    crc @calculatedFrom(""" ++ [233]%N ++ runes_of_ascii "t" ++ [233]%N ++ runes_of_ascii """),
    @tag(1)
    zchar[007] packetx `
    `,
    @leftPad('0')
    x @calculatedFrom(""packet""),
    @lengthOf(A)
    /// triple
    @calculatedFrom(""{,}"")
    @rightPad('0')
    string Header `say ""hi""`,
    @lengthOf(u8x)
    x Header `doc`,
}

packet uint8x {
    @leftPad('\x00')
    @lengthOf(leftPad)
    BodyLength u,
}

root packet A {
    @rightPad('\x00')
    @lengthOf(leftPad)
    char[4294967296] A @calculatedFrom(""// no comment""),
    @tag(42)
    @calculatedFrom(""packet"")
    @calculatedFrom(""" ++ [128512]%N ++ runes_of_ascii """)
    repeat Z9_ `" ++ [28040; 24687; 31867; 22411]%N ++ runes_of_ascii "`,
    rootA crc,
    Header,
    char[4294967296] charz `{ , }`,
    @calculatedFrom(""\n"")
    @calculatedFrom(""it's"")
    u64 stringy `" ++ [233]%N ++ runes_of_ascii "`,
    repeat options1 {
        body {
            lengthOf @calculatedFrom(""a\\""),
            options1 {
                repeat chars leftPad `two words`,
                // " ++ [27880; 37322]%N ++ runes_of_ascii "
                // " ++ [27880; 37322]%N ++ runes_of_ascii "
            },
        },
        repeat char[] _x,
        zchar[3] options1,
    },
    @lengthOf(packetx)
    @leftPad(' ')
    @lengthOf(rootA)
    float Packet,
    @tag(7)
    repeat u8 matchKey,
}
//	t")).
Eval vm_compute in ("<<<M558>>>" ++ check (runes_of_ascii "// " ++ [27880; 37322]%N ++ runes_of_ascii "
packet int {
@tag( // a // b
0)@rightPad ('0')@calculatedFrom(
""CRC32"" ) zchar[ 10 ]
    //x
    float ,
    char[
1 // " ++ [27880; 37322]%N ++ runes_of_ascii "
]float `
`, int8
i64_ @lengthOf( // packet A { u8 x, }
u128 )
    `{ , }` ,  uint32 rootA , float32 _x , u8 T `` , MetaDataX
x
    `it's` , char[] calculatedFrom , // @lengthOf(
uint64
    // a // b
    i8i8`// not a comment`	,
    } MetaData lengthOf {
// trailing space 
// `tick` ""quote"" 'q'
leftPad leftPad ,u32 a1 `it's` , Pad Packet ,//	t
uint8x leftPad,  falsey roots`// not a comment`
    , }
packet A { calculatedFrom @calculatedFrom( ""CRC32"" ) `` ,repeat matchKey {
    string
chars`two words` , // trailing space 
stringy @calculatedFrom( //	t
""1""),
// @lengthOf(
// " ++ [128512]%N ++ runes_of_ascii " emoji
} // c
, // packet A { u8 x, }
match trueish as float
/// triple
// " ++ [27880; 37322]%N ++ runes_of_ascii "
{  3:int /// triple
[
    // trailing space 
    """ ++ [233]%N ++ runes_of_ascii "t" ++ [233]%N ++ runes_of_ascii """  ,	""\n"" ]: Logon// @lengthOf(
, 7: metadata ,
007 :
    //
    u, },  @lengthOf(  body )char[]Logon //
`tab	here` , // trailing space 
@calculatedFrom( ""\" ++ [233]%N ++ runes_of_ascii """ )  charz// c
@lengthOf( i64_  ), repeat  i64 f32a
    ,repeat
u32	Foo `
` , @calculatedFrom(""1"" )
    repeat int	{repeat trueish
{ // trailing space 
repeat f64 Foo ,  },
} ,// c
char[]	matchKey @lengthOf(
x_y_z) , @rightPad
    ( ) repeat int64
As //	t
,}
")).
Eval vm_compute in ("<<<M213>>>" ++ check (runes_of_ascii "packet a1
{
@lengthOf(	f32a	) repeat u64	string_
    ,
    @calculatedFrom( """"
    ) repeat	i16 tag `u8 x,` , @tag( 42 ) @calculatedFrom(	""a\\"")  @calculatedFrom( ""\" ++ [233]%N ++ runes_of_ascii """
) zchar[ 10
] Foo , char[42
    //	t
    ]
    body `// not a comment` , }MetaData roots{ uint64
Z9_ `{ , }`,
char[]charz `doc` , uint16 u128 `u8 x,` , zchar[ 4294967296 // trailing space 
]
    len
,
float32
stringy
,
} packet
Z9_	{ @leftPad ('\x00')
    @tag(42 ) @tag( 7)
    roots x
    , @lengthOf( int ) crc zchar
//	t
//
, } packet string_ { u8 Pad
// c
// " ++ [128512]%N ++ runes_of_ascii " emoji
, u64 chars
,
    @lengthOf(	Logon
)
    pack
,
@leftPad (
    ) @rightPad//
(
    ' '	)@calculatedFrom(""a	b"")
    i8 x `crlf
line`
    , char[ 0123456789 // @lengthOf(
]options1 @calculatedFrom( ""{,}"" )
`two words` ,uint64 charz `doc` , char[] u128
// packet A { u8 x, }
//	t
,
    @calculatedFrom( ""1"" ) repeat matchKey
    {
repeat int o// c
, } ,
@lengthOf(calculatedFrom
    )@rightPad ( '\x00')
@tag( 00 )
MetaDataX { uint32 BodyLength, } ,
// trailing space 
//
} packet lengthOf {  @calculatedFrom(	""" ++ [28040; 24687]%N ++ runes_of_ascii """
    )
// trailing space 
// " ++ [27880; 37322]%N ++ runes_of_ascii "
repeat	repeatCount { repeat char[ 7]	pack `// not a comment`, }
, }
")).
Eval vm_compute in ("<<<M1406>>>" ++ check (runes_of_ascii "options {
	StringPrefixLenType = u16;
	ArrayPrefixLenType = u16;
}

packet SampleBinary {
	uint16 MsgType `" ++ [28040; 24687; 31867; 22411]%N ++ runes_of_ascii "`,
	u16 BodyLenght @lengthOf(Body) `" ++ [28040; 24687; 20307; 38271; 24230]%N ++ runes_of_ascii "`,
	match MsgType as Body {
		1 : Logon,
		2 : Logout,
		3 : Heartbeat,
		4 : RiskControlRequest,
		5 : RiskControlResponse,
	},
	@calculatedFrom(""CRC32"")
	u32 Ckecksum `" ++ [26657; 39564; 21644]%N ++ runes_of_ascii "`,
}

packet Logon {
	@leftPad('0')
	char[10] UserName `" ++ [29992; 25143; 21517]%N ++ runes_of_ascii "`,
	string Password `" ++ [23494; 30721]%N ++ runes_of_ascii "`,
	uint64 ClientId `" ++ [23458; 25143; 31471]%N ++ runes_of_ascii "ID`,
	u16 HeartbeatInterval `" ++ [24515; 36339; 38388; 38548]%N ++ runes_of_ascii "`,
}

packet Logout {
	@rightPad('0')
	char[10] UserName `" ++ [29992; 25143; 21517]%N ++ runes_of_ascii "`,
	uint64 ClientId `" ++ [23458; 25143; 31471]%N ++ runes_of_ascii "ID`,
}

packet Heartbeat {
}

packet RiskControlRequest {
	string UniqueOrderId `" ++ [21807; 19968; 35746; 21333; 21495]%N ++ runes_of_ascii "`,
	char[16] ClOrdID `" ++ [23458; 25143; 35746; 21333; 21495]%N ++ runes_of_ascii "`,
	char[3] MarketID `" ++ [24066; 22330]%N ++ runes_of_ascii "id`,
	char[12] SecurityID `" ++ [35777; 21048; 20195; 30721]%N ++ runes_of_ascii "`,
	char Side `" ++ [20080; 21334; 26041; 21521]%N ++ runes_of_ascii "`,
	char OrderType `" ++ [35746; 21333; 31867; 22411]%N ++ runes_of_ascii "`,
	u64 Price `" ++ [20215; 26684]%N ++ runes_of_ascii "`,
	u32 Qty `" ++ [25968; 37327]%N ++ runes_of_ascii "`,
	repeat string ExtraInfo `" ++ [38468; 21152; 20449; 24687]%N ++ runes_of_ascii "`,
	repeat SubOrder {
		char[16] ClOrdID `" ++ [23376; 35746; 21333; 21495]%N ++ runes_of_ascii "`,
		u64 Price `" ++ [23376; 35746; 21333; 20215; 26684]%N ++ runes_of_ascii "`,
		u32 Qty `" ++ [23376; 35746; 21333; 25968; 37327]%N ++ runes_of_ascii "`,
	},
}

packet RiskControlResponse {
	string UniqueOrderId `" ++ [21807; 19968; 35746; 21333; 21495]%N ++ runes_of_ascii "`,
	i32 Status `" ++ [29366; 24577]%N ++ runes_of_ascii "`,
	string Msg `" ++ [32467; 26524; 20449; 24687]%N ++ runes_of_ascii "`,
	repeat Detail,
}

packet Detail {
	string RuleName `" ++ [35268; 21017; 21517; 31216]%N ++ runes_of_ascii "`,
	u16 Code `" ++ [21407; 22240; 20195; 30721]%N ++ runes_of_ascii "`,
}")).
Eval vm_compute in ("<<<M154>>>" ++ check (runes_of_ascii "root packet // packet A { u8 x, }
a1 {
    // " ++ [27880; 37322]%N ++ runes_of_ascii "
    repeat leftPad {
    // a // b
    lengthOf
, }
    ,
    @tag(// c
0123456789)int64 repeatCount ``,	match
int as len {
1 : repeatCount , """" : lengthOf,
[
""a\""b""
    , 255,
7 ,""it's"" ,255,
    00 , 7 , ""`tick`""
    //
    ]
    : msg_type , 42 :body
    ,
    } ,
    repeat asx { charz { char[ 007 ]f32a ,
    // a // b
    } ,match
    u as
    Z9_ { """ ++ [233]%N ++ runes_of_ascii "t" ++ [233]%N ++ runes_of_ascii """ : float
,
    // c
    ""1""
: Pad , [
    """", 10 ] // packet A { u8 x, }
: Header , [ 42 ]: repeatCount , 00// a // b
: T , } , } ,
@rightPad ( ' ' )
falsey,
    @tag( 0) @calculatedFrom(	""1"" )
@leftPad (
    '\x00') o , }
    MetaData i64_{ } packet x{
@lengthOf( Header) repeat
msg_type {
    repeat char[ 0123456789 ] u,
    // packet A { u8 x, }
    uint32
BodyLength	@lengthOf( _x) `crlf
line` , },} MetaData Header { Header
    options1,
    f32a
stringy ,
    char[] uint8x `a\` , char[ // trailing space 
1
    // packet A { u8 x, }
    ] u128, i32 Z9_
    ,
    float32 // a // b
msg_type,
    }

")).
Eval vm_compute in ("<<<M3532>>>" ++ check (runes_of_ascii "options {
    StringPrefixLenType = u32;
    ArrayPrefixLenType = u8;
    FixedStringPadFromLeft = false;
}
packet Logon {
    i8 venue,
    int16 f1,
    zchar[8] Acct,
    repeat InNote16 {
        InQty73 {
            float32 tag7,
        },
        f32 Acct,
        zchar[5] sym,
    },
    uint16 Side2,
    i32 lastPx,
}
packet Fill {
    repeat InOrderid15 {
        zchar[8] sym,
        repeat char[2] OrderId,
        repeat Logon,
        InQty82 {
            char[] Tail,
            repeat Logon,
            float64 price,
            f64 Side2,
        },
        char[12] venue,
        char[4] Px,
    },
    @rightPad('0') char[2] venue,
    InPrice99 {
        InAcct72 {
            u8 pad0,
        },
        u32 OrderId,
        Logon,
    },
}
root packet Reject {
    zchar[9] msgKind,
    u32 venue,
    u16 seqNo @lengthOf(Body),
    match venue as Body {
        57 : Fill,
        8 : Logon,
    },
    u16 Tail @calculatedFrom(""CRC32""),
}
")).
Eval vm_compute in ("<<<M387>>>" ++ check (runes_of_ascii "
root  packet chars{
match options1
as zchar { ""a\\""
: Packet }
    // c
    ,u16	metadata @calculatedFrom( ""{,}"" ) ,	repeat A msg_type , @calculatedFrom( ""CRC32"")@lengthOf(
    float ) @lengthOf(MetaDataX )
repeat zchar[0123456789 ] Z9_// c
`{ , }` , @tag(7)
// trailing space 
// a // b
float32
crc
// trailing space 
// packet A { u8 x, }
@lengthOf(charz )
, @tag(
// packet A { u8 x, }
//	t
3 ) calculatedFrom Pad, // c
repeat int32 trueish
, }
    options  {A = zchar[
65535 ] Logon = ""abc""
chars =
    7 Pad = ""\" ++ [233]%N ++ runes_of_ascii """
    }packet int // @lengthOf(
{ @lengthOf(
MetaDataX ) @calculatedFrom(
// packet A { u8 x, }
// a // b
""\" ++ [233]%N ++ runes_of_ascii """
) zchar[
    4294967296
] matchKey @lengthOf( Pad)
`" ++ [28040; 24687; 31867; 22411]%N ++ runes_of_ascii "`
    ,
}
packet As
{
@lengthOf( BodyLength )
    u64 matchKey ,u64
    trueish `" ++ [28040; 24687; 31867; 22411]%N ++ runes_of_ascii "` , @rightPad
( )char[
00]
    A
@calculatedFrom(
    """ ++ [128512]%N ++ runes_of_ascii """ )`say ""hi""`	, repeatCount@lengthOf(BodyLength
// a // b
// `tick` ""quote"" 'q'
) ,
len  ,}")).
Eval vm_compute in ("<<<M149>>>" ++ check (runes_of_ascii "MetaData As{
    u//
matchKey	, char[] T	, char[] Foo// @lengthOf(
`{ , }`,
    }root
packet
    T { @lengthOf(
tag ) @tag( 0123456789 ) match repeatCount as
    BodyLength { """ ++ [233]%N ++ runes_of_ascii "t" ++ [233]%N ++ runes_of_ascii """  :o ,
65535 : float,
    ""a	b""	: _x , [ ""x y"" , 65535
// packet A { u8 x, }
//x
] : string_ ,}
,}
    root packet
_x { match msg_type
    // trailing space 
    as
    f32a {""\" ++ [233]%N ++ runes_of_ascii """ : Header 3	:
repeatCount [7, ""a	b"" ] :
_x
, ""it's"":
stringy 10
:
//	t
/// triple
As ,""it's"" :lengthOf }
, @calculatedFrom(""packet"" ) int64// `tick` ""quote"" 'q'
falsey ,	@leftPad// packet A { u8 x, }
( )
//	t
//
char[ 1 ]len// @lengthOf(
@lengthOf( Foo ) ,	chars
T ,
    zchar[
007	]	options1
,
match f32a as
asx
{[ ""1"" ] :matchKey, """ ++ [28040; 24687]%N ++ runes_of_ascii """: As ,
    // c
    4294967296 : options1 ,
}
    , }	MetaData o
    {	zchar[ 42] repeatCount ,packetx falsey,Packet options1
`{ , }` ,} options { falsey = ""a\\""	} // " ++ [128512]%N ++ runes_of_ascii " emoji")).
Eval vm_compute in ("<<<M1023>>>" ++ check (runes_of_ascii "packet
matchKey {
} MetaData
    string_{ //	t
pack repeatCount
`{ , }` ,
char[ 7 ] x , i32
crc
, Logon chars , uint32 o , Packet charz
    ,
}MetaData calculatedFrom {	int64 uint8x ,i16
    o `// not a comment`, //x
float float
    , } packet stringy { }packet  len { repeat pack `{ , }` , @rightPad (' '
) match i64_ as/// triple
i64_ // @lengthOf(
{
""1"":
As [4294967296 ] ://
Logon , // `tick` ""quote"" 'q'
0123456789 :options1 , 4294967296
: roots}/// triple
, char[ 3 ] rootA
    @lengthOf( int )
,
    @leftPad
(' ')
// a // b
/// triple
@calculatedFrom(
""abc"" )@leftPad (
) zchar[
    255 ]
    _x@calculatedFrom(""{,}"" )
, chars charz `a\` , @lengthOf(  roots )
// a // b
// a // b
match u8x as
    Z9_
// " ++ [27880; 37322]%N ++ runes_of_ascii "
/// triple
{
    // packet A { u8 x, }
    65535  : a1 , 65535 :x_y_z ""a	b"" :MetaDataX , } , tag
,} 	 ")).
Eval vm_compute in ("<<<M468>>>" ++ check (runes_of_ascii "root packet //
len{
    char[ 1]As , i64 T	@lengthOf( u8x
)	`u8 x,` , repeat int16
/// triple
// " ++ [128512]%N ++ runes_of_ascii " emoji
i8i8`" ++ [233]%N ++ runes_of_ascii "` , @tag( 42 ) match chars as calculatedFrom
    {[ ""a\\"", 0
] : // " ++ [27880; 37322]%N ++ runes_of_ascii "
trueish
3
    : BodyLength
    ""{,}"" : len } , // a // b
repeat zchar[
4294967296 ]
A
    ``, repeat char uint8x  `it's`
,}packet// " ++ [27880; 37322]%N ++ runes_of_ascii "
x_y_z {	@lengthOf(matchKey ) @tag(
    3
    )@calculatedFrom( ""\" ++ [233]%N ++ runes_of_ascii """  )
    string
    lengthOf@calculatedFrom(
""" ++ [233]%N ++ runes_of_ascii "t" ++ [233]%N ++ runes_of_ascii """ ) , } root
packet //
int
// trailing space 
// packet A { u8 x, }
{ repeat BodyLength { match Pad as chars {[ ""`tick`""]
:
    // a // b
    zchar,[ """ ++ [28040; 24687]%N ++ runes_of_ascii """ , ""CRC32"" ,""// no comment""] : repeatCount
,  1 :metadata
, 3 : As , 3 : lengthOf } ,
u32 A // " ++ [27880; 37322]%N ++ runes_of_ascii "
`// not a comment` ,
//x
//x
f64 stringy @lengthOf( As )`" ++ [233]%N ++ runes_of_ascii "`
    , o
,
}
, }
    packet
zchar {}
// c
")).
Eval vm_compute in ("<<<M924>>>" ++ check (runes_of_ascii "options {msg_type=	int64 ;// `tick` ""quote"" 'q'
tag // c
=
// `tick` ""quote"" 'q'
// " ++ [128512]%N ++ runes_of_ascii " emoji
true falsey = ' '
    ;  } MetaData float
// a // b
/// triple
{
    chars
    pack  , o Pad
, // `tick` ""quote"" 'q'
rootA int , // `tick` ""quote"" 'q'
i64 Logon, char[ 00 ]lengthOf
`two words` , u128 u8x
    `// not a comment`
,
    }MetaData packetx { }root	packet uint8x
    { @lengthOf( matchKey ) MetaDataX {o { repeat
uint16 i64_ , uint64  msg_type
@calculatedFrom( """"  ) , } , //
repeat i64 BodyLength
    `u8 x,`
    , char[] Z9_
,} , //
char[ 3]
stringy
    ,
    @lengthOf(
uint8x
) @calculatedFrom(	""abc""	)
A
    `" ++ [28040; 24687; 31867; 22411]%N ++ runes_of_ascii "` ,
i32
    msg_type  , i8 f32a @lengthOf( falsey ) , @calculatedFrom( ""CRC32"" ) u8
    MetaDataX  @calculatedFrom(
""`tick`"" ), }
")).
Eval vm_compute in ("<<<M4200>>>" ++ check (runes_of_ascii "packet roots {
    @calculatedFrom(""CRC32"")
    @tag(42)
    Z9_ leftPad `line1
        line2`,
    @lengthOf(string_)
    @lengthOf(Packet)
    @calculatedFrom(""// no comment"")
    repeat chars len,
    @tag(42)
    @tag(3)
    u8 u128 @lengthOf(A),
    char T,
    @lengthOf(charz)
    // `tick` ""quote"" 'q'
    zchar lengthOf,
    repeat zchar[00] A,
    char[4294967296] leftPad `u8 x,`,
    @tag(4294967296)
    @tag(007)
    repeat char[65535] float `two words`,
}

packet crc {
    msg_type @lengthOf(chars),
    string chars @lengthOf(u128),
    int64 Header,
    match lengthOf as pack {
        [255, ""packet""] : i64_,
        //x
        1 : u,
    },
    trueish @lengthOf(packetx),
    charz @lengthOf(packetx),
}")).
Eval vm_compute in ("<<<M4180>>>" ++ check (runes_of_ascii "

  root	packet

i64_	// " ++ [27880; 37322]%N ++ runes_of_ascii "
	{
match	// " ++ [128512]%N ++ runes_of_ascii " emoji
    	rootA
as
stringy

    {

10 :
    int ,
    7
:
chars  , 7
:int 4294967296
    : 	 // @lengthOf(
Foo
	,
[  // trailing space 
	7

, """ ++ [28040; 24687]%N ++ runes_of_ascii """

] :	// c
    BodyLength [ 0

    ,""1""

    , 00 ,7

    ,
""it's"" ]
:	As
	, 
}  , repeat
	char[]  a1
    `u8 x,` , @leftPad 
    // packet A { u8 x, }

  // " ++ [27880; 37322]%N ++ runes_of_ascii "
	  ( 
      // trailing space 

' '  )
	packetx,
    @calculatedFrom(  ""\n"" ) repeat

matchKey  {char[7
	    // `tick` ""quote"" 'q'
]
    falsey`crlf
line`	,
} , 
    // c
    	/// triple

	@lengthOf(f32a )
uint8 Z9_
, 
// a // b
    //	t
    falsey	, repeat
    leftPad ,  @tag(

1
	) 
u8x

@lengthOf(  i64_

    ) , 
}")).
Eval vm_compute in ("<<<M1066>>>" ++ check (runes_of_ascii "MetaData
zchar{ } packet
Packet { u16 x  @calculatedFrom(
    """ ++ [28040; 24687]%N ++ runes_of_ascii """ )
``
,
    // " ++ [128512]%N ++ runes_of_ascii " emoji
    @tag(	7 )	@tag( 00)
Packet u128,	@lengthOf( //
float )
match A
as
// trailing space 
// @lengthOf(
charz
{00 // `tick` ""quote"" 'q'
: x ,[ 0 ,
255
, ""it's"" ,10
    ] : Packet
    , ""a\\"":  metadata
, [// c
""`tick`"" , 10 ] /// triple
:
chars , [ ""a\""b"" // packet A { u8 x, }
] :trueish, } ,uint64 string_ // trailing space 
,
@rightPad
(// a // b
' ')  float64
    stringy `line1
line2`  ,  @tag( 00 //
)	uint16 As , }//	t
options {Logon =
    false  ;
    // a // b
    body =
    f64 // c
; } MetaData asx { } packet leftPad{float @lengthOf( A ) `a\`  ,
}
// " ++ [27880; 37322]%N ++ runes_of_ascii "
")).
Eval vm_compute in ("<<<M4084>>>" ++ check (runes_of_ascii "  root

packet
	stringy 
{

    repeat 
char[]  MetaDataX 
, @calculatedFrom(
""CRC32""
    )  body, @tag(	// @lengthOf(
42
) @rightPad
(' '
    )
@rightPad(

) 	 // packet A { u8 x, }
  repeat

u8x
{
    BodyLength @lengthOf(A

    )
	, }

    , match 
f32a as
x_y_z {

4294967296  :
	Foo ,	} 
// @lengthOf(
	  //x
,
    repeatCount { uint8
    As 
      /// triple
    // a // b

	`a\` 	 // a // b

  ,
    },

} 
packet
	u
	{  repeat // `tick` ""quote"" 'q'
char	charz
    ,
	} options  { Header
=
char
	; }

root

packet	i64_
    { u8
	Z9_ `
` 
, @calculatedFrom(
""1"")
    u128  float	,} options
    {
_x 
= 00
;
    } ")).
Eval vm_compute in ("<<<M3552>>>" ++ check (runes_of_ascii "// top
packet
    // c0
Sub // c1
{
    // c2
u8 // c3a
  // c3b
a // c4
, // c5
u32 SubSum @calculatedFrom( // c8a
  // c8b
""CRC16""
    // c9
) // c10a
  // c10b
, } // c12a
  // c12b
root // c13
packet
    // c14
Frame // c15a
  // c15b
{ // c16a
  // c16b
u16
    // c17
MsgType // c18a
  // c18b
,
    // c19
u16 // c20a
  // c20b
BodyLen // c21
@lengthOf(
    // c22
Body ) , Sub // c26a
  // c26b
Body
    // c27
, // c28
string note
    // c30
, // c31a
  // c31b
u32 // c32a
  // c32b
Checksum @calculatedFrom( // c34a
  // c34b
""CRC16""
    // c35
) // c36
, u8 // c38
tail // c39
, // c40
} // c41
")).
Eval vm_compute in ("<<<M1255>>>" ++ check (runes_of_ascii "packet repeatCount { } root
    packet x {// " ++ [128512]%N ++ runes_of_ascii " emoji
match body as pack { 10
    :charz} , @leftPad
    ( '\x00'
    // c
    ) @lengthOf( _x ) string//x
f32a
// @lengthOf(
// `tick` ""quote"" 'q'
@calculatedFrom(
""1"" )
/// triple
// `tick` ""quote"" 'q'
, @tag(4294967296 ) @leftPad
    ( ) string
    Logon
,int64
    i8i8`it's` ,
} packet
    Logon
{
len
    // trailing space 
    {
repeat i32 float //
,
} ,
    @lengthOf( Z9_
) repeat lengthOf  msg_type, string_ //
@calculatedFrom(""{,}""
) ,
@tag(255
    ) char[4294967296 //	t
]  pack
`say ""hi""`
, }
")).
Eval vm_compute in ("<<<M194>>>" ++ check (runes_of_ascii "// " ++ [128512]%N ++ runes_of_ascii " emoji
packet// @lengthOf(
int { match zchar
as _x {	[ 4294967296 ]
    :
x_y_z ,[
""a\""b"" // @lengthOf(
]  :chars ,
    [
    ""it's"" , ""\" ++ [233]%N ++ runes_of_ascii """ , ""packet""
    ,""{,}"" ] :
f32a
}, x { repeat asx{ zchar[  0123456789
]crc `crlf
line`, msg_type	i8i8`crlf
line` ,
    uint16
rootA @calculatedFrom( ""a\\"" )
    // @lengthOf(
    , Logon x_y_z
`" ++ [233]%N ++ runes_of_ascii "` , },
} , } packet
u{ match
    pack as trueish //x
{ ""1"" : len """ ++ [128512]%N ++ runes_of_ascii """ : leftPad ,4294967296 // @lengthOf(
:	metadata
, }
    ,int T  `line1
line2` ,f32 Logon
    , } options {
    }
")).
Eval vm_compute in ("<<<M1369>>>" ++ check (runes_of_ascii "packet leftPad { @calculatedFrom( ""\" ++ [233]%N ++ runes_of_ascii """ ) @rightPad	( '0'
) @lengthOf( asx)
BodyLength trueish `it's` ,
@leftPad('\x00' ) A // " ++ [128512]%N ++ runes_of_ascii " emoji
i8i8`
` ,@tag(
    0 ) matchKey
{  int16
falsey `line1
line2` ,/// triple
} ,// " ++ [128512]%N ++ runes_of_ascii " emoji
match tag as
falsey	{
    [ ""packet"" ]  : i64_
3 : leftPad
    ,	} , @calculatedFrom(
    ""// no comment""
) string a1
,@leftPad // trailing space 
(
// `tick` ""quote"" 'q'
// @lengthOf(
'\x00' )
@calculatedFrom( """ ++ [28040; 24687]%N ++ runes_of_ascii """ )
@calculatedFrom(
    ""`tick`""
    )repeat chars
As
,
}
")).
Eval vm_compute in ("<<<M1389>>>" ++ check (runes_of_ascii "packet u128
    { // @lengthOf(
@lengthOf(
u8x)	char[]
lengthOf`it's` ,
@calculatedFrom(""it's"" ) u16 metadata@calculatedFrom( ""// no comment"" )
//x
// " ++ [128512]%N ++ runes_of_ascii " emoji
`// not a comment`
    , @lengthOf( int )// @lengthOf(
repeat trueish float ,
    // c
    char[  00] falsey , repeat
    zchar[ 3] falsey ,@lengthOf(	pack )
zchar[
    //	t
    007]
// c
// " ++ [128512]%N ++ runes_of_ascii " emoji
packetx @lengthOf( len
    ) ,
repeat// @lengthOf(
char u `tab	here` ,Pad// @lengthOf(
@lengthOf( leftPad  ) , }
")).
Eval vm_compute in ("<<<M4370>>>" ++ check (runes_of_ascii "  //
      packet
    asx
{// c
    match	rootA
    as  u8x {
	0123456789:As

    ,	} ,
	@lengthOf(

    zchar
    ) 
i32 
Z9_ 
@calculatedFrom(

""`tick`"" // packet A { u8 x, }

), repeat string_	//x

{repeat  zchar[ 00
]	Logon	`a\` 
,
    u16

packetx
    `` 
,
	}
	,
    _x,
repeat string
msg_type , u64 chars
    @lengthOf(
chars)
    ,

asx

falsey
    `tab	here`  /// triple
    ,
	i32
u , 
    //
// trailing space 
	  }MetaData	charz {
}
")).
Eval vm_compute in ("<<<M172>>>" ++ check (runes_of_ascii "// c
options  {
i8i8
    = """ ++ [28040; 24687]%N ++ runes_of_ascii """
    // trailing space 
    ; Pad= ' ' }root packet i8i8{ i64 matchKey`" ++ [233]%N ++ runes_of_ascii "`
,match repeatCount as x// @lengthOf(
{
//	t
// a // b
42 : float
    ,
007 : u , }
// trailing space 
//x
,
@calculatedFrom( ""a	b"" ) string_
// @lengthOf(
/// triple
{  matchKey string_
    ,// trailing space 
} , repeat char[] repeatCount
    , }
options // a // b
{
msg_type =
true ; int
// " ++ [128512]%N ++ runes_of_ascii " emoji
// " ++ [27880; 37322]%N ++ runes_of_ascii "
= u16	string_
    = false ;}")).
Eval vm_compute in ("<<<M3434>>>" ++ check (runes_of_ascii "// top
packet
    // c0
B // c1
{
    // c2
u8 a // c4a
  // c4b
,
    // c5
} // c6a
  // c6b
root packet // c8
P // c9
{
    // c10
u8 K
    // c12
, // c13
u8 // c14a
  // c14b
L // c15a
  // c15b
@lengthOf( // c16a
  // c16b
Body
    // c17
)
    // c18
, // c19
match // c20a
  // c20b
K // c21a
  // c21b
as
    // c22
Body // c23a
  // c23b
{ // c24a
  // c24b
1 : // c26
B , }
    // c29
, // c30
} // c31a
  // c31b
")).
Eval vm_compute in ("<<<M1193>>>" ++ check (runes_of_ascii "options
// packet A { u8 x, }
// @lengthOf(
{ asx
    // " ++ [128512]%N ++ runes_of_ascii " emoji
    = // trailing space 
true u128 //x
= ""// no comment""	len	= ' ' ; crc =
    ""1"" ; f32a
= zchar[
    //
    255 ] ;} packet falsey
{ @calculatedFrom(  ""{,}""
)	@lengthOf(
f32a) repeat int64
i8i8
    `two words` ,
    //
    float64
Z9_
    @lengthOf(
    A ) `" ++ [28040; 24687; 31867; 22411]%N ++ runes_of_ascii "` ,match int as calculatedFrom { // trailing space 
10
:
T//	t
, }, } //	t")).
Eval vm_compute in ("<<<M606>>>" ++ check (runes_of_ascii "
options { x_y_z
    =// @lengthOf(
""x y"" ; }
    // " ++ [27880; 37322]%N ++ runes_of_ascii "
    packet
int { @calculatedFrom( ""\" ++ [233]%N ++ runes_of_ascii """ ) match
    MetaDataX
as
o {// c
4294967296
    : o , } ,
    }
    // packet A { u8 x, }
    MetaData
    asx {
    As u8x `// not a comment` ,	char[]
string_`doc` , i64_ Z9_
    ,
    i16 leftPad `it's`
    // `tick` ""quote"" 'q'
    ,
u16	BodyLength `// not a comment`,
lengthOf len ,
    }")).
Eval vm_compute in ("<<<M3283>>>" ++ check (runes_of_ascii "// top
packet // c0
trueish // c1
{ // c2
repeat // c3
u32 // c4
MetaDataX // c5
`doc` // c6
, // c7
Header // c8
{ // c9
packetx // c10
o // c11
`u8 x,` // c12
, // c13
} // c14
, // c15
@leftPad // c16
( // c17
'\x00' // c18
) // c19
repeat // c20
char[ // c21
0123456789 // c22
] // c23
repeatCount // c24
, // c25
} // c26
packet // c27
Packet // c28
{ // c29
} // c30
")).
Eval vm_compute in ("<<<M587>>>" ++ check (runes_of_ascii "options{}
    packet chars {@tag(255 )
    // `tick` ""quote"" 'q'
    i8 crc @calculatedFrom( ""\n"" )
`crlf
line`, @rightPad(' ' ) repeatCount @lengthOf( zchar
    // c
    ) , leftPad {
    char[]
    a1
, match trueish
as
Z9_ { ""a\\""
    : Foo , ""a\""b"": chars , } , zchar[
42
] asx	`a\`
//
// trailing space 
, } ,
@lengthOf( T ) calculatedFrom int,} 	 ")).
Eval vm_compute in ("<<<M517>>>" ++ check (runes_of_ascii "options { }root packet matchKey { @calculatedFrom(""a\\"" ) repeat
i32 int`" ++ [233]%N ++ runes_of_ascii "` , } MetaData
    repeatCount
    { zchar[ // `tick` ""quote"" 'q'
1
    ]stringy  ,o lengthOf `u8 x,` ,
zchar[42
    ]	Header , char[ 65535
] len `say ""hi""`
    , int16
crc `" ++ [233]%N ++ runes_of_ascii "` ,
    char[]u8x ,	}
root packet	repeatCount{@lengthOf(
    charz )
u128
    ,/// triple
}")).
Eval vm_compute in ("<<<M1220>>>" ++ check (runes_of_ascii "root packet
charz {// packet A { u8 x, }
float64 rootA`
`,	@tag(00 )
    repeat calculatedFrom //	t
a1
`say ""hi""`
    , u8 Foo @lengthOf( T )
    // `tick` ""quote"" 'q'
    , /// triple
}	options {options1 =  i32
    ; Logon // @lengthOf(
=""CRC32"" tag
    // packet A { u8 x, }
    = ""CRC32""}MetaData
_x  { u16 msg_type ,
}

")).
Eval vm_compute in ("<<<M199>>>" ++ check (runes_of_ascii "packet
    body {
@rightPad(	'0'	) Packet a1 ,asx ,repeatCount
// trailing space 
// packet A { u8 x, }
{// trailing space 
repeat int64 falsey , },	@rightPad
// c
// a // b
( '0'
)	match int
    // " ++ [27880; 37322]%N ++ runes_of_ascii "
    as T { 4294967296
: _x, 00 :  string_// c
,
    [""x y""  ] :  stringy, } ,// packet A { u8 x, }
uint32 x_y_z
,
}")).
Eval vm_compute in ("<<<M927>>>" ++ check (runes_of_ascii "  options
    {calculatedFrom = i32 ; // @lengthOf(
string_
    =
    7 uint8x  =// c
true ;
    } packet chars { string	stringy @lengthOf(
    // c
    stringy )
, } options{ lengthOf
// " ++ [27880; 37322]%N ++ runes_of_ascii "
// c
= //	t
'\x00'
// c
/// triple
matchKey ='0' ; Z9_ = string ;
calculatedFrom =
true	;
metadata= ""a	b"" ; }
")).
Eval vm_compute in ("<<<M1500>>>" ++ check (runes_of_ascii "root packet Foo // " ++ [128512]%N ++ runes_of_ascii " emoji
{ } options {
    // a // b
    tag // `tick` ""quote"" 'q'
= //	t
""""
    ; u8x = zchar[0  ] }
MetaData
    int int {zchar[ 10]
lengthOf	`` , i64 u8x`// not a comment` ,MetaDataX pack// `tick` ""quote"" 'q'
`crlf
line`
, Logon charz `crlf
line`
    ,
    // a // b
    }
")).
Eval vm_compute in ("<<<M1485>>>" ++ check (runes_of_ascii "root packet Foo // " ++ [128512]%N ++ runes_of_ascii " emoji
{ } options {
    // a // b
    tag // `tick` ""quote"" 'q'
= //	t
""""
    ; u8x = zchar[0  ] ] }
MetaData
    int {zchar[ 10]
lengthOf	`` , i64 u8x`// not a comment` ,MetaDataX pack// `tick` ""quote"" 'q'
`crlf
line`
, Logon charz `crlf
line`
    ,
    // a // b
    }
")).
Eval vm_compute in ("<<<M1412>>>" ++ check (runes_of_ascii "packet root Foo // " ++ [128512]%N ++ runes_of_ascii " emoji
{ } options {
    // a // b
    tag // `tick` ""quote"" 'q'
= //	t
""""
    ; u8x = zchar[0  ] }
MetaData
    int {zchar[ 10]
lengthOf	`` , i64 u8x`// not a comment` ,MetaDataX pack// `tick` ""quote"" 'q'
`crlf
line`
, Logon charz `crlf
line`
    ,
    // a // b
    }
")).
Eval vm_compute in ("<<<M1571>>>" ++ check (runes_of_ascii "root packet Foo // " ++ [128512]%N ++ runes_of_ascii " emoji
{ } options {
    // a // b
    tag // `tick` ""quote"" 'q'
= //	t
""""
    ; u8x = zchar[0  ] }
MetaData
    int {zchar[ 10]
lengthOf	`` , i64 u8x`// not a comment` ,MetaDataX pack// `tick` ""quote"" 'q'
,
`crlf
line` Logon charz `crlf
line`
    ,
    // a // b
    }
")).
Eval vm_compute in ("<<<M4197>>>" ++ check (runes_of_ascii "  root
packet
	pack {  body
,	char[
10
	]
options1 ,	@tag(

007) 
//	t
		@rightPad

    (
    )
@calculatedFrom( ""\n"") 
        // " ++ [128512]%N ++ runes_of_ascii " emoji

char[]	tag 
,  repeat

    char[]  Header
    ``	,

asx

    {repeat  u8x
{  repeat
    u8

x_y_z  ,  }// c

, }

    ,
}	MetaData	pack {  }")).
Eval vm_compute in ("<<<M469>>>" ++ check (runes_of_ascii "packet calculatedFrom{
Logon o , }// packet A { u8 x, }
MetaData As
// a // b
// " ++ [27880; 37322]%N ++ runes_of_ascii "
{ uint32 repeatCount`{ , }` ,zchar[
    /// triple
    00 ]
    T `say ""hi""` , zchar[
    1 ]  float`two words` , char[	42 ] stringy`// not a comment` ,
zchar[ 007  ]chars`tab	here` , int16 stringy  ,}")).
Eval vm_compute in ("<<<M4279>>>" ++ check (runes_of_ascii "

  MetaData
calculatedFrom
    {
char[] lengthOf, } // trailing space 
	root 	 // " ++ [27880; 37322]%N ++ runes_of_ascii "
	  packet

_x

{
    @calculatedFrom(
    """ ++ [28040; 24687]%N ++ runes_of_ascii """)
    repeat zchar _x
,
	    // packet A { u8 x, }
		repeat
    zchar[	42 	 //x
    ]
Pad ,
@tag(

42
	)

    char[  42 ]

    u8x	,  }
")).
Eval vm_compute in ("<<<M1113>>>" ++ check (runes_of_ascii "  packet
i64_ {  @leftPad ( )
char[]u8x//x
, float
`line1
line2`, // " ++ [27880; 37322]%N ++ runes_of_ascii "
@leftPad() match	roots  as charz {
[// @lengthOf(
""abc"" ] :	MetaDataX  ,
    // trailing space 
    42 :
    u128 } , } MetaData
    i8i8 {char[ 0 ]
    // " ++ [128512]%N ++ runes_of_ascii " emoji
    matchKey `it's`
,
    }
")).
Eval vm_compute in ("<<<M648>>>" ++ check (runes_of_ascii "options { packetx	=' 'chars /// triple
= ""a\""b"" ; BodyLength
= false } options{	}
// " ++ [128512]%N ++ runes_of_ascii " emoji
// c
root packet
A	{
    @rightPad (
// a // b
// @lengthOf(
'0') crc{
    i16 calculatedFrom , } , repeat
i8 Foo
// trailing space 
// `tick` ""quote"" 'q'
,
}
")).
Eval vm_compute in ("<<<M1200>>>" ++ check (runes_of_ascii "
packet lengthOf { repeat
    zchar[
    10]
x , @tag( 0123456789  ) char[ 3 ] charz ,
}root packet i64_{ i64_
`say ""hi""` ,string Logon `tab	here` ,
uint64
//x
//	t
pack @calculatedFrom( ""\" ++ [233]%N ++ runes_of_ascii """ ) `two words`
,
    } options
{uint8x =
'0'
; }")).
Eval vm_compute in ("<<<M1207>>>" ++ check (runes_of_ascii "packet repeatCount{ @rightPad ( )@rightPad // " ++ [27880; 37322]%N ++ runes_of_ascii "
(
    // c
    '\x00' ) matchKey // " ++ [27880; 37322]%N ++ runes_of_ascii "
@lengthOf( zchar ) ,	match int as  int { 00:Header, }
    ,
//x
/// triple
@leftPad (
'\x00')
    // @lengthOf(
    repeat o options1`u8 x,`
    ,}
")).
Eval vm_compute in ("<<<M2321>>>" ++ check (runes_of_ascii "MetaData Packet { }packet	asx  { @lengthOf( asx) falsey`crlf
line`
,
    }
    packet x	{uint32// @lengthOf(
rootA	,u32 options1 `say ""hi""` `say ""hi""` , @tag( 7
    )// packet A { u8 x, }
msg_type @lengthOf(
stringy	)	, }

")).
Eval vm_compute in ("<<<M402>>>" ++ check (runes_of_ascii "packet
    falsey{ }MetaData
    x
{ body len // @lengthOf(
, lengthOf trueish `two words` , zchar[// packet A { u8 x, }
65535	] Header`it's`,  packetx uint8x
`
` , int32 As , }
    // " ++ [128512]%N ++ runes_of_ascii " emoji
    root packet i8i8
{
}
")).
Eval vm_compute in ("<<<M2286>>>" ++ check (runes_of_ascii "MetaData Packet { }packet	asx  { @lengthOf( asx) falsey`crlf
line`
,
    }
    packet x x	{uint32// @lengthOf(
rootA	,u32 options1 `say ""hi""` , @tag( 7
    )// packet A { u8 x, }
msg_type @lengthOf(
stringy	)	, }

")).
Eval vm_compute in ("<<<M434>>>" ++ check (runes_of_ascii "MetaData
    charz { zchar[ 00 ]
    leftPad
    `tab	here` , zchar[ //x
007
] // " ++ [27880; 37322]%N ++ runes_of_ascii "
matchKey , crc	matchKey  ,char[
    1
// " ++ [27880; 37322]%N ++ runes_of_ascii "
// a // b
]
// `tick` ""quote"" 'q'
//	t
x_y_z ,
    string_ matchKey `say ""hi""` , }
")).
Eval vm_compute in ("<<<M2368>>>" ++ check (runes_of_ascii "MetaData Packet { }packet	asx  { @lengthOf( asx) falsey`crlf
line`
,
    }
    packet x	{uint32// @lengthOf(
rootA	,u32 options1 `say ""hi""` , @tag( 7
    )// packet A { u8 x, }
msg_type @lengthOf(
stringy	)	0 }

")).
Eval vm_compute in ("<<<M2263>>>" ++ check (runes_of_ascii "MetaData Packet { }packet	asx  { @lengthOf( asx) u64`crlf
line`
,
    }
    packet x	{uint32// @lengthOf(
rootA	,u32 options1 `say ""hi""` , @tag( 7
    )// packet A { u8 x, }
msg_type @lengthOf(
stringy	)	, }

")).
Eval vm_compute in ("<<<M2355>>>" ++ check (runes_of_ascii "MetaData Packet { }packet	asx  { @lengthOf( asx) falsey`crlf
line`
,
    }
    packet x	{uint32// @lengthOf(
rootA	,u32 options1 `say ""hi""` , @tag( 7
    )// packet A { u8 x, }
msg_type @lengthOf(
	)	, }

")).
Eval vm_compute in ("<<<M33>>>" ++ check (runes_of_ascii "packet BodyLength{//	t
x
f32a
    `line1
line2`
,
@calculatedFrom( ""a\\""
)@lengthOf(
repeatCount
) i8 Header
    `{ , }` ,float64	leftPad@calculatedFrom(	""\" ++ [233]%N ++ runes_of_ascii """)
,@calculatedFrom(  ""1"") uint64 o, } 	 ")).
Eval vm_compute in ("<<<M174>>>" ++ check (runes_of_ascii "packet  f32a
    {//
match
//x
//
o
    // trailing space 
    as As { 10: //
roots
,// " ++ [27880; 37322]%N ++ runes_of_ascii "
[
255 // a // b
, 42 ,
    10 ,  00 ]:
    matchKey ,
} ,
}
    options { u128 = 65535 Packet = 3
;
}")).
Eval vm_compute in ("<<<M3425>>>" ++ check (runes_of_ascii "// top
packet
    // c0
Inner { // c2a
  // c2b
u8 a // c4a
  // c4b
, } root
    // c7
packet // c8a
  // c8b
P // c9
{ // c10
Inner ref_obj , u8 x
    // c15
,
    // c16
}
    // c17
")).
Eval vm_compute in ("<<<M3899>>>" ++ check (runes_of_ascii "// @lengthOf(
MetaData pack {
    char[255] options1,
    uint64 lengthOf,
    int32 roots,
}

root packet Packet {
    // c
    @calculatedFrom(""{,}"")
    string zchar `" ++ [28040; 24687; 31867; 22411]%N ++ runes_of_ascii "`,
}")).
Eval vm_compute in ("<<<M960>>>" ++ check (runes_of_ascii "// packet A { u8 x, }
packet  BodyLength  {
    @tag( 255 ) repeat
uint64 f32a
    , }packet
chars { }
MetaData zchar { char[] tag`a\` ,
    body Logon `tab	here`	, }
")).
Eval vm_compute in ("<<<M374>>>" ++ check (runes_of_ascii "
packet
// " ++ [27880; 37322]%N ++ runes_of_ascii "
// c
MetaDataX
{ repeat repeatCount i64_ , T `crlf
line`,	}packet As
    {
    @tag( 10
) @lengthOf(
    u8x
//
// @lengthOf(
) zchar[ 7 ] Foo , }
")).
Eval vm_compute in ("<<<M3569>>>" ++ check (runes_of_ascii "packet A {
    match k as n {
        [
            1, 22, ""c c"", 4, 5,
            ""f"", 7, 8, ""i"", 10,
            11
        ] : B,
        2 : C,
    },
}")).
Eval vm_compute in ("<<<M3476>>>" ++ check (runes_of_ascii "packet
A

{ u8

    a
    ,

}
	packet
B
{
u16 b
,
    }
    root
packet P{
u8
K  ,match K	as M
	{
[ 1 ,
	2
] : A , 3	: B , 
7 
:	A, 
} , }
")).
Eval vm_compute in ("<<<M215>>>" ++ check (runes_of_ascii "MetaData tag { zchar[ // a // b
007 ]BodyLength ``
    // packet A { u8 x, }
    , } root packet MetaDataX {
string_
    @lengthOf(
Header) ,}
")).
Eval vm_compute in ("<<<M778>>>" ++ check (runes_of_ascii "root
    packet leftPad
{ @tag( 65535) tag
Pad, char[] o
    @lengthOf( float) , }packet
//
//	t
A {char[] T @lengthOf(
    packetx ),  }
")).
Eval vm_compute in ("<<<M3660>>>" ++ check (runes_of_ascii "
options 
{ tag
    =
    ""// no comment""	/// triple

calculatedFrom
= 10
	Packet  
  // `tick` ""quote"" 'q'
      =  '0'

;}
// a // b")).
Eval vm_compute in ("<<<M1700>>>" ++ check (runes_of_ascii "root packet /// triple
rootA {	i32
MetaDataX@calculatedFrom( ""CRC32"" ) `line1
line2` , } MetaData BodyLength {
""a\\""
rootA, } // c")).
Eval vm_compute in ("<<<M1728>>>" ++ check (runes_of_ascii "root packet /// triple
root%A {	i32
MetaDataX@calculatedFrom( ""CRC32"" ) `line1
line2` , } MetaData BodyLength {
u8
rootA, } // c")).
Eval vm_compute in ("<<<M1672>>>" ++ check (runes_of_ascii "root packet /// triple
rootA {	i32
MetaDataX@calculatedFrom( ""CRC32"" ) `line1
line2`  } MetaData BodyLength {
u8
rootA, } // c")).
Eval vm_compute in ("<<<M1831>>>" ++ check (runes_of_ascii "packet
    Pad // a // b
{ i8i8 @calculatedFrom( ""a	b"") `u8 x,` ,
} options options{ float// " ++ [128512]%N ++ runes_of_ascii " emoji
= f64 i64_
=//	t
00 }
")).
Eval vm_compute in ("<<<M3687>>>" ++ check (runes_of_ascii "packet
    A
{  match
k  as n
	{

[ 1 
,
    22  ,	""c c""  ,4
    , 
5  ,

    ""f""  ,
	7, 
8

    ]	:B, 2
    :C} ,
}
")).
Eval vm_compute in ("<<<M4502>>>" ++ check (runes_of_ascii "packet uint8x {
    char[7] stringy @calculatedFrom(""a\""b"") `tab	here`,// c
    @calculatedFrom(""abc"")
    Logon roots,
}")).
Eval vm_compute in ("<<<M1885>>>" ++ check (runes_of_ascii "packet
    Pad // a // b
{ i8i8 @calculatedFrom( ""a	b"") `u8 x,` ,
} options{ float// " ++ [128512]%N ++ runes_of_ascii " emoji
= f64 i64_
=//	t
$ 00 }
")).
Eval vm_compute in ("<<<M790>>>" ++ check (runes_of_ascii "// @lengthOf(
packet u128
    // `tick` ""quote"" 'q'
    { char[ 0123456789 // " ++ [27880; 37322]%N ++ runes_of_ascii "
]A @lengthOf( Packet  ) `u8 x,`, }
")).
Eval vm_compute in ("<<<M1810>>>" ++ check (runes_of_ascii "packet
    Pad // a // b
{ i8i8 @calculatedFrom( ""a	b"" `u8 x,` ,
} options{ float// " ++ [128512]%N ++ runes_of_ascii " emoji
= f64 i64_
=//	t
00 }
")).
Eval vm_compute in ("<<<M691>>>" ++ check (runes_of_ascii "packet o
{ } packet  MetaDataX{
} root packet u8x {MetaDataX @calculatedFrom(""\n"" ) ,
    } // packet A { u8 x, }")).
Eval vm_compute in ("<<<M574>>>" ++ check (runes_of_ascii "options
{ x_y_z = /// triple
i32 ; } MetaData
_x
{
    //x
    chars Foo // `tick` ""quote"" 'q'
,i32 Header ,}
")).
Eval vm_compute in ("<<<M3704>>>" ++ check (runes_of_ascii "packet	Logon{	@tag(42 )  @rightPad
    (  ' ')

@leftPad () repeat
trueish
{string	T	// c
	,
	}
,

    }")).
Eval vm_compute in ("<<<M4248>>>" ++ check (runes_of_ascii "packet calculatedFrom {
    @tag(4294967296)
    u msg_type,
    char[3] crc @lengthOf(len) `u8 x,`,
}// c")).
Eval vm_compute in ("<<<M3337>>>" ++ check (runes_of_ascii "// c
packet calculatedFrom { @tag( 4294967296 ) u msg_type , char[ 3 ] crc @lengthOf( len ) `u8 x,` , }")).
Eval vm_compute in ("<<<M3370>>>" ++ check (runes_of_ascii "packet calculatedFrom { @tag( 4294967296 ) u msg_type , char[ 3 ] crc @lengthOf( len )
// c
`u8 x,` , }")).
Eval vm_compute in ("<<<M4286>>>" ++ check (runes_of_ascii "packet o {
    // c
    @tag(42)
    repeat x {
        char[0123456789] i64_,
    },
}

options {
}")).
Eval vm_compute in ("<<<M2967>>>" ++ check (runes_of_ascii "packet A {
  match k as n {
    [1, ""bb"", 007, ""d"", 5, ""f"", 7, ""h"", 9, ""j""] : B,
    2 : C
  },
}")).
Eval vm_compute in ("<<<M2956>>>" ++ check (runes_of_ascii "packet A {
  match k as n {
    [""a"", 22, ""c c"", 4, ""e"", 66, ""g"", 8, ""i""] : B,
    2 : C
  },
}")).
Eval vm_compute in ("<<<M3246>>>" ++ check (runes_of_ascii "packet Logon { @tag( 42 ) @rightPad ( ' ' ) @leftPad ( ) repeat trueish { // c
string T , } , }")).
Eval vm_compute in ("<<<M2976>>>" ++ check (runes_of_ascii "packet A {
  match k as n {
    [1, 22, 007, 4, 5, 66, 7, 8, 9, 10, 11] : B,
    2 : C
  },
}")).
Eval vm_compute in ("<<<M966>>>" ++ check (runes_of_ascii "
MetaData
    Logon{
u16 i64_,float calculatedFrom , u16 Header, zchar[  255]  x_y_z, }
")).
Eval vm_compute in ("<<<M555>>>" ++ check (runes_of_ascii "
options {
    len
= char[
10 ]
    asx =
false
; string_ = """"; } // `tick` ""quote"" 'q'")).
Eval vm_compute in ("<<<M4134>>>" ++ check (runes_of_ascii "
packet  Z9_
{

} // a // b
	  root packet

    roots
    { 
        /// triple
	}")).
Eval vm_compute in ("<<<M1978>>>" ++ check (runes_of_ascii "root
packet crc
    { @calculatedFrom( f32a """ ++ [233]%N ++ runes_of_ascii "t" ++ [233]%N ++ runes_of_ascii """ )
    `say ""hi""`, lengthOf `` ,  }")).
Eval vm_compute in ("<<<M3426>>>" ++ check (runes_of_ascii "
packet	Inner	{u8 a
,
}
	root
    packet 
P

    { 
Inner 
ref_obj
,
u8

x , 
}
")).
Eval vm_compute in ("<<<M4316>>>" ++ check (runes_of_ascii "
options

{ }

    packet
    string_
	{@rightPad (	'0'  // c
	) u16	body , }

")).
Eval vm_compute in ("<<<M3313>>>" ++ check (runes_of_ascii "packet o { @tag( 42 ) repeat x { char[
// c
0123456789 ] i64_ , } , } options { }")).
Eval vm_compute in ("<<<M2908>>>" ++ check (runes_of_ascii "packet A {
  match k as n {
    [""a"", ""bb"", 007, ""d"", ""e""] : B,
    2 : C
  },
}")).
Eval vm_compute in ("<<<M2904>>>" ++ check (runes_of_ascii "packet A {
  match k as n {
    [""a"", 22, ""c c"", 4, ""e""] : B,
    2 : C
  },
}")).
Eval vm_compute in ("<<<M2911>>>" ++ check (runes_of_ascii "packet A {
  match k as n {
    [1, 22, 007, 4, 5, 66] : B,
    2 : C
  },
}")).
Eval vm_compute in ("<<<M687>>>" ++ check (runes_of_ascii "packet asx
{
metadata// a // b
@calculatedFrom( ""// no comment"" ) ,
}

")).
Eval vm_compute in ("<<<M2893>>>" ++ check (runes_of_ascii "packet A {
  match k as n {
    [1, 22, ""c c"", 4] : B,
    2 : C
  },
}")).
Eval vm_compute in ("<<<M3405>>>" ++ check (runes_of_ascii "MetaData _x { zchar[ 4294967296 ] // c
lengthOf `// not a comment` , }")).
Eval vm_compute in ("<<<M1204>>>" ++ check (runes_of_ascii "packet
    tag
{ //
@tag(
    007)
@tag( 007 ) u T `it's`, }
// c
")).
Eval vm_compute in ("<<<M2274>>>" ++ check (runes_of_ascii "MetaData Packet { }packet	asx  { @lengthOf( asx) falsey`crlf
line`")).
Eval vm_compute in ("<<<M322>>>" ++ check (runes_of_ascii "root packet matchKey { } packet msg_type{	char[ 65535]
falsey ,}
")).
Eval vm_compute in ("<<<M1287>>>" ++ check (runes_of_ascii "MetaData falsey{ // a // b
char[]	pack ,string int `u8 x,` , }
")).
Eval vm_compute in ("<<<M2742>>>" ++ check (runes_of_ascii "[ ) repeatCount repeat float32 { uint8 int16 ""it's"" int64 : ;")).
Eval vm_compute in ("<<<M3430>>>" ++ check (runes_of_ascii "root packet P {
    hdr {
        u8 a,
    },
    u8 x,
}
")).
Eval vm_compute in ("<<<M1945>>>" ++ check (runes_of_ascii "
packet	As { @calculatedFrom(//x
" ++ [8232]%N ++ runes_of_ascii " ""{,}""	)lengthOf , } 	 ")).
Eval vm_compute in ("<<<M629>>>" ++ check (runes_of_ascii "options  { options1 =
    65535
    ; msg_type= u64} 	 ")).
Eval vm_compute in ("<<<M1928>>>" ++ check (runes_of_ascii "
packet	As { @calculatedFrom(//x
""{,}""	)char[] , } 	 ")).
Eval vm_compute in ("<<<M1759>>>" ++ check (runes_of_ascii "options { }options '\x00'  } // `tick` ""quote"" 'q'")).
Eval vm_compute in ("<<<M2419>>>" ++ check (runes_of_ascii "MetaData A
{
i64
chars	, }# // `tick` ""quote"" 'q'")).
Eval vm_compute in ("<<<M1757>>>" ++ check (runes_of_ascii "options { }options { {  } // `tick` ""quote"" 'q'")).
Eval vm_compute in ("<<<M1774>>>" ++ check (runes_of_ascii "options { }options {  ~} // `tick` ""quote"" 'q'")).
Eval vm_compute in ("<<<M4133>>>" ++ check (runes_of_ascii "

  MetaData
    BodyLength  //	t
	{
    }
")).
Eval vm_compute in ("<<<M2754>>>" ++ check (runes_of_ascii "options1 : int64 match @lengthOf( 007 65535")).
Eval vm_compute in ("<<<M2144>>>" ++ check (runes_of_ascii "Met'1'aData x
{// " ++ [128512]%N ++ runes_of_ascii " emoji
i16 stringy , }")).
Eval vm_compute in ("<<<M2609>>>" ++ check (runes_of_ascii "packet A { match k as n { [[1]] : B }, }")).
Eval vm_compute in ("<<<M561>>>" ++ check (runes_of_ascii "options{ repeatCount =007 ;} /// triple")).
Eval vm_compute in ("<<<M2126>>>" ++ check (runes_of_ascii "MetaData x
{// " ++ [128512]%N ++ runes_of_ascii " emoji
i16 stringy } ,")).
Eval vm_compute in ("<<<M2695>>>" ++ check ([65533]%N ++ runes_of_ascii "-" ++ [20; 65533]%N ++ runes_of_ascii "?" ++ [65533; 65533]%N ++ runes_of_ascii "&" ++ [65533]%N ++ runes_of_ascii "G" ++ [65533]%N ++ runes_of_ascii "i" ++ [65533; 8; 65533; 65533]%N ++ runes_of_ascii "*b2" ++ [65533; 65533]%N ++ runes_of_ascii "(" ++ [65533; 65533]%N ++ runes_of_ascii "~" ++ [65533; 65533]%N ++ runes_of_ascii "]n" ++ [65533; 65533; 65533; 65533; 12465]%N ++ runes_of_ascii "4E" ++ [20]%N)).
Eval vm_compute in ("<<<M2558>>>" ++ check (runes_of_ascii "packet A { repeat x @lengthOf(y), }")).
Eval vm_compute in ("<<<M2151>>>" ++ check (runes_of_ascii "MetaData x
{// " ++ [128512]%N ++ runes_of_ascii " emoji
i16 " ++ [21517; 23383]%N ++ runes_of_ascii " , }")).
Eval vm_compute in ("<<<M51>>>" ++ check (runes_of_ascii "options
{ string_ = //	t
007 }
")).
Eval vm_compute in ("<<<M2853>>>" ++ check (runes_of_ascii "$+K" ++ [807]%N ++ runes_of_ascii "j6N" ++ [31; 65533]%N ++ runes_of_ascii "x" ++ [65533; 65533; 65533]%N ++ runes_of_ascii "+" ++ [65533]%N ++ runes_of_ascii "d" ++ [15; 65533]%N ++ runes_of_ascii "m" ++ [65533; 23]%N ++ runes_of_ascii "+" ++ [24; 1; 65533; 65533; 65533]%N ++ runes_of_ascii "cb" ++ [65533]%N)).
Eval vm_compute in ("<<<M3008>>>" ++ check (runes_of_ascii "packet A {
    u8 x `a
b`,
}")).
Eval vm_compute in ("<<<M849>>>" ++ check (runes_of_ascii "
options	{ falsey = """" ; }
")).
Eval vm_compute in ("<<<M2072>>>" ++ check (runes_of_ascii "MetaData A { u64 pack, , }")).
Eval vm_compute in ("<<<M2099>>>" ++ check (runes_of_ascii "MetaData A { u64 na" ++ [239]%N ++ runes_of_ascii "ve, }")).
Eval vm_compute in ("<<<M2073>>>" ++ check (runes_of_ascii "MetaData A { u64 pack} ,")).
Eval vm_compute in ("<<<M225>>>" ++ check (runes_of_ascii "packet
    matchKey{ }
")).
Eval vm_compute in ("<<<M1299>>>" ++ check (runes_of_ascii "  packet f32a {
    }
")).
Eval vm_compute in ("<<<M2857>>>" ++ check ([65533; 65533]%N ++ runes_of_ascii "0" ++ [65533; 65533; 65533; 65533]%N ++ runes_of_ascii "%?" ++ [65533; 11]%N ++ runes_of_ascii "h" ++ [65533; 65533]%N ++ runes_of_ascii "p" ++ [65533; 65533]%N ++ runes_of_ascii "|" ++ [65533; 65533; 65533]%N)).
Eval vm_compute in ("<<<M563>>>" ++ check (runes_of_ascii "
root
packet o {}")).
Eval vm_compute in ("<<<M585>>>" ++ check (runes_of_ascii "MetaData
float {}
")).
Eval vm_compute in ("<<<M3096>>>" ++ check (runes_of_ascii "packet A {
}
// c" ++ [8232]%N)).
Eval vm_compute in ("<<<M2632>>>" ++ check (runes_of_ascii "packet A { } // c")).
Eval vm_compute in ("<<<M1975>>>" ++ check (runes_of_ascii "root
packet crc")).
Eval vm_compute in ("<<<M3157>>>" ++ check (runes_of_ascii "

  packet A {}")).
Eval vm_compute in ("<<<M2410>>>" ++ check (runes_of_ascii "MetaData A
{")).
Eval vm_compute in ("<<<M2833>>>" ++ check (runes_of_ascii "x" ++ [65533; 27; 65533; 65533]%N ++ runes_of_ascii "c" ++ [65533; 65533; 65533]%N ++ runes_of_ascii "T")).
Eval vm_compute in ("<<<M2461>>>" ++ check (runes_of_ascii "repeats")).
Eval vm_compute in ("<<<M191>>>" ++ check (runes_of_ascii "//


")).
Eval vm_compute in ("<<<M3085>>>" ++ check (runes_of_ascii "// c" ++ [8192]%N)).
Eval vm_compute in ("<<<M2524>>>" ++ check (runes_of_ascii "0x10")).
Eval vm_compute in ("<<<M2541>>>" ++ check (runes_of_ascii "a	b")).
Eval vm_compute in ("<<<M2681>>>" ++ check (runes_of_ascii "		")).
