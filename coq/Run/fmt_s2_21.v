From FP Require Import Lexer Parser ShowPT Digest Formatter.
From Coq Require Import String List NArith.
Import ListNotations.
Open Scope string_scope.
Set Printing Width 100000000.
Set Printing Depth 100000000.
Definition show_fres (r : fres) : string :=
  match r with
  | FOk s => "OK:" ++ sh_escaped s ""
  | FErr s => "ERR:" ++ sh_escaped s ""
  | FPanic p => "PANIC:" ++ p
  end.
Definition check (rs : list rune) : string := digest (show_fres (format_res rs)).
Definition full (rs : list rune) : string := show_fres (format_res rs).
Eval vm_compute in ("<<<M1205>>>" ++ check (runes_of_ascii "packet  options1 { i8 leftPad
// c
// " ++ [128512]%N ++ runes_of_ascii " emoji
`say ""hi""` , @tag(
4294967296 )
repeat  zchar[7]Pad, @leftPad ('\x00' ) As
`u8 x,` ,
falsey @calculatedFrom(""x y"" )  ,
// `tick` ""quote"" 'q'
//x
pack `say ""hi""` , x { match Header
as
charz // trailing space 
{ 00
// `tick` ""quote"" 'q'
// " ++ [128512]%N ++ runes_of_ascii " emoji
: a1
    , }	,
repeat char[
    // packet A { u8 x, }
    0123456789
    ]
    rootA `line1
line2` ,
    uint64
tag `" ++ [28040; 24687; 31867; 22411]%N ++ runes_of_ascii "`,
f32 Z9_ , // c
},
    @leftPad
(
)
@leftPad (
'\x00'
) float32 tag // @lengthOf(
,
    repeat
f32 T//x
`" ++ [28040; 24687; 31867; 22411]%N ++ runes_of_ascii "` , @lengthOf( chars )@calculatedFrom(""" ++ [128512]%N ++ runes_of_ascii """ )
    @calculatedFrom( ""a	b""
) match calculatedFrom as packetx{""\n"" :
    trueish , [ """" , 007 // " ++ [128512]%N ++ runes_of_ascii " emoji
]// trailing space 
: packetx,""// no comment""
    : packetx
[ 7
, 0123456789
] : pack """ ++ [233]%N ++ runes_of_ascii "t" ++ [233]%N ++ runes_of_ascii """: Packet // trailing space 
} // `tick` ""quote"" 'q'
,@calculatedFrom( ""\n""
) //x
repeat u16 As, } root packet
uint8x {
    @lengthOf(stringy )	string
a1 ,
// a // b
// 50% %s
int16 i64_ `" ++ [28040; 24687; 31867; 22411]%N ++ runes_of_ascii "`
, int16 Logon @calculatedFrom(
""// no comment"" // packet A { u8 x, }
) , MetaDataX MetaDataX
`it's` , i64_ , match matchKey as
zchar
    {""1""
    : As [
0 ]
:
    f32a , [ ""x y"" ]: body,	""it's"" :  _x
    , /// triple
[ """ ++ [28040; 24687]%N ++ runes_of_ascii """	,
007 ]
: matchKey	""x y""  : x_y_z ,} ,@calculatedFrom( // " ++ [128512]%N ++ runes_of_ascii " emoji
""" ++ [128512]%N ++ runes_of_ascii """
)
    int64 o
@lengthOf( body ), // `tick` ""quote"" 'q'
asx { chars
`say ""hi""`//x
,
i64 falsey , i8 zchar
`two words`,
char[ 255
]tag @calculatedFrom(
""""
) , } , char[] Pad@lengthOf(
    charz )`
` ,
@tag( 007 )@tag( 255 ) repeat u64 x ,} packet metadata
    {
    match BodyLength
as u128 { 4294967296
:trueish
    ,
    10 :
    _x ""a\""b"" : int, 007 : Logon	, """ ++ [233]%N ++ runes_of_ascii "t" ++ [233]%N ++ runes_of_ascii """: Z9_
, // trailing space 
[42
    //x
    , 00 ]:
    // packet A { u8 x, }
    u128 }	, zchar[0123456789 ] chars `a\` ,
    match // a // b
trueish as tag  { // @lengthOf(
0  :
zchar ,
    // @lengthOf(
    }
, zchar[ 4294967296 ]  lengthOf, asx @lengthOf( tag ) //x
,char[ 65535
] u
@lengthOf(x_y_z// " ++ [128512]%N ++ runes_of_ascii " emoji
)
`two words` // 50% %s
,
    _x
@calculatedFrom( """ ++ [233]%N ++ runes_of_ascii "t" ++ [233]%N ++ runes_of_ascii """) `{ , }` ,
@tag( 3 //x
) zchar[255 ] Header`` , float32 crc , Z9_ @lengthOf(body	) `two words`,
    }  root packet
    f32a{	@rightPad (
    )
    string u8x `say ""hi""` , } options  { }
")).
Eval vm_compute in ("<<<M3819>>>" ++ check (runes_of_ascii "
packet 
BodyLength {
repeat char[65535	]

repeatCount , 
}packet  T{

    @lengthOf(
matchKey
)

f64
float 
@lengthOf(	int ) , repeat

    u16 	 //x
    	Z9_ , repeat
char[0

    ] falsey
, }
root

packet 
trueish  {

repeat

    uint64
i8i8
`" ++ [28040; 24687; 31867; 22411]%N ++ runes_of_ascii "`	// trailing space 
  	,
@tag(
	10

    )
        /// triple
  zchar[ 
10

    ]  uint8x	,@calculatedFrom( 	 //

""{,}""

) 
@tag( 1
)@calculatedFrom(""CRC32""

    )

match 	 // trailing space 
Packet as matchKey

    {
    0
	:
tag ,

    65535 :
options1 ,

    }
    ,repeat u

{
	calculatedFrom 
@calculatedFrom(	//x
	""\n""

) 
        // " ++ [27880; 37322]%N ++ runes_of_ascii "
	// " ++ [27880; 37322]%N ++ runes_of_ascii "
	`100% of %d` 
,

string x
@lengthOf(
	zchar
)
    `100% of %d`
, match

    MetaDataX	as 
Logon
    {
0
    :  /// triple
  T ,
	42	: 	 // @lengthOf(

A
    3	: 
rootA 
65535 
:x_y_z,

} 
,	char[]
packetx @calculatedFrom(

    """ ++ [233]%N ++ runes_of_ascii "t" ++ [233]%N ++ runes_of_ascii """ 
)
,

    }

,
x  // " ++ [27880; 37322]%N ++ runes_of_ascii "
    `
` ,	repeat 	 // 50% %s
Pad	{ 
  // 50% %s
// packet A { u8 x, }
zchar[1 ]
A	@lengthOf(
Z9_

    ) ,
    metadata	{
repeat packetx
a1

,
    u16
    // a // b
    // packet A { u8 x, }
	  string_//	t
    `tab	here`  ,Foo `u8 x,`
,
	}
    ,/// triple

match  i64_ as
    msg_type {1 :
// trailing space 
	  //
		msg_type 
,	3

:rootA 
,

    65535 :
As ,
    }
	,	string

Z9_@lengthOf(	// c

MetaDataX)
,
	} ,
MetaDataX

{f64

packetx , repeat char
Z9_	,

    u8x i8i8 , 
}	,

    uint8 i64_

    `// not a comment`,
    @lengthOf(_x	)
BodyLength, 
stringy 
{  repeat
    zchar[ 0123456789
]	i8i8// " ++ [128512]%N ++ runes_of_ascii " emoji
  , },
}
root
packet float// `tick` ""quote"" 'q'
    { 	 // packet A { u8 x, }
@lengthOf(
_x ) o	@calculatedFrom( ""{,}""
    ) 
	    //

//x
`line1
line2` ,

    } ")).
Eval vm_compute in ("<<<M727>>>" ++ check (runes_of_ascii "root packet
    /// triple
    tag { repeat uint8x {
    char[]
Header @lengthOf( zchar
)
`crlf
line`
    // `tick` ""quote"" 'q'
    , } ,  repeat
    i64 len , repeat leftPad
    {zchar[7 ] // trailing space 
As ,repeat char[] msg_type
,
}
// c
// `tick` ""quote"" 'q'
,match o
as leftPad { [ """ ++ [233]%N ++ runes_of_ascii "t" ++ [233]%N ++ runes_of_ascii """]
    :len
    ,00
:Packet ""`tick`"" : charz
,
3 :
    // " ++ [27880; 37322]%N ++ runes_of_ascii "
    Packet
    , //
""1"":
    a1
    /// triple
    , }
,
    //
    match uint8x as i64_ { 3 :// a // b
o
    ,// packet A { u8 x, }
}
,string roots ,
/// triple
// `tick` ""quote"" 'q'
@rightPad (	' ' )
falsey @lengthOf(  T
    ) ,
} options {
i64_ = 3 }root packet Header {
len{ T
@calculatedFrom( // " ++ [27880; 37322]%N ++ runes_of_ascii "
""a	b""
    ) , string x
@lengthOf( Header )  ``
, }  ,calculatedFrom
@calculatedFrom(""" ++ [233]%N ++ runes_of_ascii "t" ++ [233]%N ++ runes_of_ascii """ ) `a\`  ,
@leftPad ( )
    //
    @tag( 3
) calculatedFrom { i32
repeatCount ,
    } , @calculatedFrom( """ ++ [233]%N ++ runes_of_ascii "t" ++ [233]%N ++ runes_of_ascii """ )zchar[ 65535] lengthOf , i8
len
@lengthOf( x_y_z
    ) , repeat
i8 trueish ,
    tag,//
u8 roots
    @calculatedFrom(// " ++ [27880; 37322]%N ++ runes_of_ascii "
""" ++ [128512]%N ++ runes_of_ascii """ ) ,
pack  stringy `
`
    // @lengthOf(
    ,@calculatedFrom( ""x y"" ) A , }
packet repeatCount
{ repeat len
    {
    repeat zchar[ 00
    //
    ] BodyLength,
    char[]  a1
    `it's`// `tick` ""quote"" 'q'
,repeat
    char[] Logon ,
} , msg_type {matchKey // packet A { u8 x, }
, },  @calculatedFrom(""a	b""
    )
repeat
asx
rootA , @calculatedFrom(
""" ++ [128512]%N ++ runes_of_ascii """	) @calculatedFrom( """ ++ [233]%N ++ runes_of_ascii "t" ++ [233]%N ++ runes_of_ascii """ ) repeat string repeatCount`two words` ,u8 stringy ,zchar[ 00] _x
    `tab	here`
, //x
}
")).
Eval vm_compute in ("<<<M3975>>>" ++ check (runes_of_ascii "MetaData 
    // a // b

	falsey
{
    // `tick` ""quote"" 'q'
      zchar[ 
7
	] BodyLength

`100% of %d` 

// packet A { u8 x, }
  , 
}  MetaData

    options1
{
	stringy options1

, 
u16
float 
,
    f64

leftPad	,	} 
packet 
crc
{ @calculatedFrom( 
""a\""b""
	)

repeat a1
{zchar[  007  ]x
	@lengthOf(
    rootA ),
}
, 
}
    packet float  { string falsey  ,

char[ 255 ]
    BodyLength
	,
zchar[
10]

    Logon ,
string_ { u16	// 50% %s
    Foo @lengthOf(
	u  // " ++ [128512]%N ++ runes_of_ascii " emoji
)
,zchar[ 
1  // a // b
    ]
A	// packet A { u8 x, }
``
    ,	int16 Logon 
`two words`	, }

,@rightPad
	(
'\x00' ) i8
    metadata
	@calculatedFrom(""a	b""
	) 
`crlf
line`
,
	} packet

falsey	{

    //	t
Header
    _x
,string A 
@lengthOf(	Z9_

) `
`,	match zchar as  stringy
    {
	0: 
        /// triple
_x

    , }
	, @leftPad

(  '\x00' )A

    Header
`doc`

    ,

    @calculatedFrom(  // " ++ [128512]%N ++ runes_of_ascii " emoji
""// no comment""

    )
    @calculatedFrom(	""abc""  )
@calculatedFrom(""a\""b""
)	match
	MetaDataX as
    A
	{ 
      // c
    ""a\\""
	:
len
	,}  //x
    , 
	    // @lengthOf(

	// `tick` ""quote"" 'q'
msg_type matchKey
`// not a comment` 

    /// triple
	// `tick` ""quote"" 'q'

, 
BodyLength  ,@lengthOf(
roots) repeat
    u16 lengthOf `crlf
line`

    ,  Header@calculatedFrom( ""a	b""
	)
`crlf
line` ,	}
")).
Eval vm_compute in ("<<<M1229>>>" ++ check (runes_of_ascii "
MetaData
    // a // b
    falsey {
    // `tick` ""quote"" 'q'
    zchar[7 ] BodyLength `100% of %d`
    // packet A { u8 x, }
    ,
    } MetaData options1 { stringy options1 ,u16 float
    , f64 leftPad , } packet crc { @calculatedFrom(	""a\""b"" )
repeat a1 { zchar[
    007
]	x @lengthOf(
    rootA ) , }	,  }
    packet
    float{  string falsey , char[ 255	]  BodyLength , zchar[10
] Logon
    , string_
{u16// 50% %s
Foo @lengthOf(u // " ++ [128512]%N ++ runes_of_ascii " emoji
)
,
    zchar[
1 // a // b
] A// packet A { u8 x, }
`` , int16 Logon `two words` , }  ,
    @rightPad ( '\x00') i8
metadata @calculatedFrom( ""a	b"" ) `crlf
line` ,} packet falsey {
    //	t
    Header _x , string
    A @lengthOf( Z9_ )`
`  ,
    match zchar
    as
    stringy { 0 :
    /// triple
    _x ,
} , @leftPad
( '\x00' ) A Header
    `doc` , @calculatedFrom(// " ++ [128512]%N ++ runes_of_ascii " emoji
""// no comment"" ) @calculatedFrom( ""abc"" ) @calculatedFrom(
    ""a\""b"")match MetaDataX as
    A {
    // c
    ""a\\"" : len , }//x
,
// @lengthOf(
// `tick` ""quote"" 'q'
msg_type
matchKey `// not a comment`
/// triple
// `tick` ""quote"" 'q'
, BodyLength, @lengthOf( roots
    ) repeat u16
    lengthOf
`crlf
line`,
    Header@calculatedFrom( ""a	b""
) `crlf
line`
    ,
} 	 ")).
Eval vm_compute in ("<<<M4254>>>" ++ check (runes_of_ascii "packet chars {
    zchar[1] u8x @lengthOf(uint8x),
    @calculatedFrom(""{,}"")
    roots `say ""hi""`,
    int8 asx `{ , }`,
    // `tick` ""quote"" 'q'
    // trailing space 
    @calculatedFrom(""a\""b"")
    //x
    i8 _x `// not a comment`,
}

root packet metadata {
    //x
    zchar[3] u128 @calculatedFrom(""a\""b"") `two words`,
    @rightPad(' ')
    @calculatedFrom(""// no comment"")
    @lengthOf(Logon)
    char[] Packet,
    @rightPad('0')
    trueish matchKey `line1
    line2`,
    @tag(65535)
    @lengthOf(f32a)
    @tag(0123456789)
    match zchar as falsey {
        10 : len,
        [
            """ ++ [128512]%N ++ runes_of_ascii """, ""a	b"", ""CRC32"", ""x y"", 3,
            7, ""\" ++ [233]%N ++ runes_of_ascii """, 7
        ] : options1,
        ""\n"" : Packet,
        0 : float,
        """ ++ [28040; 24687]%N ++ runes_of_ascii """ : zchar,
        4294967296 : Packet,
    },
    zchar[0123456789] lengthOf,
    zchar {
        zchar[0] Z9_,
    },
    float `it's`,
    repeat Z9_ {
        repeat options1,
        i32 As,
        // @lengthOf(
        string stringy @lengthOf(leftPad) `{ , }`,
        //
    },
    char[10] x,
}

root packet As {
    @tag(00)
    // `tick` ""quote"" 'q'
    repeat string i64_,
}// " ++ [27880; 37322]%N)).
Eval vm_compute in ("<<<M4483>>>" ++ check (runes_of_ascii "

  // top
options  // c0a
    // c0b
	{
// c1
  LittleEndian
    =

    false// c4
    	; StringPrefixLenType 	 // c6
  =u16  ; ArrayPrefixLenType 

// c10

	= // c11
u32 // c12a
	  // c12b
    	;	// c13
    FixedStringPadFromLeft	// c14a

// c14b
    =  true
	;  // c17a

// c17b

  FixedStringPadChar  // c18a
    	// c18b
	=  // c19a
    	// c19b
'0' ;	// c21
	} 	 // c22a
  	// c22b
packet	Quote 

    // c24
{ // c25
  repeat 
    // c26
    InSide284 { 
    // c28
	repeat// c29a
  // c29b
  string 
Acct
	// c31
  ,// c32a
	// c32b
int64	OrderId , // c35
}  // c36
, 
      // c37
uint8 
    // c38
	Px	// c39a
  // c39b
,  // c40
	int32  // c41a
  // c41b
lastPx
// c42

	, uint8

Flags
        // c45
,  // c46a
  // c46b

  }
    packet Fill
    {  // c50a
	// c50b
		f32 // c51a
	// c51b
  clOrdID	// c52
,
// c53
	  uint32 // c54
  msgKind 

// c55
	  ,  // c56a
// c56b

repeat	Quote	// c58
,}  // c60
  root 

// c61
packet
Trade	// c63a
	// c63b
{ 	 // c64a

// c64b
	string 
    // c65
    Acct	// c66

	,
	}

")).
Eval vm_compute in ("<<<M4494>>>" ++ check (runes_of_ascii "
//
MetaData
options1
	{float32 calculatedFrom 
, 	 //

  string_
calculatedFrom 
,

    char[]

msg_type

    ,
	char[ 
1  ] 
trueish	,
}

MetaData tag

{ 
char[]

stringy //	t
,
	} MetaData 
chars
{
uint32 
        // trailing space 
  //	t
  	string_
,
    char[ 4294967296
    ]	// 50% %s

  a1 
// " ++ [128512]%N ++ runes_of_ascii " emoji
  // " ++ [27880; 37322]%N ++ runes_of_ascii "
	`u8 x,`
, 
o

    Logon
`" ++ [233]%N ++ runes_of_ascii "`
    , zchar[ 
	//
    /// triple
    00 
]
	msg_type

, repeatCount 
matchKey  ,

}
    packet Foo

{ 
@tag(

    7
)

@tag(

    0)  roots
	a1
	,
    repeat	// c
    char[
    00

    ] asx 
// `tick` ""quote"" 'q'
	//

,repeat  float

, char[] falsey`crlf
line`
	,
	i8 u128 
, 
int8 chars @calculatedFrom( ""// no comment"" 

    // 50% %s
	  )
, }root
packet
    u128  { 
@lengthOf(

    Packet
	)i16

string_
    @lengthOf(
trueish )
`// not a comment` ,
    @leftPad 
  /// triple
  // `tick` ""quote"" 'q'

()
	u
	,@rightPad(

    ' '
) 
repeat /// triple
    T, @lengthOf(
	Z9_// c
  	)
	i32
float,
    }

")).
Eval vm_compute in ("<<<M756>>>" ++ check (runes_of_ascii "packet
    packetx
    { // trailing space 
@leftPad
    ( '0'
)
char[	65535 ]	body
,u32  x, match asx as Packet { 4294967296 :
Packet 3 : Pad
3 : repeatCount ,""{,}""
    : string_
, } , BodyLength,
match repeatCount
as uint8x { 0 :
    //	t
    BodyLength
,
    //x
    ""a\""b""
:
repeatCount //	t
, 7
    :
    // packet A { u8 x, }
    len// `tick` ""quote"" 'q'
, ""{,}"" :
Pad , 7 : pack, } , @calculatedFrom(""" ++ [233]%N ++ runes_of_ascii "t" ++ [233]%N ++ runes_of_ascii """) repeat x_y_z { u16 len `a\`
    , // @lengthOf(
}
    ,
@tag( 007 ) @leftPad
('0' ) match	options1 as float
{[""CRC32""
    , ""CRC32""]
    : x_y_z //	t
, 0 :
    tag // c
255	: Logon , 42:
    string_  } ,//x
repeat zchar[ 007
    ]u
,T{ char[]
asx , match trueish  as  A { ""1"":
    tag
    , [ ""{,}""
    , 7] : Logon, 4294967296: calculatedFrom	,""it's""
    : uint8x
, } ,
} , } options	{
u
= ""packet"";	}
    options { roots
=  ""`tick`"" int	= //	t
""""; Header= true; stringy
    =
' '// `tick` ""quote"" 'q'
;
    }
")).
Eval vm_compute in ("<<<M3535>>>" ++ check (runes_of_ascii "options {
    LittleEndian = false;
    StringPrefixLenType = u16;
    ArrayPrefixLenType = u8;
    FixedStringPadFromLeft = true;
    FixedStringPadChar = ' ';
}
packet Logon {
}
packet Reject {
    InPx48 {
        repeat string price,
        u32 msgKind,
        repeat InSide223 {
            Logon,
            repeat f64 Ref,
            string tag7,
        },
        InClordid8 {
            zchar[5] Qty,
            u64 x,
            repeat string lastPx,
        },
    },
    Logon,
    i16 lastPx,
    repeat char[5] clOrdID,
    zchar[2] Flags,
    repeat string Side2,
}
root packet Order {
    uint16 sym,
    zchar[8] Side2,
    repeat string clOrdID,
    string tag7,
    zchar[3] OrderId,
    zchar[4] seqNo,
    u32 f1,
    u32 Acct @lengthOf(Body),
    match f1 as Body {
        58 : Reject,
        180 : Logon,
    },
    u32 Px @calculatedFrom(""CR\
C32""),
}
")).
Eval vm_compute in ("<<<M1208>>>" ++ check (runes_of_ascii "packet o  { match
asx as u8x {[ ""x y"" ,//
""CRC32""  ,
""// no comment"" , ""a	b"" ,  ""abc"" ,// `tick` ""quote"" 'q'
""// no comment"" ] : Foo, } ,
int64 uint8x @lengthOf( T// trailing space 
) ,
char[ 4294967296//	t
]roots , // a // b
repeat Pad{ string
    zchar @lengthOf(
asx
) ,repeat
    lengthOf{
string u  @lengthOf(int) ,repeat float64 Packet
    , } ,
match uint8x as
rootA
{	1
    : o
, } , } ,// @lengthOf(
repeat char[65535
//
//x
]crc
    , @lengthOf( options1 ) string /// triple
Packet
    `crlf
line` , // `tick` ""quote"" 'q'
pack
    { u64  i64_`say ""hi""` , i32 a1 `say ""hi""` ,
    match Z9_
as
    // `tick` ""quote"" 'q'
    msg_type
    { 65535
: u
, [7 , 7 , 42 ,
""" ++ [28040; 24687]%N ++ runes_of_ascii """ ]  :asx, """ ++ [233]%N ++ runes_of_ascii "t" ++ [233]%N ++ runes_of_ascii """ :_x , [ 255 ]
// 50% %s
// trailing space 
:	metadata, } ,i32 T
    `" ++ [28040; 24687; 31867; 22411]%N ++ runes_of_ascii "`
,
} ,
    //
    uint32 rootA,
    @tag(  007
    )	repeat
f64 pack
    , }")).
Eval vm_compute in ("<<<M120>>>" ++ check (runes_of_ascii "//
MetaData	options1{
    float32 calculatedFrom	, //
string_ calculatedFrom ,
char[] msg_type , char[ 1
] trueish , }
MetaData	tag { char[] stringy//	t
,} MetaData chars{ uint32
// trailing space 
//	t
string_ ,char[	4294967296 ]// 50% %s
a1
// " ++ [128512]%N ++ runes_of_ascii " emoji
// " ++ [27880; 37322]%N ++ runes_of_ascii "
`u8 x,`
, o	Logon `" ++ [233]%N ++ runes_of_ascii "`, zchar[
//
/// triple
00] msg_type ,
repeatCount matchKey , } packet Foo	{ @tag(
7)
    @tag(0  ) roots
a1
    ,repeat // c
char[
00  ] asx
// `tick` ""quote"" 'q'
//
, repeat float , char[]	falsey  `crlf
line` ,
i8 u128	,
int8 chars
@calculatedFrom( ""// no comment""
    // 50% %s
    ) , }root
packet  u128 {
    @lengthOf( Packet
)
i16 string_ @lengthOf(trueish ) `// not a comment`, @leftPad
/// triple
// `tick` ""quote"" 'q'
(
    ) u  ,  @rightPad ( ' '
)	repeat /// triple
T ,
    @lengthOf( Z9_ // c
) i32 float,	}
")).
Eval vm_compute in ("<<<M4190>>>" ++ check (runes_of_ascii "// top
    MetaData
// c0
Pad 
	    // c1
	{
        // c2
x_y_z 
  // c3

a1 
// c4
  ,

// c5

int8 
// c6
		trueish 
  // c7
	  `two words`  
      // c8
, 
    // c9
    char[] 
    // c10
	x_y_z
        // c11
    	`{ , }`

    // c12
  ,
    // c13
	zchar[ 
  // c14
	  1 
	    // c15
    ] 

    // c16
    pack 
        // c17
`
` 

// c18
		, 
    // c19
	  len
// c20
i64_ 
    // c21

	, 
	    // c22

  }
    // c23
  MetaData 
    // c24
crc 
        // c25
      {
    // c26
	  zchar[
	    // c27
  7 
        // c28
  	] 
    // c29

Z9_ 
    // c30
    ,

// c31

  char[] 
	// c32
    options1 
    // c33

  ,
// c34
uint32 
// c35
	options1
    // c36
, 
// c37
u  
  // c38

  MetaDataX
	    // c39

  ,  
  // c40
} 
// c41
 
")).
Eval vm_compute in ("<<<M1080>>>" ++ check (runes_of_ascii "packet rootA
    // 50% %s
    { falsey
@calculatedFrom( ""it's"" ) , chars
    @lengthOf( len ) , @calculatedFrom(
""a\""b"" ) repeat uint8 msg_type `doc`
,
    } root
    //	t
    packet pack
    {
    @tag( 3 )
metadata @lengthOf( string_
    ) `tab	here`
    ,
string_
    @calculatedFrom(
""" ++ [128512]%N ++ runes_of_ascii """
)
    // trailing space 
    `line1
line2`
,@lengthOf( uint8x ) @lengthOf( tag ) @tag( 00	) repeat uint8x{ repeat char metadata ,zchar[3 ]crc,
u64
    chars
@lengthOf(
    u ) `100% of %d` , } , @lengthOf( metadata
    // @lengthOf(
    ) // trailing space 
@calculatedFrom( ""x y""	)  @calculatedFrom( """" )	repeat float64 Logon`it's`
,
    } packet
uint8x {
    // trailing space 
    @tag( 3 )@tag( 3)
    u32
    Packet ,}
// " ++ [128512]%N ++ runes_of_ascii " emoji
")).
Eval vm_compute in ("<<<M1400>>>" ++ check (runes_of_ascii "
packet Z9_ {  char[ 3 ]
    A , // 50% %s
zchar[0123456789
]string_
@calculatedFrom(// packet A { u8 x, }
""CRC32"" )`u8 x,` // trailing space 
, char[]
Z9_
`{ , }`	, //
repeat
    zchar[  65535 ]  MetaDataX `tab	here` , @lengthOf( charz ) Logon `100% of %d`
, // @lengthOf(
@leftPad
    ( '\x00' )repeat zchar[ 3
    ] Logon ,@lengthOf( x )	@calculatedFrom(
""1""
) @lengthOf( options1  ) body chars
,
    metadata
MetaDataX
    `u8 x,` ,match options1
as // " ++ [27880; 37322]%N ++ runes_of_ascii "
Pad {
0 :	Packet
, } , } packet msg_type
    {
    //	t
    @calculatedFrom( """ ++ [233]%N ++ runes_of_ascii "t" ++ [233]%N ++ runes_of_ascii """) charz
i64_ , }
packet
crc { } packet Header { crc ,  } options {
int= ""packet"" ;u128 =
0123456789
/// triple
// " ++ [27880; 37322]%N ++ runes_of_ascii "
Foo	= false o	= ""`tick`""
;}")).
Eval vm_compute in ("<<<M935>>>" ++ check (runes_of_ascii "packet u {
repeat
    char[ 7
] zchar	, @calculatedFrom( ""x y""
) // 50% %s
match
pack as lengthOf
/// triple
// trailing space 
{ ""\" ++ [233]%N ++ runes_of_ascii """
:
    Packet	, ""a\""b"" :
    len , } , string  metadata
`" ++ [233]%N ++ runes_of_ascii "`,} packet repeatCount
{@tag( //	t
10
    // 50% %s
    )  _x `
` ,
    @calculatedFrom( ""`tick`""  )
@tag( 10) // packet A { u8 x, }
@calculatedFrom( ""// no comment"") repeat f32a
`
` ,@rightPad ( )
@leftPad(
'\x00')@calculatedFrom( """" ) repeat
    calculatedFrom { u16 options1	, }
    ,
@lengthOf( len ) match uint8x as metadata
{ [ 7	, 007	, // trailing space 
""`tick`"" // c
,3 ] :f32a , 007 :int
//x
// c
,
255
/// triple
//x
: rootA, [ """ ++ [28040; 24687]%N ++ runes_of_ascii """, 65535
] :
    x } , }")).
Eval vm_compute in ("<<<M3356>>>" ++ check (runes_of_ascii "// top
packet // c0
stringy // c1
{ // c2
BodyLength // c3
`crlf
line` // c4
, // c5
@calculatedFrom( // c6
""`tick`"" // c7
) // c8
zchar[ // c9
007 // c10
] // c11
Header // c12
, // c13
@lengthOf( // c14
body // c15
) // c16
zchar[ // c17
42 // c18
] // c19
pack // c20
, // c21
} // c22
packet // c23
Z9_ // c24
{ // c25
@lengthOf( // c26
i64_ // c27
) // c28
char[ // c29
255 // c30
] // c31
u // c32
`u8 x,` // c33
, // c34
@lengthOf( // c35
MetaDataX // c36
) // c37
@calculatedFrom( // c38
""\n"" // c39
) // c40
float32 // c41
Z9_ // c42
, // c43
} // c44
options // c45
{ // c46
_x // c47
= // c48
""it's"" // c49
; // c50
} // c51
")).
Eval vm_compute in ("<<<M35>>>" ++ check (runes_of_ascii "root packet x	{ string BodyLength `line1
line2`  ,  Foo
    charz `doc` , leftPad `two words`,@lengthOf( falsey
    ) @tag( 0123456789)leftPad@calculatedFrom( ""a\\"")`say ""hi""`, u //
u128`{ , }` ,@calculatedFrom(""a	b"" ) zchar[ 10
// trailing space 
// packet A { u8 x, }
]
    f32a ,
@lengthOf(	A ) zchar[  255 ] u128 // 50% %s
`// not a comment`
    , } MetaData T // 50% %s
{ i32 packetx
,int16
    Packet ,
repeatCount options1 `{ , }`
, } packet Packet{ @lengthOf(	leftPad
    ) @rightPad ()
    char i8i8// c
`u8 x,`	, i8i8 `crlf
line` ,@leftPad (
    ) i32
packetx @calculatedFrom( ""a	b""
    )	,
    }")).
Eval vm_compute in ("<<<M796>>>" ++ check (runes_of_ascii "options { }
    packet len{@lengthOf( matchKey )
    repeat len , charz
@calculatedFrom( ""{,}"")
    `
`
,}
    packet leftPad {@leftPad	(
' '
    ) match
roots as i8i8 { [
1 ,/// triple
""" ++ [28040; 24687]%N ++ runes_of_ascii """ ,
""CRC32"" , ""1""
,
255] :
falsey ,65535 :
matchKey  ,[ ""1"" ,
""// no comment""
    , /// triple
""a	b"" ,
""CRC32""
, 007
, 65535  , 007 ] : T, [
00
//	t
// 50% %s
, 4294967296]
:
    // c
    Foo , } ,
@lengthOf(
/// triple
// packet A { u8 x, }
x_y_z
    // packet A { u8 x, }
    )// a // b
string_ {
    // packet A { u8 x, }
    string u128 `100% of %d`, }
, } // `tick` ""quote"" 'q'")).
Eval vm_compute in ("<<<M1041>>>" ++ check (runes_of_ascii "packet MetaDataX { @rightPad // a // b
(' ')
// " ++ [128512]%N ++ runes_of_ascii " emoji
// 50% %s
zchar[	0123456789 ]
zchar	@lengthOf( a1 // a // b
) ,  int8 Logon @calculatedFrom( """ ++ [128512]%N ++ runes_of_ascii """ )  ,
    // " ++ [27880; 37322]%N ++ runes_of_ascii "
    f32 stringy , repeat i16 Header `crlf
line` , } root packet o
{
    zchar[ 10
] a1
, @lengthOf( options1 )string
    charz , match	x_y_z as Foo {1 :
uint8x , } ,
@leftPad(
' '	)@calculatedFrom( ""\" ++ [233]%N ++ runes_of_ascii """
)zchar[ 1] Packet `doc` , }//x
packet As
{ repeat
    stringy // 50% %s
{
char[] packetx ,
    // packet A { u8 x, }
    uint32 As  @lengthOf(calculatedFrom ) ,
} , } // 50% %s")).
Eval vm_compute in ("<<<M3565>>>" ++ check (runes_of_ascii "options {
    LittleEndian = true;
    ArrayPrefixLenType = u32;
    FixedStringPadFromLeft = true;
    FixedStringPadChar = '0';
}
packet Party {
}
root packet Heartbeat {
    repeat string Tail,
    InRef14 {
        InMsgkind17 {
            int8 Flags,
            char[10] Acct,
            zchar[4] sym,
            i8 Px,
        },
        string Px,
    },
    uint16 seqNo,
    int64 tag7,
    u16 Note,
    u32 Px @lengthOf(Body),
    match Note as Body {
        96 : Party,
    },
    u16 Acct @calculatedFrom(""CR\
C32""),
}
")).
Eval vm_compute in ("<<<M524>>>" ++ check (runes_of_ascii "  packet
Header { @calculatedFrom( ""abc"" )@tag( 0) //x
char[1
]	lengthOf /// triple
, repeat
rootA{ o
// 50% %s
// " ++ [128512]%N ++ runes_of_ascii " emoji
{ float , repeat uint32	repeatCount`" ++ [28040; 24687; 31867; 22411]%N ++ runes_of_ascii "`, //x
match
stringy as Header {7
    // " ++ [27880; 37322]%N ++ runes_of_ascii "
    : int[42 ,	""\n"" ]// `tick` ""quote"" 'q'
: pack  , },string u128@lengthOf(
uint8x )	,// `tick` ""quote"" 'q'
} , }
, repeat
repeatCount``, @lengthOf( // @lengthOf(
packetx
) Z9_ x_y_z //	t
`{ , }` , }
    root packet MetaDataX {
repeat char[ 0 ] Header  `u8 x,` ,
    } packet T { }
// packet A { u8 x, }
")).
Eval vm_compute in ("<<<M785>>>" ++ check (runes_of_ascii "  packet
    Foo
// 50% %s
// `tick` ""quote"" 'q'
{ } packet chars
{ @calculatedFrom( """ ++ [28040; 24687]%N ++ runes_of_ascii """  ) @lengthOf( trueish )
x_y_z
@calculatedFrom(
""1"" ) ,
    @calculatedFrom( ""CRC32""
) /// triple
zchar[ 255 ]
    /// triple
    u
// `tick` ""quote"" 'q'
//x
,// c
Z9_ matchKey  `// not a comment`, @rightPad (
    '0'
)@calculatedFrom( ""\" ++ [233]%N ++ runes_of_ascii """ )	@lengthOf(
    Header
    )// packet A { u8 x, }
repeatCount @calculatedFrom( ""1""
    ) `line1
line2`
    , } MetaData
Z9_ { msg_type rootA
    // c
    ,}")).
Eval vm_compute in ("<<<M4115>>>" ++ check (runes_of_ascii "options {
    pack = false;
    i64_ = ""1""
    len = ' '
}

// @lengthOf(
// " ++ [27880; 37322]%N ++ runes_of_ascii "
packet Z9_ {
    repeat char[1] i8i8 `
    `,
    @lengthOf(crc)
    options1 {
        repeat char[] f32a `{ , }`,
        match uint8x as _x {
            ""packet"" : charz,
            ""\" ++ [233]%N ++ runes_of_ascii """ : trueish,
            [007, ""abc""] : i64_,
            007 : o,
            4294967296 : options1,
        },
        repeat uint8x,
    },
    char[65535] repeatCount `100% of %d`,// a // b
}")).
Eval vm_compute in ("<<<M1181>>>" ++ check (runes_of_ascii "packet
    BodyLength { uint16 crc
// 50% %s
// @lengthOf(
@calculatedFrom( """ ++ [28040; 24687]%N ++ runes_of_ascii """ ) `crlf
line` , int`// not a comment`  ,
// @lengthOf(
// trailing space 
@leftPad
( '0' ) string tag ,
    string_ ,f64 zchar// 50% %s
,	metadata
    // @lengthOf(
    @calculatedFrom( ""a\\"" ) ,@tag( 00
)
    repeat int8 u8x	, match int as o {
""// no comment"":  body , ""a	b"" : trueish 007 :
falsey ,""a\""b"" : tag,
    10: trueish ,  } , Pad // @lengthOf(
, }
")).
Eval vm_compute in ("<<<M862>>>" ++ check (runes_of_ascii "
packet Foo
{ @tag(
    42
)	char[
    7 ]
    calculatedFrom
    @lengthOf(  asx ) , i16 metadata ,
// @lengthOf(
/// triple
@lengthOf( x )char[] uint8x `
` ,}
packet	BodyLength  {
i16 trueish `it's` , @calculatedFrom( ""\n""  )
    uint32
    BodyLength `{ , }` , } packet _x {@tag( 0 )packetx@lengthOf(
chars )`
` ,
    // c
    @tag(00 ) repeat u
// " ++ [128512]%N ++ runes_of_ascii " emoji
/// triple
asx `" ++ [28040; 24687; 31867; 22411]%N ++ runes_of_ascii "`	, @tag( 0) i8 charz
@lengthOf(lengthOf  )  ,}
")).
Eval vm_compute in ("<<<M38>>>" ++ check (runes_of_ascii "options
{}MetaData msg_type { }packet
body
    { A{
    repeat  char[00 ] stringy,	} , match  packetx
    as a1
{00
/// triple
// " ++ [27880; 37322]%N ++ runes_of_ascii "
: BodyLength, ""x y"" // c
:
Logon , [ 7 ] //	t
: x_y_z	, 42
/// triple
// `tick` ""quote"" 'q'
:// " ++ [128512]%N ++ runes_of_ascii " emoji
Packet
,[
    0123456789] :
    Packet , }, @leftPad (
    '\x00' )
    // packet A { u8 x, }
    uint16 // 50% %s
uint8x `say ""hi""` , @leftPad
    (  '0' )	stringy x_y_z , }
")).
Eval vm_compute in ("<<<M4094>>>" ++ check (runes_of_ascii "
root	packet

_x { match 
x_y_z
	as 
o
    {
[	0,

    65535  //x

  ]
	:stringy

, ""{,}""
: 
  // " ++ [128512]%N ++ runes_of_ascii " emoji
	// c
    string_ }, 
}
	MetaData
	x_y_z
	{

BodyLength
u8x	`line1
line2`
	,}
	packet	chars{
	@tag(  3

    )
	f64  options1	`// not a comment`
,  string 
tag 
    /// triple
      @lengthOf( 
BodyLength )
    ,@tag(
42 )
    @tag(
    0

)
@tag(

65535)zchar[
10]
    u128
    `" ++ [28040; 24687; 31867; 22411]%N ++ runes_of_ascii "`

,  }")).
Eval vm_compute in ("<<<M98>>>" ++ check (runes_of_ascii "MetaData string_ {
} MetaData _x
    // packet A { u8 x, }
    { zchar[
    10]  chars
, } packet Logon{ @rightPad ( ' ') @tag(
255
    )
char[ 10
    ]charz,@lengthOf(
lengthOf)// " ++ [128512]%N ++ runes_of_ascii " emoji
@lengthOf( packetx ) //	t
@calculatedFrom( ""\n"" ) f32 stringy `line1
line2`  , repeat
T{Logon @calculatedFrom(//	t
""a\""b""
    )`" ++ [233]%N ++ runes_of_ascii "` ,  repeat char[ 65535] Foo , }
,
    // trailing space 
    }")).
Eval vm_compute in ("<<<M1219>>>" ++ check (runes_of_ascii "packet
    f32a {
@lengthOf(	Z9_ // c
) repeat char[ 4294967296
    ]A  ,	i16 asx , @leftPad('\x00'
)
    char
    Header , zchar[ 4294967296] pack,
match
    // " ++ [27880; 37322]%N ++ runes_of_ascii "
    len as	tag { [  """ ++ [233]%N ++ runes_of_ascii "t" ++ [233]%N ++ runes_of_ascii """
,1
, ""`tick`"" , 0123456789, 00
/// triple
/// triple
,""a	b"" , ""x y"" //	t
, ""CRC32"" ] :roots
// 50% %s
/// triple
,}	,
    @tag(
255)
u128 @lengthOf(trueish
    ) `100% of %d`,}
")).
Eval vm_compute in ("<<<M3706>>>" ++ check (runes_of_ascii "
root  packet

    rootA

{

char[ 4294967296	] _x`say ""hi""`

    , repeat 
  // " ++ [128512]%N ++ runes_of_ascii " emoji
    	chars
	i64_  // packet A { u8 x, }

,	@lengthOf( // " ++ [27880; 37322]%N ++ runes_of_ascii "
stringy 	 //	t
) 
    // `tick` ""quote"" 'q'
//x
@lengthOf( chars )repeat

char[]
rootA  , 
    // trailing space 
float@lengthOf( 
zchar	) 
`u8 x,`	// a // b
  ,
	@calculatedFrom(	""a	b""
    )
	A ,
	} ")).
Eval vm_compute in ("<<<M3718>>>" ++ check (runes_of_ascii "packet charz {
    @lengthOf(x)
    T rootA `u8 x,`,
    repeat Logon stringy,
}

packet len {
    string As ``,
    x_y_z {
        string x @calculatedFrom(""\n"") `two words`,
        u128 @lengthOf(pack),
        char[10] crc @lengthOf(i8i8) `u8 x,`,
        repeat char[] MetaDataX,
    },
    int16 matchKey `a\`,
    // packet A { u8 x, }
}")).
Eval vm_compute in ("<<<M3761>>>" ++ check (runes_of_ascii "packet falsey {
    // @lengthOf(
    @rightPad(' ')
    int a1,
    @calculatedFrom(""packet"")
    @lengthOf(lengthOf)
    repeat uint64 Logon,
    char[3] T `crlf
        line`,
    @rightPad()
    @tag(255)
    @lengthOf(BodyLength)
    repeat char[007] asx,
    repeat _x Pad `a\`,
    int16 asx ``,
    char uint8x `doc`,
}")).
Eval vm_compute in ("<<<M1217>>>" ++ check (runes_of_ascii "packet crc { string // 50% %s
chars  `
` , i64
Z9_ @calculatedFrom( ""1"" ) ,
match zchar as asx {
4294967296
    : trueish
,} // @lengthOf(
,	}  options {
zchar // c
=""""; } root packet
matchKey { zchar[
65535//
] int // `tick` ""quote"" 'q'
,
zchar[ 4294967296 ]leftPad `// not a comment` // a // b
, }
// 50% %s
")).
Eval vm_compute in ("<<<M3828>>>" ++ check (runes_of_ascii "// top
MetaData body {
    // c2
}// c3a

// c3b
root packet chars {
    // c7a
    // c7b
    @lengthOf(i64_)
    // c10
    chars,
    // c12
    i8i8 {
        // c14a
        // c14b
        falsey @lengthOf(stringy) ``,// c20a
        // c20b
    },
    x @lengthOf(A) `tab	here`,
}// c29a
// c29b")).
Eval vm_compute in ("<<<M4320>>>" ++ check (runes_of_ascii "root
    packet 
Pad {}	packet 
    // a // b
  //
    As

{Logon

{ repeat roots
{  char[ 007 ]
roots ,
chars	f32a,},charz
    @calculatedFrom(//x
""" ++ [28040; 24687]%N ++ runes_of_ascii """
),

    zchar[ 
3  
      // packet A { u8 x, }
		]repeatCount
`
`
,

    },

    }  MetaData
u8x
    {  //
  int64 
Header,
}
")).
Eval vm_compute in ("<<<M1872>>>" ++ check (runes_of_ascii "packet	packetx { // trailing space 
x_y_z
{
string string
charz ,
string x// @lengthOf(
`two words`
    ,  u8x { // `tick` ""quote"" 'q'
charz `100% of %d` // packet A { u8 x, }
,}// " ++ [27880; 37322]%N ++ runes_of_ascii "
,} , }
    // a // b
    packet metadata {  @leftPad ( '0') repeat i32 options1 ,u64 uint8x , }
")).
Eval vm_compute in ("<<<M1929>>>" ++ check (runes_of_ascii "packet	packetx { // trailing space 
x_y_z
{
string
charz ,
string x// @lengthOf(
`two words`
    ,  u8x { // `tick` ""quote"" 'q'
charz `100% of %d` // packet A { u8 x, }
root}// " ++ [27880; 37322]%N ++ runes_of_ascii "
,} , }
    // a // b
    packet metadata {  @leftPad ( '0') repeat i32 options1 ,u64 uint8x , }
")).
Eval vm_compute in ("<<<M2003>>>" ++ check (runes_of_ascii "packet	packetx { // trailing space 
x_y_z
{
string
charz ,
string x// @lengthOf(
`two words`
    ,  u8x { // `tick` ""quote"" 'q'
charz `100% of %d` // packet A { u8 x, }
,}// " ++ [27880; 37322]%N ++ runes_of_ascii "
,} , }
    // a // b
    packet metadata {  @leftPad ( '0') repeat i32 , options1 u64 uint8x , }
")).
Eval vm_compute in ("<<<M1958>>>" ++ check (runes_of_ascii "packet	packetx { // trailing space 
x_y_z
{
string
charz ,
string x// @lengthOf(
`two words`
    ,  u8x { // `tick` ""quote"" 'q'
charz `100% of %d` // packet A { u8 x, }
,}// " ++ [27880; 37322]%N ++ runes_of_ascii "
,} , }
    // a // b
    metadata packet {  @leftPad ( '0') repeat i32 options1 ,u64 uint8x , }
")).
Eval vm_compute in ("<<<M1966>>>" ++ check (runes_of_ascii "packet	packetx { // trailing space 
x_y_z
{
string
charz ,
string x// @lengthOf(
`two words`
    ,  u8x { // `tick` ""quote"" 'q'
charz `100% of %d` // packet A { u8 x, }
,}// " ++ [27880; 37322]%N ++ runes_of_ascii "
,} , }
    // a // b
    packet metadata   @leftPad ( '0') repeat i32 options1 ,u64 uint8x , }
")).
Eval vm_compute in ("<<<M3769>>>" ++ check (runes_of_ascii "// top
options {
    // c1
}

// c2
options {
    // c4
    string_ = false;
    // c8
    msg_type = ""1"";
    // c12
}

// c13
MetaData lengthOf {
    // c16
    zchar[4294967296] Z9_,
    // c21
    uint8 i8i8 `two words`,
    // c25
    char[7] charz,
    // c30
}
// c31")).
Eval vm_compute in ("<<<M2095>>>" ++ check (runes_of_ascii "packet// packet A { u8 x, }
repeatCount	{// packet A { u8 x, }
@leftPad ( '\x00'
) repeat u8x MetaDataX MetaDataX `crlf
line`,
    repeat
    char[] MetaDataX
    ,
u64	uint8x@calculatedFrom(""a\""b""
// c
// packet A { u8 x, }
) `tab	here`
,//
}MetaData pack
    {
    }
")).
Eval vm_compute in ("<<<M4411>>>" ++ check (runes_of_ascii "packet charz {
    char[007] pack @calculatedFrom(""// no comment""),
    u128,
    @tag(1)
    @leftPad()
    match zchar as string_ {
        [65535, 00, 4294967296, 255, 007] : Pad,
        // packet A { u8 x, }
        3 : MetaDataX,
    },
    metadata string_,
}")).
Eval vm_compute in ("<<<M1419>>>" ++ check (runes_of_ascii "packet calculatedFrom calculatedFrom
{ @calculatedFrom( ""a\\"" ) zchar[ 4294967296 ]
calculatedFrom@lengthOf( pack )	`100% of %d` ,char[]body@calculatedFrom( ""// no comment"" )  ,
@tag( 007) //x
int8
leftPad`it's` , repeat pack
    { repeat char[ 3] body
,},
}")).
Eval vm_compute in ("<<<M973>>>" ++ check (runes_of_ascii "packet i64_ {
    char[]
// `tick` ""quote"" 'q'
// a // b
i8i8 @lengthOf( i8i8 )`say ""hi""` ,
}root
    packet Logon
    { match Logon as A
    {
    [
    4294967296 ] : trueish ""a\""b"" : tag,[ 10 ,
""\" ++ [233]%N ++ runes_of_ascii """ ,	""x y""] :
    A
, """ ++ [233]%N ++ runes_of_ascii "t" ++ [233]%N ++ runes_of_ascii """
: rootA } ,}MetaData falsey
{
}
")).
Eval vm_compute in ("<<<M2156>>>" ++ check (runes_of_ascii "packet// packet A { u8 x, }
repeatCount	{// packet A { u8 x, }
@leftPad ( '\x00'
) repeat u8x MetaDataX `crlf
line`,
    repeat
    char[] MetaDataX
    ,
u64	uint8x@calculatedFrom(""a\""b""
// c
// packet A { u8 x, }
) ,
`tab	here`//
}MetaData pack
    {
    }
")).
Eval vm_compute in ("<<<M2137>>>" ++ check (runes_of_ascii "packet// packet A { u8 x, }
repeatCount	{// packet A { u8 x, }
@leftPad ( '\x00'
) repeat u8x MetaDataX `crlf
line`,
    repeat
    char[] MetaDataX
    ,
u64	i16@calculatedFrom(""a\""b""
// c
// packet A { u8 x, }
) `tab	here`
,//
}MetaData pack
    {
    }
")).
Eval vm_compute in ("<<<M1519>>>" ++ check (runes_of_ascii "packet calculatedFrom
{ @calculatedFrom( ""a\\"" ) zchar[ 4294967296 ]
calculatedFrom@lengthOf( pack )	`100% of %d` ,char[]body@calculatedFrom( ""// no comment"" )  ,
@tag( @tag( 007) //x
int8
leftPad`it's` , repeat pack
    { repeat char[ 3] body
,},
}")).
Eval vm_compute in ("<<<M4269>>>" ++ check (runes_of_ascii "MetaData MetaDataX {
    u64 As,
    Pad falsey `crlf
        line`,
}

MetaData packetx {
    string tag,
    string repeatCount,
}//	t

packet leftPad {
    chars,
    uint16 u128,
    @lengthOf(int)
    _x Foo `u8 x,`,
    x @lengthOf(asx),
}// " ++ [27880; 37322]%N)).
Eval vm_compute in ("<<<M2055>>>" ++ check (runes_of_ascii "packet// packet A { u8 x, }
	{// packet A { u8 x, }
@leftPad ( '\x00'
) repeat u8x MetaDataX `crlf
line`,
    repeat
    char[] MetaDataX
    ,
u64	uint8x@calculatedFrom(""a\""b""
// c
// packet A { u8 x, }
) `tab	here`
,//
}MetaData pack
    {
    }
")).
Eval vm_compute in ("<<<M1430>>>" ++ check (runes_of_ascii "packet calculatedFrom
{ ""a\\"" @calculatedFrom( ) zchar[ 4294967296 ]
calculatedFrom@lengthOf( pack )	`100% of %d` ,char[]body@calculatedFrom( ""// no comment"" )  ,
@tag( 007) //x
int8
leftPad`it's` , repeat pack
    { repeat char[ 3] body
,},
}")).
Eval vm_compute in ("<<<M1601>>>" ++ check (runes_of_ascii "packet calculatedFrom
{ @calculatedFrom( ""a\\"" ) zchar[ 4294967296 ]
calculatedFrom@lengthOf( pack )	`100% of %d` ,char[]body@calculatedFrom( ""// no comment"" )  ,
@tag( 007) //x
int8
leftPad`it's` , repeat pack
    { repeat char[ 3] body
,,,
}")).
Eval vm_compute in ("<<<M1471>>>" ++ check (runes_of_ascii "packet calculatedFrom
{ @calculatedFrom( ""a\\"" ) zchar[ 4294967296 ]
calculatedFrom@lengthOf( : )	`100% of %d` ,char[]body@calculatedFrom( ""// no comment"" )  ,
@tag( 007) //x
int8
leftPad`it's` , repeat pack
    { repeat char[ 3] body
,},
}")).
Eval vm_compute in ("<<<M1481>>>" ++ check (runes_of_ascii "packet calculatedFrom
{ @calculatedFrom( ""a\\"" ) zchar[ 4294967296 ]
calculatedFrom@lengthOf( pack )	uint32 ,char[]body@calculatedFrom( ""// no comment"" )  ,
@tag( 007) //x
int8
leftPad`it's` , repeat pack
    { repeat char[ 3] body
,},
}")).
Eval vm_compute in ("<<<M1418>>>" ++ check (runes_of_ascii "packet 
{ @calculatedFrom( ""a\\"" ) zchar[ 4294967296 ]
calculatedFrom@lengthOf( pack )	`100% of %d` ,char[]body@calculatedFrom( ""// no comment"" )  ,
@tag( 007) //x
int8
leftPad`it's` , repeat pack
    { repeat char[ 3] body
,},
}")).
Eval vm_compute in ("<<<M3960>>>" ++ check (runes_of_ascii "
MetaData repeatCount  
      // `tick` ""quote"" 'q'
  {i16	i8i8 `it's`

, 
} packet
    _x 
{ stringy MetaDataX	,
}  options
	    // a // b
    { 
T
    // c
	=
char[
    // @lengthOf(

  0
    ]
	; Header
=

""it's"";
	}")).
Eval vm_compute in ("<<<M1177>>>" ++ check (runes_of_ascii "packet  Header
    { // @lengthOf(
char matchKey
    // trailing space 
    @calculatedFrom(
""\" ++ [233]%N ++ runes_of_ascii """) , // " ++ [128512]%N ++ runes_of_ascii " emoji
}options { uint8x
= ""abc""
;	msg_type // " ++ [128512]%N ++ runes_of_ascii " emoji
= char[ // packet A { u8 x, }
255 ] ;
} // " ++ [27880; 37322]%N)).
Eval vm_compute in ("<<<M1273>>>" ++ check (runes_of_ascii "// c
MetaData zchar{ }MetaData
o {
    uint8 // 50% %s
float
    ,A x `crlf
line` , zchar[	0 ]
    Pad,	u8
// trailing space 
// trailing space 
string_,u8
    Logon,i64 stringy`// not a comment`	,	}
")).
Eval vm_compute in ("<<<M4124>>>" ++ check (runes_of_ascii "MetaData o {
    Foo repeatCount `" ++ [28040; 24687; 31867; 22411]%N ++ runes_of_ascii "`,
    trueish len,
    uint32 Logon `say ""hi""`,
}

MetaData pack {
    char[] trueish `// not a comment`,
    i8 i64_,
}

packet crc {
    char[00] o ``,
}")).
Eval vm_compute in ("<<<M1375>>>" ++ check (runes_of_ascii "
options {} packet a1 {
    repeat
    o , } //	t
MetaData charz// packet A { u8 x, }
{ i8 i8i8 , } packet
charz {
    char As
    @calculatedFrom( ""a	b""// a // b
) `tab	here` ,
    }
")).
Eval vm_compute in ("<<<M1146>>>" ++ check (runes_of_ascii "MetaData
    pack
    {
    tag A ,
string  matchKey `two words` ,  i64 x_y_z `it's`
    , len options1
`// not a comment`,
char[ 255 ]// 50% %s
string_ `a\`  ,  int32 leftPad
,}
")).
Eval vm_compute in ("<<<M1084>>>" ++ check (runes_of_ascii "options { Foo
    ='\x00' rootA
    = uint8 //
u128= 7 ;x_y_z  = char[ 0123456789 ]; }
MetaData lengthOf // 50% %s
{ Packet body
, asx lengthOf`
` ,
packetx As, } // 50% %s")).
Eval vm_compute in ("<<<M1269>>>" ++ check (runes_of_ascii "
packet Packet
//
//x
{ @tag( 0
    ) repeat
    char[ 007 ] // `tick` ""quote"" 'q'
matchKey `" ++ [28040; 24687; 31867; 22411]%N ++ runes_of_ascii "` , @tag( 65535 ) falsey @lengthOf( len
)
    ,MetaDataX `doc`	, }
")).
Eval vm_compute in ("<<<M1728>>>" ++ check (runes_of_ascii "options { } packet Packet{char[] i64_ ,
@tag(
    255) match
crc as i8i8{""{,}"" : trueish trueish """" : Pad , ""a\\"" :
Foo ,
    1 :packetx
, """ ++ [128512]%N ++ runes_of_ascii """ : trueish , } , }")).
Eval vm_compute in ("<<<M4465>>>" ++ check (runes_of_ascii "packet A {
    match k as n {
        [
            1, ""bb"", 007, ""d"", 5,
            ""f"", 7, ""h"", 9, ""j"",
            11
        ] : B,
        2 : C,
    },
}")).
Eval vm_compute in ("<<<M806>>>" ++ check (runes_of_ascii "MetaData u8x {}
packet // trailing space 
zchar// `tick` ""quote"" 'q'
{ charz {
trueish// 50% %s
`two words`
, }
,
    } options {T
    = string } // " ++ [128512]%N ++ runes_of_ascii " emoji")).
Eval vm_compute in ("<<<M2375>>>" ++ check (runes_of_ascii "
packet MetaDataX
{
    @leftPad
( // a // b
'0'
) i8 u @lengthOf(
MetaDataX
    ) `say ""hi""` ,	MetaData } BodyLength {
    asx
x_y_z `" ++ [233]%N ++ runes_of_ascii "`
, uint64 u128 , }
")).
Eval vm_compute in ("<<<M1800>>>" ++ check (runes_of_ascii "options { } packet Packet{char[] i64_ ,
@tag(
    255) match
crc as i8i8{""{,}"" : trueish """" : Pad , ""a\\"" :
Foo ,
    1 :packetx
, """ ++ [128512]%N ++ runes_of_ascii """ i32 trueish , } , }")).
Eval vm_compute in ("<<<M1810>>>" ++ check (runes_of_ascii "options { } packet Packet{char[] i64_ ,
@tag(
    255) match
crc as i8i8{""{,}"" : trueish """" : Pad , ""a\\"" :
Foo ,
    1 :packetx
, """ ++ [128512]%N ++ runes_of_ascii """ : trueish as } , }")).
Eval vm_compute in ("<<<M1724>>>" ++ check (runes_of_ascii "options { } packet Packet{char[] i64_ ,
@tag(
    255) match
crc as i8i8{""{,}"" trueish : """" : Pad , ""a\\"" :
Foo ,
    1 :packetx
, """ ++ [128512]%N ++ runes_of_ascii """ : trueish , } , }")).
Eval vm_compute in ("<<<M1210>>>" ++ check (runes_of_ascii "root
packet
asx
    //
    { uint16
    u128 `// not a comment` , @leftPad() zchar[
/// triple
// trailing space 
0 ]
    Foo @lengthOf(msg_type  )  , }")).
Eval vm_compute in ("<<<M1067>>>" ++ check (runes_of_ascii "
root packet
lengthOf {
    u16 f32a @lengthOf(
crc) , //x
@lengthOf( matchKey /// triple
)  @lengthOf(
    packetx
) crc @lengthOf( Pad ) `" ++ [28040; 24687; 31867; 22411]%N ++ runes_of_ascii "`,} 	 ")).
Eval vm_compute in ("<<<M4430>>>" ++ check (runes_of_ascii "MetaData metadata	{	}	// c
  MetaData 
rootA

{i8 
i64_

    ,	roots 
options1
`a\`

    ,	lengthOf
    Header
, 
Z9_  Foo	, int16	BodyLength ,  } ")).
Eval vm_compute in ("<<<M1816>>>" ++ check (runes_of_ascii "options { } packet Packet{char[] i64_ ,
@tag(
    255) match
crc as i8i8{""{,}"" : trueish """" : Pad , ""a\\"" :
Foo ,
    1 :packetx
, """ ++ [128512]%N ++ runes_of_ascii """ : trueish ,")).
Eval vm_compute in ("<<<M4487>>>" ++ check (runes_of_ascii "
MetaData
    float{

uint8

BodyLength	,
	}
	MetaData
charz{ 
float32 trueish
`a\`
	,

    i16 metadata
    `say ""hi""`

    , }  
  // c")).
Eval vm_compute in ("<<<M3968>>>" ++ check (runes_of_ascii "MetaData metadata {
}

MetaData rootA {
    i8 i64_,
    roots options1 `a\`,
    lengthOf Header,// c
    Z9_ Foo,
    int16 BodyLength,
}")).
Eval vm_compute in ("<<<M1050>>>" ++ check (runes_of_ascii "
packet	crc{ int32 Z9_ @lengthOf( tag
    )
`// not a comment`//x
, }
    MetaData
string_  { }
    // c
    options {
a1
= """ ++ [233]%N ++ runes_of_ascii "t" ++ [233]%N ++ runes_of_ascii """}

")).
Eval vm_compute in ("<<<M1262>>>" ++ check (runes_of_ascii "options {f32a =
    // @lengthOf(
    false // packet A { u8 x, }
stringy =  255;  len = ""// no comment""// packet A { u8 x, }
; }
")).
Eval vm_compute in ("<<<M1389>>>" ++ check (runes_of_ascii "
packet uint8x{// " ++ [128512]%N ++ runes_of_ascii " emoji
int16
    f32a
, }
options { chars  = ""`tick`"" ; trueish = // a // b
int64 Pad =// 50% %s
""\n"";
}
")).
Eval vm_compute in ("<<<M3285>>>" ++ check (runes_of_ascii "MetaData metadata { } MetaData rootA { i8 i64_ , roots options1
// c
`a\` , lengthOf Header , Z9_ Foo , int16 BodyLength , }")).
Eval vm_compute in ("<<<M3780>>>" ++ check (runes_of_ascii "packet msg_type {
    i8 roots `
    `,
    uint8 zchar @calculatedFrom(""1"") ``,
}

MetaData packetx {
    uint16 Z9_ ``,
}")).
Eval vm_compute in ("<<<M1492>>>" ++ check (runes_of_ascii "packet calculatedFrom
{ @calculatedFrom( ""a\\"" ) zchar[ 4294967296 ]
calculatedFrom@lengthOf( pack )	`100% of %d` ,")).
Eval vm_compute in ("<<<M574>>>" ++ check (runes_of_ascii "MetaData matchKey { o Logon , T i64_ , float u , MetaDataX	lengthOf`
`
    //	t
    , i16 o ,	a1 chars
    , }

")).
Eval vm_compute in ("<<<M3324>>>" ++ check (runes_of_ascii "MetaData float { uint8 // c
BodyLength , } MetaData charz { float32 trueish `a\` , i16 metadata `say ""hi""` , }")).
Eval vm_compute in ("<<<M3853>>>" ++ check (runes_of_ascii "packet options1 {
    repeat char[4294967296] i64_,
    string repeatCount `
        `,
}// packet A { u8 x, }")).
Eval vm_compute in ("<<<M1271>>>" ++ check (runes_of_ascii "MetaData rootA { stringy
o
    ,int32// 50% %s
Z9_`u8 x,`
, char[ 0 ] crc `two words`
, //x
}
/// triple
")).
Eval vm_compute in ("<<<M4295>>>" ++ check (runes_of_ascii "MetaData pack 
        // trailing space 
// a // b
  	{

uint8 x  // a // b
	  ,
string  chars  ,	} ")).
Eval vm_compute in ("<<<M3003>>>" ++ check (runes_of_ascii "packet A {
  match k as n {
    [1, ""bb"", 007, ""d"", 5, ""f"", 7, ""h"", 9, ""j"", 11] : B
    2 : C
  },
}")).
Eval vm_compute in ("<<<M3011>>>" ++ check (runes_of_ascii "packet A {
  match k as n {
    [1, 22, 007, 4, 5, 66, 7, 8, 9, 10, 11, 12] : B,
    2 : C
  },
}")).
Eval vm_compute in ("<<<M4088>>>" ++ check (runes_of_ascii "
packet
order_item { 
u8
	a  , }
    root packet

    new_order

{	order_item ,
	u8  x 
,}
")).
Eval vm_compute in ("<<<M855>>>" ++ check (runes_of_ascii "
root packet asx
{ // 50% %s
} options { body = uint16 uint8x = ' '
    ; stringy  = 00 ; }
")).
Eval vm_compute in ("<<<M2274>>>" ++ check (runes_of_ascii "MetaData _x {string x ~ `// not a comment` , string
i64_ // trailing space 
`a\` ,
    }
")).
Eval vm_compute in ("<<<M3883>>>" ++ check (runes_of_ascii "// top
packet o {
    // c2
    @tag(4294967296)
    options1 @lengthOf(u8x) `" ++ [233]%N ++ runes_of_ascii "`,// c11
}")).
Eval vm_compute in ("<<<M2952>>>" ++ check (runes_of_ascii "packet A {
  match k as n {
    [""a"", 22, ""c c"", 4, ""e"", 66, ""g""] : B,
    2 : C
  },
}")).
Eval vm_compute in ("<<<M4129>>>" ++ check (runes_of_ascii "packet A {
    match k as n {
        [""a"", ""bb"", ""c c""] : B,
        2 : C,
    },
}")).
Eval vm_compute in ("<<<M1128>>>" ++ check (runes_of_ascii "packet u {charz
//	t
// 50% %s
@calculatedFrom( // a // b
""a	b""
)
    `u8 x,` , }
")).
Eval vm_compute in ("<<<M83>>>" ++ check (runes_of_ascii "MetaData
tag
    // `tick` ""quote"" 'q'
    { f32// c
tag// " ++ [27880; 37322]%N ++ runes_of_ascii "
`two words`
,	}
")).
Eval vm_compute in ("<<<M3826>>>" ++ check (runes_of_ascii "packet A {
    match k as n {
        [1, 22, 007] : B,
        2 : C,
    },
}")).
Eval vm_compute in ("<<<M1005>>>" ++ check (runes_of_ascii "MetaData leftPad // " ++ [27880; 37322]%N ++ runes_of_ascii "
{  char[ 0123456789 ]
    zchar ,}packet asx
    { }")).
Eval vm_compute in ("<<<M3389>>>" ++ check (runes_of_ascii "MetaData _x { f64 charz `tab	here` , } options { BodyLength = """ ++ [233]%N ++ runes_of_ascii "t" ++ [233]%N ++ runes_of_ascii """
// c
; }")).
Eval vm_compute in ("<<<M2913>>>" ++ check (runes_of_ascii "packet A {
  match k as n {
    [""a"", 22, ""c c"", 4] : B,
    2 : C
  },
}")).
Eval vm_compute in ("<<<M2900>>>" ++ check (runes_of_ascii "packet A {
  match k as n {
    [""a"", 22, ""c c""] : B,
    2 : C
  },
}")).
Eval vm_compute in ("<<<M3403>>>" ++ check (runes_of_ascii "packet
// c
o { @tag( 4294967296 ) options1 @lengthOf( u8x ) `" ++ [233]%N ++ runes_of_ascii "` , }")).
Eval vm_compute in ("<<<M1457>>>" ++ check (runes_of_ascii "packet calculatedFrom
{ @calculatedFrom( ""a\\"" ) zchar[ 4294967296")).
Eval vm_compute in ("<<<M323>>>" ++ check (runes_of_ascii "
packet
    T
{ repeat
int16
As , } options	{T
    = ' '
    ;}
")).
Eval vm_compute in ("<<<M3817>>>" ++ check (runes_of_ascii "  options

    {

charz

= '\x00'
;

float
	=
    ""it's"" }

")).
Eval vm_compute in ("<<<M2886>>>" ++ check (runes_of_ascii "packet A {
  match k as n {
    [1, 22] : B
    2 : C
  },
}")).
Eval vm_compute in ("<<<M780>>>" ++ check (runes_of_ascii "MetaData o {f32 lengthOf // 50% %s
`{ , }` , } // 50% %s")).
Eval vm_compute in ("<<<M4200>>>" ++ check (runes_of_ascii "root packet stringy {
    repeat char[] zchar `it's`,
}")).
Eval vm_compute in ("<<<M4526>>>" ++ check (runes_of_ascii "
options	{ 
a =  1 ;}
options

    {
	a
=
1  ;}
")).
Eval vm_compute in ("<<<M2334>>>" ++ check (runes_of_ascii "
MetaData Pad{
u32 | rootA `line1
line2` ,
    }
")).
Eval vm_compute in ("<<<M3808>>>" ++ check (runes_of_ascii "MetaData M {
    u8 x `
    `,
    T t `
    `,
}")).
Eval vm_compute in ("<<<M3814>>>" ++ check (runes_of_ascii "

  options

    { a

=	1;	// a

b  =2 // b
}")).
Eval vm_compute in ("<<<M359>>>" ++ check (runes_of_ascii "MetaData
    charz
    {packetx options1 , }")).
Eval vm_compute in ("<<<M254>>>" ++ check (runes_of_ascii "MetaData// packet A { u8 x, }
metadata{ }
")).
Eval vm_compute in ("<<<M1242>>>" ++ check (runes_of_ascii "
MetaData // c
metadata { Foo i64_ ,  }
")).
Eval vm_compute in ("<<<M2741>>>" ++ check (runes_of_ascii "c8aHsi0_?V2CKt<lZr$1jhkY3.hNQ Q`j,]S93S")).
Eval vm_compute in ("<<<M3203>>>" ++ check (runes_of_ascii "MetaData M {
}// c
MetaData N {
}// d")).
Eval vm_compute in ("<<<M1139>>>" ++ check (runes_of_ascii "options{roots  = '0'
A	= false ;
}")).
Eval vm_compute in ("<<<M3218>>>" ++ check (runes_of_ascii "packet A { @tag( // a
 1 ) u8 x, }")).
Eval vm_compute in ("<<<M2585>>>" ++ check (runes_of_ascii "packet A { repeat repeat u8 x, }")).
Eval vm_compute in ("<<<M3121>>>" ++ check (runes_of_ascii "packet A {
 u8 x `d" ++ [133]%N ++ runes_of_ascii "`, // c" ++ [133]%N ++ runes_of_ascii "
}")).
Eval vm_compute in ("<<<M2605>>>" ++ check (runes_of_ascii "packet A { x @lengthOf(y), }")).
Eval vm_compute in ("<<<M4271>>>" ++ check (runes_of_ascii "
packet A  {
}
    // c" ++ [8239]%N ++ runes_of_ascii "
")).
Eval vm_compute in ("<<<M2745>>>" ++ check (runes_of_ascii "mn7aIL.Qr@{m (&T6k@4]YZn&")).
Eval vm_compute in ("<<<M587>>>" ++ check (runes_of_ascii "root
packet  u
    { }
")).
Eval vm_compute in ("<<<M2595>>>" ++ check (runes_of_ascii "packet A { x `d` y, }")).
Eval vm_compute in ("<<<M1274>>>" ++ check (runes_of_ascii "packet options1 { }")).
Eval vm_compute in ("<<<M3105>>>" ++ check (runes_of_ascii "// c 
packet A {
}")).
Eval vm_compute in ("<<<M3187>>>" ++ check (runes_of_ascii "packet A {
}// c x")).
Eval vm_compute in ("<<<M3137>>>" ++ check (runes_of_ascii "packet A {
}// c" ++ [8232]%N)).
Eval vm_compute in ("<<<M844>>>" ++ check (runes_of_ascii "options {
    }")).
Eval vm_compute in ("<<<M2228>>>" ++ check (runes_of_ascii "MetaData _x {")).
Eval vm_compute in ("<<<M2715>>>" ++ check (runes_of_ascii "@rightPad ]")).
Eval vm_compute in ("<<<M2476>>>" ++ check (runes_of_ascii "optionss")).
Eval vm_compute in ("<<<M2861>>>" ++ check (runes_of_ascii "|un%=}Y")).
Eval vm_compute in ("<<<M2452>>>" ++ check (runes_of_ascii "char1")).
Eval vm_compute in ("<<<M3178>>>" ++ check (runes_of_ascii "// c" ++ [65279]%N)).
Eval vm_compute in ("<<<M4458>>>" ++ check (runes_of_ascii "//	t")).
Eval vm_compute in ("<<<M2699>>>" ++ check (runes_of_ascii "`d`")).
Eval vm_compute in ("<<<M2496>>>" ++ check (runes_of_ascii "'")).
