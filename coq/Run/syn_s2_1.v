From FP Require Import Lexer Parser ShowPT Digest.
From Coq Require Import String List NArith.
Import ListNotations.
Open Scope string_scope.
Set Printing Width 100000000.
Set Printing Depth 100000000.
Definition nl : string := String (Ascii.ascii_of_nat 10) EmptyString.
Definition model_lex (rs : list rune) : string := show_toks (lex rs).
Definition model_parse (rs : list rune) : string :=
  show_pt (match lex rs with Some ts => parse ts | None => None end).
(* coqc is slow at printing long strings: digests first (Digest.v), full texts on demand *)
Definition check (rs : list rune) : string :=
  digest (model_lex rs) ++ " " ++ digest (model_parse rs).
Definition full (rs : list rune) : string := model_lex rs ++ nl ++ model_parse rs.
Definition terms (ts : list tok) (t : pt) : string :=
  digest (show_toks (Some ts)) ++ " " ++ digest (show_pt (Some t)) ++ " " ++ digest (show_pt (parse ts)).
Definition terms_full (ts : list tok) (t : pt) : string :=
  show_toks (Some ts) ++ nl ++ show_pt (Some t) ++ nl ++ show_pt (parse ts).
Eval vm_compute in ("<<<M1>>>" ++ check (runes_of_ascii "// c
options {
    lengthOf = false Logon =
    false ;
} MetaData lengthOf
{ // " ++ [128512]%N ++ runes_of_ascii " emoji
float32 i8i8, }
root // `tick` ""quote"" 'q'
packet roots
{  zchar[
7	] f32a
    // trailing space 
    , }
")).
Eval vm_compute in ("<<<M11>>>" ++ check (runes_of_ascii "packet u128 {
@rightPad ( )
@tag( 7) stringy
body , }// packet A { u8 x, }
root
    packet // " ++ [27880; 37322]%N ++ runes_of_ascii "
i64_
    { }
    packet falsey	{
float@lengthOf(_x //	t
)`" ++ [233]%N ++ runes_of_ascii "`
, i32 a1 ,
u {//	t
string	crc
,  } ,@leftPad
    // a // b
    (
)repeat
    options1 { calculatedFrom @calculatedFrom(
    ""it's"" ) `{ , }`	, zchar falsey `u8 x,` ,repeat falsey  , }
// packet A { u8 x, }
//x
, }root // " ++ [128512]%N ++ runes_of_ascii " emoji
packet pack
    { @tag( 0123456789 ) // @lengthOf(
repeat
//
// " ++ [27880; 37322]%N ++ runes_of_ascii "
uint32
roots, }")).
Eval vm_compute in ("<<<M21>>>" ++ check (runes_of_ascii "packet	Z9_ {repeat options1 {
    repeat i16 o
// a // b
/// triple
`two words`
, match charz
as o { [ 4294967296 ,
""// no comment""	]:
// `tick` ""quote"" 'q'
// packet A { u8 x, }
u
    , } , match float
    as
    tag
{ [
00] : leftPad ,	[
""" ++ [233]%N ++ runes_of_ascii "t" ++ [233]%N ++ runes_of_ascii """ ,
""\n""
, 0 //
, ""CRC32"" ,
    1
    , """ ++ [28040; 24687]%N ++ runes_of_ascii """ , 255
    , 1]
: options1, 255	: x  , 00 : x ,
    } , repeat
string asx `u8 x,` , } ,
// " ++ [27880; 37322]%N ++ runes_of_ascii "
// a // b
zchar[ 3	] falsey ,}
    packet u
{
//x
// trailing space 
zchar[ 0 ]asx ,
    @tag(
    10
)
    @rightPad (' ' ) @rightPad
    //x
    ( '\x00') Logon
    @calculatedFrom( """ ++ [128512]%N ++ runes_of_ascii """ ) , repeat char[255 ] calculatedFrom	, uint16 lengthOf,
    }root /// triple
packet  pack { }
")).
Eval vm_compute in ("<<<M31>>>" ++ check (runes_of_ascii "packet options1
    {@leftPad
( )
    @calculatedFrom( ""\n"" )
    @leftPad (
' ' // " ++ [27880; 37322]%N ++ runes_of_ascii "
)
chars
T `say ""hi""` // " ++ [27880; 37322]%N ++ runes_of_ascii "
,
    // @lengthOf(
    repeat zchar
{  metadata {
// @lengthOf(
// c
match A as x_y_z {""1"" :
// " ++ [128512]%N ++ runes_of_ascii " emoji
// c
string_// @lengthOf(
[""// no comment""  ,
10 ] : Foo""a\\"": Packet [""a	b"",
    65535 ]
    :	x
,
}
,
} , } // " ++ [128512]%N ++ runes_of_ascii " emoji
,
@rightPad (
) f32
msg_type
    , match f32a as body { [
    ""`tick`"" , ""\n"" ,
    ""a	b"" ,
""{,}"" , 255 ,""x y"", 3
]:// @lengthOf(
x ,
    ""CRC32""
: zchar	, ""x y"" :
rootA // `tick` ""quote"" 'q'
[ 00
    ,
    ""it's""	, 4294967296 ,""CRC32"" ]:
roots 4294967296 : Logon}, @leftPad
('0')pack `crlf
line`
, }")).
Eval vm_compute in ("<<<M41>>>" ++ check (runes_of_ascii "
")).
Eval vm_compute in ("<<<T41>>>" ++ terms [mkTok 0 "<EOF>" 2 0 false] (mkPacket (mkPtok 0 "<EOF>" 2 0 0) None [])).
Eval vm_compute in ("<<<M51>>>" ++ check (runes_of_ascii "// a // b
root
    packet string_ { i32 options1 `say ""hi""`
, } packet stringy
// " ++ [128512]%N ++ runes_of_ascii " emoji
/// triple
{
    } MetaData
len  {i8i8
charz
    `u8 x,`,
// `tick` ""quote"" 'q'
// trailing space 
}")).
Eval vm_compute in ("<<<M61>>>" ++ check (runes_of_ascii "
MetaData// `tick` ""quote"" 'q'
asx
{
    // packet A { u8 x, }
    char
// @lengthOf(
//x
Z9_ , } options{ Pad
= '0' /// triple
} options { trueish = ""it's"" matchKey =
    false
    ; T = float32 ;
    /// triple
    len= ' ' ; string_
=
    i16 ; } root// `tick` ""quote"" 'q'
packet f32a{char[]
    // trailing space 
    u8x
    , }")).
Eval vm_compute in ("<<<M71>>>" ++ check (runes_of_ascii "packet Foo{ f64 Pad ,x
, }")).
Eval vm_compute in ("<<<M81>>>" ++ check (runes_of_ascii "options { repeatCount= 00 ; }
// " ++ [128512]%N ++ runes_of_ascii " emoji
")).
Eval vm_compute in ("<<<M91>>>" ++ check (runes_of_ascii "packet chars
{}// c
packet
len
{
    repeat char[] Foo
, @rightPad ('0' ) zchar[ 007 ]/// triple
a1`say ""hi""` , repeat BodyLength  leftPad ,}
root	packet u8x { f64 lengthOf
    @calculatedFrom(
""CRC32""	)
    ,
    string
zchar @lengthOf( int)
    `crlf
line` , int calculatedFrom , @lengthOf(As ) match falsey as asx {
65535: _x
    [ 1 ] :
    u 007:	uint8x
00:	f32a
, """ ++ [233]%N ++ runes_of_ascii "t" ++ [233]%N ++ runes_of_ascii """ :	Packet ,[ 42 ,""a\""b"" ] : len
    //x
    , } , @lengthOf(stringy
    // " ++ [128512]%N ++ runes_of_ascii " emoji
    )@calculatedFrom(  ""1"" )repeat A { char[]lengthOf  `it's` , }
, _x `" ++ [28040; 24687; 31867; 22411]%N ++ runes_of_ascii "` ,
    @leftPad ('0'
    ) match Foo as
crc {10 :
    trueish
// " ++ [27880; 37322]%N ++ runes_of_ascii "
//
, 42
:// " ++ [128512]%N ++ runes_of_ascii " emoji
Pad
, [4294967296
,  ""// no comment"" , ""{,}"" ]:
float
    ,  } , @lengthOf( u8x ) a1
// c
// trailing space 
@calculatedFrom( ""\" ++ [233]%N ++ runes_of_ascii """ ) // c
,} 	 ")).
Eval vm_compute in ("<<<M101>>>" ++ check (runes_of_ascii "MetaData chars {} packet lengthOf
{ @lengthOf(_x )uint16 /// triple
Z9_`" ++ [28040; 24687; 31867; 22411]%N ++ runes_of_ascii "`, repeat BodyLength{ repeat
    u8x zchar  , } ,a1	,
    // " ++ [27880; 37322]%N ++ runes_of_ascii "
    T @calculatedFrom( ""\" ++ [233]%N ++ runes_of_ascii """)
, match //	t
calculatedFrom
    as string_
    // " ++ [27880; 37322]%N ++ runes_of_ascii "
    { """ ++ [233]%N ++ runes_of_ascii "t" ++ [233]%N ++ runes_of_ascii """
    :// `tick` ""quote"" 'q'
_x // " ++ [128512]%N ++ runes_of_ascii " emoji
, ""a	b""
    : zchar [ ""x y"",
    10
    ,	""abc""
,
""packet""
, // c
""{,}"" //
,00] :  u128 ,""abc"":x_y_z
    ,  """ ++ [233]%N ++ runes_of_ascii "t" ++ [233]%N ++ runes_of_ascii """
    : // packet A { u8 x, }
packetx
} // a // b
, zchar[
    1 ]// " ++ [128512]%N ++ runes_of_ascii " emoji
A
    // " ++ [27880; 37322]%N ++ runes_of_ascii "
    @lengthOf( float
    // `tick` ""quote"" 'q'
    ) `say ""hi""`
    // trailing space 
    , repeat f32 asx
// " ++ [27880; 37322]%N ++ runes_of_ascii "
// " ++ [128512]%N ++ runes_of_ascii " emoji
,
    // " ++ [128512]%N ++ runes_of_ascii " emoji
    @rightPad
    ( ' ' // a // b
)	char[] msg_type `say ""hi""`,
} packet Pad
// " ++ [27880; 37322]%N ++ runes_of_ascii "
// " ++ [27880; 37322]%N ++ runes_of_ascii "
{ As @lengthOf( rootA )
`say ""hi""` , repeat
    _x // trailing space 
{
    Logon
Foo, // `tick` ""quote"" 'q'
falsey
MetaDataX ,
    }  ,msg_type
    // trailing space 
    roots `line1
line2`,pack pack , chars	`crlf
line` ,@lengthOf(lengthOf) match lengthOf
    as o { 3
    : falsey
    , } ,}packet // trailing space 
o {// packet A { u8 x, }
i64_`{ , }` ,
match MetaDataX as Foo { """ ++ [233]%N ++ runes_of_ascii "t" ++ [233]%N ++ runes_of_ascii """ :
    leftPad ,
[	00 ] : f32a
[ ""`tick`"",
    0123456789
]
: float ,
""it's"" : pack
, ""`tick`"" :
charz } ,
options1
    leftPad ,// packet A { u8 x, }
string body //
, @calculatedFrom(
""{,}""  )As
    //	t
    , // " ++ [128512]%N ++ runes_of_ascii " emoji
match u as
    Packet
    {
    ""it's"" :
_x	, 10 : BodyLength , ""\n"" :
float 4294967296 :falsey , 007 :	charz
,00 :stringy , },  repeat string_ ,
}root packet
Foo	{ repeat
    // " ++ [27880; 37322]%N ++ runes_of_ascii "
    char[	7 ] lengthOf `
`
    ,
//	t
//x
@lengthOf( Packet ) repeat // `tick` ""quote"" 'q'
i32 float , options1 _x	`{ , }`
, }
")).
Eval vm_compute in ("<<<M111>>>" ++ check (runes_of_ascii "
MetaData u8x {
    packetx
    len `crlf
line`
    ,char[
255
] calculatedFrom `" ++ [28040; 24687; 31867; 22411]%N ++ runes_of_ascii "` , float64  MetaDataX // `tick` ""quote"" 'q'
`say ""hi""` ,BodyLength
// `tick` ""quote"" 'q'
// trailing space 
charz
`crlf
line`// a // b
,
}packet lengthOf{
    //	t
    @tag( 4294967296 ) uint8x @calculatedFrom(
    ""\n"" ) `" ++ [28040; 24687; 31867; 22411]%N ++ runes_of_ascii "` ,
    char calculatedFrom	@calculatedFrom(
""" ++ [28040; 24687]%N ++ runes_of_ascii """) // " ++ [27880; 37322]%N ++ runes_of_ascii "
`two words` , }
")).
Eval vm_compute in ("<<<T111>>>" ++ terms [mkTok 37 "MetaData" 2 0 false; mkTok 42 "u8x" 2 9 false; mkTok 2 "{" 2 13 false; mkTok 42 "packetx" 3 4 false; mkTok 42 "len" 4 4 false; mkTok 43 (string_of_bytes [96; 99; 114; 108; 102; 13; 10; 108; 105; 110; 101; 96]%N) 4 8 false; mkTok 40 "," 6 4 false; mkTok 12 "char[" 6 5 false; mkTok 30 "255" 7 0 false; mkTok 13 "]" 8 0 false; mkTok 42 "calculatedFrom" 8 2 false; mkTok 43 (string_of_bytes [96; 230; 182; 136; 230; 129; 175; 231; 177; 187; 229; 158; 139; 96]%N) 8 17 false; mkTok 40 "," 8 24 false; mkTok 29 "float64" 8 26 false; mkTok 42 "MetaDataX" 8 35 false; mkTok 44 "// `tick` ""quote"" 'q'" 8 45 true; mkTok 43 "`say ""hi""`" 9 0 false; mkTok 40 "," 9 11 false; mkTok 42 "BodyLength" 9 12 false; mkTok 44 "// `tick` ""quote"" 'q'" 10 0 true; mkTok 44 "// trailing space " 11 0 true; mkTok 42 "charz" 12 0 false; mkTok 43 (string_of_bytes [96; 99; 114; 108; 102; 13; 10; 108; 105; 110; 101; 96]%N) 13 0 false; mkTok 44 "// a // b" 14 5 true; mkTok 40 "," 15 0 false; mkTok 3 "}" 16 0 false; mkTok 35 "packet" 16 1 false; mkTok 42 "lengthOf" 16 8 false; mkTok 2 "{" 16 16 false; mkTok 44 (string_of_bytes [47; 47; 9; 116]%N) 17 4 true; mkTok 9 "@tag(" 18 4 false; mkTok 30 "4294967296" 18 10 false; mkTok 6 ")" 18 21 false; mkTok 42 "uint8x" 18 23 false; mkTok 5 "@calculatedFrom(" 18 30 false; mkTok 31 """\n""" 19 4 false; mkTok 6 ")" 19 9 false; mkTok 43 (string_of_bytes [96; 230; 182; 136; 230; 129; 175; 231; 177; 187; 229; 158; 139; 96]%N) 19 11 false; mkTok 40 "," 19 18 false; mkTok 19 "char" 20 4 false; mkTok 42 "calculatedFrom" 20 9 false; mkTok 5 "@calculatedFrom(" 20 24 false; mkTok 31 (string_of_bytes [34; 230; 182; 136; 230; 129; 175; 34]%N) 21 0 false; mkTok 6 ")" 21 4 false; mkTok 44 (string_of_bytes [47; 47; 32; 230; 179; 168; 233; 135; 138]%N) 21 6 true; mkTok 43 "`two words`" 22 0 false; mkTok 40 "," 22 12 false; mkTok 3 "}" 22 14 false; mkTok 0 "<EOF>" 23 0 false] (mkPacket (mkPtok 37 "MetaData" 2 0 0) (Some (mkPtok 3 "}" 22 14 47)) [(DMeta (mkMetaDef (mkSpan (mkPtok 37 "MetaData" 2 0 0) (mkPtok 3 "}" 16 0 25)) (mkPtok 37 "MetaData" 2 0 0) (mkPtok 42 "u8x" 2 9 1) (mkPtok 2 "{" 2 13 2) [(MIRef (mkRefMetaDecl (mkSpan (mkPtok 42 "packetx" 3 4 3) (mkPtok 40 "," 6 4 6)) (mkPtok 42 "packetx" 3 4 3) (mkPtok 42 "len" 4 4 4) (Some (mkPtok 43 (string_of_bytes [96; 99; 114; 108; 102; 13; 10; 108; 105; 110; 101; 96]%N) 4 8 5)) (mkPtok 40 "," 6 4 6))); (MIDecl (mkMetaDecl (mkSpan (mkPtok 12 "char[" 6 5 7) (mkPtok 40 "," 8 24 12)) (TyFixed (mkSpan (mkPtok 12 "char[" 6 5 7) (mkPtok 13 "]" 8 0 9)) (mkFixedString (mkSpan (mkPtok 12 "char[" 6 5 7) (mkPtok 13 "]" 8 0 9)) (mkPtok 12 "char[" 6 5 7) (mkPtok 30 "255" 7 0 8) (mkPtok 13 "]" 8 0 9))) (mkPtok 42 "calculatedFrom" 8 2 10) (Some (mkPtok 43 (string_of_bytes [96; 230; 182; 136; 230; 129; 175; 231; 177; 187; 229; 158; 139; 96]%N) 8 17 11)) (mkPtok 40 "," 8 24 12))); (MIDecl (mkMetaDecl (mkSpan (mkPtok 29 "float64" 8 26 13) (mkPtok 40 "," 9 11 17)) (TyBasic (mkSpan (mkPtok 29 "float64" 8 26 13) (mkPtok 29 "float64" 8 26 13)) (mkBasicType (mkSpan (mkPtok 29 "float64" 8 26 13) (mkPtok 29 "float64" 8 26 13)) (mkPtok 29 "float64" 8 26 13))) (mkPtok 42 "MetaDataX" 8 35 14) (Some (mkPtok 43 "`say ""hi""`" 9 0 16)) (mkPtok 40 "," 9 11 17))); (MIRef (mkRefMetaDecl (mkSpan (mkPtok 42 "BodyLength" 9 12 18) (mkPtok 40 "," 15 0 24)) (mkPtok 42 "BodyLength" 9 12 18) (mkPtok 42 "charz" 12 0 21) (Some (mkPtok 43 (string_of_bytes [96; 99; 114; 108; 102; 13; 10; 108; 105; 110; 101; 96]%N) 13 0 22)) (mkPtok 40 "," 15 0 24)))] (mkPtok 3 "}" 16 0 25))); (DPacket (mkPacketDef (mkSpan (mkPtok 35 "packet" 16 1 26) (mkPtok 3 "}" 22 14 47)) None (mkPtok 35 "packet" 16 1 26) (mkPtok 42 "lengthOf" 16 8 27) (mkPtok 2 "{" 16 16 28) [(mkFieldWithAttr (mkSpan (mkPtok 9 "@tag(" 18 4 30) (mkPtok 40 "," 19 18 38)) [(FATag (mkSpan (mkPtok 9 "@tag(" 18 4 30) (mkPtok 6 ")" 18 21 32)) (mkTagAttr (mkSpan (mkPtok 9 "@tag(" 18 4 30) (mkPtok 6 ")" 18 21 32)) (mkPtok 9 "@tag(" 18 4 30) (mkPtok 30 "4294967296" 18 10 31) (mkPtok 6 ")" 18 21 32)))] (CheckSumField (mkSpan (mkPtok 42 "uint8x" 18 23 33) (mkPtok 40 "," 19 18 38)) (mkChecksumFieldDecl (mkSpan (mkPtok 42 "uint8x" 18 23 33) (mkPtok 40 "," 19 18 38)) None (mkPtok 42 "uint8x" 18 23 33) (mkCalculatedFrom (mkSpan (mkPtok 5 "@calculatedFrom(" 18 30 34) (mkPtok 6 ")" 19 9 36)) (mkPtok 5 "@calculatedFrom(" 18 30 34) (mkPtok 31 """\n""" 19 4 35) (mkPtok 6 ")" 19 9 36)) (Some (mkPtok 43 (string_of_bytes [96; 230; 182; 136; 230; 129; 175; 231; 177; 187; 229; 158; 139; 96]%N) 19 11 37)) (mkPtok 40 "," 19 18 38)))); (mkFieldWithAttr (mkSpan (mkPtok 19 "char" 20 4 39) (mkPtok 40 "," 22 12 46)) [] (CheckSumField (mkSpan (mkPtok 19 "char" 20 4 39) (mkPtok 40 "," 22 12 46)) (mkChecksumFieldDecl (mkSpan (mkPtok 19 "char" 20 4 39) (mkPtok 40 "," 22 12 46)) (Some (TyBasic (mkSpan (mkPtok 19 "char" 20 4 39) (mkPtok 19 "char" 20 4 39)) (mkBasicType (mkSpan (mkPtok 19 "char" 20 4 39) (mkPtok 19 "char" 20 4 39)) (mkPtok 19 "char" 20 4 39)))) (mkPtok 42 "calculatedFrom" 20 9 40) (mkCalculatedFrom (mkSpan (mkPtok 5 "@calculatedFrom(" 20 24 41) (mkPtok 6 ")" 21 4 43)) (mkPtok 5 "@calculatedFrom(" 20 24 41) (mkPtok 31 (string_of_bytes [34; 230; 182; 136; 230; 129; 175; 34]%N) 21 0 42) (mkPtok 6 ")" 21 4 43)) (Some (mkPtok 43 "`two words`" 22 0 45)) (mkPtok 40 "," 22 12 46))))] (mkPtok 3 "}" 22 14 47)))])).
Eval vm_compute in ("<<<M121>>>" ++ check (runes_of_ascii "//	t
packet
Logon { } 	 ")).
Eval vm_compute in ("<<<M131>>>" ++ check (runes_of_ascii "packet
crc// @lengthOf(
{ @rightPad ( '0' ) char[7
    // c
    ]
matchKey  @calculatedFrom( ""{,}"") , } packet x_y_z  {  @calculatedFrom( ""a\""b"" )
T
{ Header
{
    // packet A { u8 x, }
    lengthOf
packetx
`// not a comment` ,A
    i8i8 `crlf
line` , string o `line1
line2` ,
string_ @lengthOf( tag ) `line1
line2` , },
    } ,
match
lengthOf as	Z9_ {
""\" ++ [233]%N ++ runes_of_ascii """
: A , }
, match rootA as
matchKey// `tick` ""quote"" 'q'
{	[""`tick`""// @lengthOf(
,""x y""
] :  Packet, }
, //x
repeat zchar[
    1 ]// a // b
_x
// " ++ [128512]%N ++ runes_of_ascii " emoji
/// triple
, char[]
    msg_type , A rootA , } //")).
Eval vm_compute in ("<<<M141>>>" ++ check (runes_of_ascii "packet lengthOf
{ options1 {	calculatedFrom`line1
line2`	,
} ,  @tag(
4294967296 ) match	_x
as msg_type	{ ""\" ++ [233]%N ++ runes_of_ascii """ // @lengthOf(
:  o , },
}")).
Eval vm_compute in ("<<<M151>>>" ++ check (runes_of_ascii "options { i8i8  =
    int64 ; charz = ""// no comment""; repeatCount ="""" ; f32a = 0 stringy ='\x00' }
    // packet A { u8 x, }
    options
    {
Logon = 255
}
    packet Header // c
{} MetaData
lengthOf{
    // `tick` ""quote"" 'q'
    }
options {stringy  =false ; options1
= true ; asx=3
/// triple
/// triple
roots =
'\x00' }
")).
Eval vm_compute in ("<<<M161>>>" ++ check (runes_of_ascii "options { }")).
Eval vm_compute in ("<<<M171>>>" ++ check (@nil rune)).
Eval vm_compute in ("<<<M181>>>" ++ check (runes_of_ascii "options { Foo
    //	t
    = string }
")).
Eval vm_compute in ("<<<T181>>>" ++ terms [mkTok 1 "options" 1 0 false; mkTok 2 "{" 1 8 false; mkTok 42 "Foo" 1 10 false; mkTok 44 (string_of_bytes [47; 47; 9; 116]%N) 2 4 true; mkTok 4 "=" 3 4 false; mkTok 15 "string" 3 6 false; mkTok 3 "}" 3 13 false; mkTok 0 "<EOF>" 4 0 false] (mkPacket (mkPtok 1 "options" 1 0 0) (Some (mkPtok 3 "}" 3 13 6)) [(DOption (mkOptionDef (mkSpan (mkPtok 1 "options" 1 0 0) (mkPtok 3 "}" 3 13 6)) (mkPtok 1 "options" 1 0 0) (mkPtok 2 "{" 1 8 1) [(mkOptionDecl (mkSpan (mkPtok 42 "Foo" 1 10 2) (mkPtok 15 "string" 3 6 5)) (mkPtok 42 "Foo" 1 10 2) (mkPtok 4 "=" 3 4 4) (VType (mkSpan (mkPtok 15 "string" 3 6 5) (mkPtok 15 "string" 3 6 5)) (TyDynamic (mkSpan (mkPtok 15 "string" 3 6 5) (mkPtok 15 "string" 3 6 5)) (mkDynamicString (mkSpan (mkPtok 15 "string" 3 6 5) (mkPtok 15 "string" 3 6 5)) (mkPtok 15 "string" 3 6 5)))) None)] (mkPtok 3 "}" 3 13 6)))])).
Eval vm_compute in ("<<<M191>>>" ++ check (runes_of_ascii "// @lengthOf(
MetaData
zchar {string
o
`crlf
line`	, char[]
pack // c
`crlf
line` , char[]
    // trailing space 
    Foo,
} options { stringy =
""`tick`""
    } packet leftPad {
    packetx
    @lengthOf(  roots), @lengthOf(int
// a // b
// " ++ [27880; 37322]%N ++ runes_of_ascii "
) @calculatedFrom( ""a\""b"" )
    @calculatedFrom( """ ++ [28040; 24687]%N ++ runes_of_ascii """ ) int32
MetaDataX `" ++ [233]%N ++ runes_of_ascii "` // " ++ [27880; 37322]%N ++ runes_of_ascii "
, u8 int// `tick` ""quote"" 'q'
,
@lengthOf( options1
    ) repeat u8 BodyLength// `tick` ""quote"" 'q'
,
    @tag( 1
    ) Logon
    ,repeat int32 u8x
`say ""hi""`, match int
as
charz	{ ""abc"" : roots } ,string_ {zchar	@lengthOf( calculatedFrom ) ``
,
} , } root packet lengthOf {
@tag( 4294967296 )A // packet A { u8 x, }
@lengthOf( i64_ )`doc` , body@lengthOf( lengthOf ) `it's`
    // packet A { u8 x, }
    , zchar[ 10 ] // " ++ [27880; 37322]%N ++ runes_of_ascii "
i8i8, @calculatedFrom( """ ++ [233]%N ++ runes_of_ascii "t" ++ [233]%N ++ runes_of_ascii """	) i64 int `u8 x,`,	repeat trueish { string  options1 , zchar[
    0123456789 ]_x
`tab	here` ,
Pad
    { repeat string repeatCount , repeat string _x , Packet
@lengthOf( roots ) `
`
    , string crc@calculatedFrom(""abc""),
} , match i8i8 as  string_ {// c
[ ""it's""
]
:
options1 ,
//
// @lengthOf(
""a	b"":
string_ , [
""a	b""
, 00 ] //	t
: // `tick` ""quote"" 'q'
metadata  ,
    0 :	o
    ""\" ++ [233]%N ++ runes_of_ascii """
    : Pad // packet A { u8 x, }
,}
,} , char[7 ]  i8i8 `tab	here`
    , roots { repeat uint8 _x`tab	here`,	}  ,
    repeat int64 f32a	,
match asx
as calculatedFrom { 65535 : asx
// trailing space 
//x
, [ 1
] :  uint8x,
42 :x
[ ""x y"" , ""1"",""`tick`"" , ""1"" ,
""1""
,	""a	b"" ]
    :
    MetaDataX }
,} MetaData
chars
    { }")).
Eval vm_compute in ("<<<M201>>>" ++ check (runes_of_ascii "packet asx{
@lengthOf(	falsey
    //	t
    ) repeat uint64 charz , repeat // " ++ [128512]%N ++ runes_of_ascii " emoji
char[] As `it's`
, }packet
u8x { @tag(
    4294967296
    )
@calculatedFrom(
""`tick`""
) @calculatedFrom(""abc"" ) repeat // @lengthOf(
i64 options1 `it's`, match Logon as o {  3 :Z9_ 3:T , 3// c
:// @lengthOf(
u128,4294967296: Z9_ , [""""
,
10
    ] : body ,
    // c
    """ ++ [233]%N ++ runes_of_ascii "t" ++ [233]%N ++ runes_of_ascii """ : string_
//
/// triple
, } , @tag( 7 )
uint8x
    @lengthOf(
    //
    Foo ), repeat T _x//
`" ++ [233]%N ++ runes_of_ascii "`
, }")).
Eval vm_compute in ("<<<M211>>>" ++ check (runes_of_ascii "// c
options{
    //
    repeatCount = '0';leftPad =
' ';
// c
/// triple
msg_type
    = char[ 10
]
;}
packet
    Packet {//x
}
")).
Eval vm_compute in ("<<<M221>>>" ++ check (runes_of_ascii "packet i64_
    {} packet
    crc {
} options
{ }root packet
charz {} packet //
trueish{ repeat char[
    255] lengthOf `" ++ [28040; 24687; 31867; 22411]%N ++ runes_of_ascii "` , zchar[
//	t
/// triple
00 // a // b
]x`it's` ,/// triple
repeat	char[]
    // `tick` ""quote"" 'q'
    Packet `say ""hi""` , @calculatedFrom(
""x y"" // " ++ [27880; 37322]%N ++ runes_of_ascii "
) char[ 1] lengthOf, lengthOf`crlf
line` ,	match charz as MetaDataX { ""a	b""
// " ++ [27880; 37322]%N ++ runes_of_ascii "
// `tick` ""quote"" 'q'
: uint8x
    ""\n"" : calculatedFrom } , @tag(	10
) float64 i8i8 @calculatedFrom( """ ++ [128512]%N ++ runes_of_ascii """ ) `say ""hi""` ,
@rightPad(
'\x00' )
i32
Foo`it's`	,
}
")).
Eval vm_compute in ("<<<M231>>>" ++ check (runes_of_ascii "packet repeatCount
{ f64 // @lengthOf(
_x
@lengthOf( zchar
) ,
Z9_ , calculatedFrom @lengthOf(rootA
)
    `{ , }` ,} packet a1{
    /// triple
    chars
@lengthOf(
tag ), metadata
    , }packet
Packet
    { //x
@tag( 65535 )  @leftPad ( )@tag( 42)	char[ 0123456789]
    /// triple
    float @calculatedFrom(""CRC32"" )
    `tab	here` , repeat int8 string_, u8
x_y_z
`crlf
line`, // @lengthOf(
@tag( 0123456789
)zchar[
1
]	lengthOf @calculatedFrom( ""it's"" ) , // " ++ [27880; 37322]%N ++ runes_of_ascii "
}
")).
Eval vm_compute in ("<<<M241>>>" ++ check (runes_of_ascii "root packet Foo { @tag(00	)
char[] _x
@calculatedFrom(
    // trailing space 
    ""{,}"" ) ,@rightPad	( '0' )f32 Pad@calculatedFrom( ""abc""
// @lengthOf(
// " ++ [27880; 37322]%N ++ runes_of_ascii "
)
, @rightPad
    ( '0' )  repeat falsey string_
// @lengthOf(
// " ++ [128512]%N ++ runes_of_ascii " emoji
`{ , }` , @calculatedFrom( ""abc"" )//
@tag(
00 ) rootA@calculatedFrom( ""it's"" ), BodyLength/// triple
lengthOf `doc` , Z9_{ f64 Z9_ ,T
charz
    `" ++ [233]%N ++ runes_of_ascii "`
, x {
tag crc,
    repeat uint32	chars
, zchar[ 0123456789 ]roots ,
int64 charz@calculatedFrom(
    ""it's"" ) `" ++ [28040; 24687; 31867; 22411]%N ++ runes_of_ascii "` ,} , i8 msg_type//	t
@lengthOf( options1 )
,
    } ,
    repeat MetaDataX { matchKey i64_ , string tag @lengthOf(
    msg_type )// trailing space 
, tag { string f32a
,// " ++ [27880; 37322]%N ++ runes_of_ascii "
match crc as u128
{	4294967296  :
    Z9_ ,""" ++ [28040; 24687]%N ++ runes_of_ascii """ : a1 ,//	t
65535 : T , [ ""CRC32"" ,
1
, ""packet"" ]
: x_y_z , } ,	string matchKey @calculatedFrom(""" ++ [28040; 24687]%N ++ runes_of_ascii """ ) `two words`	, } , char[ 65535 // trailing space 
] Header@calculatedFrom( ""CRC32"" ) `// not a comment` ,
} ,match
Foo as metadata	{
[""1"" ,
//	t
// " ++ [27880; 37322]%N ++ runes_of_ascii "
""""
] :  metadata	[ 0123456789  ] : tag ,
""1"" :  T
//	t
// a // b
4294967296
    :x , // packet A { u8 x, }
0 :
trueish ,	""{,}"" :  metadata , // a // b
}, zchar[255
]
    u128
@lengthOf(float ) ,// trailing space 
} packet a1
{ @rightPad ( ' ' ) @tag( 7//x
)@tag( 10 )
//	t
// trailing space 
Header { Packet @lengthOf( lengthOf ) , string
options1
,
match zchar as pack
{ """" :o , """ ++ [28040; 24687]%N ++ runes_of_ascii """ :	leftPad  , """ ++ [28040; 24687]%N ++ runes_of_ascii """ :
crc } ,	Z9_
//x
// trailing space 
{
    //
    len//	t
int ,  } ,
    },}
")).
Eval vm_compute in ("<<<M251>>>" ++ check (runes_of_ascii "root packet
    x_y_z{ match lengthOf
as // `tick` ""quote"" 'q'
rootA { 42 :
    asx } ,	@rightPad(
' ' ) repeat u16 int`// not a comment`, @tag(42	)rootA string_, int32 lengthOf // trailing space 
,match
    As as falsey { [ ""// no comment"" ] :
    calculatedFrom,
    } , }
")).
Eval vm_compute in ("<<<T251>>>" ++ terms [mkTok 34 "root" 1 0 false; mkTok 35 "packet" 1 5 false; mkTok 42 "x_y_z" 2 4 false; mkTok 2 "{" 2 9 false; mkTok 38 "match" 2 11 false; mkTok 42 "lengthOf" 2 17 false; mkTok 17 "as" 3 0 false; mkTok 44 "// `tick` ""quote"" 'q'" 3 3 true; mkTok 42 "rootA" 4 0 false; mkTok 2 "{" 4 6 false; mkTok 30 "42" 4 8 false; mkTok 39 ":" 4 11 false; mkTok 42 "asx" 5 4 false; mkTok 3 "}" 5 8 false; mkTok 40 "," 5 10 false; mkTok 32 "@rightPad" 5 12 false; mkTok 8 "(" 5 21 false; mkTok 33 "' '" 6 0 false; mkTok 6 ")" 6 4 false; mkTok 36 "repeat" 6 6 false; mkTok 21 "u16" 6 13 false; mkTok 42 "int" 6 17 false; mkTok 43 "`// not a comment`" 6 20 false; mkTok 40 "," 6 38 false; mkTok 9 "@tag(" 6 40 false; mkTok 30 "42" 6 45 false; mkTok 6 ")" 6 48 false; mkTok 42 "rootA" 6 49 false; mkTok 42 "string_" 6 55 false; mkTok 40 "," 6 62 false; mkTok 26 "int32" 6 64 false; mkTok 42 "lengthOf" 6 70 false; mkTok 44 "// trailing space " 6 79 true; mkTok 40 "," 7 0 false; mkTok 38 "match" 7 1 false; mkTok 42 "As" 8 4 false; mkTok 17 "as" 8 7 false; mkTok 42 "falsey" 8 10 false; mkTok 2 "{" 8 17 false; mkTok 18 "[" 8 19 false; mkTok 31 """// no comment""" 8 21 false; mkTok 13 "]" 8 37 false; mkTok 39 ":" 8 39 false; mkTok 42 "calculatedFrom" 9 4 false; mkTok 40 "," 9 18 false; mkTok 3 "}" 10 4 false; mkTok 40 "," 10 6 false; mkTok 3 "}" 10 8 false; mkTok 0 "<EOF>" 11 0 false] (mkPacket (mkPtok 34 "root" 1 0 0) (Some (mkPtok 3 "}" 10 8 47)) [(DPacket (mkPacketDef (mkSpan (mkPtok 34 "root" 1 0 0) (mkPtok 3 "}" 10 8 47)) (Some (mkPtok 34 "root" 1 0 0)) (mkPtok 35 "packet" 1 5 1) (mkPtok 42 "x_y_z" 2 4 2) (mkPtok 2 "{" 2 9 3) [(mkFieldWithAttr (mkSpan (mkPtok 38 "match" 2 11 4) (mkPtok 40 "," 5 10 14)) [] (MatchField (mkSpan (mkPtok 38 "match" 2 11 4) (mkPtok 40 "," 5 10 14)) (mkMatchFieldDecl (mkSpan (mkPtok 38 "match" 2 11 4) (mkPtok 3 "}" 5 8 13)) (mkPtok 38 "match" 2 11 4) (mkPtok 42 "lengthOf" 2 17 5) (mkPtok 17 "as" 3 0 6) (mkPtok 42 "rootA" 4 0 8) (mkPtok 2 "{" 4 6 9) [(mkMatchPair (mkSpan (mkPtok 30 "42" 4 8 10) (mkPtok 42 "asx" 5 4 12)) (MKDigits (mkPtok 30 "42" 4 8 10)) (mkPtok 39 ":" 4 11 11) (mkPtok 42 "asx" 5 4 12) None)] (mkPtok 3 "}" 5 8 13)) (mkPtok 40 "," 5 10 14))); (mkFieldWithAttr (mkSpan (mkPtok 32 "@rightPad" 5 12 15) (mkPtok 40 "," 6 38 23)) [(FAPadding (mkSpan (mkPtok 32 "@rightPad" 5 12 15) (mkPtok 6 ")" 6 4 18)) (mkPaddingAttr (mkSpan (mkPtok 32 "@rightPad" 5 12 15) (mkPtok 6 ")" 6 4 18)) (mkPtok 32 "@rightPad" 5 12 15) (mkPtok 8 "(" 5 21 16) (Some (mkPtok 33 "' '" 6 0 17)) (mkPtok 6 ")" 6 4 18)))] (MetaField (mkSpan (mkPtok 36 "repeat" 6 6 19) (mkPtok 40 "," 6 38 23)) (Some (mkPtok 36 "repeat" 6 6 19)) (mkMetaDecl (mkSpan (mkPtok 21 "u16" 6 13 20) (mkPtok 40 "," 6 38 23)) (TyBasic (mkSpan (mkPtok 21 "u16" 6 13 20) (mkPtok 21 "u16" 6 13 20)) (mkBasicType (mkSpan (mkPtok 21 "u16" 6 13 20) (mkPtok 21 "u16" 6 13 20)) (mkPtok 21 "u16" 6 13 20))) (mkPtok 42 "int" 6 17 21) (Some (mkPtok 43 "`// not a comment`" 6 20 22)) (mkPtok 40 "," 6 38 23)))); (mkFieldWithAttr (mkSpan (mkPtok 9 "@tag(" 6 40 24) (mkPtok 40 "," 6 62 29)) [(FATag (mkSpan (mkPtok 9 "@tag(" 6 40 24) (mkPtok 6 ")" 6 48 26)) (mkTagAttr (mkSpan (mkPtok 9 "@tag(" 6 40 24) (mkPtok 6 ")" 6 48 26)) (mkPtok 9 "@tag(" 6 40 24) (mkPtok 30 "42" 6 45 25) (mkPtok 6 ")" 6 48 26)))] (ObjectField (mkSpan (mkPtok 42 "rootA" 6 49 27) (mkPtok 40 "," 6 62 29)) None (mkPtok 42 "rootA" 6 49 27) (Some (mkPtok 42 "string_" 6 55 28)) None (mkPtok 40 "," 6 62 29))); (mkFieldWithAttr (mkSpan (mkPtok 26 "int32" 6 64 30) (mkPtok 40 "," 7 0 33)) [] (MetaField (mkSpan (mkPtok 26 "int32" 6 64 30) (mkPtok 40 "," 7 0 33)) None (mkMetaDecl (mkSpan (mkPtok 26 "int32" 6 64 30) (mkPtok 40 "," 7 0 33)) (TyBasic (mkSpan (mkPtok 26 "int32" 6 64 30) (mkPtok 26 "int32" 6 64 30)) (mkBasicType (mkSpan (mkPtok 26 "int32" 6 64 30) (mkPtok 26 "int32" 6 64 30)) (mkPtok 26 "int32" 6 64 30))) (mkPtok 42 "lengthOf" 6 70 31) None (mkPtok 40 "," 7 0 33)))); (mkFieldWithAttr (mkSpan (mkPtok 38 "match" 7 1 34) (mkPtok 40 "," 10 6 46)) [] (MatchField (mkSpan (mkPtok 38 "match" 7 1 34) (mkPtok 40 "," 10 6 46)) (mkMatchFieldDecl (mkSpan (mkPtok 38 "match" 7 1 34) (mkPtok 3 "}" 10 4 45)) (mkPtok 38 "match" 7 1 34) (mkPtok 42 "As" 8 4 35) (mkPtok 17 "as" 8 7 36) (mkPtok 42 "falsey" 8 10 37) (mkPtok 2 "{" 8 17 38) [(mkMatchPair (mkSpan (mkPtok 18 "[" 8 19 39) (mkPtok 40 "," 9 18 44)) (MKList (mkKeyList (mkSpan (mkPtok 18 "[" 8 19 39) (mkPtok 13 "]" 8 37 41)) (mkPtok 18 "[" 8 19 39) (mkPtok 31 """// no comment""" 8 21 40) [] (mkPtok 13 "]" 8 37 41))) (mkPtok 39 ":" 8 39 42) (mkPtok 42 "calculatedFrom" 9 4 43) (Some (mkPtok 40 "," 9 18 44)))] (mkPtok 3 "}" 10 4 45)) (mkPtok 40 "," 10 6 46)))] (mkPtok 3 "}" 10 8 47)))])).
Eval vm_compute in ("<<<M261>>>" ++ check (runes_of_ascii "packet a1 {//	t
} root packet float {char[] pack ,
@tag(
65535 ) u16 string_
// trailing space 
// c
, repeat rootA	{
// `tick` ""quote"" 'q'
//x
repeat
    asx charz
`a\`, }
    // `tick` ""quote"" 'q'
    ,}
")).
Eval vm_compute in ("<<<M271>>>" ++ check (runes_of_ascii "/// triple
MetaData Logon
    {i16 body
, } /// triple
root packet
Z9_ {	_x
// packet A { u8 x, }
// " ++ [128512]%N ++ runes_of_ascii " emoji
{
Foo {
    matchKey { repeat
    leftPad body ,
    u128 MetaDataX ,
    match uint8x as BodyLength{ ""abc"": int , [42
    ,
    10
    ]: Z9_ , 1 :// a // b
i64_ 0123456789 :
u ,  ""a\""b""
: chars , }
    ,
repeat //	t
int32
//x
//	t
packetx
    , } ,  match zchar as u128
    // @lengthOf(
    { 007 //x
: msg_type	""a\\"" : asx, """":T
, 007 : charz, ""abc"":
    /// triple
    matchKey , ""x y"":  string_ ,
}
, repeat  zchar[
0123456789 ]// trailing space 
msg_type `doc` ,}, match Z9_ as MetaDataX
{	[ 0 , ""1""
    ]:
    // packet A { u8 x, }
    uint8x [ 65535 ,
//
//	t
""""] :
    x_y_z
,""x y"": falsey ,
65535
:
packetx, ""// no comment"": falsey [ 4294967296 , ""a\""b"" ,
    ""\n"" , ""a\""b""	,
    255 ]: charz	, } // @lengthOf(
,
}
,
    chars
    int `u8 x,`
    , @tag(65535)
char[] Header `{ , }` , @tag(
    255
) match	repeatCount as
    A { [4294967296 ,""\" ++ [233]%N ++ runes_of_ascii """ , ""packet"" , // packet A { u8 x, }
42 ,
007 , """ ++ [128512]%N ++ runes_of_ascii """, ""a\""b"" ]// c
:
    lengthOf , ""// no comment""
:
a1 ,""\n"" : MetaDataX//x
3 // a // b
:
// @lengthOf(
// packet A { u8 x, }
body	, } , }
")).
Eval vm_compute in ("<<<M281>>>" ++ check (runes_of_ascii "MetaData x { char[]crc , char[7 ]float, u64 //	t
f32a	,}
    packet
int
    {Pad/// triple
@lengthOf(Pad )
`{ , }`, }
    MetaData
/// triple
//
T {
A
i8i8`it's` ,
u8x options1 , roots zchar // `tick` ""quote"" 'q'
,	int16 u8x , char[] a1
`say ""hi""`, char
//	t
/// triple
Pad ,
    } // a // b")).
Eval vm_compute in ("<<<M291>>>" ++ check (runes_of_ascii "packet falsey
    { //	t
_x { T@calculatedFrom(
""" ++ [28040; 24687]%N ++ runes_of_ascii """
),int64 roots , match
    float as a1 { 1//	t
:falsey  , [
    // c
    ""CRC32""  ,""a\""b"" ,
    255 , 65535 , 42	,0123456789]
:
pack
, }, } , pack
    { falsey//x
, } , packetx // packet A { u8 x, }
, }
")).
Eval vm_compute in ("<<<M301>>>" ++ check (runes_of_ascii "options {
	StringPrefixLenType = u16;
	ArrayPrefixLenType = u16;
}

packet SampleBinary {
    uint16 MsgType `" ++ [28040; 24687; 31867; 22411]%N ++ runes_of_ascii "`,
    u16 BodyLenght @lengthOf(Body) `" ++ [28040; 24687; 20307; 38271; 24230]%N ++ runes_of_ascii "`,
    match MsgType as Body {
        1 : Logon,
        2 : Logout,
        3 : Heartbeat,
        4 : RiskControlRequest,
        5 : RiskControlResponse,
    },
        @calculatedFrom(""CRC32"")
    u32 Ckecksum `" ++ [26657; 39564; 21644]%N ++ runes_of_ascii "`,
}

packet Logon {
     @leftPad('0')
    char[10] UserName `" ++ [29992; 25143; 21517]%N ++ runes_of_ascii "`,
    string Password `" ++ [23494; 30721]%N ++ runes_of_ascii "`,
    uint64 ClientId `" ++ [23458; 25143; 31471]%N ++ runes_of_ascii "ID`,
    u16 HeartbeatInterval `" ++ [24515; 36339; 38388; 38548]%N ++ runes_of_ascii "`,
}

packet Logout {
      @rightPad('0')
    char[10] UserName `" ++ [29992; 25143; 21517]%N ++ runes_of_ascii "`,
    uint64 ClientId `" ++ [23458; 25143; 31471]%N ++ runes_of_ascii "ID`,
}

packet Heartbeat {
}

packet RiskControlRequest {
    string UniqueOrderId `" ++ [21807; 19968; 35746; 21333; 21495]%N ++ runes_of_ascii "`,
    char[16] ClOrdID `" ++ [23458; 25143; 35746; 21333; 21495]%N ++ runes_of_ascii "`,
    char[3] MarketID `" ++ [24066; 22330]%N ++ runes_of_ascii "id`,
    char[12] SecurityID `" ++ [35777; 21048; 20195; 30721]%N ++ runes_of_ascii "`,
    char Side `" ++ [20080; 21334; 26041; 21521]%N ++ runes_of_ascii "`,
    char OrderType `" ++ [35746; 21333; 31867; 22411]%N ++ runes_of_ascii "`,
    u64 Price `" ++ [20215; 26684]%N ++ runes_of_ascii "`,
    u32 Qty `" ++ [25968; 37327]%N ++ runes_of_ascii "`,
    repeat string ExtraInfo `" ++ [38468; 21152; 20449; 24687]%N ++ runes_of_ascii "`,
    repeat SubOrder {
    		char[16] ClOrdID `" ++ [23376; 35746; 21333; 21495]%N ++ runes_of_ascii "`,
    		u64 Price `" ++ [23376; 35746; 21333; 20215; 26684]%N ++ runes_of_ascii "`,
    		u32 Qty `" ++ [23376; 35746; 21333; 25968; 37327]%N ++ runes_of_ascii "`,
    	},
}

packet RiskControlResponse {
    string UniqueOrderId `" ++ [21807; 19968; 35746; 21333; 21495]%N ++ runes_of_ascii "`,
    i32 Status `" ++ [29366; 24577]%N ++ runes_of_ascii "`,
    string Msg `" ++ [32467; 26524; 20449; 24687]%N ++ runes_of_ascii "`,
    repeat Detail,
}

packet Detail {
    string RuleName `" ++ [35268; 21017; 21517; 31216]%N ++ runes_of_ascii "`,
    u16 Code `" ++ [21407; 22240; 20195; 30721]%N ++ runes_of_ascii "`,
}")).
Eval vm_compute in ("<<<M311>>>" ++ check (runes_of_ascii "packet root asx { @tag(007 ) // @lengthOf(
repeat
    u64  leftPad , } packet
i64_{ // packet A { u8 x, }
@calculatedFrom(
""a\""b"" )
    zchar[
    10]
    chars,
    }
    MetaData A { charz
uint8x
    // trailing space 
    , len uint8x , u8
    charz,	string_ msg_type ,}
")).
Eval vm_compute in ("<<<M321>>>" ++ check (runes_of_ascii "root packet { asx @tag(007 ) // @lengthOf(
repeat
    u64  leftPad , } packet
i64_{ // packet A { u8 x, }
@calculatedFrom(
""a\""b"" )
    zchar[
    10]
    chars,
    }
    MetaData A { charz
uint8x
    // trailing space 
    , len uint8x , u8
    charz,	string_ msg_type ,}
")).
Eval vm_compute in ("<<<M331>>>" ++ check (runes_of_ascii "root packet asx { 007@tag( ) // @lengthOf(
repeat
    u64  leftPad , } packet
i64_{ // packet A { u8 x, }
@calculatedFrom(
""a\""b"" )
    zchar[
    10]
    chars,
    }
    MetaData A { charz
uint8x
    // trailing space 
    , len uint8x , u8
    charz,	string_ msg_type ,}
")).
Eval vm_compute in ("<<<M341>>>" ++ check (runes_of_ascii "root packet asx { @tag(007 repeat // @lengthOf(
)
    u64  leftPad , } packet
i64_{ // packet A { u8 x, }
@calculatedFrom(
""a\""b"" )
    zchar[
    10]
    chars,
    }
    MetaData A { charz
uint8x
    // trailing space 
    , len uint8x , u8
    charz,	string_ msg_type ,}
")).
Eval vm_compute in ("<<<M351>>>" ++ check (runes_of_ascii "root packet asx { @tag(007 ) // @lengthOf(
repeat
    leftPad  u64 , } packet
i64_{ // packet A { u8 x, }
@calculatedFrom(
""a\""b"" )
    zchar[
    10]
    chars,
    }
    MetaData A { charz
uint8x
    // trailing space 
    , len uint8x , u8
    charz,	string_ msg_type ,}
")).
Eval vm_compute in ("<<<M361>>>" ++ check (runes_of_ascii "root packet asx { @tag(007 ) // @lengthOf(
repeat
    u64  leftPad } , packet
i64_{ // packet A { u8 x, }
@calculatedFrom(
""a\""b"" )
    zchar[
    10]
    chars,
    }
    MetaData A { charz
uint8x
    // trailing space 
    , len uint8x , u8
    charz,	string_ msg_type ,}
")).
Eval vm_compute in ("<<<M371>>>" ++ check (runes_of_ascii "root packet asx { @tag(007 ) // @lengthOf(
repeat
    u64  leftPad , } i64_
packet{ // packet A { u8 x, }
@calculatedFrom(
""a\""b"" )
    zchar[
    10]
    chars,
    }
    MetaData A { charz
uint8x
    // trailing space 
    , len uint8x , u8
    charz,	string_ msg_type ,}
")).
Eval vm_compute in ("<<<M381>>>" ++ check (runes_of_ascii "root packet asx { @tag(007 ) // @lengthOf(
repeat
    u64  leftPad , } packet
i64_@calculatedFrom( // packet A { u8 x, }
{
""a\""b"" )
    zchar[
    10]
    chars,
    }
    MetaData A { charz
uint8x
    // trailing space 
    , len uint8x , u8
    charz,	string_ msg_type ,}
")).
Eval vm_compute in ("<<<M391>>>" ++ check (runes_of_ascii "root packet asx { @tag(007 ) // @lengthOf(
repeat
    u64  leftPad , } packet
i64_{ // packet A { u8 x, }
@calculatedFrom(
) ""a\""b""
    zchar[
    10]
    chars,
    }
    MetaData A { charz
uint8x
    // trailing space 
    , len uint8x , u8
    charz,	string_ msg_type ,}
")).
Eval vm_compute in ("<<<M401>>>" ++ check (runes_of_ascii "root packet asx { @tag(007 ) // @lengthOf(
repeat
    u64  leftPad , } packet
i64_{ // packet A { u8 x, }
@calculatedFrom(
""a\""b"" )
    10
    zchar[ ]
    chars,
    }
    MetaData A { charz
uint8x
    // trailing space 
    , len uint8x , u8
    charz,	string_ msg_type ,}
")).
Eval vm_compute in ("<<<M411>>>" ++ check (runes_of_ascii "root packet asx { @tag(007 ) // @lengthOf(
repeat
    u64  leftPad , } packet
i64_{ // packet A { u8 x, }
@calculatedFrom(
""a\""b"" )
    zchar[
    10 chars
    ],
    }
    MetaData A { charz
uint8x
    // trailing space 
    , len uint8x , u8
    charz,	string_ msg_type ,}
")).
Eval vm_compute in ("<<<M421>>>" ++ check (runes_of_ascii "root packet asx { @tag(007 ) // @lengthOf(
repeat
    u64  leftPad , } packet
i64_{ // packet A { u8 x, }
@calculatedFrom(
""a\""b"" )
    zchar[
    10]
    chars}
    ,
    MetaData A { charz
uint8x
    // trailing space 
    , len uint8x , u8
    charz,	string_ msg_type ,}
")).
Eval vm_compute in ("<<<M431>>>" ++ check (runes_of_ascii "root packet asx { @tag(007 ) // @lengthOf(
repeat
    u64  leftPad , } packet
i64_{ // packet A { u8 x, }
@calculatedFrom(
""a\""b"" )
    zchar[
    10]
    chars,
    }
    A MetaData { charz
uint8x
    // trailing space 
    , len uint8x , u8
    charz,	string_ msg_type ,}
")).
Eval vm_compute in ("<<<M441>>>" ++ check (runes_of_ascii "root packet asx { @tag(007 ) // @lengthOf(
repeat
    u64  leftPad , } packet
i64_{ // packet A { u8 x, }
@calculatedFrom(
""a\""b"" )
    zchar[
    10]
    chars,
    }
    MetaData A charz {
uint8x
    // trailing space 
    , len uint8x , u8
    charz,	string_ msg_type ,}
")).
Eval vm_compute in ("<<<M451>>>" ++ check (runes_of_ascii "root packet asx { @tag(007 ) // @lengthOf(
repeat
    u64  leftPad , } packet
i64_{ // packet A { u8 x, }
@calculatedFrom(
""a\""b"" )
    zchar[
    10]
    chars,
    }
    MetaData A { charz
,
    // trailing space 
    uint8x len uint8x , u8
    charz,	string_ msg_type ,}
")).
Eval vm_compute in ("<<<M461>>>" ++ check (runes_of_ascii "root packet asx { @tag(007 ) // @lengthOf(
repeat
    u64  leftPad , } packet
i64_{ // packet A { u8 x, }
@calculatedFrom(
""a\""b"" )
    zchar[
    10]
    chars,
    }
    MetaData A { charz
uint8x
    // trailing space 
    , uint8x len , u8
    charz,	string_ msg_type ,}
")).
Eval vm_compute in ("<<<M471>>>" ++ check (runes_of_ascii "root packet asx { @tag(007 ) // @lengthOf(
repeat
    u64  leftPad , } packet
i64_{ // packet A { u8 x, }
@calculatedFrom(
""a\""b"" )
    zchar[
    10]
    chars,
    }
    MetaData A { charz
uint8x
    // trailing space 
    , len uint8x u8 ,
    charz,	string_ msg_type ,}
")).
Eval vm_compute in ("<<<M481>>>" ++ check (runes_of_ascii "root packet asx { @tag(007 ) // @lengthOf(
repeat
    u64  leftPad , } packet
i64_{ // packet A { u8 x, }
@calculatedFrom(
""a\""b"" )
    zchar[
    10]
    chars,
    }
    MetaData A { charz
uint8x
    // trailing space 
    , len uint8x , u8
    ,charz	string_ msg_type ,}
")).
Eval vm_compute in ("<<<M491>>>" ++ check (runes_of_ascii "root packet asx { @tag(007 ) // @lengthOf(
repeat
    u64  leftPad , } packet
i64_{ // packet A { u8 x, }
@calculatedFrom(
""a\""b"" )
    zchar[
    10]
    chars,
    }
    MetaData A { charz
uint8x
    // trailing space 
    , len uint8x , u8
    charz,	msg_type string_ ,}
")).
Eval vm_compute in ("<<<M501>>>" ++ check (runes_of_ascii "root packet asx { @tag(007 ) // @lengthOf(
repeat
    u64  leftPad , } packet
i64_{ // packet A { u8 x, }
@calculatedFrom(
""a\""b"" )
    zchar[
    10]
    chars,
    }
    MetaData A { charz
uint8x
    // trailing space 
    , len uint8x , u8
    charz,	string_ msg_type },
")).
Eval vm_compute in ("<<<M511>>>" ++ check (runes_of_ascii "root packet asx { @tag(007 ) // @lengthOf(
repeat
    u64  leftPad , } packet
i64_{ // packet A { u8 x, }
@calculatedFrom(
""a\""b"" ")).
Eval vm_compute in ("<<<M521>>>" ++ check (runes_of_ascii "root packet | asx { @tag(007 ) // @lengthOf(
repeat
    u64  leftPad , } packet
i64_{ // packet A { u8 x, }
@calculatedFrom(
""a\""b"" )
    zchar[
    10]
    chars,
    }
    MetaData A { charz
uint8x
    // trailing space 
    , len uint8x , u8
    charz,	string_ msg_type ,}
")).
Eval vm_compute in ("<<<M531>>>" ++ check (runes_of_ascii "MetaData asx
{ zchar[ 7
] roots
,leftPad
Foo
    `" ++ [233]%N ++ runes_of_ascii "`
, Header Header , int16
falsey , // `tick` ""quote"" 'q'
u16 Packet  int64 packetx// " ++ [128512]%N ++ runes_of_ascii " emoji
,}")).
Eval vm_compute in ("<<<M541>>>" ++ check (runes_of_ascii "MetaData asx
{ zchar[ 7
] roots
,leftPad
Foo
    `" ++ [233]%N ++ runes_of_ascii "`
, Header Header , int16
falsey , // `tick` ""quote"" 'q'
u16 Packet , int64 packetx// " ++ [128512]%N ++ runes_of_ascii " emoji
,}")).
Eval vm_compute in ("<<<T541>>>" ++ terms [mkTok 37 "MetaData" 1 0 false; mkTok 42 "asx" 1 9 false; mkTok 2 "{" 2 0 false; mkTok 14 "zchar[" 2 2 false; mkTok 30 "7" 2 9 false; mkTok 13 "]" 3 0 false; mkTok 42 "roots" 3 2 false; mkTok 40 "," 4 0 false; mkTok 42 "leftPad" 4 1 false; mkTok 42 "Foo" 5 0 false; mkTok 43 (string_of_bytes [96; 195; 169; 96]%N) 6 4 false; mkTok 40 "," 7 0 false; mkTok 42 "Header" 7 2 false; mkTok 42 "Header" 7 9 false; mkTok 40 "," 7 16 false; mkTok 25 "int16" 7 18 false; mkTok 42 "falsey" 8 0 false; mkTok 40 "," 8 7 false; mkTok 44 "// `tick` ""quote"" 'q'" 8 9 true; mkTok 21 "u16" 9 0 false; mkTok 42 "Packet" 9 4 false; mkTok 40 "," 9 11 false; mkTok 27 "int64" 9 13 false; mkTok 42 "packetx" 9 19 false; mkTok 44 (string_of_bytes [47; 47; 32; 240; 159; 152; 128; 32; 101; 109; 111; 106; 105]%N) 9 26 true; mkTok 40 "," 10 0 false; mkTok 3 "}" 10 1 false; mkTok 0 "<EOF>" 10 2 false] (mkPacket (mkPtok 37 "MetaData" 1 0 0) (Some (mkPtok 3 "}" 10 1 26)) [(DMeta (mkMetaDef (mkSpan (mkPtok 37 "MetaData" 1 0 0) (mkPtok 3 "}" 10 1 26)) (mkPtok 37 "MetaData" 1 0 0) (mkPtok 42 "asx" 1 9 1) (mkPtok 2 "{" 2 0 2) [(MIDecl (mkMetaDecl (mkSpan (mkPtok 14 "zchar[" 2 2 3) (mkPtok 40 "," 4 0 7)) (TyFixed (mkSpan (mkPtok 14 "zchar[" 2 2 3) (mkPtok 13 "]" 3 0 5)) (mkFixedString (mkSpan (mkPtok 14 "zchar[" 2 2 3) (mkPtok 13 "]" 3 0 5)) (mkPtok 14 "zchar[" 2 2 3) (mkPtok 30 "7" 2 9 4) (mkPtok 13 "]" 3 0 5))) (mkPtok 42 "roots" 3 2 6) None (mkPtok 40 "," 4 0 7))); (MIRef (mkRefMetaDecl (mkSpan (mkPtok 42 "leftPad" 4 1 8) (mkPtok 40 "," 7 0 11)) (mkPtok 42 "leftPad" 4 1 8) (mkPtok 42 "Foo" 5 0 9) (Some (mkPtok 43 (string_of_bytes [96; 195; 169; 96]%N) 6 4 10)) (mkPtok 40 "," 7 0 11))); (MIRef (mkRefMetaDecl (mkSpan (mkPtok 42 "Header" 7 2 12) (mkPtok 40 "," 7 16 14)) (mkPtok 42 "Header" 7 2 12) (mkPtok 42 "Header" 7 9 13) None (mkPtok 40 "," 7 16 14))); (MIDecl (mkMetaDecl (mkSpan (mkPtok 25 "int16" 7 18 15) (mkPtok 40 "," 8 7 17)) (TyBasic (mkSpan (mkPtok 25 "int16" 7 18 15) (mkPtok 25 "int16" 7 18 15)) (mkBasicType (mkSpan (mkPtok 25 "int16" 7 18 15) (mkPtok 25 "int16" 7 18 15)) (mkPtok 25 "int16" 7 18 15))) (mkPtok 42 "falsey" 8 0 16) None (mkPtok 40 "," 8 7 17))); (MIDecl (mkMetaDecl (mkSpan (mkPtok 21 "u16" 9 0 19) (mkPtok 40 "," 9 11 21)) (TyBasic (mkSpan (mkPtok 21 "u16" 9 0 19) (mkPtok 21 "u16" 9 0 19)) (mkBasicType (mkSpan (mkPtok 21 "u16" 9 0 19) (mkPtok 21 "u16" 9 0 19)) (mkPtok 21 "u16" 9 0 19))) (mkPtok 42 "Packet" 9 4 20) None (mkPtok 40 "," 9 11 21))); (MIDecl (mkMetaDecl (mkSpan (mkPtok 27 "int64" 9 13 22) (mkPtok 40 "," 10 0 25)) (TyBasic (mkSpan (mkPtok 27 "int64" 9 13 22) (mkPtok 27 "int64" 9 13 22)) (mkBasicType (mkSpan (mkPtok 27 "int64" 9 13 22) (mkPtok 27 "int64" 9 13 22)) (mkPtok 27 "int64" 9 13 22))) (mkPtok 42 "packetx" 9 19 23) None (mkPtok 40 "," 10 0 25)))] (mkPtok 3 "}" 10 1 26)))])).
Eval vm_compute in ("<<<M551>>>" ++ check (runes_of_ascii "MetaData asx
{ zchar[ 7
] roots
,leftPad
Foo
    `" ++ [233]%N ++ runes_of_ascii "`
, Header Header , int16
@rightPad , // `tick` ""quote"" 'q'
u16 Packet , int64 packetx// " ++ [128512]%N ++ runes_of_ascii " emoji
,}")).
Eval vm_compute in ("<<<M561>>>" ++ check (runes_of_ascii "MetaData asx
{ zchar[ 7
] roots
,leftPad
Foo
    `" ++ [233]%N ++ runes_of_ascii "`
@leftPad Header Header , int16
falsey , // `tick` ""quote"" 'q'
u16 Packet , int64 packetx// " ++ [128512]%N ++ runes_of_ascii " emoji
,}")).
Eval vm_compute in ("<<<M571>>>" ++ check (runes_of_ascii "/")).
Eval vm_compute in ("<<<M581>>>" ++ check ([65533]%N ++ runes_of_ascii ">" ++ [21]%N ++ runes_of_ascii "-" ++ [65533; 65533]%N ++ runes_of_ascii "p" ++ [65533]%N ++ runes_of_ascii "r9" ++ [65533]%N ++ runes_of_ascii "h" ++ [65533; 65533]%N ++ runes_of_ascii "," ++ [17; 65533; 65533; 65533; 21]%N ++ runes_of_ascii "B" ++ [65533; 901]%N ++ runes_of_ascii "%F" ++ [65533; 65533]%N ++ runes_of_ascii "T" ++ [11; 65533; 65533; 65533]%N ++ runes_of_ascii "tv" ++ [65533]%N ++ runes_of_ascii "p" ++ [3; 65533]%N)).
Eval vm_compute in ("<<<M591>>>" ++ check (runes_of_ascii "string int64 packet packet = as trueish ] true as @rightPad @rightPad")).
