From FP Require Import Lexer Parser ShowPT Digest Formatter.
From Coq Require Import String List NArith.
Import ListNotations.
Open Scope string_scope.
Set Printing Width 100000000.
Set Printing Depth 100000000.
Definition show_fres (r : fres) : string :=
  match r with
  | FOk s => "OK:" ++ sh_escaped s ""
  | FErr s => "ERR:" ++ sh_escaped s ""
  | FPanic p => "PANIC:" ++ p
  end.
Definition check (rs : list rune) : string := digest (show_fres (format_res rs)).
Definition full (rs : list rune) : string := show_fres (format_res rs).
Eval vm_compute in ("<<<M1743>>>" ++ check (runes_of_ascii "// top
options {
    // c1
    FixedStringPadFromLeft = true;
    // c5
    FixedStringPadChar = '0';
    // c9
}// c10

packet Leg {
    // c13
    repeat InSym93 {
        // c16
        zchar[3] Acct,
        // c21
        string Side2,// c24
        i32 Flags,
        // c27
        f32 Note,// c30a
        // c30b
        i32 msgKind,
    },
    // c35
    f64 Note,// c38
    uint16 Px,// c41a
    // c41b
}

// c42
packet Quote {
    // c45a
    // c45b
    zchar[2] OrderId,
}// c51

packet Ack {
    // c54a
    // c54b
    repeat string lastPx,
    // c58
    zchar[4] price,
    uint32 OrderId,// c66
    Quote,
    // c68
    int8 Acct,
    // c71
}

packet Fill {
    // c75
    repeat Leg,// c78a
    // c78b
    @rightPad('0')
    // c82
    char[11] Note,// c87a
    // c87b
    f64 Px,
    // c90
    @rightPad('\x00')
    // c94a
    // c94b
    char[5] Flags,
    zchar[9] x,// c104a
    // c104b
    string msgKind,
}// c108

root packet Order {
    // c112
    Leg,// c114a
    // c114b
    repeat Ack,
    @rightPad('\x00')
    char[3] Side2,// c126
    repeat char[1] seqNo,// c132
    u16 clOrdID,// c135a
    // c135b
    match clOrdID as Body {
        // c140
        198 : Leg,
        // c144a
        // c144b
        23 : Quote,
        // c148
        13 : Ack,
        // c152
        159 : Fill,
        // c156
    },
    u32 venue @calculatedFrom(""CRC32""),
    // c164
}// c165a
// c165b")).
Eval vm_compute in ("<<<M1817>>>" ++ check (runes_of_ascii "packet o 
// trailing space 
//x
		{  repeat

    pack
stringy

    `two words`
	,
    char[ 1  ] leftPad
	, } 
  /// triple
  	// @lengthOf(
  MetaData msg_type {
zchar[ 1  ]
Pad`" ++ [28040; 24687; 31867; 22411]%N ++ runes_of_ascii "` ,
uint32 	 //x

	charz//
		`a\` ,

    A

    u8x
`// not a comment`

    , 
// `tick` ""quote"" 'q'
  } packet options1 {@calculatedFrom(
	""" ++ [233]%N ++ runes_of_ascii "t" ++ [233]%N ++ runes_of_ascii """
)
	@rightPad

( ) Pad @lengthOf(// packet A { u8 x, }
    pack)
``,match  A as a1
{
255 : msg_type,}
    ,
	    // " ++ [27880; 37322]%N ++ runes_of_ascii "
  //
	@lengthOf( tag
    )@tag(
00 )@rightPad

    (  ' ' 
) match

Header 
as
f32a
{"""":
    float
	,}  // @lengthOf(
  ,  char[]T@calculatedFrom( 
// packet A { u8 x, }

""packet""  )

,repeat asx/// triple
    	msg_type
    `crlf
line` , @calculatedFrom(""\" ++ [233]%N ++ runes_of_ascii """ )
@tag( 	 // trailing space 
	7
	)
	int64

o`line1
line2`

    , 
    // trailing space 
	}// " ++ [128512]%N ++ runes_of_ascii " emoji
    	root packet  // packet A { u8 x, }
  crc  {

int8
body
	@lengthOf( 
matchKey )	`two words`
, 
      //	t
		@lengthOf(
	u8x

)	zchar[ 0123456789]	i8i8 , }
    MetaData  a1 {	falsey _x
	`
` ,
char[] 
body `" ++ [28040; 24687; 31867; 22411]%N ++ runes_of_ascii "` , 
    // packet A { u8 x, }
  //
  zchar[42]

trueish `
`

,  float
    trueish, metadata 	 //x
	o`{ , }`  ,	}

")).
Eval vm_compute in ("<<<M1478>>>" ++ check (runes_of_ascii "root packet repeatCount {
    @lengthOf(u8x)
    @calculatedFrom(""1"")
    @tag(007)
    repeat zchar[42] Header `" ++ [28040; 24687; 31867; 22411]%N ++ runes_of_ascii "`,
    match options1 as asx {
        255 : roots,
    },// a // b
    Header @lengthOf(options1) ``,
    Header @lengthOf(len) `{ , }`,
    o matchKey `u8 x,`,
}

packet packetx {
    zchar[255] crc,
}

packet Logon {
    body {
        float {
            repeat Logon trueish,
        },
    },
    @calculatedFrom(""`tick`"")
    repeat char[0] f32a,
    match body as float {
        [65535, """ ++ [28040; 24687]%N ++ runes_of_ascii """] : calculatedFrom,
    },
    u32 float @calculatedFrom(""" ++ [233]%N ++ runes_of_ascii "t" ++ [233]%N ++ runes_of_ascii """),
    string body @lengthOf(len) `
        `,
    u8x @calculatedFrom(""a\""b""),//	t
    float64 options1 @calculatedFrom(""" ++ [128512]%N ++ runes_of_ascii """) `it's`,
    //x
    // trailing space 
    match crc as chars {
        3 : options1,
        [10] : _x,
        [""{,}""] : options1,
        [
            ""CRC32"", ""a\\"", ""a\\"",
            ""packet"", 7
        ] : As,
    },
    i16 msg_type,
}")).
Eval vm_compute in ("<<<M1123>>>" ++ check (runes_of_ascii "// top
options
    // c0
{
    // c1
uint8x
    // c2
=
    // c3
007
    // c4
;
    // c5
lengthOf
    // c6
=
    // c7
i8
    // c8
;
    // c9
}
    // c10
packet
    // c11
i64_
    // c12
{
    // c13
@calculatedFrom(
    // c14
""1""
    // c15
)
    // c16
@tag(
    // c17
3
    // c18
)
    // c19
@lengthOf(
    // c20
rootA
    // c21
)
    // c22
repeat
    // c23
int8
    // c24
Packet
    // c25
`u8 x,`
    // c26
,
    // c27
}
    // c28
root
    // c29
packet
    // c30
stringy
    // c31
{
    // c32
@rightPad
    // c33
(
    // c34
' '
    // c35
)
    // c36
repeat
    // c37
char[
    // c38
10
    // c39
]
    // c40
repeatCount
    // c41
,
    // c42
@tag(
    // c43
255
    // c44
)
    // c45
float64
    // c46
msg_type
    // c47
@calculatedFrom(
    // c48
""packet""
    // c49
)
    // c50
,
    // c51
}
    // c52
")).
Eval vm_compute in ("<<<M330>>>" ++ check (runes_of_ascii "root packet
As {
} MetaData Pad { string
    metadata  `// not a comment` ,
    }
packet metadata
    { string	charz
`a\` , @leftPad ( ' ' )pack@lengthOf(x_y_z ), @calculatedFrom( ""packet"")
match crc
    as chars { [ ""packet"" ,7 ]
    :  repeatCount }
, Pad @lengthOf( matchKey
    ),
@calculatedFrom( ""\n""
    )int64
    Z9_ @lengthOf(
    // a // b
    _x ),
@lengthOf(repeatCount// trailing space 
) repeat float
{ u128 @lengthOf( zchar) , u8 crc
, } ,
    int64 pack, u128
    `it's` , repeat
// a // b
// `tick` ""quote"" 'q'
i32 T , //	t
@tag(00 ) rootA  @lengthOf(
float
    )
,
} MetaData Header // @lengthOf(
{u32 u,	string A `crlf
line` ,
u16
    roots `a\` ,int16 chars , }
packet repeatCount { repeat char[
// trailing space 
//x
65535]
    x `line1
line2`
, }")).
Eval vm_compute in ("<<<M4>>>" ++ check (runes_of_ascii "packet
    // " ++ [128512]%N ++ runes_of_ascii " emoji
    u128
{ repeat char[
// trailing space 
// packet A { u8 x, }
65535 ] float ,
}
options  { f32a
= char[] ; } packet// trailing space 
_x { @rightPad ('0' ) // packet A { u8 x, }
@lengthOf(i8i8) @lengthOf(lengthOf
)  repeat	Z9_//x
`crlf
line`, string_ {
// `tick` ""quote"" 'q'
// c
zchar[7
]x_y_z , Header x
`line1
line2` ,
    }, //	t
@leftPad ( )
    match float
as	x_y_z
{ """ ++ [28040; 24687]%N ++ runes_of_ascii """ : metadata, 007 :
    A,00 : falsey
    , 0123456789  : Foo // trailing space 
,0123456789
:
    zchar
, } ,@calculatedFrom( ""1"" )
@tag(
/// triple
/// triple
0	) char[
00 ] options1	, } packet Pad{
u16
body
@lengthOf( stringy // c
), } options { BodyLength ='0'msg_type =""a\""b"" ; }

")).
Eval vm_compute in ("<<<M78>>>" ++ check (runes_of_ascii "options {
Header	=u32; } options {
i8i8	=
    f64 ; body
    =  zchar[
// " ++ [128512]%N ++ runes_of_ascii " emoji
/// triple
00//
] ; }
    //
    MetaData BodyLength  { // trailing space 
}// " ++ [27880; 37322]%N ++ runes_of_ascii "
options
{ Logon= u64 As =
    true i64_
= '\x00' ;
} root packet asx {
@tag(
// `tick` ""quote"" 'q'
//	t
4294967296
    )
    roots @lengthOf( A ) ,repeat uint8 u128
    , int32 i64_  ,
    u8 u `` ,
@lengthOf(
// c
// c
len ) uint64
    //x
    matchKey ,	match rootA
    as stringy {
1 : string_, 7 : charz , 255 : u128, [ // trailing space 
0
,0123456789 ,1,007  ]: len
    , 10
    :trueish } ,
@rightPad	()
    char[ 7] int //
@lengthOf(
x ) `two words`
, }")).
Eval vm_compute in ("<<<M1696>>>" ++ check (runes_of_ascii "options

{

As=	// trailing space 
    zchar[4294967296 ]
;

}	//	t
	packet

len// packet A { u8 x, }
{	@lengthOf( _x)	match
    // c
	  lengthOf as 
  //
// `tick` ""quote"" 'q'
      string_ 	 // c
    	{  [ 4294967296 ] :i64_  ""a	b"" 
: o

    ,  },leftPad @calculatedFrom( ""`tick`"") 
        // trailing space 
		// `tick` ""quote"" 'q'
  ,
    @leftPad(	'\x00'	)repeat
    charz	/// triple
    msg_type

, repeat i8
Foo
, }

packet  msg_type
    { 

    //x
  // @lengthOf(
@leftPad(
'0' )  u64  repeatCount
@calculatedFrom(
    """ ++ [28040; 24687]%N ++ runes_of_ascii """) 
,  // packet A { u8 x, }
} ")).
Eval vm_compute in ("<<<M1392>>>" ++ check (runes_of_ascii "packet Logon {
    repeatCount {
        BodyLength `crlf
                line`,
    },
    zchar a1 `u8 x,`,
    match Foo as Foo {
        ""\n"" : i8i8,
        [
            ""abc"",
            ""CRC32""
        ] : crc,
        [
            3, ""x y"", 42, ""`tick`"", 1,
            ""a\""b"", ""CRC32"", 255
        ] : repeatCount,
        [
            1, 007, ""\n"", 007, 7,
            ""// no comment"", 255
        ] : uint8x,
        00 : f32a,
    },
    // a // b
    uint16 Pad @lengthOf(uint8x) `doc`,
}")).
Eval vm_compute in ("<<<M264>>>" ++ check (runes_of_ascii "options  {
    float
=
    char[]
} // packet A { u8 x, }
root packet
    Logon
    { @tag( 1 ) // a // b
@calculatedFrom( ""packet""
// a // b
// " ++ [128512]%N ++ runes_of_ascii " emoji
)zchar[ 3 ]
// c
//x
Z9_ ,@lengthOf( charz )
@calculatedFrom( ""1""
)match
roots
as int
    { ""a	b""
:MetaDataX , }
    ,@calculatedFrom( ""a\""b""	)
    match
    asx as lengthOf { """ ++ [128512]%N ++ runes_of_ascii """
    : _x,
[ 255 ] : BodyLength
    ,3 :
    u8x , 0123456789:T} ,
    len@lengthOf(leftPad )`u8 x,` , } // @lengthOf(")).
Eval vm_compute in ("<<<M1550>>>" ++ check (runes_of_ascii "

  packet  As

{ 
@leftPad() 
char[
0	]Logon
,char[
    0

]
	Z9_
@calculatedFrom(
	""abc""
        // c
    )
,@tag(
4294967296
) i64
    matchKey @calculatedFrom(
""// no comment""//
      )

    `two words` 
,

i16
    A
,}  // " ++ [27880; 37322]%N ++ runes_of_ascii "

  packet

T
	{ zchar[3 ] 
tag	// packet A { u8 x, }
  @lengthOf(
chars )  , }packet  // " ++ [128512]%N ++ runes_of_ascii " emoji
BodyLength
{
    calculatedFrom
    @lengthOf( body
)
	`
`	,} // a // b
")).
Eval vm_compute in ("<<<M114>>>" ++ check (runes_of_ascii "packet
a1 {@calculatedFrom(""`tick`"" ) uint32 charz	`crlf
line` ,
// c
//x
a1 `tab	here`, }
    options
    {
// " ++ [27880; 37322]%N ++ runes_of_ascii "
// " ++ [128512]%N ++ runes_of_ascii " emoji
stringy =
// c
// a // b
255 ;
    metadata =	4294967296 pack
    = /// triple
string	; crc= string
    ; }  root  packet
crc	{ @tag(  42  )
@calculatedFrom( ""abc""  )
@rightPad ( '0'
) u128 u8x
/// triple
//x
,@lengthOf(len) uint16 int, }
")).
Eval vm_compute in ("<<<M1856>>>" ++ check (runes_of_ascii "options {
    LittleEndian = true;
    StringPrefixLenType = u16;
    FixedStringPadChar = ' ';
}

packet Logon {
    @leftPad('0')
    char[10] tag7,
}

root packet Ack {
    int32 Px,
    uint16 count,
    string Qty,
    string OrderId,
    string Flags,
    u8 x,
    match x as Body {
        [58, 169] : Logon,
    },
}")).
Eval vm_compute in ("<<<M1310>>>" ++ check (runes_of_ascii "
packet
A
	{

u8 a
	, } packet
    B 
{ u16 b
,
	} packet
    C 
{	u32 
c,

}
	root
    packet

    M
	{u16

    Kc ,
u16 Kb
	, u16
    Ka

,
match  Kc

    as
X
	{9
:A

    ,
10
:B  , } ,match	Kb  as
Y{	2
: C
,  1 :A

,

} ,  match	Ka
    as
Z {
1 :
B	, 
}, A 
,B
, C
,

    }")).
Eval vm_compute in ("<<<M1320>>>" ++ check (runes_of_ascii "packet P1 {
    u8 a,
}
packet P2 {
    P1,
}
packet P3 {
    P2,
    P1,
}
packet P4 {
    repeat P3,
    P2,
}
root packet P5 {
    P4,
    P3,
    P1,
    u8 K,
    match K as Body {
        4 : P4,
        3 : P3,
        2 : P2,
        1 : P1,
    },
}
")).
Eval vm_compute in ("<<<M203>>>" ++ check (runes_of_ascii "root packet Pad {match //	t
falsey as
    A{
255:// `tick` ""quote"" 'q'
T, } , int64
Header	`tab	here`
, repeat i64_ `line1
line2`, @tag( 7 )
    float32	zchar
    @calculatedFrom( ""\" ++ [233]%N ++ runes_of_ascii """
    )
//
// @lengthOf(
,u64 Header ,
    }
")).
Eval vm_compute in ("<<<M1896>>>" ++ check (runes_of_ascii "MetaData falsey {
    Header falsey `
    `,
    string Foo `" ++ [28040; 24687; 31867; 22411]%N ++ runes_of_ascii "`,
    falsey repeatCount,
    i8 u,
}

packet A {
    match _x as T {
        007 : lengthOf,
        // `tick` ""quote"" 'q'
    },
}")).
Eval vm_compute in ("<<<M1281>>>" ++ check (runes_of_ascii "// top
root // c0a
  // c0b
packet P {
    // c3
u16
    // c4
a
    // c5
,
    // c6
u32 // c7a
  // c7b
Sum // c8
@calculatedFrom( // c9a
  // c9b
""CRC32"" ) , } // c13
")).
Eval vm_compute in ("<<<M1601>>>" ++ check (runes_of_ascii "packet A {
    match k as n {
        [
            1, ""bb"", 007, ""d"", 5,
            ""f"", 7, ""h"", 9, ""j"",
            11
        ] : B,
        2 : C,
    },
}")).
Eval vm_compute in ("<<<M55>>>" ++ check (runes_of_ascii "MetaData x_y_z
//x
//x
{ int32
    o
,zchar[
65535  ]Packet , i64_ o , i64 o`
` , } options
{ x =
//x
/// triple
u8;
// " ++ [27880; 37322]%N ++ runes_of_ascii "
// a // b
} // trailing space ")).
Eval vm_compute in ("<<<M506>>>" ++ check (runes_of_ascii "packet uint8x
{ match pack
    as msg_type	{
    0123456789 :	float
}
,
} packet //	t
a1
    { } options {packetx
    = '\x00'	; ; u128= ""a	b""  ; }
")).
Eval vm_compute in ("<<<M422>>>" ++ check (runes_of_ascii "packet uint8x
{ match pack
    as {	msg_type
    0123456789 :	float
}
,
} packet //	t
a1
    { } options {packetx
    = '\x00'	; u128= ""a	b""  ; }
")).
Eval vm_compute in ("<<<M425>>>" ++ check (runes_of_ascii "packet uint8x
{ match pack
    as msg_type	
    0123456789 :	float
}
,
} packet //	t
a1
    { } options {packetx
    = '\x00'	; u128= ""a	b""  ; }
")).
Eval vm_compute in ("<<<M1901>>>" ++ check (runes_of_ascii "  MetaData
leftPad 
{ 
chars
MetaDataX  , } packet

repeatCount
    { char[255
    ] uint8x`" ++ [233]%N ++ runes_of_ascii "` 
, }  MetaData pack 
{
	As
    Foo	,} 

    // c
 
")).
Eval vm_compute in ("<<<M664>>>" ++ check (runes_of_ascii "// @lengthOf(
packet i8i8 { u128 o , }
options { MetaDataX = true;
    BodyLength =""packet"" packet= 007
crc //x
= ""abc"" ;
    msg_type =
i16 }")).
Eval vm_compute in ("<<<M699>>>" ++ check (runes_of_ascii "// @lengthOf(
packet i8i8 { a" ++ [769]%N ++ runes_of_ascii "b o , }
options { MetaDataX = true;
    BodyLength =""packet"" x_y_z= 007
crc //x
= ""abc"" ;
    msg_type =
i16 }")).
Eval vm_compute in ("<<<M519>>>" ++ check (runes_of_ascii "packet uint8x
{ match pack
    as msg_type	{
    0123456789 :	float
}
,
} packet //	t
a1
    { } options {packetx
    = '\x00'	; u128")).
Eval vm_compute in ("<<<M1733>>>" ++ check (runes_of_ascii "packet A {
    match k as n {
        [
            1, ""bb"", 007, ""d"", 5,
            ""f"", 7
        ] : B,
        2 : C,
    },
}")).
Eval vm_compute in ("<<<M1261>>>" ++ check (runes_of_ascii "packet B {
    u8 a,
}
root packet P {
    u8 K,
    u64 L @lengthOf(Body),
    match K as Body {
        1 : B,
    },
}
")).
Eval vm_compute in ("<<<M1156>>>" ++ check (runes_of_ascii "MetaData leftPad { chars MetaDataX , }
// c
packet repeatCount { char[ 255 ] uint8x `" ++ [233]%N ++ runes_of_ascii "` , } MetaData pack { As Foo , }")).
Eval vm_compute in ("<<<M1188>>>" ++ check (runes_of_ascii "MetaData leftPad { chars MetaDataX , } packet repeatCount { char[ 255 ] uint8x `" ++ [233]%N ++ runes_of_ascii "` , } MetaData pack { As Foo ,
// c
}")).
Eval vm_compute in ("<<<M894>>>" ++ check (runes_of_ascii "packet A {
  match k as n {
    [""a"", ""bb"", ""c c"", ""d"", ""e"", ""f"", ""g"", ""h"", ""i"", ""j"", ""k""] : B
    2 : C
  },
}")).
Eval vm_compute in ("<<<M1672>>>" ++ check (runes_of_ascii "packet A
	{
	match	k

as n{[  ""a""  , ""bb"" ,
	""c c""
,
""d""	,""e"",

""f""
,
""g""
] : 
B

,
2 : C
}
,

    }")).
Eval vm_compute in ("<<<M1903>>>" ++ check (runes_of_ascii "
root

    packet
SimpleMessage {uint16	MsgType
	`" ++ [28040; 24687; 31867; 22411]%N ++ runes_of_ascii "`
,string
	JsonBody`Json" ++ [23383; 31526; 20018; 28040; 24687; 20307]%N ++ runes_of_ascii "`

,

    }")).
Eval vm_compute in ("<<<M554>>>" ++ check (runes_of_ascii "
packet packet
    asx {match u128 as lengthOf
{
//	t
// `tick` ""quote"" 'q'
255 : x ,
    } ,	}")).
Eval vm_compute in ("<<<M1838>>>" ++ check (runes_of_ascii "
packet A{  Inner 
{

match
k

    as n	{
	[
1
	,
22
]
    :B

    ,

}	,}
	,
    }

")).
Eval vm_compute in ("<<<M632>>>" ++ check (runes_of_ascii "
packet
    asx {match u128 a|s lengthOf
{
//	t
// `tick` ""quote"" 'q'
255 : x ,
    } ,	}")).
Eval vm_compute in ("<<<M1471>>>" ++ check (runes_of_ascii "
packet 
A
{ 
Inner
	{	u8
	x
    `a
b` ,
    Deep{ 
u8	y
`a
b` , }
	,

    },

}

")).
Eval vm_compute in ("<<<M1955>>>" ++ check (runes_of_ascii "

  packet A  { match k
	as n

    {  [ 1,""bb""	,

    007
,
	""d""	] :B 2 : C}
,

}")).
Eval vm_compute in ("<<<M832>>>" ++ check (runes_of_ascii "packet A {
  match k as n {
    [""a"", 22, ""c c"", 4, ""e"", 66] : B,
    2 : C
  },
}")).
Eval vm_compute in ("<<<M1819>>>" ++ check (runes_of_ascii "packet A {
    match k as n {
        [""a"", ""bb""] : B,
        2 : C,
    },
}")).
Eval vm_compute in ("<<<M1463>>>" ++ check (runes_of_ascii "packet

A	{ 
match k
	as  n {[ 
""a""
,
""bb""
    ] : B,	2

    :C } , }
")).
Eval vm_compute in ("<<<M794>>>" ++ check (runes_of_ascii "packet A {
  match k as n {
    [""a"", 22, ""c c""] : B
    2 : C
  },
}")).
Eval vm_compute in ("<<<M780>>>" ++ check (runes_of_ascii "packet A {
  match k as n {
    [""a"", ""bb""] : B,
    2 : C
  },
}")).
Eval vm_compute in ("<<<M779>>>" ++ check (runes_of_ascii "packet A {
  match k as n {
    [1, 22] : B
    2 : C
  },
}")).
Eval vm_compute in ("<<<M1573>>>" ++ check (runes_of_ascii "  // top

	packet 	 // c0
  x	// c1

  {// c2
	}  // c3
")).
Eval vm_compute in ("<<<M1203>>>" ++ check (runes_of_ascii "packet body { // c
i32 f32a `{ , }` , } options { }")).
Eval vm_compute in ("<<<M654>>>" ++ check (runes_of_ascii "// @lengthOf(
packet i8i8 { u128 o , }
options {")).
Eval vm_compute in ("<<<M1855>>>" ++ check (runes_of_ascii "  packet A

    {
	u8 x	,  // c
  u8
y,	} ")).
Eval vm_compute in ("<<<M1827>>>" ++ check (runes_of_ascii "root packet A {
    u8 x `
        `,
}")).
Eval vm_compute in ("<<<M1436>>>" ++ check (runes_of_ascii "// top
packet x {
    // c2
}// c3")).
Eval vm_compute in ("<<<M1788>>>" ++ check (runes_of_ascii "packet A {
    u8 x `
    x`,
}")).
Eval vm_compute in ("<<<M1947>>>" ++ check (runes_of_ascii "MetaData repeatCount {
}
//	t")).
Eval vm_compute in ("<<<M1593>>>" ++ check (runes_of_ascii "  packet

pack
    {
}

")).
Eval vm_compute in ("<<<M1110>>>" ++ check (runes_of_ascii "MetaData tag {
// c
}")).
Eval vm_compute in ("<<<M1133>>>" ++ check (runes_of_ascii "MetaData u
// c
{ }")).
Eval vm_compute in ("<<<M1027>>>" ++ check (runes_of_ascii "// c" ++ [8287]%N ++ runes_of_ascii "
packet A {
}")).
Eval vm_compute in ("<<<M1019>>>" ++ check (runes_of_ascii "packet A {
}// c" ++ [8239]%N)).
Eval vm_compute in ("<<<M1734>>>" ++ check (runes_of_ascii "  options {	}
")).
Eval vm_compute in ("<<<M1826>>>" ++ check (runes_of_ascii "
// c" ++ [11]%N)).
Eval vm_compute in ("<<<M86>>>" ++ check (runes_of_ascii "  ")).
