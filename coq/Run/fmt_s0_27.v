From FP Require Import Lexer Parser ShowPT Digest Formatter.
From Coq Require Import String List NArith.
Import ListNotations.
Open Scope string_scope.
Set Printing Width 100000000.
Set Printing Depth 100000000.
Definition show_fres (r : fres) : string :=
  match r with
  | FOk s => "OK:" ++ sh_escaped s ""
  | FErr s => "ERR:" ++ sh_escaped s ""
  | FPanic p => "PANIC:" ++ p
  end.
Definition check (rs : list rune) : string := digest (show_fres (format_res rs)).
Definition full (rs : list rune) : string := show_fres (format_res rs).
Eval vm_compute in ("<<<M121>>>" ++ check (runes_of_ascii "options {
    tag
=
int32 ; } root
    packet T { repeat a1 { match x_y_z as charz { [	00,
// trailing space 
// c
4294967296,""it's"" ,
    // " ++ [128512]%N ++ runes_of_ascii " emoji
    """ ++ [28040; 24687]%N ++ runes_of_ascii """ ]:	zchar
, [ ""packet"" ,
/// triple
/// triple
""x y"" , ""it's"" ,""abc""
,""it's""
    ]	: string_, 0  :Z9_ } , }
// `tick` ""quote"" 'q'
// " ++ [128512]%N ++ runes_of_ascii " emoji
, match u8x as pack { [
0123456789
    //
    , ""x y"" /// triple
] :trueish, } , @calculatedFrom( ""a\""b"" ) repeat string_`two words` ,repeat //	t
calculatedFrom
`crlf
line` , chars  {i16 chars , }  ,
    } MetaData x_y_z{  }
    options
    {  } packet charz { u16 i64_@lengthOf( Packet ) `say ""hi""`
    ,	match len as Packet {
    [ """ ++ [28040; 24687]%N ++ runes_of_ascii """
    // trailing space 
    ] : chars ,4294967296
:a1 ,
    1 : int
,
// c
// a // b
42: Logon[ 255 ]
    //
    :
    Packet , }, // `tick` ""quote"" 'q'
@lengthOf(
a1
    ) body  { repeat	u32
    Z9_ `doc` , }, @leftPad (
    '\x00'
)int16
options1 @calculatedFrom(
    """ ++ [233]%N ++ runes_of_ascii "t" ++ [233]%N ++ runes_of_ascii """	) ,@tag( 65535 ) repeat leftPad
    `100% of %d`
, //	t
@calculatedFrom( ""x y"" ) @lengthOf(	Header ) @tag( 1
) match // `tick` ""quote"" 'q'
Foo
    as	T
{ 0123456789 :T// @lengthOf(
,
10	: charz , """ ++ [28040; 24687]%N ++ runes_of_ascii """ : Packet[0123456789 //x
,	""// no comment"",
7
    ,  00 //
, 10
    ,3 ,
00 ,
""\" ++ [233]%N ++ runes_of_ascii """] : Foo }
,
@calculatedFrom( ""packet"" ) @rightPad	( ' ' ) @tag( 0)i64 chars , @lengthOf(
    MetaDataX
    ) int8 A
@lengthOf( repeatCount ) `a\` ,char[1  ] roots
@calculatedFrom(  """ ++ [128512]%N ++ runes_of_ascii """
) ,
}
")).
Eval vm_compute in ("<<<M1666>>>" ++ check (runes_of_ascii "packet

    metadata { float// " ++ [27880; 37322]%N ++ runes_of_ascii "
  	,
    repeat
    string
calculatedFrom,  @rightPad

    (
' '
	)

    chars
a1 , 
@leftPad
	(
    '0'  )
@tag(  255 ) @calculatedFrom(	""" ++ [233]%N ++ runes_of_ascii "t" ++ [233]%N ++ runes_of_ascii """

)

match

    trueish	as
x

{// packet A { u8 x, }
    ""x y""  :  calculatedFrom [

42

    ]
	    // 50% %s
		: float ,
3 // @lengthOf(

:
	packetx 	 // c

  ,
} ,

    zchar[
00]
	crc 
,

repeat

char[

    1
    ]	roots
	`doc`	,// trailing space 

match
	float
	as
    Logon
{ 7

    :
    metadata 
, } ,
@lengthOf(Logon	)
    @tag(

    00

)

    @tag(42
    )	match
Logon as
    options1{7 
:	MetaDataX
3 : 	 // " ++ [128512]%N ++ runes_of_ascii " emoji
    calculatedFrom  ,
	10
:
	Pad	// 50% %s
  ,

    [	""" ++ [128512]%N ++ runes_of_ascii """ ,  ""// no comment""  ]	: packetx
    ,[ 
42
, 
""packet""
	,""1"", ""a\""b"",
    42]	:
	Z9_

    }
    ,float32  // a // b
  falsey 	 //	t
    	`{ , }`,

@calculatedFrom(
""CRC32""

    )
i64 As `doc`
,

}	/// triple
      packet _x// " ++ [27880; 37322]%N ++ runes_of_ascii "
	{

repeat
    //	t
      u{ 
	// " ++ [27880; 37322]%N ++ runes_of_ascii "
    repeat  zchar

    calculatedFrom  //	t
	  `a\`  ,leftPad A  `it's`
,
    string leftPad 
@lengthOf(

Pad	)``
,
}
,	}
// a // b
")).
Eval vm_compute in ("<<<M1358>>>" ++ check (runes_of_ascii "  options{
LittleEndian

    =
false 
;
StringPrefixLenType
=
u16

    ;
	ArrayPrefixLenType=u8

    ;
FixedStringPadChar
=	'0'

    ;
} packet
    Leg 
{
zchar[1
] Ref
	,

repeat
string
    count, repeat InMsgkind21

{

repeat

char[ 2
	]
price
    , uint64 
sym
    ,
    zchar[  9
    ]
msgKind 
, 
}

,

zchar[ 5 ] Note,  }
	packet
	Ack {	u16 seqNo
    ,  repeat

    char[1
    ]
	Acct 
,

    @leftPad	( ' '
    ) 
char[

    4] msgKind ,repeat InTag747{Leg	, }
, 
repeat	string Tail
    , Leg	,}
	packet Trade

{  u64 
clOrdID

, repeat

InLastpx24
{
char[

    10 ]	Note
	,
char[
3
]
    Qty , repeat  char[
    2 ]  Side2
	,
	Ack

,
repeat InX47  {
    Ack,
	}
    ,

    }
	,
} root

    packet Heartbeat  {

repeat
    u64 
Acct  ,	string	lastPx ,
u8
Side2

,match
Side2
    as  Body {2
    : 
Trade

    , 
157 : Ack
    ,46

    : 
Leg,
}  ,

    u32

sym 
@calculatedFrom(	""CRC32""

    ) 
,

}
")).
Eval vm_compute in ("<<<M1546>>>" ++ check (runes_of_ascii "
options{// c1
	LittleEndian 
  // c2
  	=

// c3
	true// c4a
    // c4b
;	// c5
	}  // c6a

// c6b
packet
Sub// c8

	{// c9

	u8

    a // c11

  ,  
  // c12
u16 SubSum 	 // c14
    @calculatedFrom(  // c15a
		// c15b
    ""CRC16""
    // c16
  )  // c17a
// c17b
, 
    // c18
	  } 	 // c19

root	// c20a

	// c20b
    packet 	 // c21a
  	// c21b
    Frame
// c22
      {  
  // c23
		u16 MsgType  // c25a
// c25b
  ,  u16  // c27
	BodyLen	@lengthOf(	Body)// c31a
		// c31b
	  ,

    Sub
	Body	// c34a

// c34b

, 	 // c35a

	// c35b
    string  // c36

  note
// c37
	,	// c38a
  // c38b
u16

// c39
    	Checksum
        // c40
    @calculatedFrom(	// c41a
  // c41b
  ""CRC16"" 	 // c42a

  // c42b
    	)  // c43
	,
	u8 // c45
    	tail
	    // c46
	,
    // c47
  	}// c48
")).
Eval vm_compute in ("<<<M1197>>>" ++ check (runes_of_ascii "// top
options
    // c0
{ } // c2a
  // c2b
MetaData // c3a
  // c3b
packetx { int // c6a
  // c6b
falsey
    // c7
`two words` , // c9
int32 // c10
trueish // c11a
  // c11b
,
    // c12
char[] // c13a
  // c13b
u8x , A // c16a
  // c16b
x
    // c17
`// not a comment` // c18a
  // c18b
, // c19
} // c20a
  // c20b
root // c21a
  // c21b
packet // c22
i8i8 { @lengthOf( repeatCount // c26
) // c27a
  // c27b
@tag( // c28
1 // c29
) @calculatedFrom(
    // c31
""a	b""
    // c32
) // c33
string // c34a
  // c34b
stringy // c35
@calculatedFrom(
    // c36
""\n"" // c37a
  // c37b
) // c38a
  // c38b
`line1
line2`
    // c39
, // c40
pack // c41
`100% of %d` // c42
,
    // c43
} // c44
")).
Eval vm_compute in ("<<<M1735>>>" ++ check (runes_of_ascii "
packet charz

{ 
repeat  i64_  , trueish
{repeat 
_x , repeatCount,
repeat

u16

// " ++ [128512]%N ++ runes_of_ascii " emoji
  // a // b
matchKey

    `
`	,
trueish 
@lengthOf( Z9_)
,
}

    , zchar[ 
3
]body 
,@rightPad  // @lengthOf(
	(' ' ) body
	packetx

`{ , }`  ,	// packet A { u8 x, }

repeat matchKey 
{
uint8
metadata
	`` 
// @lengthOf(
, trueish @calculatedFrom( ""abc""
    )
,

    }

    , 
@lengthOf(  packetx )
int32
	uint8x
	`tab	here`  , @rightPad	//

(

)
@rightPad
    () f32a
	// " ++ [27880; 37322]%N ++ runes_of_ascii "
    // a // b
    	,
	tag
_x
	`a\`
,}

    packet a1
{
    @tag(
    4294967296 
)repeat
    f32 a1`line1
line2`  ,

}")).
Eval vm_compute in ("<<<M296>>>" ++ check (runes_of_ascii "options{
u128 = ""// no comment""
    }  root
packet Z9_ { repeat
char[] i8i8,
float64 MetaDataX , repeat rootA { msg_type@calculatedFrom(
    ""\" ++ [233]%N ++ runes_of_ascii """ )
    , match
float
    as	_x // " ++ [128512]%N ++ runes_of_ascii " emoji
{ ""a\""b""
:u ,[ ""a	b"" // " ++ [27880; 37322]%N ++ runes_of_ascii "
,
    ""CRC32"" // a // b
,10 /// triple
,
    007 , 255 , ""x y"", 42 //	t
, 3 ]: msg_type
,[
    ""1"" //	t
, ""\n"" ,  4294967296
, ""abc"" ,	""// no comment"" , //x
""\n"" ,1] //	t
: int
    ,[
    10 ] :As , [ 0
]	: zchar , 7// " ++ [27880; 37322]%N ++ runes_of_ascii "
: A , } , } ,	char[]zchar @lengthOf( tag ) , } options { body
    = ""1"" trueish	= ' '//x
; }")).
Eval vm_compute in ("<<<M1537>>>" ++ check (runes_of_ascii "MetaData u128 {
}

MetaData a1 {
}// " ++ [128512]%N ++ runes_of_ascii " emoji

root packet o {
    char[10] stringy @lengthOf(Z9_),
    match x_y_z as stringy {
        3 : float,
    },
    @leftPad(
    ' ' )
    u128 {
        repeat i32 msg_type `it's`,
        x,
        repeat char[65535] T,
        match A as i8i8 {
            """ ++ [128512]%N ++ runes_of_ascii """ : Logon,
        },
    },
}

MetaData x_y_z {
    // @lengthOf(
    options1 a1,
    u8x x_y_z `tab	here`,
    char MetaDataX,// " ++ [27880; 37322]%N ++ runes_of_ascii "
    zchar[65535] chars,
    char[] crc `doc`,
}")).
Eval vm_compute in ("<<<M13>>>" ++ check (runes_of_ascii "MetaData u128 {} MetaData a1 {}// " ++ [128512]%N ++ runes_of_ascii " emoji
root packet o
{
char[ 10 ] stringy@lengthOf(
/// triple
// 50% %s
Z9_ //	t
) ,
    match x_y_z as	stringy { 3 : float ,	} , @leftPad	(
' ' )u128 {
    repeat i32
msg_type `it's` , x ,
repeat char[ //
65535 ] T
, match  A as i8i8 { """ ++ [128512]%N ++ runes_of_ascii """ : Logon , },} , }MetaData x_y_z { // @lengthOf(
options1 a1 , u8x  x_y_z
`tab	here` ,	char MetaDataX , // " ++ [27880; 37322]%N ++ runes_of_ascii "
zchar[ 65535
    ] chars
    , char[]
crc`doc`	, }")).
Eval vm_compute in ("<<<M371>>>" ++ check (runes_of_ascii "MetaData msg_type {//
u8
    // `tick` ""quote"" 'q'
    Foo `// not a comment` ,char[
    007] Pad
`u8 x,`,f32
    o
    , char[0123456789]
falsey ,
    float64 metadata
, zchar[0123456789
] uint8x ,}
    packet // @lengthOf(
string_
{ i16 leftPad `// not a comment` ,
    }packet //
zchar {
MetaDataX @calculatedFrom(""a	b""
    //	t
    ) //	t
`tab	here` ,@tag(255 )string
    i64_
// 50% %s
// 50% %s
,	}")).
Eval vm_compute in ("<<<M1199>>>" ++ check (runes_of_ascii "// top
options
    // c0
{
    // c1
}
    // c2
options
    // c3
{
    // c4
MetaDataX
    // c5
=
    // c6
char
    // c7
;
    // c8
}
    // c9
MetaData
    // c10
Pad
    // c11
{
    // c12
i8
    // c13
metadata
    // c14
,
    // c15
string
    // c16
stringy
    // c17
,
    // c18
int8
    // c19
As
    // c20
`{ , }`
    // c21
,
    // c22
}
    // c23
")).
Eval vm_compute in ("<<<M1561>>>" ++ check (runes_of_ascii "
// a // b
	root packet u

    { f64	//
chars
    @calculatedFrom(""\n""
)
,
@lengthOf(
msg_type //
  )
	x_y_z
`
`

,  
      // " ++ [27880; 37322]%N ++ runes_of_ascii "
    	// `tick` ""quote"" 'q'
    repeat	char[
	0123456789

    ]
    f32a , repeat

    u8
	u8x 
`u8 x,`
    ,zchar[

3	]

    // " ++ [128512]%N ++ runes_of_ascii " emoji
  // trailing space 
  x_y_z

    ,x_y_z
@lengthOf(len
	) ,} ")).
Eval vm_compute in ("<<<M1635>>>" ++ check (runes_of_ascii "  options

    {  falsey=

    42 } options	{ A
=
	0123456789
; options1 =
    ""// no comment""
o
    =  ""// no comment"" 
; 
u8x	=

    // 50% %s
  // 50% %s
	true 
;  }

root
	packet Z9_ // " ++ [128512]%N ++ runes_of_ascii " emoji
  { 
}
	root  packet o { 
@tag(65535 )	repeat
    f32
    Logon
`100% of %d` 
,

    }
")).
Eval vm_compute in ("<<<M1754>>>" ++ check (runes_of_ascii "
options	{
i8i8
    = ""\n""
Header

=	""x y""; 	 /// triple

}root

packet

    A	{
    match
charz
    as T{ 

//
	0
:  // trailing space 
  options1 // `tick` ""quote"" 'q'
  } 
,  } packet
	float  /// triple
	{ @rightPad

(

)

    repeat metadata 
`u8 x,`,  }
")).
Eval vm_compute in ("<<<M1412>>>" ++ check (runes_of_ascii "// a // b
root packet u {
    f64 chars @calculatedFrom(""\n""),
    @lengthOf(msg_type)
    x_y_z `
    `,
    // " ++ [27880; 37322]%N ++ runes_of_ascii "
    // `tick` ""quote"" 'q'
    repeat char[0123456789] f32a,
    repeat u8 u8x `u8 x,`,
    zchar[3] x_y_z,
    x_y_z @lengthOf(len),
}")).
Eval vm_compute in ("<<<M1624>>>" ++ check (runes_of_ascii "packet float {
    @leftPad(' ')
    repeat char[] MetaDataX,
    @leftPad(
    )
    i16 x_y_z @calculatedFrom(""CRC32""),
}

packet chars {
}

packet asx {
    @tag(255)
    @tag(4294967296)
    @calculatedFrom(""{,}"")
    matchKey o `
    `,
}")).
Eval vm_compute in ("<<<M537>>>" ++ check (runes_of_ascii "packet
    asx { @calculatedFrom(
""""  ) @tag( 255 )repeat
// packet A { u8 x, }
// trailing space 
int16 u8x
,\
@tag(
    //
    007 )
    @tag( 0
    /// triple
    ) @tag( 1) u
    @lengthOf( T ),
// `tick` ""quote"" 'q'
//x
} // " ++ [128512]%N ++ runes_of_ascii " emoji")).
Eval vm_compute in ("<<<M488>>>" ++ check (runes_of_ascii "packet
    asx { @calculatedFrom(
""""  ) @tag( 255 )repeat
// packet A { u8 x, }
// trailing space 
int16 u8x
,
@tag(
    //
    007 )
    @tag( 0
    /// triple
    ) @tag( )1 u
    @lengthOf( T ),
// `tick` ""quote"" 'q'
//x
} // " ++ [128512]%N ++ runes_of_ascii " emoji")).
Eval vm_compute in ("<<<M391>>>" ++ check (runes_of_ascii "packet
     { @calculatedFrom(
""""  ) @tag( 255 )repeat
// packet A { u8 x, }
// trailing space 
int16 u8x
,
@tag(
    //
    007 )
    @tag( 0
    /// triple
    ) @tag( 1) u
    @lengthOf( T ),
// `tick` ""quote"" 'q'
//x
} // " ++ [128512]%N ++ runes_of_ascii " emoji")).
Eval vm_compute in ("<<<M401>>>" ++ check (runes_of_ascii "packet
    asx { 
""""  ) @tag( 255 )repeat
// packet A { u8 x, }
// trailing space 
int16 u8x
,
@tag(
    //
    007 )
    @tag( 0
    /// triple
    ) @tag( 1) u
    @lengthOf( T ),
// `tick` ""quote"" 'q'
//x
} // " ++ [128512]%N ++ runes_of_ascii " emoji")).
Eval vm_compute in ("<<<M1337>>>" ++ check (runes_of_ascii "packet Logon {
    string user,
}
root packet Frame {
    u8 K,
    match K as Body {
        1 : Logon,
        2 : Logout,
    },
    Tail,
}
packet Logout {
    u16 reason,
}
packet Tail {
    u32 crc,
}
")).
Eval vm_compute in ("<<<M1334>>>" ++ check (runes_of_ascii "root packet Frame {
    u8 K,
    Logon first,
    match K as Body {
        1 : Logon,
        2 : Logout,
    },
}
packet Logon {
    string user,
}
packet Logout {
    u16 reason,
}
")).
Eval vm_compute in ("<<<M617>>>" ++ check (runes_of_ascii "MetaData u
    { } MetaData o
{ float uint8x
`100% of %d` ,repeatCount u8x, string_ string_ leftPad
, i32
    Foo , int64 x `two words` , calculatedFrom
stringy `a\` ,
}
")).
Eval vm_compute in ("<<<M710>>>" ++ check (runes_of_ascii "packet
crc
{repeat  Foo `u8 x,`  A ,	@lengthOf( uint8x ) string
matchKey @lengthOf( stringy ) `a\`
,
    // c
    }
MetaData chars{
leftPad
    //	t
    crc
`" ++ [233]%N ++ runes_of_ascii "`
,}")).
Eval vm_compute in ("<<<M703>>>" ++ check (runes_of_ascii "MetaData u
    { } MetaData o
{ float uint8x
`100% of %d` ,repeatCount u8x, string_ leftPad
, i32
    Foo , int64 x `two wor`ds` , calculatedFrom
stringy `a\` ,
}
")).
Eval vm_compute in ("<<<M648>>>" ++ check (runes_of_ascii "MetaData u
    { } MetaData o
{ float uint8x
`100% of %d` ,repeatCount u8x, string_ leftPad
, i32
    Foo , x int64 `two words` , calculatedFrom
stringy `a\` ,
}
")).
Eval vm_compute in ("<<<M1620>>>" ++ check (runes_of_ascii "  packet
	A 
{match	k	as	n

    {

    [
	""a""
,
""bb""	,
""c c""

, 
""d"", ""e"" ,""f"",

    ""g"",""h"",
    ""i""
    ,

    ""j""
,

    ""k""
]  : B
2 : C	}
	, } ")).
Eval vm_compute in ("<<<M604>>>" ++ check (runes_of_ascii "MetaData u
    { } MetaData o
{ float uint8x
`100% of %d` ,u64 u8x, string_ leftPad
, i32
    Foo , int64 x `two words` , calculatedFrom
stringy `a\` ,
}
")).
Eval vm_compute in ("<<<M1818>>>" ++ check (runes_of_ascii "MetaData crc {
    packetx repeatCount,
    f32a As `line1
    line2`,
    crc len `line1
    line2`,
    zchar[0123456789] uint8x,
    zchar[0] As,
}")).
Eval vm_compute in ("<<<M1849>>>" ++ check (runes_of_ascii "packet A {
    match k as n {
        [
            ""a"", ""bb"", ""c c"", ""d"", ""e"",
            ""f"", ""g""
        ] : B,
        2 : C,
    },
}")).
Eval vm_compute in ("<<<M1710>>>" ++ check (runes_of_ascii "packet A {
    match k as n {
        [
            1, ""bb"", 007, ""d"", 5,
            ""f"", 7
        ] : B,
        2 : C,
    },
}")).
Eval vm_compute in ("<<<M1275>>>" ++ check (runes_of_ascii "packet B {
    u8 a,
}
root packet P {
    u8 K,
    match K as Body {
        1 : B,
    },
    u16 L @lengthOf(Body),
}
")).
Eval vm_compute in ("<<<M959>>>" ++ check (runes_of_ascii "packet A {
    u16 len @lengthOf(body) `tab
	x`,
    u32 crc @calculatedFrom(""CRC32"") `tab
	x`,
    string body,
}")).
Eval vm_compute in ("<<<M1225>>>" ++ check (runes_of_ascii "options { } options { MetaDataX = char ; } MetaData Pad // c
{ i8 metadata , string stringy , int8 As `{ , }` , }")).
Eval vm_compute in ("<<<M912>>>" ++ check (runes_of_ascii "packet A {
  match k as n {
    [""a"", ""bb"", 007, ""d"", ""e"", 66, ""g"", ""h"", 9, ""j"", ""k"", 12] : B,
    2 : C
  },
}")).
Eval vm_compute in ("<<<M978>>>" ++ check (runes_of_ascii "packet A {
    Inner {
        u8 x `%%d%!`,
        Deep {
            u8 y `%%d%!`,
        },
    },
}")).
Eval vm_compute in ("<<<M1548>>>" ++ check (runes_of_ascii "packet
A{ match
    k as n{

[ 1	,
22
,
	007

    ,
4 , 5
, 66 
,7

    ]

:

B 2: 
C
    } ,}")).
Eval vm_compute in ("<<<M853>>>" ++ check (runes_of_ascii "packet A {
  match k as n {
    [""a"", ""bb"", ""c c"", ""d"", ""e"", ""f"", ""g"", ""h""] : B
    2 : C
  },
}")).
Eval vm_compute in ("<<<M630>>>" ++ check (runes_of_ascii "MetaData u
    { } MetaData o
{ float uint8x
`100% of %d` ,repeatCount u8x, string_ leftPad")).
Eval vm_compute in ("<<<M178>>>" ++ check (runes_of_ascii "packet trueish { @leftPad (
' ' )
@lengthOf( A
)// c
@lengthOf(
A )string
msg_type
,}
")).
Eval vm_compute in ("<<<M859>>>" ++ check (runes_of_ascii "packet A {
  match k as n {
    [1, 22, ""c c"", 4, 5, ""f"", 7, 8] : B
    2 : C
  },
}")).
Eval vm_compute in ("<<<M821>>>" ++ check (runes_of_ascii "packet A {
  match k as n {
    [""a"", ""bb"", 007, ""d"", ""e""] : B,
    2 : C
  },
}")).
Eval vm_compute in ("<<<M808>>>" ++ check (runes_of_ascii "packet A {
  match k as n {
    [""a"", ""bb"", 007, ""d""] : B,
    2 : C
  },
}")).
Eval vm_compute in ("<<<M1418>>>" ++ check (runes_of_ascii "packet A {
    match k as n {
        [""a""] : B,
        2 : C,
    },
}")).
Eval vm_compute in ("<<<M171>>>" ++ check (runes_of_ascii "MetaData
//
// " ++ [128512]%N ++ runes_of_ascii " emoji
falsey { char[] f32a
, //	t
} packet
As{
}
")).
Eval vm_compute in ("<<<M65>>>" ++ check (runes_of_ascii "packet leftPad
{ i16 charz // trailing space 
, // @lengthOf(
}")).
Eval vm_compute in ("<<<M1298>>>" ++ check (runes_of_ascii "root packet P {
    repeat string ss,
    repeat u16 ns,
}
")).
Eval vm_compute in ("<<<M236>>>" ++ check (runes_of_ascii "  MetaData // `tick` ""quote"" 'q'
u128{ body float	,}
")).
Eval vm_compute in ("<<<M91>>>" ++ check (runes_of_ascii "// c
MetaData leftPad { msg_type As
`{ , }`
,}
")).
Eval vm_compute in ("<<<M1541>>>" ++ check (runes_of_ascii "  root

    packet

A
	{
u8
x

`%`, }
")).
Eval vm_compute in ("<<<M1521>>>" ++ check (runes_of_ascii "root packet A {
    u8 x `a
    b`,
}")).
Eval vm_compute in ("<<<M1650>>>" ++ check (runes_of_ascii "root packet A {
    u8 x `x
    `,
}")).
Eval vm_compute in ("<<<M1082>>>" ++ check (runes_of_ascii "packet A {
 u8 x `d x`, // c x
}")).
Eval vm_compute in ("<<<M1067>>>" ++ check (runes_of_ascii "packet A {
 u8 x `d" ++ [8203]%N ++ runes_of_ascii "`, // c" ++ [8203]%N ++ runes_of_ascii "
}")).
Eval vm_compute in ("<<<M765>>>" ++ check (runes_of_ascii "@tag( f64 u8 u16 i64 ""a\\""")).
Eval vm_compute in ("<<<M1148>>>" ++ check (runes_of_ascii "root packet a1
// c
{ }")).
Eval vm_compute in ("<<<M167>>>" ++ check (runes_of_ascii "MetaData u8x{}
//	t
")).
Eval vm_compute in ("<<<M1046>>>" ++ check (runes_of_ascii "// c" ++ [8287]%N ++ runes_of_ascii "
packet A {
}")).
Eval vm_compute in ("<<<M1048>>>" ++ check (runes_of_ascii "packet A {
}// c" ++ [11]%N)).
Eval vm_compute in ("<<<M746>>>" ++ check (runes_of_ascii "uint64 int16 {")).
Eval vm_compute in ("<<<M1034>>>" ++ check (runes_of_ascii "// c" ++ [8233]%N)).
