From FP Require Import Lexer Parser ShowPT Digest Formatter.
From Coq Require Import String List NArith.
Import ListNotations.
Open Scope string_scope.
Set Printing Width 100000000.
Set Printing Depth 100000000.
Definition show_fres (r : fres) : string :=
  match r with
  | FOk s => "OK:" ++ sh_escaped s ""
  | FErr s => "ERR:" ++ sh_escaped s ""
  | FPanic p => "PANIC:" ++ p
  end.
Definition check (rs : list rune) : string := digest (show_fres (format_res rs)).
Definition full (rs : list rune) : string := show_fres (format_res rs).
Eval vm_compute in ("<<<M1343>>>" ++ check (runes_of_ascii "// top
options
    // c0
{ // c1a
  // c1b
LittleEndian
    // c2
= // c3a
  // c3b
false
    // c4
; ArrayPrefixLenType = // c7a
  // c7b
u8
    // c8
; // c9
FixedStringPadFromLeft // c10a
  // c10b
= // c11
true ; // c13
FixedStringPadChar
    // c14
= '0' // c16
;
    // c17
} // c18
packet
    // c19
Heartbeat {
    // c21
string lastPx , uint8 // c25
Qty ,
    // c27
i64 // c28a
  // c28b
Acct
    // c29
,
    // c30
char[ // c31
4 ] // c33
Ref // c34
, // c35
} packet // c37
Fill // c38
{ // c39
uint8 // c40a
  // c40b
Ref // c41
, Heartbeat // c43
, // c44a
  // c44b
f32 // c45
OrderId , // c47
repeat f32 // c49
x
    // c50
, // c51a
  // c51b
} root packet Order
    // c55
{ // c56a
  // c56b
zchar[
    // c57
2 // c58
] // c59a
  // c59b
OrderId ,
    // c61
zchar[ // c62a
  // c62b
2 ]
    // c64
Acct
    // c65
,
    // c66
zchar[ // c67
1 ] // c69
Note // c70a
  // c70b
,
    // c71
zchar[
    // c72
9 // c73
] Qty // c75a
  // c75b
, // c76a
  // c76b
string price // c78
, // c79
string // c80a
  // c80b
tag7
    // c81
, // c82a
  // c82b
u32
    // c83
x
    // c84
, // c85a
  // c85b
match // c86
x as // c88
Body // c89
{ // c90
123 // c91
: // c92a
  // c92b
Fill , // c94a
  // c94b
112 // c95a
  // c95b
: // c96a
  // c96b
Heartbeat , // c98
} // c99
, // c100
u32 seqNo
    // c102
@calculatedFrom( // c103
""CRC32"" // c104
)
    // c105
,
    // c106
} // c107
")).
Eval vm_compute in ("<<<M1818>>>" ++ check (runes_of_ascii "packet o 
// trailing space 
//x
		{  repeat

    pack
stringy

    `two words`
	,
    char[ 1  ] leftPad
	, } 
  /// triple
  	// @lengthOf(
  MetaData msg_type {
zchar[ 1  ]
Pad`" ++ [28040; 24687; 31867; 22411]%N ++ runes_of_ascii "` ,
uint32 	 //x

	charz//
		`a\` ,

    A

    u8x
`// not a comment`

    , 
// `tick` ""quote"" 'q'
  } packet options1 {@calculatedFrom(
	""" ++ [233]%N ++ runes_of_ascii "t" ++ [233]%N ++ runes_of_ascii """
)
	@rightPad

( ) Pad @lengthOf(// packet A { u8 x, }
    pack)
``,match  A as a1
{
255 : msg_type,}
    ,
	    // " ++ [27880; 37322]%N ++ runes_of_ascii "
  //
	@lengthOf( tag
    )@tag(
00 )@rightPad

    (  ' ' 
) match

Header 
as
f32a
{"""":
    float
	,}  // @lengthOf(
  ,  char[]T@calculatedFrom( 
// packet A { u8 x, }

""packet""  )

,repeat asx/// triple
    	msg_type
    `crlf
line` , @calculatedFrom(""\" ++ [233]%N ++ runes_of_ascii """ )
@tag( 	 // trailing space 
	7
	)
	int64

o`line1
line2`

    , 
    // trailing space 
	}// " ++ [128512]%N ++ runes_of_ascii " emoji
    	root packet  // packet A { u8 x, }
  crc  {

int8
body
	@lengthOf( 
matchKey )	`two words`
, 
      //	t
		@lengthOf(
	u8x

)	zchar[ 0123456789]	i8i8 , }
    MetaData  a1 {	falsey _x
	`
` ,
char[] 
body `" ++ [28040; 24687; 31867; 22411]%N ++ runes_of_ascii "` , 
    // packet A { u8 x, }
  //
  zchar[42]

trueish `
`

,  float
    trueish, metadata 	 //x
	o`{ , }`  ,	}

")).
Eval vm_compute in ("<<<M1461>>>" ++ check (runes_of_ascii "packet falsey {
    i64_,
    charz {
        match Packet as Pad {
            ""\n"" : Packet,
            ""// no comment"" : f32a,
            [3, 4294967296, 10, 7, 10] : u,
            // trailing space 
            ""`tick`"" : u8x,
            [7, ""it's""] : Packet,
            0 : len,
        },
    },/// triple
    @lengthOf(f32a)
    char[3] options1 @lengthOf(Pad),
    zchar[0123456789] T ``,
}

packet Pad {
    // c
    o roots `{ , }`,
}

packet f32a {
    _x @calculatedFrom(""x y""),
    @tag(65535)
    //	t
    char pack @lengthOf(zchar),
    repeat int64 falsey,
    repeat len {
        match A as rootA {
            [42, ""\n""] : Z9_,
        },
        repeat i16 A,
        repeat zchar[65535] tag `
                `,
        f64 float @lengthOf(f32a) ``,
        // `tick` ""quote"" 'q'
        // packet A { u8 x, }
    },
    x u8x,
    @tag(42)
    repeat As Packet,
    @lengthOf(Pad)
    repeat f64 rootA,// @lengthOf(
}")).
Eval vm_compute in ("<<<M1123>>>" ++ check (runes_of_ascii "// top
options
    // c0
{
    // c1
uint8x
    // c2
=
    // c3
007
    // c4
;
    // c5
lengthOf
    // c6
=
    // c7
i8
    // c8
;
    // c9
}
    // c10
packet
    // c11
i64_
    // c12
{
    // c13
@calculatedFrom(
    // c14
""1""
    // c15
)
    // c16
@tag(
    // c17
3
    // c18
)
    // c19
@lengthOf(
    // c20
rootA
    // c21
)
    // c22
repeat
    // c23
int8
    // c24
Packet
    // c25
`u8 x,`
    // c26
,
    // c27
}
    // c28
root
    // c29
packet
    // c30
stringy
    // c31
{
    // c32
@rightPad
    // c33
(
    // c34
' '
    // c35
)
    // c36
repeat
    // c37
char[
    // c38
10
    // c39
]
    // c40
repeatCount
    // c41
,
    // c42
@tag(
    // c43
255
    // c44
)
    // c45
float64
    // c46
msg_type
    // c47
@calculatedFrom(
    // c48
""packet""
    // c49
)
    // c50
,
    // c51
}
    // c52
")).
Eval vm_compute in ("<<<M230>>>" ++ check (runes_of_ascii "packet rootA{	match
zchar as
    // " ++ [128512]%N ++ runes_of_ascii " emoji
    int {
    [ ""it's""
, ""1""]
    :// c
tag ,
    } , char Packet @lengthOf( body ) , metadata @lengthOf( packetx ) ,@calculatedFrom( """ ++ [128512]%N ++ runes_of_ascii """	)match
    repeatCount as f32a { """ ++ [28040; 24687]%N ++ runes_of_ascii """
    :chars ,
    }
    ,@lengthOf(string_ )char[ 0
    //
    ] len @calculatedFrom(
""abc"" )
,
    // `tick` ""quote"" 'q'
    u8 uint8x@lengthOf( roots)  `say ""hi""`
, int @calculatedFrom( ""a\""b"") ,match
msg_type as i8i8 {// c
""\" ++ [233]%N ++ runes_of_ascii """
// " ++ [27880; 37322]%N ++ runes_of_ascii "
// packet A { u8 x, }
: Header , 1 : zchar,
    [ ""\n""	]
:	string_
""\n"" :i8i8 0123456789 : Logon
    [ 00 , 007 ,""1"" ,
    //	t
    ""it's""
    , ""// no comment""
    ,
    0
, ""a\\"" ,// packet A { u8 x, }
007 ]
    :BodyLength}
, match rootA as // c
chars  {
7
:
    // @lengthOf(
    Header }
, A Foo `tab	here` ,
}
")).
Eval vm_compute in ("<<<M192>>>" ++ check (runes_of_ascii "// trailing space 
options { f32a=
false;	stringy=	true
;
u=  ""\" ++ [233]%N ++ runes_of_ascii """  ;
    stringy = false;
} packet options1 // " ++ [27880; 37322]%N ++ runes_of_ascii "
{
} MetaData
packetx { f32 uint8x  ,  } root packet zchar {
@tag( 4294967296
) @lengthOf(a1
)
i8
_x
`it's` ,//x
char[]	o , body
    ,
zchar[ 65535] msg_type
`crlf
line` , repeat
    BodyLength{ repeat char[ 65535
    ] stringy,
},
@calculatedFrom( """ ++ [128512]%N ++ runes_of_ascii """
) @tag( 10
    // a // b
    ) repeat f32
lengthOf`line1
line2` , repeat  u {
    uint32 Z9_, //
repeat body
`
` , }  , @tag( 4294967296
) i64_ @lengthOf( tag
    // packet A { u8 x, }
    ), @lengthOf(//	t
float) @lengthOf(
    // " ++ [128512]%N ++ runes_of_ascii " emoji
    packetx	) @calculatedFrom( """ ++ [128512]%N ++ runes_of_ascii """
)	repeat x_y_z u  ,@tag( 65535 )u8
A	,} //")).
Eval vm_compute in ("<<<M227>>>" ++ check (runes_of_ascii "packet	crc
    { @lengthOf(Header )	repeat roots
    // @lengthOf(
    `a\` ,
@lengthOf( tag ) match x as string_{ [ ""a\\"" , ""packet""
] : Header""// no comment""
    /// triple
    :
Logon , 7:
falsey ,7  : metadata [ 7  , 00] :
    // `tick` ""quote"" 'q'
    repeatCount 3 : u ,
},
    //	t
    @lengthOf( u128
//
// " ++ [27880; 37322]%N ++ runes_of_ascii "
) @rightPad
(
'\x00' // c
)
char[] int ,int16 Packet @lengthOf(  string_
    ) , trueish{ repeat
crc {zchar
calculatedFrom , } ,
} ,
// @lengthOf(
//x
@rightPad
( ) repeat
    _x pack // " ++ [27880; 37322]%N ++ runes_of_ascii "
, @lengthOf(
// c
// trailing space 
chars)repeat
    string_ {repeat
    uint8x`// not a comment`,}
, }")).
Eval vm_compute in ("<<<M1570>>>" ++ check (runes_of_ascii "
options{ 
StringPrefixLenType

    =
u8; ArrayPrefixLenType =

    u8
;	FixedStringPadFromLeft  =
false 
;
FixedStringPadChar 
=
' ' 
;
} packet
	Ack
{
	char[]	tag7
,	}

packet	Reject
	{InSym61  {repeat
    Ack,

    zchar[

    4 ]f1	,
},} packet

Logout
	{

char[4 
]clOrdID
	,
} 
root
	packet
Cancel { 
@leftPad	(
' ' ) char[
	10  ]price , u8
	x

, u32
venue@lengthOf( 
Body )
,
    match x
    as
	Body  {
[92	,	175

    ]
:  Logout
	,
    26

    :
Reject  , 144 
: Ack
,  }

, 
u16

    count	@calculatedFrom(	""CRC32"" )

    ,  }

")).
Eval vm_compute in ("<<<M1655>>>" ++ check (runes_of_ascii "options

    { 
LittleEndian

    =true
    ; StringPrefixLenType  =	u64	;
ArrayPrefixLenType=
    u16 ;FixedStringPadFromLeft 
=
false
;FixedStringPadChar
=	' ' 
; } packet 
Logon

{ zchar[

5

    ]
Side2 ,
    }

    root
    packet
	Logout { repeat

i64 
Tail 
,
	Logon 
,

repeat

i16 OrderId
    ,
	char[]
venue
,
    uint64

x ,
repeat i16

    count

    , u8
	Flags	,

    match 
Flags	as
    Body

    { 25 :
    Logon ,
} ,
u16
    Qty@calculatedFrom(	""CR\
C32""
    ) ,

} ")).
Eval vm_compute in ("<<<M264>>>" ++ check (runes_of_ascii "options  {
    float
=
    char[]
} // packet A { u8 x, }
root packet
    Logon
    { @tag( 1 ) // a // b
@calculatedFrom( ""packet""
// a // b
// " ++ [128512]%N ++ runes_of_ascii " emoji
)zchar[ 3 ]
// c
//x
Z9_ ,@lengthOf( charz )
@calculatedFrom( ""1""
)match
roots
as int
    { ""a	b""
:MetaDataX , }
    ,@calculatedFrom( ""a\""b""	)
    match
    asx as lengthOf { """ ++ [128512]%N ++ runes_of_ascii """
    : _x,
[ 255 ] : BodyLength
    ,3 :
    u8x , 0123456789:T} ,
    len@lengthOf(leftPad )`u8 x,` , } // @lengthOf(")).
Eval vm_compute in ("<<<M349>>>" ++ check (runes_of_ascii "root
packet body {
    @lengthOf(
int
// @lengthOf(
//x
)string tag
    ,	Pad BodyLength , Z9_ {
    /// triple
    u `` , zchar[ 7] u ,
},uint64 calculatedFrom, }packet
msg_type {match f32a// " ++ [128512]%N ++ runes_of_ascii " emoji
as pack
    { ""// no comment"" : trueish
, }
    // trailing space 
    , @calculatedFrom( // @lengthOf(
""abc""
)
    @leftPad (
' ') @calculatedFrom( """" //x
) // c
matchKey T ,// `tick` ""quote"" 'q'
}
")).
Eval vm_compute in ("<<<M1661>>>" ++ check (runes_of_ascii "// top
root packet _x {
    // c3
    match Foo as Z9_ {
        // c8
        ""a	b"" : Pad,
        // c12
    },// c14
    repeat x `line1
        line2`,// c18
    @rightPad(' ')
    // c22
    @calculatedFrom(""a\\"")
    // c25
    metadata MetaDataX,// c28
    @tag(0)
    // c31
    Logon int ``,// c35
}// c36

options {
    // c38
    T = '\x00'// c41
}// c42")).
Eval vm_compute in ("<<<M109>>>" ++ check (runes_of_ascii "MetaData Header{ } packet crc {	match zchar as leftPad // `tick` ""quote"" 'q'
{ 7 : As 0 : Packet , [
00 // " ++ [128512]%N ++ runes_of_ascii " emoji
]
: Pad ,
//x
//x
""// no comment""
    :
    calculatedFrom
,	3
    :
string_ , } ,falsey  packetx `crlf
line` , // " ++ [27880; 37322]%N ++ runes_of_ascii "
@tag( 42 )repeat
u64 packetx,
@calculatedFrom(  ""1"" ) repeat u16 calculatedFrom, }
")).
Eval vm_compute in ("<<<M35>>>" ++ check (runes_of_ascii "  packet Header
{ @calculatedFrom( // a // b
""a	b"" )
char[
    255] falsey `tab	here`,int8
    // " ++ [27880; 37322]%N ++ runes_of_ascii "
    u
`doc` , float32 lengthOf
    @calculatedFrom(
""a	b""  )
    // a // b
    , @rightPad (
' '  ) @tag( 3
) float64 asx
    ,
int8 metadata @lengthOf(zchar )// a // b
,Pad f32a , }")).
Eval vm_compute in ("<<<M1379>>>" ++ check (runes_of_ascii "options {
    LittleEndian = true;
}
packet Logon {
    u8 x,
    string user,
}
packet Logout {
    u16 reason,
}
packet Empty {
}
root packet Frame {
    u16 MsgType,
    u8 BodyLen @lengthOf(Body),
    u8 flags,
    Logon Body,
    u32 trailer,
}
")).
Eval vm_compute in ("<<<M183>>>" ++ check (runes_of_ascii "root
packet tag {
@calculatedFrom(
""{,}""
    // `tick` ""quote"" 'q'
    )
@tag(
//x
// " ++ [27880; 37322]%N ++ runes_of_ascii "
42
    )
    i64_ @lengthOf( calculatedFrom ) , zchar[// " ++ [128512]%N ++ runes_of_ascii " emoji
3 // @lengthOf(
] int  , } root// c
packet Foo { }
// @lengthOf(
")).
Eval vm_compute in ("<<<M1547>>>" ++ check (runes_of_ascii "packet _x {
    repeat char[] matchKey,
    @leftPad()
    x_y_z T,
    Pad {
        zchar[1] rootA `tab	here`,
    },
    Foo @calculatedFrom(""""),
}

packet MetaDataX {
    float64 body,
}")).
Eval vm_compute in ("<<<M1301>>>" ++ check (runes_of_ascii "

  packet A
{u8 a

    ,
	} packet 
B { u16

    b , }root packet P

    {u8 K
    , match
    K as M
	{ [ 1
,
	2 ]: 
A

    ,

3 :B
    ,	7
    : A,
	}
	,  }

")).
Eval vm_compute in ("<<<M250>>>" ++ check (runes_of_ascii "MetaData // a // b
o {string Foo
    , }
MetaData  msg_type { Header len `" ++ [28040; 24687; 31867; 22411]%N ++ runes_of_ascii "`
,
    }
options
{ tag
= '0' ;
    o=
""CRC32"" ; Logon = ""`tick`"" ;// a // b
}")).
Eval vm_compute in ("<<<M513>>>" ++ check (runes_of_ascii "packet uint8x
{ match pack
    as msg_type	{
    0123456789 :	float
}
,
} packet //	t
a1
    { } options {packetx
    = '\x00'	; float32= ""a	b""  ; }
")).
Eval vm_compute in ("<<<M1793>>>" ++ check (runes_of_ascii "packet A {
    u8 a,
}

packet B {
    u16 b,
}

root packet P {
    u8 K,
    match K as M {
        [1, 2] : A,
        3 : B,
        7 : A,
    },
}")).
Eval vm_compute in ("<<<M467>>>" ++ check (runes_of_ascii "packet uint8x
{ match pack
    as msg_type	{
    0123456789 :	float
}
,
} packet //	t
{
    a1 } options {packetx
    = '\x00'	; u128= ""a	b""  ; }
")).
Eval vm_compute in ("<<<M515>>>" ++ check (runes_of_ascii "packet uint8x
{ match pack
    as msg_type	{
    0123456789 :	float
}
,
} packet //	t
a1
    { } options {packetx
    = '\x00'	; u128 ""a	b""  ; }
")).
Eval vm_compute in ("<<<M398>>>" ++ check (runes_of_ascii "packet [
{ match pack
    as msg_type	{
    0123456789 :	float
}
,
} packet //	t
a1
    { } options {packetx
    = '\x00'	; u128= ""a	b""  ; }
")).
Eval vm_compute in ("<<<M423>>>" ++ check (runes_of_ascii "packet uint8x
{ match pack
    as ,	{
    0123456789 :	float
}
,
} packet //	t
a1
    { } options {packetx
    = '\x00'	; u128= ""a	b""  ; }
")).
Eval vm_compute in ("<<<M1855>>>" ++ check (runes_of_ascii "
packet
	uint8x  {
match
pack 
as
	msg_type
{ 0123456789: float
	}, }
packet 	 //	t
a1
{	}options
{
	packetx	= 
'\x00'
	;
u128 
=	""a	b""  }
")).
Eval vm_compute in ("<<<M1783>>>" ++ check (runes_of_ascii "

  packet A 
{match

k	as n {	[ 1  ,
22	,
007, 
4 
,5 ,	66	,

7  , 
8  , 9 ,

10,

    11 ,  12
    ]:
B

    2 :C}  ,

    }
")).
Eval vm_compute in ("<<<M259>>>" ++ check (runes_of_ascii "  MetaData repeatCount // c
{char[
42 // " ++ [27880; 37322]%N ++ runes_of_ascii "
]
    // " ++ [128512]%N ++ runes_of_ascii " emoji
    MetaDataX ,
    // @lengthOf(
    zchar[
// " ++ [27880; 37322]%N ++ runes_of_ascii "
//x
0] asx , }
")).
Eval vm_compute in ("<<<M1468>>>" ++ check (runes_of_ascii "MetaData msg_type {
}

root packet A {
    repeat i32 leftPad `it's`,
    //x
}

root packet a1 {
    char[255] falsey,
}")).
Eval vm_compute in ("<<<M1162>>>" ++ check (runes_of_ascii "MetaData leftPad { chars MetaDataX , } packet repeatCount {
// c
char[ 255 ] uint8x `" ++ [233]%N ++ runes_of_ascii "` , } MetaData pack { As Foo , }")).
Eval vm_compute in ("<<<M102>>>" ++ check (runes_of_ascii "packet
    // " ++ [128512]%N ++ runes_of_ascii " emoji
    body {match Logon  as _x
    {
4294967296
// a // b
//x
:
_x , """ ++ [28040; 24687]%N ++ runes_of_ascii """
    : u128
    ,} , }
")).
Eval vm_compute in ("<<<M1484>>>" ++ check (runes_of_ascii "packet

    A
{ match
	k as n  {	[ ""a""
    ,
""bb""
    ,
	""c c""

,

""d""
]

    : B

    2

:
	C 
} , } ")).
Eval vm_compute in ("<<<M931>>>" ++ check (runes_of_ascii "packet A {
    u16 len @lengthOf(body) `
`,
    u32 crc @calculatedFrom(""CRC32"") `
`,
    string body,
}")).
Eval vm_compute in ("<<<M1248>>>" ++ check (runes_of_ascii "  options
{LittleEndian 
= true 
; }

    root  packet

P {

    repeat
char
cs

, u8
	x, }

")).
Eval vm_compute in ("<<<M199>>>" ++ check (runes_of_ascii "packet falsey { string a1 @lengthOf( packetx ) , }
packet	int { Header	@lengthOf( stringy)
, }")).
Eval vm_compute in ("<<<M892>>>" ++ check (runes_of_ascii "packet A {
  match k as n {
    [1, 22, 007, 4, 5, 66, 7, 8, 9, 10, 11] : B
    2 : C
  },
}")).
Eval vm_compute in ("<<<M873>>>" ++ check (runes_of_ascii "packet A {
  match k as n {
    [1, 22, ""c c"", 4, 5, ""f"", 7, 8, ""i""] : B,
    2 : C
  },
}")).
Eval vm_compute in ("<<<M617>>>" ++ check (runes_of_ascii "
packet
    asx {match u128 as lengthOf
{
//	t
// `tick` ""quote"" 'q'
255 : x ,
    } 	}")).
Eval vm_compute in ("<<<M1275>>>" ++ check (runes_of_ascii "

  options{ FixedStringPadFromLeft
= 
true 
; }root 
packet  P {char[
    4 ]
z,
	}")).
Eval vm_compute in ("<<<M830>>>" ++ check (runes_of_ascii "packet A {
  match k as n {
    [1, ""bb"", 007, ""d"", 5, ""f""] : B,
    2 : C
  },
}")).
Eval vm_compute in ("<<<M611>>>" ++ check (runes_of_ascii "
packet
    asx {match u128 as lengthOf
{
//	t
// `tick` ""quote"" 'q'
255 : x")).
Eval vm_compute in ("<<<M890>>>" ++ check (runes_of_ascii "packet A { Inner { match k as n { [1,22,007,4,5,66,7,8,9,10] : B, }, }, }")).
Eval vm_compute in ("<<<M1283>>>" ++ check (runes_of_ascii "root packet P {
    u16 a,
    u32 Sum @calculatedFrom(""CR\
C32""),
}
")).
Eval vm_compute in ("<<<M838>>>" ++ check (runes_of_ascii "packet A { Inner { match k as n { [1,22,007,4,5,66] : B, }, }, }")).
Eval vm_compute in ("<<<M751>>>" ++ check (runes_of_ascii "options @calculatedFrom( repeat } [ @tag( uint32 char[] ] :")).
Eval vm_compute in ("<<<M1556>>>" ++ check (runes_of_ascii "MetaData M {
    u8 x `a
    b`,
    T t `a
    b`,
}")).
Eval vm_compute in ("<<<M1207>>>" ++ check (runes_of_ascii "packet body { i32 f32a // c
`{ , }` , } options { }")).
Eval vm_compute in ("<<<M1100>>>" ++ check (runes_of_ascii "// top
MetaData // c0
tag // c1
{ // c2
} // c3
")).
Eval vm_compute in ("<<<M47>>>" ++ check (runes_of_ascii "MetaData	lengthOf
{
Header o `doc`
    ,}
")).
Eval vm_compute in ("<<<M325>>>" ++ check (runes_of_ascii "packet charz { } // packet A { u8 x, }")).
Eval vm_compute in ("<<<M1628>>>" ++ check (runes_of_ascii "  packet

    A{
}

    // c" ++ [65279]%N ++ runes_of_ascii "
")).
Eval vm_compute in ("<<<M36>>>" ++ check (runes_of_ascii "// c
packet asx  {} /// triple")).
Eval vm_compute in ("<<<M83>>>" ++ check (runes_of_ascii "
options{ options1 =	7 ;
}
")).
Eval vm_compute in ("<<<M1913>>>" ++ check (runes_of_ascii "

  // trailing space 
")).
Eval vm_compute in ("<<<M1479>>>" ++ check (runes_of_ascii "// c" ++ [8192]%N ++ runes_of_ascii "
    packet A {}")).
Eval vm_compute in ("<<<M1956>>>" ++ check (runes_of_ascii "

  packet 
o
	{}

")).
Eval vm_compute in ("<<<M1039>>>" ++ check (runes_of_ascii "packet A {
}// c 	")).
Eval vm_compute in ("<<<M1044>>>" ++ check (runes_of_ascii "packet A {
}// c" ++ [8203]%N)).
Eval vm_compute in ("<<<M1749>>>" ++ check (runes_of_ascii "
/// triple
 
")).
Eval vm_compute in ("<<<M1060>>>" ++ check (runes_of_ascii "// c x")).
Eval vm_compute in ("<<<M769>>>" ++ check ([12]%N ++ runes_of_ascii "7" ++ [30]%N)).
