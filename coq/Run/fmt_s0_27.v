From FP Require Import Lexer Parser ShowPT Digest Formatter.
From Coq Require Import String List NArith.
Import ListNotations.
Open Scope string_scope.
Set Printing Width 100000000.
Set Printing Depth 100000000.
Definition show_fres (r : fres) : string :=
  match r with
  | FOk s => "OK:" ++ sh_escaped s ""
  | FErr s => "ERR:" ++ sh_escaped s ""
  | FPanic p => "PANIC:" ++ p
  end.
Definition check (rs : list rune) : string := digest (show_fres (format_res rs)).
Definition full (rs : list rune) : string := show_fres (format_res rs).
Eval vm_compute in ("<<<M1356>>>" ++ check (runes_of_ascii "// top
options // c0a
  // c0b
{ // c1a
  // c1b
StringPrefixLenType = u8 ;
    // c5
ArrayPrefixLenType =
    // c7
u8 ; // c9
FixedStringPadFromLeft // c10
=
    // c11
false ; // c13
FixedStringPadChar // c14
= // c15a
  // c15b
' ' ; // c17a
  // c17b
} packet // c19a
  // c19b
Ack { // c21a
  // c21b
char[] // c22a
  // c22b
tag7 // c23a
  // c23b
, // c24a
  // c24b
} packet // c26
Reject // c27a
  // c27b
{ InSym61
    // c29
{ // c30
repeat // c31a
  // c31b
Ack
    // c32
, // c33a
  // c33b
zchar[ // c34
4
    // c35
] // c36a
  // c36b
f1 , } // c39a
  // c39b
, // c40
}
    // c41
packet // c42
Logout // c43a
  // c43b
{ // c44
char[ // c45a
  // c45b
4
    // c46
] // c47a
  // c47b
clOrdID // c48
, // c49
} // c50
root packet
    // c52
Cancel // c53a
  // c53b
{ @leftPad ( // c56
' ' // c57a
  // c57b
) // c58
char[ // c59
10 ] price // c62
, u8
    // c64
x
    // c65
, // c66a
  // c66b
u32 // c67a
  // c67b
venue
    // c68
@lengthOf(
    // c69
Body
    // c70
) // c71a
  // c71b
, // c72a
  // c72b
match // c73a
  // c73b
x // c74
as Body // c76a
  // c76b
{ [ 92 // c79
,
    // c80
175 ] // c82
: // c83
Logout // c84
,
    // c85
26 // c86a
  // c86b
: Reject // c88a
  // c88b
, // c89a
  // c89b
144 // c90a
  // c90b
:
    // c91
Ack
    // c92
, // c93
} // c94a
  // c94b
, // c95
u16 count // c97a
  // c97b
@calculatedFrom( // c98a
  // c98b
""CRC32""
    // c99
)
    // c100
, // c101
} // c102a
  // c102b
")).
Eval vm_compute in ("<<<M387>>>" ++ check (runes_of_ascii "options {
	StringPrefixLenType = u16;
	ArrayPrefixLenType = u16;
}

packet SampleBinary {
	uint16 MsgType `" ++ [28040; 24687; 31867; 22411]%N ++ runes_of_ascii "`,
	u16 BodyLenght @lengthOf(Body) `" ++ [28040; 24687; 20307; 38271; 24230]%N ++ runes_of_ascii "`,
	match MsgType as Body {
		1 : Logon,
		2 : Logout,
		3 : Heartbeat,
		4 : RiskControlRequest,
		5 : RiskControlResponse,
	},
	@calculatedFrom(""CRC32"")
	u32 Ckecksum `" ++ [26657; 39564; 21644]%N ++ runes_of_ascii "`,
}

packet Logon {
	@leftPad('0')
	char[10] UserName `" ++ [29992; 25143; 21517]%N ++ runes_of_ascii "`,
	string Password `" ++ [23494; 30721]%N ++ runes_of_ascii "`,
	uint64 ClientId `" ++ [23458; 25143; 31471]%N ++ runes_of_ascii "ID`,
	u16 HeartbeatInterval `" ++ [24515; 36339; 38388; 38548]%N ++ runes_of_ascii "`,
}

packet Logout {
	@rightPad('0')
	char[10] UserName `" ++ [29992; 25143; 21517]%N ++ runes_of_ascii "`,
	uint64 ClientId `" ++ [23458; 25143; 31471]%N ++ runes_of_ascii "ID`,
}

packet Heartbeat {
}

packet RiskControlRequest {
	string UniqueOrderId `" ++ [21807; 19968; 35746; 21333; 21495]%N ++ runes_of_ascii "`,
	char[16] ClOrdID `" ++ [23458; 25143; 35746; 21333; 21495]%N ++ runes_of_ascii "`,
	char[3] MarketID `" ++ [24066; 22330]%N ++ runes_of_ascii "id`,
	char[12] SecurityID `" ++ [35777; 21048; 20195; 30721]%N ++ runes_of_ascii "`,
	char Side `" ++ [20080; 21334; 26041; 21521]%N ++ runes_of_ascii "`,
	char OrderType `" ++ [35746; 21333; 31867; 22411]%N ++ runes_of_ascii "`,
	u64 Price `" ++ [20215; 26684]%N ++ runes_of_ascii "`,
	u32 Qty `" ++ [25968; 37327]%N ++ runes_of_ascii "`,
	repeat string ExtraInfo `" ++ [38468; 21152; 20449; 24687]%N ++ runes_of_ascii "`,
	repeat SubOrder {
		char[16] ClOrdID `" ++ [23376; 35746; 21333; 21495]%N ++ runes_of_ascii "`,
		u64 Price `" ++ [23376; 35746; 21333; 20215; 26684]%N ++ runes_of_ascii "`,
		u32 Qty `" ++ [23376; 35746; 21333; 25968; 37327]%N ++ runes_of_ascii "`,
	},
}

packet RiskControlResponse {
	string UniqueOrderId `" ++ [21807; 19968; 35746; 21333; 21495]%N ++ runes_of_ascii "`,
	i32 Status `" ++ [29366; 24577]%N ++ runes_of_ascii "`,
	string Msg `" ++ [32467; 26524; 20449; 24687]%N ++ runes_of_ascii "`,
	repeat Detail,
}

packet Detail {
	string RuleName `" ++ [35268; 21017; 21517; 31216]%N ++ runes_of_ascii "`,
	u16 Code `" ++ [21407; 22240; 20195; 30721]%N ++ runes_of_ascii "`,
}")).
Eval vm_compute in ("<<<M1529>>>" ++ check (runes_of_ascii "
packet

    leftPad { 	 //
      i8 stringy

@calculatedFrom(	""" ++ [128512]%N ++ runes_of_ascii """ ) 
,

int @calculatedFrom(
	// c
		// " ++ [128512]%N ++ runes_of_ascii " emoji

  ""a	b"" ) `it's`
	, @leftPad(

)
    @tag( 
0123456789)  int32

    u8x
,
    @lengthOf(
    A
    )float64
u128  @calculatedFrom(
	""a\\"" )
,	//x

}

options
{  //x

  Pad=0 u =  ' '}  MetaData  a1{
	char[]

metadata	`// not a comment` 
// @lengthOf(
	,
    }
    packet 
Foo {

@tag( 
42
    )

    repeat BodyLength, int8
metadata `{ , }` ,
@leftPad 
( // c
  )  // " ++ [27880; 37322]%N ++ runes_of_ascii "
  	@calculatedFrom( 	 //
""`tick`"")
@calculatedFrom( ""a	b""
) u32 stringy

,

    @lengthOf(
	roots
	) zchar[0  ]  msg_type@lengthOf(

i64_)
    `tab	here`,i8
    Header`{ , }` ,
char[  7 ]	trueish @lengthOf(packetx )
    , u64
    charz`
`
	,
zchar[ 
    //	t
// c
65535 
] repeatCount
`it's`

    , match// @lengthOf(

calculatedFrom	as
    calculatedFrom {

""a	b"" :	roots
	42 :  MetaDataX
,

}
	,}
")).
Eval vm_compute in ("<<<M1834>>>" ++ check (runes_of_ascii "packet o {
    repeat pack stringy `two words`,
    char[1] leftPad,
}

MetaData msg_type {
    zchar[1] Pad `" ++ [28040; 24687; 31867; 22411]%N ++ runes_of_ascii "`,
    uint32 charz `a\`,
    A u8x `// not a comment`,
}

packet options1 {
    @calculatedFrom(""" ++ [233]%N ++ runes_of_ascii "t" ++ [233]%N ++ runes_of_ascii """)
    @rightPad()
    Pad @lengthOf(pack) ``,
    match A as a1 {
        255 : msg_type,
    },
    @lengthOf(tag)
    @tag(00)
    @rightPad(' ')
    match Header as f32a {
        """" : float,
    },
    char[] T @calculatedFrom(""packet""),
    repeat asx msg_type `crlf
    line`,
    @calculatedFrom(""\" ++ [233]%N ++ runes_of_ascii """)
    @tag(7)
    int64 o `line1
    line2`,
}// " ++ [128512]%N ++ runes_of_ascii " emoji

root packet crc {
    int8 body @lengthOf(matchKey) `two words`,
    @lengthOf(u8x)
    zchar[0123456789] i8i8,
}

MetaData a1 {
    falsey _x `
    `,
    char[] body `" ++ [28040; 24687; 31867; 22411]%N ++ runes_of_ascii "`,
    zchar[42] trueish `
    `,
    float trueish,
    metadata o `{ , }`,
}")).
Eval vm_compute in ("<<<M1344>>>" ++ check (runes_of_ascii "options {
    StringPrefixLenType = u16;
    ArrayPrefixLenType = u32;
    FixedStringPadFromLeft = true;
    FixedStringPadChar = '0';
}
packet Cancel {
}
packet Party {
}
packet Logon {
}
packet Ack {
}
packet Logout {
    repeat InSym87 {
        InClordid94 {
            string clOrdID,
        },
        string Px,
        i16 Qty,
        repeat InCount71 {
            repeat Cancel,
            uint16 Tail,
            char[2] x,
            repeat string Ref,
        },
        Cancel,
    },
}
root packet Order {
    repeat string tag7,
    @leftPad(' ') char[3] Px,
    u8 Qty,
    match Qty as Body {
        [28, 62] : Logon,
        148 : Ack,
        88 : Party,
        184 : Cancel,
    },
    u16 Note @calculatedFrom(""CRC32""),
}
")).
Eval vm_compute in ("<<<M1889>>>" ++ check (runes_of_ascii "

  //x
		root 
    // " ++ [128512]%N ++ runes_of_ascii " emoji

	packet  
      // `tick` ""quote"" 'q'
	/// triple
    float
{ options1 A
, @tag(

42
    )
u8x
{ tag //x

	@calculatedFrom(
""\" ++ [233]%N ++ runes_of_ascii """)// packet A { u8 x, }
  `tab	here` 
,
} ,
int16 asx
, @lengthOf(
o)
@rightPad  ( )

    repeat
int 

/// triple
	/// triple
	Logon , 
@calculatedFrom( ""// no comment"")	@leftPad( '\x00'

    )
@rightPad( '0' ) zchar[  65535 	 //x
]
	o `
` , repeat
As

{  //x
  repeat uint16

    o ,	repeat  char[	// trailing space 

	1  ]

o ,u128

    metadata ,
	repeat

    char[
    7 ]
    Header
	,
    }
,

@tag(	0123456789  )	a1

    tag,

    float32 
asx
	,repeat // packet A { u8 x, }

len ``,	}

")).
Eval vm_compute in ("<<<M1118>>>" ++ check (runes_of_ascii "MetaData Packet
    // c1
{ // c2
} packet // c4a
  // c4b
charz // c5a
  // c5b
{ // c6a
  // c6b
Foo // c7
asx `it's` ,
    // c10
@lengthOf( // c11
T )
    // c13
@calculatedFrom(
    // c14
"""" // c15
)
    // c16
@calculatedFrom(
    // c17
""x y"" // c18
) // c19a
  // c19b
zchar[ 007 // c21
] repeatCount @lengthOf(
    // c24
int // c25
)
    // c26
`a\`
    // c27
, // c28a
  // c28b
i8
    // c29
string_ // c30a
  // c30b
, // c31
repeat // c32
options1 // c33
Pad
    // c34
, } // c36a
  // c36b
root packet
    // c38
Packet { int8 // c41
float `doc` // c43
, // c44
}
    // c45
")).
Eval vm_compute in ("<<<M1528>>>" ++ check (runes_of_ascii "packet u128 {
    // trailing space 
    string Header `say ""hi""`,
    repeat crc f32a,
    char[10] _x,
    @calculatedFrom(""x y"")
    repeat charz {
        Logon @lengthOf(T) `crlf
        line`,
        repeat char[0123456789] Z9_ `crlf
        line`,
    },
    match Packet as float {
        1 : lengthOf,
    },
    MetaDataX,
    match x as u8x {
        10 : crc,
    },
}

root packet Header {
    @calculatedFrom(""{,}"")
    a1 {
        char[007] pack,
        stringy zchar,
        repeat char[] o `it's`,
    },
}")).
Eval vm_compute in ("<<<M1416>>>" ++ check (runes_of_ascii "packet rootA
{ 
@tag(
0123456789
    ) options1
{
int32

uint8x`u8 x,`
,  u8x
    //x
	  // packet A { u8 x, }
	{
match

    Header  as
metadata { [
	10
    ]	:
    pack	} ,
}, f64	// `tick` ""quote"" 'q'

	chars
	, }
, 
@lengthOf(body)	u64
	// @lengthOf(
      //
Z9_ ,
	}

    MetaData  repeatCount

    {
zchar[
	10
]string_

    ,  f64
	A,
	u32
	BodyLength

    ,zchar[

00

]
    uint8x,  trueish leftPad	,char[65535
]	rootA

    , 
} 
    //	t
 
")).
Eval vm_compute in ("<<<M1480>>>" ++ check (runes_of_ascii "root packet Logon {
    @calculatedFrom("""")
    @lengthOf(int)
    @tag(3)
    match _x as i64_ {
        10 : asx,
        // `tick` ""quote"" 'q'
        /// triple
        """ ++ [128512]%N ++ runes_of_ascii """ : crc,
        [0, 007] : float,
        // trailing space 
    },
    repeat uint16 leftPad,
}

// " ++ [27880; 37322]%N ++ runes_of_ascii "
packet charz {
}

MetaData int {
    zchar[4294967296] matchKey,
    asx rootA `doc`,
    Foo string_ `// not a comment`,
    char[] u8x,
    roots float,
}")).
Eval vm_compute in ("<<<M1328>>>" ++ check (runes_of_ascii "
options
    {LittleEndian 
=
	true

    ;
    StringPrefixLenType

    =

u16
    ;FixedStringPadChar
    =
    ' '; }packet
Logon

{
@leftPad
    (  '0'

)  char[ 10  ] tag7
, }root

    packet

    Ack
{
    int32 Px 
,
uint16

    count
	,
	string
    Qty ,string OrderId , 
string

    Flags	,  u8 x

,  match x 
as  Body

{[ 58
    ,
169] 
: Logon

,
}	,

    }
")).
Eval vm_compute in ("<<<M236>>>" ++ check (runes_of_ascii "packet metadata{ //	t
float64	body
    @lengthOf( calculatedFrom ) , // a // b
@tag(42
    ) rootA ,
    x_y_z u8x`// not a comment`
    ,  @lengthOf(Pad)  match // " ++ [27880; 37322]%N ++ runes_of_ascii "
packetx  as leftPad
    {
    //
    65535 : tag ,
""" ++ [128512]%N ++ runes_of_ascii """ :_x} , x_y_z  metadata , @tag(7 )int64 zchar @lengthOf(
repeatCount ) `" ++ [233]%N ++ runes_of_ascii "`,@tag( 0123456789 ) repeat float chars ,	f32  MetaDataX
,}")).
Eval vm_compute in ("<<<M1489>>>" ++ check (runes_of_ascii "// top
root packet _x {
    match Foo as Z9_ {
        // c8
        ""a	b"" : Pad,
    },// c14
    repeat x `line1
    line2`,// c18
    @rightPad(' ')
    @calculatedFrom(""a\\"")
    // c25a
    // c25b
    metadata MetaDataX,
    @tag(0)
    // c31
    Logon int ``,
}// c36

options {
    // c38
    T = '\x00'
}// c42a")).
Eval vm_compute in ("<<<M1734>>>" ++ check (runes_of_ascii "packet	MDSnapshotZZ	{u8

a  ,
}
packet
    OrderACK

    {u16 b
    , } 
packet

    HTTPServerInfo
	{	string 
s	, 
}root packet
    FIXMsg
    { u8 
KType	,	MDSnapshotZZ
, 
repeat	OrderACK  ,match KType as Body
{	1
    :

    HTTPServerInfo
    ,
2
    :

    OrderACK  , } ,}
")).
Eval vm_compute in ("<<<M80>>>" ++ check (runes_of_ascii "packet
    len { // trailing space 
repeat zchar f32a `// not a comment` , @tag( 255 )repeat  Pad { x T
, } , @calculatedFrom(
""{,}"") repeat
    // a // b
    leftPad { u64 u8x `tab	here` ,o Packet
    ,char[] chars , } , @tag( 3 )float64
    i8i8 , }
")).
Eval vm_compute in ("<<<M203>>>" ++ check (runes_of_ascii "root packet Pad {match //	t
falsey as
    A{
255:// `tick` ""quote"" 'q'
T, } , int64
Header	`tab	here`
, repeat i64_ `line1
line2`, @tag( 7 )
    float32	zchar
    @calculatedFrom( ""\" ++ [233]%N ++ runes_of_ascii """
    )
//
// @lengthOf(
,u64 Header ,
    }
")).
Eval vm_compute in ("<<<M92>>>" ++ check (runes_of_ascii "packet lengthOf { } root packet leftPad {  zchar[00// a // b
]
    Foo `` // c
, @calculatedFrom( ""1"" )
@leftPad (
    ' '
// trailing space 
// " ++ [27880; 37322]%N ++ runes_of_ascii "
)  @leftPad
( ' ')
repeat u8
options1 , }")).
Eval vm_compute in ("<<<M1668>>>" ++ check (runes_of_ascii "
packet

msg_type {zchar[65535
	/// triple
]stringy 	 // `tick` ""quote"" 'q'
@calculatedFrom(""" ++ [233]%N ++ runes_of_ascii "t" ++ [233]%N ++ runes_of_ascii """	) 
, @tag(

0
	) 
repeat 
i64_
, } 
    // packet A { u8 x, }
 
")).
Eval vm_compute in ("<<<M396>>>" ++ check (runes_of_ascii "packet uint8x uint8x
{ match pack
    as msg_type	{
    0123456789 :	float
}
,
} packet //	t
a1
    { } options {packetx
    = '\x00'	; u128= ""a	b""  ; }
")).
Eval vm_compute in ("<<<M513>>>" ++ check (runes_of_ascii "packet uint8x
{ match pack
    as msg_type	{
    0123456789 :	float
}
,
} packet //	t
a1
    { } options {packetx
    = '\x00'	; float32= ""a	b""  ; }
")).
Eval vm_compute in ("<<<M548>>>" ++ check (runes_of_ascii "packet uint8x
{ match pack
    as msg_type	{
    0123456789 :	float
}
,
} packet //	t
a1
    { } options {packetx
    ''= '\x00'	; u128= ""a	b""  ; }
")).
Eval vm_compute in ("<<<M447>>>" ++ check (runes_of_ascii "packet uint8x
{ match pack
    as msg_type	{
    0123456789 :	float
,
}
} packet //	t
a1
    { } options {packetx
    = '\x00'	; u128= ""a	b""  ; }
")).
Eval vm_compute in ("<<<M483>>>" ++ check (runes_of_ascii "packet uint8x
{ match pack
    as msg_type	{
    0123456789 :	float
}
,
} packet //	t
a1
    { } '\x00' {packetx
    = '\x00'	; u128= ""a	b""  ; }
")).
Eval vm_compute in ("<<<M533>>>" ++ check (runes_of_ascii "packet uint8x
{ match pack
    as msg_type	{
    0123456789 :	float
}
,
} packet //	t
a1
    { } options {packetx
    = '\x00'	; u128= ""a	b""  ;")).
Eval vm_compute in ("<<<M664>>>" ++ check (runes_of_ascii "// @lengthOf(
packet i8i8 { u128 o , }
options { MetaDataX = true;
    BodyLength =""packet"" packet= 007
crc //x
= ""abc"" ;
    msg_type =
i16 }")).
Eval vm_compute in ("<<<M689>>>" ++ check (runes_of_ascii "// @lengthOf(
packet i8i8 { u128 o , }
options { MetaDataX  true;
    BodyLength =""packet"" x_y_z= 007
crc //x
= ""abc"" ;
    msg_type =
i16 }")).
Eval vm_compute in ("<<<M329>>>" ++ check (runes_of_ascii "  packet calculatedFrom
{ uint8x {body `line1
line2`
, string crc
@lengthOf(uint8x// " ++ [128512]%N ++ runes_of_ascii " emoji
) , char[]As@lengthOf(	Pad )
    , } , }
")).
Eval vm_compute in ("<<<M1588>>>" ++ check (runes_of_ascii "packet A {
    match k as n {
        [
            1, 007, 5, 7, ""bb"",
            ""d"", ""f""
        ] : B,
        2 : C,
    },
}")).
Eval vm_compute in ("<<<M173>>>" ++ check (runes_of_ascii "
options
    { zchar
    = 10 ; matchKey = char[ /// triple
1
    ]
u	= ""a\""b"" ;
    x_y_z =
    42 ; } MetaData Logon{ }")).
Eval vm_compute in ("<<<M1158>>>" ++ check (runes_of_ascii "MetaData leftPad { chars MetaDataX , } packet
// c
repeatCount { char[ 255 ] uint8x `" ++ [233]%N ++ runes_of_ascii "` , } MetaData pack { As Foo , }")).
Eval vm_compute in ("<<<M102>>>" ++ check (runes_of_ascii "packet
    // " ++ [128512]%N ++ runes_of_ascii " emoji
    body {match Logon  as _x
    {
4294967296
// a // b
//x
:
_x , """ ++ [28040; 24687]%N ++ runes_of_ascii """
    : u128
    ,} , }
")).
Eval vm_compute in ("<<<M1244>>>" ++ check (runes_of_ascii "// top
root // c0
packet // c1
P { // c3
repeat // c4
char cs
    // c6
, u8 x // c9a
  // c9b
, }
    // c11
")).
Eval vm_compute in ("<<<M1285>>>" ++ check (runes_of_ascii "// top
root
    // c0
packet // c1a
  // c1b
P
    // c2
{ // c3
string s // c5a
  // c5b
,
    // c6
} ")).
Eval vm_compute in ("<<<M1911>>>" ++ check (runes_of_ascii "packet
	A {
    match k	as
n

    {
[	""a""
,
    22 , ""c c""  ,
	4
]

:

    B
2:C }
,
    }

")).
Eval vm_compute in ("<<<M1385>>>" ++ check (runes_of_ascii "packet A {
    u32 crc @calculatedFrom(""x\
    y""),
    @calculatedFrom(""x\
    y"")
    u8 y,
}")).
Eval vm_compute in ("<<<M560>>>" ++ check (runes_of_ascii "
packet
    false {match u128 as lengthOf
{
//	t
// `tick` ""quote"" 'q'
255 : x ,
    } ,	}")).
Eval vm_compute in ("<<<M1934>>>" ++ check (runes_of_ascii "
packet
	calculatedFrom{

repeat	// packet A { u8 x, }
	  string

Foo  `{ , }`
    , 
}

")).
Eval vm_compute in ("<<<M879>>>" ++ check (runes_of_ascii "packet A {
  match k as n {
    [1, 22, 007, 4, 5, 66, 7, 8, 9, 10] : B
    2 : C
  },
}")).
Eval vm_compute in ("<<<M1445>>>" ++ check (runes_of_ascii "packet A {
    match k as n {
        [1, 22, 007, 4, 5] : B,
        2 : C,
    },
}")).
Eval vm_compute in ("<<<M833>>>" ++ check (runes_of_ascii "packet A {
  match k as n {
    [""a"", 22, ""c c"", 4, ""e"", 66] : B
    2 : C
  },
}")).
Eval vm_compute in ("<<<M802>>>" ++ check (runes_of_ascii "packet A {
  match k as n {
    [""a"", ""bb"", ""c c"", ""d""] : B,
    2 : C
  },
}")).
Eval vm_compute in ("<<<M459>>>" ++ check (runes_of_ascii "packet uint8x
{ match pack
    as msg_type	{
    0123456789 :	float
}
,")).
Eval vm_compute in ("<<<M800>>>" ++ check (runes_of_ascii "packet A {
  match k as n {
    [1, 22, 007, 4] : B,
    2 : C
  },
}")).
Eval vm_compute in ("<<<M780>>>" ++ check (runes_of_ascii "packet A {
  match k as n {
    [""a"", ""bb""] : B,
    2 : C
  },
}")).
Eval vm_compute in ("<<<M825>>>" ++ check (runes_of_ascii "packet A { Inner { match k as n { [1,22,007,4,5] : B, }, }, }")).
Eval vm_compute in ("<<<M930>>>" ++ check (runes_of_ascii "packet A {
    B b `
`,
    B `
`,
    repeat B bs `
`,
}")).
Eval vm_compute in ("<<<M1200>>>" ++ check (runes_of_ascii "packet
// c
body { i32 f32a `{ , }` , } options { }")).
Eval vm_compute in ("<<<M251>>>" ++ check (runes_of_ascii "
root packet
chars
{
    i16 leftPad
    , }
")).
Eval vm_compute in ("<<<M951>>>" ++ check (runes_of_ascii "MetaData M {
    u8 x `x
`,
    T t `x
`,
}")).
Eval vm_compute in ("<<<M971>>>" ++ check (runes_of_ascii "options {
    a = ""\
"";
    b = ""\
""
}")).
Eval vm_compute in ("<<<M105>>>" ++ check (runes_of_ascii "// " ++ [128512]%N ++ runes_of_ascii " emoji
MetaData crc
    {  }")).
Eval vm_compute in ("<<<M1008>>>" ++ check (runes_of_ascii "packet A {
 u8 x `d" ++ [8202]%N ++ runes_of_ascii "`, // c" ++ [8202]%N ++ runes_of_ascii "
}")).
Eval vm_compute in ("<<<M655>>>" ++ check (runes_of_ascii "// @lengthOf(
packet i8i8 {")).
Eval vm_compute in ("<<<M286>>>" ++ check (runes_of_ascii " // `tick` ""quote"" 'q'")).
Eval vm_compute in ("<<<M115>>>" ++ check (runes_of_ascii "MetaData roots{ } 	 ")).
Eval vm_compute in ("<<<M986>>>" ++ check (runes_of_ascii "packet A {
}
// c" ++ [160]%N)).
Eval vm_compute in ("<<<M1225>>>" ++ check (runes_of_ascii "
// c
packet x { }")).
Eval vm_compute in ("<<<M1230>>>" ++ check (runes_of_ascii "packet x { // c
}")).
Eval vm_compute in ("<<<M241>>>" ++ check (runes_of_ascii "/// triple
")).
Eval vm_compute in ("<<<M293>>>" ++ check (runes_of_ascii "  

")).
