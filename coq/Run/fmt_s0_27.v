From FP Require Import Lexer Parser ShowPT Digest Formatter.
From Coq Require Import String List NArith.
Import ListNotations.
Open Scope string_scope.
Set Printing Width 100000000.
Set Printing Depth 100000000.
Definition show_fres (r : fres) : string :=
  match r with
  | FOk s => "OK:" ++ sh_escaped s ""
  | FErr s => "ERR:" ++ sh_escaped s ""
  | FPanic p => "PANIC:" ++ p
  end.
Definition check (rs : list rune) : string := digest (show_fres (format_res rs)).
Definition full (rs : list rune) : string := show_fres (format_res rs).
Eval vm_compute in ("<<<M1356>>>" ++ check (runes_of_ascii "// top
options // c0a
  // c0b
{ // c1a
  // c1b
StringPrefixLenType = u8 ;
    // c5
ArrayPrefixLenType =
    // c7
u8 ; // c9
FixedStringPadFromLeft // c10
=
    // c11
false ; // c13
FixedStringPadChar // c14
= // c15a
  // c15b
' ' ; // c17a
  // c17b
} packet // c19a
  // c19b
Ack { // c21a
  // c21b
char[] // c22a
  // c22b
tag7 // c23a
  // c23b
, // c24a
  // c24b
} packet // c26
Reject // c27a
  // c27b
{ InSym61
    // c29
{ // c30
repeat // c31a
  // c31b
Ack
    // c32
, // c33a
  // c33b
zchar[ // c34
4
    // c35
] // c36a
  // c36b
f1 , } // c39a
  // c39b
, // c40
}
    // c41
packet // c42
Logout // c43a
  // c43b
{ // c44
char[ // c45a
  // c45b
4
    // c46
] // c47a
  // c47b
clOrdID // c48
, // c49
} // c50
root packet
    // c52
Cancel // c53a
  // c53b
{ @leftPad ( // c56
' ' // c57a
  // c57b
) // c58
char[ // c59
10 ] price // c62
, u8
    // c64
x
    // c65
, // c66a
  // c66b
u32 // c67a
  // c67b
venue
    // c68
@lengthOf(
    // c69
Body
    // c70
) // c71a
  // c71b
, // c72a
  // c72b
match // c73a
  // c73b
x // c74
as Body // c76a
  // c76b
{ [ 92 // c79
,
    // c80
175 ] // c82
: // c83
Logout // c84
,
    // c85
26 // c86a
  // c86b
: Reject // c88a
  // c88b
, // c89a
  // c89b
144 // c90a
  // c90b
:
    // c91
Ack
    // c92
, // c93
} // c94a
  // c94b
, // c95
u16 count // c97a
  // c97b
@calculatedFrom( // c98a
  // c98b
""CRC32""
    // c99
)
    // c100
, // c101
} // c102a
  // c102b
")).
Eval vm_compute in ("<<<M231>>>" ++ check (runes_of_ascii "root packet
    metadata {  @lengthOf(
options1
) int32 zchar @calculatedFrom(""// no comment"" ) `
` , repeat calculatedFrom `it's`, //
match
    BodyLength as lengthOf
{ 3 /// triple
:	leftPad , }, repeat
u128, char[ 10
] chars  ,// @lengthOf(
falsey
@calculatedFrom( ""x y"") // c
`{ , }` ,	@tag(42
)	float64
    i64_
    // packet A { u8 x, }
    , u8x@calculatedFrom(  ""{,}"" ) `two words`
//	t
// trailing space 
, @lengthOf(T)
char[	255]  pack `it's`
,match MetaDataX
as i64_{
    //
    """ ++ [28040; 24687]%N ++ runes_of_ascii """ // @lengthOf(
:Header , 0
    //
    : x_y_z 3 : // `tick` ""quote"" 'q'
int""abc""
    // @lengthOf(
    : u8x ,
    } , } packet i64_
{@rightPad ( ) /// triple
pack {
match MetaDataX
    as trueish { 1 // @lengthOf(
:
    len
00	: falsey // packet A { u8 x, }
,"""" :
x ,
}, } , @tag(1) char[]int @lengthOf(	metadata
) // packet A { u8 x, }
, a1 @lengthOf( calculatedFrom ) ,
    @tag( 7
    )tag@lengthOf(u ) , BodyLength /// triple
@calculatedFrom( ""it's""
) `say ""hi""` ,string
msg_type ,
    }
    MetaData
    Logon { BodyLength
_x `it's` , int32 body ,
    // trailing space 
    } root	packet body{  }
")).
Eval vm_compute in ("<<<M1627>>>" ++ check (runes_of_ascii "
options
{
StringPrefixLenType	=u64

    ; ArrayPrefixLenType

    = u32

;FixedStringPadFromLeft=
false ; }

    packet
Party{
zchar[

7

    ] OrderId
, InTail6
{	repeat
char[  1
    ]

    msgKind
	, char[

    3 ]
Tail , 
char[3
]Flags
, 
i16

    tag7
	, }
, @rightPad

( '0'

    ) char[  12 ] 
clOrdID
	,  }
packet

    Quote

    {

@leftPad	(	'0' ) 
char[ 
11  ]

price

    , repeat InCount7 {	i32
	x, Party ,u8 Ref ,
	u8

tag7
	,
}	, char[]
    seqNo,
Party,  }
packet

Logon {
@rightPad  (
'\x00')
char[
    5 ] 
Note
	, i16 
sym , InPrice72 { 
char[

    9 ]
Ref , zchar[

    1  ]	venue, }

    ,char[] 
clOrdID , }
	root
	packet

    Reject
    {

repeat	Logon 
,
    @leftPad

    (	' ' )
char[4 ]
	seqNo ,
    zchar[
	5	]

Acct,

    u32 x , u16 f1
    @lengthOf(	Body )	, match
x as Body
    {
[
    169 ,	74] : Quote
	,
    45 
: 
Party	, 
7
:	Logon
,

} ,
}")).
Eval vm_compute in ("<<<M1878>>>" ++ check (runes_of_ascii "packet o {
    repeat pack stringy `two words`,
    char[1] leftPad,
}

MetaData msg_type {
    zchar[1] Pad `" ++ [28040; 24687; 31867; 22411]%N ++ runes_of_ascii "`,
    uint32 charz `a\`,
    A u8x `// not a comment`,
}

packet options1 {
    @calculatedFrom(""" ++ [233]%N ++ runes_of_ascii "t" ++ [233]%N ++ runes_of_ascii """)
    @rightPad()
    Pad @lengthOf(pack) ``,
    match A as a1 {
        255 : msg_type,
    },
    @lengthOf(tag)
    @tag(00)
    @rightPad(' ')
    match Header as f32a {
        """" : float,
    },
    char[] T @calculatedFrom(""packet""),
    repeat asx msg_type `crlf
        line`,
    @calculatedFrom(""\" ++ [233]%N ++ runes_of_ascii """)
    @tag(7)
    int64 o `line1
        line2`,
}// " ++ [128512]%N ++ runes_of_ascii " emoji

root packet crc {
    int8 body @lengthOf(matchKey) `two words`,
    @lengthOf(u8x)
    zchar[0123456789] i8i8,
}

MetaData a1 {
    falsey _x `
        `,
    char[] body `" ++ [28040; 24687; 31867; 22411]%N ++ runes_of_ascii "`,
    zchar[42] trueish `
        `,
    float trueish,
    metadata o `{ , }`,
}")).
Eval vm_compute in ("<<<M1614>>>" ++ check (runes_of_ascii "options {
    StringPrefixLenType = u16;
    ArrayPrefixLenType = u32;
    FixedStringPadFromLeft = true;
    FixedStringPadChar = '0';
}

packet Cancel {
}

packet Party {
}

packet Logon {
}

packet Ack {
}

packet Logout {
    repeat InSym87 {
        InClordid94 {
            string clOrdID,
        },
        string Px,
        i16 Qty,
        repeat InCount71 {
            repeat Cancel,
            uint16 Tail,
            char[2] x,
            repeat string Ref,
        },
        Cancel,
    },
}

root packet Order {
    repeat string tag7,
    @leftPad(' ')
    char[3] Px,
    u8 Qty,
    match Qty as Body {
        [28, 62] : Logon,
        148 : Ack,
        88 : Party,
        184 : Cancel,
    },
    u16 Note @calculatedFrom(""CR\
    C32""),
}")).
Eval vm_compute in ("<<<M201>>>" ++ check (runes_of_ascii "packet charz
{ //	t
repeat i64_ ,trueish {
repeat _x
    ,	repeatCount, repeat u16
matchKey `
`
,
// " ++ [128512]%N ++ runes_of_ascii " emoji
// a // b
matchKey @calculatedFrom( ""a\""b"" )
`it's` ,}	,
@tag(
007 )@calculatedFrom(
    ""a\\"")	@tag(
    3 // @lengthOf(
)f32 f32a @lengthOf(asx ) `crlf
line` // packet A { u8 x, }
, repeat i8 string_
,
    @lengthOf(
    // @lengthOf(
    Logon  ) @lengthOf( x_y_z )
    @lengthOf(
zchar
    ) repeat char[ 65535	] Foo`" ++ [233]%N ++ runes_of_ascii "`,
@calculatedFrom(//
""abc""
) trueish @lengthOf( A )
// " ++ [27880; 37322]%N ++ runes_of_ascii "
// a // b
,char[ 0 ] float , Packet
    @calculatedFrom( ""a	b""
), } MetaData
    Pad { char[ 00 ] leftPad , u8 rootA `
`,
//
// " ++ [128512]%N ++ runes_of_ascii " emoji
int32
    a1	`say ""hi""`
    ,
Z9_ float , //x
i32 Pad ,
}")).
Eval vm_compute in ("<<<M23>>>" ++ check (runes_of_ascii "MetaData lengthOf
{ }
MetaData falsey { // " ++ [27880; 37322]%N ++ runes_of_ascii "
falsey i64_
`
`	, zchar[ 255	] u `two words` ,	BodyLength int , matchKey	i8i8 `crlf
line` ,uint8x	asx ,
char[]options1 ,	}packet
    asx  {	@lengthOf( o
)@calculatedFrom(//
""\n"" ) char[] lengthOf  `two words`// c
,
    BodyLength `" ++ [233]%N ++ runes_of_ascii "` ,repeat u8x len // " ++ [27880; 37322]%N ++ runes_of_ascii "
`doc`
, int
@calculatedFrom(
""a\\""
    ) `line1
line2`,@lengthOf( MetaDataX
)
Packet packetx
    // `tick` ""quote"" 'q'
    , a1 {
    match Logon	as
// " ++ [128512]%N ++ runes_of_ascii " emoji
/// triple
len {	4294967296
:matchKey , [
1  , 10 , 10 ,
""{,}"" , """ ++ [233]%N ++ runes_of_ascii "t" ++ [233]%N ++ runes_of_ascii """ , 0123456789]: leftPad ,  3
    :msg_type ,
//	t
//x
1 : As
,} ,
    chars , }
    ,}
")).
Eval vm_compute in ("<<<M1357>>>" ++ check (runes_of_ascii "  options 
{
StringPrefixLenType
= 
u8
;
ArrayPrefixLenType=  u8 ;

FixedStringPadFromLeft
    =
false 
;
	FixedStringPadChar
=' '

;
    } packet Ack	{ 
char[]
	tag7,	}
	packet
    Reject 
{InSym61
    {

repeat

Ack
, zchar[4
]
	f1
, 
}
,}	packet
Logout{
char[

4

    ] clOrdID , 
}
	root
packet Cancel  {@leftPad
    ( 
' ')

char[

    10

]	price
,u8
	x
, u32 venue 
@lengthOf(
Body	) ,	match

    x  as Body  {
[ 
92 ,  175 ]
    : Logout ,  26
:
Reject

    , 144 
:
	Ack	, }
    ,u16  count	@calculatedFrom(
    ""CRC32""	)

    , }
")).
Eval vm_compute in ("<<<M1637>>>" ++ check (runes_of_ascii "MetaData u128 {
    zchar[3] matchKey `crlf
        line`,
}

// packet A { u8 x, }
options {
}

root packet rootA {
    @calculatedFrom(""{,}"")
    repeat u16 len,
    repeat body,
    i8i8 @lengthOf(packetx),
    metadata int `line1
        line2`,
    uint8x `two words`,
    int16 x_y_z,
    repeatCount,
    Logon {
        repeat i8 Packet `line1
                line2`,
    },
}

options {
    // " ++ [128512]%N ++ runes_of_ascii " emoji
    lengthOf = ' ';
    i64_ = ""{,}"";
    msg_type = '0';
    u = i32;
    _x = ""abc"";
}")).
Eval vm_compute in ("<<<M1789>>>" ++ check (runes_of_ascii "options
{	LittleEndian 
=	true

; StringPrefixLenType =

    u64;
ArrayPrefixLenType = u16  ;
	FixedStringPadFromLeft
	=	false ;	FixedStringPadChar = 
' ' ;	} packet

Logon
    {  zchar[ 5
]Side2
	,
	}  root packet 
Logout{ 
repeat i64
	Tail
	, Logon
    ,  repeat

    i16
    OrderId,
	char[]
venue ,
uint64 
x

,
repeat i16  count
    ,
	u8
    Flags  ,
	match
Flags as Body	{25 : Logon ,
    }	,

    u16

Qty@calculatedFrom(
""CRC32"" 
)	,  }")).
Eval vm_compute in ("<<<M1784>>>" ++ check (runes_of_ascii "// top
options {
    // c1a
    // c1b
    LittleEndian = false;// c5a
    // c5b
    StringPrefixLenType = u16;
}// c10

packet Heartbeat {
    @rightPad('0')
    char[7] seqNo,// c22a
    // c22b
    uint64 Tail,// c25a
    // c25b
    i16 Flags,// c28a
    // c28b
    u16 msgKind,
}// c32a

// c32b
root packet Reject {
    zchar[3] tag7,// c41
    repeat Heartbeat,
    repeat string clOrdID,
}")).
Eval vm_compute in ("<<<M1265>>>" ++ check (runes_of_ascii "// top
packet // c0
B // c1
{ // c2
u8 // c3
a , // c5a
  // c5b
} // c6
root // c7
packet P // c9a
  // c9b
{ // c10a
  // c10b
u8 // c11
K , // c13a
  // c13b
match K // c15a
  // c15b
as // c16a
  // c16b
Body { // c18
1 :
    // c20
B , }
    // c23
, // c24a
  // c24b
u16 // c25a
  // c25b
L // c26
@lengthOf( Body
    // c28
)
    // c29
,
    // c30
} ")).
Eval vm_compute in ("<<<M1458>>>" ++ check (runes_of_ascii "
packet Logon{
o Header,

    Header
,

    @lengthOf(u	)
char[
255 ] tag `tab	here`
	,	char[]
falsey

,
    @lengthOf( zchar	)
@rightPad
(  )
    float
	roots 	 // @lengthOf(
,@calculatedFrom(
""// no comment""
    )
i64 u8x
,

} 
options {

metadata

    =

    '0'

;_x=

4294967296  ;Packet
	=  '0'	;
	}")).
Eval vm_compute in ("<<<M1308>>>" ++ check (runes_of_ascii "packet A {
    u8 a,
}
packet B {
    u16 b,
}
packet C {
    u32 c,
}
root packet M {
    u16 Kc, u16 Kb, u16 Ka,
    match Kc as X {
        9 : A,
        10 : B,
    },
    match Kb as Y {
        2 : C,
        1 : A,
    },
    match Ka as Z {
        1 : B,
    },
    A, B, C,
}
")).
Eval vm_compute in ("<<<M1884>>>" ++ check (runes_of_ascii "packet i8i8
{

    repeat

char[
00]	Pad  `a\`,
    @leftPad 
( 
'\x00'	)

    string a1@lengthOf(tag
	)
    ``	,float64
u128

    @calculatedFrom( 
""1"") ,
@lengthOf( x) 
u128

@lengthOf(
    tag

)

`" ++ [28040; 24687; 31867; 22411]%N ++ runes_of_ascii "`	,
    int64
u ,A//x
  T`say ""hi""` , 
}")).
Eval vm_compute in ("<<<M124>>>" ++ check (runes_of_ascii "MetaData Z9_
{zchar[4294967296 ]
    leftPad `u8 x,`,
}
MetaData body { trueish
    len `// not a comment` , }root
packet // @lengthOf(
u8x{ char[ 10 ] x
    @calculatedFrom(
// a // b
// packet A { u8 x, }
""\" ++ [233]%N ++ runes_of_ascii """ ) , }
")).
Eval vm_compute in ("<<<M1536>>>" ++ check (runes_of_ascii "
MetaData x_y_z 
    //x

//x
  {	int32
o  ,
zchar[
65535 
]	Packet

,
i64_ o  ,i64

o 
`
`
,

    }options {x= 
//x
/// triple
	  u8  ; 
    // " ++ [27880; 37322]%N ++ runes_of_ascii "
// a // b
	} 	 // trailing space ")).
Eval vm_compute in ("<<<M1582>>>" ++ check (runes_of_ascii "root packet lengthOf	{ @leftPad

( ' ' 	 // c
  ) 
repeat
	char	MetaDataX ,
	}MetaData
    Pad  { msg_type

rootA 	 // trailing space 

  `// not a comment`
,
    }
")).
Eval vm_compute in ("<<<M392>>>" ++ check (runes_of_ascii "packet packet uint8x
{ match pack
    as msg_type	{
    0123456789 :	float
}
,
} packet //	t
a1
    { } options {packetx
    = '\x00'	; u128= ""a	b""  ; }
")).
Eval vm_compute in ("<<<M466>>>" ++ check (runes_of_ascii "packet uint8x
{ match pack
    as msg_type	{
    0123456789 :	float
}
,
} packet //	t
a1 a1
    { } options {packetx
    = '\x00'	; u128= ""a	b""  ; }
")).
Eval vm_compute in ("<<<M1390>>>" ++ check (runes_of_ascii "packet A {
    match k as n {
        [
            1, 22, 007, 4, 5,
            66, 7, 8, 9, 10,
            11
        ] : B,
        2 : C,
    },
}")).
Eval vm_compute in ("<<<M462>>>" ++ check (runes_of_ascii "packet uint8x
{ match pack
    as msg_type	{
    0123456789 :	float
}
,
} a1 //	t
packet
    { } options {packetx
    = '\x00'	; u128= ""a	b""  ; }
")).
Eval vm_compute in ("<<<M505>>>" ++ check (runes_of_ascii "packet uint8x
{ match pack
    as msg_type	{
    0123456789 :	float
}
,
} packet //	t
a1
    { } options {packetx
    = '\x00'	 u128= ""a	b""  ; }
")).
Eval vm_compute in ("<<<M1653>>>" ++ check (runes_of_ascii "packet A {
    match k as n {
        [
            22, 4, 66, 8, 10,
            ""a"", ""c c"", ""e"", ""g"", ""i""
        ] : B,
        2 : C,
    },
}")).
Eval vm_compute in ("<<<M1938>>>" ++ check (runes_of_ascii "packet A

    {

u8 a
,	}
	packet
B  {

u16	b

,	}root packet

    P
{
u8
    K, match  K as 
M

    {
1
    :A
,
1:

    B 
, }

, }")).
Eval vm_compute in ("<<<M1805>>>" ++ check (runes_of_ascii "MetaData	leftPad { 
// c
chars
    MetaDataX ,}

    packet

repeatCount{ char[ 255] 
uint8x
	`" ++ [233]%N ++ runes_of_ascii "`
    ,}	MetaData

    pack{ As Foo,
}")).
Eval vm_compute in ("<<<M1448>>>" ++ check (runes_of_ascii "

  packet	B 
{
	u8
a,	}	root
packet
    P{
u8
K
	,
match

    K

    as
Body
	{1
:  B
,
},u16
    L

@lengthOf(  Body

) ,
} ")).
Eval vm_compute in ("<<<M1641>>>" ++ check (runes_of_ascii "options {
}

MetaData u8x {
    uint8x body `crlf
    line`,
    calculatedFrom body,
}

options {
}

root packet options1 {
}")).
Eval vm_compute in ("<<<M1141>>>" ++ check (runes_of_ascii "// c
MetaData leftPad { chars MetaDataX , } packet repeatCount { char[ 255 ] uint8x `" ++ [233]%N ++ runes_of_ascii "` , } MetaData pack { As Foo , }")).
Eval vm_compute in ("<<<M1174>>>" ++ check (runes_of_ascii "MetaData leftPad { chars MetaDataX , } packet repeatCount { char[ 255 ] uint8x `" ++ [233]%N ++ runes_of_ascii "` ,
// c
} MetaData pack { As Foo , }")).
Eval vm_compute in ("<<<M300>>>" ++ check (runes_of_ascii "packet
Logon  { repeat u {zchar { zchar[ 007
] a1
`` ,  x_y_z@calculatedFrom(
//
// " ++ [128512]%N ++ runes_of_ascii " emoji
""{,}""
    ), }, } ,}
")).
Eval vm_compute in ("<<<M901>>>" ++ check (runes_of_ascii "packet A {
  match k as n {
    [""a"", ""bb"", 007, ""d"", ""e"", 66, ""g"", ""h"", 9, ""j"", ""k""] : B,
    2 : C
  },
}")).
Eval vm_compute in ("<<<M1813>>>" ++ check (runes_of_ascii "packet A {
    u32 crc @calculatedFrom(""x\
        y""),
    @calculatedFrom(""x\
        y"")
    u8 y,
}")).
Eval vm_compute in ("<<<M583>>>" ++ check (runes_of_ascii "
packet
    asx {match u128 as lengthOf lengthOf
{
//	t
// `tick` ""quote"" 'q'
255 : x ,
    } ,	}")).
Eval vm_compute in ("<<<M624>>>" ++ check (runes_of_ascii "
packet
    asx {match u128 as lengthOf
{
//	t
// `tick` ""quote"" 'q'
255 : x ,
    } ,	repeat")).
Eval vm_compute in ("<<<M588>>>" ++ check (runes_of_ascii "
packet
    asx {match u128 as lengthOf
{ {
//	t
// `tick` ""quote"" 'q'
255 : x ,
    } ,	}")).
Eval vm_compute in ("<<<M574>>>" ++ check (runes_of_ascii "
packet
    asx {match as u128 lengthOf
{
//	t
// `tick` ""quote"" 'q'
255 : x ,
    } ,	}")).
Eval vm_compute in ("<<<M577>>>" ++ check (runes_of_ascii "
packet
    asx {match u128  lengthOf
{
//	t
// `tick` ""quote"" 'q'
255 : x ,
    } ,	}")).
Eval vm_compute in ("<<<M567>>>" ++ check (runes_of_ascii "
packet
    asx { u128 as lengthOf
{
//	t
// `tick` ""quote"" 'q'
255 : x ,
    } ,	}")).
Eval vm_compute in ("<<<M853>>>" ++ check (runes_of_ascii "packet A {
  match k as n {
    [1, 22, 007, 4, 5, 66, 7, 8] : B
    2 : C
  },
}")).
Eval vm_compute in ("<<<M1912>>>" ++ check (runes_of_ascii "options 	 // @lengthOf(

{	a1	=  65535

    // `tick` ""quote"" 'q'
	// c
	}
")).
Eval vm_compute in ("<<<M822>>>" ++ check (runes_of_ascii "packet A {
  match k as n {
    [1, 22, ""c c"", 4, 5] : B
    2 : C
  },
}")).
Eval vm_compute in ("<<<M798>>>" ++ check (runes_of_ascii "packet A {
  match k as n {
    [""a"", ""bb"", 007] : B
    2 : C
  },
}")).
Eval vm_compute in ("<<<M1831>>>" ++ check (runes_of_ascii "root packet P {
    u8 s_u8,
    repeat u8 r_u8,
    u16 b_len,
}")).
Eval vm_compute in ("<<<M314>>>" ++ check (runes_of_ascii "root packet string_{
char[] matchKey ,
} packet x {
    } 	 ")).
Eval vm_compute in ("<<<M764>>>" ++ check (runes_of_ascii "float32 true uint8 f32 i64 i32 @leftPad ) char[ } uint8")).
Eval vm_compute in ("<<<M1208>>>" ++ check (runes_of_ascii "packet body { i32 f32a
// c
`{ , }` , } options { }")).
Eval vm_compute in ("<<<M1611>>>" ++ check (runes_of_ascii "packet stringy {
}

MetaData crc {
    u16 o,
}")).
Eval vm_compute in ("<<<M31>>>" ++ check (runes_of_ascii "options {
x=
""{,}""
matchKey=  true	; }
")).
Eval vm_compute in ("<<<M274>>>" ++ check (runes_of_ascii "packet Z9_
{ }
    packet Pad { } 	 ")).
Eval vm_compute in ("<<<M1063>>>" ++ check (runes_of_ascii "packet A {
 u8 x `d x`, // c x
}")).
Eval vm_compute in ("<<<M1033>>>" ++ check (runes_of_ascii "packet A {
 u8 x `d" ++ [11]%N ++ runes_of_ascii "`, // c" ++ [11]%N ++ runes_of_ascii "
}")).
Eval vm_compute in ("<<<M338>>>" ++ check (runes_of_ascii "root packet
msg_type { }
")).
Eval vm_compute in ("<<<M1760>>>" ++ check (runes_of_ascii "
packet leftPad
	{
	}")).
Eval vm_compute in ("<<<M162>>>" ++ check (runes_of_ascii "
packet f32a  { }
")).
Eval vm_compute in ("<<<M1002>>>" ++ check (runes_of_ascii "// c" ++ [8192]%N ++ runes_of_ascii "
packet A {
}")).
Eval vm_compute in ("<<<M277>>>" ++ check (runes_of_ascii "MetaData i64_ { }")).
Eval vm_compute in ("<<<M1571>>>" ++ check (runes_of_ascii "MetaData tag {
}")).
Eval vm_compute in ("<<<M732>>>" ++ check (runes_of_ascii "// a
// b
")).
Eval vm_compute in ("<<<M157>>>" ++ check (runes_of_ascii "//

")).
