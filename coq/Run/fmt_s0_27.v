From FP Require Import Lexer Parser ShowPT Digest Formatter.
From Coq Require Import String List NArith.
Import ListNotations.
Open Scope string_scope.
Set Printing Width 100000000.
Set Printing Depth 100000000.
Definition show_fres (r : fres) : string :=
  match r with
  | FOk s => "OK:" ++ sh_escaped s ""
  | FErr s => "ERR:" ++ sh_escaped s ""
  | FPanic p => "PANIC:" ++ p
  end.
Definition check (rs : list rune) : string := digest (show_fres (format_res rs)).
Definition full (rs : list rune) : string := show_fres (format_res rs).
Eval vm_compute in ("<<<M233>>>" ++ check (runes_of_ascii "
packet rootA { char[ 0  ]  len @calculatedFrom(// `tick` ""quote"" 'q'
""abc"" ) , u8
    // trailing space 
    uint8x @lengthOf(roots
) // 50% %s
`a\`
, int
    @calculatedFrom(""a\""b"" ) ,
match msg_type as i8i8 { ""\" ++ [233]%N ++ runes_of_ascii """ :
// trailing space 
// a // b
Header , 1 /// triple
:
    zchar
,
[
    ""\n"" ] :string_
""\n""
:i8i8 0123456789// c
:Logon[00 ,007 , ""1"",
""it's""//
, ""// no comment"" ,0, ""a\\"" , 007 // " ++ [27880; 37322]%N ++ runes_of_ascii "
] /// triple
:BodyLength }
,
    match
    rootA
// @lengthOf(
// " ++ [27880; 37322]%N ++ runes_of_ascii "
as
    chars
{ 7 :
    Header} , A Foo // `tick` ""quote"" 'q'
`tab	here`
,float64
charz @calculatedFrom(""\" ++ [233]%N ++ runes_of_ascii """ ) ,	f32 tag , @lengthOf( x ) // `tick` ""quote"" 'q'
@leftPad
    (	'\x00' )	crc { repeat i16 options1 `tab	here` , match options1
as charz { ""CRC32""	: u , 0 // " ++ [27880; 37322]%N ++ runes_of_ascii "
: //
charz
""x y""
    :	roots	, [ ""CRC32""
,
    """ ++ [233]%N ++ runes_of_ascii "t" ++ [233]%N ++ runes_of_ascii """
]
: i8i8
,}
    ,  repeat // " ++ [27880; 37322]%N ++ runes_of_ascii "
falsey { match chars as
asx	{ ""abc"" : stringy
,
    } ,match lengthOf as charz {
    0123456789	:
// c
//
o // " ++ [27880; 37322]%N ++ runes_of_ascii "
,
    ""// no comment""
: chars ,[
    // @lengthOf(
    """"  , 7
    , 255 ,00  , 42	]
    :
float  , } ,	match
    a1 as lengthOf
{ [ /// triple
65535	, 1 ]: int
""{,}"": calculatedFrom ,
""`tick`"" :  float// @lengthOf(
""// no comment""
: Packet[ // c
""\" ++ [233]%N ++ runes_of_ascii """ ,	""// no comment"",
3	,
    """ ++ [128512]%N ++ runes_of_ascii """
    // packet A { u8 x, }
    , 255]  : int ,
//	t
// trailing space 
} ,},
}	,}  options {
msg_type= true
lengthOf =zchar[
    //
    1 // @lengthOf(
]; } root
    //
    packet packetx { i8 // 50% %s
tag
`line1
line2`,
    // @lengthOf(
    }")).
Eval vm_compute in ("<<<M1931>>>" ++ check (runes_of_ascii "root packet u8x {
    // trailing space 
    repeat u64 Pad,
    i64_ @calculatedFrom(""x y"") `100% of %d`,
    @calculatedFrom(""a	b"")
    @lengthOf(Header)
    @lengthOf(zchar)
    i32 A @lengthOf(falsey),
    repeat zchar[10] f32a `
    `,
    repeat f64 rootA `line1
    line2`,// packet A { u8 x, }
    match string_ as o {
        65535 : options1,
        // a // b
        // " ++ [128512]%N ++ runes_of_ascii " emoji
        ""// no comment"" : packetx,
        ""\" ++ [233]%N ++ runes_of_ascii """ : lengthOf,
        65535 : BodyLength,
        ""packet"" : a1,
    },
    @tag(4294967296)
    @tag(7)
    @rightPad('\x00')
    repeat uint64 i8i8,
    char[42] string_ `// not a comment`,
}

MetaData pack {
    x o `two words`,
    x As,
    uint64 BodyLength `// not a comment`,
    x a1 ``,
    T int `it's`,
}

MetaData falsey {
    Header BodyLength ``,
}

root packet trueish {
    i16 trueish @calculatedFrom(""`tick`"") `line1
    line2`,
    f64 As,
    string T @lengthOf(pack) `100% of %d`,
    @lengthOf(matchKey)
    repeat char[00] lengthOf `line1
    line2`,
    zchar[3] _x @calculatedFrom(""`tick`""),
    // " ++ [27880; 37322]%N ++ runes_of_ascii "
    // trailing space 
    @tag(00)
    //	t
    zchar[4294967296] msg_type,
    repeat body,
    Logon,
    @tag(1)
    @calculatedFrom(""packet"")
    zchar[3] Z9_,
}")).
Eval vm_compute in ("<<<M1792>>>" ++ check (runes_of_ascii "packet falsey {
    /// triple
    string i8i8 @calculatedFrom(""a\\""),// " ++ [128512]%N ++ runes_of_ascii " emoji
    @calculatedFrom(""" ++ [233]%N ++ runes_of_ascii "t" ++ [233]%N ++ runes_of_ascii """)
    repeat a1,
}

options {
    falsey = 0
    // packet A { u8 x, }
    // c
    Foo = ""\" ++ [233]%N ++ runes_of_ascii """;
}

root packet packetx {
    metadata @lengthOf(asx),
    // @lengthOf(
    //	t
    char[] BodyLength @calculatedFrom(""" ++ [233]%N ++ runes_of_ascii "t" ++ [233]%N ++ runes_of_ascii """) `" ++ [233]%N ++ runes_of_ascii "`,
    metadata {
        repeat rootA i64_ `a\`,
        u8x chars,
        repeat int64 string_ `{ , }`,
    },
    @tag(4294967296)
    u64 tag @lengthOf(pack),// `tick` ""quote"" 'q'
    u128 Z9_ ``,
    repeat i16 lengthOf,
    @calculatedFrom(""`tick`"")
    // `tick` ""quote"" 'q'
    // @lengthOf(
    repeat char[00] Packet `it's`,
    uint16 Pad,
    @calculatedFrom(""a\\"")
    match int as pack {
        00 : u,
        [""x y""] : asx,
        """ ++ [28040; 24687]%N ++ runes_of_ascii """ : string_,
        // trailing space 
        1 : Pad,
    },
    @calculatedFrom(""" ++ [233]%N ++ runes_of_ascii "t" ++ [233]%N ++ runes_of_ascii """)
    roots @calculatedFrom(""// no comment""),
}

packet zchar {
    // 50% %s
    @leftPad('0')
    T `line1
    line2`,
}")).
Eval vm_compute in ("<<<M1>>>" ++ check (runes_of_ascii "root packet
    len { match x as metadata// " ++ [27880; 37322]%N ++ runes_of_ascii "
{ [
    1
// packet A { u8 x, }
//x
,
    0 ,	"""" , ""a	b"",00 ]
    :	pack , [""// no comment"" , ""x y""
, """ ++ [233]%N ++ runes_of_ascii "t" ++ [233]%N ++ runes_of_ascii """ ]:	Packet //
,	} , repeat lengthOf u128, @calculatedFrom(
    // " ++ [128512]%N ++ runes_of_ascii " emoji
    ""it's""
) @lengthOf( calculatedFrom
// trailing space 
// 50% %s
) @lengthOf( u )	metadata
{ int8 lengthOf
    `crlf
line` ,} ,
@tag(// trailing space 
4294967296 ) calculatedFrom {f32 i64_ // packet A { u8 x, }
`" ++ [233]%N ++ runes_of_ascii "`,} ,@lengthOf(
BodyLength  )	repeat//x
char[65535 ] float
// `tick` ""quote"" 'q'
// c
,@calculatedFrom(
""\" ++ [233]%N ++ runes_of_ascii """) i64_ { match
stringy as
    _x{ //	t
[ 4294967296 ,
    3 ]
:	i8i8
, [ ""a\""b"" ]: x_y_z ,
    3:len , }
    , }  , @tag( // trailing space 
0)
zchar[
    7
] x_y_z ,@lengthOf( Header )
repeat
// 50% %s
/// triple
u64 As `
` ,// " ++ [27880; 37322]%N ++ runes_of_ascii "
@rightPad
    ( ) /// triple
@rightPad (  '\x00') u16
Header	`{ , }` , }
")).
Eval vm_compute in ("<<<M291>>>" ++ check (runes_of_ascii "MetaData len { float  roots
    `u8 x,` ,	u32 int `" ++ [233]%N ++ runes_of_ascii "` , } root packet x{ @tag(1	)repeat charz
, Pad @calculatedFrom( """ ++ [233]%N ++ runes_of_ascii "t" ++ [233]%N ++ runes_of_ascii """
)
,match int as
    u8x { //x
0 :
leftPad, [  1,0123456789 , 10 ] : uint8x }
,@leftPad( ) /// triple
repeat u128
    { f64 _x `two words`
,T @calculatedFrom(""\n""
) `u8 x,`
    /// triple
    ,match
A as crc{ 3:
    // a // b
    leftPad
    ,""" ++ [128512]%N ++ runes_of_ascii """ : falsey , [ """ ++ [233]%N ++ runes_of_ascii "t" ++ [233]%N ++ runes_of_ascii """ ,
4294967296,
""" ++ [28040; 24687]%N ++ runes_of_ascii """
, ""a	b"" , 00 // a // b
,""" ++ [233]%N ++ runes_of_ascii "t" ++ [233]%N ++ runes_of_ascii """  ] :
    rootA	,  ""1""
    :MetaDataX , } , f32
o@calculatedFrom( ""// no comment"" ) `// not a comment`
,// a // b
} ,
    chars@calculatedFrom( ""{,}""
)  , @rightPad
    (
' ' ) @tag( 0 )  repeat BodyLength``,body ,
}
MetaData	T
{len i8i8
    , }options { f32a = true } packet falsey { }
")).
Eval vm_compute in ("<<<M1461>>>" ++ check (runes_of_ascii "
packet float // @lengthOf(
{}
    root

packet Foo  {

@calculatedFrom( ""\" ++ [233]%N ++ runes_of_ascii """
	) 
char[

    7 ]
u128, @calculatedFrom(
	""1""
)	repeat char[
3
] u `100% of %d`  , u128
	// " ++ [27880; 37322]%N ++ runes_of_ascii "

	,@tag(

    3 
)
char[3]
    rootA  `two words`  //x
  ,@leftPad
	(	) 
metadata
    @lengthOf( 	 //x
leftPad	) , string  
      // 50% %s

	i8i8
	@calculatedFrom(""{,}""
) 
, 
repeat int32 T
,
@calculatedFrom(

""abc"" 
)

    @lengthOf( 
options1
) @lengthOf( 
options1	) match	T // " ++ [27880; 37322]%N ++ runes_of_ascii "
		as body	// a // b
		{

    ""{,}""
// `tick` ""quote"" 'q'
  //	t
	  :
    // packet A { u8 x, }

	//
stringy
    ,

},  @lengthOf(Packet ) leftPad`tab	here`	,
    }
")).
Eval vm_compute in ("<<<M1158>>>" ++ check (runes_of_ascii "// top
MetaData // c0a
  // c0b
msg_type // c1
{ int32
    // c3
As // c4a
  // c4b
`crlf
line` // c5a
  // c5b
,
    // c6
MetaDataX // c7a
  // c7b
x
    // c8
`a\` // c9a
  // c9b
, // c10a
  // c10b
int8 // c11
_x // c12a
  // c12b
, // c13a
  // c13b
char[]
    // c14
As
    // c15
`u8 x,` // c16a
  // c16b
,
    // c17
zchar[ // c18
3 // c19
] // c20
uint8x // c21a
  // c21b
, // c22a
  // c22b
As // c23a
  // c23b
Foo
    // c24
, // c25a
  // c25b
} // c26
root // c27a
  // c27b
packet // c28a
  // c28b
repeatCount // c29a
  // c29b
{ // c30
} // c31
")).
Eval vm_compute in ("<<<M1605>>>" ++ check (runes_of_ascii "root packet x {
}

options {
    msg_type = false;
    Z9_ = 0;
    // c
}

MetaData metadata {
}

packet _x {
    @tag(65535)
    match BodyLength as metadata {
        10 : trueish,
        [""{,}""] : u,
    },
    @calculatedFrom(""CRC32"")
    @rightPad('0')
    lengthOf string_,// 50% %s
    @lengthOf(matchKey)
    Packet {
        lengthOf @lengthOf(uint8x) ``,
        i8i8 {
            repeat msg_type lengthOf,
            // c
            matchKey,
        },
        o @lengthOf(lengthOf),
    },
}
//	t")).
Eval vm_compute in ("<<<M1476>>>" ++ check (runes_of_ascii "// top
options {
    LittleEndian = true;
}// c6

packet Sub {
    // c9a
    // c9b
    u8 a,
    // c12
    @calculatedFrom(""CRC16"")
    // c15a
    // c15b
    u64 SubSum,// c18a
    // c18b
}

// c19
root packet Frame {
    // c23
    u16 MsgType,// c26
    u16 BodyLen @lengthOf(Body),// c32a
    // c32b
    Sub Body,// c35
    string note,
    // c38
    @calculatedFrom(""CRC16"")
    // c41a
    // c41b
    u64 Checksum,
    // c44
    u8 tail,// c47
}// c48a
// c48b")).
Eval vm_compute in ("<<<M1726>>>" ++ check (runes_of_ascii "
packet  pack
    { @rightPad(
'\x00'
	)

options1, repeat
f32	Packet 
`u8 x,` 
,repeat 
Logon{
repeat a1{
char[
0
] tag	, u64 leftPad

,
}// 50% %s
, repeatCount,
	repeat	// packet A { u8 x, }
	  BodyLength 	 /// triple
	,	}
    ,  repeat char[] packetx	,  char[ 00
]
tag

@lengthOf(  o ), } packet
matchKey

    { repeat	As
u8x `it's`
    ,}options

    { } 
MetaData	string_
    {
msg_type
	Z9_ `line1
line2` ,
    }//x
")).
Eval vm_compute in ("<<<M1365>>>" ++ check (runes_of_ascii "
options	{
    LittleEndian	=

true;

StringPrefixLenType
	=
	u32 ; ArrayPrefixLenType =
	u64

    ; } packet Logon  { string  OrderId
,uint32 lastPx,
    repeat	char[6
    ]Side2,
    i64

Tail
	, repeat  i8 f1

    ,

    }

    packet
Party

    {

}
	packet
    Quote{
repeat 
char[
6	]clOrdID ,  repeat Logon 
,

    }
    root
packet

Order 
{zchar[ 5
    ] Acct,repeat f64 price , }

")).
Eval vm_compute in ("<<<M1911>>>" ++ check (runes_of_ascii "MetaData chars {
    char[] f32a `" ++ [28040; 24687; 31867; 22411]%N ++ runes_of_ascii "`,
    zchar[255] calculatedFrom,// @lengthOf(
    a1 metadata,
    // a // b
    u i64_ `
        `,
    A asx `100% of %d`,
}

// `tick` ""quote"" 'q'
MetaData int {
    char[] As `// not a comment`,
}

MetaData Header {
    int16 charz,
    uint64 u8x,
    string zchar,
    float64 options1 `// not a comment`,
    uint64 stringy,
}")).
Eval vm_compute in ("<<<M1569>>>" ++ check (runes_of_ascii "options {
    rootA = i16;
}

MetaData len {
    float64 pack `crlf
    line`,
    a1 roots,
    int16 Header,
    zchar[65535] charz,
    Packet body `say ""hi""`,// `tick` ""quote"" 'q'
    repeatCount x `line1
    line2`,
    // packet A { u8 x, }
}

options {
    a1 = ""`tick`"";
    float = """ ++ [233]%N ++ runes_of_ascii "t" ++ [233]%N ++ runes_of_ascii """;
    Logon = zchar[00];
    Header = '0';
}")).
Eval vm_compute in ("<<<M1954>>>" ++ check (runes_of_ascii "// top
MetaData msg_type {
    int32 As `crlf
        line`,
    // c6
    MetaDataX x `a\`,// c10a
    // c10b
    int8 _x,// c13a
    // c13b
    char[] As `u8 x,`,
    // c17
    zchar[3] uint8x,// c22a
    // c22b
    As Foo,// c25a
    // c25b
}// c26

root packet repeatCount {
    // c30
}// c31")).
Eval vm_compute in ("<<<M272>>>" ++ check (runes_of_ascii "// c
packet BodyLength
{ @tag(
    42) Header tag
    `u8 x,`
, } options { } packet string_
{	float32
rootA , uint8 MetaDataX `crlf
line`,
charz
    // " ++ [128512]%N ++ runes_of_ascii " emoji
    ,  @tag(  4294967296) @rightPad( '\x00' )	@tag(7	)
    // c
    u32 u128 //x
@calculatedFrom(""\" ++ [233]%N ++ runes_of_ascii """ ) ,
}")).
Eval vm_compute in ("<<<M523>>>" ++ check (runes_of_ascii "packet
    asx { @calculatedFrom(
""""  ) @tag( 255 )repeat
// packet A { u8 x, }
// trailing space 
int16 u8x
,
@tag(
    //
    007 )
    @tag( 0
    /// triple
    ) @tag( 1) u
    @lengthOf( T ),
// `tick` ""quote"" 'q'
//x
@lengthOf( // " ++ [128512]%N ++ runes_of_ascii " emoji")).
Eval vm_compute in ("<<<M254>>>" ++ check (runes_of_ascii "options
    // 50% %s
    { //
u128=zchar[10	]	;	body = '0' Z9_ =float64 ; i8i8 = ""a\\""
    ; } packet T  {
char[ 42] asx
    @calculatedFrom(/// triple
""CRC32""
),}
// trailing space 
// " ++ [128512]%N ++ runes_of_ascii " emoji
root packet x { Pad u128 `100% of %d`
, } 	 ")).
Eval vm_compute in ("<<<M389>>>" ++ check (runes_of_ascii "asx
    packet { @calculatedFrom(
""""  ) @tag( 255 )repeat
// packet A { u8 x, }
// trailing space 
int16 u8x
,
@tag(
    //
    007 )
    @tag( 0
    /// triple
    ) @tag( 1) u
    @lengthOf( T ),
// `tick` ""quote"" 'q'
//x
} // " ++ [128512]%N ++ runes_of_ascii " emoji")).
Eval vm_compute in ("<<<M518>>>" ++ check (runes_of_ascii "packet
    asx { @calculatedFrom(
""""  ) @tag( 255 )repeat
// packet A { u8 x, }
// trailing space 
int16 u8x
,
@tag(
    //
    007 )
    @tag( 0
    /// triple
    ) @tag( 1) u
    @lengthOf( T )}
// `tick` ""quote"" 'q'
//x
, // " ++ [128512]%N ++ runes_of_ascii " emoji")).
Eval vm_compute in ("<<<M466>>>" ++ check (runes_of_ascii "packet
    asx { @calculatedFrom(
""""  ) @tag( 255 )repeat
// packet A { u8 x, }
// trailing space 
int16 u8x
,
@tag(
    //
    007 )
     0
    /// triple
    ) @tag( 1) u
    @lengthOf( T ),
// `tick` ""quote"" 'q'
//x
} // " ++ [128512]%N ++ runes_of_ascii " emoji")).
Eval vm_compute in ("<<<M1713>>>" ++ check (runes_of_ascii "

  packet pack {  } options  { 
_x

    =
""1"" ;

    tag
	=007

    matchKey 
=
	""it's""
	;
charz =
	uint16

; 
}// @lengthOf(
options  { msg_type = 
007 ; stringy

    =
""`tick`""

    stringy = 007 ;
} ")).
Eval vm_compute in ("<<<M4>>>" ++ check (runes_of_ascii "MetaData
    // " ++ [128512]%N ++ runes_of_ascii " emoji
    u { float64 A , calculatedFrom zchar, char[1]
repeatCount, int32
x_y_z , u16 Packet`say ""hi""`
    // " ++ [128512]%N ++ runes_of_ascii " emoji
    ,
    // a // b
    }options
{ repeatCount = ' ' }
")).
Eval vm_compute in ("<<<M87>>>" ++ check (runes_of_ascii "
options { lengthOf = """ ++ [233]%N ++ runes_of_ascii "t" ++ [233]%N ++ runes_of_ascii """options1
=
    u32
    // packet A { u8 x, }
    ; Pad=// @lengthOf(
'0'
BodyLength
    = 00
}
    packet
x
{ @rightPad( '0' ) string
    Header ,}
")).
Eval vm_compute in ("<<<M485>>>" ++ check (runes_of_ascii "packet
    asx { @calculatedFrom(
""""  ) @tag( 255 )repeat
// packet A { u8 x, }
// trailing space 
int16 u8x
,
@tag(
    //
    007 )
    @tag( 0
    /// triple
    )")).
Eval vm_compute in ("<<<M649>>>" ++ check (runes_of_ascii "MetaData u
    { } MetaData o
{ float uint8x
`100% of %d` ,repeatCount u8x, string_ leftPad
, i32
    Foo , options x `two words` , calculatedFrom
stringy `a\` ,
}
")).
Eval vm_compute in ("<<<M573>>>" ++ check (runes_of_ascii "MetaData u
    { } MetaData {
o float uint8x
`100% of %d` ,repeatCount u8x, string_ leftPad
, i32
    Foo , int64 x `two words` , calculatedFrom
stringy `a\` ,
}
")).
Eval vm_compute in ("<<<M571>>>" ++ check (runes_of_ascii "MetaData u
    { } MetaData 
{ float uint8x
`100% of %d` ,repeatCount u8x, string_ leftPad
, i32
    Foo , int64 x `two words` , calculatedFrom
stringy `a\` ,
}
")).
Eval vm_compute in ("<<<M1724>>>" ++ check (runes_of_ascii "options

{  }
	options	{ MetaDataX 
  // c
=

    char

    ;

    } MetaData 
Pad

{  i8 metadata 
,
    string

    stringy  ,

int8 
As `{ , }`	, }
")).
Eval vm_compute in ("<<<M261>>>" ++ check (runes_of_ascii "packet u8x { char[]
f32a @lengthOf(Foo ) `100% of %d` , repeat
i8i8 {  A f32a , x `say ""hi""`,
    // @lengthOf(
    repeat body rootA `
`
    , }
, }

")).
Eval vm_compute in ("<<<M317>>>" ++ check (runes_of_ascii "root	packet // " ++ [27880; 37322]%N ++ runes_of_ascii "
matchKey {	Z9_ @calculatedFrom("""") ,  } MetaData pack
    {
    u32 leftPad, x zchar , uint32  i8i8	, u16
    zchar ,
    }
")).
Eval vm_compute in ("<<<M1663>>>" ++ check (runes_of_ascii "

  packet A
	{match k
as
	n

{ [1,""bb""  ,
	007
    , ""d"",

    5,

    ""f""
    ,  7,
    ""h""
, 9 ,  ""j"" 
]

:
	B	,2 :
C }
,

} ")).
Eval vm_compute in ("<<<M1597>>>" ++ check (runes_of_ascii "packet A {
    Inner {
        u8 x `tab
        	x`,
        Deep {
            u8 y `tab
            	x`,
        },
    },
}")).
Eval vm_compute in ("<<<M1774>>>" ++ check (runes_of_ascii "packet asx {
    f32 u @calculatedFrom(""packet""),
}

MetaData tag {
    zchar[007] pack,
    zchar[00] len `
    `,
}")).
Eval vm_compute in ("<<<M1216>>>" ++ check (runes_of_ascii "options { } options { MetaDataX =
// c
char ; } MetaData Pad { i8 metadata , string stringy , int8 As `{ , }` , }")).
Eval vm_compute in ("<<<M1248>>>" ++ check (runes_of_ascii "options { } options { MetaDataX = char ; } MetaData Pad { i8 metadata , string stringy , int8 As `{ , }` ,
// c
}")).
Eval vm_compute in ("<<<M900>>>" ++ check (runes_of_ascii "packet A {
  match k as n {
    [""a"", ""bb"", 007, ""d"", ""e"", 66, ""g"", ""h"", 9, ""j"", ""k""] : B
    2 : C
  },
}")).
Eval vm_compute in ("<<<M866>>>" ++ check (runes_of_ascii "packet A {
  match k as n {
    [""a"", ""bb"", ""c c"", ""d"", ""e"", ""f"", ""g"", ""h"", ""i""] : B
    2 : C
  },
}")).
Eval vm_compute in ("<<<M898>>>" ++ check (runes_of_ascii "packet A {
  match k as n {
    [1, 22, ""c c"", 4, 5, ""f"", 7, 8, ""i"", 10, 11] : B
    2 : C
  },
}")).
Eval vm_compute in ("<<<M889>>>" ++ check (runes_of_ascii "packet A {
  match k as n {
    [1, 22, 007, 4, 5, 66, 7, 8, 9, 10, 11] : B,
    2 : C
  },
}")).
Eval vm_compute in ("<<<M341>>>" ++ check (runes_of_ascii "MetaData rootA {
uint8 msg_type ,zchar[
    //
    42 ]
    As, T int
    , } // a // b")).
Eval vm_compute in ("<<<M834>>>" ++ check (runes_of_ascii "packet A {
  match k as n {
    [""a"", ""bb"", 007, ""d"", ""e"", 66] : B,
    2 : C
  },
}")).
Eval vm_compute in ("<<<M1481>>>" ++ check (runes_of_ascii "// top
MetaData
    // c0
    tag 

    // c1
{ 
	    // c2
    	}
    // c3
")).
Eval vm_compute in ("<<<M901>>>" ++ check (runes_of_ascii "packet A { Inner { match k as n { [1,22,007,4,5,66,7,8,9,10,11] : B, }, }, }")).
Eval vm_compute in ("<<<M805>>>" ++ check (runes_of_ascii "packet A {
  match k as n {
    [""a"", 22, ""c c"", 4] : B
    2 : C
  },
}")).
Eval vm_compute in ("<<<M29>>>" ++ check (runes_of_ascii "
packet options1{ @tag(
007 )repeat char[
0123456789] Logon`doc` ,
}")).
Eval vm_compute in ("<<<M244>>>" ++ check (runes_of_ascii "root // " ++ [27880; 37322]%N ++ runes_of_ascii "
packet lengthOf
{
}
    // " ++ [128512]%N ++ runes_of_ascii " emoji
    options
{}
")).
Eval vm_compute in ("<<<M1298>>>" ++ check (runes_of_ascii "root packet P {
    repeat string ss,
    repeat u16 ns,
}
")).
Eval vm_compute in ("<<<M139>>>" ++ check (runes_of_ascii "MetaData // " ++ [128512]%N ++ runes_of_ascii " emoji
Logon {
char[42 ]Packet , //x
}
")).
Eval vm_compute in ("<<<M943>>>" ++ check (runes_of_ascii "MetaData M {
    u8 x `a

b`,
    T t `a

b`,
}")).
Eval vm_compute in ("<<<M963>>>" ++ check (runes_of_ascii "packet A {
    u8 x `100% of %s %d %v`,
}")).
Eval vm_compute in ("<<<M1115>>>" ++ check (runes_of_ascii "packet A { u8 x,// a


// b

 u8 y, }")).
Eval vm_compute in ("<<<M332>>>" ++ check (runes_of_ascii "  MetaData
u8x  {float32
uint8x ,}")).
Eval vm_compute in ("<<<M956>>>" ++ check (runes_of_ascii "root packet A {
    u8 x `
x`,
}")).
Eval vm_compute in ("<<<M1032>>>" ++ check (runes_of_ascii "packet A {
 u8 x `d" ++ [8232]%N ++ runes_of_ascii "`, // c" ++ [8232]%N ++ runes_of_ascii "
}")).
Eval vm_compute in ("<<<M951>>>" ++ check (runes_of_ascii "packet A {
    u8 x `
x`,
}")).
Eval vm_compute in ("<<<M1143>>>" ++ check (runes_of_ascii "root // c
packet a1 { }")).
Eval vm_compute in ("<<<M52>>>" ++ check (runes_of_ascii "packet
int {
}
//	t
")).
Eval vm_compute in ("<<<M1045>>>" ++ check (runes_of_ascii "packet A {
}
// c" ++ [8287]%N)).
Eval vm_compute in ("<<<M1038>>>" ++ check (runes_of_ascii "packet A {
}// c" ++ [8239]%N)).
Eval vm_compute in ("<<<M735>>>" ++ check ([0]%N ++ runes_of_ascii "k" ++ [23; 65533; 21; 31; 65533; 65533; 15473; 65533; 65533; 127; 822; 65533]%N)).
Eval vm_compute in ("<<<M1014>>>" ++ check (runes_of_ascii "// c" ++ [5760]%N)).
