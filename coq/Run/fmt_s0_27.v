From FP Require Import Lexer Parser ShowPT Digest Formatter.
From Coq Require Import String List NArith.
Import ListNotations.
Open Scope string_scope.
Set Printing Width 100000000.
Set Printing Depth 100000000.
Definition show_fres (r : fres) : string :=
  match r with
  | FOk s => "OK:" ++ sh_escaped s ""
  | FErr s => "ERR:" ++ sh_escaped s ""
  | FPanic p => "PANIC:" ++ p
  end.
Definition check (rs : list rune) : string := digest (show_fres (format_res rs)).
Definition full (rs : list rune) : string := show_fres (format_res rs).
Eval vm_compute in ("<<<M271>>>" ++ check (runes_of_ascii "// packet A { u8 x, }
packet string_ {
@tag( 4294967296)
@calculatedFrom( """ ++ [128512]%N ++ runes_of_ascii """ )@calculatedFrom( ""1"" )  leftPad @lengthOf( //	t
int )  ``
// `tick` ""quote"" 'q'
//
, repeat Packet{ zchar[
0
    // packet A { u8 x, }
    ]options1 `line1
line2` , },
    @calculatedFrom( """"	) float32
    u8x
    ,
float , i64_
{ packetx {  i16	falsey, f32 repeatCount
    `{ , }`,} ,
    repeat char[
0  ] i8i8, string	o @lengthOf( options1 ) , } , i64_
@calculatedFrom(""a\""b"" )
/// triple
//x
`a\`  , @rightPad ( )@lengthOf( packetx
    )
match matchKey as stringy{ ""a	b"":
body,}
    ,
    // " ++ [27880; 37322]%N ++ runes_of_ascii "
    @lengthOf(
u128
) @calculatedFrom(
    ""`tick`"" ) @rightPad
    () // @lengthOf(
repeat falsey
string_ `" ++ [28040; 24687; 31867; 22411]%N ++ runes_of_ascii "`
    ,string As`it's`
    ,
@calculatedFrom( """ ++ [28040; 24687]%N ++ runes_of_ascii """ ) repeat rootA { float64
body	,
} , } options {zchar
=
    // " ++ [128512]%N ++ runes_of_ascii " emoji
    true  ;  i8i8= 3; } packet	leftPad{	@calculatedFrom(
    // c
    """" ) //x
@leftPad( ' ' )
@calculatedFrom(
""abc"" ) repeat MetaDataX{  char[] Pad , body
@lengthOf( Foo )
/// triple
/// triple
,uint64 i8i8 ,char[ 42 ]options1
@calculatedFrom( ""x y""
),}
,
} packet stringy
    /// triple
    {	@calculatedFrom( """ ++ [28040; 24687]%N ++ runes_of_ascii """ )BodyLength	len
    ,@lengthOf(
u
    ) i8i8
metadata
, @calculatedFrom(
""a\\""
) //x
packetx
    ,
    f64 i8i8	@lengthOf( Header
    )
    , metadata
`
`,@lengthOf( int ) repeat falsey	,
repeat char[]
trueish
,
    }
")).
Eval vm_compute in ("<<<M387>>>" ++ check (runes_of_ascii "options {
	StringPrefixLenType = u16;
	ArrayPrefixLenType = u16;
}

packet SampleBinary {
	uint16 MsgType `" ++ [28040; 24687; 31867; 22411]%N ++ runes_of_ascii "`,
	u16 BodyLenght @lengthOf(Body) `" ++ [28040; 24687; 20307; 38271; 24230]%N ++ runes_of_ascii "`,
	match MsgType as Body {
		1 : Logon,
		2 : Logout,
		3 : Heartbeat,
		4 : RiskControlRequest,
		5 : RiskControlResponse,
	},
	@calculatedFrom(""CRC32"")
	u32 Ckecksum `" ++ [26657; 39564; 21644]%N ++ runes_of_ascii "`,
}

packet Logon {
	@leftPad('0')
	char[10] UserName `" ++ [29992; 25143; 21517]%N ++ runes_of_ascii "`,
	string Password `" ++ [23494; 30721]%N ++ runes_of_ascii "`,
	uint64 ClientId `" ++ [23458; 25143; 31471]%N ++ runes_of_ascii "ID`,
	u16 HeartbeatInterval `" ++ [24515; 36339; 38388; 38548]%N ++ runes_of_ascii "`,
}

packet Logout {
	@rightPad('0')
	char[10] UserName `" ++ [29992; 25143; 21517]%N ++ runes_of_ascii "`,
	uint64 ClientId `" ++ [23458; 25143; 31471]%N ++ runes_of_ascii "ID`,
}

packet Heartbeat {
}

packet RiskControlRequest {
	string UniqueOrderId `" ++ [21807; 19968; 35746; 21333; 21495]%N ++ runes_of_ascii "`,
	char[16] ClOrdID `" ++ [23458; 25143; 35746; 21333; 21495]%N ++ runes_of_ascii "`,
	char[3] MarketID `" ++ [24066; 22330]%N ++ runes_of_ascii "id`,
	char[12] SecurityID `" ++ [35777; 21048; 20195; 30721]%N ++ runes_of_ascii "`,
	char Side `" ++ [20080; 21334; 26041; 21521]%N ++ runes_of_ascii "`,
	char OrderType `" ++ [35746; 21333; 31867; 22411]%N ++ runes_of_ascii "`,
	u64 Price `" ++ [20215; 26684]%N ++ runes_of_ascii "`,
	u32 Qty `" ++ [25968; 37327]%N ++ runes_of_ascii "`,
	repeat string ExtraInfo `" ++ [38468; 21152; 20449; 24687]%N ++ runes_of_ascii "`,
	repeat SubOrder {
		char[16] ClOrdID `" ++ [23376; 35746; 21333; 21495]%N ++ runes_of_ascii "`,
		u64 Price `" ++ [23376; 35746; 21333; 20215; 26684]%N ++ runes_of_ascii "`,
		u32 Qty `" ++ [23376; 35746; 21333; 25968; 37327]%N ++ runes_of_ascii "`,
	},
}

packet RiskControlResponse {
	string UniqueOrderId `" ++ [21807; 19968; 35746; 21333; 21495]%N ++ runes_of_ascii "`,
	i32 Status `" ++ [29366; 24577]%N ++ runes_of_ascii "`,
	string Msg `" ++ [32467; 26524; 20449; 24687]%N ++ runes_of_ascii "`,
	repeat Detail,
}

packet Detail {
	string RuleName `" ++ [35268; 21017; 21517; 31216]%N ++ runes_of_ascii "`,
	u16 Code `" ++ [21407; 22240; 20195; 30721]%N ++ runes_of_ascii "`,
}")).
Eval vm_compute in ("<<<M13>>>" ++ check (runes_of_ascii "root
    packet	roots{ // `tick` ""quote"" 'q'
} options	{	asx =
    ""\n"" ; x_y_z =
3 ;rootA = ""CRC32""
    ;float=char  T = false
; }
packet falsey {
body { match u8x as /// triple
string_{ [
42,7 ,65535
    ,
    3 ,
    42 ,7 , ""1""
    , ""packet"" ]:
    // `tick` ""quote"" 'q'
    i64_ , [ ""abc""]
    :  Foo ,	""a\\""
    :
roots ,
    4294967296 :	stringy	}
    , //x
asx
`{ , }` // " ++ [128512]%N ++ runes_of_ascii " emoji
, i8
charz@lengthOf( // trailing space 
x_y_z)// trailing space 
`a\` ,}
    // @lengthOf(
    , @tag( 65535 ) i64_ @lengthOf( tag )`u8 x,`
// a // b
//	t
,Z9_@lengthOf( int )
, @calculatedFrom( ""a\""b""
)uint16  stringy @lengthOf( trueish ) , Logon	{string  Logon `say ""hi""` , packetx
i64_ , match msg_type as	float
{ ""\n"" : i64_,	[
""" ++ [128512]%N ++ runes_of_ascii """
    ]
:
metadata , // `tick` ""quote"" 'q'
[
// trailing space 
// " ++ [128512]%N ++ runes_of_ascii " emoji
10, ""1""  ]
:zchar ,
}
    , //x
}
    //x
    , Packet
    @calculatedFrom(""CRC32"" ), }
")).
Eval vm_compute in ("<<<M1891>>>" ++ check (runes_of_ascii "packet
	falsey 
{ 	 // `tick` ""quote"" 'q'
repeat
charz 
    /// triple
	float	// a // b
    `tab	here`  ,

    char[]
    stringy , Logon	f32a ,

    char[]
string_	/// triple
	  ,int16  _x
    ``,  match 	 /// triple
crc as	stringy {""abc""
: Pad	[ ""\n"" ,
    10
, 4294967296

,  0123456789 ,""abc"" ,
    """ ++ [28040; 24687]%N ++ runes_of_ascii """
] :i8i8
	, 10	: 
//x
  	Header
    ,10 :// c
	calculatedFrom
,0123456789 :

    charz 10 
:	repeatCount}

, 
leftPad
@lengthOf(
	u8x

    )
, 
@lengthOf( a1
)
	repeat

    x
    body

,
    }	MetaData	string_ {float64 f32a

    ,
zchar[
255

    ] T,
	u32 trueish

    ,
    BodyLength
    roots `two words`,

}
	// " ++ [128512]%N ++ runes_of_ascii " emoji
    //	t
  packet
    stringy
{
    zchar[ 255
] 
Foo
,  }
MetaData

leftPad
{ 
}	//
  options

{

    x  //x
    = true	;
    zchar  = """"

    } //
")).
Eval vm_compute in ("<<<M1809>>>" ++ check (runes_of_ascii "root packet i64_ {
    trueish,
    @calculatedFrom(""abc"")
    @tag(7)
    // c
    int16 asx,
    @calculatedFrom(""a\\"")
    float32 crc @lengthOf(Foo),
    @tag(42)
    zchar[7] asx @lengthOf(calculatedFrom) `// not a comment`,//
    repeat zchar[1] As,
    chars `two words`,
    @calculatedFrom(""1"")
    @tag(0123456789)
    @leftPad('0')
    repeat char[] BodyLength `tab	here`,
}

MetaData u128 {
    u16 i64_,
    float32 asx `two words`,//
    i64 leftPad,
    zchar[00] _x,//
}

MetaData chars {
    Foo crc `say ""hi""`,
    uint8 u `two words`,// " ++ [128512]%N ++ runes_of_ascii " emoji
    f32 pack `crlf
    line`,
    string _x `" ++ [233]%N ++ runes_of_ascii "`,
}

packet x_y_z {
}

options {
    calculatedFrom = ""CRC32""
    crc = uint16;
    u = false
    Foo = char
}// " ++ [128512]%N ++ runes_of_ascii " emoji")).
Eval vm_compute in ("<<<M216>>>" ++ check (runes_of_ascii "// " ++ [27880; 37322]%N ++ runes_of_ascii "
packet chars {match
charz
as
    // trailing space 
    A // trailing space 
{0123456789: rootA ,
    42
:
    x , ""1"" :Logon , 7 :u , ""\n"" : packetx , }, char[]MetaDataX
@calculatedFrom(""""
) `" ++ [233]%N ++ runes_of_ascii "`
    // trailing space 
    ,	@leftPad( ' ' )  char[] Foo,
    crc , f64 string_ , // " ++ [128512]%N ++ runes_of_ascii " emoji
char[]
packetx,i64 u8x@lengthOf(  stringy ) `// not a comment`, repeat zchar {
repeat
A _x , lengthOf	@lengthOf( u8x
) ,	match A as matchKey { 3 :Z9_ , ""// no comment"": As 00 //x
:
i64_ ,
// a // b
// " ++ [128512]%N ++ runes_of_ascii " emoji
""a\\""  :i64_ , [ ""`tick`""/// triple
] : T ,
    }
,
// a // b
// packet A { u8 x, }
uint32 T
`" ++ [28040; 24687; 31867; 22411]%N ++ runes_of_ascii "`
    , }
    , uint64
    /// triple
    charz
, }")).
Eval vm_compute in ("<<<M1425>>>" ++ check (runes_of_ascii "root packet asx {
    tag body `u8 x,`,
}

packet string_ {
    @lengthOf(len)
    repeat zchar[42] u8x,
    zchar[0] asx,
}

packet int {
    repeat crc {
        zchar float,
        match i8i8 as rootA {
            255 : lengthOf,
            1 : lengthOf,
            3 : roots,
            3 : uint8x,
            0 : As,
            ""`tick`"" : repeatCount,
        },
        repeat char[] falsey,
        u64 lengthOf,
    },
    @lengthOf(crc)
    lengthOf i64_,
    leftPad `crlf
    line`,
}

root packet zchar {
    f32 _x @calculatedFrom(""a\\""),
}

MetaData chars {
    //
}")).
Eval vm_compute in ("<<<M65>>>" ++ check (runes_of_ascii "packet leftPad {
match A as x {""`tick`""
    : MetaDataX //
, [""it's""
,""\n"" ,
""" ++ [28040; 24687]%N ++ runes_of_ascii """ ] :
string_ , 0123456789 : o ,
[
""{,}"", ""x y"" ]
:uint8x	} , char[3	] msg_type// " ++ [128512]%N ++ runes_of_ascii " emoji
@lengthOf( u
//	t
// " ++ [27880; 37322]%N ++ runes_of_ascii "
)`two words` ,
    // c
    repeat
    int
// packet A { u8 x, }
// @lengthOf(
Foo ,
@rightPad
(
    )
@rightPad
( ' ' )
    Foo charz`{ , }`, }
MetaData A {
zchar[
0 ]A `{ , }`
    , float32 a1
    //
    ,
    char[]  pack , /// triple
string body `" ++ [233]%N ++ runes_of_ascii "` , string chars `doc` , int _x`two words`
,} options { Z9_ =
    uint16 ; }")).
Eval vm_compute in ("<<<M1466>>>" ++ check (runes_of_ascii "
root
packet
body {
    @lengthOf( int  
      // @lengthOf(
		//x
    )string tag
	,

Pad BodyLength 
, Z9_ { 
    /// triple
	u `` 
,

zchar[7  ] 
u 
, 
}

, uint64 calculatedFrom

, } 
packet 
msg_type
{ match

    f32a// " ++ [128512]%N ++ runes_of_ascii " emoji
      as

    pack	{

    ""// no comment"" :
trueish ,

    }
// trailing space 
    ,  @calculatedFrom(// @lengthOf(

  ""abc""	) @leftPad (
' '
	) @calculatedFrom(
	"""" //x
		)// c
	matchKey
    T,// `tick` ""quote"" 'q'
}
")).
Eval vm_compute in ("<<<M1672>>>" ++ check (runes_of_ascii "// top
  MetaData
        // c0

leftPad 
  // c1
    {
// c2

chars  
  // c3
MetaDataX 
// c4

,  
  // c5
  } 
	    // c6

	packet
    // c7

  repeatCount 
	    // c8
	{

// c9

char[ 
    // c10
	255 

// c11

] 
    // c12
uint8x
    // c13

	`" ++ [233]%N ++ runes_of_ascii "`
    // c14

	,
// c15
    }
    // c16
    MetaData 

    // c17
  pack
	// c18
      {
	    // c19
    	As
    // c20
	Foo 
      // c21
    ,

// c22
}  
      // c23")).
Eval vm_compute in ("<<<M1335>>>" ++ check (runes_of_ascii "options {
    LittleEndian = false;
    StringPrefixLenType = u8;
    ArrayPrefixLenType = u64;
    FixedStringPadFromLeft = false;
    FixedStringPadChar = ' ';
}
packet Reject {
    repeat char[4] seqNo,
    string Px,
}
root packet Trade {
    @rightPad('0') char[2] msgKind,
    repeat f64 price,
    InAcct79 {
        repeat Reject,
        zchar[7] OrderId,
    },
    Reject,
}
")).
Eval vm_compute in ("<<<M1381>>>" ++ check (runes_of_ascii "options  { LittleEndian

= 
true
	;

    }
    packet

Logon	{
u8

x  , 
}packet  Logout
    {
    u16

    reason	,

    }root

    packet

Frame
{ u8 
Kind	, u8 Kind2

    ,match Kind
as Body {

    1 :
    Logon ,[
2

,
3

    ,
	4]
	: 
Logout	,100
    :

Logon
    ,

    }  ,  match  Kind2
as

    Trailer{ 
0: Logout  ,
}	,	}
")).
Eval vm_compute in ("<<<M109>>>" ++ check (runes_of_ascii "MetaData Header{ } packet crc {	match zchar as leftPad // `tick` ""quote"" 'q'
{ 7 : As 0 : Packet , [
00 // " ++ [128512]%N ++ runes_of_ascii " emoji
]
: Pad ,
//x
//x
""// no comment""
    :
    calculatedFrom
,	3
    :
string_ , } ,falsey  packetx `crlf
line` , // " ++ [27880; 37322]%N ++ runes_of_ascii "
@tag( 42 )repeat
u64 packetx,
@calculatedFrom(  ""1"" ) repeat u16 calculatedFrom, }
")).
Eval vm_compute in ("<<<M232>>>" ++ check (runes_of_ascii "options {  A = i16
;
    }
    /// triple
    root
packet
    rootA{
    @tag( 7)int16 pack,Logon @calculatedFrom( ""a\""b"" ) `{ , }`
    , @rightPad ( '\x00' )
//
//
char[
7
    // `tick` ""quote"" 'q'
    ]options1
`tab	here`,@calculatedFrom(
""" ++ [233]%N ++ runes_of_ascii "t" ++ [233]%N ++ runes_of_ascii """ )int @lengthOf(
Packet
) `crlf
line`, }
")).
Eval vm_compute in ("<<<M80>>>" ++ check (runes_of_ascii "packet
    len { // trailing space 
repeat zchar f32a `// not a comment` , @tag( 255 )repeat  Pad { x T
, } , @calculatedFrom(
""{,}"") repeat
    // a // b
    leftPad { u64 u8x `tab	here` ,o Packet
    ,char[] chars , } , @tag( 3 )float64
    i8i8 , }
")).
Eval vm_compute in ("<<<M351>>>" ++ check (runes_of_ascii "MetaData leftPad// packet A { u8 x, }
{ string u128 `say ""hi""` //
, // c
A packetx
    //	t
    , char[
//
// packet A { u8 x, }
42
]
leftPad
    `tab	here` // trailing space 
,i16 crc ,
string uint8x // a // b
,
}")).
Eval vm_compute in ("<<<M1916>>>" ++ check (runes_of_ascii "packet _x {
    repeat char[] matchKey,
    @leftPad()
    x_y_z T,
    Pad {
        zchar[1] rootA `tab	here`,
    },
    Foo @calculatedFrom(""""),
}

packet MetaDataX {
    float64 body,
}")).
Eval vm_compute in ("<<<M1512>>>" ++ check (runes_of_ascii "packet A {
    match k as n {
        [
            ""a"", ""bb"", 007, ""d"", ""e"",
            66, ""g"", ""h"", 9, ""j"",
            ""k"", 12
        ] : B,
        2 : C,
    },
}")).
Eval vm_compute in ("<<<M421>>>" ++ check (runes_of_ascii "packet uint8x
{ match pack
    as msg_type msg_type	{
    0123456789 :	float
}
,
} packet //	t
a1
    { } options {packetx
    = '\x00'	; u128= ""a	b""  ; }
")).
Eval vm_compute in ("<<<M518>>>" ++ check (runes_of_ascii "packet uint8x
{ match pack
    as msg_type	{
    0123456789 :	float
}
,
} packet //	t
a1
    { } options {packetx
    = '\x00'	; u128 true ""a	b""  ; }
")).
Eval vm_compute in ("<<<M546>>>" ++ check (runes_of_ascii "packet uint8x
{ match pack
    as msg_type	{
    0123456789 :	float
}
,
} packet //	t
a1
    { } options {packetx
    = '\x00'	; @ u128= ""a	b""  ; }
")).
Eval vm_compute in ("<<<M448>>>" ++ check (runes_of_ascii "packet uint8x
{ match pack
    as msg_type	{
    0123456789 :	float
=
,
} packet //	t
a1
    { } options {packetx
    = '\x00'	; u128= ""a	b""  ; }
")).
Eval vm_compute in ("<<<M495>>>" ++ check (runes_of_ascii "packet uint8x
{ match pack
    as msg_type	{
    0123456789 :	float
}
,
} packet //	t
a1
    { } options {packetx
     '\x00'	; u128= ""a	b""  ; }
")).
Eval vm_compute in ("<<<M668>>>" ++ check (runes_of_ascii "// @len'1'gthOf(
packet i8i8 { u128 o , }
options { MetaDataX = true;
    BodyLength =""packet"" x_y_z= 007
crc //x
= ""abc"" ;
    msg_type =
i16 }")).
Eval vm_compute in ("<<<M1917>>>" ++ check (runes_of_ascii "packet A {
    match k as n {
        [
            ""a"", ""bb"", 007, ""d"", ""e"",
            66, ""g"", ""h"", 9
        ] : B,
        2 : C,
    },
}")).
Eval vm_compute in ("<<<M688>>>" ++ check (runes_of_ascii "// @lengthOf(
packet i8i8 { u128 o , }
options { MetaDataX = true;
    BodyLength =""packet"" x_y_z= 007
crc //x
= ""abc"" ;
    msg_type =
i16")).
Eval vm_compute in ("<<<M659>>>" ++ check (runes_of_ascii "// @lengthOf(
packet i8i8 { u128 o , }
options { MetaDataX = true;
    " ++ [21517; 23383]%N ++ runes_of_ascii " =""packet"" x_y_z= 007
crc //x
= ""abc"" ;
    msg_type =
i16 }")).
Eval vm_compute in ("<<<M1701>>>" ++ check (runes_of_ascii "packet A {
    u16 len @lengthOf(body) `tab
        	x`,
    u32 crc @calculatedFrom(""CRC32"") `tab
        	x`,
    string body,
}")).
Eval vm_compute in ("<<<M173>>>" ++ check (runes_of_ascii "
options
    { zchar
    = 10 ; matchKey = char[ /// triple
1
    ]
u	= ""a\""b"" ;
    x_y_z =
    42 ; } MetaData Logon{ }")).
Eval vm_compute in ("<<<M1157>>>" ++ check (runes_of_ascii "MetaData leftPad { chars MetaDataX , } packet // c
repeatCount { char[ 255 ] uint8x `" ++ [233]%N ++ runes_of_ascii "` , } MetaData pack { As Foo , }")).
Eval vm_compute in ("<<<M1654>>>" ++ check (runes_of_ascii "

  packet
A {

    match k 
as n  { [ ""a""
,22 
, ""c c""	,  4

,
    ""e""
    ,
66
,  ""g""
]:

B,
    2

:
C
} ,} ")).
Eval vm_compute in ("<<<M943>>>" ++ check (runes_of_ascii "packet A {
    u16 len @lengthOf(body) `a

b`,
    u32 crc @calculatedFrom(""CRC32"") `a

b`,
    string body,
}")).
Eval vm_compute in ("<<<M535>>>" ++ check (runes_of_ascii "packet uint8x
{ match pack
    as msg_type	{
    0123456789 :	float
}
,
} packet //	t
a1
    { } opti")).
Eval vm_compute in ("<<<M484>>>" ++ check (runes_of_ascii "packet uint8x
{ match pack
    as msg_type	{
    0123456789 :	float
}
,
} packet //	t
a1
    { }")).
Eval vm_compute in ("<<<M1436>>>" ++ check (runes_of_ascii "

  options
    {  Z9_
    =
	'\x00' }packet trueish {// " ++ [128512]%N ++ runes_of_ascii " emoji
	u16

    calculatedFrom, }
")).
Eval vm_compute in ("<<<M642>>>" ++ check (runes_of_ascii "
packet
    asx {match u128 as lengthOf
{'1'
//	t
// `tick` ""quote"" 'q'
255 : x ,
    } ,	}")).
Eval vm_compute in ("<<<M559>>>" ++ check (runes_of_ascii "
packet
    { asx match u128 as lengthOf
{
//	t
// `tick` ""quote"" 'q'
255 : x ,
    } ,	}")).
Eval vm_compute in ("<<<M1474>>>" ++ check (runes_of_ascii "options {
    charz = ""1""
    _x = """ ++ [128512]%N ++ runes_of_ascii """
    u = string;
    stringy = """ ++ [28040; 24687]%N ++ runes_of_ascii """
}
// @lengthOf(")).
Eval vm_compute in ("<<<M829>>>" ++ check (runes_of_ascii "packet A {
  match k as n {
    [""a"", ""bb"", ""c c"", ""d"", ""e"", ""f""] : B
    2 : C
  },
}")).
Eval vm_compute in ("<<<M469>>>" ++ check (runes_of_ascii "packet uint8x
{ match pack
    as msg_type	{
    0123456789 :	float
}
,
} packet")).
Eval vm_compute in ("<<<M1252>>>" ++ check (runes_of_ascii "packet Inner {
    u8 a,
}
root packet P {
    repeat Inner items,
    u8 x,
}
")).
Eval vm_compute in ("<<<M827>>>" ++ check (runes_of_ascii "packet A {
  match k as n {
    [1, 22, 007, 4, 5, 66] : B
    2 : C
  },
}")).
Eval vm_compute in ("<<<M42>>>" ++ check (runes_of_ascii "
packet roots
    { len leftPad `// not a comment`	,} packet packetx{}")).
Eval vm_compute in ("<<<M1643>>>" ++ check (runes_of_ascii "packet A {
    match k as n {
        1 : B,
        // d
    },
}")).
Eval vm_compute in ("<<<M204>>>" ++ check (runes_of_ascii "  options {// " ++ [128512]%N ++ runes_of_ascii " emoji
Packet =// `tick` ""quote"" 'q'
char[3 ]}")).
Eval vm_compute in ("<<<M1097>>>" ++ check (runes_of_ascii "packet A {
    match k as n {
        1 : B,// c
    },
}")).
Eval vm_compute in ("<<<M963>>>" ++ check (runes_of_ascii "MetaData M {
    u8 x `tab
	x`,
    T t `tab
	x`,
}")).
Eval vm_compute in ("<<<M375>>>" ++ check (runes_of_ascii "options {Foo = '0'	;	Pad = '0';	crc ='0' ; //	t
}")).
Eval vm_compute in ("<<<M1095>>>" ++ check (runes_of_ascii "packet A { char[ // a
 3 // b
 ] // c
 x, }")).
Eval vm_compute in ("<<<M971>>>" ++ check (runes_of_ascii "options {
    a = ""\
"";
    b = ""\
""
}")).
Eval vm_compute in ("<<<M132>>>" ++ check (runes_of_ascii "options
    { Foo = 0123456789
; }")).
Eval vm_compute in ("<<<M766>>>" ++ check (runes_of_ascii "Dr1UAAa-*U|u3S?xE-Vr&9^'H>gI<.E")).
Eval vm_compute in ("<<<M759>>>" ++ check (runes_of_ascii "= u64 ; u32 MetaData packet {")).
Eval vm_compute in ("<<<M1080>>>" ++ check (runes_of_ascii "options { a = 1 // a
 ; }")).
Eval vm_compute in ("<<<M1944>>>" ++ check (runes_of_ascii "// a
// b
packet A {
}")).
Eval vm_compute in ("<<<M1062>>>" ++ check (runes_of_ascii "// c x
packet A {
}")).
Eval vm_compute in ("<<<M1016>>>" ++ check (runes_of_ascii "packet A {
}
// c" ++ [8233]%N)).
Eval vm_compute in ("<<<M989>>>" ++ check (runes_of_ascii "packet A {
}// c" ++ [133]%N)).
Eval vm_compute in ("<<<M566>>>" ++ check (runes_of_ascii "
packet
    asx")).
Eval vm_compute in ("<<<M561>>>" ++ check (runes_of_ascii "
packet")).
Eval vm_compute in ("<<<M111>>>" ++ check (runes_of_ascii "

")).
