From FP Require Import Lexer Parser ShowPT Digest Formatter.
From Coq Require Import String List NArith.
Import ListNotations.
Open Scope string_scope.
Set Printing Width 100000000.
Set Printing Depth 100000000.
Definition show_fres (r : fres) : string :=
  match r with
  | FOk s => "OK:" ++ sh_escaped s ""
  | FErr s => "ERR:" ++ sh_escaped s ""
  | FPanic p => "PANIC:" ++ p
  end.
Definition check (rs : list rune) : string := digest (show_fres (format_res rs)).
Definition full (rs : list rune) : string := show_fres (format_res rs).
Eval vm_compute in ("<<<M3511>>>" ++ check (runes_of_ascii "// top
options // c0a
  // c0b
{ LittleEndian
    // c2
=
    // c3
true // c4
; StringPrefixLenType
    // c6
= // c7
u32 // c8a
  // c8b
; FixedStringPadChar // c10a
  // c10b
= // c11
'0' ;
    // c13
} // c14a
  // c14b
packet // c15a
  // c15b
Logout // c16
{
    // c17
repeat InMsgkind49 { // c20
u8 // c21a
  // c21b
pad0 // c22
, // c23
}
    // c24
, // c25
repeat // c26
char[ // c27a
  // c27b
5 ]
    // c29
seqNo
    // c30
, // c31
repeat // c32a
  // c32b
u8 // c33a
  // c33b
price // c34
, }
    // c36
packet
    // c37
Party // c38a
  // c38b
{
    // c39
zchar[ 7 // c41a
  // c41b
] // c42
Qty // c43
, // c44a
  // c44b
} packet // c46a
  // c46b
Logon // c47
{
    // c48
repeat InRef10 // c50a
  // c50b
{ string price // c53a
  // c53b
, // c54a
  // c54b
char[]
    // c55
sym // c56a
  // c56b
, // c57
repeat // c58a
  // c58b
Logout // c59a
  // c59b
, // c60
} // c61
,
    // c62
repeat // c63a
  // c63b
char[ 3 // c65a
  // c65b
]
    // c66
count
    // c67
,
    // c68
repeat Party // c70
, // c71a
  // c71b
char[] // c72a
  // c72b
tag7 ,
    // c74
@rightPad // c75a
  // c75b
( // c76a
  // c76b
'0' ) // c78a
  // c78b
char[ // c79a
  // c79b
2 ]
    // c81
clOrdID
    // c82
, // c83
} packet Order
    // c86
{
    // c87
InTail13 // c88
{ // c89
Party
    // c90
, // c91
}
    // c92
, // c93
repeat // c94
char[ // c95a
  // c95b
4 ]
    // c97
count
    // c98
, // c99
}
    // c100
root // c101a
  // c101b
packet // c102
Cancel { // c104a
  // c104b
Logout
    // c105
, // c106a
  // c106b
@leftPad // c107a
  // c107b
( '0' ) // c110a
  // c110b
char[ 9 // c112
] msgKind , // c115
string // c116a
  // c116b
lastPx // c117
, string // c119a
  // c119b
tag7 // c120a
  // c120b
,
    // c121
zchar[ // c122a
  // c122b
1 // c123
] // c124
OrderId // c125
,
    // c126
repeat
    // c127
Party // c128a
  // c128b
, // c129
u16
    // c130
sym
    // c131
, u16 // c133
Acct @lengthOf( // c135a
  // c135b
Body
    // c136
) , // c138a
  // c138b
match
    // c139
sym
    // c140
as
    // c141
Body // c142a
  // c142b
{ [ // c144a
  // c144b
24 , 44 // c147
]
    // c148
: Logout // c150a
  // c150b
, // c151
160 // c152a
  // c152b
: Order , // c155
91 // c156a
  // c156b
: Logon , 43 // c160
: // c161
Party
    // c162
, // c163
} // c164
, u16 Tail // c167
@calculatedFrom( // c168a
  // c168b
""CRC32"" ) // c170a
  // c170b
, // c171
} // c172
")).
Eval vm_compute in ("<<<M3522>>>" ++ check (runes_of_ascii "// top
options
    // c0
{ LittleEndian =
    // c3
false // c4a
  // c4b
; // c5
StringPrefixLenType // c6a
  // c6b
= // c7
u16 ;
    // c9
ArrayPrefixLenType // c10a
  // c10b
=
    // c11
u32 // c12
; // c13
} packet Order { uint8 // c18
x
    // c19
, repeat // c21
string venue // c23a
  // c23b
,
    // c24
}
    // c25
packet // c26
Heartbeat
    // c27
{ // c28
i64 // c29
count ,
    // c31
zchar[
    // c32
1 ] Qty ,
    // c36
repeat // c37a
  // c37b
InX29 // c38
{ // c39a
  // c39b
InSeqno26 // c40
{ // c41a
  // c41b
int64
    // c42
f1 , char[ // c45a
  // c45b
5 ] Acct , // c49a
  // c49b
Order
    // c50
,
    // c51
} // c52a
  // c52b
, // c53a
  // c53b
repeat
    // c54
InSide285
    // c55
{ // c56a
  // c56b
repeat
    // c57
Order // c58
, char[ // c60a
  // c60b
10 // c61a
  // c61b
] // c62a
  // c62b
Px // c63a
  // c63b
, // c64a
  // c64b
zchar[ // c65a
  // c65b
9
    // c66
] OrderId // c68a
  // c68b
, // c69a
  // c69b
} // c70a
  // c70b
, // c71a
  // c71b
char[] venue // c73a
  // c73b
,
    // c74
Order
    // c75
,
    // c76
} , // c78
@rightPad
    // c79
( // c80
'\x00' // c81
) // c82
char[
    // c83
4 ] clOrdID
    // c86
, // c87
}
    // c88
root packet Party // c91
{ zchar[ // c93a
  // c93b
3
    // c94
]
    // c95
f1 // c96a
  // c96b
, u32 clOrdID // c99a
  // c99b
, // c100a
  // c100b
u32
    // c101
Px // c102
@lengthOf( // c103
Body // c104a
  // c104b
) ,
    // c106
match // c107a
  // c107b
clOrdID // c108a
  // c108b
as // c109a
  // c109b
Body
    // c110
{ [ 180 , // c114
64 // c115
] // c116a
  // c116b
: // c117
Heartbeat // c118a
  // c118b
, // c119
11 // c120a
  // c120b
:
    // c121
Order
    // c122
, // c123a
  // c123b
} // c124
,
    // c125
u32 // c126
Side2 @calculatedFrom( ""CRC32""
    // c129
)
    // c130
, // c131a
  // c131b
}
    // c132
")).
Eval vm_compute in ("<<<M3850>>>" ++ check (runes_of_ascii "options {
    rootA = """"
    BodyLength = 0123456789;
    roots = string
    options1 = ' '
}

root packet int {
    repeat zchar[00] Logon,
    repeat uint16 body `// not a comment`,
    @calculatedFrom(""a\""b"")
    repeat string MetaDataX `a\`,
    string lengthOf `" ++ [28040; 24687; 31867; 22411]%N ++ runes_of_ascii "`,
    @tag(3)
    trueish calculatedFrom,//
}

root packet i64_ {
    zchar[007] rootA `" ++ [28040; 24687; 31867; 22411]%N ++ runes_of_ascii "`,
    @leftPad(' ')
    @calculatedFrom(""a\\"")
    @calculatedFrom(""a\""b"")
    repeat f64 trueish `" ++ [233]%N ++ runes_of_ascii "`,
    repeat int {
        match msg_type as asx {
            """" : u128,
            [""1"", ""\" ++ [233]%N ++ runes_of_ascii """] : options1,
            ""x y"" : u8x,
            ""// no comment"" : BodyLength,
            [7, ""a\""b"", 4294967296] : asx,
        },
        crc @calculatedFrom(""""),
        // `tick` ""quote"" 'q'
        match metadata as lengthOf {
            [4294967296, ""a	b"", ""packet"", ""// no comment""] : repeatCount,
        },
        u128 {
            crc,
            repeat options1,
            uint64 BodyLength,
            matchKey `
            `,
        },
    },
    @lengthOf(zchar)
    int8 lengthOf `say ""hi""`,
}

root packet pack {
    @calculatedFrom(""a	b"")
    // " ++ [27880; 37322]%N ++ runes_of_ascii "
    Pad,
    @calculatedFrom(""packet"")
    match u as leftPad {
        [""{,}""] : A,
        ""{,}"" : u128,
        [""1"", 007] : a1,
        [""1""] : Packet,
        4294967296 : i8i8,
        00 : roots,
        //
        // packet A { u8 x, }
    },//
    char[0123456789] calculatedFrom `say ""hi""`,
    uint8 int @calculatedFrom(""a\\""),
    Packet pack,// c
}")).
Eval vm_compute in ("<<<M239>>>" ++ check (runes_of_ascii "packet x_y_z {
packetx { i16 pack `doc` ,
    repeat char[
    255
]leftPad
    ,
} , u8x , match o as roots {
[ // a // b
0123456789 ]
    // packet A { u8 x, }
    : x_y_z [""a\\""
    ] : packetx
    , }
,  repeat charz{	int32 i64_ `{ , }`,
}  ,  }
    packet x_y_z { @calculatedFrom(
""CRC32""
    )
@tag( 00 ) @lengthOf(x ) match As as
stringy
    { 1	: i64_
    ,// " ++ [27880; 37322]%N ++ runes_of_ascii "
[""it's""
,
""1"" ,
""x y"" //
, 4294967296
    ,
""\n"" , ""x y"" ] :
u128 ,00 : calculatedFrom
,	[ // " ++ [128512]%N ++ runes_of_ascii " emoji
4294967296
    , ""// no comment""
    , 42
    ,
3,""{,}""
    // packet A { u8 x, }
    ]  :	charz} ,
@calculatedFrom( ""a\\""
)  Logon A ,chars  @lengthOf(Logon
), @rightPad
('0' )@tag(	0 ) @rightPad  ( '0' ) string Foo // trailing space 
`a\`
    ,
}  packet packetx
{repeat i64_
    {  o @lengthOf(A) ,
    },@tag(
    42
    ) repeat char[]
    crc ,
    @leftPad ( ) u16 roots , falsey @lengthOf( As) , repeat  Foo{ float32 f32a@calculatedFrom( ""`tick`"" )
, len
`
`
// a // b
/// triple
,
    // packet A { u8 x, }
    }, @leftPad
('\x00' )	T@calculatedFrom( ""a	b"" ) `" ++ [28040; 24687; 31867; 22411]%N ++ runes_of_ascii "`,  char[]
// c
// " ++ [128512]%N ++ runes_of_ascii " emoji
trueish `u8 x,` , @lengthOf(falsey
    )
    match
    // " ++ [27880; 37322]%N ++ runes_of_ascii "
    rootA
    as BodyLength { // " ++ [128512]%N ++ runes_of_ascii " emoji
[
""CRC32"" ]: x ,
// @lengthOf(
// c
42
:
// packet A { u8 x, }
// `tick` ""quote"" 'q'
BodyLength , // trailing space 
} ,
    }")).
Eval vm_compute in ("<<<M1269>>>" ++ check (runes_of_ascii "packet a1{ repeat uint8x { zchar[
    3 ]metadata@lengthOf(  chars ) `it's`
, u8 packetx @calculatedFrom(""CRC32"" ) `two words`, repeat leftPad {
match MetaDataX as
    f32a{ [4294967296
]
: packetx, 255
: As ,
[ ""\n"",""\" ++ [233]%N ++ runes_of_ascii """ ,
    007, """ ++ [128512]%N ++ runes_of_ascii """ , 7 ] :float
, 0123456789 : /// triple
u128  ""a\""b"": calculatedFrom ,
    } ,
match len	as u { [ 42 , 4294967296 ] : a1 , ""it's""
    :rootA,7:
lengthOf ,	""`tick`"" :rootA,
4294967296	: calculatedFrom , }, repeat string MetaDataX `it's`
, } , uint16 uint8x , } ,	string_ @lengthOf( u ) ,
zchar[	0123456789 ]
pack @calculatedFrom( """"/// triple
) `u8 x,` , @lengthOf(
    x_y_z ) @lengthOf( u128
)
@tag( 007)zchar[
10 ]
    _x `doc`	, string BodyLength ,
// `tick` ""quote"" 'q'
// `tick` ""quote"" 'q'
i64
msg_type
`u8 x,`
, f64 Pad`say ""hi""`
, string
// c
//x
float , f64 lengthOf @calculatedFrom( """ ++ [28040; 24687]%N ++ runes_of_ascii """ ),// " ++ [128512]%N ++ runes_of_ascii " emoji
}options { // packet A { u8 x, }
matchKey =
    f32 ;}
packet Foo {repeat
T // packet A { u8 x, }
,repeat string_ { i16 uint8x
,	} // a // b
, repeat falsey A`doc` , repeat	lengthOf
    /// triple
    i8i8
    `tab	here`,
repeat char[
    10	]  x_y_z //
``, //	t
@leftPad ( ) @rightPad (
) options1 `doc`
,
u32 packetx,	u8	float `crlf
line` ,
    } packet	tag {
}
// " ++ [128512]%N ++ runes_of_ascii " emoji
")).
Eval vm_compute in ("<<<M830>>>" ++ check (runes_of_ascii "packet chars { float{ match
Header
    as stringy{ // a // b
1
: i64_
    ,65535  :
T
    ,
007
    :
    string_ , 00 : pack ,
}
    ,
    // @lengthOf(
    i16 int@calculatedFrom(
//	t
//x
""{,}""
),
char[ 255  ] trueish,
}
,
    repeat string_
    //	t
    { trueish {
match rootA as Logon
{
0
: metadata
10
: tag,
    },	matchKey {match
    tag as lengthOf	{[
""`tick`"" , 00] : Header , [ 4294967296 ]
    :
    tag , 4294967296
:
//
/// triple
leftPad
, [
""abc"",	65535 ,""a\""b""
    , // a // b
""// no comment""] : float ,},} // trailing space 
,/// triple
}, match BodyLength as	a1
    {	65535: A
255:	lengthOf ""\n""
: roots
, } ,	repeat repeatCount , charz trueish  `it's`
    ,	} // a // b
, char[]
    //
    tag @calculatedFrom( ""a\""b""
    ) ,@calculatedFrom(""// no comment""
)uint16 options1 `
`
    , } packet x_y_z
{ @calculatedFrom( """ ++ [28040; 24687]%N ++ runes_of_ascii """  ) @tag( 0 )
@lengthOf(
falsey
) zchar @calculatedFrom(
    ""x y"" )
, /// triple
float64 stringy @lengthOf(
    /// triple
    matchKey
// `tick` ""quote"" 'q'
//x
)// c
, string_  ,@leftPad ( )
    options1
repeatCount`" ++ [233]%N ++ runes_of_ascii "` , }	packet
    lengthOf
    {// packet A { u8 x, }
}
")).
Eval vm_compute in ("<<<M3836>>>" ++ check (runes_of_ascii "root packet T {
    //	t
    //
    @rightPad('\x00')
    repeat metadata {
        repeat i64 Z9_,
    },
}

options {
    _x = char[];
    tag = uint32
    calculatedFrom = u16;
}

packet packetx {
    @leftPad(' ')
    int trueish,
    packetx {
        leftPad @lengthOf(string_),// `tick` ""quote"" 'q'
        repeat o string_,
        match stringy as packetx {
            0 : pack,
            // @lengthOf(
            ""CRC32"" : tag,
            // trailing space 
            """ ++ [128512]%N ++ runes_of_ascii """ : Z9_,
            4294967296 : chars,
            007 : calculatedFrom,
            10 : u8x,
        },
    },
    repeat BodyLength {
        //	t
        repeat char[3] metadata `a\`,
        repeat char pack `a\`,
        char Header @calculatedFrom(""// no comment""),
        uint32 roots @lengthOf(i64_),
    },
    // a // b
    // trailing space 
    pack,
    repeat len Header `
    `,
    f64 f32a,
    char[] x,
    Header @lengthOf(a1),
    asx @lengthOf(calculatedFrom),
}

MetaData roots {
    options1 As,
    string_ float `{ , }`,// trailing space 
}")).
Eval vm_compute in ("<<<M3751>>>" ++ check (runes_of_ascii "

  options

    { StringPrefixLenType=  u8 
;
    ArrayPrefixLenType =	u8
;  FixedStringPadFromLeft = true ;

    FixedStringPadChar

    =' ';

    }
    packet	Logout {
repeat string 
Px
, repeat
string
    seqNo ,
    InMsgkind64
{uint16
    OrderId , char[] count, 
repeat
	i32 venue ,}
    ,
}
	packet
Heartbeat {float32
    tag7,
repeat 
InPrice50	{repeat 
char[ 5 ] lastPx

    , InRef42
	{	u8
    pad0

    , }
	, 
uint32 Acct , repeat  Logout, repeat
    char[	5]  Qty 
,	}, repeat
InSeqno30{repeat 
Logout

,

}
    ,@leftPad

    ( '0'
)
    char[
12

]  Acct ,char[]Side2,
    repeat
string msgKind , } packet

    Ack

    {
Heartbeat  ,char[  8

    ]
    seqNo,

    float64  clOrdID, 
}

packet	Trade{  char[] OrderId
	, f64 Side2	,zchar[	8
]
	f1 , string
Qty

,  float64 
seqNo, repeat	Logout ,} packet Order{	f32

    OrderId , repeat  u8 x
, Ack
,
	zchar[  7  ]Note
,
	} root

    packet

Logon  {

    @rightPad ( '\x00'

) char[
9 
]

f1
	, }
")).
Eval vm_compute in ("<<<M4283>>>" ++ check (runes_of_ascii "MetaData o {
    char[255] BodyLength,
}

packet crc {
    @tag(7)
    calculatedFrom @lengthOf(Header),
    len {
        float {
            i32 T,
            stringy string_,
            char[65535] Packet @lengthOf(a1) ``,
            falsey {
                u16 Logon `{ , }`,
            },
        },
        repeat falsey,
        repeat u8 Logon,
    },
    zchar[65535] lengthOf @lengthOf(asx) `line1
        line2`,
    @rightPad('0')
    int16 f32a,
    @rightPad('\x00')
    char[] len `" ++ [28040; 24687; 31867; 22411]%N ++ runes_of_ascii "`,
    match string_ as string_ {
        [""a\\"", 10, 007, 0123456789] : As,
        [""`tick`""] : metadata,
        ""\n"" : falsey,
        // `tick` ""quote"" 'q'
        [3, """ ++ [233]%N ++ runes_of_ascii "t" ++ [233]%N ++ runes_of_ascii """, ""CRC32""] : lengthOf,
        00 : x_y_z,
    },
    packetx {
        repeat a1 `it's`,
        stringy `{ , }`,
        match T as MetaDataX {
            ""CRC32"" : lengthOf,
        },
    },
}

MetaData tag {
    //x
}

packet Z9_ {
    i16 rootA `
        `,//	t
}")).
Eval vm_compute in ("<<<M3629>>>" ++ check (runes_of_ascii "options 
	    //	t
  {
	As

    =false 
}	//	t

packet
falsey	{

    @lengthOf(float	// packet A { u8 x, }
    ) 
@calculatedFrom(
    ""\n""
	) u32

    As
    , match leftPad 
as repeatCount {0:
Z9_  ,

1 : repeatCount
    ,

[// trailing space 
	  65535 // c
	]

: Pad 
00:	packetx	""a\\"":
packetx
, 00 : 
crc

    ,
}
,

    repeat Packet  ,
repeat
	float  /// triple

{u128
@calculatedFrom( """ ++ [28040; 24687]%N ++ runes_of_ascii """ ) `say ""hi""`

    ,
u64  Foo `say ""hi""`

,} ,
	@leftPad
( '\x00' )
    @tag(	1
)

@calculatedFrom(  ""`tick`""

    ) f64 lengthOf
,

    @rightPad	(

    '0'  )  @leftPad
(
	)@lengthOf( f32a

) repeat 
i64_	x_y_z
,@rightPad( '\x00'	)
    o@calculatedFrom( """"
	)

`a\`,  
      // a // b
//x
	asx{	repeat T
	chars
	``,
repeat
    char[  0]string_

    , 
}	,
repeat  char 
repeatCount
`u8 x,` ,
zchar[7 ]T 
@calculatedFrom(
    // packet A { u8 x, }
	  //x
""a\\"" ), }")).
Eval vm_compute in ("<<<M4193>>>" ++ check (runes_of_ascii "root packet lengthOf {
}//x

packet _x {
    //
    @calculatedFrom(""a	b"")
    @tag(65535)
    char[65535] matchKey,
}

packet leftPad {
    u16 leftPad,
    @tag(0123456789)
    // " ++ [128512]%N ++ runes_of_ascii " emoji
    // @lengthOf(
    char[1] f32a @lengthOf(options1),
    string_ BodyLength,
    Foo `" ++ [28040; 24687; 31867; 22411]%N ++ runes_of_ascii "`,
    @lengthOf(u128)
    i32 trueish @lengthOf(chars) `it's`,
    u8x u8x `{ , }`,
    match Foo as leftPad {
        // c
        0123456789 : calculatedFrom,
    },
    @leftPad('0')
    int32 rootA `crlf
        line`,
    match BodyLength as pack {
        [10] : stringy,
        10 : stringy,
        1 : u,
    },
    match zchar as calculatedFrom {
        """ ++ [128512]%N ++ runes_of_ascii """ : len,
    },
}

MetaData Z9_ {
    Pad As `line1
        line2`,
    Z9_ zchar,
    int8 repeatCount,
    i64_ trueish,
    A uint8x,// trailing space 
    leftPad Logon `two words`,
}

options {
}")).
Eval vm_compute in ("<<<M61>>>" ++ check (runes_of_ascii "  root packet pack {zchar[	255
    ] T`a\`
    , char[] Z9_ @lengthOf(
// c
//x
u8x  )
    `two words` , A
{ repeat  char[]
    x  ``,
// @lengthOf(
/// triple
repeat zchar[ //
007  ] i64_
    ,  } , uint8x @lengthOf(
    i64_
    )	``,
}
packet	calculatedFrom{ @leftPad ( )
u32	calculatedFrom``
,
@tag(0123456789 // " ++ [27880; 37322]%N ++ runes_of_ascii "
)@leftPad ( ) int8 _x
``
,
match rootA as  u { // c
10
: Z9_ , 0123456789: float
//
// c
0: float ,
[ ""it's""/// triple
]
:
packetx , } ,// `tick` ""quote"" 'q'
@lengthOf( string_ ) zchar[ 0123456789
    ] body @lengthOf(
repeatCount	) ,
    @calculatedFrom( ""\n"" ) match // `tick` ""quote"" 'q'
body as u8x{ ""a\""b""
    :T , [ ""\n"" ,// " ++ [27880; 37322]%N ++ runes_of_ascii "
""" ++ [233]%N ++ runes_of_ascii "t" ++ [233]%N ++ runes_of_ascii """, ""CRC32"", 255 ,7
, ""// no comment""
,
    """ ++ [28040; 24687]%N ++ runes_of_ascii """] : x , 255	: packetx } , @tag(65535 ) repeat
    // a // b
    Header
zchar , } MetaData Logon { }
")).
Eval vm_compute in ("<<<M3847>>>" ++ check (runes_of_ascii "root packet body {
    @tag(255)
    chars calculatedFrom,
    //	t
    @rightPad('0')
    @calculatedFrom(""a	b"")
    @rightPad()
    stringy @calculatedFrom(""it's""),
    repeat string trueish,
    @calculatedFrom("""")
    asx @lengthOf(options1) `doc`,
    u32 Logon,
    float64 i64_ @lengthOf(metadata),
    @calculatedFrom(""`tick`"")
    chars @lengthOf(len) `line1
        line2`,
    f32a {
        match trueish as roots {
            ""1"" : body,
            ""// no comment"" : Packet,
            [42, ""it's"", 0, ""it's""] : charz,
            ""a\""b"" : stringy,
            // a // b
            //x
        },
    },
    uint8x {
        zchar[10] As,
    },
    @tag(0123456789)
    @rightPad('0')
    @calculatedFrom("""")
    asx @lengthOf(trueish),
}

root packet trueish {
}")).
Eval vm_compute in ("<<<M4390>>>" ++ check (runes_of_ascii "packet a1 {
    @tag(007)
    match packetx as a1 {
        [0123456789, 0123456789] : tag,
        ""\n"" : uint8x,
        00 : Z9_,
        ""\" ++ [233]%N ++ runes_of_ascii """ : i64_,
        [""// no comment"", ""`tick`""] : asx,
    },//
}

options {
    crc = '0'
    Logon = """";
    // packet A { u8 x, }
    falsey = 4294967296;
}

packet string_ {
    repeat leftPad {
        repeat uint64 x,
        u8 uint8x `u8 x,`,
    },
    repeat tag options1,// trailing space 
    int64 trueish @lengthOf(asx) `
    `,
    // c
    match i8i8 as MetaDataX {
        ""a\\"" : falsey,
    },
    repeat char[1] As,
    zchar[42] Pad @lengthOf(repeatCount),
    @leftPad('\x00')
    uint64 string_ `say ""hi""`,
    @calculatedFrom(""CRC32"")
    char MetaDataX,// packet A { u8 x, }
}")).
Eval vm_compute in ("<<<M840>>>" ++ check (runes_of_ascii "packet a1  { @tag(00 )
    charz{
    // @lengthOf(
    char[ 007 ] i8i8	@calculatedFrom( ""// no comment"" ) ,
    float {char[  1 ] Packet @lengthOf(len ) `crlf
line` , }, }	, @rightPad//x
(' ' ) match x_y_z
as repeatCount
    {
// c
//	t
""`tick`""  :
    pack
,  ""`tick`"":
    u ""abc""
:
u128, [ """ ++ [233]%N ++ runes_of_ascii "t" ++ [233]%N ++ runes_of_ascii """ , ""x y""
//
//	t
]//	t
:float
,
0123456789
/// triple
// a // b
:calculatedFrom },
repeat zchar[ 1 //x
]
    zchar ,	char[ 255 ]  matchKey , repeat float { match
chars  as asx {
[ 0
,
0 ,	""""  ] :i64_ 00 : BodyLength  ,
//
// " ++ [27880; 37322]%N ++ runes_of_ascii "
""// no comment""
:a1 , } , repeat
    T i64_ ,
// packet A { u8 x, }
// c
repeat char[ 0 ] len ,
}// " ++ [27880; 37322]%N ++ runes_of_ascii "
, zchar[42 ] uint8x @calculatedFrom(
    //	t
    ""// no comment""
),}
")).
Eval vm_compute in ("<<<M284>>>" ++ check (runes_of_ascii "packet Pad
{char[ 007] string_ ,// @lengthOf(
@lengthOf( zchar
)string rootA
, @lengthOf(T ) char trueish @lengthOf(
    zchar
) `line1
line2`, repeat f64 calculatedFrom , @calculatedFrom(""it's"" ) leftPad
    `it's`
    , stringy{
int8 Packet @lengthOf( metadata
)
`tab	here`
    ,
A ,
    match charz as uint8x{ 3
:  MetaDataX ,
    1
    :
    //	t
    charz ""a	b""
    :
    //x
    msg_type	,
    //x
    [
0 , 10 , ""// no comment"" ,""\" ++ [233]%N ++ runes_of_ascii """
] : A , // @lengthOf(
""\n"" :
trueish , },	},
    @calculatedFrom( ""a\\"")
char[ 7 ] u @calculatedFrom( ""a\\""),
    //	t
    @tag(	7) o
{	As `it's`	,} ,} packet u	{
}packet stringy {
@tag(0123456789 )string pack @lengthOf( Pad), }")).
Eval vm_compute in ("<<<M4042>>>" ++ check (runes_of_ascii "// a // b
packet matchKey {
    @rightPad(' ')
    @tag(007)
    @lengthOf(float)
    repeat packetx,
    // @lengthOf(
    @calculatedFrom(""a\""b"")
    /// triple
    @tag(255)
    @tag(00)
    Pad @calculatedFrom(""" ++ [28040; 24687]%N ++ runes_of_ascii """) `{ , }`,
}

root packet string_ {
    repeat Logon {
        match Z9_ as float {
            ""packet"" : packetx,
            [""CRC32"", 42, 00, ""packet""] : Foo,
            """ ++ [28040; 24687]%N ++ runes_of_ascii """ : BodyLength,
            [""CRC32""] : x_y_z,
            00 : packetx,
            7 : rootA,
        },
    },
    repeat metadata {
        u16 Logon `
                `,
        matchKey @calculatedFrom(""""),
        repeat char[] leftPad,
    },
}")).
Eval vm_compute in ("<<<M4196>>>" ++ check (runes_of_ascii "options {
    // c1
    LittleEndian = false;// c5a
    // c5b
    StringPrefixLenType = u32;// c9a
    // c9b
    ArrayPrefixLenType = u16;// c13
}// c14a

// c14b
packet Party {
    // c17
    @leftPad('0')
    // c21
    char[12] Ref,
    // c26
    repeat char[6] x,// c32
}

// c33
packet Logon {
    uint32 clOrdID,// c39a
    // c39b
    Party,
}// c42

root packet Ack {
    zchar[2] f1,// c51a
    // c51b
    u32 seqNo,// c54a
    // c54b
    u32 Side2 @lengthOf(Body),
    match seqNo as Body {
        // c65
        43 : Logon,
        // c69a
        // c69b
        93 : Party,
    },// c75a
    // c75b
}")).
Eval vm_compute in ("<<<M259>>>" ++ check (runes_of_ascii "MetaData Header
{
} root	packet chars
    { char[	00
]
MetaDataX `u8 x,` ,repeat Foo stringy // " ++ [128512]%N ++ runes_of_ascii " emoji
, @lengthOf( u8x ) char[] Foo , match  Header as
leftPad { [
""abc"" ,
    255
, """ ++ [128512]%N ++ runes_of_ascii """ , """" ]	:charz
,007
    // packet A { u8 x, }
    : uint8x , 0 :asx , """"
    // " ++ [27880; 37322]%N ++ runes_of_ascii "
    : MetaDataX , } ,	char[]
uint8x , @tag(  1 )
    i8i8{ x Packet `doc`	, zchar[ 4294967296  ] metadata @calculatedFrom(
    ""a\\"" ) `" ++ [233]%N ++ runes_of_ascii "`, zchar[  10]//
crc
    @lengthOf( Foo
    // @lengthOf(
    ) `crlf
line` ,
} ,}	MetaData
msg_type {
    char[] calculatedFrom `line1
line2`,
} // `tick` ""quote"" 'q'")).
Eval vm_compute in ("<<<M3716>>>" ++ check (runes_of_ascii "options {
    // " ++ [27880; 37322]%N ++ runes_of_ascii "
    tag = ' '
    leftPad = 255
    x_y_z = uint32;// a // b
    falsey = """ ++ [28040; 24687]%N ++ runes_of_ascii """
    As = ""packet"";
}

packet As {
    @lengthOf(u)
    repeat u8 i8i8 `two words`,
    @tag(00)
    @tag(1)
    char[255] a1 @lengthOf(zchar),
    i32 u,
    repeat float32 tag,
    //
    A,
    repeat uint8 string_,
    @calculatedFrom(""a\""b"")
    @lengthOf(Header)
    u {
        int8 asx ``,
        i32 Foo @lengthOf(tag) `
        `,
    },
    float64 pack,
    @tag(10)
    Foo,
    match repeatCount as u8x {
        42 : o,
    },
}")).
Eval vm_compute in ("<<<M4311>>>" ++ check (runes_of_ascii "
root
	packet
roots {}
packet As {
@calculatedFrom(

    """ ++ [28040; 24687]%N ++ runes_of_ascii """
) 
i16 msg_type

`" ++ [28040; 24687; 31867; 22411]%N ++ runes_of_ascii "` 
, 
repeat  // trailing space 
	repeatCount

{
	repeat
pack

msg_type`crlf
line` , //
    match	repeatCount	as 
_x	{ ""`tick`""  : // a // b
  trueish , 	 // c

[ ""\n""

    ,
	65535
, 
255
    ,
    ""abc"",

0123456789 
]

    : options1,}//

	,	//x
  	}	,
}
    // trailing space 
  //
    MetaData x_y_z

    {	options1
chars , int32 
leftPad

`{ , }`	,  string
    i64_
	`say ""hi""`
,
	int32 BodyLength 
`a\`
,	}")).
Eval vm_compute in ("<<<M4048>>>" ++ check (runes_of_ascii "root packet metadata {
    repeat zchar[255] matchKey `line1
    line2`,
    @tag(0)
    // " ++ [128512]%N ++ runes_of_ascii " emoji
    match A as msg_type {
        ""packet"" : len,
        255 : roots,
        """ ++ [233]%N ++ runes_of_ascii "t" ++ [233]%N ++ runes_of_ascii """ : leftPad,
        ""CRC32"" : Z9_,
        //	t
    },
    @leftPad(' ')
    char[] Logon,//x
    char[3] T `{ , }`,
    uint64 metadata @calculatedFrom(""1""),
    @rightPad()
    match u as len {
        [""\" ++ [233]%N ++ runes_of_ascii """, ""1""] : f32a,
    },
    u128 falsey,
    @calculatedFrom(""" ++ [28040; 24687]%N ++ runes_of_ascii """)
    As @lengthOf(falsey),
}")).
Eval vm_compute in ("<<<M1365>>>" ++ check (runes_of_ascii "root packet
    /// triple
    stringy
    { stringy
pack
, char[1 ] T // @lengthOf(
@calculatedFrom( ""// no comment""
),  zchar[ 4294967296 ] stringy
@calculatedFrom(
""CRC32"" )`doc` , zchar[1
    ]
body @lengthOf( A
) ,	asx@lengthOf(
    Packet ) `two words` // packet A { u8 x, }
,leftPad @calculatedFrom( ""\n"" ) `it's` ,i16
f32a
    // @lengthOf(
    , }MetaData
metadata{
char[	7 ]  crc , options1	u128 `two words` , falsey calculatedFrom, string_ As //x
, }")).
Eval vm_compute in ("<<<M3904>>>" ++ check (runes_of_ascii "root packet i64_ {
    packetx {
        string zchar @calculatedFrom(""`tick`"") `
        `,
        zchar[1] metadata `doc`,
        Foo @calculatedFrom(""CRC32""),
    },
    char[] roots `crlf
    line`,
    @calculatedFrom(""it's"")
    char rootA,
    @tag(7)
    charz o `it's`,// a // b
    char[007] msg_type @lengthOf(x_y_z),
    repeat zchar[007] repeatCount `say ""hi""`,
    match i64_ as rootA {
        [""abc""] : T,
    },
    repeat chars,
}")).
Eval vm_compute in ("<<<M4344>>>" ++ check (runes_of_ascii "packet i64_ {
    @lengthOf(Foo)
    // `tick` ""quote"" 'q'
    @lengthOf(calculatedFrom)
    o @calculatedFrom(""{,}""),
    uint16 lengthOf @calculatedFrom(""" ++ [128512]%N ++ runes_of_ascii """),
    char[007] trueish,
    @tag(00)
    @tag(007)
    // a // b
    // " ++ [128512]%N ++ runes_of_ascii " emoji
    float @calculatedFrom(""\n""),
    charz A,
    Logon @calculatedFrom(""// no comment"") `
    `,
    @lengthOf(msg_type)
    BodyLength As `a\`,
    zchar[10] zchar @calculatedFrom("""") `doc`,
}")).
Eval vm_compute in ("<<<M1124>>>" ++ check (runes_of_ascii "MetaData
    // `tick` ""quote"" 'q'
    o { i64 crc , }
packet falsey{	@tag( 0 )
zchar @calculatedFrom(""x y"" ),crc // `tick` ""quote"" 'q'
{
char[ 7 ] Packet
@lengthOf( asx ) , } ,
@tag( 4294967296) @calculatedFrom(
""" ++ [128512]%N ++ runes_of_ascii """ ) x_y_z trueish ,
    @calculatedFrom(
    ""\n"") // c
falsey
    Packet
,float { T o
    ,	zchar[ 4294967296 ]chars
    , zchar[7] options1@calculatedFrom(  ""a\\"" ) ,
repeat float32 Pad
    , }
, }
")).
Eval vm_compute in ("<<<M756>>>" ++ check (runes_of_ascii "//x
options
{  } packet As{ @leftPad() Packet  `a\`
,// c
}	packet i64_	{
i16 charz
    `tab	here`, @calculatedFrom(
""" ++ [233]%N ++ runes_of_ascii "t" ++ [233]%N ++ runes_of_ascii """ ) @lengthOf(
Packet )
char[ 4294967296 ] msg_type	@lengthOf(
leftPad ) ,  } MetaData o { x falsey ,// packet A { u8 x, }
i16 u8x	`crlf
line`, zchar[4294967296 ] // @lengthOf(
u8x `" ++ [28040; 24687; 31867; 22411]%N ++ runes_of_ascii "` , char[
3 ]Header	, x
//
// @lengthOf(
string_
    // " ++ [27880; 37322]%N ++ runes_of_ascii "
    ,
// c
//	t
} // @lengthOf(")).
Eval vm_compute in ("<<<M3837>>>" ++ check (runes_of_ascii "options {
    LittleEndian = false;
    StringPrefixLenType = u32;
    ArrayPrefixLenType = u16;
}

packet Party {
    @leftPad('0')
    char[12] Ref,
    repeat char[6] x,
}

packet Logon {
    uint32 clOrdID,
    Party,
}

root packet Ack {
    zchar[2] f1,
    u32 seqNo,
    u32 Side2 @lengthOf(Body),
    match seqNo as Body {
        43 : Logon,
        93 : Party,
    },
}")).
Eval vm_compute in ("<<<M1129>>>" ++ check (runes_of_ascii "root packet
    // packet A { u8 x, }
    string_ { @lengthOf( a1
// @lengthOf(
// c
) @lengthOf( f32a ) Foo@lengthOf(// `tick` ""quote"" 'q'
As ) `tab	here` ,
}root // trailing space 
packet crc { @calculatedFrom( // " ++ [27880; 37322]%N ++ runes_of_ascii "
""1"") float32 pack , //	t
} options {len = '\x00' ;uint8x
// @lengthOf(
// a // b
= 0 ; Z9_
= zchar[
3	];tag// `tick` ""quote"" 'q'
= ""a\""b""
    ; }
")).
Eval vm_compute in ("<<<M4218>>>" ++ check (runes_of_ascii "options {
    BodyLength = ""{,}""
    tag = ""// no comment"";
}

options {
    charz = '\x00';// a // b
    repeatCount = 255;
    _x = """ ++ [128512]%N ++ runes_of_ascii """;
    Foo = '0'
    a1 = '0'
    //x
    //
}

root packet falsey {
    i64 packetx @lengthOf(Header) `" ++ [28040; 24687; 31867; 22411]%N ++ runes_of_ascii "`,
    len @lengthOf(roots) `a\`,
    zchar @lengthOf(MetaDataX) `line1
    line2`,
}// packet A { u8 x, }")).
Eval vm_compute in ("<<<M58>>>" ++ check (runes_of_ascii "
MetaData// `tick` ""quote"" 'q'
asx
{
    // packet A { u8 x, }
    char
// @lengthOf(
//x
Z9_ , } options{ Pad
= '0' /// triple
} options { trueish = ""it's"" matchKey =
    false
    ; T = float32 ;
    /// triple
    len= ' ' ; string_
=
    i16 ; } root// `tick` ""quote"" 'q'
packet f32a{char[]
    // trailing space 
    u8x
    , }")).
Eval vm_compute in ("<<<M4209>>>" ++ check (runes_of_ascii "options {
    body = 0123456789
}

packet tag {
    o @lengthOf(packetx) `" ++ [28040; 24687; 31867; 22411]%N ++ runes_of_ascii "`,
    repeat options1 {
        float64 o `doc`,
    },
}

root packet float {
    // trailing space 
    @calculatedFrom(""a	b"")
    //	t
    float32 BodyLength `crlf
        line`,
    repeat f32a Header `say ""hi""`,
    int8 falsey `{ , }`,
}")).
Eval vm_compute in ("<<<M1280>>>" ++ check (runes_of_ascii "
root packet  uint8x
{x_y_z zchar`{ , }` ,// `tick` ""quote"" 'q'
}
    root packet zchar { //x
@tag(42 ) @leftPad (
    //
    '\x00' ) len options1 `two words`
    , repeat char[ 255]_x ,} options {
options1 // " ++ [27880; 37322]%N ++ runes_of_ascii "
='\x00'msg_type= 0123456789 leftPad =// a // b
' ' ; T	= /// triple
true roots	= ""abc""//
;}")).
Eval vm_compute in ("<<<M1415>>>" ++ check (runes_of_ascii "root packet packet Foo // " ++ [128512]%N ++ runes_of_ascii " emoji
{ } options {
    // a // b
    tag // `tick` ""quote"" 'q'
= //	t
""""
    ; u8x = zchar[0  ] }
MetaData
    int {zchar[ 10]
lengthOf	`` , i64 u8x`// not a comment` ,MetaDataX pack// `tick` ""quote"" 'q'
`crlf
line`
, Logon charz `crlf
line`
    ,
    // a // b
    }
")).
Eval vm_compute in ("<<<M1517>>>" ++ check (runes_of_ascii "root packet Foo // " ++ [128512]%N ++ runes_of_ascii " emoji
{ } options {
    // a // b
    tag // `tick` ""quote"" 'q'
= //	t
""""
    ; u8x = zchar[0  ] }
MetaData
    int {zchar[ int32]
lengthOf	`` , i64 u8x`// not a comment` ,MetaDataX pack// `tick` ""quote"" 'q'
`crlf
line`
, Logon charz `crlf
line`
    ,
    // a // b
    }
")).
Eval vm_compute in ("<<<M3290>>>" ++ check (runes_of_ascii "// top
packet
    // c0
o
    // c1
{
    // c2
@tag(
    // c3
42
    // c4
)
    // c5
repeat
    // c6
x
    // c7
{
    // c8
char[
    // c9
0123456789
    // c10
]
    // c11
i64_
    // c12
,
    // c13
}
    // c14
,
    // c15
}
    // c16
options
    // c17
{
    // c18
}
    // c19
")).
Eval vm_compute in ("<<<M1486>>>" ++ check (runes_of_ascii "root packet Foo // " ++ [128512]%N ++ runes_of_ascii " emoji
{ } options {
    // a // b
    tag // `tick` ""quote"" 'q'
= //	t
""""
    ; u8x = zchar[0  } ]
MetaData
    int {zchar[ 10]
lengthOf	`` , i64 u8x`// not a comment` ,MetaDataX pack// `tick` ""quote"" 'q'
`crlf
line`
, Logon charz `crlf
line`
    ,
    // a // b
    }
")).
Eval vm_compute in ("<<<M1449>>>" ++ check (runes_of_ascii "root packet Foo // " ++ [128512]%N ++ runes_of_ascii " emoji
{ } options {
    // a // b
    tag // `tick` ""quote"" 'q'
 //	t
""""
    ; u8x = zchar[0  ] }
MetaData
    int {zchar[ 10]
lengthOf	`` , i64 u8x`// not a comment` ,MetaDataX pack// `tick` ""quote"" 'q'
`crlf
line`
, Logon charz `crlf
line`
    ,
    // a // b
    }
")).
Eval vm_compute in ("<<<M1477>>>" ++ check (runes_of_ascii "root packet Foo // " ++ [128512]%N ++ runes_of_ascii " emoji
{ } options {
    // a // b
    tag // `tick` ""quote"" 'q'
= //	t
""""
    ; u8x = as 0  ] }
MetaData
    int {zchar[ 10]
lengthOf	`` , i64 u8x`// not a comment` ,MetaDataX pack// `tick` ""quote"" 'q'
`crlf
line`
, Logon charz `crlf
line`
    ,
    // a // b
    }
")).
Eval vm_compute in ("<<<M1524>>>" ++ check (runes_of_ascii "root packet Foo // " ++ [128512]%N ++ runes_of_ascii " emoji
{ } options {
    // a // b
    tag // `tick` ""quote"" 'q'
= //	t
""""
    ; u8x = zchar[0  ] }
MetaData
    int {zchar[ 10]
	`` , i64 u8x`// not a comment` ,MetaDataX pack// `tick` ""quote"" 'q'
`crlf
line`
, Logon charz `crlf
line`
    ,
    // a // b
    }
")).
Eval vm_compute in ("<<<M4099>>>" ++ check (runes_of_ascii "packet x_y_z {
    @calculatedFrom("""")
    repeat _x f32a,
    @calculatedFrom(""it's"")
    chars,
    int32 u8x,// c
}

options {
    crc = """ ++ [233]%N ++ runes_of_ascii "t" ++ [233]%N ++ runes_of_ascii """
}

root packet string_ {
}

packet x {
    u8x Packet,
    i32 float,
}

options {
    Pad = 4294967296;
    leftPad = """ ++ [233]%N ++ runes_of_ascii "t" ++ [233]%N ++ runes_of_ascii """
}")).
Eval vm_compute in ("<<<M380>>>" ++ check (runes_of_ascii "options {
falsey =
    ""a	b"" ;leftPad = '0'// " ++ [128512]%N ++ runes_of_ascii " emoji
; o =// c
float64 } packet//
x { match f32a
as uint8x {
[
    255 ,
    7 , 42
    /// triple
    , 7 ,  ""abc""
    , 255 , ""1"" //	t
, 0 ]:matchKey
,
    // trailing space 
    } , } // packet A { u8 x, }")).
Eval vm_compute in ("<<<M982>>>" ++ check (runes_of_ascii "packet	pack{ uint8 metadata`line1
line2`
    , @tag(
    0123456789
)
    string matchKey @calculatedFrom( ""`tick`"" ) `" ++ [28040; 24687; 31867; 22411]%N ++ runes_of_ascii "`
    ,
@tag( 1 ) // trailing space 
i8i8 `doc`, o `crlf
line`  , }MetaData leftPad { f32a
    int , // packet A { u8 x, }
}

")).
Eval vm_compute in ("<<<M800>>>" ++ check (runes_of_ascii "root
    //	t
    packet Logon //
{ @tag(0123456789 )	@leftPad (' '
) Packet{
o @calculatedFrom(""a	b""
    )  `tab	here`
    , },
    repeat leftPad i8i8`line1
line2` , i64 calculatedFrom , float32 stringy @calculatedFrom(
""`tick`"" )	, }

")).
Eval vm_compute in ("<<<M424>>>" ++ check (runes_of_ascii "options{ } options { Foo  =	3;
u// @lengthOf(
=	""{,}"" trueish
=
3
// c
// a // b
;  a1 = char[] } //	t
packet//
i64_
{ repeat Header rootA `a\`
    , /// triple
@tag( 3)
char[// `tick` ""quote"" 'q'
10 ]  matchKey
`{ , }`, } // c")).
Eval vm_compute in ("<<<M12>>>" ++ check (runes_of_ascii "  MetaData	calculatedFrom
{char[]
lengthOf
    , } // trailing space 
root // " ++ [27880; 37322]%N ++ runes_of_ascii "
packet _x { @calculatedFrom(""" ++ [28040; 24687]%N ++ runes_of_ascii """) repeat zchar _x ,
    // packet A { u8 x, }
    repeat zchar[42//x
]
Pad , @tag(42	)char[ 42] u8x
    ,}
")).
Eval vm_compute in ("<<<M2278>>>" ++ check (runes_of_ascii "MetaData Packet { }packet	asx  { @lengthOf( asx) falsey`crlf
line`
,
    char[
    packet x	{uint32// @lengthOf(
rootA	,u32 options1 `say ""hi""` , @tag( 7
    )// packet A { u8 x, }
msg_type @lengthOf(
stringy	)	, }

")).
Eval vm_compute in ("<<<M2238>>>" ++ check (runes_of_ascii "MetaData Packet { }packet	root  { @lengthOf( asx) falsey`crlf
line`
,
    }
    packet x	{uint32// @lengthOf(
rootA	,u32 options1 `say ""hi""` , @tag( 7
    )// packet A { u8 x, }
msg_type @lengthOf(
stringy	)	, }

")).
Eval vm_compute in ("<<<M2282>>>" ++ check (runes_of_ascii "MetaData Packet { }packet	asx  { @lengthOf( asx) falsey`crlf
line`
,
    }
    x packet	{uint32// @lengthOf(
rootA	,u32 options1 `say ""hi""` , @tag( 7
    )// packet A { u8 x, }
msg_type @lengthOf(
stringy	)	, }

")).
Eval vm_compute in ("<<<M2325>>>" ++ check (runes_of_ascii "MetaData Packet { }packet	asx  { @lengthOf( asx) falsey`crlf
line`
,
    }
    packet x	{uint32// @lengthOf(
rootA	,u32 options1 `say ""hi""`  @tag( 7
    )// packet A { u8 x, }
msg_type @lengthOf(
stringy	)	, }

")).
Eval vm_compute in ("<<<M246>>>" ++ check (runes_of_ascii "packet a1 {//	t
} root packet float {char[] pack ,
@tag(
65535 ) u16 string_
// trailing space 
// c
, repeat rootA	{
// `tick` ""quote"" 'q'
//x
repeat
    asx charz
`a\`, }
    // `tick` ""quote"" 'q'
    ,}
")).
Eval vm_compute in ("<<<M1573>>>" ++ check (runes_of_ascii "root packet Foo // " ++ [128512]%N ++ runes_of_ascii " emoji
{ } options {
    // a // b
    tag // `tick` ""quote"" 'q'
= //	t
""""
    ; u8x = zchar[0  ] }
MetaData
    int {zchar[ 10]
lengthOf	`` , i64 u8x`// not a comment` ,MetaDataX pack")).
Eval vm_compute in ("<<<M3500>>>" ++ check (runes_of_ascii "
root packet
	Frame{

    u8 K
,Logon
	first ,
match K

as
Body{
	1
    :
Logon
    ,2
    :
    Logout , 
}  ,}
packet
Logon

    { string
    user ,	} packet
	Logout
{ u16 reason,
	}
")).
Eval vm_compute in ("<<<M955>>>" ++ check (runes_of_ascii "options {  charz =
    """ ++ [128512]%N ++ runes_of_ascii """crc
// " ++ [27880; 37322]%N ++ runes_of_ascii "
//x
= false;
    u128
= false
    ; crc
=
' '}
    /// triple
    packet msg_type { string u8x , zchar[ 10] zchar@calculatedFrom(
    ""abc"") `{ , }`, }
")).
Eval vm_compute in ("<<<M4345>>>" ++ check (runes_of_ascii "
packet uint8x
    {
f32
Header
	@calculatedFrom( ""CRC32"" )
    ,
}
MetaData
roots {  string  f32a , }MetaData int  {

options1
string_  ,// `tick` ""quote"" 'q'
		f64
	float	,	} ")).
Eval vm_compute in ("<<<M579>>>" ++ check (runes_of_ascii "packet uint8x {f32 Header @calculatedFrom( ""CRC32""
),
    }MetaData  roots { string f32a , }MetaData int  { options1 string_
    , // `tick` ""quote"" 'q'
f64
float,
    }
")).
Eval vm_compute in ("<<<M206>>>" ++ check (runes_of_ascii "options
    {As
=false	;
}root packet calculatedFrom // a // b
{ zchar[
255 ] Z9_
,  }  MetaData metadata{ int8 chars
, char[]
charz `two words` , char[ 0]
rootA, }")).
Eval vm_compute in ("<<<M4490>>>" ++ check (runes_of_ascii "options {
    options1 = ""\" ++ [233]%N ++ runes_of_ascii """
    x = u64
    Z9_ = '0'
    calculatedFrom = char[];
}

root packet trueish {
}

packet BodyLength {
    @leftPad()
    u64 _x,
}")).
Eval vm_compute in ("<<<M683>>>" ++ check (runes_of_ascii "root
    packet
    Packet// packet A { u8 x, }
{leftPad
    As , char[]	string_ ,
} MetaData
x {
a1 u128 `u8 x,`	,
// a // b
// packet A { u8 x, }
}

")).
Eval vm_compute in ("<<<M1523>>>" ++ check (runes_of_ascii "root packet Foo // " ++ [128512]%N ++ runes_of_ascii " emoji
{ } options {
    // a // b
    tag // `tick` ""quote"" 'q'
= //	t
""""
    ; u8x = zchar[0  ] }
MetaData
    int {zchar[ 10")).
Eval vm_compute in ("<<<M516>>>" ++ check (runes_of_ascii "packet i8i8
// packet A { u8 x, }
//x
{@rightPad
    () msg_type{ rootA
len , }
    // trailing space 
    , } root packet  options1
    {  }
")).
Eval vm_compute in ("<<<M4413>>>" ++ check (runes_of_ascii "root packet charz {
    @calculatedFrom(""a	b"")
    repeat f32a options1 `u8 x,`,
}

options {
    // " ++ [27880; 37322]%N ++ runes_of_ascii "
    zchar = char[3];
}
/// triple")).
Eval vm_compute in ("<<<M1675>>>" ++ check (runes_of_ascii "root packet /// triple
rootA {	i32
MetaDataX@calculatedFrom( ""CRC32"" ) `line1
line2` repeat } MetaData BodyLength {
u8
rootA, } // c")).
Eval vm_compute in ("<<<M1663>>>" ++ check (runes_of_ascii "root packet /// triple
rootA {	i32
MetaDataX@calculatedFrom( ""CRC32"" ) ) `line1
line2` , } MetaData BodyLength {
u8
rootA, } // c")).
Eval vm_compute in ("<<<M1654>>>" ++ check (runes_of_ascii "root packet /// triple
rootA {	i32
MetaDataX""CRC32"" @calculatedFrom( ) `line1
line2` , } MetaData BodyLength {
u8
rootA, } // c")).
Eval vm_compute in ("<<<M1697>>>" ++ check (runes_of_ascii "root packet /// triple
rootA {	i32
MetaDataX@calculatedFrom( ""CRC32"" ) `line1
line2` , } MetaData BodyLength {

rootA, } // c")).
Eval vm_compute in ("<<<M1650>>>" ++ check (runes_of_ascii "root packet /// triple
rootA {	i32
int32@calculatedFrom( ""CRC32"" ) `line1
line2` , } MetaData BodyLength {
u8
rootA, } // c")).
Eval vm_compute in ("<<<M4001>>>" ++ check (runes_of_ascii "packet A {
    u16 len @lengthOf(body) `tab
    	x`,
    u32 crc @calculatedFrom(""CRC32"") `tab
    	x`,
    string body,
}")).
Eval vm_compute in ("<<<M71>>>" ++ check (runes_of_ascii "options{ BodyLength=
    '\x00' }options
{ } options {  Pad
    = ""\" ++ [233]%N ++ runes_of_ascii """  msg_type
= uint32 ; a1 = '0'  Foo =
    ' ' ; }")).
Eval vm_compute in ("<<<M1883>>>" ++ check (runes_of_ascii "packet
    Pad // a // b
{ i8i8 @calculatedFrom( ""a	b"") `u8 x,` ,
} options{ #float// " ++ [128512]%N ++ runes_of_ascii " emoji
= f64 i64_
=//	t
00 }
")).
Eval vm_compute in ("<<<M1842>>>" ++ check (runes_of_ascii "packet
    Pad // a // b
{ i8i8 @calculatedFrom( ""a	b"") `u8 x,` ,
} options{ =// " ++ [128512]%N ++ runes_of_ascii " emoji
float f64 i64_
=//	t
00 }
")).
Eval vm_compute in ("<<<M4074>>>" ++ check (runes_of_ascii "packet body {
    float32 zchar @lengthOf(x_y_z),
    u64 int @calculatedFrom(""abc""),
    // " ++ [27880; 37322]%N ++ runes_of_ascii "
}

root packet u {
}")).
Eval vm_compute in ("<<<M3494>>>" ++ check (runes_of_ascii "

  packet FooBar 
{u8
a,  }  packet

    foo_bar 
{u16	b ,
    }
root packet
    R
    {FooBar ,foo_bar
,
} ")).
Eval vm_compute in ("<<<M1223>>>" ++ check (runes_of_ascii "packet options1
    {zchar[ 007
]f32a
    @lengthOf(
    //
    msg_type )
// `tick` ""quote"" 'q'
// " ++ [128512]%N ++ runes_of_ascii " emoji
,}")).
Eval vm_compute in ("<<<M2986>>>" ++ check (runes_of_ascii "packet A {
  match k as n {
    [""a"", ""bb"", 007, ""d"", ""e"", 66, ""g"", ""h"", 9, ""j"", ""k""] : B,
    2 : C
  },
}")).
Eval vm_compute in ("<<<M2982>>>" ++ check (runes_of_ascii "packet A {
  match k as n {
    [""a"", 22, ""c c"", 4, ""e"", 66, ""g"", 8, ""i"", 10, ""k""] : B,
    2 : C
  },
}")).
Eval vm_compute in ("<<<M3353>>>" ++ check (runes_of_ascii "packet calculatedFrom { @tag( 4294967296 ) u msg_type // c
, char[ 3 ] crc @lengthOf( len ) `u8 x,` , }")).
Eval vm_compute in ("<<<M3571>>>" ++ check (runes_of_ascii "packet FooBar {
    u8 a,
}

packet foo_bar {
    u16 b,
}

root packet R {
    FooBar,
    foo_bar,
}")).
Eval vm_compute in ("<<<M407>>>" ++ check (runes_of_ascii "// `tick` ""quote"" 'q'
packet As { u64 msg_type
,@lengthOf(
trueish  ) lengthOf
    int`a\` , //
}")).
Eval vm_compute in ("<<<M3259>>>" ++ check (runes_of_ascii "packet Logon { @tag( 42 ) @rightPad ( ' ' ) @leftPad ( ) repeat trueish { string T , } , }
// c
")).
Eval vm_compute in ("<<<M3229>>>" ++ check (runes_of_ascii "packet Logon { @tag( 42 ) @rightPad
// c
( ' ' ) @leftPad ( ) repeat trueish { string T , } , }")).
Eval vm_compute in ("<<<M202>>>" ++ check (runes_of_ascii "
options {
roots //x
=""packet"" ; len  =0 ;crc  =zchar[65535
/// triple
// " ++ [128512]%N ++ runes_of_ascii " emoji
]//x
;
}
")).
Eval vm_compute in ("<<<M4124>>>" ++ check (runes_of_ascii "
packet 
A{
    match
k as

n{[
	1	,
""bb"" ,
007 ,
    ""d""	,  5 ]  : 
B , 
2
    :
C
}  ,}")).
Eval vm_compute in ("<<<M1356>>>" ++ check (runes_of_ascii "MetaData u	{ i32 i8i8`u8 x,` , MetaDataX
// " ++ [27880; 37322]%N ++ runes_of_ascii "
// " ++ [27880; 37322]%N ++ runes_of_ascii "
pack `
` , Logon zchar
    `doc` ,}
")).
Eval vm_compute in ("<<<M1994>>>" ++ check (runes_of_ascii "root
packet crc
    { f32a @calculatedFrom( """ ++ [233]%N ++ runes_of_ascii "t" ++ [233]%N ++ runes_of_ascii """ i64
    `say ""hi""`, lengthOf `` ,  }")).
Eval vm_compute in ("<<<M2041>>>" ++ check (runes_of_ascii "root
packet crc
    { f32a @calculatedFrom( """ ++ [233]%N ++ runes_of_ascii "t" ++ [233]%N ++ runes_of_ascii """ )
    `say ""hi""`, lengthOf `` ,  @}")).
Eval vm_compute in ("<<<M3054>>>" ++ check (runes_of_ascii "packet A {
    u32 crc @calculatedFrom(""x\
y""),
    @calculatedFrom(""x\
y"") u8 y,
}")).
Eval vm_compute in ("<<<M3051>>>" ++ check (runes_of_ascii "packet A {
    u32 crc @calculatedFrom(""x\
y""),
    @calculatedFrom(""x\
y"") u8 y,
}")).
Eval vm_compute in ("<<<M3296>>>" ++ check (runes_of_ascii "packet o // c
{ @tag( 42 ) repeat x { char[ 0123456789 ] i64_ , } , } options { }")).
Eval vm_compute in ("<<<M3328>>>" ++ check (runes_of_ascii "packet o { @tag( 42 ) repeat x { char[ 0123456789 ] i64_ , } , } options // c
{ }")).
Eval vm_compute in ("<<<M1962>>>" ++ check (runes_of_ascii "root
 crc
    { f32a @calculatedFrom( """ ++ [233]%N ++ runes_of_ascii "t" ++ [233]%N ++ runes_of_ascii """ )
    `say ""hi""`, lengthOf `` ,  }")).
Eval vm_compute in ("<<<M3594>>>" ++ check (runes_of_ascii "packet o {
    @rightPad()
    // trailing space 
    x_y_z calculatedFrom,
}")).
Eval vm_compute in ("<<<M4207>>>" ++ check (runes_of_ascii "packet A {
    @tag(1)
    // a
    @leftPad('0')
    // b
    char[4] x,
}")).
Eval vm_compute in ("<<<M1911>>>" ++ check (runes_of_ascii "
packet	As { @calculatedFrom( @calculatedFrom(//x
""{,}""	)lengthOf , } 	 ")).
Eval vm_compute in ("<<<M2209>>>" ++ check (runes_of_ascii "root
    // `tick` ""quote"" 'q'
    packet caf" ++ [233]%N ++ runes_of_ascii "_1 { trueish Packet , }
")).
Eval vm_compute in ("<<<M1666>>>" ++ check (runes_of_ascii "root packet /// triple
rootA {	i32
MetaDataX@calculatedFrom( ""CRC32""")).
Eval vm_compute in ("<<<M2876>>>" ++ check (runes_of_ascii "packet A {
  match k as n {
    [1, ""bb"", 007] : B,
    2 : C
  },
}")).
Eval vm_compute in ("<<<M2168>>>" ++ check (runes_of_ascii "root
    // `tick` ""quote"" 'q'
    packet As trueish { Packet , }
")).
Eval vm_compute in ("<<<M725>>>" ++ check (runes_of_ascii "MetaData options1
{ zchar[  007 ]u
,x_y_z f32a
    `u8 x,` , }
")).
Eval vm_compute in ("<<<M2153>>>" ++ check (runes_of_ascii "
    // `tick` ""quote"" 'q'
    packet As { trueish Packet , }
")).
Eval vm_compute in ("<<<M3033>>>" ++ check (runes_of_ascii "packet A {
    B b `x
`,
    B `x
`,
    repeat B bs `x
`,
}")).
Eval vm_compute in ("<<<M3174>>>" ++ check (runes_of_ascii "packet A { // a
 @tag(1) u8 x, // b
 // c
 @tag(2) u8 y, }")).
Eval vm_compute in ("<<<M500>>>" ++ check (runes_of_ascii "packet body { i32 Z9_ @lengthOf( roots),
    //	t
    }
")).
Eval vm_compute in ("<<<M175>>>" ++ check (runes_of_ascii "packet
    A {
//	t
/// triple
repeat
char[] _x ,  }
")).
Eval vm_compute in ("<<<M35>>>" ++ check (runes_of_ascii "MetaData trueish { char[]chars , char[] int
    ,}
")).
Eval vm_compute in ("<<<M3927>>>" ++ check (runes_of_ascii "options	{	}
	options	{}	// `tick` ""quo''te"" 'q'
 
")).
Eval vm_compute in ("<<<M2396>>>" ++ check (runes_of_ascii "MetaData A
{
i64
chars	} , // `tick` ""quote"" 'q'")).
Eval vm_compute in ("<<<M3012>>>" ++ check (runes_of_ascii "MetaData M {
    u8 x `a
b`,
    T t `a
b`,
}")).
Eval vm_compute in ("<<<M1264>>>" ++ check (runes_of_ascii "root
packet options1
{ }
root packet int{ }")).
Eval vm_compute in ("<<<M3673>>>" ++ check (runes_of_ascii "MetaData rootA {
}

options {
    tag = 3;
}")).
Eval vm_compute in ("<<<M2108>>>" ++ check (runes_of_ascii "MetaData @tag(
{// " ++ [128512]%N ++ runes_of_ascii " emoji
i16 stringy , }")).
Eval vm_compute in ("<<<M557>>>" ++ check (runes_of_ascii "
options
    {
i8i8= '0';asx =uint32	}
")).
Eval vm_compute in ("<<<M3196>>>" ++ check (runes_of_ascii "MetaData zchar { zchar[ // c
3 ] Pad , }")).
Eval vm_compute in ("<<<M2809>>>" ++ check (runes_of_ascii "MetaData `` ; @calculatedFrom( MetaData")).
Eval vm_compute in ("<<<M4181>>>" ++ check (runes_of_ascii "
packet

    repeatCount
{

    }
")).
Eval vm_compute in ("<<<M2614>>>" ++ check (runes_of_ascii "packet A { match k as n { 1 : 2 }, }")).
Eval vm_compute in ("<<<M2618>>>" ++ check (runes_of_ascii "packet A { @tag(1) @tag(2) u8 x, }")).
Eval vm_compute in ("<<<M2563>>>" ++ check (runes_of_ascii "packet A { repeat repeat u8 x, }")).
Eval vm_compute in ("<<<M78>>>" ++ check (runes_of_ascii "options { zchar=
    false ; }")).
Eval vm_compute in ("<<<M3138>>>" ++ check (runes_of_ascii "packet A {
 u8 x `d" ++ [65279]%N ++ runes_of_ascii "`, // c" ++ [65279]%N ++ runes_of_ascii "
}")).
Eval vm_compute in ("<<<M2583>>>" ++ check (runes_of_ascii "packet A { x @lengthOf(y), }")).
Eval vm_compute in ("<<<M2837>>>" ++ check (runes_of_ascii "O" ++ [65533; 8; 1374; 65533; 65533; 65533]%N ++ runes_of_ascii "w" ++ [65533]%N ++ runes_of_ascii "I" ++ [65533; 65533; 65533; 65533]%N ++ runes_of_ascii "`1" ++ [65533]%N ++ runes_of_ascii "+" ++ [65533]%N ++ runes_of_ascii ">" ++ [65533; 1492; 23; 65533]%N ++ runes_of_ascii "<q" ++ [65533]%N)).
Eval vm_compute in ("<<<M2774>>>" ++ check (runes_of_ascii "#" ++ [65533; 28; 65533; 65533]%N ++ runes_of_ascii "P9	" ++ [65533; 8; 65533]%N ++ runes_of_ascii "z" ++ [65533; 65533]%N ++ runes_of_ascii "(," ++ [65533; 65533; 65533; 65533]%N ++ runes_of_ascii " " ++ [22; 65533; 65533; 19]%N ++ runes_of_ascii "C")).
Eval vm_compute in ("<<<M3389>>>" ++ check (runes_of_ascii "packet lengthOf { }
// c
")).
Eval vm_compute in ("<<<M3277>>>" ++ check (runes_of_ascii "options { u8x = // c
3 }")).
Eval vm_compute in ("<<<M3804>>>" ++ check (runes_of_ascii "packet
lengthOf  {}// c")).
Eval vm_compute in ("<<<M525>>>" ++ check (runes_of_ascii "packet rootA
{ //
}
")).
Eval vm_compute in ("<<<M731>>>" ++ check (runes_of_ascii "MetaData crc{//	t
}
")).
Eval vm_compute in ("<<<M2790>>>" ++ check ([65533; 65533; 65533]%N ++ runes_of_ascii "4" ++ [65533; 65533]%N ++ runes_of_ascii "(" ++ [65533]%N ++ runes_of_ascii "X" ++ [65533]%N ++ runes_of_ascii "fb" ++ [65533]%N ++ runes_of_ascii "4" ++ [65533]%N ++ runes_of_ascii "{" ++ [65533]%N ++ runes_of_ascii "E" ++ [65533]%N)).
Eval vm_compute in ("<<<M2801>>>" ++ check (runes_of_ascii "{ float32 : repeat")).
Eval vm_compute in ("<<<M3136>>>" ++ check (runes_of_ascii "packet A {
}
// c" ++ [65279]%N)).
Eval vm_compute in ("<<<M3079>>>" ++ check (runes_of_ascii "packet A {
}// c" ++ [5760]%N)).
Eval vm_compute in ("<<<M791>>>" ++ check (runes_of_ascii "
// @lengthOf(
")).
Eval vm_compute in ("<<<M290>>>" ++ check (runes_of_ascii "options{  }
")).
Eval vm_compute in ("<<<M3578>>>" ++ check (runes_of_ascii "options {
}")).
Eval vm_compute in ("<<<M2477>>>" ++ check (runes_of_ascii "@leftPad")).
Eval vm_compute in ("<<<M2440>>>" ++ check (runes_of_ascii "uint88")).
Eval vm_compute in ("<<<M2482>>>" ++ check (runes_of_ascii "@left")).
Eval vm_compute in ("<<<M643>>>" ++ check (runes_of_ascii "  

")).
Eval vm_compute in ("<<<M2452>>>" ++ check (runes_of_ascii "asx")).
Eval vm_compute in ("<<<M2438>>>" ++ check (runes_of_ascii "u8")).
Eval vm_compute in ("<<<M2671>>>" ++ check (runes_of_ascii "}")).
