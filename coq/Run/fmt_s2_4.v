From FP Require Import Lexer Parser ShowPT Digest Formatter.
From Coq Require Import String List NArith.
Import ListNotations.
Open Scope string_scope.
Set Printing Width 100000000.
Set Printing Depth 100000000.
Definition show_fres (r : fres) : string :=
  match r with
  | FOk s => "OK:" ++ sh_escaped s ""
  | FErr s => "ERR:" ++ sh_escaped s ""
  | FPanic p => "PANIC:" ++ p
  end.
Definition check (rs : list rune) : string := digest (show_fres (format_res rs)).
Definition full (rs : list rune) : string := show_fres (format_res rs).
Eval vm_compute in ("<<<M1450>>>" ++ check (runes_of_ascii "// top
options
    // c0
{ // c1
StringPrefixLenType
    // c2
= u32 // c4
; // c5a
  // c5b
ArrayPrefixLenType // c6
=
    // c7
u8 // c8
; // c9a
  // c9b
FixedStringPadFromLeft // c10a
  // c10b
= false // c12
; } packet // c15
Logon
    // c16
{ // c17
i8
    // c18
venue
    // c19
, // c20a
  // c20b
int16 f1
    // c22
,
    // c23
zchar[
    // c24
8
    // c25
] Acct
    // c27
, repeat // c29a
  // c29b
InNote16 { InQty73 // c32a
  // c32b
{
    // c33
float32
    // c34
tag7 ,
    // c36
} // c37
, // c38a
  // c38b
f32 // c39
Acct // c40
, // c41a
  // c41b
zchar[
    // c42
5 // c43
] // c44
sym // c45a
  // c45b
,
    // c46
} // c47
, uint16
    // c49
Side2 // c50a
  // c50b
, // c51a
  // c51b
i32 lastPx // c53a
  // c53b
, // c54
} // c55a
  // c55b
packet
    // c56
Fill // c57a
  // c57b
{ // c58
repeat // c59
InOrderid15 // c60
{ zchar[ 8 // c63
] // c64
sym // c65
, // c66a
  // c66b
repeat
    // c67
char[
    // c68
2 ] OrderId // c71
, repeat
    // c73
Logon
    // c74
,
    // c75
InQty82 // c76
{
    // c77
char[]
    // c78
Tail , repeat Logon // c82a
  // c82b
, float64
    // c84
price
    // c85
, f64
    // c87
Side2 // c88
, // c89a
  // c89b
}
    // c90
, char[ // c92
12 ] // c94a
  // c94b
venue // c95a
  // c95b
,
    // c96
char[ // c97
4
    // c98
] // c99
Px // c100
, // c101a
  // c101b
} ,
    // c103
@rightPad (
    // c105
'0' // c106a
  // c106b
)
    // c107
char[ // c108
2 // c109
]
    // c110
venue // c111a
  // c111b
, // c112
InPrice99 // c113a
  // c113b
{ // c114
InAcct72
    // c115
{ // c116
u8 pad0 // c118
,
    // c119
} // c120
,
    // c121
u32 // c122
OrderId // c123a
  // c123b
,
    // c124
Logon ,
    // c126
}
    // c127
, // c128
}
    // c129
root // c130a
  // c130b
packet // c131a
  // c131b
Reject
    // c132
{ zchar[ // c134a
  // c134b
9 ] msgKind // c137
, u32 // c139
venue
    // c140
, u16 // c142
seqNo // c143a
  // c143b
@lengthOf(
    // c144
Body ) // c146a
  // c146b
, // c147a
  // c147b
match // c148
venue // c149a
  // c149b
as Body
    // c151
{ // c152
57 :
    // c154
Fill // c155a
  // c155b
, // c156a
  // c156b
8
    // c157
: Logon , // c160
} , // c162
u16 Tail @calculatedFrom( ""CRC32""
    // c166
) // c167
, // c168a
  // c168b
} // c169
")).
Eval vm_compute in ("<<<M1724>>>" ++ check (runes_of_ascii "packet
	chars {
    i8
	Z9_ ,

    match 
      // " ++ [128512]%N ++ runes_of_ascii " emoji
  //	t
  zchar
    as
Logon
{ 
00 :i8i8
    [ 
""// no comment""
	, 42
    ,
    10,
    ""it's""
, 4294967296
, 
""`tick`"" ,
    ""x y""	,
	""a\""b""
]
:leftPad
[

""\" ++ [233]%N ++ runes_of_ascii """ ]

    :

A	[
""abc""/// triple
  	, 
""1""  ] : zchar 
,
3

    : x
,  3:

x_y_z  ,
	}	,

uint8x // a // b
@calculatedFrom(

    ""{,}"" )  //x

,}	// `tick` ""quote"" 'q'
packet
    calculatedFrom

{ int32
T	,@lengthOf(
float
) f32a	len

    ,@calculatedFrom( """ ++ [233]%N ++ runes_of_ascii "t" ++ [233]%N ++ runes_of_ascii """
) 
int32
f32a  @lengthOf(	// c

matchKey

    )
	`" ++ [233]%N ++ runes_of_ascii "`
    ,

charz
    @calculatedFrom(	""x y""

    )

,
	} root
	packet
stringy 	 //	t
    { @lengthOf( Logon
)int64
    len
        //x
    @calculatedFrom(// `tick` ""quote"" 'q'
		""CRC32""

) ,T 	 // " ++ [27880; 37322]%N ++ runes_of_ascii "
	  @calculatedFrom(

    ""1""
)	`line1
line2`
	,
@tag( 255
    )

@tag( 7

)  @tag(
007
    )
	repeat

    packetx
len 
	    //	t
	// packet A { u8 x, }

,
    @tag(
    1
)
	repeat	zchar[0
	]  float

,//
  	@lengthOf( lengthOf
	)	repeat x_y_z {
char[ 10
]
    u

    `
`
,

    MetaDataX a1
`u8 x,`	,
    }  ,	@tag( 1
)
string

repeatCount
`" ++ [28040; 24687; 31867; 22411]%N ++ runes_of_ascii "`
    ,
    int8 int @calculatedFrom( ""// no comment"" ),	} packet asx{  @leftPad	(

'\x00') char[
    00
]u8x@calculatedFrom(""" ++ [233]%N ++ runes_of_ascii "t" ++ [233]%N ++ runes_of_ascii """ ) , zchar[

007
	]
asx
    @calculatedFrom( 
""" ++ [128512]%N ++ runes_of_ascii """  ), repeat 
MetaDataX
metadata `
`

    , }
")).
Eval vm_compute in ("<<<M380>>>" ++ check (runes_of_ascii "options {
	StringPrefixLenType = u16;
	ArrayPrefixLenType = u16;
}

packet SampleBinary {
	uint16 MsgType `" ++ [28040; 24687; 31867; 22411]%N ++ runes_of_ascii "`,
	u16 BodyLenght @lengthOf(Body) `" ++ [28040; 24687; 20307; 38271; 24230]%N ++ runes_of_ascii "`,
	match MsgType as Body {
		1 : Logon,
		2 : Logout,
		3 : Heartbeat,
		4 : RiskControlRequest,
		5 : RiskControlResponse,
	},
		@calculatedFrom(""CRC32"")
	u32 Ckecksum `" ++ [26657; 39564; 21644]%N ++ runes_of_ascii "`,
}

packet Logon {
	 @leftPad('0')
	char[10] UserName `" ++ [29992; 25143; 21517]%N ++ runes_of_ascii "`,
	string Password `" ++ [23494; 30721]%N ++ runes_of_ascii "`,
	uint64 ClientId `" ++ [23458; 25143; 31471]%N ++ runes_of_ascii "ID`,
	u16 HeartbeatInterval `" ++ [24515; 36339; 38388; 38548]%N ++ runes_of_ascii "`,
}

packet Logout {
	  @rightPad('0')
	char[10] UserName `" ++ [29992; 25143; 21517]%N ++ runes_of_ascii "`,
	uint64 ClientId `" ++ [23458; 25143; 31471]%N ++ runes_of_ascii "ID`,
}

packet Heartbeat {
}

packet RiskControlRequest {
	string UniqueOrderId `" ++ [21807; 19968; 35746; 21333; 21495]%N ++ runes_of_ascii "`,
	char[16] ClOrdID `" ++ [23458; 25143; 35746; 21333; 21495]%N ++ runes_of_ascii "`,
	char[3] MarketID `" ++ [24066; 22330]%N ++ runes_of_ascii "id`,
	char[12] SecurityID `" ++ [35777; 21048; 20195; 30721]%N ++ runes_of_ascii "`,
	char Side `" ++ [20080; 21334; 26041; 21521]%N ++ runes_of_ascii "`,
	char OrderType `" ++ [35746; 21333; 31867; 22411]%N ++ runes_of_ascii "`,
	u64 Price `" ++ [20215; 26684]%N ++ runes_of_ascii "`,
	u32 Qty `" ++ [25968; 37327]%N ++ runes_of_ascii "`,
	repeat string ExtraInfo `" ++ [38468; 21152; 20449; 24687]%N ++ runes_of_ascii "`,
	repeat SubOrder {
			char[16] ClOrdID `" ++ [23376; 35746; 21333; 21495]%N ++ runes_of_ascii "`,
			u64 Price `" ++ [23376; 35746; 21333; 20215; 26684]%N ++ runes_of_ascii "`,
			u32 Qty `" ++ [23376; 35746; 21333; 25968; 37327]%N ++ runes_of_ascii "`,
		},
}

packet RiskControlResponse {
	string UniqueOrderId `" ++ [21807; 19968; 35746; 21333; 21495]%N ++ runes_of_ascii "`,
	i32 Status `" ++ [29366; 24577]%N ++ runes_of_ascii "`,
	string Msg `" ++ [32467; 26524; 20449; 24687]%N ++ runes_of_ascii "`,
	repeat Detail,
}

packet Detail {
	string RuleName `" ++ [35268; 21017; 21517; 31216]%N ++ runes_of_ascii "`,
	u16 Code `" ++ [21407; 22240; 20195; 30721]%N ++ runes_of_ascii "`,
}")).
Eval vm_compute in ("<<<M1465>>>" ++ check (runes_of_ascii "options {
    StringPrefixLenType = u8;
    ArrayPrefixLenType = u32;
    FixedStringPadFromLeft = false;
    FixedStringPadChar = ' ';
}
packet Party {
    repeat i16 Qty,
    repeat string Tail,
    i8 OrderId,
    i8 msgKind,
}
packet Ack {
    Party,
    repeat InRef20 {
        Party,
        int8 tag7,
        char[5] OrderId,
        zchar[7] Tail,
        char[] count,
        InPrice45 {
            Party,
            char[1] Px,
        },
    },
    char[12] price,
    int8 sym,
}
packet Reject {
    repeat InPrice47 {
        Party,
    },
    zchar[4] x,
    repeat Ack,
    zchar[2] Ref,
    repeat Party,
}
packet Cancel {
    Reject,
    repeat string f1,
    uint16 OrderId,
    u8 Acct,
    int8 msgKind,
}
root packet Fill {
    u8 count,
    char[] tag7,
    zchar[7] Acct,
    u32 OrderId,
    u32 Note @lengthOf(Body),
    match OrderId as Body {
        106 : Cancel,
        196 : Reject,
        74 : Party,
        75 : Ack,
    },
}
")).
Eval vm_compute in ("<<<M1475>>>" ++ check (runes_of_ascii "// top
options // c0
{
    // c1
LittleEndian
    // c2
= // c3
true // c4
;
    // c5
} // c6a
  // c6b
packet Logon { u8 // c10a
  // c10b
x
    // c11
, // c12
} packet Logout
    // c15
{ // c16a
  // c16b
u16 reason // c18
,
    // c19
}
    // c20
root // c21a
  // c21b
packet // c22a
  // c22b
Frame // c23
{ i32
    // c25
Kind ,
    // c27
i32 // c28a
  // c28b
Kind2 // c29
, // c30
match // c31
Kind
    // c32
as // c33a
  // c33b
Body
    // c34
{ 1 // c36a
  // c36b
:
    // c37
Logon // c38
, // c39
[ 2 // c41a
  // c41b
, // c42a
  // c42b
3 // c43
, // c44
4
    // c45
]
    // c46
:
    // c47
Logout // c48
,
    // c49
100 // c50a
  // c50b
:
    // c51
Logon , // c53a
  // c53b
} // c54
, // c55
match // c56
Kind2 as
    // c58
Trailer
    // c59
{ // c60
0 // c61
: // c62
Logout // c63
,
    // c64
} , } ")).
Eval vm_compute in ("<<<M1998>>>" ++ check (runes_of_ascii "packet chars {
}// c

packet len {
    repeat char[] Foo,
    @rightPad('0')
    zchar[007] a1 `say ""hi""`,
    repeat BodyLength leftPad,
}

root packet u8x {
    f64 lengthOf @calculatedFrom(""CRC32""),
    string zchar @lengthOf(int) `crlf
    line`,
    int calculatedFrom,
    @lengthOf(As)
    match falsey as asx {
        65535 : _x,
        [1] : u,
        007 : uint8x,
        00 : f32a,
        """ ++ [233]%N ++ runes_of_ascii "t" ++ [233]%N ++ runes_of_ascii """ : Packet,
        [42, ""a\""b""] : len,
    },
    @lengthOf(stringy)
    @calculatedFrom(""1"")
    repeat A {
        char[] lengthOf `it's`,
    },
    _x `" ++ [28040; 24687; 31867; 22411]%N ++ runes_of_ascii "`,
    @leftPad('0')
    match Foo as crc {
        10 : trueish,
        42 : Pad,
        [4294967296, ""// no comment"", ""{,}""] : float,
    },
    @lengthOf(u8x)
    a1 @calculatedFrom(""\" ++ [233]%N ++ runes_of_ascii """),
}")).
Eval vm_compute in ("<<<M39>>>" ++ check (runes_of_ascii "  options
    {string_
    //x
    =char[ 7 ] ;} options { crc=float64 ; Logon
    = false // a // b
As
    =
    '0' f32a =
char[] ; // packet A { u8 x, }
T =
00	}	root
packet x { @calculatedFrom(
""1"" )repeat zchar[
    255
] // " ++ [128512]%N ++ runes_of_ascii " emoji
string_ , } root packet int {	@tag(4294967296) char[255 // packet A { u8 x, }
]
a1
    ,repeat
x ``, char[]  packetx
@lengthOf( uint8x ) `u8 x,` , zchar[ 10 ]leftPad @calculatedFrom( ""a	b"" )
, lengthOf @calculatedFrom( """"	) , @calculatedFrom(
    /// triple
    ""packet"" )
    i32 matchKey , @rightPad (
) zchar[ 1
] A, u32
Packet @calculatedFrom( ""{,}"" ) `a\`	,// c
repeat char[00]Header	`say ""hi""`
    //x
    , stringy	trueish `// not a comment`, } 	 ")).
Eval vm_compute in ("<<<M2010>>>" ++ check (runes_of_ascii "packet
    i64_{
    }
    packet
	crc 
{
} options
    {  } root	packet	charz
	{

} packet//
  trueish
{
repeat char[

    255

    ] lengthOf

`" ++ [28040; 24687; 31867; 22411]%N ++ runes_of_ascii "` ,
zchar[

//	t
	  /// triple
    	00	// a // b

]
	x
`it's`,	/// triple

	repeat char[] 
// `tick` ""quote"" 'q'
  Packet
`say ""hi""` 
,@calculatedFrom(""x y"" // " ++ [27880; 37322]%N ++ runes_of_ascii "

	) char[	1
	]
lengthOf	,
    lengthOf `crlf
line`,match charz
as  MetaDataX

{ ""a	b""

    // " ++ [27880; 37322]%N ++ runes_of_ascii "
// `tick` ""quote"" 'q'
:  uint8x
""\n"" :

calculatedFrom } 
,  @tag(
10  ) float64
	i8i8 @calculatedFrom(  """ ++ [128512]%N ++ runes_of_ascii """
) `say ""hi""`,

    @rightPad
	( '\x00'  ) i32

Foo `it's` ,
	} ")).
Eval vm_compute in ("<<<M1422>>>" ++ check (runes_of_ascii "packet u128
    // c1
{ // c2
u8 // c3a
  // c3b
a , // c5a
  // c5b
} // c6
root
    // c7
packet
    // c8
Msg // c9a
  // c9b
{ // c10
u8 // c11
k
    // c12
, // c13
u24 // c14a
  // c14b
{ // c15
u8 Hi
    // c17
, // c18a
  // c18b
u16
    // c19
Lo
    // c20
, // c21
} , // c23a
  // c23b
repeat // c24a
  // c24b
i24 // c25
{
    // c26
u32
    // c27
q
    // c28
,
    // c29
} , u128 // c32
,
    // c33
u16
    // c34
float32x // c35a
  // c35b
, string // c37
s , // c39a
  // c39b
} ")).
Eval vm_compute in ("<<<M373>>>" ++ check (runes_of_ascii "root	packet chars
{ falsey , uint64 f32a @lengthOf( lengthOf
) , // c
}MetaData T{ char[] As ,
} // trailing space 
packet
tag {
    i64
    Foo @lengthOf(
    a1 ),@calculatedFrom(""" ++ [128512]%N ++ runes_of_ascii """ ) @leftPad ( '\x00'// " ++ [128512]%N ++ runes_of_ascii " emoji
)
    // a // b
    @leftPad('\x00')
repeat Foo MetaDataX , } root
packet body {
repeat u64
    MetaDataX `u8 x,` ,
@rightPad
    (
    ' ' )
charz	@lengthOf(matchKey ) ,	@calculatedFrom(
""""
    )len @lengthOf(tag )
, }
")).
Eval vm_compute in ("<<<M1509>>>" ++ check (runes_of_ascii "options {
    len = 255
    tag = """ ++ [233]%N ++ runes_of_ascii "t" ++ [233]%N ++ runes_of_ascii """
}

packet packetx {
}

options {
    repeatCount = '\x00';
    x = 4294967296
    len = false;
    A = false;
    Packet = """";
}

MetaData x {
    //
    // `tick` ""quote"" 'q'
    uint32 roots,
    lengthOf o `
    `,
    u32 x_y_z `line1
    line2`,
    int64 msg_type `crlf
    line`,
    string repeatCount `line1
    line2`,
    u128 stringy,
}")).
Eval vm_compute in ("<<<M320>>>" ++ check (runes_of_ascii "packet Pad { int16 charz `` ,
    @calculatedFrom(""a\""b"" // `tick` ""quote"" 'q'
)
    @tag(	1  )
    zchar[ //	t
4294967296
    // packet A { u8 x, }
    ] A, @rightPad () chars , // " ++ [27880; 37322]%N ++ runes_of_ascii "
uint8x { zchar[
0  ] // @lengthOf(
zchar // " ++ [27880; 37322]%N ++ runes_of_ascii "
`tab	here`
, msg_type f32a ,u8 roots@calculatedFrom(""x y""  ) `crlf
line`, /// triple
As rootA
// " ++ [27880; 37322]%N ++ runes_of_ascii "
//
, } , }
")).
Eval vm_compute in ("<<<M1205>>>" ++ check (runes_of_ascii "// top
packet // c0a
  // c0b
o // c1
{ // c2a
  // c2b
@tag( // c3a
  // c3b
42 // c4a
  // c4b
)
    // c5
repeat
    // c6
x { char[ // c9a
  // c9b
0123456789 // c10
] // c11a
  // c11b
i64_ // c12a
  // c12b
,
    // c13
} ,
    // c15
} options // c17a
  // c17b
{ // c18a
  // c18b
} // c19a
  // c19b
")).
Eval vm_compute in ("<<<M1820>>>" ++ check (runes_of_ascii "
root packet rootA { @leftPad

(
'\x00' 	 // `tick` ""quote"" 'q'
	)@lengthOf( crc )	@lengthOf(
	string_
    )
    uint16
    Z9_ `
` 
,

    @lengthOf(
	Z9_  ) 
char[ 4294967296

    ]
zchar`say ""hi""` ,  u
    ,
match 
int as

stringy

    {	3
    :
body	,
    } 
, }
")).
Eval vm_compute in ("<<<M1125>>>" ++ check (runes_of_ascii "// top
packet // c0
Logon // c1
{ // c2
@tag( // c3
42 // c4
) // c5
@rightPad // c6
( // c7
' ' // c8
) // c9
@leftPad // c10
( // c11
) // c12
repeat // c13
trueish // c14
{ // c15
string // c16
T // c17
, // c18
} // c19
, // c20
} // c21
")).
Eval vm_compute in ("<<<M544>>>" ++ check (runes_of_ascii "options
{
matchKey = 42/// triple
x='0' ;
// packet A { u8 x, }
//
charz
=
// packet A { u8 x, }
// trailing space 
true  ; } MetaData BodyLength
{
uint8
pack,zchar[ 1]float ,  float32 x_y_z `` ,u32
_x options i16 body  , }
")).
Eval vm_compute in ("<<<M409>>>" ++ check (runes_of_ascii "options
{
matchKey = match/// triple
x='0' ;
// packet A { u8 x, }
//
charz
=
// packet A { u8 x, }
// trailing space 
true  ; } MetaData BodyLength
{
uint8
pack,zchar[ 1]float ,  float32 x_y_z `` ,u32
_x,i16 body  , }
")).
Eval vm_compute in ("<<<M580>>>" ++ check (runes_of_ascii "options
{
matchKey = 42/// triple
x='0' ;
// packet A { u8 x, }
//
charz
=
// packet A { u8 x, }
// trailing space 
true  ; } MetaData BodyLength
{
uint8
pack,zchar[ 1]float ,  float32 x_y_z `` ,u32
_x,i16 " ++ [127]%N ++ runes_of_ascii " body  , }
")).
Eval vm_compute in ("<<<M438>>>" ++ check (runes_of_ascii "options
{
matchKey = 42/// triple
x='0' ;
// packet A { u8 x, }
//
charz
true
// packet A { u8 x, }
// trailing space 
=  ; } MetaData BodyLength
{
uint8
pack,zchar[ 1]float ,  float32 x_y_z `` ,u32
_x,i16 body  , }
")).
Eval vm_compute in ("<<<M446>>>" ++ check (runes_of_ascii "options
{
matchKey = 42/// triple
x='0' ;
// packet A { u8 x, }
//
charz
=
// packet A { u8 x, }
// trailing space 
true   } MetaData BodyLength
{
uint8
pack,zchar[ 1]float ,  float32 x_y_z `` ,u32
_x,i16 body  , }
")).
Eval vm_compute in ("<<<M501>>>" ++ check (runes_of_ascii "options
{
matchKey = 42/// triple
x='0' ;
// packet A { u8 x, }
//
charz
=
// packet A { u8 x, }
// trailing space 
true  ; } MetaData BodyLength
{
uint8
pack,zchar[ 1] ,  float32 x_y_z `` ,u32
_x,i16 body  , }
")).
Eval vm_compute in ("<<<M1395>>>" ++ check (runes_of_ascii "packet orderItem
    // c1
{ // c2
u8 // c3a
  // c3b
a
    // c4
,
    // c5
} root packet // c8
newOrder // c9a
  // c9b
{
    // c10
orderItem // c11a
  // c11b
, // c12
u8
    // c13
x // c14
, } ")).
Eval vm_compute in ("<<<M1421>>>" ++ check (runes_of_ascii "packet u128 {
    u8 a,
}
root packet Msg {
    u8 k,
    u24 {
        u8 Hi,
        u16 Lo,
    },
    repeat i24 {
        u32 q,
    },
    u128,
    u16 float32x,
    string s,
}
")).
Eval vm_compute in ("<<<M665>>>" ++ check (runes_of_ascii "// c
packet i64_ char[]	{ calculatedFrom , } packet
trueish  {@calculatedFrom(
""a\\"" ) o { i32 falsey@lengthOf( uint8x ),
} , } // `tick` ""quote"" 'q'
options {// c
Z9_ = ' '//
}
")).
Eval vm_compute in ("<<<M351>>>" ++ check (runes_of_ascii "root packet
stringy { charz T// " ++ [128512]%N ++ runes_of_ascii " emoji
`u8 x,` ,	char tag , uint64 u128 ,}
options { x
=
    '0' // `tick` ""quote"" 'q'
rootA =""CRC32"" ; // " ++ [27880; 37322]%N ++ runes_of_ascii "
i64_=""a\\"" ; } options{
}
// " ++ [27880; 37322]%N ++ runes_of_ascii "
")).
Eval vm_compute in ("<<<M374>>>" ++ check (runes_of_ascii "
packet
// " ++ [27880; 37322]%N ++ runes_of_ascii "
// c
MetaDataX
{ repeat repeatCount i64_ , T `crlf
line`,	}packet As
    {
    @tag( 10
) @lengthOf(
    u8x
//
// @lengthOf(
) zchar[ 7 ] Foo , }
")).
Eval vm_compute in ("<<<M1609>>>" ++ check (runes_of_ascii "packet A {
    match k as n {
        [
            ""a"", ""bb"", 007, ""d"", ""e"",
            66, ""g"", ""h"", 9, ""j""
        ] : B,
        2 : C,
    },
}")).
Eval vm_compute in ("<<<M249>>>" ++ check (runes_of_ascii "
options {
Header
    // a // b
    =
false float
=
""abc"" ;
i64_  = false ;}options // " ++ [128512]%N ++ runes_of_ascii " emoji
{
//
//x
repeatCount
    =
    ""a\\"";
}
//
")).
Eval vm_compute in ("<<<M1624>>>" ++ check (runes_of_ascii "  packet

    Logon  {@tag( 42  )	@rightPad 
(

    ' ')@leftPad

(

)
repeat

    trueish
	{	string  T  // c
    , } 
, 
}

")).
Eval vm_compute in ("<<<M617>>>" ++ check (runes_of_ascii "MetaData
    // trailing space 
    matchKey
{ u64 chars // a // b
,char[] char[] lengthOf `// not a comment`
    , //	t
}")).
Eval vm_compute in ("<<<M2016>>>" ++ check (runes_of_ascii "
MetaData
Packet
	{  u128
u128  `say ""hi""`
    ,

// @lengthOf(
  	zchar 
len
,Pad  T	`say ""hi""` 	 // " ++ [128512]%N ++ runes_of_ascii " emoji
	,  }

")).
Eval vm_compute in ("<<<M1696>>>" ++ check (runes_of_ascii "packet orderItem {
    // c2
    u8 a,
    // c5
}

root packet newOrder {
    // c10
    orderItem,// c12
    u8 x,
}")).
Eval vm_compute in ("<<<M254>>>" ++ check (runes_of_ascii "options { i8i8= char[]
    ; } packet
MetaDataX{ @calculatedFrom( ""x y"" )int32 T `" ++ [28040; 24687; 31867; 22411]%N ++ runes_of_ascii "` ,
    f64 matchKey
    , }")).
Eval vm_compute in ("<<<M616>>>" ++ check (runes_of_ascii "MetaData
    // trailing space 
    matchKey
{ u64 chars // a // b
, lengthOf `// not a comment`
    , //	t
}")).
Eval vm_compute in ("<<<M910>>>" ++ check (runes_of_ascii "packet A {
  match k as n {
    [""a"", 22, ""c c"", 4, ""e"", 66, ""g"", 8, ""i"", 10, ""k"", 12] : B
    2 : C
  },
}")).
Eval vm_compute in ("<<<M1251>>>" ++ check (runes_of_ascii "// c
packet calculatedFrom { @tag( 4294967296 ) u msg_type , char[ 3 ] crc @lengthOf( len ) `u8 x,` , }")).
Eval vm_compute in ("<<<M1284>>>" ++ check (runes_of_ascii "packet calculatedFrom { @tag( 4294967296 ) u msg_type , char[ 3 ] crc @lengthOf( len )
// c
`u8 x,` , }")).
Eval vm_compute in ("<<<M229>>>" ++ check (runes_of_ascii "packet x_y_z { char[
    // packet A { u8 x, }
    42 ] A @calculatedFrom( ""`tick`"" ) `it's` , }

")).
Eval vm_compute in ("<<<M1130>>>" ++ check (runes_of_ascii "packet // c
Logon { @tag( 42 ) @rightPad ( ' ' ) @leftPad ( ) repeat trueish { string T , } , }")).
Eval vm_compute in ("<<<M1162>>>" ++ check (runes_of_ascii "packet Logon { @tag( 42 ) @rightPad ( ' ' ) @leftPad ( ) repeat trueish { string // c
T , } , }")).
Eval vm_compute in ("<<<M1813>>>" ++ check (runes_of_ascii "
packet

    As

{ match  repeatCount 
as metadata {	007  :	//x
  crc , ""a	b""

:  A}, }
")).
Eval vm_compute in ("<<<M878>>>" ++ check (runes_of_ascii "packet A {
  match k as n {
    [1, 22, 007, 4, 5, 66, 7, 8, 9, 10] : B
    2 : C
  },
}")).
Eval vm_compute in ("<<<M1340>>>" ++ check (runes_of_ascii "
packet	Inner	{u8 a
,
}
	root
    packet 
P

    { 
Inner 
ref_obj
,
u8

x , 
}
")).
Eval vm_compute in ("<<<M1213>>>" ++ check (runes_of_ascii "packet o {
// c
@tag( 42 ) repeat x { char[ 0123456789 ] i64_ , } , } options { }")).
Eval vm_compute in ("<<<M1245>>>" ++ check (runes_of_ascii "packet o { @tag( 42 ) repeat x { char[ 0123456789 ] i64_ , } , } options {
// c
}")).
Eval vm_compute in ("<<<M818>>>" ++ check (runes_of_ascii "packet A {
  match k as n {
    [""a"", 22, ""c c"", 4, ""e""] : B,
    2 : C
  },
}")).
Eval vm_compute in ("<<<M763>>>" ++ check (runes_of_ascii "= true ""packet"" u16 10 zchar[ ] uint64 char packet u32 packet uint64 uint8")).
Eval vm_compute in ("<<<M813>>>" ++ check (runes_of_ascii "packet A {
  match k as n {
    [1, 22, 007, 4, 5] : B
    2 : C
  },
}")).
Eval vm_compute in ("<<<M1558>>>" ++ check (runes_of_ascii "options{
	Z9_
    =
	""" ++ [233]%N ++ runes_of_ascii "t" ++ [233]%N ++ runes_of_ascii """ ; rootA=
    string ;}// trailing space 
 
")).
Eval vm_compute in ("<<<M779>>>" ++ check (runes_of_ascii "packet A {
  match k as n {
    [""a"", ""bb""] : B,
    2 : C
  },
}")).
Eval vm_compute in ("<<<M953>>>" ++ check (runes_of_ascii "packet A {
    B b `
x`,
    B `
x`,
    repeat B bs `
x`,
}")).
Eval vm_compute in ("<<<M29>>>" ++ check (runes_of_ascii "packet chars// packet A { u8 x, }
{} packet u {
}
//	t
")).
Eval vm_compute in ("<<<M1950>>>" ++ check (runes_of_ascii "options {
    a = ""\
    "";
    b = ""\
    ""
}")).
Eval vm_compute in ("<<<M1105>>>" ++ check (runes_of_ascii "MetaData
// c
zchar { zchar[ 3 ] Pad , }")).
Eval vm_compute in ("<<<M1074>>>" ++ check (runes_of_ascii "MetaData M {
}// c
MetaData N {
}// d")).
Eval vm_compute in ("<<<M330>>>" ++ check (runes_of_ascii "packet Logon
    { }packet _x{}
")).
Eval vm_compute in ("<<<M992>>>" ++ check (runes_of_ascii "packet A {
 u8 x `d" ++ [133]%N ++ runes_of_ascii "`, // c" ++ [133]%N ++ runes_of_ascii "
}")).
Eval vm_compute in ("<<<M952>>>" ++ check (runes_of_ascii "packet A {
    u8 x `
x`,
}")).
Eval vm_compute in ("<<<M1193>>>" ++ check (runes_of_ascii "options { u8x = 3 // c
}")).
Eval vm_compute in ("<<<M764>>>" ++ check ([65533; 65533; 65533]%N ++ runes_of_ascii "L" ++ [919]%N ++ runes_of_ascii "p" ++ [403; 65533; 6; 65533; 65533; 65533; 65533]%N ++ runes_of_ascii "l" ++ [65533; 12; 19]%N ++ runes_of_ascii "$" ++ [65533; 65533]%N)).
Eval vm_compute in ("<<<M1011>>>" ++ check (runes_of_ascii "// c" ++ [8232]%N ++ runes_of_ascii "
packet A {
}")).
Eval vm_compute in ("<<<M998>>>" ++ check (runes_of_ascii "packet A {
}// c" ++ [8192]%N)).
Eval vm_compute in ("<<<M151>>>" ++ check (runes_of_ascii "options { }")).
Eval vm_compute in ("<<<M1029>>>" ++ check (runes_of_ascii "// c" ++ [11]%N)).
