From FP Require Import Lexer Parser ShowPT Digest Formatter.
From Coq Require Import String List NArith.
Import ListNotations.
Open Scope string_scope.
Set Printing Width 100000000.
Set Printing Depth 100000000.
Definition show_fres (r : fres) : string :=
  match r with
  | FOk s => "OK:" ++ sh_escaped s ""
  | FErr s => "ERR:" ++ sh_escaped s ""
  | FPanic p => "PANIC:" ++ p
  end.
Definition check (rs : list rune) : string := digest (show_fres (format_res rs)).
Definition full (rs : list rune) : string := show_fres (format_res rs).
Eval vm_compute in ("<<<M3728>>>" ++ check (runes_of_ascii "// top
  options	// c0
  { 
    // c1
	LittleEndian =// c3a

// c3b
  false 
// c4
    	; 	 // c5a
	  // c5b
StringPrefixLenType// c6
      = // c7a
	// c7b
  u16
// c8
  	; 	 // c9a

// c9b

ArrayPrefixLenType

    =// c11
    u16  // c12a
  // c12b
;
        // c13
	FixedStringPadFromLeft  
  // c14
    	=  // c15a
      // c15b
      false; FixedStringPadChar 	 // c18a
  	// c18b
  =
' ' 
      // c20
;  // c21a
    // c21b
}  // c22
      packet // c23a
  // c23b

  Heartbeat// c24
  	{ // c25a

  // c25b
    	i32 
    // c26
  f1
, // c28
    } packet	Cancel  // c31a
  // c31b
	{char[]Note
,	// c35a
	  // c35b

}
    packet 	 // c37a
  // c37b
Fill// c38a
// c38b
	{	// c39
    u32  price 
, 
	    // c42

  float64
Ref	, // c45
  zchar[ // c46
	8

    ]  
  // c48
	  tag7  // c49a
  	// c49b
	,	// c50
    repeat  
  // c51

	Cancel,  
      // c53
	int64	// c54
  Acct 	 // c55a
	  // c55b
	, 	 // c56a

// c56b
    } // c57
  packet  Quote { // c60a
  // c60b
    @rightPad// c61a

	// c61b

(// c62
  	'0'// c63
  )
char[ 	 // c65a
    // c65b
		12]	// c67
  count
,  char[]
// c70
seqNo // c71
	  ,// c72
} 	 // c73
root 
    // c74
	packet 	 // c75
    	Party
// c76

	{  // c77a
	// c77b
	Fill
	    // c78
    	,  
  // c79
  InMsgkind30{ 
repeat u16 // c83
		Ref
	, 

    // c85
repeat InCount61  // c87
	{
repeat	i8// c90
    sym  
  // c91

,
	// c92
    	char[]
    // c93
	Ref

    // c94

,
    repeat 	 // c96a
  	// c96b
char[// c97
    4 
  // c98
    	]
    Qty 	 // c100
	,	// c101

repeat	// c102a
    // c102b
    Heartbeat
	    // c103

  ,
}
    , 
// c106
  u32 	 // c107a
    // c107b
venue ,  
  // c109
	  uint16 Flags  // c111

,

// c112
	}  ,

    u8 
      // c115
    	Px 	 // c116a
    // c116b
  ,// c117
  repeat	// c118

u16// c119a
// c119b

  Side2 	 // c120a

// c120b
	  ,  // c121a
  // c121b
  @rightPad	(
    // c123
	'0'	// c124a
// c124b
  )	// c125a
  	// c125b
char[

    // c126
  	10 

// c127
    ]  // c128
    Qty // c129a
    // c129b
	,@rightPad	( '\x00'
)	// c134a

	// c134b

  char[ 
    // c135
  1  // c136

]
    // c137

	clOrdID// c138a
	// c138b
      ,

    // c139
	u8  // c140a
    // c140b
    Tail	// c141a
		// c141b
    ,
match // c143a
  // c143b
  	Tail
	as// c145a
  // c145b
  Body 
	    // c146
      {  // c147
  	[ 	 // c148

159// c149a
		// c149b
, 
// c150
  182 // c151
	] :

    Quote

, // c155
  	155// c156

  :
    // c157
		Heartbeat// c158
    	, 
	// c159
	178 // c160a
  // c160b
		: // c161a
  // c161b
Fill 
	// c162
      ,  49:
	Cancel	// c166a

// c166b
,	// c167a
  	// c167b
	} ,	// c169a
  // c169b
	u16  // c170a
  // c170b
    	Ref 
    // c171

@calculatedFrom( // c172a
  // c172b

  ""CRC32""
// c173
  )// c174a
	// c174b
  ,

} // c176
 
")).
Eval vm_compute in ("<<<M4198>>>" ++ check (runes_of_ascii "packet uint8x { @lengthOf(
	lengthOf
    )

@lengthOf(

roots )repeat i64_

crc ``
,
	@lengthOf(  BodyLength

    )
repeat

    charz

    { packetx

{
	match	// 50% %s
  u128 as  crc // trailing space 
      { ""it's""

: options1,
1 
    // @lengthOf(
	:asx
    ,  }
    ,	//x
	  zchar[ 
3	]float @calculatedFrom(
	""packet"" )
`it's` ,match  x_y_z as  tag  {
	0
	: repeatCount

,  }  , }  , 
repeat string options1	,
char[ 65535  ] 
stringy
    , char[]
    f32a
@lengthOf(
o

)  `line1
line2`, } , @calculatedFrom(
    ""CRC32"")	/// triple
  rootA

`" ++ [28040; 24687; 31867; 22411]%N ++ runes_of_ascii "`

,
@tag( 1)
zchar calculatedFrom

    , int 

// c
	  // trailing space 
{Logon`// not a comment`	,

    u 
Z9_`crlf
line`	, char[ 
/// triple
  // packet A { u8 x, }
007 ] a1 `a\`
,	char[]

options1,

},
	@lengthOf(
	matchKey// " ++ [128512]%N ++ runes_of_ascii " emoji
)Logon
@calculatedFrom(""{,}"")`{ , }`

    ,

    u128
    body
`two words` ,
    } MetaData
matchKey{/// triple
  int32
    _x 
,  } packet

u8x	{match
len as
calculatedFrom

    {
[""// no comment"",  ""CRC32""
// @lengthOf(

// " ++ [128512]%N ++ runes_of_ascii " emoji

  ] : rootA
	,
    65535
	: 
// packet A { u8 x, }
  	crc
    , 007 : // c
	  zchar,
	4294967296	:
metadata
// packet A { u8 x, }
    ,},
    @calculatedFrom(
    ""CRC32""
)

    repeat
    //	t
	// 50% %s
  char[ 007]	As
    ,

@calculatedFrom(

    ""\" ++ [233]%N ++ runes_of_ascii """)i16  u128`a\` , repeat
u8x{
    repeat
len

zchar,
BodyLength calculatedFrom

    , }
	, 
@calculatedFrom(	"""")A @calculatedFrom(""1""  
      // a // b
  )
	`100% of %d` 
, }
packet

    o { 

    //	t
    @calculatedFrom(""CRC32"") string
    // `tick` ""quote"" 'q'
	  body
	@lengthOf(int
    )

`line1
line2`
,u64 
      // " ++ [128512]%N ++ runes_of_ascii " emoji
crc
    `
`
    ,  BodyLength
@lengthOf(Header
    ) 
,

tag

    @lengthOf(matchKey )
, char[	255 ]

repeatCount

    `doc`
,
@lengthOf(Logon
	)
string 
A 
@calculatedFrom(

    """ ++ [128512]%N ++ runes_of_ascii """
)

`it's`
	,  a1 
Foo
	    /// triple
  , //

} 
options  {T	=
false
} 	 //")).
Eval vm_compute in ("<<<M3734>>>" ++ check (runes_of_ascii "packet Foo {
    calculatedFrom @calculatedFrom(""\n"") `// not a comment`,
    repeat char[] uint8x `" ++ [28040; 24687; 31867; 22411]%N ++ runes_of_ascii "`,
    options1 @calculatedFrom(""it's""),
    int64 a1,
    @tag(00)
    match lengthOf as int {
        ""a\""b"" : msg_type,
    },
    @lengthOf(stringy)
    metadata @calculatedFrom(""" ++ [233]%N ++ runes_of_ascii "t" ++ [233]%N ++ runes_of_ascii """),
    repeat zchar {
        char[255] u8x,
        repeat zchar,
        match f32a as pack {
            ""// no comment"" : a1,
        },
    },
}// @lengthOf(

root packet Packet {
}

packet float {
    @calculatedFrom(""" ++ [233]%N ++ runes_of_ascii "t" ++ [233]%N ++ runes_of_ascii """)
    x_y_z,
    char[3] x_y_z @calculatedFrom(""a\\"") `" ++ [28040; 24687; 31867; 22411]%N ++ runes_of_ascii "`,
    @tag(10)
    u16 Header @lengthOf(zchar) `crlf
    line`,
    @lengthOf(charz)
    repeat trueish {
        metadata @lengthOf(falsey),
        repeat char[] uint8x `tab	here`,
        int64 rootA `" ++ [233]%N ++ runes_of_ascii "`,
        repeat crc {
            match i8i8 as T {
                [""// no comment"", ""CRC32"", """ ++ [28040; 24687]%N ++ runes_of_ascii """] : zchar,
                [4294967296] : BodyLength,
                ""\n"" : _x,
                4294967296 : BodyLength,
            },
            body `" ++ [233]%N ++ runes_of_ascii "`,
            repeat metadata zchar,
            repeat f32 crc `// not a comment`,
        },
    },// 50% %s
    @leftPad()
    char[] Pad `" ++ [28040; 24687; 31867; 22411]%N ++ runes_of_ascii "`,
    repeat calculatedFrom BodyLength,
    match _x as int {
        ""{,}"" : trueish,
        42 : x_y_z,
        [7] : tag,
    },
    @leftPad()
    u8x {
        repeat char[42] matchKey,
        char[65535] len @lengthOf(roots),
        crc,
        char[0123456789] len @lengthOf(leftPad),
    },
    //
    repeat int64 calculatedFrom `" ++ [28040; 24687; 31867; 22411]%N ++ runes_of_ascii "`,
    repeat repeatCount rootA,
}

packet a1 {
    /// triple
}")).
Eval vm_compute in ("<<<M3662>>>" ++ check (runes_of_ascii "
packet 
tag
{
stringy	@calculatedFrom( 
""a\\"") ``  // trailing space 
	,
	@calculatedFrom(""" ++ [128512]%N ++ runes_of_ascii """) 
zchar[
	007] uint8x

,
zchar[ 255 ] 
matchKey ,@leftPad	(
'\x00'

)

char[] tag

    `{ , }`	,match
    len

    as

    stringy
{
    ""\" ++ [233]%N ++ runes_of_ascii """:
	calculatedFrom 
        //
	,} , 
Packet  @lengthOf(i64_ ), /// triple
	repeat

uint16	leftPad
`" ++ [233]%N ++ runes_of_ascii "`
    , } 
    /// triple
  	// 50% %s
root packet	a1 
{
repeat 
T  
      // @lengthOf(

// 50% %s
	  options1 `{ , }`
, @lengthOf(

    x_y_z
	)	@calculatedFrom(
""// no comment""
)
    @tag(

007
) lengthOf

{

    zchar[ 10 ] 
Pad
	`{ , }`
, chars 
{	repeat char[ 
4294967296  ]  int
    ,
string
    repeatCount
,

char[]stringy @lengthOf( repeatCount)
, o 
, }
	,uint8
	roots 
@lengthOf( uint8x 
) , 
} ,asx

    `100% of %d` ,
	repeat 
repeatCount
``

    , 
@rightPad(
) 
@calculatedFrom(  
      //
	  ""a\\"" )
    @lengthOf(  u128 ) repeat  asx
	_x`// not a comment`
	,  @lengthOf( Foo 
)char[
    1
]trueish 	 // @lengthOf(
@lengthOf( _x 
),
    @tag(	3 ) char[]  chars 
// trailing space 
	  // " ++ [27880; 37322]%N ++ runes_of_ascii "
	@lengthOf(
options1 ) ,
@calculatedFrom(
""// no comment"" 
        // @lengthOf(
	) 
Pad	uint8x //	t
    `crlf
line`
, 
@tag(
	007
)repeat Packet
Pad 
,
@tag( 
7 )	repeat int32
    MetaDataX

`// not a comment`,

    } MetaData Z9_	{ 
    // c
  uint32
int	`a\`
,	char[]  repeatCount
, _x
	falsey
`tab	here`, }")).
Eval vm_compute in ("<<<M4387>>>" ++ check (runes_of_ascii "packet

    int
{  falsey {  repeat Header{ As
    roots
    `100% of %d` // a // b
    , // trailing space 
		tag
	x_y_z `line1
line2` ,match

zchar	as repeatCount

    {

    ""abc"" :_x ,

    } 
,//x
		}
,
repeatCount @lengthOf(
    charz ),
    repeat	char[]

calculatedFrom 
    // @lengthOf(

`// not a comment` , }	, 

    // " ++ [128512]%N ++ runes_of_ascii " emoji
char

pack 
	// " ++ [27880; 37322]%N ++ runes_of_ascii "
	`" ++ [233]%N ++ runes_of_ascii "`

,repeat
int8
u128	,x
	i8i8

,
	@tag(
007
    )
	char[ 1

    ]//	t
  	uint8x
,
	@lengthOf(
	roots
	)
repeat
pack	trueish,repeat
u8x
stringy, 
options1
    { match uint8x  as T

    {
	""" ++ [128512]%N ++ runes_of_ascii """

:crc  ""a\""b"" :

u8x ,

    },
zchar[ 7 
]BodyLength
, } ,
    @tag( 4294967296
//	t
  )@rightPad(

    )  
  // `tick` ""quote"" 'q'
    u128 `line1
line2`

,
	}
root packet// @lengthOf(
  	f32a	{  @leftPad 
  /// triple
  (  )
match
i8i8 as 
options1  { 	 // `tick` ""quote"" 'q'
    """" 	 // trailing space 
    	: u8x	,} ,	@tag(
	1

)
	repeatCount
@calculatedFrom( ""a\""b""
    )  ,  @lengthOf(

MetaDataX

    ) @leftPad
(

    )
charz repeatCount

`a\`

    ,  calculatedFrom{	BodyLength

@calculatedFrom(	""a\\""	// c
    ),}
	, @lengthOf(  zchar )
	zchar[	00 // " ++ [27880; 37322]%N ++ runes_of_ascii "
  ]len
	// 50% %s
  	// 50% %s

`line1
line2` 
// " ++ [128512]%N ++ runes_of_ascii " emoji
    // a // b
,@tag(
	1
)
	i64 charz 
,
	}")).
Eval vm_compute in ("<<<M4495>>>" ++ check (runes_of_ascii "options {
    charz = f64;
}

packet int {
    match x_y_z as int {
        [""a\""b"", 3, """ ++ [128512]%N ++ runes_of_ascii """] : Foo,
        ""\" ++ [233]%N ++ runes_of_ascii """ : pack,
        ""a	b"" : body,
        255 : pack,
        65535 : float,
        // packet A { u8 x, }
        // 50% %s
        [""" ++ [128512]%N ++ runes_of_ascii """, """"] : leftPad,
    },
    u16 T @calculatedFrom(""\n""),
    @tag(42)
    repeat int {
        repeat u8 len,
        char[00] options1 `crlf
        line`,
    },
    repeat i64 charz,
    @leftPad('0')
    @lengthOf(Header)
    repeat pack MetaDataX,
    @leftPad(' ')
    @lengthOf(float)
    @tag(65535)
    repeat int16 a1,
    repeat int {
        match repeatCount as zchar {
            """ ++ [233]%N ++ runes_of_ascii "t" ++ [233]%N ++ runes_of_ascii """ : u8x,
            0 : charz,
            [7] : chars,
            [
                ""a\""b"", 3, 3, """", ""a\""b"",
                ""it's"", 7, 007
            ] : msg_type,
            //	t
        },
        char[255] As @calculatedFrom(""1""),
    },
}

packet pack {
    falsey x,
    @tag(10)
    string i8i8 @lengthOf(pack),
    @leftPad('0')
    repeat pack `crlf
    line`,
    @calculatedFrom(""" ++ [128512]%N ++ runes_of_ascii """)
    @rightPad()
    i8i8 @calculatedFrom(""`tick`""),
}

options {
    charz = '\x00'
    uint8x = '\x00';
    As = '0'
}")).
Eval vm_compute in ("<<<M1157>>>" ++ check (runes_of_ascii "packet  trueish{ u16 trueish , @calculatedFrom(
    ""abc"" )f64 MetaDataX @calculatedFrom( ""\" ++ [233]%N ++ runes_of_ascii """ //	t
),  match
    len // " ++ [27880; 37322]%N ++ runes_of_ascii "
as
Logon{ 65535: string_
    ,
    """ ++ [233]%N ++ runes_of_ascii "t" ++ [233]%N ++ runes_of_ascii """
// 50% %s
//	t
: // `tick` ""quote"" 'q'
u128 ,
    [007 , 0123456789
// a // b
//
]:
string_
    }
,@lengthOf( string_ )int8 repeatCount	, @leftPad ( //
) roots x
    // a // b
    , string //	t
chars
`crlf
line`,
u	u128 ,
@calculatedFrom( ""`tick`""
)	u16 asx @lengthOf( // trailing space 
i8i8) ,	string
//	t
// 50% %s
leftPad `doc`	,  f32
falsey , }options {stringy =
""1""
    // trailing space 
    ; float = // a // b
i64
; calculatedFrom = ""it's""// a // b
;
Z9_= ""// no comment"" // trailing space 
; }packet	Pad{// @lengthOf(
leftPad repeatCount`a\` ,
zchar[ 0 ]
chars , }
packet charz { match As as Header  { 42:As ,} , @calculatedFrom(
""\" ++ [233]%N ++ runes_of_ascii """ // 50% %s
)
//x
// packet A { u8 x, }
@tag( 42) @rightPad ( '0' )repeat Packet x , body	asx , //x
float64 MetaDataX
//	t
// c
, body
    //x
    stringy ,
    match Header as uint8x {
    ""x y"": i8i8 255
    /// triple
    : trueish, """ ++ [28040; 24687]%N ++ runes_of_ascii """ : rootA , ""packet"" :trueish, } ,
}
")).
Eval vm_compute in ("<<<M783>>>" ++ check (runes_of_ascii "  packet Logon
{ i64_, }packet falsey
    {repeat uint32  x, @calculatedFrom( """ ++ [128512]%N ++ runes_of_ascii """ )  repeat
    i64 rootA , @tag( 1
) u64 Header`
` ,	@rightPad
    (
    // " ++ [128512]%N ++ runes_of_ascii " emoji
    ' ' ) i8  crc @lengthOf( lengthOf)
,
//x
// trailing space 
match MetaDataX
as u128 {1  :
    u ,	""x y""
:// c
u, 255
:i64_""x y"" :falsey ,
    [ ""1""
    , 1 ]:
    repeatCount ,	} , @calculatedFrom(
    """") metadata@calculatedFrom(
""\n"" )`u8 x,` , } options {Logon
// a // b
//	t
=// packet A { u8 x, }
char[] ;
}
root packet  options1 {  int16 BodyLength , @tag(  3
) tag	repeatCount `
`
, @calculatedFrom(
/// triple
// 50% %s
""x y""
    )
    zchar[ 0123456789
]
crc `
`
,
match // packet A { u8 x, }
A
as
    trueish {""\n"" :	zchar }  ,x@lengthOf(o) , @leftPad
( '\x00'  ) int8 asx
`" ++ [233]%N ++ runes_of_ascii "`	, i8 rootA //x
,string
    //	t
    int
@lengthOf( stringy ) , char[] Foo
    `" ++ [233]%N ++ runes_of_ascii "`//
, match int as repeatCount { 0123456789
: f32a 00 : // c
asx 1 :Z9_,
""1""// packet A { u8 x, }
:
// packet A { u8 x, }
// " ++ [128512]%N ++ runes_of_ascii " emoji
charz//	t
7 :i64_ [
0123456789
,""a\\"" ]: o ,	}	,}")).
Eval vm_compute in ("<<<M227>>>" ++ check (runes_of_ascii "root
packet i8i8
    {  @tag(1 )char[ 3 ] i8i8, @lengthOf( T
) uint16 Packet,
    chars @lengthOf( int ) , @tag(
    4294967296 )
x ,	repeat zchar[ /// triple
00
    ] metadata,@calculatedFrom(
""" ++ [28040; 24687]%N ++ runes_of_ascii """
) u64 string_ `crlf
line` , char[
    0123456789]	falsey
@lengthOf(Logon )
, @tag( 0)leftPad packetx, @calculatedFrom(""`tick`"") u
{ i64_@calculatedFrom( ""// no comment""	)
    `// not a comment` ,repeat rootA { float32 options1 ,repeat u8x roots , // @lengthOf(
int16  charz//	t
`crlf
line` , zchar[ 7
] Logon
,} , char[]
Z9_ `
` , }, repeat Pad
lengthOf
,} packet x {	} // c
MetaData BodyLength {int16 stringy `u8 x,`
    ,uint8 lengthOf , Foo
zchar ,body lengthOf `100% of %d`// packet A { u8 x, }
, body options1 // @lengthOf(
`a\`,char[ 1] int`doc`,
// `tick` ""quote"" 'q'
//
} packet packetx {
i8
a1
@lengthOf(
Z9_
// trailing space 
// @lengthOf(
), zchar[ 1 ] Pad @calculatedFrom( ""CRC32""
) , } options{
pack
=
// @lengthOf(
//x
int16 ;} // " ++ [128512]%N ++ runes_of_ascii " emoji")).
Eval vm_compute in ("<<<M4352>>>" ++ check (runes_of_ascii "options {u8x = '0'  ;

stringy 
=
    ""x y""  lengthOf
= true//
      ; //x
  _x 
= 007 
	    // trailing space 
  	//
  A
    =
    '0'
; }
    root

    packet
stringy{	repeat uint16
len
    `tab	here`	,@tag(	7	) @calculatedFrom( 
""" ++ [28040; 24687]%N ++ runes_of_ascii """	) i16
    // @lengthOf(
// " ++ [128512]%N ++ runes_of_ascii " emoji
  msg_type
    `
` ,	// a // b
		repeat repeatCount// trailing space 
{

    repeat
pack // trailing space 
msg_type

`tab	here`,
match
    repeatCount as  // trailing space 

	_x
{	""`tick`""

: trueish,  [
	""\n""
, 65535 ,

255

    ,""abc""
    , 0123456789
]  :

// c

  // " ++ [27880; 37322]%N ++ runes_of_ascii "
  options1 	 // c

, },  } 
,  @rightPad 	 // @lengthOf(
    ( ' '
	)  f64 
Z9_

    , int32 BodyLength	// c
	`two words`,

@calculatedFrom( ""a\\""

    )char[
    255
]  // `tick` ""quote"" 'q'
  lengthOf  , f64
Foo
,
	char[
    1 ]	// c

	Z9_ , 
repeat 
roots  // packet A { u8 x, }
    uint8x , }

packet
    Header  /// triple
      { }

")).
Eval vm_compute in ("<<<M3545>>>" ++ check (runes_of_ascii "options {
    LittleEndian = true;
    StringPrefixLenType = u32;
    ArrayPrefixLenType = u16;
}
packet Party {
    repeat char[1] seqNo,
    char[] Qty,
    zchar[2] tag7,
}
packet Logon {
    Party,
    char[] msgKind,
    repeat char[3] OrderId,
}
root packet Reject {
    zchar[5] lastPx,
    InFlags86 {
        Party,
        string OrderId,
        repeat InFlags75 {
            repeat string Side2,
            uint8 Flags,
            zchar[8] Ref,
            repeat char[4] Tail,
            repeat char[1] price,
        },
    },
    InMsgkind60 {
        repeat string lastPx,
        u32 msgKind,
        zchar[9] tag7,
        zchar[1] seqNo,
        u64 OrderId,
    },
    zchar[6] Note,
    repeat InF148 {
        char[7] sym,
    },
    zchar[9] clOrdID,
    u8 Ref,
    match Ref as Body {
        [81, 118] : Party,
        104 : Logon,
    },
}
")).
Eval vm_compute in ("<<<M667>>>" ++ check (runes_of_ascii "//x
packet
    // c
    roots { } options
// " ++ [128512]%N ++ runes_of_ascii " emoji
// @lengthOf(
{
Header =
    zchar[ 4294967296
] ;
    crc	=""a\\""
//x
// packet A { u8 x, }
; o =
    // " ++ [128512]%N ++ runes_of_ascii " emoji
    ""a	b"" } root// @lengthOf(
packet Header// `tick` ""quote"" 'q'
{ charz , repeat Logon { repeat o
`doc`
, repeatCount {
    matchKey {
match Pad as lengthOf{  4294967296
/// triple
// trailing space 
: //	t
repeatCount , 3 : leftPad } ,
Z9_ @calculatedFrom( """ ++ [233]%N ++ runes_of_ascii "t" ++ [233]%N ++ runes_of_ascii """ )
`two words`
    ,
    match
msg_type as
    Logon{	3 :options1 }, repeat i64_ // 50% %s
tag`line1
line2`
, }
    , }
,
// " ++ [128512]%N ++ runes_of_ascii " emoji
// a // b
i64 //	t
f32a `two words` , u @lengthOf( matchKey )// 50% %s
`a\`	, } ,int8
    // packet A { u8 x, }
    packetx
    ,
    // packet A { u8 x, }
    }	MetaData i64_{
uint16 body ,}options
{ u8x = 1; len = char[007 ] ; _x
//x
// a // b
= """ ++ [128512]%N ++ runes_of_ascii """ } // " ++ [27880; 37322]%N)).
Eval vm_compute in ("<<<M3900>>>" ++ check (runes_of_ascii "  packet 	 //x
	  matchKey{ @lengthOf(

    u8x  ) 
    // 50% %s
  //
	  packetx  @calculatedFrom(
    ""1"")

    ,
repeat

    string MetaDataX  ,
}	root packet Foo 
{  @lengthOf( As	) x  charz ,  }packet a1
    //x
	  // packet A { u8 x, }

{
	match 
Packet// 50% %s
	  as
    Packet
{ ""it's""
: 
zchar ,

    }

,

    @tag( 255

)@calculatedFrom( ""packet"") 
u32
	repeatCount
// trailing space 
,  string  stringy

`it's`
, f64	a1 ``, 
  //	t
// " ++ [27880; 37322]%N ++ runes_of_ascii "
    i64
trueish

,

repeat
float{

    int32 charz	@lengthOf(
falsey // `tick` ""quote"" 'q'
		) 
`100% of %d`
    , }

    ,

repeat
f64 	 // " ++ [128512]%N ++ runes_of_ascii " emoji
    x

,uint32 
body
	,
}root packet	rootA
    {
match  //	t

	Z9_
    as
rootA

    { ""{,}""
	: As """ ++ [233]%N ++ runes_of_ascii "t" ++ [233]%N ++ runes_of_ascii """:
i64_
1
	: 
charz ""\" ++ [233]%N ++ runes_of_ascii """
	: pack  , // trailing space 
} , 
}")).
Eval vm_compute in ("<<<M4376>>>" ++ check (runes_of_ascii "
packet tag {@rightPad  (
)
repeat
    options1 T	`a\`,@calculatedFrom(
""it's""

    )/// triple
float64 
// packet A { u8 x, }

	// `tick` ""quote"" 'q'
  float  `100% of %d` , @rightPad	(

'0'
    )
Foo	//	t
    repeatCount , 	 // a // b
	  repeat

    float

    pack

    `line1
line2` 

    // packet A { u8 x, }
	,	// a // b
	@leftPad
    (  )
match
Foo

as 
    //x
  // " ++ [128512]%N ++ runes_of_ascii " emoji

MetaDataX	// 50% %s
    	{ 
// " ++ [128512]%N ++ runes_of_ascii " emoji
	""" ++ [233]%N ++ runes_of_ascii "t" ++ [233]%N ++ runes_of_ascii """	: f32a, 00 :

roots
	,  [ ""a\\""]:	BodyLength

}  ,
    int16 
	    // " ++ [128512]%N ++ runes_of_ascii " emoji
//	t
	body , /// triple

match
    // `tick` ""quote"" 'q'
roots
as Z9_
{  65535  //	t
  :
tag
	, [	""it's"" ,255
    ]

    :  // `tick` ""quote"" 'q'
Foo }

, // @lengthOf(

leftPad`{ , }`

    ,

f64
	chars

    `a\`
,
}

")).
Eval vm_compute in ("<<<M4084>>>" ++ check (runes_of_ascii "
options

{
	}
	options 
{ A
	=
	' '
; } options	{
        // trailing space 
	chars	= ' ' 
    // c
    // packet A { u8 x, }
i64_= 
  //x
	' '

    chars	= string
} // 50% %s
packet 
msg_type	{ int32 leftPad
    `say ""hi""` ,
@rightPad
(
    ' '
)
@lengthOf( o  // @lengthOf(

)
@calculatedFrom(
	""abc"" )
f64 
zchar
@calculatedFrom(  ""it's""

)
`crlf
line`,leftPad
    {
    match stringy
    as

    f32a{[ 7 ,
    3  ,42

,	""" ++ [128512]%N ++ runes_of_ascii """
    ,
""{,}"" 
]	: f32a ,4294967296:
int 	 // trailing space 

  ,
	1
:string_  ,  } , match matchKey as i8i8

{
[ 	 //
	1,
""`tick`"" ] :
u8x 
,
	007 
: 	 // `tick` ""quote"" 'q'

_x 
, [ 
0123456789 
]

:
    _x  // c
,}

,},

f64
Pad
@lengthOf(

    trueish
)

    ,
} ")).
Eval vm_compute in ("<<<M3874>>>" ++ check (runes_of_ascii "root
    packet 	 //x
    matchKey

{	// " ++ [27880; 37322]%N ++ runes_of_ascii "
	}
	root	packet 
string_  {

    Z9_  {
	zchar[ 1
]
	Packet //x
  ,f64
    x

@calculatedFrom( 
  // trailing space 
    //	t
    	""a	b"" // 50% %s
    )
	`" ++ [233]%N ++ runes_of_ascii "`
, }
, } MetaData  int
{  uint32
x
`doc` ,

    }
MetaData
    MetaDataX{

    uint32

    calculatedFrom

    `a\`, f64	calculatedFrom `" ++ [28040; 24687; 31867; 22411]%N ++ runes_of_ascii "`

    , u16

    Foo, lengthOf	metadata  ,
    char[65535

    ]

    matchKey 
    // `tick` ""quote"" 'q'
  ,
//
	//x
  char[
    7 ]
charz`// not a comment`,
	} 
options

    { zchar
    =""x y""; 
repeatCount 
    /// triple
		// @lengthOf(
	=
false
    lengthOf =
    007  // packet A { u8 x, }
	  ; 
}
")).
Eval vm_compute in ("<<<M4266>>>" ++ check (runes_of_ascii "

  // a // b
	packet
Pad{ char

uint8x@lengthOf(Z9_	)
,
    @tag(
42	)
@calculatedFrom(

    ""it's"")
	@leftPad
	(	'\x00'
	)
float

    @lengthOf(
int)
, char[//x
	1
]

MetaDataX @calculatedFrom(
    ""packet"" // trailing space 
  )  `100% of %d` , string

o
@calculatedFrom(
""" ++ [128512]%N ++ runes_of_ascii """//
    	)	// trailing space 

  ,	int64 asx
@calculatedFrom(""CRC32""	)
,

}
	MetaData 
Logon{
char[42]
    rootA
    `say ""hi""`, int32
a1 ,

    repeatCount options1 ,  char[] BodyLength

,
	Foo
	x,
    char[

00

    ]
repeatCount
, 
} 
options
{

    pack
	=""" ++ [128512]%N ++ runes_of_ascii """ pack =42 ;  //
  options1=

    ""it's"" u
= u16 
// c
;
float  =

string	} 
    // @lengthOf(
")).
Eval vm_compute in ("<<<M4409>>>" ++ check (runes_of_ascii "
// " ++ [27880; 37322]%N ++ runes_of_ascii "

  root  packet
calculatedFrom  {

    metadata

    ,  @calculatedFrom( /// triple
    ""\n""  ) string
i8i8  `say ""hi""`
,float64	/// triple
  roots

`two words` ,match 
a1
as

    float
	{[42	] 
: options1  """"
    :
	msg_type , [ ""x y"" , 4294967296	,  00
,  ""abc"", """ ++ [233]%N ++ runes_of_ascii "t" ++ [233]%N ++ runes_of_ascii """	]
:  Logon

,
}

    ,}
packet leftPad
{

    @leftPad (

)match A as u  { ""packet""	:  a1  ,// packet A { u8 x, }
}
    ,stringy{ 
match
o as

    int {	[// " ++ [128512]%N ++ runes_of_ascii " emoji
	00
    , 
4294967296,  ""it's"" ,1 	 // trailing space 
  , 3	, 
"""" ]
: 
A	007
    :// c
    uint8x
    , }
,
a1 f32a, } ,asx
        // packet A { u8 x, }
	As

,}")).
Eval vm_compute in ("<<<M3896>>>" ++ check (runes_of_ascii "

  packet
    Z9_  // c1
	{	// c2a
	// c2b
  	repeat 
        // c3
  int8 T 	 // c5a
  	// c5b
,  // c6
  	}	// c7a
  // c7b
	options

    { f32a =
        // c11
    	i16
	// c12
  	Packet 
    // c13

=' ' MetaDataX 	 // c16
	  =

""it's"" 	 // c18a
// c18b

;// c19a

	// c19b
    a1
	    // c20
  =

    // c21
  	""" ++ [233]%N ++ runes_of_ascii "t" ++ [233]%N ++ runes_of_ascii """
// c22

	;  // c23
	MetaDataX
=	// c25a
	// c25b

	""// no comment""// c26a
// c26b
}  // c27a

	// c27b
		MetaData
    matchKey	// c29
  {	// c30
    	zchar[// c31
1  // c32a
	// c32b
  ]// c33a
	// c33b
		MetaDataX	// c34a

// c34b
,} 	 // c36a
// c36b")).
Eval vm_compute in ("<<<M4009>>>" ++ check (runes_of_ascii "  packet

body

    { repeat
    msg_type{
len 	 //x
		`" ++ [233]%N ++ runes_of_ascii "`

,  roots@calculatedFrom(

// a // b
  ""// no comment""
)

    `it's`, match
    o as u
{
3:int
    }
	,
u32
	msg_type

    `doc`

, // `tick` ""quote"" 'q'

  }
    , repeat
zchar[ 4294967296

] asx 
`u8 x,`
,
	    // " ++ [27880; 37322]%N ++ runes_of_ascii "
	//x
    char[] As
@calculatedFrom(
""" ++ [28040; 24687]%N ++ runes_of_ascii """
)
,// a // b
  zchar[007
	]  metadata
    `tab	here`
, int16
As
	,} 
packet  Pad

{

A
	{zchar[ 10

    ]	As  @calculatedFrom( ""a\""b""  )  ,  // 50% %s
    repeat

u8

    o  ,
}
    , } packet rootA 
{
repeat  _x

msg_type, }
")).
Eval vm_compute in ("<<<M1392>>>" ++ check (runes_of_ascii "
options// packet A { u8 x, }
{ }
root	packet	x { }
packet tag { } packet
Logon {
    @rightPad (	)
    zchar[00 ] u8x
@calculatedFrom( ""it's""
// `tick` ""quote"" 'q'
// @lengthOf(
)`it's` ,// `tick` ""quote"" 'q'
zchar[ 4294967296
    ]//x
trueish @calculatedFrom( ""it's"")
    `tab	here`
, // @lengthOf(
@calculatedFrom( ""\" ++ [233]%N ++ runes_of_ascii """) @calculatedFrom( """ ++ [233]%N ++ runes_of_ascii "t" ++ [233]%N ++ runes_of_ascii """ ) u32
options1 `" ++ [233]%N ++ runes_of_ascii "` ,
    @tag( 7 ) msg_type @lengthOf(stringy
// a // b
// " ++ [27880; 37322]%N ++ runes_of_ascii "
)
    ,
    char[ 007] asx `two words` ,//
@lengthOf( T ) @rightPad ( '\x00' )
    o	chars,  } root packet asx  { }
")).
Eval vm_compute in ("<<<M602>>>" ++ check (runes_of_ascii "MetaData
    MetaDataX {int8
calculatedFrom,i8i8 leftPad , float32
    // " ++ [128512]%N ++ runes_of_ascii " emoji
    leftPad
    , char[] f32a ,// packet A { u8 x, }
repeatCount f32a
, len As
    ,  } packet	i64_ { @lengthOf( Header ) @rightPad	( )
    @tag( 255 )	match
    msg_type
as o { ""`tick`"": u8x	, 4294967296 :	x_y_z""{,}"": x_y_z,
//	t
// a // b
007 : float ""it's"" :
    pack	, 0123456789: len , } ,}
packet
    BodyLength {BodyLength// packet A { u8 x, }
@calculatedFrom( ""x y""	) ,@tag(
    0
    )repeat uint16 // packet A { u8 x, }
options1
    , }
")).
Eval vm_compute in ("<<<M3433>>>" ++ check (runes_of_ascii "packet Z9_ // c1
{ // c2a
  // c2b
repeat
    // c3
int8 T // c5a
  // c5b
, // c6
} // c7a
  // c7b
options { f32a =
    // c11
i16
    // c12
Packet
    // c13
= ' ' MetaDataX // c16
= ""it's"" // c18a
  // c18b
; // c19a
  // c19b
a1
    // c20
=
    // c21
""" ++ [233]%N ++ runes_of_ascii "t" ++ [233]%N ++ runes_of_ascii """
    // c22
; // c23
MetaDataX = // c25a
  // c25b
""// no comment"" // c26a
  // c26b
} // c27a
  // c27b
MetaData matchKey // c29
{ // c30
zchar[ // c31
1 // c32a
  // c32b
] // c33a
  // c33b
MetaDataX // c34a
  // c34b
, } // c36a
  // c36b
")).
Eval vm_compute in ("<<<M199>>>" ++ check (runes_of_ascii "// " ++ [128512]%N ++ runes_of_ascii " emoji
packet x {@tag(
42
    )@tag( 42 )
@rightPad // c
() int16 uint8x, int32 float,  Header Header
,@lengthOf(  float
    //	t
    ) repeat string calculatedFrom `two words` ,
    }MetaData
    body { } packet
A {
@tag( 0123456789 ) match
Logon
as trueish
    {
    0123456789	:float [
/// triple
//	t
255,
    ""a\\""
    ]
    // a // b
    : charz ,
    // a // b
    [
""CRC32"" ,
""CRC32""
    ] : Packet , 4294967296 :Logon, [ 1 ]	: chars
    // " ++ [27880; 37322]%N ++ runes_of_ascii "
    ,	} //x
,//x
}
")).
Eval vm_compute in ("<<<M4420>>>" ++ check (runes_of_ascii "options{	a1 = 00 
}
	root
packet roots
{zchar[65535	]
    T
`tab	here`

    , 	 // @lengthOf(
uint8

repeatCount	, 
@lengthOf(
	chars )
@calculatedFrom(	""\" ++ [233]%N ++ runes_of_ascii """)
match 	 //
roots
    as MetaDataX
{	""""
: Z9_ 
,}
	,	} 
MetaData  repeatCount	// @lengthOf(
{

    string
_x
    , zchar[ 0

]body
    ,float64 
Pad`" ++ [233]%N ++ runes_of_ascii "`

,  
      // 50% %s
    // c
}packet // " ++ [27880; 37322]%N ++ runes_of_ascii "
    a1  {
u32
    Z9_	, }	packet 
x_y_z	{
	repeat

    packetx

`// not a comment`,

}
")).
Eval vm_compute in ("<<<M925>>>" ++ check (runes_of_ascii "packet o { len `line1
line2`,
// " ++ [128512]%N ++ runes_of_ascii " emoji
// packet A { u8 x, }
match// `tick` ""quote"" 'q'
MetaDataX
    // a // b
    as MetaDataX {""CRC32"" :	matchKey
// c
// @lengthOf(
, },
} MetaData crc // c
{ calculatedFrom
metadata , int32 msg_type ,}
    MetaData len{char[0
    ]Pad
`u8 x,` ,	} packet MetaDataX { } MetaData	tag	{ char[	3
] matchKey  , Pad
BodyLength , uint64 leftPad`a\` ,
f64
uint8x`tab	here`
    ,crc
calculatedFrom
`" ++ [233]%N ++ runes_of_ascii "` , }
")).
Eval vm_compute in ("<<<M652>>>" ++ check (runes_of_ascii "packet
    /// triple
    leftPad {
    stringy
    @calculatedFrom(	""\" ++ [233]%N ++ runes_of_ascii """
) `say ""hi""`
,
    @rightPad ( '0'
)
    @tag( 4294967296)
    lengthOf@calculatedFrom( ""a	b"" ) ,
// packet A { u8 x, }
//	t
repeat i32
trueish //	t
`line1
line2`
,
    // `tick` ""quote"" 'q'
    } // " ++ [27880; 37322]%N ++ runes_of_ascii "
packet zchar {repeat
// a // b
// 50% %s
string x ,
}
    options // `tick` ""quote"" 'q'
{ u8x = 0; A = ""x y"" roots =
char ;
    packetx = false ;}
")).
Eval vm_compute in ("<<<M4182>>>" ++ check (runes_of_ascii "packet Frame {
    u8 HK,
    u8 BK,
    u8 TK,
    match HK as Hdr {
        1 : HdrA,
        2 : HdrB,
    },
    match BK as Body {
        1 : BodyA,
        2 : BodyB,
    },
    match TK as Trl {
        1 : TrlA,
    },
}

packet HdrA {
    u8 a,
}

packet HdrB {
    u16 b,
}

packet BodyA {
    u32 c,
}

packet BodyB {
    u64 d,
}

packet TrlA {
    u8 e,
}

root packet Msg {
    Frame,
    u8 x,
}")).
Eval vm_compute in ("<<<M1250>>>" ++ check (runes_of_ascii "packet tag { @rightPad
    ( ' '
    // packet A { u8 x, }
    )	zchar  packetx
    ,
    // packet A { u8 x, }
    repeat
asx{ zchar[ 10
    // trailing space 
    ]
Header ``  ,
}
,	string_ x_y_z , // @lengthOf(
@tag( 7)@leftPad( )float64 metadata`
`
,
    @lengthOf(Foo) Packet
matchKey `{ , }`
, repeat falsey, Foo u
`// not a comment`
,
int32 BodyLength@calculatedFrom(""\" ++ [233]%N ++ runes_of_ascii """	)`it's`
,
}")).
Eval vm_compute in ("<<<M3465>>>" ++ check (runes_of_ascii "// top
options // c0
{ LittleEndian = // c3
true // c4a
  // c4b
; // c5a
  // c5b
} packet B // c8a
  // c8b
{ u8
    // c10
a
    // c11
, // c12
string s // c14
, // c15
} // c16
root // c17a
  // c17b
packet // c18
P // c19
{ // c20
u16 // c21a
  // c21b
L
    // c22
@lengthOf( // c23
B // c24
) , // c26a
  // c26b
B // c27a
  // c27b
, // c28
u8 // c29a
  // c29b
t , } ")).
Eval vm_compute in ("<<<M158>>>" ++ check (runes_of_ascii "
root packet u8x { } packet	a1
    { uint8 len //	t
`u8 x,`,	@lengthOf(	uint8x // c
)
repeat uint16	_x ,@tag(
007
//
//x
)// @lengthOf(
match  tag as roots  {
65535: leftPad
,""packet""
    // a // b
    : x
, [	255 , ""abc"" , ""a	b"" , 00 , 1 ,// trailing space 
""" ++ [233]%N ++ runes_of_ascii "t" ++ [233]%N ++ runes_of_ascii """
    ,
""" ++ [233]%N ++ runes_of_ascii "t" ++ [233]%N ++ runes_of_ascii """ , ""1""
    ] : Z9_,""{,}""
:
f32a	3 : stringy	, """ ++ [28040; 24687]%N ++ runes_of_ascii """
    :
options1 , } //	t
, } // c")).
Eval vm_compute in ("<<<M730>>>" ++ check (runes_of_ascii "
options { Foo	=
    /// triple
    int16
    ;trueish
    = ""a\""b"" }options{
stringy// a // b
=
    true ;	} packet BodyLength  { lengthOf{  repeat i8 asx ``
    ,char[ 0123456789 ]
    charz @calculatedFrom(
    ""it's""
    )/// triple
`" ++ [233]%N ++ runes_of_ascii "`, crc repeatCount`" ++ [233]%N ++ runes_of_ascii "` , match Pad as calculatedFrom
    //x
    { // @lengthOf(
42
    : a1 ,
    } , } , }
")).
Eval vm_compute in ("<<<M4118>>>" ++ check (runes_of_ascii "root packet _x {
    match x_y_z as o {
        [0, 65535] : stringy,
        ""{,}"" : string_,
    },
}

MetaData x_y_z {
    BodyLength u8x `line1
    line2`,
}

packet chars {
    @tag(3)
    f64 options1 `// not a comment`,
    string tag @lengthOf(BodyLength),
    @tag(42)
    @tag(0)
    @tag(65535)
    zchar[10] u128 `" ++ [28040; 24687; 31867; 22411]%N ++ runes_of_ascii "`,
}")).
Eval vm_compute in ("<<<M4330>>>" ++ check (runes_of_ascii "root packet o {
    @tag(65535)
    // c
    rootA @calculatedFrom(""a	b"") `two words`,
    // a // b
}

// a // b
root packet Foo {
    @lengthOf(x_y_z)
    @tag(0123456789)
    //x
    @calculatedFrom(""" ++ [128512]%N ++ runes_of_ascii """)
    i8i8,
    f32 int,
    @calculatedFrom(""it's"")
    i64 MetaDataX @calculatedFrom(""x y"") ``,
}

packet zchar {
}")).
Eval vm_compute in ("<<<M537>>>" ++ check (runes_of_ascii "  root packet A  { @lengthOf(
float
)
roots	, char[ 4294967296
    ]
Z9_
    `100% of %d` , matchKey// @lengthOf(
{repeat char[] // trailing space 
repeatCount	`" ++ [28040; 24687; 31867; 22411]%N ++ runes_of_ascii "`
,} , i8
    // trailing space 
    Header @lengthOf(u128 )
// a // b
//	t
, char[] roots
    // a // b
    , } root packet string_
{
} //	t")).
Eval vm_compute in ("<<<M4545>>>" ++ check (runes_of_ascii "MetaData BodyLength {
    pack i64_ `a\`,
    body a1,
    int64 Pad,
    f64 Z9_,
    string falsey `
    `,
    charz u,
    // `tick` ""quote"" 'q'
}

options {
    stringy = i32;
}

root packet x {
}

MetaData A {
    i32 i8i8,
    asx int,
    msg_type int,
    // " ++ [128512]%N ++ runes_of_ascii " emoji
    string uint8x,
}")).
Eval vm_compute in ("<<<M714>>>" ++ check (runes_of_ascii "options{ Z9_ =  ""`tick`""	;zchar	= char[ 10]	} MetaData matchKey{ MetaDataX //x
zchar,
    /// triple
    charz
chars`crlf
line`, metadata BodyLength	`it's`
    // " ++ [128512]%N ++ runes_of_ascii " emoji
    , int16 zchar`line1
line2` // packet A { u8 x, }
, int64
_x `say ""hi""` ,	char[
    7	]	packetx /// triple
,}
")).
Eval vm_compute in ("<<<M277>>>" ++ check (runes_of_ascii "// @lengthOf(
options
    {
} packet roots { } root
packet charz{ @leftPad( /// triple
'\x00' ) char[4294967296 ]falsey
@lengthOf( rootA )
    //	t
    `it's`	,	@rightPad //	t
( ) // " ++ [128512]%N ++ runes_of_ascii " emoji
@lengthOf(
    tag ) @tag(
65535)  int64 x_y_z
    /// triple
    @lengthOf( T
    ),}
")).
Eval vm_compute in ("<<<M1937>>>" ++ check (runes_of_ascii "packet	packetx { // trailing space 
x_y_z
{
string
charz ,
string x// @lengthOf(
`two words`
    ,  u8x { // `tick` ""quote"" 'q'
charz `100% of %d` // packet A { u8 x, }
,}// " ++ [27880; 37322]%N ++ runes_of_ascii "
, ,} , }
    // a // b
    packet metadata {  @leftPad ( '0') repeat i32 options1 ,u64 uint8x , }
")).
Eval vm_compute in ("<<<M1878>>>" ++ check (runes_of_ascii "packet	packetx { // trailing space 
x_y_z
{
string
, charz
string x// @lengthOf(
`two words`
    ,  u8x { // `tick` ""quote"" 'q'
charz `100% of %d` // packet A { u8 x, }
,}// " ++ [27880; 37322]%N ++ runes_of_ascii "
,} , }
    // a // b
    packet metadata {  @leftPad ( '0') repeat i32 options1 ,u64 uint8x , }
")).
Eval vm_compute in ("<<<M2023>>>" ++ check (runes_of_ascii "packet	packetx { // trailing space 
x_y_z
{
string
charz ,
string x// @lengthOf(
`two words`
    ,  u8x { // `tick` ""quote"" 'q'
charz `100% of %d` // packet A { u8 x, }
,}// " ++ [27880; 37322]%N ++ runes_of_ascii "
,} , }
    // a // b
    packet metadata {  @leftPad ( '0') repeat i32 options1 ,u64 uint8x } ,
")).
Eval vm_compute in ("<<<M4455>>>" ++ check (runes_of_ascii "

  packet	calculatedFrom { 
@calculatedFrom( ""a\\"")  zchar[4294967296  ]
    calculatedFrom
	@lengthOf(  pack )  `100% of %d`	,char[]body @calculatedFrom(
	""// no comment""  ),
@tag(007 
) //x
leftPad
	`it's`
,
	repeat
    pack {
repeat
char[

3
    ]

    body 
,  } , 
} ")).
Eval vm_compute in ("<<<M1886>>>" ++ check (runes_of_ascii "packet	packetx { // trailing space 
x_y_z
{
string
charz ,
 x// @lengthOf(
`two words`
    ,  u8x { // `tick` ""quote"" 'q'
charz `100% of %d` // packet A { u8 x, }
,}// " ++ [27880; 37322]%N ++ runes_of_ascii "
,} , }
    // a // b
    packet metadata {  @leftPad ( '0') repeat i32 options1 ,u64 uint8x , }
")).
Eval vm_compute in ("<<<M319>>>" ++ check (runes_of_ascii "MetaData A	{ zchar[ 0123456789]len ,
len float // " ++ [27880; 37322]%N ++ runes_of_ascii "
`it's` , int16 rootA
`" ++ [233]%N ++ runes_of_ascii "`
    // packet A { u8 x, }
    ,
_x len`100% of %d`	,}
options {i64_
=true ; } options {stringy
    // c
    = // @lengthOf(
'\x00' } packet pack {  } options
{  chars = ""a\""b""
} /// triple")).
Eval vm_compute in ("<<<M2152>>>" ++ check (runes_of_ascii "packet// packet A { u8 x, }
repeatCount	{// packet A { u8 x, }
@leftPad ( '\x00'
) repeat u8x MetaDataX `crlf
line`,
    repeat
    char[] MetaDataX
    ,
u64	uint8x@calculatedFrom(""a\""b""
// c
// packet A { u8 x, }
char[ `tab	here`
,//
}MetaData pack
    {
    }
")).
Eval vm_compute in ("<<<M2204>>>" ++ check (runes_of_ascii "packet// packet A { u8 x, }
repeatCount	{// packet A { u8 x, }
@leftPad ( '\x00'
) repeat u8x MetaDataX `crlf
line`,
    repeat
    char[] MetaDataX
    ,
u64	uint8x@calculatedFrom(""a\""b""
// c
// packet A { u8 x, }
) `tab	here`
,//
}Meta@xData pack
    {
    }
")).
Eval vm_compute in ("<<<M2087>>>" ++ check (runes_of_ascii "packet// packet A { u8 x, }
repeatCount	{// packet A { u8 x, }
@leftPad ( '\x00'
) uint64 u8x MetaDataX `crlf
line`,
    repeat
    char[] MetaDataX
    ,
u64	uint8x@calculatedFrom(""a\""b""
// c
// packet A { u8 x, }
) `tab	here`
,//
}MetaData pack
    {
    }
")).
Eval vm_compute in ("<<<M2159>>>" ++ check (runes_of_ascii "packet// packet A { u8 x, }
repeatCount	{// packet A { u8 x, }
@leftPad ( '\x00'
) repeat u8x MetaDataX `crlf
line`,
    repeat
    char[] MetaDataX
    ,
u64	uint8x@calculatedFrom(""a\""b""
// c
// packet A { u8 x, }
) `tab	here`
//
}MetaData pack
    {
    }
")).
Eval vm_compute in ("<<<M1489>>>" ++ check (runes_of_ascii "packet calculatedFrom
{ @calculatedFrom( ""a\\"" ) zchar[ 4294967296 ]
calculatedFrom@lengthOf( pack )	`100% of %d` ,char[] char[]body@calculatedFrom( ""// no comment"" )  ,
@tag( 007) //x
int8
leftPad`it's` , repeat pack
    { repeat char[ 3] body
,},
}")).
Eval vm_compute in ("<<<M1617>>>" ++ check (runes_of_ascii "packet calculatedFrom
{ @calculatedFrom( ""a\\"" ) zchar[ 4294967296 ]
@tag calculatedFrom@lengthOf( pack )	`100% of %d` ,char[]body@calculatedFrom( ""// no comment"" )  ,
@tag( 007) //x
int8
leftPad`it's` , repeat pack
    { repeat char[ 3] body
,},
}")).
Eval vm_compute in ("<<<M1514>>>" ++ check (runes_of_ascii "packet calculatedFrom
{ @calculatedFrom( ""a\\"" ) zchar[ 4294967296 ]
calculatedFrom@lengthOf( pack )	`100% of %d` ,char[]body@calculatedFrom( ""// no comment"" )  , ,
@tag( 007) //x
int8
leftPad`it's` , repeat pack
    { repeat char[ 3] body
,},
}")).
Eval vm_compute in ("<<<M1624>>>" ++ check (runes_of_ascii "packet c" ++ [127]%N ++ runes_of_ascii "alculatedFrom
{ @calculatedFrom( ""a\\"" ) zchar[ 4294967296 ]
calculatedFrom@lengthOf( pack )	`100% of %d` ,char[]body@calculatedFrom( ""// no comment"" )  ,
@tag( 007) //x
int8
leftPad`it's` , repeat pack
    { repeat char[ 3] body
,},
}")).
Eval vm_compute in ("<<<M1505>>>" ++ check (runes_of_ascii "packet calculatedFrom
{ @calculatedFrom( ""a\\"" ) zchar[ 4294967296 ]
calculatedFrom@lengthOf( pack )	`100% of %d` ,char[]body@calculatedFrom( ) ""// no comment""  ,
@tag( 007) //x
int8
leftPad`it's` , repeat pack
    { repeat char[ 3] body
,},
}")).
Eval vm_compute in ("<<<M1528>>>" ++ check (runes_of_ascii "packet calculatedFrom
{ @calculatedFrom( ""a\\"" ) zchar[ 4294967296 ]
calculatedFrom@lengthOf( pack )	`100% of %d` ,char[]body@calculatedFrom( ""// no comment"" )  ,
@tag( 007 //x
int8
leftPad`it's` , repeat pack
    { repeat char[ 3] body
,},
}")).
Eval vm_compute in ("<<<M492>>>" ++ check (runes_of_ascii "
MetaData chars { f32
u128 `{ , }`	,	zchar[
1 ]	chars , } MetaData x //
{ u8
/// triple
// `tick` ""quote"" 'q'
pack`u8 x,` , float32 MetaDataX
    // @lengthOf(
    `crlf
line`// @lengthOf(
,
string
Packet ,	char[] Z9_  `` , zchar[3 ]	A , }
")).
Eval vm_compute in ("<<<M439>>>" ++ check (runes_of_ascii "packet
    pack { repeatCount calculatedFrom `line1
line2` , } root packet  metadata
    { i16 repeatCount	, match pack
    as string_{ // " ++ [128512]%N ++ runes_of_ascii " emoji
10 // " ++ [27880; 37322]%N ++ runes_of_ascii "
: f32a ,
}
    , @leftPad  ( '\x00'  ) int64
zchar ,}
packet options1 { //x
}
")).
Eval vm_compute in ("<<<M663>>>" ++ check (runes_of_ascii "// c
MetaData // trailing space 
rootA{ }root
    packet u8x
    {
@calculatedFrom(""a\\"" )matchKey calculatedFrom `it's` , repeat zchar[// " ++ [27880; 37322]%N ++ runes_of_ascii "
4294967296 ]
    u128 , @rightPad ( )f32 asx
@calculatedFrom( ""// no comment""	)  , }

")).
Eval vm_compute in ("<<<M3803>>>" ++ check (runes_of_ascii "// top
	root  // c0a
    	// c0b
    	packet// c1a

  // c1b

P	// c2
{  // c3a
  // c3b
repeat
string// c5a
      // c5b
    ss

    ,
    // c7
    repeat
	u16 	 // c9
ns  // c10
,
    // c11
    } 	 // c12
 
")).
Eval vm_compute in ("<<<M1308>>>" ++ check (runes_of_ascii "MetaData  repeatCount
    // `tick` ""quote"" 'q'
    { i16 i8i8 `it's`
,
}packet
_x {stringy MetaDataX, } options
    // a // b
    { T
    // c
    = char[
    // @lengthOf(
    0 ]
    ; Header =""it's"" ;  }")).
Eval vm_compute in ("<<<M1613>>>" ++ check (runes_of_ascii "packet calculatedFrom
{ @calculatedFrom( ""a\\"" ) zchar[ 4294967296 ]
calculatedFrom@lengthOf( pack )	`100% of %d` ,char[]body@calculatedFrom( ""// no comment"" )  ,
@tag( 007) //x
int8
leftPad`it's` ")).
Eval vm_compute in ("<<<M2191>>>" ++ check (runes_of_ascii "packet// packet A { u8 x, }
repeatCount	{// packet A { u8 x, }
@leftPad ( '\x00'
) repeat u8x MetaDataX `crlf
line`,
    repeat
    char[] MetaDataX
    ,
u64	uint8x@calculatedFrom(""a\""b""
//")).
Eval vm_compute in ("<<<M3640>>>" ++ check (runes_of_ascii "packet u128 {
    u8 a,
}

root packet Msg {
    u8 k,
    u24 {
        u8 Hi,
        u16 Lo,
    },
    repeat i24 {
        u32 q,
    },
    u128,
    u16 float32x,
    string s,
}")).
Eval vm_compute in ("<<<M3519>>>" ++ check (runes_of_ascii "root packet Frame{ u8

    K, Logon
first  ,
    match 
K as Body{
	1 
:Logon ,	2:	Logout
    ,}
	, }
    packet
	Logon

{string
	user,	} packet
Logout

{  u16

reason

, }
")).
Eval vm_compute in ("<<<M4377>>>" ++ check (runes_of_ascii "

  root packet asx {

u64 T

    //
  	// " ++ [27880; 37322]%N ++ runes_of_ascii "
	`doc`  , } 
MetaData

Header 	 // trailing space 
	{ pack
o ``	,  }
    MetaData

repeatCount{
pack
	roots
`" ++ [233]%N ++ runes_of_ascii "`,

// c

}")).
Eval vm_compute in ("<<<M1122>>>" ++ check (runes_of_ascii "MetaData //x
uint8x{ } packet
int
    // `tick` ""quote"" 'q'
    {  @lengthOf( chars ) char[ 007 ]asx, } MetaData MetaDataX {  char[]// packet A { u8 x, }
f32a , }
")).
Eval vm_compute in ("<<<M3633>>>" ++ check (runes_of_ascii "packet repeatCount {
}

MetaData T {
    float64 rootA `doc`,// " ++ [128512]%N ++ runes_of_ascii " emoji
    body MetaDataX,
    u32 float,
    uint32 T,
    char[] _x,
    uint32 trueish `" ++ [233]%N ++ runes_of_ascii "`,
}")).
Eval vm_compute in ("<<<M2373>>>" ++ check (runes_of_ascii "
packet MetaDataX
{ {
    @leftPad
( // a // b
'0'
) i8 u @lengthOf(
MetaDataX
    ) `say ""hi""` ,	} MetaData BodyLength {
    asx
x_y_z `" ++ [233]%N ++ runes_of_ascii "`
, uint64 u128 , }
")).
Eval vm_compute in ("<<<M4360>>>" ++ check (runes_of_ascii "
MetaData
	metadata 
{ }

    MetaData  rootA
    {
    i8
i64_, 	 // c
	roots options1`a\`	,  lengthOf Header,Z9_ Foo

    , int16	BodyLength
    ,
}

")).
Eval vm_compute in ("<<<M1639>>>" ++ check (runes_of_ascii "options { { } packet Packet{char[] i64_ ,
@tag(
    255) match
crc as i8i8{""{,}"" : trueish """" : Pad , ""a\\"" :
Foo ,
    1 :packetx
, """ ++ [128512]%N ++ runes_of_ascii """ : trueish , } , }")).
Eval vm_compute in ("<<<M2424>>>" ++ check (runes_of_ascii "
packet MetaDataX
{
    @leftPad
( // a // b
'0'
) i8 u @lengthOf(
MetaDataX
    ) `say ""hi""` ,	} MetaData BodyLength {
    asx
x_y_z `" ++ [233]%N ++ runes_of_ascii "`
, uint64 u128  }
")).
Eval vm_compute in ("<<<M1636>>>" ++ check (runes_of_ascii "{ options } packet Packet{char[] i64_ ,
@tag(
    255) match
crc as i8i8{""{,}"" : trueish """" : Pad , ""a\\"" :
Foo ,
    1 :packetx
, """ ++ [128512]%N ++ runes_of_ascii """ : trueish , } , }")).
Eval vm_compute in ("<<<M1784>>>" ++ check (runes_of_ascii "options { } packet Packet{char[] i64_ ,
@tag(
    255) match
crc as i8i8{""{,}"" : trueish """" : Pad , ""a\\"" :
Foo ,
    1 :,
packetx """ ++ [128512]%N ++ runes_of_ascii """ : trueish , } , }")).
Eval vm_compute in ("<<<M1787>>>" ++ check (runes_of_ascii "options { } packet Packet{char[] i64_ ,
@tag(
    255) match
crc as i8i8{""{,}"" : trueish """" : Pad , ""a\\"" :
Foo ,
    1 :packetx
 """ ++ [128512]%N ++ runes_of_ascii """ : trueish , } , }")).
Eval vm_compute in ("<<<M4263>>>" ++ check (runes_of_ascii "root packet calculatedFrom {
}

MetaData u8x {
    char[42] pack,
    zchar[0123456789] stringy,
    //	t
    // `tick` ""quote"" 'q'
    msg_type pack,
}")).
Eval vm_compute in ("<<<M1692>>>" ++ check (runes_of_ascii "options { } packet Packet{char[] i64_ ,
@tag(
    255) 
crc as i8i8{""{,}"" : trueish """" : Pad , ""a\\"" :
Foo ,
    1 :packetx
, """ ++ [128512]%N ++ runes_of_ascii """ : trueish , } , }")).
Eval vm_compute in ("<<<M734>>>" ++ check (runes_of_ascii "MetaData
// packet A { u8 x, }
// " ++ [27880; 37322]%N ++ runes_of_ascii "
msg_type {float32 u128 `
`  , u8x  u8x
, x uint8x , o Pad // " ++ [27880; 37322]%N ++ runes_of_ascii "
`` ,falsey
    MetaDataX `100% of %d`  , }
")).
Eval vm_compute in ("<<<M33>>>" ++ check (runes_of_ascii "packet
o { @leftPad (// trailing space 
'\x00'	)
    // 50% %s
    char[] roots
    @lengthOf( repeatCount
)
`it's`,} // `tick` ""quote"" 'q'")).
Eval vm_compute in ("<<<M4285>>>" ++ check (runes_of_ascii "packet A {
    match k as n {
        [
            1, 22, ""c c"", 4, 5,
            ""f"", 7, 8, ""i""
        ] : B,
        2 : C,
    },
}")).
Eval vm_compute in ("<<<M1391>>>" ++ check (runes_of_ascii "packet trueish	{ char[ 00
]a1 `
` ,} packet
    // " ++ [128512]%N ++ runes_of_ascii " emoji
    int
{ @rightPad ( '0'
)	repeat options1 string_ ,
    // a // b
    }")).
Eval vm_compute in ("<<<M2408>>>" ++ check (runes_of_ascii "
packet MetaDataX
{
    @leftPad
( // a // b
'0'
) i8 u @lengthOf(
MetaDataX
    ) `say ""hi""` ,	} MetaData BodyLength {
    asx")).
Eval vm_compute in ("<<<M3268>>>" ++ check (runes_of_ascii "MetaData metadata { } // c
MetaData rootA { i8 i64_ , roots options1 `a\` , lengthOf Header , Z9_ Foo , int16 BodyLength , }")).
Eval vm_compute in ("<<<M3300>>>" ++ check (runes_of_ascii "MetaData metadata { } MetaData rootA { i8 i64_ , roots options1 `a\` , lengthOf Header , Z9_ Foo , // c
int16 BodyLength , }")).
Eval vm_compute in ("<<<M241>>>" ++ check (runes_of_ascii "
MetaData float {
    zchar[7 ] // 50% %s
roots,  a1 // " ++ [27880; 37322]%N ++ runes_of_ascii "
leftPad `crlf
line` , zchar[00 ]
x_y_z , //x
leftPad A, }
")).
Eval vm_compute in ("<<<M3101>>>" ++ check (runes_of_ascii "packet A {
    match k as n {
        ""%d%s"" : B,
        [""%d%s"", 1] : C,
        [1,2,3,4,5,""%d%s""] : D,
    },
}")).
Eval vm_compute in ("<<<M3760>>>" ++ check (runes_of_ascii "packet  A {  match	k
as 
n{

[ ""a""
	, 
""bb"",

    007
	, ""d""
,""e""
    ,  66 ,

    ""g""]

:

B 2
:

C }, }
")).
Eval vm_compute in ("<<<M3339>>>" ++ check (runes_of_ascii "MetaData float { uint8 BodyLength , } MetaData charz { float32
// c
trueish `a\` , i16 metadata `say ""hi""` , }")).
Eval vm_compute in ("<<<M3017>>>" ++ check (runes_of_ascii "packet A {
  match k as n {
    [""a"", 22, ""c c"", 4, ""e"", 66, ""g"", 8, ""i"", 10, ""k"", 12] : B,
    2 : C
  },
}")).
Eval vm_compute in ("<<<M1260>>>" ++ check (runes_of_ascii "packet float { i8i8 { roots @lengthOf( repeatCount ) // packet A { u8 x, }
,	}  , repeat
matchKey  , }
")).
Eval vm_compute in ("<<<M173>>>" ++ check (runes_of_ascii "
packet float { @tag(0123456789
//
// packet A { u8 x, }
)
    repeat
Pad // 50% %s
`tab	here`  ,}
")).
Eval vm_compute in ("<<<M533>>>" ++ check (runes_of_ascii "  packet tag {repeat char[ 4294967296
    // 50% %s
    ] zchar `` , repeat i8i8  _x , } // a // b")).
Eval vm_compute in ("<<<M2990>>>" ++ check (runes_of_ascii "packet A {
  match k as n {
    [1, ""bb"", 007, ""d"", 5, ""f"", 7, ""h"", 9, ""j""] : B
    2 : C
  },
}")).
Eval vm_compute in ("<<<M3770>>>" ++ check (runes_of_ascii "packet int {
    char[1] metadata @lengthOf(MetaDataX) `tab	here`,
    repeat body msg_type,
}")).
Eval vm_compute in ("<<<M3749>>>" ++ check (runes_of_ascii "

  options {
    Foo
=
u64 
A
=  """"; packetx

= ""`tick`"" float
    =' ' 
}	/// triple
")).
Eval vm_compute in ("<<<M2093>>>" ++ check (runes_of_ascii "packet// packet A { u8 x, }
repeatCount	{// packet A { u8 x, }
@leftPad ( '\x00'
) repeat")).
Eval vm_compute in ("<<<M2246>>>" ++ check (runes_of_ascii "MetaData _x {string x `// not a comment` , i64_
string // trailing space 
`a\` ,
    }
")).
Eval vm_compute in ("<<<M2936>>>" ++ check (runes_of_ascii "packet A {
  match k as n {
    [""a"", ""bb"", ""c c"", ""d"", ""e"", ""f""] : B
    2 : C
  },
}")).
Eval vm_compute in ("<<<M2968>>>" ++ check (runes_of_ascii "packet A {
  match k as n {
    [1, 22, ""c c"", 4, 5, ""f"", 7, 8] : B
    2 : C
  },
}")).
Eval vm_compute in ("<<<M848>>>" ++ check (runes_of_ascii "MetaData
roots
    {} options //x
{options1
= '\x00' crc =  string ; Logon='0'
}
")).
Eval vm_compute in ("<<<M4267>>>" ++ check (runes_of_ascii "root packet pack {
    @calculatedFrom("""")
    @tag(4294967296)
    uint8 tag,
}")).
Eval vm_compute in ("<<<M205>>>" ++ check (runes_of_ascii "packet packetx  {
// " ++ [27880; 37322]%N ++ runes_of_ascii "
//x
} options	{ o= ' '
; string_= '0'
;
}packet u {}")).
Eval vm_compute in ("<<<M3372>>>" ++ check (runes_of_ascii "MetaData _x { f64 charz // c
`tab	here` , } options { BodyLength = """ ++ [233]%N ++ runes_of_ascii "t" ++ [233]%N ++ runes_of_ascii """ ; }")).
Eval vm_compute in ("<<<M2934>>>" ++ check (runes_of_ascii "packet A {
  match k as n {
    [1, 22, 007, 4, 5, 66] : B
    2 : C
  },
}")).
Eval vm_compute in ("<<<M3884>>>" ++ check (runes_of_ascii "
MetaData

M
	{
u8 x`a
    b
  c`
    ,

    T t  `a
    b
  c` ,	}
")).
Eval vm_compute in ("<<<M3085>>>" ++ check (runes_of_ascii "packet A {
    B b `%%d%!`,
    B `%%d%!`,
    repeat B bs `%%d%!`,
}")).
Eval vm_compute in ("<<<M3418>>>" ++ check (runes_of_ascii "packet o { @tag( 4294967296 ) options1 @lengthOf( u8x // c
) `" ++ [233]%N ++ runes_of_ascii "` , }")).
Eval vm_compute in ("<<<M1706>>>" ++ check (runes_of_ascii "options { } packet Packet{char[] i64_ ,
@tag(
    255) match
crc")).
Eval vm_compute in ("<<<M3486>>>" ++ check (runes_of_ascii "root packet

P

    {u8 s_u8,	repeat u8 r_u8 
, 
u16	b_len, 
}")).
Eval vm_compute in ("<<<M1701>>>" ++ check (runes_of_ascii "options { } packet Packet{char[] i64_ ,
@tag(
    255) match")).
Eval vm_compute in ("<<<M3625>>>" ++ check (runes_of_ascii "
packet

    // " ++ [128512]%N ++ runes_of_ascii " emoji
chars
{repeat	Header
chars

,  } ")).
Eval vm_compute in ("<<<M1348>>>" ++ check (runes_of_ascii "MetaData A
// c
// @lengthOf(
{ }
    packet leftPad { }")).
Eval vm_compute in ("<<<M3198>>>" ++ check (runes_of_ascii "packet A { match k as n { 1 : B // a // b 2 : C }, }")).
Eval vm_compute in ("<<<M919>>>" ++ check (runes_of_ascii "// `tick` ""quote"" 'q'
packet charz{ len
`a\`
, } 	 ")).
Eval vm_compute in ("<<<M1236>>>" ++ check (runes_of_ascii "packet uint8x //	t
{ char[] rootA`{ , }` , } //	t")).
Eval vm_compute in ("<<<M2320>>>" ++ check (runes_of_ascii "
MetaData Pad{
u32 rootA `line1
line2` }
    ,
")).
Eval vm_compute in ("<<<M181>>>" ++ check (runes_of_ascii "MetaData _x // a // b
{Z9_ options1
    , }
")).
Eval vm_compute in ("<<<M623>>>" ++ check (runes_of_ascii "packet BodyLength
{
char[]	MetaDataX, } 	 ")).
Eval vm_compute in ("<<<M2326>>>" ++ check (runes_of_ascii "
MetaData Pad{
u32 rootA `line1
line2` ,")).
Eval vm_compute in ("<<<M3240>>>" ++ check (runes_of_ascii "MetaData zchar { zchar[
// c
3 ] Pad , }")).
Eval vm_compute in ("<<<M3936>>>" ++ check (runes_of_ascii "packet A
{
    u8 x
	`d" ++ [133]%N ++ runes_of_ascii "`
,	// c" ++ [133]%N ++ runes_of_ascii "
	}")).
Eval vm_compute in ("<<<M2764>>>" ++ check ([65533; 65533]%N ++ runes_of_ascii "R" ++ [0; 65533; 65533; 65533]%N ++ runes_of_ascii "\>|" ++ [65533; 65533; 65533; 65533]%N ++ runes_of_ascii "e" ++ [65533; 65533]%N ++ runes_of_ascii "g" ++ [12; 65533]%N ++ runes_of_ascii "5" ++ [65533; 65533]%N ++ runes_of_ascii "rL" ++ [403; 26]%N ++ runes_of_ascii "#p" ++ [65533]%N ++ runes_of_ascii "1" ++ [65533; 65533]%N ++ runes_of_ascii ">" ++ [65533]%N ++ runes_of_ascii "B")).
Eval vm_compute in ("<<<M4010>>>" ++ check (runes_of_ascii "packet A {
    u8 x `x
        `,
}")).
Eval vm_compute in ("<<<M2671>>>" ++ check (runes_of_ascii "MetaData M { u8 x @lengthOf(y), }")).
Eval vm_compute in ("<<<M2644>>>" ++ check (runes_of_ascii "packet A { @leftPad('0' u8 x, }")).
Eval vm_compute in ("<<<M257>>>" ++ check (runes_of_ascii "root packet x	{ }
/// triple
")).
Eval vm_compute in ("<<<M497>>>" ++ check (runes_of_ascii "packet tag{ u32 x_y_z, } //")).
Eval vm_compute in ("<<<M2709>>>" ++ check ([65533; 23; 65533]%N ++ runes_of_ascii "<q" ++ [65533; 65533; 65533; 65533]%N ++ runes_of_ascii "$" ++ [65533; 65533; 664]%N ++ runes_of_ascii "H" ++ [65533]%N ++ runes_of_ascii "A" ++ [65533; 65533]%N ++ runes_of_ascii "}" ++ [65533]%N ++ runes_of_ascii "r" ++ [65533]%N ++ runes_of_ascii "{" ++ [65533; 65533; 65533]%N)).
Eval vm_compute in ("<<<M125>>>" ++ check (runes_of_ascii "MetaData
    Packet
{ }
")).
Eval vm_compute in ("<<<M826>>>" ++ check (runes_of_ascii "
MetaData Logon{
}

")).
Eval vm_compute in ("<<<M2639>>>" ++ check (runes_of_ascii "packet A { @tag(1) }")).
Eval vm_compute in ("<<<M3169>>>" ++ check (runes_of_ascii "packet A {
}
// c 	")).
Eval vm_compute in ("<<<M3144>>>" ++ check (runes_of_ascii "packet A {
}
// c" ++ [8233]%N)).
Eval vm_compute in ("<<<M2588>>>" ++ check (runes_of_ascii "packet A { u8 x }")).
Eval vm_compute in ("<<<M898>>>" ++ check (runes_of_ascii "
options
{} //x")).
Eval vm_compute in ("<<<M495>>>" ++ check (runes_of_ascii "packet
As {}
")).
Eval vm_compute in ("<<<M1151>>>" ++ check (runes_of_ascii "options { }
")).
Eval vm_compute in ("<<<M2755>>>" ++ check (runes_of_ascii "true int64")).
Eval vm_compute in ("<<<M1253>>>" ++ check (runes_of_ascii "   // c")).
Eval vm_compute in ("<<<M2477>>>" ++ check (runes_of_ascii "string")).
Eval vm_compute in ("<<<M2714>>>" ++ check (runes_of_ascii """_fVi")).
Eval vm_compute in ("<<<M2529>>>" ++ check (runes_of_ascii """a\""")).
Eval vm_compute in ("<<<M2537>>>" ++ check (runes_of_ascii """`""")).
Eval vm_compute in ("<<<M2540>>>" ++ check (runes_of_ascii "`a")).
Eval vm_compute in ("<<<M2707>>>" ++ check ([0]%N)).
