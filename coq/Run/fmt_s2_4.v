From FP Require Import Lexer Parser ShowPT Digest Formatter.
From Coq Require Import String List NArith.
Import ListNotations.
Open Scope string_scope.
Set Printing Width 100000000.
Set Printing Depth 100000000.
Definition show_fres (r : fres) : string :=
  match r with
  | FOk s => "OK:" ++ sh_escaped s ""
  | FErr s => "ERR:" ++ sh_escaped s ""
  | FPanic p => "PANIC:" ++ p
  end.
Definition check (rs : list rune) : string := digest (show_fres (format_res rs)).
Definition full (rs : list rune) : string := show_fres (format_res rs).
Eval vm_compute in ("<<<M3540>>>" ++ check (runes_of_ascii "// top
options // c0
{ // c1a
  // c1b
StringPrefixLenType
    // c2
= // c3
u8 // c4a
  // c4b
; ArrayPrefixLenType // c6a
  // c6b
= // c7a
  // c7b
u32 // c8a
  // c8b
; // c9a
  // c9b
FixedStringPadFromLeft // c10
= // c11
false // c12
; // c13
FixedStringPadChar // c14a
  // c14b
= // c15
' ' // c16a
  // c16b
; // c17
} // c18
packet // c19
Party // c20a
  // c20b
{ repeat
    // c22
i16
    // c23
Qty // c24
,
    // c25
repeat // c26a
  // c26b
string // c27
Tail // c28a
  // c28b
, // c29a
  // c29b
i8 OrderId // c31
, // c32
i8 // c33
msgKind
    // c34
, // c35
}
    // c36
packet
    // c37
Ack { // c39a
  // c39b
Party ,
    // c41
repeat // c42a
  // c42b
InRef20
    // c43
{
    // c44
Party
    // c45
, // c46a
  // c46b
int8
    // c47
tag7 // c48a
  // c48b
, // c49a
  // c49b
char[
    // c50
5 // c51
] // c52
OrderId // c53
, // c54a
  // c54b
zchar[ // c55a
  // c55b
7 // c56
] Tail , // c59
char[]
    // c60
count , // c62a
  // c62b
InPrice45 // c63a
  // c63b
{
    // c64
Party // c65a
  // c65b
, char[ 1
    // c68
] Px
    // c70
,
    // c71
} // c72a
  // c72b
,
    // c73
} // c74
,
    // c75
char[
    // c76
12 // c77
] // c78a
  // c78b
price
    // c79
, // c80a
  // c80b
int8
    // c81
sym // c82
, // c83a
  // c83b
}
    // c84
packet // c85a
  // c85b
Reject
    // c86
{ // c87
repeat InPrice47 // c89
{ // c90a
  // c90b
Party // c91
,
    // c92
} ,
    // c94
zchar[
    // c95
4 // c96a
  // c96b
] x
    // c98
, // c99
repeat // c100a
  // c100b
Ack // c101
, // c102
zchar[ // c103a
  // c103b
2 // c104a
  // c104b
] Ref // c106
, repeat Party // c109
, // c110
}
    // c111
packet
    // c112
Cancel // c113a
  // c113b
{
    // c114
Reject , repeat
    // c117
string f1
    // c119
, // c120
uint16 // c121
OrderId // c122a
  // c122b
, // c123
u8 // c124a
  // c124b
Acct // c125
, // c126
int8
    // c127
msgKind // c128
, } // c130
root
    // c131
packet // c132
Fill // c133a
  // c133b
{ u8 // c135
count // c136a
  // c136b
, char[] // c138
tag7 // c139a
  // c139b
, // c140a
  // c140b
zchar[ // c141a
  // c141b
7
    // c142
]
    // c143
Acct , u32
    // c146
OrderId ,
    // c148
u32
    // c149
Note // c150
@lengthOf( Body )
    // c153
,
    // c154
match
    // c155
OrderId as Body { // c159a
  // c159b
106 // c160a
  // c160b
: // c161
Cancel // c162
, 196 // c164
:
    // c165
Reject
    // c166
, 74 : // c169
Party , // c171
75 // c172
: // c173a
  // c173b
Ack
    // c174
, // c175
} , } ")).
Eval vm_compute in ("<<<M8>>>" ++ check (runes_of_ascii "MetaData string_{
} packet
    Packet
// c
// c
{
    // @lengthOf(
    zchar[ 65535 ]	metadata  ,} MetaData  body { u
    packetx ,
char[] roots `" ++ [233]%N ++ runes_of_ascii "`,
i32 Header , uint32
    packetx /// triple
,	} packet Foo  { @rightPad ()
match crc
    as u128{ // c
""it's"":	As , 0
    :x_y_z , """"
:
msg_type } // @lengthOf(
, match pack
as	x_y_z {255: msg_type , } , i8 A , int8 BodyLength
@lengthOf( tag ) , @calculatedFrom( ""CRC32""
) match int as Header {
4294967296	: x_y_z ,
    // @lengthOf(
    }	, match
chars	as // a // b
calculatedFrom {  [0 ,
0
, // c
1 , 0123456789 , 00 // c
, ""a\""b""	,// `tick` ""quote"" 'q'
4294967296 ]:
stringy
    ,""`tick`"" : T }, @tag( 0 )@tag(
    1 )
@lengthOf(u8x ) u8x {  body
    , repeat// trailing space 
calculatedFrom x_y_z `two words` ,  } , match  falsey
as leftPad {	007	:  A, [""" ++ [28040; 24687]%N ++ runes_of_ascii """ ] : tag ,
1:
    //
    Pad ,}
    , // c
float64
repeatCount , @tag(10 ) match stringy
    as
Logon {7:
Pad, }	, }
    packet Packet {
@calculatedFrom( ""\n"" ) @calculatedFrom( ""`tick`"" ) matchKey
, @lengthOf( zchar )
roots	{repeat i16 Z9_, match
    repeatCount as
stringy { [ ""x y""
    ]:packetx	, [""" ++ [128512]%N ++ runes_of_ascii """ , ""x y""	, ""\n"" ] : crc , },}
// `tick` ""quote"" 'q'
//x
, // packet A { u8 x, }
match // trailing space 
tag as
a1 // " ++ [128512]%N ++ runes_of_ascii " emoji
{ ""abc"": packetx 1
: u8x 1 : body
007 : leftPad
0123456789
    :Header} ,
i16 x_y_z
    ,@calculatedFrom( ""{,}""
    )o `it's` , string_@calculatedFrom( ""it's"" ) `crlf
line` , match i8i8 as lengthOf
    { [ 1 , ""a\\"" ,
    42 ,""""  ,
""a\\"" ]
    // " ++ [128512]%N ++ runes_of_ascii " emoji
    : o , 10
    :
Foo //x
[7 ]:// trailing space 
lengthOf , } ,repeat
    A { repeat T { char[
    007
    //x
    ] i64_ @lengthOf( Packet
    // a // b
    ) ,
    match T as repeatCount // " ++ [27880; 37322]%N ++ runes_of_ascii "
{  ""x y"" :
As
,
    } , repeat metadata, msg_type
{
float64//
float , i8 o`u8 x,` // " ++ [27880; 37322]%N ++ runes_of_ascii "
,char[
0 ]	A @calculatedFrom(
""1""
    )
    `two words` //	t
, i8 body
    @lengthOf( Packet), } ,//
} ,rootA{
f32a
@lengthOf( pack
    ), }, repeat char[] u , }
, }
")).
Eval vm_compute in ("<<<M3898>>>" ++ check (runes_of_ascii "//x
root packet i8i8 {
    u128 {
        repeat lengthOf Foo `u8 x,`,
        MetaDataX falsey `two words`,
        Pad {
            u8 a1 @lengthOf(leftPad),
        },
        int @calculatedFrom(""a\\"") `
                `,
    },
    Header Logon,
    match rootA as BodyLength {
        """ ++ [28040; 24687]%N ++ runes_of_ascii """ : Pad,
        [1, """ ++ [233]%N ++ runes_of_ascii "t" ++ [233]%N ++ runes_of_ascii """] : _x,
    },
    options1 `crlf
        line`,
    repeat u {
        match i8i8 as falsey {
            // `tick` ""quote"" 'q'
            [42, 4294967296] : x_y_z,
            42 : float,
            // `tick` ""quote"" 'q'
            // c
            3 : packetx,
        },
    },
    charz,
}

// a // b
root packet float {
    repeat _x body `say ""hi""`,
    charz `// not a comment`,
    repeat lengthOf {
        repeatCount {
            repeat tag {
                zchar[42] leftPad,
                repeat zchar[0123456789] T `crlf
                                line`,
                char[] trueish,
                zchar[007] lengthOf @lengthOf(string_) `" ++ [233]%N ++ runes_of_ascii "`,
            },
            repeat int32 As,
            int8 chars,
            i32 calculatedFrom `it's`,
        },
        zchar[00] chars ``,
    },
    char[255] charz @calculatedFrom(""1"") `doc`,// packet A { u8 x, }
    match body as rootA {
        ""CRC32"" : A,
        [
            007, 0, 0123456789, 1, ""{,}"",
            ""1"", ""// no comment"", ""it's""
        ] : BodyLength,
        65535 : x_y_z,
        [""`tick`""] : a1,
    },
    repeat asx {
        char[0123456789] i64_ `" ++ [28040; 24687; 31867; 22411]%N ++ runes_of_ascii "`,
    },
    @lengthOf(x_y_z)
    pack @calculatedFrom(""" ++ [233]%N ++ runes_of_ascii "t" ++ [233]%N ++ runes_of_ascii """),
    @tag(3)
    repeat uint64 o,// @lengthOf(
}")).
Eval vm_compute in ("<<<M3601>>>" ++ check (runes_of_ascii "root packet Foo {
    chars {
        falsey body,
        zchar[3] repeatCount `{ , }`,
    },
    @lengthOf(BodyLength)
    i8 Z9_ @lengthOf(trueish),// " ++ [128512]%N ++ runes_of_ascii " emoji
    @rightPad()
    repeat Pad {
        _x @calculatedFrom(""\" ++ [233]%N ++ runes_of_ascii """),
        match msg_type as uint8x {
            [1, 0, ""\n"", ""\n""] : Packet,
            ""CRC32"" : pack,
        },
    },
    @calculatedFrom(""a\""b"")
    repeat body {
        char[007] i64_ `
        `,
        match charz as pack {
            65535 : u8x,
            65535 : zchar,
            [255] : chars,
            1 : stringy,
            [""" ++ [28040; 24687]%N ++ runes_of_ascii """] : int,
            0 : asx,
        },
    },
    match o as A {
        007 : calculatedFrom,
        ""abc"" : roots,
        ""`tick`"" : Foo,
        ""it's"" : Foo,
        007 : float,
    },
    @leftPad(' ')
    // `tick` ""quote"" 'q'
    // trailing space 
    repeat repeatCount,
    char[007] u128 `crlf
    line`,
}//

packet asx {
    charz {
        rootA @calculatedFrom(""" ++ [233]%N ++ runes_of_ascii "t" ++ [233]%N ++ runes_of_ascii """),
    },
}

packet msg_type {
}

MetaData o {
    f32 msg_type,
    int64 body,
}

root packet body {
    @tag(1)
    @calculatedFrom(""`tick`"")
    @tag(0123456789)
    metadata {
        pack i64_,
    },
    repeat zchar[7] asx,
    chars @calculatedFrom(""\n""),
    repeat zchar[4294967296] x,
    @rightPad('\x00')
    u8 msg_type `" ++ [233]%N ++ runes_of_ascii "`,
    float64 pack @lengthOf(MetaDataX),
}")).
Eval vm_compute in ("<<<M3892>>>" ++ check (runes_of_ascii "//	t
root packet T {
    i8 roots,
    @lengthOf(Pad)
    @calculatedFrom(""a	b"")
    @rightPad('0')
    float @calculatedFrom(""" ++ [28040; 24687]%N ++ runes_of_ascii """) `{ , }`,
    @lengthOf(roots)
    repeat tag {
        match i8i8 as packetx {
            // a // b
            /// triple
            [""// no comment""] : packetx,
            ""\" ++ [233]%N ++ runes_of_ascii """ : i8i8,
            ""a\\"" : Packet,
            // packet A { u8 x, }
            00 : a1,
            ""1"" : Foo,
            ""\" ++ [233]%N ++ runes_of_ascii """ : rootA,
        },
        uint8x matchKey `two words`,
        char[0123456789] i8i8,
    },
    @lengthOf(calculatedFrom)
    Foo a1,
    @lengthOf(pack)
    zchar[3] trueish,
}

root packet o {
}

root packet tag {
    @lengthOf(A)
    uint16 i64_ `it's`,// a // b
    repeat roots {
        string stringy,
        match _x as int {
            7 : leftPad,
            65535 : lengthOf,
            7 : Foo,
            ""a\\"" : float,
            255 : leftPad,
            007 : u128,
        },
        MetaDataX @lengthOf(leftPad),
        lengthOf @calculatedFrom(""`tick`""),
    },
    @rightPad()
    @lengthOf(f32a)
    zchar[00] T @calculatedFrom(""a\""b""),
    repeat Pad {
        zchar[0] msg_type `say ""hi""`,
    },
    u64 string_ @lengthOf(T) `line1
    line2`,
}")).
Eval vm_compute in ("<<<M371>>>" ++ check (runes_of_ascii "MetaData i8i8
    // trailing space 
    { Pad rootA
`tab	here` //
, x_y_z
metadata
,zchar[ 255] x_y_z `doc` , metadata i8i8 , uint8x
    leftPad
    `say ""hi""` , int32
charz
    `" ++ [28040; 24687; 31867; 22411]%N ++ runes_of_ascii "` , } packet
len {  char[
    255 ]
f32a//x
@calculatedFrom(
""a	b"") `// not a comment` ,f64 u8x
//
// `tick` ""quote"" 'q'
,
options1
{string charz `u8 x,` ,string_ // packet A { u8 x, }
@calculatedFrom( // " ++ [27880; 37322]%N ++ runes_of_ascii "
""a	b""
) , repeat falsey {a1 `it's`  , stringy
@lengthOf( Foo
    )
,	repeat  zchar[ 10  ]Logon
`line1
line2` ,  uint16 repeatCount @lengthOf( options1 )
    `doc`
,	} , repeat //x
u packetx, } , falsey
x_y_z, char[]matchKey
`u8 x,`
, } packet float
{ @lengthOf( Foo ) u16 a1 `crlf
line` // `tick` ""quote"" 'q'
,
    // `tick` ""quote"" 'q'
    @leftPad( )
@lengthOf( string_// `tick` ""quote"" 'q'
)
    match
asx as lengthOf{ """"
: f32a , }
,roots {
f32 A `a\` , i8 trueish @lengthOf(rootA )
    ,}
    ,
options1
    @lengthOf(_x
    )
    , /// triple
@lengthOf( asx// `tick` ""quote"" 'q'
)
    charz
    // " ++ [27880; 37322]%N ++ runes_of_ascii "
    ,
    zchar[ 10 ] a1
    @calculatedFrom(
    ""// no comment"")
`say ""hi""`
, //x
uint16 x @calculatedFrom( ""a\\"" )	,}")).
Eval vm_compute in ("<<<M4028>>>" ++ check (runes_of_ascii "root packet BodyLength {
    x_y_z @calculatedFrom(""" ++ [233]%N ++ runes_of_ascii "t" ++ [233]%N ++ runes_of_ascii """),//	t
    @lengthOf(A)
    int8 options1 `u8 x,`,
    @rightPad()
    // " ++ [128512]%N ++ runes_of_ascii " emoji
    // " ++ [27880; 37322]%N ++ runes_of_ascii "
    repeat zchar[1] asx `
        `,
    i8i8 @lengthOf(asx) `it's`,
    uint64 i8i8,
    int32 Packet @lengthOf(x_y_z),
    @tag(1)
    repeat uint8 len,
    char[] matchKey,
    char[7] chars @calculatedFrom(""" ++ [233]%N ++ runes_of_ascii "t" ++ [233]%N ++ runes_of_ascii """),
}

packet i8i8 {
    match body as repeatCount {
        [
            0123456789, 7, 1, ""a\\"", ""// no comment"",
            ""x y"", ""// no comment""
        ] : Foo,
        007 : T,
        [0, ""a\""b""] : BodyLength,
    },
    repeat Z9_ {
        charz @calculatedFrom(""\n"") `tab	here`,// `tick` ""quote"" 'q'
        repeatCount Pad `tab	here`,
        i32 asx @lengthOf(i64_),
    },
}

packet uint8x {
    @calculatedFrom(""" ++ [233]%N ++ runes_of_ascii "t" ++ [233]%N ++ runes_of_ascii """)
    zchar[0] metadata,
}

options {
    msg_type = true
    string_ = 007
    a1 = ""// no comment"";
}

MetaData packetx {
    BodyLength body `line1
        line2`,
    float tag,
    x_y_z string_ `crlf
        line`,
    BodyLength f32a `" ++ [28040; 24687; 31867; 22411]%N ++ runes_of_ascii "`,
    char[255] stringy,
}")).
Eval vm_compute in ("<<<M4118>>>" ++ check (runes_of_ascii "
root	packet 
matchKey{ match  uint8x
	as

x_y_z{ 1  : 	 // @lengthOf(
falsey	// a // b
,

    } 
, } 
packet 
  // " ++ [27880; 37322]%N ++ runes_of_ascii "
  	MetaDataX
{  
      /// triple
	float @calculatedFrom(
""a\\""
    )
	`// not a comment`	, repeat  stringy {match repeatCount as a1
    {
    [
    ""// no comment""
	]:
    metadata  , //	t
      [
4294967296 ,
""" ++ [233]%N ++ runes_of_ascii "t" ++ [233]%N ++ runes_of_ascii """
    ]

: len
[  ""a\\"" ,
	4294967296 
, ""packet""
,""" ++ [233]%N ++ runes_of_ascii "t" ++ [233]%N ++ runes_of_ascii """

, 10, 0  // " ++ [27880; 37322]%N ++ runes_of_ascii "
]
: 
charz
,
00
:
i64_
    , [
7
]: tag
, 00 

//	t

  //	t
:

falsey 
} , },
roots@calculatedFrom(""1""	)
`
`
    ,
msg_type

    @lengthOf(stringy
) `a\`	,int

MetaDataX `doc`
, @calculatedFrom(	// trailing space 
  """ ++ [128512]%N ++ runes_of_ascii """)
	u64
int 
`say ""hi""` , }packet 	 //x
rootA {asx// c
    @lengthOf(

Foo	)`a\`
, @leftPad

(
' '  )
    string  // c

Z9_
    ,
    crc
	//x
  	@lengthOf( 
        //	t
  // a // b

	leftPad
) 
`doc`	,  repeat	calculatedFrom

// packet A { u8 x, }
  u128

    `{ , }`	, //x
      @calculatedFrom(""packet""

) @calculatedFrom(
""\" ++ [233]%N ++ runes_of_ascii """) i16
roots `doc`,
	}
")).
Eval vm_compute in ("<<<M3689>>>" ++ check (runes_of_ascii "// a // b
packet chars {
    i64_ tag `say ""hi""`,
}

// " ++ [128512]%N ++ runes_of_ascii " emoji
// `tick` ""quote"" 'q'
packet tag {
}// c

packet roots {
    repeat x_y_z `
        `,
}

packet lengthOf {
    // c
    i64 int `{ , }`,
    @lengthOf(trueish)
    @lengthOf(stringy)
    // @lengthOf(
    repeat x repeatCount `u8 x,`,
    char[] rootA,
    uint16 int @calculatedFrom(""\" ++ [233]%N ++ runes_of_ascii """) `say ""hi""`,
    @lengthOf(string_)
    char[] int @calculatedFrom(""a\\""),
    @tag(0)
    @calculatedFrom(""\n"")
    // " ++ [128512]%N ++ runes_of_ascii " emoji
    i32 string_ @lengthOf(falsey) `say ""hi""`,
    @tag(3)
    @lengthOf(BodyLength)
    repeat Z9_ {
        match T as charz {
            // packet A { u8 x, }
            [
                255, 00, 0123456789, ""a\""b"", """",
                ""\n"", ""\" ++ [233]%N ++ runes_of_ascii """
            ] : x_y_z,
            3 : Foo,
        },
        char[4294967296] calculatedFrom @lengthOf(Z9_),
    },
    i64 trueish @lengthOf(T) `" ++ [233]%N ++ runes_of_ascii "`,
    @lengthOf(body)
    @lengthOf(matchKey)
    tag trueish ``,
}

packet Foo {
}")).
Eval vm_compute in ("<<<M810>>>" ++ check (runes_of_ascii "root
    packet
    asx // trailing space 
{
    trueish lengthOf
`line1
line2`
,	@rightPad (	)
@rightPad(  '0') char[] a1 , } packet metadata {
stringy `say ""hi""` , @lengthOf(
int ) match u8x as
    zchar {
""" ++ [128512]%N ++ runes_of_ascii """ : repeatCount ,00
: Header
, 4294967296 : As ,
    //	t
    255
:
    //x
    u8x
,
[ //	t
0123456789 ]
    :
    // packet A { u8 x, }
    pack// `tick` ""quote"" 'q'
, } ,
@calculatedFrom( """ ++ [233]%N ++ runes_of_ascii "t" ++ [233]%N ++ runes_of_ascii """ ) repeat x_y_z{ u16 len `say ""hi""`,} , @tag( 007 )@leftPad (
    '0' // @lengthOf(
)
    match
options1 as float {
[""CRC32"" , ""CRC32""	]: x_y_z
,0:
    tag 255:
    Logon , //	t
42 : string_
    } // c
,	repeat zchar[ 007 ]u
    ,  T {//x
char[] asx ,
    match trueish
as A{ ""1""
: tag , [  ""{,}""  , 7 ]:
    Logon
    , 4294967296 :
    calculatedFrom ,""it's"" : uint8x, }, }	,@leftPad
    ( )
match x_y_z as
Packet { [ """ ++ [28040; 24687]%N ++ runes_of_ascii """	,
4294967296
] :int	,
    } , char[]
int  @calculatedFrom( ""\" ++ [233]%N ++ runes_of_ascii """	) //	t
`" ++ [233]%N ++ runes_of_ascii "`, }")).
Eval vm_compute in ("<<<M1349>>>" ++ check (runes_of_ascii "  options
//
// packet A { u8 x, }
{ MetaDataX  = '0'
; Logon=
    false ; int//	t
='0' _x
=
// trailing space 
//	t
""x y""
//	t
/// triple
;}
    packet
tag { @tag( /// triple
10)repeat msg_type ,  match x
    as
Foo
{ ""x y"": body  ,  } , @tag(	0
)repeat char[
    7 ] options1	, repeat falsey
{ int8  options1
,	i8i8
`crlf
line`
    ,
u16 // " ++ [27880; 37322]%N ++ runes_of_ascii "
f32a @calculatedFrom( ""// no comment"" // @lengthOf(
) , } , @calculatedFrom( ""{,}""// " ++ [128512]%N ++ runes_of_ascii " emoji
) uint32 repeatCount, msg_type @calculatedFrom( ""it's"" )//
`crlf
line` , @tag(// `tick` ""quote"" 'q'
00) match T as options1
{ 4294967296 :
repeatCount  , }
,
// @lengthOf(
//	t
}
    // trailing space 
    MetaData msg_type  {Foo u , char[] Pad
`
`
    , BodyLength As
,  char[ 007 ] calculatedFrom /// triple
`a\`
,
    //x
    }  MetaData msg_type {}packet trueish  {T
    // a // b
    @lengthOf(
    pack ) `crlf
line` ,
}
")).
Eval vm_compute in ("<<<M3981>>>" ++ check (runes_of_ascii "options{len

    =
    int8 /// triple
  Header

= '0'  ; } 
packet
options1 {
    @calculatedFrom( 
""{,}""

)
repeat 	 //

  body  ,

}

    packet	uint8x
	{
	repeat

    int8	f32a
,

}
    packet
    As

    {
match u128
    as  o
{

    0 : len
,
    // c
    }
	,
@calculatedFrom(	"""")
	zchar// @lengthOf(
As ,
zchar[	00  ] 
u8x	,
    @lengthOf(u8x)  match stringy

as	o{

    [ ""1""

,""\" ++ [233]%N ++ runes_of_ascii """

] 	 // " ++ [128512]%N ++ runes_of_ascii " emoji
    :repeatCount
, [
7
	,  
      // " ++ [27880; 37322]%N ++ runes_of_ascii "
	3,
	""1"" ,
	007 ,""\n""  ,
	0
]  : metadata
	, //	t
	""it's""

    :o

    ,

    00:
    roots
,

    4294967296:

uint8x
, } ,@calculatedFrom( 
""it's"" ) @tag(
    3
    )int
	@lengthOf(  int
	) ,
char[] 
asx

@calculatedFrom(

""a\""b"")	`a\`
,
int16 
charz  ,
	//	t
string
    x_y_z

@lengthOf( int)
`a\`, i64 o , 
}
    root packet

zchar
    {
}

")).
Eval vm_compute in ("<<<M104>>>" ++ check (runes_of_ascii "
root packet stringy{ repeat u16
falsey `
`
, u16 Pad,
    @lengthOf( // packet A { u8 x, }
x)Logon { repeat
zchar[65535
    ]
Packet`it's` , } ,}packet len {@leftPad( ) repeat metadata { match asx
    as asx{""a\\"" :
f32a ,}
    ,}// " ++ [128512]%N ++ runes_of_ascii " emoji
,
uint16  falsey ,body ,repeat
    // a // b
    string
    lengthOf `say ""hi""`
    , } packet i64_
{	x
    ,@lengthOf( i64_ )
@tag( 7// a // b
)
    // `tick` ""quote"" 'q'
    @calculatedFrom(""""
    )  repeat zchar[
    1 ] i8i8
    ,
    i64
    i64_ @calculatedFrom(
    ""\" ++ [233]%N ++ runes_of_ascii """ )`line1
line2`,
float//x
`tab	here` , @calculatedFrom( """ ++ [128512]%N ++ runes_of_ascii """ ) char[] Logon// @lengthOf(
`` , match  leftPad as stringy {
    0
    :float , ""\n""
    : // trailing space 
Pad  , } ,
i8i8 @lengthOf( roots )	, } root packet	i8i8 { tag
    @lengthOf(T
) `" ++ [28040; 24687; 31867; 22411]%N ++ runes_of_ascii "` // " ++ [128512]%N ++ runes_of_ascii " emoji
, }")).
Eval vm_compute in ("<<<M924>>>" ++ check (runes_of_ascii "options {msg_type=	int64 ;// `tick` ""quote"" 'q'
tag // c
=
// `tick` ""quote"" 'q'
// " ++ [128512]%N ++ runes_of_ascii " emoji
true falsey = ' '
    ;  } MetaData float
// a // b
/// triple
{
    chars
    pack  , o Pad
, // `tick` ""quote"" 'q'
rootA int , // `tick` ""quote"" 'q'
i64 Logon, char[ 00 ]lengthOf
`two words` , u128 u8x
    `// not a comment`
,
    }MetaData packetx { }root	packet uint8x
    { @lengthOf( matchKey ) MetaDataX {o { repeat
uint16 i64_ , uint64  msg_type
@calculatedFrom( """"  ) , } , //
repeat i64 BodyLength
    `u8 x,`
    , char[] Z9_
,} , //
char[ 3]
stringy
    ,
    @lengthOf(
uint8x
) @calculatedFrom(	""abc""	)
A
    `" ++ [28040; 24687; 31867; 22411]%N ++ runes_of_ascii "` ,
i32
    msg_type  , i8 f32a @lengthOf( falsey ) , @calculatedFrom( ""CRC32"" ) u8
    MetaDataX  @calculatedFrom(
""`tick`"" ), }
")).
Eval vm_compute in ("<<<M3530>>>" ++ check (runes_of_ascii "options {
    StringPrefixLenType = u16;
    ArrayPrefixLenType = u32;
    FixedStringPadFromLeft = false;
    FixedStringPadChar = '0';
}
packet Logout {
    f64 f1,
    i16 Note,
    @rightPad('\x00') char[11] Flags,
}
packet Cancel {
    float64 msgKind,
}
packet Reject {
    InQty43 {
        float32 sym,
        char[10] Tail,
        uint8 venue,
        uint16 f1,
        char[9] Acct,
    },
}
packet Trade {
    char[] x,
    zchar[6] Note,
    repeat Reject,
}
root packet Order {
    Cancel,
    Logout,
    u64 Acct,
    u32 OrderId,
    match OrderId as Body {
        [127, 70] : Reject,
        177 : Trade,
        58 : Logout,
        75 : Cancel,
    },
    u32 Tail @calculatedFrom(""CR\
C32""),
}
")).
Eval vm_compute in ("<<<M3933>>>" ++ check (runes_of_ascii "// a // b
root packet charz {
    @tag(007)
    repeat u32 chars,
    Packet `doc`,
}

MetaData rootA {
    char[42] Packet `crlf
        line`,
}

// c
packet asx {
    repeat calculatedFrom {
        asx @lengthOf(chars),
        repeat string x_y_z `line1
                line2`,
        repeat u32 i64_ `it's`,
        A @lengthOf(Logon) `tab	here`,
    },
    uint32 asx @lengthOf(BodyLength),
    // " ++ [27880; 37322]%N ++ runes_of_ascii "
    // " ++ [27880; 37322]%N ++ runes_of_ascii "
    char[0123456789] calculatedFrom,
    repeat Z9_,
    match asx as uint8x {
        // c
        [7, ""{,}"", ""it's"", ""CRC32""] : msg_type,
        [1] : u8x,
        ""CRC32"" : T,
    },
    i8 charz @calculatedFrom(""x y"") `" ++ [233]%N ++ runes_of_ascii "`,
}

MetaData u8x {
    i8 T,
}")).
Eval vm_compute in ("<<<M419>>>" ++ check (runes_of_ascii "// `tick` ""quote"" 'q'
packet
    A {
// `tick` ""quote"" 'q'
// c
repeat lengthOf // " ++ [128512]%N ++ runes_of_ascii " emoji
{ As
metadata,match pack as// @lengthOf(
As {[ 7 ]://x
int
,""it's"" : i64_ ,""a\""b"": // " ++ [27880; 37322]%N ++ runes_of_ascii "
string_ ,
    [ 00 , 4294967296 , ""{,}"" , """ ++ [233]%N ++ runes_of_ascii "t" ++ [233]%N ++ runes_of_ascii """ ,
""" ++ [233]%N ++ runes_of_ascii "t" ++ [233]%N ++ runes_of_ascii """
, ""abc"",
1
, 1]
: Pad
    // @lengthOf(
    } , leftPad x
// @lengthOf(
//x
`" ++ [28040; 24687; 31867; 22411]%N ++ runes_of_ascii "` ,
char[ 65535
    ]metadata ,}
    ,
}packet	a1 {
} packet//x
pack
{ int {i64_  x_y_z,// " ++ [128512]%N ++ runes_of_ascii " emoji
u8x `say ""hi""` ,f32 A
    `u8 x,`  ,} ,
}
    root packet falsey { @tag( 255) repeat float64
Logon
    ,
float64
Foo @lengthOf( float )  , } options{ matchKey
    // packet A { u8 x, }
    = char[] ; tag =' ' ; i64_=
""1"" }
")).
Eval vm_compute in ("<<<M1142>>>" ++ check (runes_of_ascii "options{ } options  { calculatedFrom = true int = ""it's""tag  = false
;
i64_= 3; chars
= ' ' } options //	t
{ o = ' '; repeatCount // a // b
= 00} root
// " ++ [128512]%N ++ runes_of_ascii " emoji
// " ++ [128512]%N ++ runes_of_ascii " emoji
packet
uint8x
{
// @lengthOf(
// `tick` ""quote"" 'q'
@rightPad ( '\x00'
    )i64
    pack @calculatedFrom(
    ""\" ++ [233]%N ++ runes_of_ascii """)
    , repeat char[ 255] body , @tag(10
)@lengthOf( x_y_z	)int8 a1 `doc` ,i64_ @calculatedFrom(
""// no comment"")
// " ++ [27880; 37322]%N ++ runes_of_ascii "
// " ++ [128512]%N ++ runes_of_ascii " emoji
`" ++ [233]%N ++ runes_of_ascii "` ,match asx as i64_ {
""a\""b"" :  f32a , [ ""a\\""] : Logon  , [ 4294967296 ]:
    pack ,10 : x_y_z
// `tick` ""quote"" 'q'
// trailing space 
,3
: charz } , @leftPad ( )  asx chars	`tab	here` , }
")).
Eval vm_compute in ("<<<M259>>>" ++ check (runes_of_ascii "MetaData Header
{
} root	packet chars
    { char[	00
]
MetaDataX `u8 x,` ,repeat Foo stringy // " ++ [128512]%N ++ runes_of_ascii " emoji
, @lengthOf( u8x ) char[] Foo , match  Header as
leftPad { [
""abc"" ,
    255
, """ ++ [128512]%N ++ runes_of_ascii """ , """" ]	:charz
,007
    // packet A { u8 x, }
    : uint8x , 0 :asx , """"
    // " ++ [27880; 37322]%N ++ runes_of_ascii "
    : MetaDataX , } ,	char[]
uint8x , @tag(  1 )
    i8i8{ x Packet `doc`	, zchar[ 4294967296  ] metadata @calculatedFrom(
    ""a\\"" ) `" ++ [233]%N ++ runes_of_ascii "`, zchar[  10]//
crc
    @lengthOf( Foo
    // @lengthOf(
    ) `crlf
line` ,
} ,}	MetaData
msg_type {
    char[] calculatedFrom `line1
line2`,
} // `tick` ""quote"" 'q'")).
Eval vm_compute in ("<<<M1282>>>" ++ check (runes_of_ascii "packet matchKey{char u128@calculatedFrom( ""CRC32""
    //x
    )
`{ , }`
, }
    MetaData
    leftPad
//
// c
{ uint8x lengthOf
// packet A { u8 x, }
// @lengthOf(
, o
    f32a
// a // b
/// triple
,zchar[7 ] Z9_ ,
}
packet body {	@tag( 255)
repeatCount @lengthOf( BodyLength )
, @tag( 7 ) repeat zchar[ 4294967296]i64_ , match x_y_z	as Header {""`tick`""
: rootA , }  ,@calculatedFrom(
""packet""
    ) rootA
    {  uint64
string_
, char[ // " ++ [27880; 37322]%N ++ runes_of_ascii "
65535 ] BodyLength	@calculatedFrom(""a\""b"" ) `tab	here`
    ,
    int64 pack `line1
line2`
    ,}	, }
")).
Eval vm_compute in ("<<<M796>>>" ++ check (runes_of_ascii "//
packet
options1 { @leftPad (
    ) char[ 4294967296] Z9_@lengthOf(i64_ )`" ++ [28040; 24687; 31867; 22411]%N ++ runes_of_ascii "` , }
    options {} packet len
{ u16
    lengthOf , repeat
    matchKey f32a
,  string i64_ @calculatedFrom(  ""`tick`""  ) , zchar[ // @lengthOf(
0
]
repeatCount ,stringy , _x {repeat As`crlf
line`// `tick` ""quote"" 'q'
, repeat Header MetaDataX,
match
    As as asx{
    [ """ ++ [128512]%N ++ runes_of_ascii """
// trailing space 
// " ++ [128512]%N ++ runes_of_ascii " emoji
] : len }	, repeat
int16 u8x `say ""hi""`
    ,}
    , repeat char[] trueish , u32 tag @calculatedFrom( ""a\\"" ) `two words` , }
")).
Eval vm_compute in ("<<<M1085>>>" ++ check (runes_of_ascii "packet// a // b
u8x{// a // b
len
    { o roots , match
string_// c
as
repeatCount { [
""`tick`"" ,""" ++ [128512]%N ++ runes_of_ascii """
    ,// " ++ [128512]%N ++ runes_of_ascii " emoji
7
,""" ++ [233]%N ++ runes_of_ascii "t" ++ [233]%N ++ runes_of_ascii """ ,
    10 , ""packet"" ,""\" ++ [233]%N ++ runes_of_ascii """  ] : roots ,[
10,1 ]
:
    leftPad , } ,
// c
// c
u  T // packet A { u8 x, }
, zchar[ 3 // a // b
] float `" ++ [28040; 24687; 31867; 22411]%N ++ runes_of_ascii "` ,} ,
    } MetaData
asx{ zchar[
    10 ] BodyLength , roots tag , } MetaData zchar
{uint64
chars `" ++ [28040; 24687; 31867; 22411]%N ++ runes_of_ascii "`
    ,char[]Logon
, Packet o`crlf
line` ,
falsey float,
    // @lengthOf(
    char[]
    uint8x , int  A`it's`, }")).
Eval vm_compute in ("<<<M3285>>>" ++ check (runes_of_ascii "// top
packet // c0
trueish
    // c1
{ repeat // c3
u32
    // c4
MetaDataX // c5a
  // c5b
`doc` // c6a
  // c6b
, Header
    // c8
{
    // c9
packetx // c10a
  // c10b
o `u8 x,` // c12a
  // c12b
, // c13a
  // c13b
}
    // c14
,
    // c15
@leftPad // c16
( // c17a
  // c17b
'\x00' // c18a
  // c18b
) repeat char[
    // c21
0123456789
    // c22
] // c23
repeatCount // c24
,
    // c25
} // c26a
  // c26b
packet // c27
Packet // c28
{ // c29a
  // c29b
} ")).
Eval vm_compute in ("<<<M1158>>>" ++ check (runes_of_ascii "packet// a // b
crc {@rightPad ( '0') int@calculatedFrom(""\n"" ) ,
o// trailing space 
, Header
`say ""hi""`	, @lengthOf( asx
// " ++ [27880; 37322]%N ++ runes_of_ascii "
//
)
    // c
    repeat packetx
{  match uint8x
    as o { 65535 /// triple
:
    _x// trailing space 
42 : x,  }, } ,repeat x_y_z	, char[ 00 ] crc@lengthOf(
    Z9_
)
    , u8x
    {uint32
float
    `" ++ [28040; 24687; 31867; 22411]%N ++ runes_of_ascii "`
, string_
    `
`, zchar[ 65535] u , falsey
    @lengthOf( MetaDataX) ,
    //
    } ,string A `two words`  , }")).
Eval vm_compute in ("<<<M817>>>" ++ check (runes_of_ascii "
packet As //x
{ repeatCount @lengthOf(tag // trailing space 
)	, trueish {i64 a1 //	t
,Z9_ @calculatedFrom(""CRC32""	) , char[
    42 ] rootA // c
, repeat/// triple
u128 _x ,}
, @lengthOf(
    string_ //	t
) i8
    falsey ,	@leftPad (' ' ) @rightPad (' ' ) match // @lengthOf(
calculatedFrom as  leftPad { 65535 :
leftPad
[
00
,
1 , ""\n"" ,
1 ,3
// " ++ [27880; 37322]%N ++ runes_of_ascii "
// a // b
]
: repeatCount , [
    // " ++ [27880; 37322]%N ++ runes_of_ascii "
    """ ++ [128512]%N ++ runes_of_ascii """ ,42 ] : i8i8, },} // " ++ [128512]%N ++ runes_of_ascii " emoji")).
Eval vm_compute in ("<<<M100>>>" ++ check (runes_of_ascii "packet roots {
    } packet metadata {
    @lengthOf( u) @tag(00 )
@lengthOf( Pad )  T @lengthOf( pack ),@rightPad
( '0' )lengthOf , @lengthOf(  u) char[]
    //
    A ,
match  Packet as // `tick` ""quote"" 'q'
a1{007
: leftPad 65535
    :// trailing space 
msg_type , ""a\\"" :
// " ++ [128512]%N ++ runes_of_ascii " emoji
// @lengthOf(
Z9_ """ ++ [233]%N ++ runes_of_ascii "t" ++ [233]%N ++ runes_of_ascii """
: A , ""// no comment""	:x_y_z,
4294967296 : a1
    ,/// triple
} ,f32	T
    , f64 roots	@lengthOf( int ), }")).
Eval vm_compute in ("<<<M784>>>" ++ check (runes_of_ascii "packet Header
{stringy@calculatedFrom( ""x y"" ) ,
    @tag(0	) uint64 trueish
    //	t
    ,
    uint8x , trueish BodyLength,crc chars , } MetaData
As { char[]A ,u8x trueish
//	t
//
`
` , uint16
// trailing space 
// " ++ [27880; 37322]%N ++ runes_of_ascii "
leftPad`" ++ [233]%N ++ runes_of_ascii "` , i16 u8x // c
,
// trailing space 
// @lengthOf(
f64
    f32a  `tab	here` ,}
    packet i8i8
{repeat int `line1
line2` ,} MetaData
    len {
crc string_`crlf
line`, }
")).
Eval vm_compute in ("<<<M258>>>" ++ check (runes_of_ascii "MetaData stringy
    //x
    { A MetaDataX ,}
    packet  x	{ @calculatedFrom( /// triple
"""")
char[] body``
/// triple
// c
, matchKey @lengthOf( uint8x ) , } // packet A { u8 x, }
options{	T
// `tick` ""quote"" 'q'
// trailing space 
=true
; o// packet A { u8 x, }
=
// c
//	t
'0'	; asx
    //
    = 4294967296
x= ""CRC32""o =
zchar[ 7 ] } options { /// triple
As =false ; } //x")).
Eval vm_compute in ("<<<M1328>>>" ++ check (runes_of_ascii "packet
zchar { }  root packet f32a {}options { } root //
packet  options1 {
@calculatedFrom(
""`tick`""	)char[] BodyLength , match	x_y_z as string_  {  1
    : len ,
    ""\" ++ [233]%N ++ runes_of_ascii """	: lengthOf ,//x
[""""
] :
leftPad
    , 3
    : leftPad[""a	b""]
    :
BodyLength
,
} //	t
,
// `tick` ""quote"" 'q'
// trailing space 
} MetaData matchKey {
char[ 0123456789 ] u8x	`" ++ [28040; 24687; 31867; 22411]%N ++ runes_of_ascii "`
,
    }
")).
Eval vm_compute in ("<<<M4391>>>" ++ check (runes_of_ascii "// `tick` ""quote"" 'q'
root packet u128 {
    Z9_ {
        match trueish as rootA {
            [0, ""abc"", ""{,}""] : MetaDataX,
            [""a\""b""] : tag,
            ""CRC32"" : options1,
            [""" ++ [28040; 24687]%N ++ runes_of_ascii """, ""a\\""] : lengthOf,
            ""a\""b"" : chars,
        },
    },
    @rightPad('0')
    @calculatedFrom(""CRC32"")
    char[00] packetx,
}// a // b")).
Eval vm_compute in ("<<<M122>>>" ++ check (runes_of_ascii "root packet u128{} root packet
charz {// packet A { u8 x, }
@tag( 7
    )MetaDataX	, _x { uint32
As,
    charz ,}	,
len {  int64	u128 , repeat falsey
{x_y_z@lengthOf(
asx )
//	t
// c
, // c
}
,repeatCount
    {	metadata
@calculatedFrom( ""\n""
) `doc` , Logon Foo
// trailing space 
// " ++ [128512]%N ++ runes_of_ascii " emoji
,} // " ++ [27880; 37322]%N ++ runes_of_ascii "
,
float  rootA , }
, }
// a // b
")).
Eval vm_compute in ("<<<M1083>>>" ++ check (runes_of_ascii "// a // b
options {
_x = ' '	} packet pack { } packet Foo { @tag(10
)
char BodyLength @lengthOf(	_x )
`say ""hi""` /// triple
, zchar[42 ] Foo ,
    match string_
    as
o {
0123456789: u128 42
    :
    asx,
} , // " ++ [27880; 37322]%N ++ runes_of_ascii "
match lengthOf as
    body
{ ""1"" : u128
    , 3 : chars , 00
    :	T, },
    // `tick` ""quote"" 'q'
    }
")).
Eval vm_compute in ("<<<M360>>>" ++ check (runes_of_ascii "
packet zchar{
stringy//
@lengthOf(
    MetaDataX )
    `it's` ,
    @tag(
    1
    )match	Z9_ as
    calculatedFrom { """ ++ [28040; 24687]%N ++ runes_of_ascii """ :
    Header, 0123456789 : asx [	255 ]//	t
: // " ++ [128512]%N ++ runes_of_ascii " emoji
rootA	""\n""
: zchar , } , repeat float64 rootA, char[] repeatCount
, repeat
int32 metadata `" ++ [233]%N ++ runes_of_ascii "` , repeat
char[
7	] u8x ,
    }
")).
Eval vm_compute in ("<<<M1184>>>" ++ check (runes_of_ascii "/// triple
MetaData body { zchar[ 65535 ]
    //	t
    _x , zchar[ 10 ]
o	, i8i8 trueish ,
Header
u128
`doc` ,// `tick` ""quote"" 'q'
} packet matchKey { zchar `" ++ [233]%N ++ runes_of_ascii "` , }
packet
    metadata
    {int16
    len@lengthOf(
// trailing space 
// `tick` ""quote"" 'q'
charz ) `two words` , // trailing space 
}
")).
Eval vm_compute in ("<<<M1577>>>" ++ check (runes_of_ascii "root packet Foo // " ++ [128512]%N ++ runes_of_ascii " emoji
{ } options {
    // a // b
    tag // `tick` ""quote"" 'q'
= //	t
""""
    ; u8x = zchar[0  ] }
MetaData
    int {zchar[ 10]
lengthOf	`` , i64 u8x`// not a comment` ,MetaDataX pack// `tick` ""quote"" 'q'
`crlf
line`
match Logon charz `crlf
line`
    ,
    // a // b
    }
")).
Eval vm_compute in ("<<<M1520>>>" ++ check (runes_of_ascii "root packet Foo // " ++ [128512]%N ++ runes_of_ascii " emoji
{ } options {
    // a // b
    tag // `tick` ""quote"" 'q'
= //	t
""""
    ; u8x = zchar[0  ] }
MetaData
    int {zchar[ 10] ]
lengthOf	`` , i64 u8x`// not a comment` ,MetaDataX pack// `tick` ""quote"" 'q'
`crlf
line`
, Logon charz `crlf
line`
    ,
    // a // b
    }
")).
Eval vm_compute in ("<<<M1426>>>" ++ check (runes_of_ascii "root packet Foo // " ++ [128512]%N ++ runes_of_ascii " emoji
} { options {
    // a // b
    tag // `tick` ""quote"" 'q'
= //	t
""""
    ; u8x = zchar[0  ] }
MetaData
    int {zchar[ 10]
lengthOf	`` , i64 u8x`// not a comment` ,MetaDataX pack// `tick` ""quote"" 'q'
`crlf
line`
, Logon charz `crlf
line`
    ,
    // a // b
    }
")).
Eval vm_compute in ("<<<M1587>>>" ++ check (runes_of_ascii "root packet Foo // " ++ [128512]%N ++ runes_of_ascii " emoji
{ } options {
    // a // b
    tag // `tick` ""quote"" 'q'
= //	t
""""
    ; u8x = zchar[0  ] }
MetaData
    int {zchar[ 10]
lengthOf	`` , i64 u8x`// not a comment` ,MetaDataX pack// `tick` ""quote"" 'q'
`crlf
line`
, Logon uint8 `crlf
line`
    ,
    // a // b
    }
")).
Eval vm_compute in ("<<<M1582>>>" ++ check (runes_of_ascii "root packet Foo // " ++ [128512]%N ++ runes_of_ascii " emoji
{ } options {
    // a // b
    tag // `tick` ""quote"" 'q'
= //	t
""""
    ; u8x = zchar[0  ] }
MetaData
    int {zchar[ 10]
lengthOf	`` , i64 u8x`// not a comment` ,MetaDataX pack// `tick` ""quote"" 'q'
`crlf
line`
, f32 charz `crlf
line`
    ,
    // a // b
    }
")).
Eval vm_compute in ("<<<M625>>>" ++ check (runes_of_ascii "
options { u128 = u32 ;Z9_
=""`tick`"" trueish= ""`tick`"" ;
    // @lengthOf(
    tag
    = '0'
} options
    { metadata = ""a	b"" ;
packetx =//	t
'\x00' // " ++ [128512]%N ++ runes_of_ascii " emoji
} options {charz
    = 65535}
options {
    msg_type // trailing space 
=zchar[
10 ] ;
    asx	= false
    tag
= char[] ;
}")).
Eval vm_compute in ("<<<M745>>>" ++ check (runes_of_ascii "  packet roots  {
match
// packet A { u8 x, }
// " ++ [27880; 37322]%N ++ runes_of_ascii "
u as repeatCount{4294967296	: repeatCount ,
    1
    : T, ""CRC32"" : matchKey , } , @rightPad // @lengthOf(
(
) @lengthOf( A	) @lengthOf(
/// triple
//x
lengthOf // " ++ [27880; 37322]%N ++ runes_of_ascii "
) repeat Pad {	zchar[ 4294967296] T  `tab	here`,} , }
")).
Eval vm_compute in ("<<<M3686>>>" ++ check (runes_of_ascii "packet _x {
    // packet A { u8 x, }
    repeat u8 Logon,
    match Packet as repeatCount {
        65535 : leftPad,
        [7] : rootA,
        4294967296 : Header,
        [00] : u8x,
        42 : MetaDataX,
        007 : uint8x,
        // @lengthOf(
    },
}")).
Eval vm_compute in ("<<<M4471>>>" ++ check (runes_of_ascii "MetaData i8i8 {
    int8 charz `doc`,
}

packet Header {
    repeat int32 lengthOf `line1
        line2`,
}

options {
    float = char[];
}

packet i8i8 {
    uint8 u128 @lengthOf(repeatCount) `crlf
        line`,
}

options {
    Packet = char[007]
}")).
Eval vm_compute in ("<<<M3680>>>" ++ check (runes_of_ascii "packet _x {
    // packet A { u8 x, }
    repeat u8 Logon,
    match Packet as repeatCount {
        65535 : leftPad,
        [7] : rootA,
        4294967296 : Header,
        [00] : u8x,
        42 : MetaDataX,
        007 : uint8x,
    },
}")).
Eval vm_compute in ("<<<M1320>>>" ++ check (runes_of_ascii "root
packet stringy { match uint8x as roots
    {
[ ""a\""b""] :rootA
, 42
:
    int
    , ""a\\"" : Logon,
[ 7 ] : o , 65535
: x	}
// `tick` ""quote"" 'q'
// a // b
,
@tag( // " ++ [128512]%N ++ runes_of_ascii " emoji
65535 ) string options1 @lengthOf( Logon
    ) ,
    }")).
Eval vm_compute in ("<<<M257>>>" ++ check (runes_of_ascii "packet
float { f64 float `u8 x,` ,
// " ++ [27880; 37322]%N ++ runes_of_ascii "
//	t
@tag(
1 )len tag `crlf
line`
, } root packet u	{ o x `it's` , @rightPad
    ( ) repeat zchar[
00]	Foo ,
    // trailing space 
    }root
packet// `tick` ""quote"" 'q'
string_{}

")).
Eval vm_compute in ("<<<M3613>>>" ++ check (runes_of_ascii "packet B {
    // c2
    u8 a,
}// c6a

// c6b
root packet P {
    // c10a
    // c10b
    u8 K,// c13a
    // c13b
    u64 L @lengthOf(Body),
    // c19
    match K as Body {
        // c24
        1 : B,
    },
}// c31")).
Eval vm_compute in ("<<<M2298>>>" ++ check (runes_of_ascii "MetaData Packet { }packet	asx  { @lengthOf( asx) falsey`crlf
line`
,
    }
    packet x	{@leftPad// @lengthOf(
rootA	,u32 options1 `say ""hi""` , @tag( 7
    )// packet A { u8 x, }
msg_type @lengthOf(
stringy	)	, }

")).
Eval vm_compute in ("<<<M2214>>>" ++ check (runes_of_ascii "Packet MetaData { }packet	asx  { @lengthOf( asx) falsey`crlf
line`
,
    }
    packet x	{uint32// @lengthOf(
rootA	,u32 options1 `say ""hi""` , @tag( 7
    )// packet A { u8 x, }
msg_type @lengthOf(
stringy	)	, }

")).
Eval vm_compute in ("<<<M3289>>>" ++ check (runes_of_ascii "// top
packet // c0
o // c1
{ // c2
@tag( // c3
42 // c4
) // c5
repeat // c6
x // c7
{ // c8
char[ // c9
0123456789 // c10
] // c11
i64_ // c12
, // c13
} // c14
, // c15
} // c16
options // c17
{ // c18
} // c19
")).
Eval vm_compute in ("<<<M2394>>>" ++ check (runes_of_ascii "MetaData a" ++ [769]%N ++ runes_of_ascii "b { }packet	asx  { @lengthOf( asx) falsey`crlf
line`
,
    }
    packet x	{uint32// @lengthOf(
rootA	,u32 options1 `say ""hi""` , @tag( 7
    )// packet A { u8 x, }
msg_type @lengthOf(
stringy	)	, }

")).
Eval vm_compute in ("<<<M2355>>>" ++ check (runes_of_ascii "MetaData Packet { }packet	asx  { @lengthOf( asx) falsey`crlf
line`
,
    }
    packet x	{uint32// @lengthOf(
rootA	,u32 options1 `say ""hi""` , @tag( 7
    )// packet A { u8 x, }
msg_type @lengthOf(
	)	, }

")).
Eval vm_compute in ("<<<M4436>>>" ++ check (runes_of_ascii "packet metadata {
    @rightPad('\x00')
    @rightPad('\x00')
    char[] _x @calculatedFrom(""a\\""),
    repeat int64 roots,
    repeat zchar[007] i64_,
    match A as o {
        ""1"" : Foo,
    },//x
}")).
Eval vm_compute in ("<<<M1165>>>" ++ check (runes_of_ascii "options
{
roots = u8 f32a =
'\x00'	BodyLength
=
    """ ++ [28040; 24687]%N ++ runes_of_ascii """ }MetaData// a // b
packetx{ i32  options1,	zchar[ 1]
u8x // @lengthOf(
`doc` ,
    zchar[ 7 ]	matchKey // " ++ [27880; 37322]%N ++ runes_of_ascii "
, int8 As `crlf
line`
, }")).
Eval vm_compute in ("<<<M3597>>>" ++ check (runes_of_ascii "  packet

    Pad

{	} packet 	 // packet A { u8 x, }
		len  // a // b
  { string 
u128,} root packet  o
{
@tag( 7)char[]
msg_type
    @calculatedFrom(""// no comment""

    )
,
	}

")).
Eval vm_compute in ("<<<M4042>>>" ++ check (runes_of_ascii "
packet A
    {

u8
a,
    }

    packet B	{ u16  b

, } root
	packet
    P { u8 K1

,  u8
	K2
,
    match
K1 as

    M1 
{	1:  A, } ,
match
	K2
	as

M2 {	1:B 
, }

,  }

")).
Eval vm_compute in ("<<<M506>>>" ++ check (runes_of_ascii "MetaData body{
i8
zchar
,string_ Foo
,
char[
3  ]MetaDataX  ,} options
{body =
    zchar[ 10
]//
;	msg_type  = 007 //	t
Header = ""{,}"" ;
    zchar = false
    ;
    }
")).
Eval vm_compute in ("<<<M1357>>>" ++ check (runes_of_ascii "root packet  len{
@rightPad (
'0' )
T {
/// triple
// c
match charz
as crc
{ 3  :// a // b
BodyLength 42 : stringy ""a\\"" :options1 // c
}
    , } ,
} // a // b")).
Eval vm_compute in ("<<<M1205>>>" ++ check (runes_of_ascii "
packet charz {
    char[
// packet A { u8 x, }
//
0123456789
] A `it's` , u64
Z9_
, @calculatedFrom(
""// no comment"")
    A
,u
    o
    , }  options{}
")).
Eval vm_compute in ("<<<M102>>>" ++ check (runes_of_ascii "packet u128
{ i64 A `{ , }`
,
    } MetaData
    i64_ {
trueish
Z9_ ,
// " ++ [128512]%N ++ runes_of_ascii " emoji
// `tick` ""quote"" 'q'
} options { metadata = i16 ; charz=
false}
")).
Eval vm_compute in ("<<<M623>>>" ++ check (runes_of_ascii "packet uint8x
    // c
    {
char[
    7]stringy
    @calculatedFrom(""a\""b""  )
`tab	here` , // c
@calculatedFrom(
    ""abc""
) Logon roots ,}
")).
Eval vm_compute in ("<<<M4125>>>" ++ check (runes_of_ascii "options

    {matchKey = 
' '

tag
    = '\x00' 
; metadata
	// `tick` ""quote"" 'q'
    	// @lengthOf(
=  string;
charz	= 65535
	; 
}

")).
Eval vm_compute in ("<<<M3994>>>" ++ check (runes_of_ascii "packet

    calculatedFrom{
    @tag( 4294967296 )	u msg_type
	,

    char[
3

    ]  crc@lengthOf(
    len
	)
`u8 x,` 
, // c
}")).
Eval vm_compute in ("<<<M4486>>>" ++ check (runes_of_ascii "packet A {
    match k as n {
        [
            1, 22, 007, 4, 5,
            66, 7, 8, 9
        ] : B,
        2 : C,
    },
}")).
Eval vm_compute in ("<<<M1199>>>" ++ check (runes_of_ascii "options
    {charz
= 00 ; leftPad = zchar[0123456789
    ] ;
//x
/// triple
} options  { falsey= u32 ; }root packet float{
    }
")).
Eval vm_compute in ("<<<M3945>>>" ++ check (runes_of_ascii "packet
A

{

match  k	as n {

[
	""a""

,

22 ,
	""c c""  , 4 ,
	""e"",

    66

    ,  ""g"" ,	8	,""i""]
: B	2

    :  C}
    , }
")).
Eval vm_compute in ("<<<M612>>>" ++ check (runes_of_ascii "options
{Header =
4294967296 charz =true Pad =	'\x00'charz=
    // `tick` ""quote"" 'q'
    """"
    ; } MetaData MetaDataX { }")).
Eval vm_compute in ("<<<M1685>>>" ++ check (runes_of_ascii "root packet /// triple
rootA {	i32
MetaDataX@calculatedFrom( ""CRC32"" ) `line1
line2` , } ' ' BodyLength {
u8
rootA, } // c")).
Eval vm_compute in ("<<<M4204>>>" ++ check (runes_of_ascii "packet As {
    char[0123456789] repeatCount,
    u32 _x `// not a comment`,
    @tag(3)
    repeat i64 len `say ""hi""`,
}")).
Eval vm_compute in ("<<<M1887>>>" ++ check (runes_of_ascii "packet
    Pad // a // b
{ ~ i8i8 @calculatedFrom( ""a	b"") `u8 x,` ,
} options{ float// " ++ [128512]%N ++ runes_of_ascii " emoji
= f64 i64_
=//	t
00 }
")).
Eval vm_compute in ("<<<M1792>>>" ++ check (runes_of_ascii "packet
    Pad // a // b
i8i8 { @calculatedFrom( ""a	b"") `u8 x,` ,
} options{ float// " ++ [128512]%N ++ runes_of_ascii " emoji
= f64 i64_
=//	t
00 }
")).
Eval vm_compute in ("<<<M1845>>>" ++ check (runes_of_ascii "packet
    Pad // a // b
{ i8i8 @calculatedFrom( ""a	b"") `u8 x,` ,
} options{ float// " ++ [128512]%N ++ runes_of_ascii " emoji
 f64 i64_
=//	t
00 }
")).
Eval vm_compute in ("<<<M1850>>>" ++ check (runes_of_ascii "packet
    Pad // a // b
{ i8i8 @calculatedFrom( ""a	b"") `u8 x,` ,
} options{ float// " ++ [128512]%N ++ runes_of_ascii " emoji
=  i64_
=//	t
00 }
")).
Eval vm_compute in ("<<<M1701>>>" ++ check (runes_of_ascii "root packet /// triple
rootA {	i32
MetaDataX@calculatedFrom( ""CRC32"" ) `line1
line2` , } MetaData BodyLength {")).
Eval vm_compute in ("<<<M4>>>" ++ check (runes_of_ascii "packet // a // b
tag {
    char[ 7]
body
@calculatedFrom( ""a	b"")
// trailing space 
// trailing space 
,
}")).
Eval vm_compute in ("<<<M2994>>>" ++ check (runes_of_ascii "packet A {
  match k as n {
    [1, ""bb"", 007, ""d"", 5, ""f"", 7, ""h"", 9, ""j"", 11, ""l""] : B
    2 : C
  },
}")).
Eval vm_compute in ("<<<M3346>>>" ++ check (runes_of_ascii "packet calculatedFrom { @tag(
// c
4294967296 ) u msg_type , char[ 3 ] crc @lengthOf( len ) `u8 x,` , }")).
Eval vm_compute in ("<<<M3976>>>" ++ check (runes_of_ascii "
packet
	leftPad
	{char[]
MetaDataX `crlf
line` 
, f32 
pack
    @calculatedFrom( ""a\\"")
`" ++ [28040; 24687; 31867; 22411]%N ++ runes_of_ascii "`  , 
} ")).
Eval vm_compute in ("<<<M3671>>>" ++ check (runes_of_ascii "packet A {
    u32 crc @calculatedFrom(""\
        ""),
    @calculatedFrom(""\
        "")
    u8 y,
}")).
Eval vm_compute in ("<<<M2968>>>" ++ check (runes_of_ascii "packet A {
  match k as n {
    [1, ""bb"", 007, ""d"", 5, ""f"", 7, ""h"", 9, ""j""] : B
    2 : C
  },
}")).
Eval vm_compute in ("<<<M3228>>>" ++ check (runes_of_ascii "packet Logon { @tag( 42 ) @rightPad // c
( ' ' ) @leftPad ( ) repeat trueish { string T , } , }")).
Eval vm_compute in ("<<<M4472>>>" ++ check (runes_of_ascii "packet A{  match k

as 
n  { [
	1  ,	22
    , ""c c"" 
,
    4
	]
    : B
    2

    :C}
, }

")).
Eval vm_compute in ("<<<M4312>>>" ++ check (runes_of_ascii "packet A {
    Logon {
        repeat char[42] falsey `a\`,
        repeat int32 T,
    },
}")).
Eval vm_compute in ("<<<M2294>>>" ++ check (runes_of_ascii "MetaData Packet { }packet	asx  { @lengthOf( asx) falsey`crlf
line`
,
    }
    packet x")).
Eval vm_compute in ("<<<M2913>>>" ++ check (runes_of_ascii "packet A {
  match k as n {
    [""a"", ""bb"", ""c c"", ""d"", ""e"", ""f""] : B,
    2 : C
  },
}")).
Eval vm_compute in ("<<<M1978>>>" ++ check (runes_of_ascii "root
packet crc
    { @calculatedFrom( f32a """ ++ [233]%N ++ runes_of_ascii "t" ++ [233]%N ++ runes_of_ascii """ )
    `say ""hi""`, lengthOf `` ,  }")).
Eval vm_compute in ("<<<M3477>>>" ++ check (runes_of_ascii "packet order_item {
    u8 a,
}
root packet new_order {
    order_item,
    u8 x,
}
")).
Eval vm_compute in ("<<<M1989>>>" ++ check (runes_of_ascii "root
packet crc
    { f32a @calculatedFrom( ( )
    `say ""hi""`, lengthOf `` ,  }")).
Eval vm_compute in ("<<<M3319>>>" ++ check (runes_of_ascii "packet o { @tag( 42 ) repeat x { char[ 0123456789 ] i64_
// c
, } , } options { }")).
Eval vm_compute in ("<<<M278>>>" ++ check (runes_of_ascii "options  {Packet= zchar[ 3
] u128 = zchar[
42 ] a1=
'\x00'	;
crc=	0	; //	t
}
")).
Eval vm_compute in ("<<<M2887>>>" ++ check (runes_of_ascii "packet A {
  match k as n {
    [""a"", ""bb"", ""c c"", ""d""] : B,
    2 : C
  },
}")).
Eval vm_compute in ("<<<M291>>>" ++ check (runes_of_ascii "options
    { }
    packet
    string_ {@rightPad ( '0'// c
)
u16 body , }")).
Eval vm_compute in ("<<<M2892>>>" ++ check (runes_of_ascii "packet A {
  match k as n {
    [""a"", 22, ""c c"", 4] : B
    2 : C
  },
}")).
Eval vm_compute in ("<<<M2882>>>" ++ check (runes_of_ascii "packet A {
  match k as n {
    [""a"", ""bb"", 007] : B,
    2 : C
  },
}")).
Eval vm_compute in ("<<<M2879>>>" ++ check (runes_of_ascii "packet A {
  match k as n {
    [""a"", 22, ""c c""] : B
    2 : C
  },
}")).
Eval vm_compute in ("<<<M3172>>>" ++ check (runes_of_ascii "packet A { match k as n { [ // a
 1 // b
 , // c
 2 ] // d
 : B }, }")).
Eval vm_compute in ("<<<M2183>>>" ++ check (runes_of_ascii "root
    // `tick` ""quote"" 'q'
    packet As { trueish Packet } ,
")).
Eval vm_compute in ("<<<M1944>>>" ++ check (runes_of_ascii "
packet	As { @calculatedFrom(//@lengthOfx
""{,}""	)lengthOf , } 	 ")).
Eval vm_compute in ("<<<M2797>>>" ++ check (runes_of_ascii "match 1 char uint64 uint64 @tag( int64 `" ++ [28040; 24687; 31867; 22411]%N ++ runes_of_ascii "` options , uint64")).
Eval vm_compute in ("<<<M3039>>>" ++ check (runes_of_ascii "packet A {
    B b `
x`,
    B `
x`,
    repeat B bs `
x`,
}")).
Eval vm_compute in ("<<<M3174>>>" ++ check (runes_of_ascii "packet A { // a
 @tag(1) u8 x, // b
 // c
 @tag(2) u8 y, }")).
Eval vm_compute in ("<<<M1379>>>" ++ check (runes_of_ascii "// " ++ [128512]%N ++ runes_of_ascii " emoji
MetaData u {int	Foo, f32a stringy `doc`,
} 	 ")).
Eval vm_compute in ("<<<M4031>>>" ++ check (runes_of_ascii "
MetaData	M {
	u8
    x
`a
b`	,

T
	t
    `a
b` ,
}")).
Eval vm_compute in ("<<<M4037>>>" ++ check (runes_of_ascii "options {
    options1 = 65535;
    msg_type = u64
}")).
Eval vm_compute in ("<<<M2862>>>" ++ check (runes_of_ascii "packet A { Inner { match k as n { [1] : B, }, }, }")).
Eval vm_compute in ("<<<M1934>>>" ++ check (runes_of_ascii "
packet	As { @calculatedFrom(//x
""{,}""	)lengthOf")).
Eval vm_compute in ("<<<M2581>>>" ++ check (runes_of_ascii "packet A { char[] x @calculatedFrom(""c"") `d`, }")).
Eval vm_compute in ("<<<M1740>>>" ++ check (runes_of_ascii "{ options }options {  } // `tick` ""quote"" 'q'")).
Eval vm_compute in ("<<<M734>>>" ++ check (runes_of_ascii "//x
MetaData u{
    //
    int64 x_y_z , }
")).
Eval vm_compute in ("<<<M2785>>>" ++ check (runes_of_ascii "i64_ char = , packet [ ] @lengthOf( uint64")).
Eval vm_compute in ("<<<M786>>>" ++ check (runes_of_ascii "options{MetaDataX = char[] }
/// triple
")).
Eval vm_compute in ("<<<M3197>>>" ++ check (runes_of_ascii "MetaData zchar { zchar[
// c
3 ] Pad , }")).
Eval vm_compute in ("<<<M4078>>>" ++ check (runes_of_ascii "root packet P {
    char c,
    u8 x,
}")).
Eval vm_compute in ("<<<M345>>>" ++ check (runes_of_ascii "options
{ Logon = //x
'\x00'
    ; }
")).
Eval vm_compute in ("<<<M2710>>>" ++ check (runes_of_ascii "} f64 @rightPad packet i8 } MetaData")).
Eval vm_compute in ("<<<M2579>>>" ++ check (runes_of_ascii "packet A { char[3] @lengthOf(y), }")).
Eval vm_compute in ("<<<M330>>>" ++ check (runes_of_ascii "packet Logon
    { }packet _x{}
")).
Eval vm_compute in ("<<<M2119>>>" ++ check (runes_of_ascii "MetaData x
{// " ++ [128512]%N ++ runes_of_ascii " emoji
i16  , }")).
Eval vm_compute in ("<<<M3103>>>" ++ check (runes_of_ascii "packet A {
 u8 x `d" ++ [8233]%N ++ runes_of_ascii "`, // c" ++ [8233]%N ++ runes_of_ascii "
}")).
Eval vm_compute in ("<<<M1064>>>" ++ check (runes_of_ascii "
root packet x_y_z	{ } //	t")).
Eval vm_compute in ("<<<M2646>>>" ++ check (runes_of_ascii "MetaData M { repeat u8 x, }")).
Eval vm_compute in ("<<<M2625>>>" ++ check (runes_of_ascii "packet A { u8 x, @tag(1) }")).
Eval vm_compute in ("<<<M3282>>>" ++ check (runes_of_ascii "options { u8x = 3 }
// c
")).
Eval vm_compute in ("<<<M3274>>>" ++ check (runes_of_ascii "options {
// c
u8x = 3 }")).
Eval vm_compute in ("<<<M3596>>>" ++ check (runes_of_ascii "options {
    u8x = 3
}")).
Eval vm_compute in ("<<<M4303>>>" ++ check (runes_of_ascii "packet

A
	{  }// c
 
")).
Eval vm_compute in ("<<<M609>>>" ++ check (runes_of_ascii "packet	Foo{
    } 	 ")).
Eval vm_compute in ("<<<M2667>>>" ++ check (runes_of_ascii "options options { }")).
Eval vm_compute in ("<<<M3062>>>" ++ check (runes_of_ascii "// c 
packet A {
}")).
Eval vm_compute in ("<<<M3144>>>" ++ check (runes_of_ascii "packet A {
}// c x")).
Eval vm_compute in ("<<<M3094>>>" ++ check (runes_of_ascii "packet A {
}// c" ++ [8232]%N)).
Eval vm_compute in ("<<<M931>>>" ++ check (runes_of_ascii "options
    { }")).
Eval vm_compute in ("<<<M4137>>>" ++ check (runes_of_ascii "packet tag {
}")).
Eval vm_compute in ("<<<M2816>>>" ++ check (runes_of_ascii "uint64 as {")).
Eval vm_compute in ("<<<M2055>>>" ++ check (runes_of_ascii "MetaData")).
Eval vm_compute in ("<<<M848>>>" ++ check (runes_of_ascii "
//	t
")).
Eval vm_compute in ("<<<M2431>>>" ++ check (runes_of_ascii "char1")).
Eval vm_compute in ("<<<M3120>>>" ++ check (runes_of_ascii "// c" ++ [12]%N)).
Eval vm_compute in ("<<<M73>>>" ++ check (runes_of_ascii " 	 ")).
Eval vm_compute in ("<<<M2677>>>" ++ check (runes_of_ascii "`d`")).
Eval vm_compute in ("<<<M2474>>>" ++ check (runes_of_ascii "'")).
