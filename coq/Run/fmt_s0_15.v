From FP Require Import Lexer Parser ShowPT Digest Formatter.
From Coq Require Import String List NArith.
Import ListNotations.
Open Scope string_scope.
Set Printing Width 100000000.
Set Printing Depth 100000000.
Definition show_fres (r : fres) : string :=
  match r with
  | FOk s => "OK:" ++ sh_escaped s ""
  | FErr s => "ERR:" ++ sh_escaped s ""
  | FPanic p => "PANIC:" ++ p
  end.
Definition check (rs : list rune) : string := digest (show_fres (format_res rs)).
Definition full (rs : list rune) : string := show_fres (format_res rs).
Eval vm_compute in ("<<<M1537>>>" ++ check (runes_of_ascii "packet metadata {
    repeat f64 Foo,
    repeat Logon f32a `
    `,
    @calculatedFrom(""1"")
    repeat uint8 calculatedFrom `u8 x,`,
    char[] packetx,// packet A { u8 x, }
    @calculatedFrom(""abc"")
    Pad @lengthOf(msg_type) `line1
    line2`,
    @rightPad(' ')
    tag `" ++ [233]%N ++ runes_of_ascii "`,
    @tag(10)
    u8x @calculatedFrom(""CRC32""),
    match metadata as msg_type {
        [0123456789, ""\n""] : options1,
        ""\n"" : float,
    },
}

packet MetaDataX {
    string string_ `doc`,
    @rightPad('0')
    zchar[00] zchar `a\`,
}

options {
    leftPad = 0
    float = 4294967296;
}// `tick` ""quote"" 'q'

root packet body {
    @calculatedFrom(""1"")
    @lengthOf(int)
    match float as Z9_ {
        // packet A { u8 x, }
        // trailing space 
        42 : x,
        ""packet"" : matchKey,
        """ ++ [28040; 24687]%N ++ runes_of_ascii """ : o,
        255 : float,
    },
    @tag(0123456789)
    match calculatedFrom as trueish {
        [""packet"", ""`tick`"", """ ++ [233]%N ++ runes_of_ascii "t" ++ [233]%N ++ runes_of_ascii """] : MetaDataX,
        4294967296 : trueish,
        3 : i64_,
        0123456789 : f32a,
        [
            7, 10, ""CRC32"", ""x y"", ""\n"",
            ""CRC32"", ""`tick`""
        ] : body,
    },
    char[1] Foo,
    @rightPad(' ')
    @calculatedFrom(""a	b"")
    repeat string_ {
        repeat Logon,
        Z9_ i8i8,
        match Z9_ as A {
            [42] : Logon,
            [
                1, 4294967296, 0, ""CRC32"", ""a\""b"",
                ""\" ++ [233]%N ++ runes_of_ascii """
            ] : roots,
            ""a\""b"" : MetaDataX,
            255 : _x,
            65535 : rootA,
        },
        match _x as Foo {
            [255, """ ++ [28040; 24687]%N ++ runes_of_ascii """, ""CRC32"", """ ++ [233]%N ++ runes_of_ascii "t" ++ [233]%N ++ runes_of_ascii """, ""abc""] : len,
            ""a\\"" : Pad,
            0 : falsey,
            3 : u128,
        },// a // b
    },
    repeat options1 int `{ , }`,
}")).
Eval vm_compute in ("<<<M1939>>>" ++ check (runes_of_ascii "
packet 	 // " ++ [128512]%N ++ runes_of_ascii " emoji

x{
	    //x
lengthOf
@calculatedFrom( ""abc""	) `u8 x,`
,@rightPad( )
	//x

// @lengthOf(
float32

Packet  @lengthOf(falsey

) ,  char[ 
10 ]  falsey ,

@tag( 3
    )

repeat
zchar[
    4294967296 ] repeatCount 
, repeatCount
	`say ""hi""`	, int16
    u128 	 // `tick` ""quote"" 'q'
	,	char[

    3	]

crc @calculatedFrom( ""x y""
	),// trailing space 
@leftPad(
// " ++ [27880; 37322]%N ++ runes_of_ascii "
	'\x00'
) match	chars

    as	i8i8 {

42	: charz 	 // trailing space 
,
	}
,

    } options 
{

}
MetaData	metadata
	{ char[  4294967296 
]
    i8i8  ,

    float rootA ,	i64
packetx	// " ++ [27880; 37322]%N ++ runes_of_ascii "
	,  i8 	 // " ++ [27880; 37322]%N ++ runes_of_ascii "
  	roots
`crlf
line` ,

tag i64_
	,
uint8 Pad

    `" ++ [233]%N ++ runes_of_ascii "`
    ,
}root	packet 
Header

{ u64
options1

`two words`  ,@calculatedFrom(
""a\\""// trailing space 
    ) 	 // " ++ [128512]%N ++ runes_of_ascii " emoji
  i32 	 //	t
  x_y_z

@calculatedFrom( 
""a\""b""
	)
`tab	here`	,

    match A as  len

    {
[""CRC32""  // " ++ [128512]%N ++ runes_of_ascii " emoji
  ,
	""it's""
] 	 //	t
	: Z9_
	""a	b"" 
: o

,},
match 
asx
	as
	pack 
{ 0
    :
	x_y_z

,} ,

    char[] 
i64_ `{ , }`

, }	MetaData 
stringy
	{  // trailing space 
lengthOf
    // `tick` ""quote"" 'q'
  //	t
	o,

string 	 //

u8x
    , f32
    string_`doc`, }

")).
Eval vm_compute in ("<<<M1324>>>" ++ check (runes_of_ascii "// top
options
    // c0
{ LittleEndian
    // c2
= false
    // c4
;
    // c5
StringPrefixLenType
    // c6
=
    // c7
u8
    // c8
; // c9
ArrayPrefixLenType // c10
= // c11a
  // c11b
u64
    // c12
; // c13a
  // c13b
FixedStringPadFromLeft
    // c14
= false ;
    // c17
FixedStringPadChar // c18a
  // c18b
=
    // c19
' ' // c20a
  // c20b
; }
    // c22
packet
    // c23
Reject // c24a
  // c24b
{ // c25a
  // c25b
repeat char[ 4 ] // c29a
  // c29b
seqNo // c30
, // c31
string // c32
Px
    // c33
,
    // c34
} root packet Trade // c38a
  // c38b
{ // c39a
  // c39b
@rightPad ( // c41
'0' // c42
)
    // c43
char[
    // c44
2 // c45
] msgKind // c47
, // c48
repeat
    // c49
f64
    // c50
price // c51a
  // c51b
, InAcct79
    // c53
{
    // c54
repeat // c55a
  // c55b
Reject
    // c56
,
    // c57
zchar[ // c58a
  // c58b
7 // c59
] // c60a
  // c60b
OrderId
    // c61
,
    // c62
} // c63
, // c64
Reject // c65a
  // c65b
, // c66
} ")).
Eval vm_compute in ("<<<M107>>>" ++ check (runes_of_ascii "packet falsey { i64_ ,	charz  {
match Packet  as Pad { ""\n"" :Packet
    , ""// no comment"" // " ++ [128512]%N ++ runes_of_ascii " emoji
:
f32a// `tick` ""quote"" 'q'
, [
    /// triple
    3  ,4294967296,
    10 ,//
7 , 10	]
: u
, // trailing space 
""`tick`"": u8x
,
[ 7 , ""it's"" ]:Packet, 0 : len
    //
    , }
    , }, /// triple
@lengthOf(	f32a) char[ 3 ]options1
    @lengthOf(
Pad)
, zchar[ 0123456789 ]// trailing space 
T ``
,
} packet
Pad
{
    // c
    o roots `{ , }` // " ++ [128512]%N ++ runes_of_ascii " emoji
, }packet f32a {
_x//
@calculatedFrom(	""x y"") //x
,@tag( 65535
) //	t
char pack @lengthOf( zchar  ) ,repeat //
int64 falsey  ,repeat len {match A
    as rootA {[ 42,  ""\n"" ]:
Z9_ , }
,repeat i16
A , repeat zchar[ 65535 ] tag `
` ,
f64 float
    @lengthOf( f32a ) ``  ,
// `tick` ""quote"" 'q'
// packet A { u8 x, }
} , x
    u8x
, @tag(  42	) repeat As Packet	, @lengthOf( Pad
    )repeat
    f64 rootA ,// @lengthOf(
}")).
Eval vm_compute in ("<<<M322>>>" ++ check (runes_of_ascii "packet leftPad { //
i8 stringy @calculatedFrom( """ ++ [128512]%N ++ runes_of_ascii """	) , int@calculatedFrom(
// c
// " ++ [128512]%N ++ runes_of_ascii " emoji
""a	b"" )
`it's` ,
    @leftPad () @tag( 0123456789
    )int32 u8x , @lengthOf(A )float64	u128	@calculatedFrom(
    ""a\\"" ), //x
} options { //x
Pad = 0 u =
    ' ' }MetaData
    a1 { char[]
metadata	`// not a comment`
    // @lengthOf(
    ,
}	packet
Foo { @tag(
42 )	repeat BodyLength ,
    int8 metadata`{ , }` ,@leftPad ( // c
)// " ++ [27880; 37322]%N ++ runes_of_ascii "
@calculatedFrom(//
""`tick`""
    ) @calculatedFrom(	""a	b""	) u32 stringy , @lengthOf( roots ) zchar[ 0 ] msg_type @lengthOf( i64_
)`tab	here`	,i8 Header	`{ , }`
, char[ 7
] trueish @lengthOf(	packetx
    )
, u64	charz `
`
    ,
    zchar[
//	t
// c
65535]
repeatCount
`it's`
    ,match // @lengthOf(
calculatedFrom as calculatedFrom  {""a	b""
: roots 42	: MetaDataX	,
},
}")).
Eval vm_compute in ("<<<M1550>>>" ++ check (runes_of_ascii "// trailing space 
options {
    f32a = false;
    stringy = true;
    u = ""\" ++ [233]%N ++ runes_of_ascii """;
    stringy = false;
}

packet options1 {
}

MetaData packetx {
    f32 uint8x,
}

root packet zchar {
    @tag(4294967296)
    @lengthOf(a1)
    i8 _x `it's`,//x
    char[] o,
    body,
    zchar[65535] msg_type `crlf
        line`,
    repeat BodyLength {
        repeat char[65535] stringy,
    },
    @calculatedFrom(""" ++ [128512]%N ++ runes_of_ascii """)
    @tag(10)
    repeat f32 lengthOf `line1
        line2`,
    repeat u {
        uint32 Z9_,//
        repeat body `
                `,
    },
    @tag(4294967296)
    i64_ @lengthOf(tag),
    @lengthOf(float)
    @lengthOf(packetx)
    @calculatedFrom(""" ++ [128512]%N ++ runes_of_ascii """)
    repeat x_y_z u,
    @tag(65535)
    u8 A,
}//")).
Eval vm_compute in ("<<<M1424>>>" ++ check (runes_of_ascii "options {
}

packet u8x {
    string uint8x @calculatedFrom(""{,}"") `crlf
        line`,
}

MetaData falsey {
    Logon packetx `tab	here`,
}

root packet o {
    falsey @calculatedFrom(""" ++ [28040; 24687]%N ++ runes_of_ascii """),
    @tag(0123456789)
    // `tick` ""quote"" 'q'
    char[0123456789] u128 @calculatedFrom(""{,}""),
    @tag(00)
    @lengthOf(stringy)
    @tag(4294967296)
    rootA Header,
    @lengthOf(As)
    repeat leftPad `// not a comment`,
    i8 leftPad @calculatedFrom(""""),
    @tag(10)
    zchar[007] packetx @lengthOf(u8x) `" ++ [28040; 24687; 31867; 22411]%N ++ runes_of_ascii "`,
}

packet options1 {
    //	t
    // trailing space 
    falsey {
        //	t
        zchar[3] roots,
        u32 Header,
    },// a // b
}")).
Eval vm_compute in ("<<<M305>>>" ++ check (runes_of_ascii "packet
pack{ u8 x ,
char[
    255 ]trueish
@calculatedFrom(
""// no comment"" ) `tab	here`,	@lengthOf( asx) repeat //
zchar[
0
] stringy `
`, @leftPad( '0' ) @calculatedFrom( // trailing space 
""abc"" )
    @calculatedFrom( ""it's""
) char[] packetx@calculatedFrom( ""a	b"" ) `doc` , repeat string len
    `two words`
, uint16 matchKey
    @lengthOf(
    asx ) ,zchar[ 0 ]
x `it's` // trailing space 
, }
    packet packetx {body  , string trueish `" ++ [233]%N ++ runes_of_ascii "` , @tag(255 )
@tag(
3
// packet A { u8 x, }
//	t
) @calculatedFrom(
    ""\n"" ) repeat f64 roots// trailing space 
`" ++ [233]%N ++ runes_of_ascii "`	, /// triple
} 	 ")).
Eval vm_compute in ("<<<M1553>>>" ++ check (runes_of_ascii "options {
    StringPrefixLenType = u8;
    ArrayPrefixLenType = u8;
    FixedStringPadFromLeft = false;
    FixedStringPadChar = ' ';
}

packet Ack {
    char[] tag7,
}

packet Reject {
    InSym61 {
        repeat Ack,
        zchar[4] f1,
    },
}

packet Logout {
    char[4] clOrdID,
}

root packet Cancel {
    @leftPad(' ')
    char[10] price,
    u8 x,
    u32 venue @lengthOf(Body),
    match x as Body {
        [92, 175] : Logout,
        26 : Reject,
        144 : Ack,
    },
    u16 count @calculatedFrom(""CRC32""),
}")).
Eval vm_compute in ("<<<M1235>>>" ++ check (runes_of_ascii "// top
options
    // c0
{
    // c1
f32a
    // c2
=
    // c3
0
    // c4
}
    // c5
packet
    // c6
trueish
    // c7
{
    // c8
}
    // c9
MetaData
    // c10
_x
    // c11
{
    // c12
char[
    // c13
0123456789
    // c14
]
    // c15
zchar
    // c16
,
    // c17
string
    // c18
crc
    // c19
,
    // c20
char[
    // c21
1
    // c22
]
    // c23
options1
    // c24
,
    // c25
uint8
    // c26
repeatCount
    // c27
,
    // c28
}
    // c29
")).
Eval vm_compute in ("<<<M1140>>>" ++ check (runes_of_ascii "// top
MetaData
    // c0
leftPad // c1
{
    // c2
chars // c3a
  // c3b
MetaDataX // c4
, // c5a
  // c5b
} packet // c7a
  // c7b
repeatCount // c8
{ char[
    // c10
255 // c11a
  // c11b
] // c12a
  // c12b
uint8x
    // c13
`" ++ [233]%N ++ runes_of_ascii "` // c14a
  // c14b
,
    // c15
} // c16a
  // c16b
MetaData // c17a
  // c17b
pack // c18
{ // c19a
  // c19b
As // c20a
  // c20b
Foo
    // c21
,
    // c22
} // c23a
  // c23b
")).
Eval vm_compute in ("<<<M114>>>" ++ check (runes_of_ascii "packet
a1 {@calculatedFrom(""`tick`"" ) uint32 charz	`crlf
line` ,
// c
//x
a1 `tab	here`, }
    options
    {
// " ++ [27880; 37322]%N ++ runes_of_ascii "
// " ++ [128512]%N ++ runes_of_ascii " emoji
stringy =
// c
// a // b
255 ;
    metadata =	4294967296 pack
    = /// triple
string	; crc= string
    ; }  root  packet
crc	{ @tag(  42  )
@calculatedFrom( ""abc""  )
@rightPad ( '0'
) u128 u8x
/// triple
//x
,@lengthOf(len) uint16 int, }
")).
Eval vm_compute in ("<<<M127>>>" ++ check (runes_of_ascii "packet a1{ @leftPad ( ) float
@lengthOf(
uint8x ) , }
packet Logon {
char Logon
@calculatedFrom( ""a\\"" )
    ,T stringy ,
//
// c
repeat uint8 stringy `two words` , } MetaData charz{ u
    tag
    `
`
, a1 falsey ,//x
Z9_
matchKey , f64 lengthOf	`a\` // @lengthOf(
,
    f32a roots
    ``
,float64
    x_y_z // @lengthOf(
, }
")).
Eval vm_compute in ("<<<M1799>>>" ++ check (runes_of_ascii "  options{ LittleEndian
	=
    true;	} packet

Logon
    {	u8 x 
,

    }

packet

Logout {

u16
reason,  }root  packet
Frame

    {
    i8
	Kind
,i8 
Kind2
, match
Kind
as  Body{  1
	: 
Logon ,[2 ,
3 ,4 
] :
Logout
,	100: Logon	,

}
    ,
	match
Kind2 as Trailer{ 0
:
Logout

,

    }
, }")).
Eval vm_compute in ("<<<M222>>>" ++ check (runes_of_ascii "packet
body// @lengthOf(
{ @lengthOf(
T
    // " ++ [27880; 37322]%N ++ runes_of_ascii "
    ) @lengthOf(
int ) @leftPad ( '\x00')
asx//x
len
,
repeat	zchar[ 3] int `" ++ [28040; 24687; 31867; 22411]%N ++ runes_of_ascii "` ,@lengthOf(
    // @lengthOf(
    options1)match
    x
    as //x
leftPad // @lengthOf(
{
7
:
x_y_z , 65535:  u128 , 42 : x ,} , //
}")).
Eval vm_compute in ("<<<M1306>>>" ++ check (runes_of_ascii "// top
packet // c0a
  // c0b
orderItem // c1a
  // c1b
{ u8 // c3
a // c4
, // c5a
  // c5b
}
    // c6
root packet // c8a
  // c8b
newOrder // c9a
  // c9b
{ orderItem // c11
, u8
    // c13
x // c14a
  // c14b
,
    // c15
} // c16
")).
Eval vm_compute in ("<<<M1436>>>" ++ check (runes_of_ascii "
packet
    A
{
u8
a  ,

    } packet	B

    { u16 b
, }root  packet 
P
{  u8
    K1 ,
	u8

K2 
,match

    K1
    as M1

{
    1

:

A 
,
} ,
match
K2 as
M2 {

    1
:B, 
}

,

    }
")).
Eval vm_compute in ("<<<M1405>>>" ++ check (runes_of_ascii "
MetaData
	stringy { zchar[ 10	] crc,}	packet

u128
    {
repeat	uint16	BodyLength
`// not a comment`

    , @lengthOf(	falsey  )  _x
	,

    char[
	42
] i8i8,

    }
")).
Eval vm_compute in ("<<<M1535>>>" ++ check (runes_of_ascii "  MetaData
	leftPad

{
chars 	 // c
	MetaDataX
    ,  }
	packet
repeatCount

    { 
char[
255
]

    uint8x
`" ++ [233]%N ++ runes_of_ascii "`
    ,}

    MetaData
	pack
{As  Foo , }
")).
Eval vm_compute in ("<<<M1714>>>" ++ check (runes_of_ascii "MetaData	repeatCount // c
	{
    char[

    42 // " ++ [27880; 37322]%N ++ runes_of_ascii "

	]
	    // " ++ [128512]%N ++ runes_of_ascii " emoji
	  MetaDataX, 
    // @lengthOf(
  zchar[

// " ++ [27880; 37322]%N ++ runes_of_ascii "
    //x
  0
	] 
asx
	, 
} ")).
Eval vm_compute in ("<<<M496>>>" ++ check (runes_of_ascii "packet uint8x
{ match pack
    as msg_type	{
    0123456789 :	float
}
,
} packet //	t
a1
    { } options {packetx
    = = '\x00'	; u128= ""a	b""  ; }
")).
Eval vm_compute in ("<<<M412>>>" ++ check (runes_of_ascii "packet uint8x
{ match as
    pack msg_type	{
    0123456789 :	float
}
,
} packet //	t
a1
    { } options {packetx
    = '\x00'	; u128= ""a	b""  ; }
")).
Eval vm_compute in ("<<<M400>>>" ++ check (runes_of_ascii "packet uint8x
 match pack
    as msg_type	{
    0123456789 :	float
}
,
} packet //	t
a1
    { } options {packetx
    = '\x00'	; u128= ""a	b""  ; }
")).
Eval vm_compute in ("<<<M1542>>>" ++ check (runes_of_ascii "options {
    f32a = ""a\""b"";
    Z9_ = ""`tick`""
    Logon = ""CRC32""
    u128 = f64;
    rootA = false;
}//	t

packet lengthOf {
}

MetaData len {
}")).
Eval vm_compute in ("<<<M551>>>" ++ check (runes_of_ascii "packet uint8x
{ match pack
    as " ++ [21517; 23383]%N ++ runes_of_ascii "	{
    0123456789 :	float
}
,
} packet //	t
a1
    { } options {packetx
    = '\x00'	; u128= ""a	b""  ; }
")).
Eval vm_compute in ("<<<M137>>>" ++ check (runes_of_ascii "
packet u128//x
{ @calculatedFrom(  ""x y""
    ) // `tick` ""quote"" 'q'
@rightPad (  ' ') char[ 42 ]  Header
    @calculatedFrom( ""abc"" ),  }

")).
Eval vm_compute in ("<<<M686>>>" ++ check (runes_of_ascii "// @lengthOf(
packet i8i8 { u128 o , }
options { f64 = true;
    BodyLength =""packet"" x_y_z= 007
crc //x
= ""abc"" ;
    msg_type =
i16 }")).
Eval vm_compute in ("<<<M304>>>" ++ check (runes_of_ascii "packet
    // " ++ [27880; 37322]%N ++ runes_of_ascii "
    Logon {
repeatCount @lengthOf( roots ) , @tag(0) repeat zchar[007] crc , rootA a1 `{ , }` , string_ `" ++ [233]%N ++ runes_of_ascii "`
,  }
")).
Eval vm_compute in ("<<<M1258>>>" ++ check (runes_of_ascii "packet B {
    u8 a,
}
root packet P {
    u8 K,
    u8 L @lengthOf(Body),
    match K as Body {
        1 : B,
    },
}
")).
Eval vm_compute in ("<<<M1162>>>" ++ check (runes_of_ascii "MetaData leftPad { chars MetaDataX , } packet repeatCount {
// c
char[ 255 ] uint8x `" ++ [233]%N ++ runes_of_ascii "` , } MetaData pack { As Foo , }")).
Eval vm_compute in ("<<<M938>>>" ++ check (runes_of_ascii "packet A {
    Inner {
        u8 x `a
    b
  c`,
        Deep {
            u8 y `a
    b
  c`,
        },
    },
}")).
Eval vm_compute in ("<<<M943>>>" ++ check (runes_of_ascii "packet A {
    u16 len @lengthOf(body) `a

b`,
    u32 crc @calculatedFrom(""CRC32"") `a

b`,
    string body,
}")).
Eval vm_compute in ("<<<M1621>>>" ++ check (runes_of_ascii "options  { LittleEndian

=	true
	;
} 
root

    packet

P

{
    repeat
char
	cs  ,  u8

    x
, } ")).
Eval vm_compute in ("<<<M1719>>>" ++ check (runes_of_ascii "
root	packet
	SimpleMessage

    {

uint16  MsgType `" ++ [28040; 24687; 31867; 22411]%N ++ runes_of_ascii "`, string

JsonBody
	`Json" ++ [23383; 31526; 20018; 28040; 24687; 20307]%N ++ runes_of_ascii "`,
    }
")).
Eval vm_compute in ("<<<M905>>>" ++ check (runes_of_ascii "packet A {
  match k as n {
    [1, 22, 007, 4, 5, 66, 7, 8, 9, 10, 11, 12] : B
    2 : C
  },
}")).
Eval vm_compute in ("<<<M635>>>" ++ check (runes_of_ascii "
packet
    asx {'1'match u128 as lengthOf
{
//	t
// `tick` ""quote"" 'q'
255 : x ,
    } ,	}")).
Eval vm_compute in ("<<<M637>>>" ++ check (runes_of_ascii "
~packet
    asx {match u128 as lengthOf
{
//	t
// `tick` ""quote"" 'q'
255 : x ,
    } ,	}")).
Eval vm_compute in ("<<<M587>>>" ++ check (runes_of_ascii "
packet
    asx {match u128 as lengthOf

//	t
// `tick` ""quote"" 'q'
255 : x ,
    } ,	}")).
Eval vm_compute in ("<<<M572>>>" ++ check (runes_of_ascii "
packet
    asx {match  as lengthOf
{
//	t
// `tick` ""quote"" 'q'
255 : x ,
    } ,	}")).
Eval vm_compute in ("<<<M832>>>" ++ check (runes_of_ascii "packet A {
  match k as n {
    [""a"", 22, ""c c"", 4, ""e"", 66] : B,
    2 : C
  },
}")).
Eval vm_compute in ("<<<M819>>>" ++ check (runes_of_ascii "packet A {
  match k as n {
    [""a"", 22, ""c c"", 4, ""e""] : B,
    2 : C
  },
}")).
Eval vm_compute in ("<<<M811>>>" ++ check (runes_of_ascii "packet A {
  match k as n {
    [""a"", ""bb"", 007, ""d""] : B
    2 : C
  },
}")).
Eval vm_compute in ("<<<M808>>>" ++ check (runes_of_ascii "packet A {
  match k as n {
    [1, 22, ""c c"", 4] : B,
    2 : C
  },
}")).
Eval vm_compute in ("<<<M942>>>" ++ check (runes_of_ascii "packet A {
    B b `a

b`,
    B `a

b`,
    repeat B bs `a

b`,
}")).
Eval vm_compute in ("<<<M1126>>>" ++ check (runes_of_ascii "// top
MetaData
    // c0
u
    // c1
{
    // c2
}
    // c3
")).
Eval vm_compute in ("<<<M1929>>>" ++ check (runes_of_ascii "
// top

	packet  // c0
	x	// c1
    {  // c2
	}  // c3
")).
Eval vm_compute in ("<<<M159>>>" ++ check (runes_of_ascii "root packet x  { roots @calculatedFrom(""a\""b"" ) , }")).
Eval vm_compute in ("<<<M375>>>" ++ check (runes_of_ascii "options {Foo = '0'	;	Pad = '0';	crc ='0' ; //	t
}")).
Eval vm_compute in ("<<<M957>>>" ++ check (runes_of_ascii "MetaData M {
    u8 x `
x`,
    T t `
x`,
}")).
Eval vm_compute in ("<<<M1541>>>" ++ check (runes_of_ascii "root packet P {
    char c,
    u8 x,
}")).
Eval vm_compute in ("<<<M946>>>" ++ check (runes_of_ascii "root packet A {
    u8 x `a

b`,
}")).
Eval vm_compute in ("<<<M586>>>" ++ check (runes_of_ascii "
packet
    asx {match u128 as")).
Eval vm_compute in ("<<<M1840>>>" ++ check (runes_of_ascii "// top
MetaData tag {
}// c3")).
Eval vm_compute in ("<<<M1634>>>" ++ check (runes_of_ascii "  packet
	A{ } 

// c" ++ [12288]%N ++ runes_of_ascii "
")).
Eval vm_compute in ("<<<M1787>>>" ++ check (runes_of_ascii "
// only a comment
 
")).
Eval vm_compute in ("<<<M744>>>" ++ check (runes_of_ascii "`" ++ [28040; 24687; 31867; 22411]%N ++ runes_of_ascii "` '0' options")).
Eval vm_compute in ("<<<M1056>>>" ++ check (runes_of_ascii "packet A {
}
// c" ++ [6158]%N)).
Eval vm_compute in ("<<<M1224>>>" ++ check (runes_of_ascii "// c
packet x { }")).
Eval vm_compute in ("<<<M740>>>" ++ check (runes_of_ascii ", = , ; int16")).
Eval vm_compute in ("<<<M1000>>>" ++ check (runes_of_ascii "// c" ++ [8192]%N)).
Eval vm_compute in ("<<<M727>>>" ++ check (runes_of_ascii "")).
