From FP Require Import Lexer Parser ShowPT Digest Formatter.
From Coq Require Import String List NArith.
Import ListNotations.
Open Scope string_scope.
Set Printing Width 100000000.
Set Printing Depth 100000000.
Definition show_fres (r : fres) : string :=
  match r with
  | FOk s => "OK:" ++ sh_escaped s ""
  | FErr s => "ERR:" ++ sh_escaped s ""
  | FPanic p => "PANIC:" ++ p
  end.
Definition check (rs : list rune) : string := digest (show_fres (format_res rs)).
Definition full (rs : list rune) : string := show_fres (format_res rs).
Eval vm_compute in ("<<<M1691>>>" ++ check (runes_of_ascii "  packet

rootA {
	char[
	0
	]len @calculatedFrom(	// `tick` ""quote"" 'q'
	  ""abc""
    )

    ,u8 
    // trailing space 

uint8x
	@lengthOf(	roots ) 	 // 50% %s

`a\`
    ,  int@calculatedFrom(	""a\""b""
), 
match	msg_type  as

i8i8

{ ""\" ++ [233]%N ++ runes_of_ascii """
    : 

// trailing space 
      // a // b
	Header
	,	1/// triple
  :zchar ,

    [
""\n""] :	string_ ""\n""
: i8i8 0123456789 // c
	:Logon

[00,
007 ,

    ""1""
,	""it's""//
    ,  ""// no comment"" ,
0

,""a\\""
, 007	// " ++ [27880; 37322]%N ++ runes_of_ascii "
]  /// triple
  :BodyLength }
,match

rootA
    // @lengthOf(
  // " ++ [27880; 37322]%N ++ runes_of_ascii "
    as

chars{ 
7: Header }
, A Foo // `tick` ""quote"" 'q'
      `tab	here`	,
float64

    charz @calculatedFrom( ""\" ++ [233]%N ++ runes_of_ascii """
)
	,	f32

tag
	, @lengthOf(
x

    )// `tick` ""quote"" 'q'
@leftPad
(
    '\x00') 
crc  {repeat	i16 options1

    `tab	here`,match
    options1  as	charz { ""CRC32""  :
    u,
0 // " ++ [27880; 37322]%N ++ runes_of_ascii "
  :	//
  charz ""x y"":
roots ,
[
""CRC32"" ,  """ ++ [233]%N ++ runes_of_ascii "t" ++ [233]%N ++ runes_of_ascii """ ]	:	i8i8
, },  repeat 	 // " ++ [27880; 37322]%N ++ runes_of_ascii "
	  falsey

    { 
match
chars 
as asx  {
	""abc""

:  stringy  , 
}  , match
	lengthOf
	as

charz
	{

0123456789  :
// c
	  //
    o  // " ++ [27880; 37322]%N ++ runes_of_ascii "
  ,""// no comment""	: chars  ,

    [ 
// @lengthOf(
  	""""
,	7
, 255

    ,	00 ,42

    ]:  float
    ,	} 
, match
    a1 as
lengthOf	{

    [ 	 /// triple
	65535,
	1 ] 
:int
    ""{,}""
	:

    calculatedFrom
	, ""`tick`""
:

    float  // @lengthOf(
""// no comment""	:
	Packet
    [ 	 // c
""\" ++ [233]%N ++ runes_of_ascii """ 
, ""// no comment"" ,

    3

    , 
""" ++ [128512]%N ++ runes_of_ascii """ 
	    // packet A { u8 x, }
	, 255
	]:int ,

//	t
// trailing space 
  } , 
},	} ,}
    options
{msg_type
= true
lengthOf=
zchar[
	//

1 // @lengthOf(
  ]	;

    } 
root 
    //

  packet  packetx
{ i8	// 50% %s
tag  `line1
line2`

    ,
	// @lengthOf(
}

")).
Eval vm_compute in ("<<<M379>>>" ++ check (runes_of_ascii "options {
	StringPrefixLenType = u16;
	ArrayPrefixLenType = u16;
}

packet SampleBinary {
    uint16 MsgType `" ++ [28040; 24687; 31867; 22411]%N ++ runes_of_ascii "`,
    u16 BodyLenght @lengthOf(Body) `" ++ [28040; 24687; 20307; 38271; 24230]%N ++ runes_of_ascii "`,
    match MsgType as Body {
        1 : Logon,
        2 : Logout,
        3 : Heartbeat,
        4 : RiskControlRequest,
        5 : RiskControlResponse,
    },
        @calculatedFrom(""CRC32"")
    u32 Ckecksum `" ++ [26657; 39564; 21644]%N ++ runes_of_ascii "`,
}

packet Logon {
     @leftPad('0')
    char[10] UserName `" ++ [29992; 25143; 21517]%N ++ runes_of_ascii "`,
    string Password `" ++ [23494; 30721]%N ++ runes_of_ascii "`,
    uint64 ClientId `" ++ [23458; 25143; 31471]%N ++ runes_of_ascii "ID`,
    u16 HeartbeatInterval `" ++ [24515; 36339; 38388; 38548]%N ++ runes_of_ascii "`,
}

packet Logout {
      @rightPad('0')
    char[10] UserName `" ++ [29992; 25143; 21517]%N ++ runes_of_ascii "`,
    uint64 ClientId `" ++ [23458; 25143; 31471]%N ++ runes_of_ascii "ID`,
}

packet Heartbeat {
}

packet RiskControlRequest {
    string UniqueOrderId `" ++ [21807; 19968; 35746; 21333; 21495]%N ++ runes_of_ascii "`,
    char[16] ClOrdID `" ++ [23458; 25143; 35746; 21333; 21495]%N ++ runes_of_ascii "`,
    char[3] MarketID `" ++ [24066; 22330]%N ++ runes_of_ascii "id`,
    char[12] SecurityID `" ++ [35777; 21048; 20195; 30721]%N ++ runes_of_ascii "`,
    char Side `" ++ [20080; 21334; 26041; 21521]%N ++ runes_of_ascii "`,
    char OrderType `" ++ [35746; 21333; 31867; 22411]%N ++ runes_of_ascii "`,
    u64 Price `" ++ [20215; 26684]%N ++ runes_of_ascii "`,
    u32 Qty `" ++ [25968; 37327]%N ++ runes_of_ascii "`,
    repeat string ExtraInfo `" ++ [38468; 21152; 20449; 24687]%N ++ runes_of_ascii "`,
    repeat SubOrder {
    		char[16] ClOrdID `" ++ [23376; 35746; 21333; 21495]%N ++ runes_of_ascii "`,
    		u64 Price `" ++ [23376; 35746; 21333; 20215; 26684]%N ++ runes_of_ascii "`,
    		u32 Qty `" ++ [23376; 35746; 21333; 25968; 37327]%N ++ runes_of_ascii "`,
    	},
}

packet RiskControlResponse {
    string UniqueOrderId `" ++ [21807; 19968; 35746; 21333; 21495]%N ++ runes_of_ascii "`,
    i32 Status `" ++ [29366; 24577]%N ++ runes_of_ascii "`,
    string Msg `" ++ [32467; 26524; 20449; 24687]%N ++ runes_of_ascii "`,
    repeat Detail,
}

packet Detail {
    string RuleName `" ++ [35268; 21017; 21517; 31216]%N ++ runes_of_ascii "`,
    u16 Code `" ++ [21407; 22240; 20195; 30721]%N ++ runes_of_ascii "`,
}")).
Eval vm_compute in ("<<<M1550>>>" ++ check (runes_of_ascii "  options

    {

    Foo =
true;
len=
'\x00'asx=

    '0'
	;  asx

    =  // packet A { u8 x, }
  3 
; 

    // " ++ [128512]%N ++ runes_of_ascii " emoji
      //

} 	 //	t
  packet
u128

    { uint8

crc `doc`	,
Z9_
, 
repeat
    i8
roots , @lengthOf(  crc
	) repeat As
    `two words` , zchar[  007 ] 
//x

tag `// not a comment`, }

    packet

    pack	// c

{
string msg_type ,@calculatedFrom( """")

repeat
string
tag `u8 x,`
	, int16
leftPad  ,

@tag(  1 
    // " ++ [27880; 37322]%N ++ runes_of_ascii "
	)
crc
    , }
	    /// triple

	// a // b
	root
packet  packetx {@rightPad
(
'0' )
	float64

o
// a // b

  `two words` ,
	repeat	//	t
    string_

crc

    ,

i64 As `line1
line2`

,

    @lengthOf( rootA 	 //
)
u32
Logon

@lengthOf(

a1 ), 
@calculatedFrom(""""

    )  @leftPad 
    //x
// @lengthOf(
	(' '	)uint16	i8i8 
@calculatedFrom(
""// no comment"" )
	,
	repeat char[]	a1  ,
    u128	{ 

    // packet A { u8 x, }

  // trailing space 
    falsey
    @lengthOf( pack) ,
int16
    packetx  ,i64_ 
@calculatedFrom( ""\" ++ [233]%N ++ runes_of_ascii """
)

`{ , }` 
  // " ++ [27880; 37322]%N ++ runes_of_ascii "
,int64
i8i8

    `a\`  ,
}

,
    } ")).
Eval vm_compute in ("<<<M1352>>>" ++ check (runes_of_ascii "options {
    LittleEndian = true;
    StringPrefixLenType = u8;
    ArrayPrefixLenType = u8;
    FixedStringPadFromLeft = true;
    FixedStringPadChar = '0';
}
packet Logon {
    repeat i8 Ref,
    @rightPad('0') char[8] msgKind,
    repeat InOrderid72 {
        u8 Side2,
        uint32 Qty,
        repeat InPrice27 {
            repeat char[4] Acct,
            u64 sym,
        },
        zchar[4] clOrdID,
        int16 lastPx,
        InAcct22 {
            repeat char[3] OrderId,
        },
    },
    int64 Px,
}
packet Fill {
    uint16 Qty,
    repeat char[1] Flags,
    i8 Ref,
}
packet Logout {
    @leftPad('0') char[3] x,
    int8 f1,
    Logon,
    uint16 venue,
    zchar[2] Px,
}
packet Reject {
}
root packet Leg {
    Fill,
    u16 msgKind,
    match msgKind as Body {
        [182, 83] : Fill,
        199 : Reject,
        137 : Logout,
        35 : Logon,
    },
    u32 lastPx @calculatedFrom(""CRC32""),
}
")).
Eval vm_compute in ("<<<M1907>>>" ++ check (runes_of_ascii "// a // b
root packet uint8x {
    repeat x {
        tag @calculatedFrom(""// no comment"") `it's`,
    },
    //x
    A @calculatedFrom(""abc""),
    uint64 zchar,
    //	t
    //	t
    zchar[7] msg_type,
    @calculatedFrom(""" ++ [28040; 24687]%N ++ runes_of_ascii """)
    crc,
    // `tick` ""quote"" 'q'
    f32a Pad,
    Header,// trailing space 
    zchar[42] x @calculatedFrom(""\n"") `" ++ [28040; 24687; 31867; 22411]%N ++ runes_of_ascii "`,
    string len,
}

packet falsey {
    // " ++ [27880; 37322]%N ++ runes_of_ascii "
    i64_ @calculatedFrom(""{,}""),
    repeat string chars,
    // `tick` ""quote"" 'q'
    zchar[7] calculatedFrom,
    Header {
        char u `crlf
        line`,
        repeat char[] tag `a\`,
        Z9_ @lengthOf(T) `say ""hi""`,
    },
    /// triple
    // " ++ [27880; 37322]%N ++ runes_of_ascii "
    msg_type @calculatedFrom(""// no comment""),
    @rightPad('\x00')
    @lengthOf(asx)
    falsey,
}// a // b")).
Eval vm_compute in ("<<<M75>>>" ++ check (runes_of_ascii "  options { _x =  '0'
// a // b
// packet A { u8 x, }
; Logon =
false	}packet
    A {} packet //
Logon
{ @leftPad (
' ' ) repeat	repeatCount { stringy  @lengthOf(
// " ++ [27880; 37322]%N ++ runes_of_ascii "
// trailing space 
len // @lengthOf(
)`say ""hi""`
, repeat metadata
    `u8 x,` , match x as
    int { [ ""`tick`"",7
] // trailing space 
: BodyLength ,255 : packetx
42 // " ++ [128512]%N ++ runes_of_ascii " emoji
:
_x ,} ,
    } , @rightPad ('0' ) @leftPad
    (	' ' )
@tag(65535 ) Header
    `{ , }`	,int16 // trailing space 
stringy
    @lengthOf( // " ++ [128512]%N ++ runes_of_ascii " emoji
calculatedFrom  ),
repeat MetaDataX {x_y_z ,	repeat //
calculatedFrom o`doc`
,string_ repeatCount , rootA {repeatCount
@calculatedFrom(
""\" ++ [233]%N ++ runes_of_ascii """) `tab	here`	,
}
    , },
    }")).
Eval vm_compute in ("<<<M1656>>>" ++ check (runes_of_ascii "options {
    stringy = zchar[0123456789]
}

MetaData charz {
    zchar[42] calculatedFrom,
    // `tick` ""quote"" 'q'
    char[65535] trueish,
    float64 roots `doc`,
}

packet calculatedFrom {
    @calculatedFrom(""" ++ [128512]%N ++ runes_of_ascii """)
    string crc `crlf
    line`,
    MetaDataX {
        Packet @lengthOf(packetx) `{ , }`,// trailing space 
        repeat trueish As,
    },
    int64 T,// `tick` ""quote"" 'q'
    match uint8x as i64_ {
        00 : _x,
        65535 : Z9_,
        ""1"" : u8x,
        007 : Z9_,
        /// triple
        255 : matchKey,
        ""1"" : crc,
    },// " ++ [128512]%N ++ runes_of_ascii " emoji
}// @lengthOf(")).
Eval vm_compute in ("<<<M1335>>>" ++ check (runes_of_ascii "// top
root // c0
packet // c1
Frame // c2a
  // c2b
{ // c3
u8 K
    // c5
, Logon
    // c7
first // c8a
  // c8b
, // c9a
  // c9b
match K as
    // c12
Body // c13a
  // c13b
{ 1 // c15a
  // c15b
:
    // c16
Logon ,
    // c18
2
    // c19
:
    // c20
Logout // c21
,
    // c22
} // c23
, // c24a
  // c24b
}
    // c25
packet // c26a
  // c26b
Logon // c27a
  // c27b
{ string // c29
user
    // c30
,
    // c31
} // c32
packet
    // c33
Logout
    // c34
{ // c35a
  // c35b
u16
    // c36
reason // c37
,
    // c38
} ")).
Eval vm_compute in ("<<<M1866>>>" ++ check (runes_of_ascii "packet x_y_z {
    repeat asx {
        falsey @lengthOf(u) `100% of %d`,
        repeat matchKey {
            x_y_z @calculatedFrom(""a\\""),
            i64 calculatedFrom @calculatedFrom(""// no comment"") `{ , }`,
        },
        // c
        //	t
        char[007] Foo @calculatedFrom(""abc""),
    },
    repeat uint32 Pad,
    repeat Logon {
        Logon {
            char[] packetx @calculatedFrom(""it's"") `
                        `,
        },
        i8 len,
        asx,
    },
}")).
Eval vm_compute in ("<<<M360>>>" ++ check (runes_of_ascii "root packet
    MetaDataX
    { u16 Logon@lengthOf( body
), match
lengthOf as As {
    // " ++ [128512]%N ++ runes_of_ascii " emoji
    7 :As	42 :
rootA
    , 0123456789 : repeatCount
    ,
""abc"":Packet ,
""1"": trueish ""a	b"" :
//x
// " ++ [128512]%N ++ runes_of_ascii " emoji
leftPad  ,	}	, match x as A// 50% %s
{ ""`tick`"" : trueish ,}
, uint32 u8x`tab	here`	, tag @calculatedFrom(
    """ ++ [28040; 24687]%N ++ runes_of_ascii """
    ),
repeat body//	t
repeatCount ,
@calculatedFrom(""x y"")  asx @calculatedFrom( // `tick` ""quote"" 'q'
""a\""b""
    ) , }")).
Eval vm_compute in ("<<<M1590>>>" ++ check (runes_of_ascii "packet body {
    @leftPad('0')
    stringy roots,
    @rightPad('0')
    asx @lengthOf(_x),
    //	t
}

packet chars {
    @tag(255)
    i32 msg_type,
    o {
        pack @calculatedFrom(""abc""),
        match rootA as tag {
            [0123456789, 7] : len,
        },
        u32 BodyLength @calculatedFrom(""packet"") `say ""hi""`,
        lengthOf u,
    },
    @rightPad(' ')
    repeat f32a,
}

MetaData msg_type {
}")).
Eval vm_compute in ("<<<M35>>>" ++ check (runes_of_ascii "options {  stringy =
// packet A { u8 x, }
// a // b
true
;
    x_y_z
=
    false x ='\x00' //x
;
matchKey  =
    i64
; // c
}root packet o {@lengthOf( float ) int32 As
,
}
    root
/// triple
// trailing space 
packet x
{ // a // b
@rightPad
( ) i8i8 @calculatedFrom( ""x y"")//x
, } MetaData
u  { A
    /// triple
    u8x ,
} options {
    u8x = i64 _x  =""CRC32"" ; MetaDataX = u8 }
")).
Eval vm_compute in ("<<<M168>>>" ++ check (runes_of_ascii "MetaData o//
{MetaDataX  As `crlf
line` ,string_	T , zchar[
1 ] Header , //	t
} packet packetx { // " ++ [128512]%N ++ runes_of_ascii " emoji
repeat //	t
char[ 10
// @lengthOf(
//
] crc
`a\` ,  @tag( 42 ) repeat char[]asx `// not a comment` , zchar[
// a // b
// " ++ [128512]%N ++ runes_of_ascii " emoji
007 ]
len @lengthOf( u )`a\` ,@leftPad ( '\x00' ) @tag(	3 )@calculatedFrom( ""a\""b"") char[ //x
10] As
`
`  , }
")).
Eval vm_compute in ("<<<M217>>>" ++ check (runes_of_ascii "root packet i8i8 {
    msg_type@lengthOf( asx
    // packet A { u8 x, }
    )  , Logon
{ msg_type{ repeat
x_y_z `say ""hi""` ,
    }
, } ,
    Z9_ , repeatCount
//x
/// triple
{char[]	asx,
    // " ++ [128512]%N ++ runes_of_ascii " emoji
    float32 options1,
repeat  uint64 x	`two words`,chars
    `` , } ,
// 50% %s
// 50% %s
repeat A float , } 	 ")).
Eval vm_compute in ("<<<M1327>>>" ++ check (runes_of_ascii "
packet

MDSnapshotZZ {

u8  a	,

}packet	OrderACK

{

    u16
    b , }	packet
    HTTPServerInfo {  string s, }

    root  packet
FIXMsg
    { 
u8 KType  ,  MDSnapshotZZ
	, repeat OrderACK
    ,  match

    KType  as 
Body

    { 1 :HTTPServerInfo ,2: OrderACK ,
}	,
	}")).
Eval vm_compute in ("<<<M292>>>" ++ check (runes_of_ascii "
packet len{
    // @lengthOf(
    } root packet stringy
//
/// triple
{
    // `tick` ""quote"" 'q'
    } MetaData	stringy {char[ 0 ]	falsey `tab	here`,falsey u
    /// triple
    , Header crc,
// `tick` ""quote"" 'q'
// `tick` ""quote"" 'q'
trueish
zchar, //x
}
")).
Eval vm_compute in ("<<<M514>>>" ++ check (runes_of_ascii "packet
    asx { @calculatedFrom(
""""  ) @tag( 255 )repeat
// packet A { u8 x, }
// trailing space 
int16 u8x
,
@tag(
    //
    007 )
    @tag( 0
    /// triple
    ) @tag( 1) u
    @lengthOf( T packet,
// `tick` ""quote"" 'q'
//x
} // " ++ [128512]%N ++ runes_of_ascii " emoji")).
Eval vm_compute in ("<<<M484>>>" ++ check (runes_of_ascii "packet
    asx { @calculatedFrom(
""""  ) @tag( 255 )repeat
// packet A { u8 x, }
// trailing space 
int16 u8x
,
@tag(
    //
    007 )
    @tag( 0
    /// triple
    ) uint32 1) u
    @lengthOf( T ),
// `tick` ""quote"" 'q'
//x
} // " ++ [128512]%N ++ runes_of_ascii " emoji")).
Eval vm_compute in ("<<<M468>>>" ++ check (runes_of_ascii "packet
    asx { @calculatedFrom(
""""  ) @tag( 255 )repeat
// packet A { u8 x, }
// trailing space 
int16 u8x
,
@tag(
    //
    007 )
    0 @tag(
    /// triple
    ) @tag( 1) u
    @lengthOf( T ),
// `tick` ""quote"" 'q'
//x
} // " ++ [128512]%N ++ runes_of_ascii " emoji")).
Eval vm_compute in ("<<<M521>>>" ++ check (runes_of_ascii "packet
    asx { @calculatedFrom(
""""  ) @tag( 255 )repeat
// packet A { u8 x, }
// trailing space 
int16 u8x
,
@tag(
    //
    007 )
    @tag( 0
    /// triple
    ) @tag( 1) u
    @lengthOf( T ),
// `tick` ""quote"" 'q'
//x
 // " ++ [128512]%N ++ runes_of_ascii " emoji")).
Eval vm_compute in ("<<<M339>>>" ++ check (runes_of_ascii "packet len
    {
    @calculatedFrom( ""{,}"" )
zchar[ 10 ] packetx`line1
line2` , @lengthOf( metadata
) @calculatedFrom( ""a	b""
    ) matchKey@lengthOf( As
    ) , chars
// 50% %s
// a // b
uint8x `a\` ,  char[ 65535 ] Foo,	}")).
Eval vm_compute in ("<<<M1680>>>" ++ check (runes_of_ascii "MetaData
    u  { 
}MetaData
	o {	uint8x
	float
	`100% of %d`
, 
repeatCount
u8x ,

    string_

    leftPad
    , i32 Foo ,  int64
    x `two words`

    ,
	calculatedFrom  stringy `a\`

, }
")).
Eval vm_compute in ("<<<M351>>>" ++ check (runes_of_ascii "options { i8i8=00 matchKey = 4294967296 msg_type = ' ' metadata
    = 4294967296}//
packet u8x {@tag( 4294967296 )	@leftPad( /// triple
'0'  )
@tag( 1
) asx A`// not a comment`,  }
")).
Eval vm_compute in ("<<<M617>>>" ++ check (runes_of_ascii "MetaData u
    { } MetaData o
{ float uint8x
`100% of %d` ,repeatCount u8x, string_ string_ leftPad
, i32
    Foo , int64 x `two words` , calculatedFrom
stringy `a\` ,
}
")).
Eval vm_compute in ("<<<M710>>>" ++ check (runes_of_ascii "packet
crc
{repeat  Foo `u8 x,`  A ,	@lengthOf( uint8x ) string
matchKey @lengthOf( stringy ) `a\`
,
    // c
    }
MetaData chars{
leftPad
    //	t
    crc
`" ++ [233]%N ++ runes_of_ascii "`
,}")).
Eval vm_compute in ("<<<M705>>>" ++ check (runes_of_ascii "MetaData u
    { } MetaData o
{ float uint8x
`100% of %d` ,repeatCount u8x, string_ leftPad
, i32
    Foo , int64 x `two words` , calculatedFrom
stringy `a\` ',
}
")).
Eval vm_compute in ("<<<M658>>>" ++ check (runes_of_ascii "MetaData u
    { } MetaData o
{ float uint8x
`100% of %d` ,repeatCount u8x, string_ leftPad
, i32
    Foo , int64 x , `two words` calculatedFrom
stringy `a\` ,
}
")).
Eval vm_compute in ("<<<M631>>>" ++ check (runes_of_ascii "MetaData u
    { } MetaData o
{ float uint8x
`100% of %d` ,repeatCount u8x, string_ leftPad
, 
    Foo , int64 x `two words` , calculatedFrom
stringy `a\` ,
}
")).
Eval vm_compute in ("<<<M1274>>>" ++ check (runes_of_ascii "
packet	B
    {

    u8	a 
,  } root

    packet P{ u8	K,

u64
L @lengthOf(

    Body

    )

    ,
match
    K  as
	Body
    { 1 :

B
,

}  ,}
")).
Eval vm_compute in ("<<<M1675>>>" ++ check (runes_of_ascii "MetaData len {
}

packet int {
    repeat char[1] stringy,
}// a // b

packet MetaDataX {
    zchar[10] leftPad @calculatedFrom(""// no comment""),
}")).
Eval vm_compute in ("<<<M119>>>" ++ check (runes_of_ascii "packet len { // " ++ [128512]%N ++ runes_of_ascii " emoji
Pad,  @tag( //	t
4294967296 ) @calculatedFrom( ""{,}""
    ) char[
0123456789 ] o @calculatedFrom(
""it's"" ) ,}
")).
Eval vm_compute in ("<<<M1810>>>" ++ check (runes_of_ascii "options {
    // c
}

options {
    MetaDataX = char;
}

MetaData Pad {
    i8 metadata,
    string stringy,
    int8 As `{ , }`,
}")).
Eval vm_compute in ("<<<M1776>>>" ++ check (runes_of_ascii "
options
{ }options
{ 
_x

= 
""`tick`""
    ; 
matchKey =

""it's"" ; options1=

u16

;stringy

=true }
packet
x_y_z

{
}
")).
Eval vm_compute in ("<<<M1204>>>" ++ check (runes_of_ascii "options
// c
{ } options { MetaDataX = char ; } MetaData Pad { i8 metadata , string stringy , int8 As `{ , }` , }")).
Eval vm_compute in ("<<<M1236>>>" ++ check (runes_of_ascii "options { } options { MetaDataX = char ; } MetaData Pad { i8 metadata , string
// c
stringy , int8 As `{ , }` , }")).
Eval vm_compute in ("<<<M989>>>" ++ check (runes_of_ascii "packet A {
    match k as n {
        ""\
"" : B,
        [""\
"", 1] : C,
        [1,2,3,4,5,""\
""] : D,
    },
}")).
Eval vm_compute in ("<<<M942>>>" ++ check (runes_of_ascii "packet A {
    Inner {
        u8 x `a

b`,
        Deep {
            u8 y `a

b`,
        },
    },
}")).
Eval vm_compute in ("<<<M110>>>" ++ check (runes_of_ascii "options
    {Foo= 00  ; Header =false calculatedFrom
    = true; }	root  packet
int //x
{ len , }
")).
Eval vm_compute in ("<<<M870>>>" ++ check (runes_of_ascii "packet A {
  match k as n {
    [""a"", 22, ""c c"", 4, ""e"", 66, ""g"", 8, ""i""] : B
    2 : C
  },
}")).
Eval vm_compute in ("<<<M1660>>>" ++ check (runes_of_ascii "packet A {
    B b `a
        b`,
    B `a
        b`,
    repeat B bs `a
        b`,
}")).
Eval vm_compute in ("<<<M863>>>" ++ check (runes_of_ascii "packet A {
  match k as n {
    [1, 22, 007, 4, 5, 66, 7, 8, 9] : B,
    2 : C
  },
}")).
Eval vm_compute in ("<<<M850>>>" ++ check (runes_of_ascii "packet A {
  match k as n {
    [1, 22, 007, 4, 5, 66, 7, 8] : B,
    2 : C
  },
}")).
Eval vm_compute in ("<<<M838>>>" ++ check (runes_of_ascii "packet A {
  match k as n {
    [1, 22, 007, 4, 5, 66, 7] : B
    2 : C
  },
}")).
Eval vm_compute in ("<<<M1456>>>" ++ check (runes_of_ascii "packet A {
    match k as n {
        [1, 22] : B,
        2 : C,
    },
}")).
Eval vm_compute in ("<<<M875>>>" ++ check (runes_of_ascii "packet A { Inner { match k as n { [1,22,007,4,5,66,7,8,9] : B, }, }, }")).
Eval vm_compute in ("<<<M778>>>" ++ check (runes_of_ascii "packet A {
  match k as n {
    [""a"", ""bb""] : B,
    2 : C
  },
}")).
Eval vm_compute in ("<<<M946>>>" ++ check (runes_of_ascii "packet A {
    B b `x
`,
    B `x
`,
    repeat B bs `x
`,
}")).
Eval vm_compute in ("<<<M1642>>>" ++ check (runes_of_ascii "
MetaData
	M 
{
u8	x  `x
`
    ,
T	t

`x
`

    ,
	}
")).
Eval vm_compute in ("<<<M1719>>>" ++ check (runes_of_ascii "root packet A {
    u8 x `a
        b
      c`,
}")).
Eval vm_compute in ("<<<M955>>>" ++ check (runes_of_ascii "MetaData M {
    u8 x `
x`,
    T t `
x`,
}")).
Eval vm_compute in ("<<<M743>>>" ++ check ([65533; 65533]%N ++ runes_of_ascii "%" ++ [65533; 65533; 23]%N ++ runes_of_ascii "C" ++ [65533]%N ++ runes_of_ascii "c$/" ++ [65533; 18]%N ++ runes_of_ascii "o" ++ [65533; 65533]%N ++ runes_of_ascii "A" ++ [14; 65533]%N ++ runes_of_ascii "Z" ++ [65533; 25; 65533]%N ++ runes_of_ascii "x" ++ [65533]%N ++ runes_of_ascii "I?w" ++ [65533; 65533; 65533]%N ++ runes_of_ascii """&" ++ [924]%N ++ runes_of_ascii "R" ++ [65533; 20; 65533]%N)).
Eval vm_compute in ("<<<M1187>>>" ++ check (runes_of_ascii "options { A // c
= ""// no comment"" }")).
Eval vm_compute in ("<<<M410>>>" ++ check (runes_of_ascii "packet
    asx { @calculatedFrom(")).
Eval vm_compute in ("<<<M1406>>>" ++ check (runes_of_ascii "root packet P {
    string s,
}")).
Eval vm_compute in ("<<<M257>>>" ++ check (runes_of_ascii "packet calculatedFrom
{} 	 ")).
Eval vm_compute in ("<<<M331>>>" ++ check (runes_of_ascii "
 // `tick` ""quote"" 'q'")).
Eval vm_compute in ("<<<M66>>>" ++ check (runes_of_ascii "MetaData metadata { }")).
Eval vm_compute in ("<<<M1015>>>" ++ check (runes_of_ascii "packet A {
}
// c" ++ [5760]%N)).
Eval vm_compute in ("<<<M1898>>>" ++ check (runes_of_ascii "packet string_ {
}")).
Eval vm_compute in ("<<<M405>>>" ++ check (runes_of_ascii "packet
    asx {")).
Eval vm_compute in ("<<<M1751>>>" ++ check (runes_of_ascii "
// c" ++ [160]%N ++ runes_of_ascii "
")).
Eval vm_compute in ("<<<M17>>>" ++ check (runes_of_ascii "
")).
