From FP Require Import Lexer Parser ShowPT Digest Formatter.
From Coq Require Import String List NArith.
Import ListNotations.
Open Scope string_scope.
Set Printing Width 100000000.
Set Printing Depth 100000000.
Definition show_fres (r : fres) : string :=
  match r with
  | FOk s => "OK:" ++ sh_escaped s ""
  | FErr s => "ERR:" ++ sh_escaped s ""
  | FPanic p => "PANIC:" ++ p
  end.
Definition check (rs : list rune) : string := digest (show_fres (format_res rs)).
Definition full (rs : list rune) : string := show_fres (format_res rs).
Eval vm_compute in ("<<<M1677>>>" ++ check (runes_of_ascii "packet metadata {
    repeat f64 Foo,
    repeat Logon f32a `
    `,
    @calculatedFrom(""1"")
    repeat uint8 calculatedFrom `u8 x,`,
    char[] packetx,// packet A { u8 x, }
    @calculatedFrom(""abc"")
    Pad @lengthOf(msg_type) `line1
    line2`,
    @rightPad(' ')
    tag `" ++ [233]%N ++ runes_of_ascii "`,
    @tag(10)
    u8x @calculatedFrom(""CRC32""),
    match metadata as msg_type {
        [""\n"", 0123456789] : options1,
        ""\n"" : float,
    },
}

packet MetaDataX {
    string string_ `doc`,
    @rightPad('0')
    zchar[00] zchar `a\`,
}

options {
    leftPad = 0
    float = 4294967296;
}// `tick` ""quote"" 'q'

root packet body {
    @calculatedFrom(""1"")
    @lengthOf(int)
    match float as Z9_ {
        // packet A { u8 x, }
        // trailing space 
        42 : x,
        ""packet"" : matchKey,
        """ ++ [28040; 24687]%N ++ runes_of_ascii """ : o,
        255 : float,
    },
    @tag(0123456789)
    match calculatedFrom as trueish {
        [""packet"", ""`tick`"", """ ++ [233]%N ++ runes_of_ascii "t" ++ [233]%N ++ runes_of_ascii """] : MetaDataX,
        4294967296 : trueish,
        3 : i64_,
        0123456789 : f32a,
        [
            7, 10, ""CRC32"", ""x y"", ""\n"",
            ""CRC32"", ""`tick`""
        ] : body,
    },
    char[1] Foo,
    @rightPad(' ')
    @calculatedFrom(""a	b"")
    repeat string_ {
        repeat Logon,
        Z9_ i8i8,
        match Z9_ as A {
            [42] : Logon,
            [
                ""CRC32"", 1, ""a\""b"", 4294967296, 0,
                ""\" ++ [233]%N ++ runes_of_ascii """
            ] : roots,
            ""a\""b"" : MetaDataX,
            255 : _x,
            65535 : rootA,
        },
        match _x as Foo {
            [255, """ ++ [28040; 24687]%N ++ runes_of_ascii """, ""CRC32"", """ ++ [233]%N ++ runes_of_ascii "t" ++ [233]%N ++ runes_of_ascii """, ""abc""] : len,
            ""a\\"" : Pad,
            0 : falsey,
            3 : u128,
        },// a // b
    },
    repeat options1 int `{ , }`,
}")).
Eval vm_compute in ("<<<M1418>>>" ++ check (runes_of_ascii "// top
options {
    // c1
    StringPrefixLenType = u16;// c5
    ArrayPrefixLenType = u32;
    // c9
    FixedStringPadFromLeft = true;
    FixedStringPadChar = '0';
    // c17
}

packet Cancel {
    // c21a
    // c21b
}// c22a

// c22b
packet Party {
}

// c26
packet Logon {
}

packet Ack {
    // c33a
    // c33b
}// c34

packet Logout {
    // c37a
    // c37b
    repeat InSym87 {
        // c40a
        // c40b
        InClordid94 {
            // c42
            string clOrdID,
            // c45
        },
        // c47
        string Px,
        i16 Qty,// c53
        repeat InCount71 {
            repeat Cancel,
            // c59
            uint16 Tail,
            // c62
            char[2] x,// c67a
            // c67b
            repeat string Ref,// c71
        },
        Cancel,// c75a
        // c75b
    },
}

// c78
root packet Order {
    // c82
    repeat string tag7,
    @leftPad(' ')
    // c90
    char[3] Px,// c95a
    // c95b
    u8 Qty,
    // c98
    match Qty as Body {
        [28, 62] : Logon,
        // c111a
        // c111b
        148 : Ack,
        // c115a
        // c115b
        88 : Party,
        // c119
        184 : Cancel,
        // c123
    },// c125a
    // c125b
    u16 Note @calculatedFrom(""CRC32""),// c131
}")).
Eval vm_compute in ("<<<M1823>>>" ++ check (runes_of_ascii "

  // top
    options  // c0a
	// c0b
{
LittleEndian  // c2
	  =

true
    ; 	 // c5

}// c6a
		// c6b
  packet 
  // c7

  Logon // c8a
// c8b
  	{

u8 
x	// c11
  , } 	 // c13
	packet 	 // c14

	Logout {
u16 // c17a
    // c17b
reason
	// c18
    ,	// c19a

  // c19b
		}// c20
root 

    // c21
	packet  // c22a
  // c22b
  Frame 	 // c23a
	// c23b
  { 	 // c24a
      // c24b
u8

// c25
	Kind	// c26a
      // c26b
,	// c27
  u8 	 // c28

Kind2

,  
      // c30

	match
Kind

    as  // c33
  Body 
      // c34
	{  // c35a
	  // c35b
  1	// c36

: 
      // c37
  Logon// c38
, // c39a
    // c39b
	[ // c40a
// c40b

2 	 // c41
, 

    // c42

3// c43
  	,

    4 ]
// c46
:	// c47
	Logout 
    // c48
	  , // c49a
  // c49b

  100 // c50

: 

// c51
  Logon	// c52a
	// c52b

,  
  // c53
  }
    ,// c55
    match // c56a
  // c56b
    	Kind2 as 
// c58
Trailer	// c59a
    	// c59b
    	{	// c60
    0 	 // c61
    :
    // c62
  Logout // c63a
  	// c63b
, 
}  , 	 // c66a
// c66b
    }
")).
Eval vm_compute in ("<<<M176>>>" ++ check (runes_of_ascii "
packet i8i8 { @tag( 0 ) int32
leftPad `it's`
, repeat char[]Header`crlf
line`
, @calculatedFrom( ""\" ++ [233]%N ++ runes_of_ascii """ )/// triple
repeat
    uint8 float , @rightPad
('\x00' ) char[] zchar@lengthOf(
// a // b
//x
leftPad )
`
` , Z9_ ,
@lengthOf(
x ) match As as
    tag {	""a	b""  :
string_ [
10 , 7 , ""1"" , 255
,
3
    , 42 ,
    //
    0123456789, """ ++ [128512]%N ++ runes_of_ascii """ ] :x_y_z ,""CRC32""
: Z9_  , 00
    // c
    : Logon
    ,
} , @tag(007) o {
    char
    Packet
@lengthOf(
    //	t
    repeatCount
) , } , @lengthOf(
// " ++ [27880; 37322]%N ++ runes_of_ascii "
/// triple
pack
) float64 rootA `two words`
    ,	repeat char[] BodyLength ,}
packet Z9_{ match
    // packet A { u8 x, }
    As
as
    a1{ //
0: trueish // `tick` ""quote"" 'q'
,} ,
/// triple
// " ++ [27880; 37322]%N ++ runes_of_ascii "
} root packet u8x {
/// triple
// " ++ [128512]%N ++ runes_of_ascii " emoji
repeat
string Logon `tab	here` , // " ++ [128512]%N ++ runes_of_ascii " emoji
}	options { _x
=
    ""packet""
;f32a =007 } packet i8i8 {@calculatedFrom( ""CRC32"" )
A @lengthOf(
a1
)
, } 	 ")).
Eval vm_compute in ("<<<M141>>>" ++ check (runes_of_ascii "options // @lengthOf(
{zchar = char[] Z9_	='0' ;
} options
{ asx = char[] }root packet leftPad { T @lengthOf(
    f32a//
)
, } //
root
//x
// @lengthOf(
packet calculatedFrom {
u
    {//	t
char[] // packet A { u8 x, }
T `" ++ [233]%N ++ runes_of_ascii "`	,	match stringy /// triple
as //	t
chars { [
    0123456789 ]
: T ,
// `tick` ""quote"" 'q'
// " ++ [27880; 37322]%N ++ runes_of_ascii "
}	, uint16 a1 @lengthOf( x) , string
chars `two words` ,
} , @calculatedFrom(
    ""x y"")char[]
// " ++ [27880; 37322]%N ++ runes_of_ascii "
// " ++ [128512]%N ++ runes_of_ascii " emoji
body @lengthOf(
lengthOf )
    /// triple
    ,
    @lengthOf(	A	)rootA
,	@lengthOf(i64_ ) // packet A { u8 x, }
repeat f32a { lengthOf
    // " ++ [128512]%N ++ runes_of_ascii " emoji
    charz // a // b
`" ++ [28040; 24687; 31867; 22411]%N ++ runes_of_ascii "`, }
    // packet A { u8 x, }
    ,
match tag as
//x
//	t
T { [
3
] : falsey , }	,zchar[
    00
    ] charz@lengthOf(
    Pad
) ,
@tag( 3	) lengthOf{ i16 As ,
} ,
} root
packet	body{ }
")).
Eval vm_compute in ("<<<M1358>>>" ++ check (runes_of_ascii "// top
options // c0a
  // c0b
{ // c1a
  // c1b
LittleEndian = false ;
    // c5
StringPrefixLenType =
    // c7
u16 ; // c9
} // c10
packet
    // c11
Heartbeat { // c13
@rightPad // c14
( // c15a
  // c15b
'0' ) // c17a
  // c17b
char[ 7 // c19a
  // c19b
] seqNo // c21a
  // c21b
, // c22a
  // c22b
uint64 // c23a
  // c23b
Tail // c24a
  // c24b
, i16 // c26
Flags // c27a
  // c27b
, u16
    // c29
msgKind // c30
, // c31a
  // c31b
}
    // c32
root // c33a
  // c33b
packet // c34
Reject
    // c35
{ // c36a
  // c36b
zchar[ 3 ] // c39a
  // c39b
tag7 // c40
,
    // c41
repeat // c42
Heartbeat // c43a
  // c43b
, // c44
repeat // c45a
  // c45b
string
    // c46
clOrdID // c47a
  // c47b
, // c48
} // c49
")).
Eval vm_compute in ("<<<M1770>>>" ++ check (runes_of_ascii "

  root// c
  packet 
asx{ @rightPad(
' ' )  @lengthOf( int )  @tag(

0
	) 
u64

uint8x 
@calculatedFrom(

    ""packet"" ),
uint32

i64_ ,
// c
	repeat options1 o, 
match	f32a as/// triple
	falsey // " ++ [27880; 37322]%N ++ runes_of_ascii "
{ 
42 : 
stringy 10
	:As  ,	""""
:  Packet
	,
	}
    , @calculatedFrom( ""it's"" ) 	 // " ++ [128512]%N ++ runes_of_ascii " emoji
    f64
a1
	,@lengthOf( 
tag
	)  match 
roots  as  MetaDataX {	""" ++ [128512]%N ++ runes_of_ascii """

:
    f32a
    ,

    ""\n""	:

    As
	[
	255 ]

:
A

    ,}
	,a1

@calculatedFrom(
	""abc""
)  ``,@rightPad	(	)@rightPad (

    '\x00' ) @calculatedFrom(
""CRC32""
	)body 
As  ,
} root

packet
packetx {
	    //x
//
repeat
lengthOf 
Logon  `" ++ [28040; 24687; 31867; 22411]%N ++ runes_of_ascii "`
	,	//	t
      } ")).
Eval vm_compute in ("<<<M1114>>>" ++ check (runes_of_ascii "// top
packet
    // c0
float
    // c1
{
    // c2
@rightPad
    // c3
(
    // c4
)
    // c5
rootA
    // c6
@lengthOf(
    // c7
trueish
    // c8
)
    // c9
,
    // c10
stringy
    // c11
@lengthOf(
    // c12
matchKey
    // c13
)
    // c14
,
    // c15
char[
    // c16
4294967296
    // c17
]
    // c18
pack
    // c19
@lengthOf(
    // c20
uint8x
    // c21
)
    // c22
,
    // c23
}
    // c24
root
    // c25
packet
    // c26
trueish
    // c27
{
    // c28
repeat
    // c29
uint64
    // c30
u128
    // c31
`line1
line2`
    // c32
,
    // c33
}
    // c34
")).
Eval vm_compute in ("<<<M1367>>>" ++ check (runes_of_ascii "options {
    StringPrefixLenType = u8;
    ArrayPrefixLenType = u8;
    FixedStringPadFromLeft = false;
    FixedStringPadChar = ' ';
}
packet Ack {
    char[] tag7,
}
packet Reject {
    InSym61 {
        repeat Ack,
        zchar[4] f1,
    },
}
packet Logout {
    char[4] clOrdID,
}
root packet Cancel {
    @leftPad(' ') char[10] price,
    u8 x,
    u32 venue @lengthOf(Body),
    match x as Body {
        [92, 175] : Logout,
        26 : Reject,
        144 : Ack,
    },
    u16 count @calculatedFrom(""CR\
C32""),
}
")).
Eval vm_compute in ("<<<M340>>>" ++ check (runes_of_ascii "packet leftPad//
{@rightPad () repeat chars	{crc /// triple
pack  ,
} ,
@calculatedFrom( """ ++ [28040; 24687]%N ++ runes_of_ascii """ )@lengthOf(options1  )@tag( 65535 ) Foo,match
matchKey
    as // " ++ [128512]%N ++ runes_of_ascii " emoji
tag	{
    // c
    [ ""{,}"",
""""
, ""`tick`"" ,
3 ,""it's"",  """ ++ [128512]%N ++ runes_of_ascii """	,
""it's""] :As
    , [
/// triple
//	t
""x y""]
    //x
    :
chars,""" ++ [233]%N ++ runes_of_ascii "t" ++ [233]%N ++ runes_of_ascii """	:uint8x,4294967296:	packetx
""// no comment""
:
calculatedFrom , }
,  @calculatedFrom( ""// no comment""// @lengthOf(
)
char[// trailing space 
007 ]	f32a ,} // a // b")).
Eval vm_compute in ("<<<M1444>>>" ++ check (runes_of_ascii "  options// " ++ [27880; 37322]%N ++ runes_of_ascii "

  {

T
    =zchar[ 42 ]
options1
    = 
uint8 ;
lengthOf

= 
// a // b
		char[ 4294967296 ]; } packet Z9_
	{
repeat MetaDataX
	`crlf
line`

, 
repeat string 
x_y_z,  u32
    x	,// `tick` ""quote"" 'q'

  @tag(
	// " ++ [128512]%N ++ runes_of_ascii " emoji
	// " ++ [128512]%N ++ runes_of_ascii " emoji

	00
    ) repeat
    i64  Logon	,  u8x
f32a ,repeat	lengthOf 
``,
repeat stringy

Pad
        // @lengthOf(
    `
`	,  repeat
string_
    chars `// not a comment` , }
")).
Eval vm_compute in ("<<<M1792>>>" ++ check (runes_of_ascii "// top
MetaData Packet {
    // c2
}// c3

packet charz {
    // c6
    Foo asx `it's`,// c10
    @lengthOf(T)
    // c13
    @calculatedFrom("""")
    // c16
    @calculatedFrom(""x y"")
    // c19
    zchar[007] repeatCount @lengthOf(int) `a\`,// c28
    i8 string_,// c31
    repeat options1 Pad,// c35
}// c36

root packet Packet {
    // c40
    int8 float `doc`,// c44
}// c45")).
Eval vm_compute in ("<<<M110>>>" ++ check (runes_of_ascii "root // trailing space 
packet
leftPad { T
@lengthOf(A
) `" ++ [233]%N ++ runes_of_ascii "`,
    Header
    @lengthOf( As ) // " ++ [27880; 37322]%N ++ runes_of_ascii "
,
string	calculatedFrom `{ , }`
, @tag( 1) // trailing space 
u16  x_y_z ,
@tag( 4294967296
) x_y_z metadata// " ++ [128512]%N ++ runes_of_ascii " emoji
,asx { asx `it's`
    ,} , char[ 65535 ]
As@lengthOf(
    Logon ) `a\`
,@lengthOf(
Z9_
    ) string
BodyLength ,
}")).
Eval vm_compute in ("<<<M81>>>" ++ check (runes_of_ascii "root packet o {
} MetaData uint8x
    { int64 rootA  ,}
    MetaData
As{i32 // packet A { u8 x, }
chars,	}packet Z9_// trailing space 
{
@leftPad( )char[]	x_y_z,} packet tag {	@leftPad(
// " ++ [128512]%N ++ runes_of_ascii " emoji
// " ++ [27880; 37322]%N ++ runes_of_ascii "
' '
    )
zchar[ 0 // `tick` ""quote"" 'q'
] rootA @calculatedFrom(
    ""a\\"" )
    `tab	here`
,}")).
Eval vm_compute in ("<<<M1357>>>" ++ check (runes_of_ascii "options {
    LittleEndian = false;
    StringPrefixLenType = u16;
}
packet Heartbeat {
    @rightPad('0') char[7] seqNo,
    uint64 Tail,
    i16 Flags,
    u16 msgKind,
}
root packet Reject {
    zchar[3] tag7,
    repeat Heartbeat,
    repeat string clOrdID,
}
")).
Eval vm_compute in ("<<<M1711>>>" ++ check (runes_of_ascii "
packet	lengthOf
{ 
}
root packet	leftPad
{	zchar[ 00 	 // a // b
  ] Foo`` 	 // c
  ,
    @calculatedFrom( ""1""  ) 
@leftPad
(

' ' 
	    // trailing space 
  	// " ++ [27880; 37322]%N ++ runes_of_ascii "
	  )  @leftPad( ' '
)

    repeat
u8  options1
    , }

")).
Eval vm_compute in ("<<<M318>>>" ++ check (runes_of_ascii "options {Z9_ =// trailing space 
""packet"" ;float = false
; A =
' ' }
    // c
    MetaData pack
{ zchar[
3] leftPad
,zchar
    falsey `it's` , char[] repeatCount ,char[ 65535 // " ++ [128512]%N ++ runes_of_ascii " emoji
] Z9_, }
//	t
")).
Eval vm_compute in ("<<<M1499>>>" ++ check (runes_of_ascii "packet A {
    match k as n {
        [
            ""a"", ""bb"", ""c c"", ""d"", ""e"",
            ""f"", ""g"", ""h"", ""i"", ""j"",
            ""k"", ""l""
        ] : B,
        2 : C,
    },
}")).
Eval vm_compute in ("<<<M73>>>" ++ check (runes_of_ascii "root
    packet As { //
char	charz @lengthOf( packetx
) `{ , }`,//
char[0123456789
]
MetaDataX
// " ++ [27880; 37322]%N ++ runes_of_ascii "
// `tick` ""quote"" 'q'
`it's` , zchar[
    7]o `u8 x,`
, }")).
Eval vm_compute in ("<<<M55>>>" ++ check (runes_of_ascii "MetaData x_y_z
//x
//x
{ int32
    o
,zchar[
65535  ]Packet , i64_ o , i64 o`
` , } options
{ x =
//x
/// triple
u8;
// " ++ [27880; 37322]%N ++ runes_of_ascii "
// a // b
} // trailing space ")).
Eval vm_compute in ("<<<M496>>>" ++ check (runes_of_ascii "packet uint8x
{ match pack
    as msg_type	{
    0123456789 :	float
}
,
} packet //	t
a1
    { } options {packetx
    = = '\x00'	; u128= ""a	b""  ; }
")).
Eval vm_compute in ("<<<M417>>>" ++ check (runes_of_ascii "packet uint8x
{ match pack
    msg_type as	{
    0123456789 :	float
}
,
} packet //	t
a1
    { } options {packetx
    = '\x00'	; u128= ""a	b""  ; }
")).
Eval vm_compute in ("<<<M425>>>" ++ check (runes_of_ascii "packet uint8x
{ match pack
    as msg_type	
    0123456789 :	float
}
,
} packet //	t
a1
    { } options {packetx
    = '\x00'	; u128= ""a	b""  ; }
")).
Eval vm_compute in ("<<<M1789>>>" ++ check (runes_of_ascii "

  packet 
A {  match
k
	as n{
	[ ""a""

, 22

,
""c c""  ,
	4
,
""e""  ,
	66
,

""g""	,
8
	,
	""i""
	,
10,

    ""k""
	,
12
]
    :B
	, 2

: C },

}
")).
Eval vm_compute in ("<<<M551>>>" ++ check (runes_of_ascii "packet uint8x
{ match pack
    as " ++ [21517; 23383]%N ++ runes_of_ascii "	{
    0123456789 :	float
}
,
} packet //	t
a1
    { } options {packetx
    = '\x00'	; u128= ""a	b""  ; }
")).
Eval vm_compute in ("<<<M663>>>" ++ check (runes_of_ascii "// @lengthOf(
packet i8i8 { u128 o , }
options { MetaDataX = true;
    BodyLength =""packet"" x_y_z= 007
crc //x
= ""abc"" ;
    msg_type =
i16 ")).
Eval vm_compute in ("<<<M686>>>" ++ check (runes_of_ascii "// @lengthOf(
packet i8i8 { u128 o , }
options { f64 = true;
    BodyLength =""packet"" x_y_z= 007
crc //x
= ""abc"" ;
    msg_type =
i16 }")).
Eval vm_compute in ("<<<M514>>>" ++ check (runes_of_ascii "packet uint8x
{ match pack
    as msg_type	{
    0123456789 :	float
}
,
} packet //	t
a1
    { } options {packetx
    = '\x00'	;")).
Eval vm_compute in ("<<<M504>>>" ++ check (runes_of_ascii "packet uint8x
{ match pack
    as msg_type	{
    0123456789 :	float
}
,
} packet //	t
a1
    { } options {packetx
    =")).
Eval vm_compute in ("<<<M1150>>>" ++ check (runes_of_ascii "MetaData leftPad { chars
// c
MetaDataX , } packet repeatCount { char[ 255 ] uint8x `" ++ [233]%N ++ runes_of_ascii "` , } MetaData pack { As Foo , }")).
Eval vm_compute in ("<<<M1182>>>" ++ check (runes_of_ascii "MetaData leftPad { chars MetaDataX , } packet repeatCount { char[ 255 ] uint8x `" ++ [233]%N ++ runes_of_ascii "` , } MetaData pack {
// c
As Foo , }")).
Eval vm_compute in ("<<<M136>>>" ++ check (runes_of_ascii "// a // b
options { // " ++ [128512]%N ++ runes_of_ascii " emoji
calculatedFrom=
'\x00'	; BodyLength = true ;asx // packet A { u8 x, }
= true }")).
Eval vm_compute in ("<<<M955>>>" ++ check (runes_of_ascii "packet A {
    u16 len @lengthOf(body) `
x`,
    u32 crc @calculatedFrom(""CRC32"") `
x`,
    string body,
}")).
Eval vm_compute in ("<<<M1317>>>" ++ check (runes_of_ascii "packet FooBar {
    u8 a,
}
packet foo_bar {
    u16 b,
}
root packet R {
    FooBar,
    foo_bar,
}
")).
Eval vm_compute in ("<<<M258>>>" ++ check (runes_of_ascii "packet
    metadata{ u32 // `tick` ""quote"" 'q'
Packet `say ""hi""`
,
    // trailing space 
    }")).
Eval vm_compute in ("<<<M863>>>" ++ check (runes_of_ascii "packet A {
  match k as n {
    [""a"", ""bb"", 007, ""d"", ""e"", 66, ""g"", ""h""] : B
    2 : C
  },
}")).
Eval vm_compute in ("<<<M229>>>" ++ check (runes_of_ascii "// a // b
options{
Foo
= '\x00'
    pack
= zchar[ 65535]
// " ++ [128512]%N ++ runes_of_ascii " emoji
//x
;	int = ""\n"" ;	}
")).
Eval vm_compute in ("<<<M856>>>" ++ check (runes_of_ascii "packet A {
  match k as n {
    [1, ""bb"", 007, ""d"", 5, ""f"", 7, ""h""] : B,
    2 : C
  },
}")).
Eval vm_compute in ("<<<M829>>>" ++ check (runes_of_ascii "packet A {
  match k as n {
    [""a"", ""bb"", ""c c"", ""d"", ""e"", ""f""] : B
    2 : C
  },
}")).
Eval vm_compute in ("<<<M966>>>" ++ check (runes_of_ascii "packet A {
    u32 crc @calculatedFrom(""x\
y""),
    @calculatedFrom(""x\
y"") u8 y,
}")).
Eval vm_compute in ("<<<M1252>>>" ++ check (runes_of_ascii "packet Inner {
    u8 a,
}
root packet P {
    repeat Inner items,
    u8 x,
}
")).
Eval vm_compute in ("<<<M345>>>" ++ check (runes_of_ascii "
options
{ } // " ++ [128512]%N ++ runes_of_ascii " emoji
options { float // `tick` ""quote"" 'q'
=	65535 }
")).
Eval vm_compute in ("<<<M42>>>" ++ check (runes_of_ascii "
packet roots
    { len leftPad `// not a comment`	,} packet packetx{}")).
Eval vm_compute in ("<<<M942>>>" ++ check (runes_of_ascii "packet A {
    B b `a

b`,
    B `a

b`,
    repeat B bs `a

b`,
}")).
Eval vm_compute in ("<<<M204>>>" ++ check (runes_of_ascii "  options {// " ++ [128512]%N ++ runes_of_ascii " emoji
Packet =// `tick` ""quote"" 'q'
char[3 ]}")).
Eval vm_compute in ("<<<M799>>>" ++ check (runes_of_ascii "packet A { Inner { match k as n { [1,22,007] : B, }, }, }")).
Eval vm_compute in ("<<<M1513>>>" ++ check (runes_of_ascii "packet A {
    u8 x `a
            b
          c`,
}")).
Eval vm_compute in ("<<<M1469>>>" ++ check (runes_of_ascii "
packet

    A { u8
    x `d" ++ [8239]%N ++ runes_of_ascii "`
, 	 // c" ++ [8239]%N ++ runes_of_ascii "
    }

")).
Eval vm_compute in ("<<<M434>>>" ++ check (runes_of_ascii "packet uint8x
{ match pack
    as msg_type	{")).
Eval vm_compute in ("<<<M1767>>>" ++ check (runes_of_ascii "packet MetaDataX {
    i16 u128 `" ++ [233]%N ++ runes_of_ascii "`,//x
}")).
Eval vm_compute in ("<<<M200>>>" ++ check (runes_of_ascii "options {
options1 =
    ' ' ;
}

")).
Eval vm_compute in ("<<<M1953>>>" ++ check (runes_of_ascii "

  packet
A

{
} 

    // c" ++ [8202]%N ++ runes_of_ascii "
 
")).
Eval vm_compute in ("<<<M1416>>>" ++ check (runes_of_ascii "// c" ++ [65279]%N ++ runes_of_ascii "
		packet A
    {
    }
")).
Eval vm_compute in ("<<<M217>>>" ++ check (runes_of_ascii "root	packet falsey
{
}
")).
Eval vm_compute in ("<<<M295>>>" ++ check (runes_of_ascii "root  packet
u128 { }")).
Eval vm_compute in ("<<<M1042>>>" ++ check (runes_of_ascii "// c 	
packet A {
}")).
Eval vm_compute in ("<<<M1011>>>" ++ check (runes_of_ascii "packet A {
}
// c" ++ [8232]%N)).
Eval vm_compute in ("<<<M979>>>" ++ check (runes_of_ascii "packet A {
}// c" ++ [12288]%N)).
Eval vm_compute in ("<<<M1575>>>" ++ check (runes_of_ascii "MetaData tag {
}")).
Eval vm_compute in ("<<<M750>>>" ++ check (runes_of_ascii "uk%W,3^r>l")).
Eval vm_compute in ("<<<M1496>>>" ++ check (runes_of_ascii "// " ++ [27880; 37322]%N)).
