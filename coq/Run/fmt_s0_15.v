From FP Require Import Lexer Parser ShowPT Digest Formatter.
From Coq Require Import String List NArith.
Import ListNotations.
Open Scope string_scope.
Set Printing Width 100000000.
Set Printing Depth 100000000.
Definition show_fres (r : fres) : string :=
  match r with
  | FOk s => "OK:" ++ sh_escaped s ""
  | FErr s => "ERR:" ++ sh_escaped s ""
  | FPanic p => "PANIC:" ++ p
  end.
Definition check (rs : list rune) : string := digest (show_fres (format_res rs)).
Definition full (rs : list rune) : string := show_fres (format_res rs).
Eval vm_compute in ("<<<M1469>>>" ++ check (runes_of_ascii "options {
    MetaDataX = true
}

root packet u8x {
    repeat uint16 u8x `" ++ [28040; 24687; 31867; 22411]%N ++ runes_of_ascii "`,
    @tag(42)
    char[7] trueish @lengthOf(Pad),
    tag @lengthOf(A) `say ""hi""`,
    float rootA,// " ++ [27880; 37322]%N ++ runes_of_ascii "
    Foo,
    repeat uint32 calculatedFrom,
}

root packet u128 {
    repeat Packet metadata,
    repeat zchar[0123456789] len `u8 x,`,
    f32 BodyLength @lengthOf(Z9_) `it's`,
    match crc as Packet {
        0 : i64_,
        [255] : rootA,
        [
            ""a	b"", ""\" ++ [233]%N ++ runes_of_ascii """, ""\" ++ [233]%N ++ runes_of_ascii """,
            0, 4294967296
        ] : i8i8,
    },
    @tag(1)
    @calculatedFrom(""\" ++ [233]%N ++ runes_of_ascii """)
    string f32a @calculatedFrom(""abc""),
    repeat As {
        matchKey {
            crc @calculatedFrom(""// no comment""),
        },
        lengthOf `crlf
        line`,
        // a // b
        // a // b
        T Pad `a\`,
        repeat i8i8 charz,// a // b
    },
}

packet packetx {
    @lengthOf(Packet)
    repeat uint8x `line1
    line2`,
    @tag(0123456789)
    string BodyLength @calculatedFrom(""" ++ [28040; 24687]%N ++ runes_of_ascii """),// trailing space 
    zchar[42] MetaDataX,
    char A @lengthOf(tag) `two words`,
    @tag(10)
    @calculatedFrom(""" ++ [28040; 24687]%N ++ runes_of_ascii """)
    @calculatedFrom(""x y"")
    char[7] repeatCount @calculatedFrom(""// no comment""),
    @calculatedFrom(""it's"")
    char[65535] packetx `// not a comment`,
    @leftPad(' ')
    match tag as packetx {
        00 : int,
    },
    @tag(7)
    @lengthOf(float)
    @tag(0123456789)
    Z9_,
    @tag(00)
    tag {
        uint16 MetaDataX,
        u tag `tab	here`,
        float64 Packet @calculatedFrom(""{,}""),
        x_y_z u128,
    },
    char[] msg_type @lengthOf(calculatedFrom) `line1
    line2`,
}

MetaData float {
    uint32 crc,
    charz msg_type,
    u128 crc,
    string stringy `" ++ [233]%N ++ runes_of_ascii "`,
}")).
Eval vm_compute in ("<<<M1330>>>" ++ check (runes_of_ascii "// top
packet // c0a
  // c0b
Frame // c1a
  // c1b
{ // c2a
  // c2b
u8 // c3
HK // c4
,
    // c5
u8
    // c6
BK // c7
, // c8a
  // c8b
u8 // c9
TK // c10
, // c11a
  // c11b
match // c12
HK as Hdr // c15a
  // c15b
{ // c16
1
    // c17
:
    // c18
HdrA , 2 // c21
:
    // c22
HdrB // c23
, // c24a
  // c24b
} ,
    // c26
match
    // c27
BK as
    // c29
Body // c30
{
    // c31
1 : // c33a
  // c33b
BodyA // c34
,
    // c35
2 :
    // c37
BodyB , } // c40a
  // c40b
, // c41
match // c42
TK
    // c43
as // c44
Trl // c45a
  // c45b
{ // c46a
  // c46b
1
    // c47
: // c48
TrlA , // c50a
  // c50b
} // c51a
  // c51b
, // c52a
  // c52b
} // c53a
  // c53b
packet HdrA // c55
{ u8 // c57
a // c58a
  // c58b
, // c59
} // c60
packet // c61a
  // c61b
HdrB
    // c62
{ // c63a
  // c63b
u16
    // c64
b // c65
, // c66
} // c67
packet // c68
BodyA { // c70a
  // c70b
u32
    // c71
c // c72
, } // c74
packet
    // c75
BodyB {
    // c77
u64 // c78a
  // c78b
d // c79
, // c80a
  // c80b
} // c81a
  // c81b
packet TrlA // c83a
  // c83b
{
    // c84
u8 e // c86
,
    // c87
} // c88a
  // c88b
root // c89a
  // c89b
packet
    // c90
Msg
    // c91
{ Frame , // c94a
  // c94b
u8 // c95a
  // c95b
x // c96a
  // c96b
, // c97a
  // c97b
}
    // c98
")).
Eval vm_compute in ("<<<M1881>>>" ++ check (runes_of_ascii "root
    packet u 
{ 
match  //x

  T

as body	// c
  {	[
""a\""b"", 3

    ]
:

    stringy ""a	b""
	:
	charz // a // b
, 10	:

    lengthOf 	 // " ++ [128512]%N ++ runes_of_ascii " emoji
  	, 
""CRC32""
:	falsey
,0123456789
	:	_x ,

    }

,
	body
    @lengthOf( i64_ ) ,

    u64
	chars
`u8 x,`  , T

{  i64_

    string_
    , 
u32
    metadata

,
zchar[

    1
	] Z9_	, }

    // c
,

    @calculatedFrom(
""a\\"" 
)
rootA 	 // " ++ [128512]%N ++ runes_of_ascii " emoji
	x_y_z	`u8 x,`

,

    zchar[ 007 ] body @calculatedFrom(

    ""\n""
)
,
@leftPad
	(
    '0' )
@rightPad('0'
    )	@calculatedFrom(
""" ++ [233]%N ++ runes_of_ascii "t" ++ [233]%N ++ runes_of_ascii """ )repeat
uint64 
A ,
repeat u8x	{
match o
as

x

    {10  :

charz 

// " ++ [27880; 37322]%N ++ runes_of_ascii "
	// " ++ [27880; 37322]%N ++ runes_of_ascii "
  ,

""a	b"":matchKey

    , ""x y""
:trueish
,

    [
""" ++ [233]%N ++ runes_of_ascii "t" ++ [233]%N ++ runes_of_ascii """

]:

    zchar
	,
""1""

:  charz	// " ++ [27880; 37322]%N ++ runes_of_ascii "

, 
[	""a\""b""
, ""abc""	,""a\\""
,  ""abc"",
    // packet A { u8 x, }
  // " ++ [128512]%N ++ runes_of_ascii " emoji
"""" 

// packet A { u8 x, }
  /// triple
  ]
    : u8x, }

, }	,repeat falsey
{
	rootA

tag 
, zchar[  /// triple
  0
    ]  falsey
,} ,
charz  a1

    `{ , }`

, }
root

packet/// triple
		Header	{}
")).
Eval vm_compute in ("<<<M1309>>>" ++ check (runes_of_ascii "// top
packet // c0a
  // c0b
A { // c2
u8 // c3a
  // c3b
a , // c5
} // c6a
  // c6b
packet // c7a
  // c7b
B {
    // c9
u16 b // c11
, } // c13a
  // c13b
packet // c14
C
    // c15
{
    // c16
u32
    // c17
c // c18
, // c19a
  // c19b
}
    // c20
root packet // c22a
  // c22b
M // c23
{ u16 Kc
    // c26
,
    // c27
u16 // c28a
  // c28b
Kb , // c30
u16 Ka
    // c32
, match // c34a
  // c34b
Kc // c35
as X
    // c37
{
    // c38
9 // c39
:
    // c40
A
    // c41
, 10 :
    // c44
B
    // c45
,
    // c46
} , match
    // c49
Kb // c50
as // c51a
  // c51b
Y // c52
{ 2 // c54a
  // c54b
:
    // c55
C , // c57
1 // c58
: A , // c61a
  // c61b
} // c62
, // c63a
  // c63b
match
    // c64
Ka as // c66
Z // c67
{
    // c68
1 // c69a
  // c69b
: B // c71a
  // c71b
, // c72
} // c73a
  // c73b
, // c74
A // c75a
  // c75b
, // c76
B
    // c77
,
    // c78
C , // c80
} ")).
Eval vm_compute in ("<<<M141>>>" ++ check (runes_of_ascii "options // @lengthOf(
{zchar = char[] Z9_	='0' ;
} options
{ asx = char[] }root packet leftPad { T @lengthOf(
    f32a//
)
, } //
root
//x
// @lengthOf(
packet calculatedFrom {
u
    {//	t
char[] // packet A { u8 x, }
T `" ++ [233]%N ++ runes_of_ascii "`	,	match stringy /// triple
as //	t
chars { [
    0123456789 ]
: T ,
// `tick` ""quote"" 'q'
// " ++ [27880; 37322]%N ++ runes_of_ascii "
}	, uint16 a1 @lengthOf( x) , string
chars `two words` ,
} , @calculatedFrom(
    ""x y"")char[]
// " ++ [27880; 37322]%N ++ runes_of_ascii "
// " ++ [128512]%N ++ runes_of_ascii " emoji
body @lengthOf(
lengthOf )
    /// triple
    ,
    @lengthOf(	A	)rootA
,	@lengthOf(i64_ ) // packet A { u8 x, }
repeat f32a { lengthOf
    // " ++ [128512]%N ++ runes_of_ascii " emoji
    charz // a // b
`" ++ [28040; 24687; 31867; 22411]%N ++ runes_of_ascii "`, }
    // packet A { u8 x, }
    ,
match tag as
//x
//	t
T { [
3
] : falsey , }	,zchar[
    00
    ] charz@lengthOf(
    Pad
) ,
@tag( 3	) lengthOf{ i16 As ,
} ,
} root
packet	body{ }
")).
Eval vm_compute in ("<<<M1680>>>" ++ check (runes_of_ascii "MetaData len {
    i8 _x ``,
    zchar[00] tag,
    roots u,
    uint16 repeatCount,
    msg_type tag,
}

packet x_y_z {
    metadata {
        i8i8 chars,
        i64 chars,
    },
    repeat u16 asx,
}

packet u8x {
    @lengthOf(BodyLength)
    @leftPad()
    float `
    `,
    @calculatedFrom(""// no comment"")
    float32 chars `// not a comment`,
    uint32 u128,
    @tag(0)
    int16 tag,
    leftPad msg_type,// trailing space 
    pack `tab	here`,
    @lengthOf(repeatCount)
    zchar[4294967296] len,
    i32 packetx `tab	here`,
    calculatedFrom,
    metadata @calculatedFrom(""// no comment""),
}

options {
    // trailing space 
    options1 = 42;
    i64_ = char[]
    falsey = 42// a // b
    Packet = true;
}")).
Eval vm_compute in ("<<<M216>>>" ++ check (runes_of_ascii "// " ++ [27880; 37322]%N ++ runes_of_ascii "
packet chars {match
charz
as
    // trailing space 
    A // trailing space 
{0123456789: rootA ,
    42
:
    x , ""1"" :Logon , 7 :u , ""\n"" : packetx , }, char[]MetaDataX
@calculatedFrom(""""
) `" ++ [233]%N ++ runes_of_ascii "`
    // trailing space 
    ,	@leftPad( ' ' )  char[] Foo,
    crc , f64 string_ , // " ++ [128512]%N ++ runes_of_ascii " emoji
char[]
packetx,i64 u8x@lengthOf(  stringy ) `// not a comment`, repeat zchar {
repeat
A _x , lengthOf	@lengthOf( u8x
) ,	match A as matchKey { 3 :Z9_ , ""// no comment"": As 00 //x
:
i64_ ,
// a // b
// " ++ [128512]%N ++ runes_of_ascii " emoji
""a\\""  :i64_ , [ ""`tick`""/// triple
] : T ,
    }
,
// a // b
// packet A { u8 x, }
uint32 T
`" ++ [28040; 24687; 31867; 22411]%N ++ runes_of_ascii "`
    , }
    , uint64
    /// triple
    charz
, }")).
Eval vm_compute in ("<<<M131>>>" ++ check (runes_of_ascii "
root
packet
u8x{ char
// trailing space 
// @lengthOf(
i64_ ,repeat char[1
] Z9_ , @tag(
//x
// " ++ [128512]%N ++ runes_of_ascii " emoji
42
) repeat Logon MetaDataX , @leftPad
    //
    ( )
    Foo
@lengthOf( As
    ) // " ++ [128512]%N ++ runes_of_ascii " emoji
, match u128	as //	t
calculatedFrom {// " ++ [128512]%N ++ runes_of_ascii " emoji
4294967296:
BodyLength,
    3:  A , //
[ 4294967296//
, ""packet""] : o	, 65535 : roots } ,
repeat Pad { uint64 x @calculatedFrom( """ ++ [128512]%N ++ runes_of_ascii """
    ) , a1 @lengthOf( As)
    `line1
line2` ,	repeat string_{repeat uint32 _x	, f32
MetaDataX `it's`
    //	t
    , u64 As  @lengthOf( crc ) , } ,
    roots , }, zchar[  00] // @lengthOf(
u128, }
//	t
")).
Eval vm_compute in ("<<<M1732>>>" ++ check (runes_of_ascii "packet u128 {
    // trailing space 
    string Header `say ""hi""`,
    repeat crc f32a,
    char[10] _x,
    @calculatedFrom(""x y"")
    repeat charz {
        Logon @lengthOf(T) `crlf
        line`,
        repeat char[0123456789] Z9_ `crlf
        line`,
    },
    match Packet as float {
        1 : lengthOf,
    },
    MetaDataX,
    match x as u8x {
        10 : crc,
    },
}

root packet Header {
    @calculatedFrom(""{,}"")
    a1 {
        char[007] pack,
        stringy zchar,
        repeat char[] o `it's`,
    },
}")).
Eval vm_compute in ("<<<M334>>>" ++ check (runes_of_ascii "MetaData pack {
int16 rootA `{ , }` ,
    //	t
    int16 // c
x,// " ++ [27880; 37322]%N ++ runes_of_ascii "
u32 msg_type,
    }
packet i64_
    {// trailing space 
@leftPad
    ( '0') @rightPad ( '\x00' // packet A { u8 x, }
)
@lengthOf(options1	)
    string body @lengthOf( asx) `" ++ [233]%N ++ runes_of_ascii "` ,
    }
options { msg_type
    //	t
    = 00//
;} MetaData
    stringy// c
{
    zchar MetaDataX `line1
line2` , char[255] len `it's` , f32 pack ,
    uint16 Foo
`it's` , int16 i64_`two words` ,
    // `tick` ""quote"" 'q'
    }")).
Eval vm_compute in ("<<<M1730>>>" ++ check (runes_of_ascii "
// top
	  options  // c0
	{  // c1
    	f32a// c2
      = 	 // c3
0  // c4
	} 	 // c5

packet// c6
	trueish// c7

	{  // c8

}// c9
  MetaData 	 // c10
  _x // c11
	{// c12
    char[  // c13
	0123456789 // c14
    ] // c15
	zchar // c16
,  // c17
    string 	 // c18
		crc 	 // c19

,// c20
	  char[	// c21

1  // c22
]// c23

	options1	// c24
  ,  // c25
    uint8  // c26
    	repeatCount	// c27
,  // c28
  }// c29
")).
Eval vm_compute in ("<<<M1656>>>" ++ check (runes_of_ascii "// top
    	packet 

// c0
B

    // c1

{	// c2
	u8  
  // c3
      a 	 // c4
  , string  // c6
	s 
	    // c7
,}
	root	// c10
    	packet 
    // c11
  P  // c12a
  // c12b
	{
	    // c13
	u16 
	    // c14
  L	// c15a
  	// c15b
	@lengthOf(
B 
      // c17
  ) 

// c18
  ,
        // c19
    B  
      // c20
  ,
u8	// c22a
    // c22b

t
    // c23
		, 	 // c24
	}
")).
Eval vm_compute in ("<<<M248>>>" ++ check (runes_of_ascii "packet a1
    { char[]	charz @calculatedFrom(
    //x
    """ ++ [28040; 24687]%N ++ runes_of_ascii """)
,
    uint8x`crlf
line`
    , uint64 T  `line1
line2` ,
    @leftPad (
'0')
// a // b
/// triple
@calculatedFrom( ""abc"" )
@tag( 3 ) match
int // a // b
as len
{ 0	:  chars, [ 10, ""a\\"",
1 ,0 ,10 , 0
    ] : body, 007 :
    // a // b
    rootA // a // b
, } , falsey options1 , }
")).
Eval vm_compute in ("<<<M1472>>>" ++ check (runes_of_ascii "// top
packet float {
    // c2
    @rightPad()
    // c5
    rootA @lengthOf(trueish),
    // c10
    stringy @lengthOf(matchKey),
    // c15
    char[4294967296] pack @lengthOf(uint8x),
    // c23
}

// c24
root packet trueish {
    // c28
    repeat uint64 u128 `line1
        line2`,
    // c33
}
// c34")).
Eval vm_compute in ("<<<M1849>>>" ++ check (runes_of_ascii "options {
    a1 = '\x00'
    As = ""{,}""
    u8x = ""a	b"";
    asx = u64;
    o = 0123456789
}

packet Header {
    //
    @lengthOf(x)
    // " ++ [27880; 37322]%N ++ runes_of_ascii "
    repeat falsey {
        repeatCount trueish `u8 x,`,
    },
    // `tick` ""quote"" 'q'
    // " ++ [128512]%N ++ runes_of_ascii " emoji
    zchar[65535] x,
}")).
Eval vm_compute in ("<<<M267>>>" ++ check (runes_of_ascii "packet trueish{
@leftPad (// @lengthOf(
'0'  ) @tag(  3/// triple
) @tag(
7 ) repeat
//x
// @lengthOf(
matchKey
{ u32 u,
}  , @lengthOf( chars
) @calculatedFrom(
""a	b"") @tag( 0123456789
    )zchar[255 ]Pad ,  } root
    packet u { }
")).
Eval vm_compute in ("<<<M273>>>" ++ check (runes_of_ascii "root packet string_ { @leftPad (
    ' ' )  chars { repeat
zchar[ 0
]  tag ,string falsey,// " ++ [128512]%N ++ runes_of_ascii " emoji
repeat  char[ 007] body  `two words`
    , } , @calculatedFrom(
""// no comment"" ) Foo T
    , // " ++ [128512]%N ++ runes_of_ascii " emoji
}
")).
Eval vm_compute in ("<<<M357>>>" ++ check (runes_of_ascii "MetaData x_y_z
{
lengthOf // packet A { u8 x, }
rootA , MetaDataX// " ++ [128512]%N ++ runes_of_ascii " emoji
_x , char[ 4294967296 ] stringy , char[
//
// c
007
] u128
, tag u8x `line1
line2` ,  uint8 u128 , }
")).
Eval vm_compute in ("<<<M1196>>>" ++ check (runes_of_ascii "// top
packet // c0a
  // c0b
body
    // c1
{ i32 // c3
f32a
    // c4
`{ , }` // c5a
  // c5b
, }
    // c7
options // c8a
  // c8b
{ // c9
} // c10a
  // c10b
")).
Eval vm_compute in ("<<<M406>>>" ++ check (runes_of_ascii "packet uint8x
{ match match pack
    as msg_type	{
    0123456789 :	float
}
,
} packet //	t
a1
    { } options {packetx
    = '\x00'	; u128= ""a	b""  ; }
")).
Eval vm_compute in ("<<<M401>>>" ++ check (runes_of_ascii "packet uint8x
{ { match pack
    as msg_type	{
    0123456789 :	float
}
,
} packet //	t
a1
    { } options {packetx
    = '\x00'	; u128= ""a	b""  ; }
")).
Eval vm_compute in ("<<<M549>>>" ++ check (runes_of_ascii "pa\cket uint8x
{ match pack
    as msg_type	{
    0123456789 :	float
}
,
} packet //	t
a1
    { } options {packetx
    = '\x00'	; u128= ""a	b""  ; }
")).
Eval vm_compute in ("<<<M507>>>" ++ check (runes_of_ascii "packet uint8x
{ match pack
    as msg_type	{
    0123456789 :	float
}
,
} packet //	t
a1
    { } options {packetx
    = '\x00'	u128 ;= ""a	b""  ; }
")).
Eval vm_compute in ("<<<M465>>>" ++ check (runes_of_ascii "packet uint8x
{ match pack
    as msg_type	{
    0123456789 :	float
}
,
} packet //	t

    { } options {packetx
    = '\x00'	; u128= ""a	b""  ; }
")).
Eval vm_compute in ("<<<M687>>>" ++ check (runes_of_ascii "// @lengthOf(
packet i8i8 { u128 o , , }
options { MetaDataX = true;
    BodyLength =""packet"" x_y_z= 007
crc //x
= ""abc"" ;
    msg_type =
i16 }")).
Eval vm_compute in ("<<<M707>>>" ++ check (runes_of_ascii "// @lengthOf(
packet i8i8 { u128 o , }
options { MetaDataX = true;
    BodyLength =MetaData x_y_z= 007
crc //x
= ""abc"" ;
    msg_type =
i16 }")).
Eval vm_compute in ("<<<M1668>>>" ++ check (runes_of_ascii "packet A {
    Inner {
        u8 x `
                x`,
        Deep {
            u8 y `
                        x`,
        },
    },
}")).
Eval vm_compute in ("<<<M1832>>>" ++ check (runes_of_ascii "packet T {
    int u,
    @calculatedFrom(""\" ++ [233]%N ++ runes_of_ascii """)
    // `tick` ""quote"" 'q'
    repeat string x_y_z,
    uint32 int `crlf
    line`,
}")).
Eval vm_compute in ("<<<M1721>>>" ++ check (runes_of_ascii "packet A {
    u16 len @lengthOf(body) `a
    
    b`,
    u32 crc @calculatedFrom(""CRC32"") `a
    
    b`,
    string body,
}")).
Eval vm_compute in ("<<<M1144>>>" ++ check (runes_of_ascii "MetaData
// c
leftPad { chars MetaDataX , } packet repeatCount { char[ 255 ] uint8x `" ++ [233]%N ++ runes_of_ascii "` , } MetaData pack { As Foo , }")).
Eval vm_compute in ("<<<M1176>>>" ++ check (runes_of_ascii "MetaData leftPad { chars MetaDataX , } packet repeatCount { char[ 255 ] uint8x `" ++ [233]%N ++ runes_of_ascii "` , }
// c
MetaData pack { As Foo , }")).
Eval vm_compute in ("<<<M1491>>>" ++ check (runes_of_ascii "packet

    FooBar{
	u8
	a

    ,

}packet

foo_bar
{  u16
	b 
, } root packet R {FooBar, foo_bar

    , }
")).
Eval vm_compute in ("<<<M489>>>" ++ check (runes_of_ascii "packet uint8x
{ match pack
    as msg_type	{
    0123456789 :	float
}
,
} packet //	t
a1
    { } options")).
Eval vm_compute in ("<<<M353>>>" ++ check (runes_of_ascii "options { _x
    =
    ""`tick`""	;matchKey=
""it's""
;	options1
    = u16 ; stringy= true
    // c
    }
")).
Eval vm_compute in ("<<<M1565>>>" ++ check (runes_of_ascii "packet A {
    Inner {
        match k as n {
            [1, 22, 007, 4] : B,
        },
    },
}")).
Eval vm_compute in ("<<<M872>>>" ++ check (runes_of_ascii "packet A {
  match k as n {
    [""a"", 22, ""c c"", 4, ""e"", 66, ""g"", 8, ""i""] : B
    2 : C
  },
}")).
Eval vm_compute in ("<<<M618>>>" ++ check (runes_of_ascii "
packet
    asx {match u128 as lengthOf
{
//	t
// `tick` ""quote"" 'q'
255 : x ,
    } , ,	}")).
Eval vm_compute in ("<<<M589>>>" ++ check (runes_of_ascii "
packet
    asx {match u128 as lengthOf
255
//	t
// `tick` ""quote"" 'q'
{ : x ,
    } ,	}")).
Eval vm_compute in ("<<<M936>>>" ++ check (runes_of_ascii "packet A {
    B b `a
    b
  c`,
    B `a
    b
  c`,
    repeat B bs `a
    b
  c`,
}")).
Eval vm_compute in ("<<<M1499>>>" ++ check (runes_of_ascii "packet A {
    match k as n {
        [1, 22, ""c c"", 4] : B,
        2 : C,
    },
}")).
Eval vm_compute in ("<<<M824>>>" ++ check (runes_of_ascii "packet A {
  match k as n {
    [""a"", ""bb"", 007, ""d"", ""e""] : B
    2 : C
  },
}")).
Eval vm_compute in ("<<<M464>>>" ++ check (runes_of_ascii "packet uint8x
{ match pack
    as msg_type	{
    0123456789 :	float
}
,
}")).
Eval vm_compute in ("<<<M790>>>" ++ check (runes_of_ascii "packet A {
  match k as n {
    [""a"", ""bb"", ""c c""] : B
    2 : C
  },
}")).
Eval vm_compute in ("<<<M1581>>>" ++ check (runes_of_ascii "MetaData M {
    u8 x `tab
        	x`,
    T t `tab
        	x`,
}")).
Eval vm_compute in ("<<<M1729>>>" ++ check (runes_of_ascii "packet
A
{ match  k
	as
n

{

    [
    1

]
: B 2 :	C

},}
")).
Eval vm_compute in ("<<<M1394>>>" ++ check (runes_of_ascii "// top
root packet P {
    // c3
    string s,
    // c6
}")).
Eval vm_compute in ("<<<M1078>>>" ++ check (runes_of_ascii "// a
MetaData M {} // b
// c
MetaData N {} // d
// e")).
Eval vm_compute in ("<<<M777>>>" ++ check (runes_of_ascii "packet A { Inner { match k as n { [1] : B, }, }, }")).
Eval vm_compute in ("<<<M7>>>" ++ check (runes_of_ascii "options {  metadata = ""a\\""// @lengthOf(
;}
")).
Eval vm_compute in ("<<<M1066>>>" ++ check (runes_of_ascii "packet A {
    u8 x,    // c    u8 y,
}")).
Eval vm_compute in ("<<<M200>>>" ++ check (runes_of_ascii "options {
options1 =
    ' ' ;
}

")).
Eval vm_compute in ("<<<M1807>>>" ++ check (runes_of_ascii "
packet  A
    {

} 
    // c" ++ [6158]%N ++ runes_of_ascii "
")).
Eval vm_compute in ("<<<M1053>>>" ++ check (runes_of_ascii "packet A {
 u8 x `d" ++ [65279]%N ++ runes_of_ascii "`, // c" ++ [65279]%N ++ runes_of_ascii "
}")).
Eval vm_compute in ("<<<M1551>>>" ++ check (runes_of_ascii "packet
// c
    	x
{  }
")).
Eval vm_compute in ("<<<M153>>>" ++ check (runes_of_ascii "// trailing space 

")).
Eval vm_compute in ("<<<M22>>>" ++ check (runes_of_ascii "packet leftPad {
}")).
Eval vm_compute in ("<<<M997>>>" ++ check (runes_of_ascii "// c" ++ [5760]%N ++ runes_of_ascii "
packet A {
}")).
Eval vm_compute in ("<<<M277>>>" ++ check (runes_of_ascii "MetaData i64_ { }")).
Eval vm_compute in ("<<<M356>>>" ++ check (runes_of_ascii "packet uint8x {}")).
Eval vm_compute in ("<<<M1495>>>" ++ check (runes_of_ascii "/// triple")).
Eval vm_compute in ("<<<M157>>>" ++ check (runes_of_ascii "//

")).
